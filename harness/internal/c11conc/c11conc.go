// Package c11conc runs stats.MannWhitneyUTest on a batch of sample pairs from
// many goroutines at the same time (property C11, concurrent calls). It is
// shared by the generator (in process) and by cmd/c11race (the same batch in a
// binary built with -race).
package c11conc

import (
	"math"
	"runtime"
	"sync"

	st "golang.org/x/perf/verifbridge/stats"
)

// Job is one call: two integer-valued samples and the alternative (-1, 0, 1).
type Job struct {
	X1  []int64 `json:"x1"`
	X2  []int64 `json:"x2"`
	Alt int     `json:"alt"`
}

// Outcome of one call: Code 0 = result, 1 = ErrSampleSize, 2 = ErrSamplesEqual,
// 3 = panic, 4 = other error or nil result. Floats by bit pattern.
type Outcome struct {
	Code   int    `json:"code"`
	N1     int    `json:"n1"`
	N2     int    `json:"n2"`
	U      uint64 `json:"u"`
	P      uint64 `json:"p"`
	AltOut int    `json:"alt"`
}

// Batch is the script handed to cmd/c11race.
type Batch struct {
	Jobs       []Job `json:"jobs"`
	Goroutines int   `json:"goroutines"`
	Rounds     int   `json:"rounds"`
}

// Result of running a batch concurrently.
type Result struct {
	// Distinct[j]: the distinct outcomes any goroutine observed for job j, in
	// order of (goroutine, round); one element when all calls agreed.
	Distinct [][]Outcome `json:"distinct"`
	// Calls is the number of calls made, Unchanged whether every job's input
	// slices still held their values after all calls.
	Calls      int  `json:"calls"`
	Unchanged  bool `json:"unchanged"`
	GoMaxProcs int  `json:"gomaxprocs"`
}

func Floats(x []int64) []float64 {
	f := make([]float64, len(x))
	for i, v := range x {
		f[i] = float64(v)
	}
	return f
}

// Call runs the test once, turning errors and panics into data.
func Call(x1, x2 []float64, alt int) (out Outcome) {
	defer func() {
		if rec := recover(); rec != nil {
			out = Outcome{Code: 3}
		}
	}()
	r, err := st.MannWhitneyUTest(x1, x2, st.LocationHypothesis(alt))
	switch {
	case err == st.ErrSampleSize:
		return Outcome{Code: 1}
	case err == st.ErrSamplesEqual:
		return Outcome{Code: 2}
	case err != nil || r == nil:
		return Outcome{Code: 4}
	}
	return Outcome{Code: 0, N1: r.N1, N2: r.N2, U: math.Float64bits(r.U), P: math.Float64bits(r.P), AltOut: int(r.AltHypothesis)}
}

// Run starts b.Goroutines goroutines behind one barrier; goroutine g makes
// b.Rounds passes over the jobs, starting at job g (so that different sample
// pairs are in flight at the same time), each on its own float64 copies made
// BEFORE the barrier (the calls themselves share nothing but the package).
func Run(b Batch) Result {
	nj := len(b.Jobs)
	type in struct{ x1, x2 []float64 }
	ins := make([][]in, b.Goroutines)
	for g := range ins {
		ins[g] = make([]in, nj)
		for j, job := range b.Jobs {
			ins[g][j] = in{Floats(job.X1), Floats(job.X2)}
		}
	}
	outs := make([][]Outcome, b.Goroutines) // [g][round*nj + k]
	start := make(chan struct{})
	var wg sync.WaitGroup
	for g := 0; g < b.Goroutines; g++ {
		outs[g] = make([]Outcome, b.Rounds*nj)
		wg.Add(1)
		go func(g int) {
			defer wg.Done()
			<-start
			for rd := 0; rd < b.Rounds; rd++ {
				for k := 0; k < nj; k++ {
					j := (g + k) % nj
					outs[g][rd*nj+k] = Call(ins[g][j].x1, ins[g][j].x2, b.Jobs[j].Alt)
				}
			}
		}(g)
	}
	close(start)
	wg.Wait()
	res := Result{Distinct: make([][]Outcome, nj), Unchanged: true, GoMaxProcs: runtime.GOMAXPROCS(0)}
	for g := 0; g < b.Goroutines; g++ {
		for rd := 0; rd < b.Rounds; rd++ {
			for k := 0; k < nj; k++ {
				j := (g + k) % nj
				o := outs[g][rd*nj+k]
				res.Calls++
				seen := false
				for _, d := range res.Distinct[j] {
					if d == o {
						seen = true
						break
					}
				}
				if !seen {
					res.Distinct[j] = append(res.Distinct[j], o)
				}
			}
		}
		for j, job := range b.Jobs {
			for i, v := range job.X1 {
				if math.Float64bits(ins[g][j].x1[i]) != math.Float64bits(float64(v)) {
					res.Unchanged = false
				}
			}
			for i, v := range job.X2 {
				if math.Float64bits(ins[g][j].x2[i]) != math.Float64bits(float64(v)) {
					res.Unchanged = false
				}
			}
		}
	}
	return res
}
