// Package c04conc runs batches of CONCURRENT unit normalisations (property
// C04): several goroutines meet the same previously unseen unit at overlapping
// times, through benchunit.Tidy directly and through their own
// benchfmt.Reader.  Shared by the generator and cmd/c04race (which is built
// plain and with -race).  The memo table of benchunit is process-wide, so a
// unit is "unseen" once per process: every run is its own process.
package c04conc

import (
	"bytes"
	"math"
	"runtime"
	"strconv"
	"strings"
	"sync"
	"sync/atomic"

	"golang.org/x/perf/benchfmt"
	"golang.org/x/perf/benchunit"
)

// UnitSpec is the recipe of a unit: Head + (Sep Stem i) for i < N + Tail.
type UnitSpec struct {
	Head string `json:"head"`
	Sep  string `json:"sep"`
	Stem string `json:"stem"`
	N    int    `json:"n"`
	Tail string `json:"tail"`
}

func (s UnitSpec) Unit() string {
	var sb strings.Builder
	sb.WriteString(s.Head)
	for i := 0; i < s.N; i++ {
		sb.WriteString(s.Sep)
		sb.WriteString(s.Stem)
		sb.WriteString(strconv.Itoa(i))
	}
	sb.WriteString(s.Tail)
	return sb.String()
}

type Batch struct {
	Units      []UnitSpec `json:"units"`
	Values     []float64  `json:"values"` // the value tidied with unit k (finite)
	Goroutines int        `json:"goroutines"`
	Stagger    int        `json:"stagger"` // goroutine g spins g*Stagger iterations after the barrier
	Readers    int        `json:"readers"` // every Readers-th goroutine goes through its own benchfmt.Reader (0: none)
	Pairs      bool       `json:"pairs"`   // per round TWO unseen units are met at the same time: even goroutines meet unit 2j, odd ones unit 2j+1
}

// Outcome of one normalisation: Code 0 = (Value bits, Unit); 3 = panic; 2 = the reader delivered no result
type Outcome struct {
	Code  int    `json:"code"`
	Value uint64 `json:"value"`
	Unit  string `json:"unit"`
}

type Result struct {
	Distinct   [][]Outcome `json:"distinct"` // per unit, over all goroutines and both calls
	Calls      int         `json:"calls"`
	ViaReader  int         `json:"via_reader"`
	GoMaxProcs int         `json:"gomaxprocs"`
}

func bits(x float64) uint64 {
	if math.IsNaN(x) {
		return 0x7FF8000000000001
	}
	return math.Float64bits(x)
}

func tidy(v float64, u string) (out Outcome) {
	defer func() {
		if rec := recover(); rec != nil {
			out = Outcome{Code: 3}
		}
	}()
	tv, tu := benchunit.Tidy(v, u)
	return Outcome{Code: 0, Value: bits(tv), Unit: tu}
}

func scan(rd *benchfmt.Reader) (out Outcome) {
	defer func() {
		if rec := recover(); rec != nil {
			out = Outcome{Code: 3}
		}
	}()
	if !rd.Scan() {
		return Outcome{Code: 2}
	}
	res, ok := rd.Result().(*benchfmt.Result)
	if !ok || len(res.Values) != 1 {
		return Outcome{Code: 2}
	}
	return Outcome{Code: 0, Value: bits(res.Values[0].Value), Unit: res.Values[0].Unit}
}

var sink uint64

func Run(b Batch) Result {
	units := make([]string, len(b.Units))
	for k, s := range b.Units {
		units[k] = s.Unit()
	}
	G, K := b.Goroutines, len(units)
	rounds := K
	if b.Pairs {
		rounds = (K + 1) / 2
	}
	// the unit goroutine g meets in round j
	unitOf := func(g, j int) int {
		if !b.Pairs {
			return j
		}
		return min(2*j+g%2, K-1)
	}
	outs := make([][]Outcome, G) // [g][2j], [g][2j+1]
	var arrived int64
	var wg sync.WaitGroup
	viaReader := 0
	for g := 0; g < G; g++ {
		outs[g] = make([]Outcome, 2*rounds)
		useReader := b.Readers > 0 && g%b.Readers == b.Readers-1
		if useReader {
			viaReader++
		}
		wg.Add(1)
		go func(g int, useReader bool) {
			defer wg.Done()
			var rd *benchfmt.Reader
			if useReader {
				var text bytes.Buffer
				for j := 0; j < rounds; j++ {
					k := unitOf(g, j)
					text.WriteString("BenchmarkX 1 " + strconv.FormatFloat(b.Values[k], 'g', -1, 64) + " " + units[k] + "\n")
				}
				rd = benchfmt.NewReader(bytes.NewReader(text.Bytes()), "conc")
			}
			for j := 0; j < rounds; j++ {
				k := unitOf(g, j)
				// barrier: everybody is here before anybody meets unit k
				atomic.AddInt64(&arrived, 1)
				for atomic.LoadInt64(&arrived) < int64(G*(j+1)) {
					runtime.Gosched()
				}
				x := uint64(g)
				for i := 0; i < g*b.Stagger; i++ {
					x = x*6364136223846793005 + 1442695040888963407
				}
				atomic.AddUint64(&sink, x)
				if useReader {
					outs[g][2*j] = scan(rd)
				} else {
					outs[g][2*j] = tidy(b.Values[k], units[k])
				}
				outs[g][2*j+1] = tidy(b.Values[k], units[k]) // now (probably) answered from the table
			}
		}(g, useReader)
	}
	wg.Wait()
	res := Result{Distinct: make([][]Outcome, K), GoMaxProcs: runtime.GOMAXPROCS(0), ViaReader: viaReader}
	for g := 0; g < G; g++ {
		for j := 0; j < rounds; j++ {
			k := unitOf(g, j)
			for _, o := range outs[g][2*j : 2*j+2] {
				res.Calls++
				seen := false
				for _, d := range res.Distinct[k] {
					if d == o {
						seen = true
						break
					}
				}
				if !seen {
					res.Distinct[k] = append(res.Distinct[k], o)
				}
			}
		}
	}
	return res
}
