// Package hx holds what every generator shares: the splittable PRNG, the Coq
// term emitter and the per-run metadata (distribution, samples) that ends up
// in the evidence file.
package hx

import (
	"bufio"
	"encoding/hex"
	"encoding/json"
	"fmt"
	"math"
	"math/big"
	"os"
	"path/filepath"
	"sort"
	"strconv"
	"strings"
)

// ---------- PRNG (SplitMix64); every random choice derives from VERIF_SEED ----------

type Rng struct{ s uint64 }

func NewRng(seed uint64) *Rng { return &Rng{s: seed} }

func (r *Rng) U64() uint64 {
	r.s += 0x9e3779b97f4a7c15
	z := r.s
	z = (z ^ (z >> 30)) * 0xbf58476d1ce4e5b9
	z = (z ^ (z >> 27)) * 0x94d049bb133111eb
	return z ^ (z >> 31)
}

// Split returns an independent generator (sub-seed recorded by callers).
func (r *Rng) Split() *Rng { return &Rng{s: r.U64()} }
func (r *Rng) Seed() uint64 { return r.s }

func (r *Rng) Intn(n int) int {
	if n <= 0 {
		return 0
	}
	return int(r.U64() % uint64(n))
}
func (r *Rng) Range(lo, hi int) int { return lo + r.Intn(hi-lo+1) } // inclusive
func (r *Rng) Bool() bool            { return r.U64()&1 == 1 }
func (r *Rng) Chance(p float64) bool { return r.Float() < p }
func (r *Rng) Float() float64        { return float64(r.U64()>>11) / (1 << 53) }
func (r *Rng) Pick(ss []string) string {
	return ss[r.Intn(len(ss))]
}

// ---------- s-expression emission (Base/Sx.v) ----------

// Sx is a case term: byte string, integer or list.
type Sx struct {
	kind int // 0 bytes, 1 int, 2 list
	b    []byte
	z    string
	l    []Sx
}

func B(b []byte) Sx { return Sx{kind: 0, b: append([]byte(nil), b...)} }
func S(s string) Sx { return Sx{kind: 0, b: []byte(s)} }
func Bool(b bool) Sx {
	if b {
		return Sx{kind: 1, z: "1"}
	}
	return Sx{kind: 1, z: "0"}
}
func Z(i int64) Sx       { return Sx{kind: 1, z: strconv.FormatInt(i, 10)} }
func U(i uint64) Sx      { return Sx{kind: 1, z: strconv.FormatUint(i, 10)} }
func I(i int) Sx         { return Z(int64(i)) }
func BigZ(b *big.Int) Sx { return Sx{kind: 1, z: b.String()} }
func L(items ...Sx) Sx   { return Sx{kind: 2, l: items} }
func List(items []Sx) Sx { return Sx{kind: 2, l: items} }
func BList(bs [][]byte) Sx {
	it := make([]Sx, len(bs))
	for i, b := range bs {
		it[i] = B(b)
	}
	return List(it)
}
func SList(ss []string) Sx {
	it := make([]Sx, len(ss))
	for i, b := range ss {
		it[i] = S(b)
	}
	return List(it)
}

// Opt encodes option as () / (v).
func Opt(ok bool, v Sx) Sx {
	if ok {
		return L(v)
	}
	return L()
}

// F64 is a float64 as its IEEE-754 bit pattern.
func F64(f float64) Sx { return U(math.Float64bits(f)) }

func (s Sx) text(w *strings.Builder) {
	switch s.kind {
	case 0:
		w.WriteByte('#')
		w.WriteString(hex.EncodeToString(s.b))
	case 1:
		w.WriteString(s.z)
	default:
		w.WriteByte('(')
		for i, x := range s.l {
			if i > 0 {
				w.WriteByte(' ')
			}
			x.text(w)
		}
		w.WriteByte(')')
	}
}

// Text is the one-line form read by the extracted driver.
func (s Sx) Text() string {
	var w strings.Builder
	s.text(&w)
	return w.String()
}

func (s Sx) coq(w *strings.Builder) {
	switch s.kind {
	case 0:
		w.WriteString(`SB (hx "`)
		w.WriteString(hex.EncodeToString(s.b))
		w.WriteString(`")`)
	case 1:
		w.WriteString("SZ (" + s.z + ")%Z")
	default:
		w.WriteString("SL [")
		for i, x := range s.l {
			if i > 0 {
				w.WriteString("; ")
			}
			x.coq(w)
		}
		w.WriteString("]")
	}
}

// Coq is the same term in Gallina syntax (for in-Coq evaluation).
func (s Sx) Coq() string {
	var w strings.Builder
	s.coq(&w)
	return w.String()
}

// ---------- output: shards of cases + replayable inputs + metadata ----------

type Out struct {
	Dir       string
	Prop      string // e.g. "C05"
	CrossN    int
	cases     []Sx
	inputs    []json.RawMessage
	Tags      [][]string
	Dist      map[string]int
	Samples   []interface{}
	distinct  map[string]bool
	Rule      string
	Notes     []string
	Extra     map[string]interface{}
}

func NewOut(dir, prop string, perShard int) *Out {
	return &Out{Dir: dir, Prop: prop, CrossN: perShard, Dist: map[string]int{}, distinct: map[string]bool{}, Extra: map[string]interface{}{}}
}

// Add records one case: its Coq term, a replayable JSON description, tags
// (input predicates used to match known findings) and whether it counts as
// non-trivial; key identifies distinct inputs.
func (o *Out) Add(coq Sx, input interface{}, key string, nontrivial bool, tags ...string) {
	o.cases = append(o.cases, coq)
	j, err := json.Marshal(input)
	if err != nil {
		panic(err)
	}
	o.inputs = append(o.inputs, j)
	o.Tags = append(o.Tags, tags)
	if nontrivial && !o.distinct[key] {
		o.distinct[key] = true
	}
	if len(o.Samples) < 5 || (len(o.cases)%97 == 0 && len(o.Samples) < 12) {
		o.Samples = append(o.Samples, input)
	}
}
func (o *Out) Count(k string) { o.Dist[k]++ }
func (o *Out) Len() int        { return len(o.cases) }

type Meta struct {
	Property    string                 `json:"property"`
	Evaluations int                    `json:"evaluations"`
	Distinct    int                    `json:"distinct_nontrivial"`
	Rule        string                 `json:"rule"`
	Samples     []interface{}          `json:"samples"`
	Dist        map[string]int         `json:"distribution"`
	CrossIdx    []int                  `json:"crosscheck_indices"`
	Notes       []string               `json:"notes,omitempty"`
	Extra       map[string]interface{} `json:"extra,omitempty"`
}

// Flush writes cases.sx (one case per line), crosscheck.v (a sample of the
// same cases as Gallina terms), inputs.jsonl and meta.json.
func (o *Out) Flush() error {
	if err := os.MkdirAll(o.Dir, 0o755); err != nil {
		return err
	}
	m := Meta{Property: o.Prop, Evaluations: len(o.cases), Distinct: len(o.distinct), Rule: o.Rule,
		Samples: o.Samples, Dist: o.Dist, Notes: o.Notes, Extra: o.Extra}
	f, err := os.Create(filepath.Join(o.Dir, "cases.sx"))
	if err != nil {
		return err
	}
	w := bufio.NewWriterSize(f, 1<<20)
	for _, c := range o.cases {
		w.WriteString(c.Text())
		w.WriteByte('\n')
	}
	if err := w.Flush(); err != nil {
		return err
	}
	f.Close()
	// cross-check sample: evenly spaced cases, small ones only
	var idx []int
	step := len(o.cases)/o.CrossN + 1
	for i := 0; i < len(o.cases); i += step {
		if len(o.cases[i].Text()) < 20000 {
			idx = append(idx, i)
		}
	}
	f, err = os.Create(filepath.Join(o.Dir, "crosscheck.v"))
	if err != nil {
		return err
	}
	w = bufio.NewWriter(f)
	fmt.Fprintf(w, "From Perf Require Import Base.Bytes Base.Sx Corr.Dispatch.\n")
	fmt.Fprintf(w, "Definition cases : list sx := [\n")
	for k, i := range idx {
		sep := ";"
		if k == len(idx)-1 {
			sep = ""
		}
		fmt.Fprintf(w, "  %s%s\n", o.cases[i].Coq(), sep)
	}
	fmt.Fprintf(w, "].\nDefinition R := Eval vm_compute in run_all %d%%N cases.\nPrint R.\n", o.PropNum())
	w.Flush()
	f.Close()
	m.CrossIdx = idx
	f, err = os.Create(filepath.Join(o.Dir, "inputs.jsonl"))
	if err != nil {
		return err
	}
	w = bufio.NewWriterSize(f, 1<<20)
	for i, in := range o.inputs {
		rec := map[string]interface{}{"index": i, "input": in, "tags": o.Tags[i]}
		j, _ := json.Marshal(rec)
		w.Write(j)
		w.WriteByte('\n')
	}
	w.Flush()
	f.Close()
	j, _ := json.MarshalIndent(m, "", " ")
	return os.WriteFile(filepath.Join(o.Dir, "meta.json"), j, 0o644)
}

func (o *Out) PropNum() int {
	n, _ := strconv.Atoi(strings.TrimLeft(o.Prop, "C0"))
	return n
}

func SortedKeys(m map[string]int) []string {
	ks := make([]string, 0, len(m))
	for k := range m {
		ks = append(ks, k)
	}
	sort.Strings(ks)
	return ks
}
