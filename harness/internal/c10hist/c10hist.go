// Package c10hist runs a scripted history of benchunit calls (property C10,
// case kind 5) in the calling process: ClassOf, Tidy and CommonScale + Format
// (+ Scale for a lone value), in the order given.  cmd/c10proc runs one script
// in a process of its own that has not used the package before; the generator
// also runs scripts in its own (warm) process.
package c10hist

import (
	"math"

	"golang.org/x/perf/benchunit"
)

// Step is one call. Floats travel as bit patterns.
type Step struct {
	Op     string   `json:"op"` // "classof" | "tidy" | "common"
	Unit   string   `json:"unit,omitempty"`
	Value  uint64   `json:"value,omitempty"` // tidy: the value
	Class  int      `json:"class,omitempty"` // common
	Vals   []uint64 `json:"vals,omitempty"`  // common
	Floats []string `json:"floats,omitempty"` // for the reader only
}

// Result is what the call returned.
type Result struct {
	Class    int      `json:"class"`               // classof
	TidyVal  uint64   `json:"tidy_val,omitempty"`  // tidy
	TidyUnit string   `json:"tidy_unit,omitempty"` // tidy
	OK       bool     `json:"ok"`                  // common: CommonScale did not panic
	Prec     int      `json:"prec"`
	Factor   uint64   `json:"factor"`
	Prefix   string   `json:"prefix"`
	Strs     []string `json:"strs,omitempty"`
	ScaleOK  bool     `json:"scale_ok"` // lone value: Scale did not panic
	Scale    string   `json:"scale,omitempty"`
	Same     bool     `json:"same"` // the scale is that of the least non-zero magnitude alone (asked after the whole history)
	hasNaN   bool
	min      float64
	scaler   benchunit.Scaler
}

func common(vals []float64, cls int) (sc benchunit.Scaler, ok bool) {
	defer func() {
		if r := recover(); r != nil {
			ok = false
		}
	}()
	return benchunit.CommonScale(vals, benchunit.Class(cls)), true
}

func scale(v float64, cls int) (s string, ok bool) {
	defer func() {
		if r := recover(); r != nil {
			ok = false
		}
	}()
	return benchunit.Scale(v, benchunit.Class(cls)), true
}

// Run executes the steps in order.
func Run(steps []Step) []Result {
	res := make([]Result, len(steps))
	for i, st := range steps {
		r := &res[i]
		switch st.Op {
		case "classof":
			r.Class = int(benchunit.ClassOf(st.Unit))
		case "tidy":
			v, u := benchunit.Tidy(math.Float64frombits(st.Value), st.Unit)
			r.TidyVal, r.TidyUnit = math.Float64bits(v), u
		case "common":
			vals := make([]float64, len(st.Vals))
			for j, b := range st.Vals {
				vals[j] = math.Float64frombits(b)
				if vals[j] != vals[j] {
					r.hasNaN = true
				}
				if a := math.Abs(vals[j]); a != 0 && (r.min == 0 || a < r.min) {
					r.min = a
				}
			}
			sc, ok := common(vals, st.Class)
			r.OK, r.scaler = ok, sc
			if ok {
				r.Prec, r.Factor, r.Prefix = sc.Prec, math.Float64bits(sc.Factor), sc.Prefix
				for _, v := range vals {
					r.Strs = append(r.Strs, sc.Format(v))
				}
			}
			if len(vals) == 1 {
				r.Scale, r.ScaleOK = scale(vals[0], st.Class)
			}
		}
	}
	// after the history: is every scale the one the least magnitude gets alone?
	for i, st := range steps {
		if st.Op != "common" {
			continue
		}
		r := &res[i]
		r.Same = true
		if !r.hasNaN {
			s1, ok1 := common([]float64{r.min}, st.Class)
			r.Same = ok1 == r.OK && (!ok1 || (s1.Prec == r.scaler.Prec && s1.Prefix == r.scaler.Prefix &&
				math.Float64bits(s1.Factor) == math.Float64bits(r.scaler.Factor)))
		}
	}
	return res
}
