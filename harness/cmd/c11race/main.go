// c11race runs one batch of concurrent stats.MannWhitneyUTest calls (property
// C11). The generator builds it with -race and runs it with GOMAXPROCS >= 4;
// the race detector's report goes to stderr, the observed outcomes to stdout.
//
//	c11race batch.json > result.json
package main

import (
	"encoding/json"
	"fmt"
	"os"

	"verifharness/internal/c11conc"
)

func main() {
	if len(os.Args) != 2 {
		fmt.Fprintln(os.Stderr, "usage: c11race batch.json")
		os.Exit(2)
	}
	data, err := os.ReadFile(os.Args[1])
	if err != nil {
		fmt.Fprintln(os.Stderr, err)
		os.Exit(2)
	}
	var batches []c11conc.Batch
	if err := json.Unmarshal(data, &batches); err != nil {
		fmt.Fprintln(os.Stderr, err)
		os.Exit(2)
	}
	res := make([]c11conc.Result, len(batches))
	for i, b := range batches {
		res[i] = c11conc.Run(b)
	}
	out, _ := json.Marshal(res)
	os.Stdout.Write(out)
}
