// unitab regenerates coq/Base/UnicodeTables.v from the toolchain's unicode package:
//   go run ./cmd/unitab > ../coq/Base/UnicodeTables.v
package main

import (
	"fmt"
	"unicode"
)

func ranges(f func(rune) bool) [][2]int {
	var out [][2]int
	in := false
	lo := 0
	for r := 0; r <= 0x10FFFF; r++ {
		b := f(rune(r))
		if b && !in {
			in = true
			lo = r
		} else if !b && in {
			in = false
			out = append(out, [2]int{lo, r - 1})
		}
	}
	if in {
		out = append(out, [2]int{lo, 0x10FFFF})
	}
	return out
}

func emit(name string, rs [][2]int) {
	fmt.Printf("Definition %s : list (N * N) := [\n", name)
	for i, r := range rs {
		sep := ";"
		if i == len(rs)-1 {
			sep = ""
		}
		fmt.Printf(" (%d, %d)%s", r[0], r[1], sep)
		if i%6 == 5 {
			fmt.Println()
		}
	}
	fmt.Printf("]%%N.\n\n")
}

func main() {
	fmt.Println("(** Generated from Go's unicode package (unicode.Version " + unicode.Version + "): maximal ranges of")
	fmt.Println("    runes for which unicode.IsSpace / IsLower / IsUpper hold. Data, not logic: every")
	fmt.Println("    check re-derives these ranges from the toolchain and compares (table case). *)")
	fmt.Println("From Coq Require Import NArith List.\nImport ListNotations.\n")
	emit("space_ranges", ranges(unicode.IsSpace))
	emit("lower_ranges", ranges(unicode.IsLower))
	emit("upper_ranges", ranges(unicode.IsUpper))
}
