package main

// C08, audit class: protocol-shaped histories in which some of the Parse calls
// return an error. 1-3 valid expressions and 1-2 rejected ones (a field with an
// unknown order, .config with a fixed order, .unit, the empty key - placed
// before, between or after valid fields that name keys of the stream) parsed in
// every order (up to 4 expressions) or in a few orders, then Residue, then every
// result of a stream through every projection that was returned and through the
// residue. A rejected expression names nothing: its keys must stay in the
// .config / .fullname groups and in the residue. Emitted as free cases (one per
// parse order), judged by free_ok of coq/Corr/RunC08.v.

import (
	"verifharness/internal/hx"
)

// c08FailOps: the calls of one such history.
func c08FailOps(exprs []*pxExpr, bad []bool, stream []pxResult, perm []int, residue bool) []pxOp {
	var ops []pxOp
	var units []bool // per projection returned
	for _, e := range perm {
		ops = append(ops, pxOp{Kind: 0, Expr: exprs[e]})
		if !bad[e] {
			units = append(units, exprs[e].Unit)
		}
	}
	if residue {
		ops = append(ops, pxOp{Kind: 1})
		units = append(units, false)
	}
	for i := range stream {
		for pi, u := range units {
			k := 2
			if u {
				k = 3
			}
			res := stream[i]
			ops = append(ops, pxOp{Kind: k, Pi: pi, Res: &res})
		}
	}
	return ops
}

func c08Failed(o *hx.Out, r *hx.Rng, pl *pxPools) error {
	nv := r.Range(1, 3)
	nb := r.Range(1, 2)
	var exprs []*pxExpr
	var bad []bool
	for i := 0; i < nv; i++ {
		exprs = append(exprs, pl.expr(r))
		bad = append(bad, false)
	}
	for i := 0; i < nb; i++ {
		at := r.Intn(len(exprs) + 1)
		e := pl.badExpr(r)
		exprs = append(exprs[:at], append([]*pxExpr{e}, exprs[at:]...)...)
		bad = append(bad[:at], append([]bool{true}, bad[at:]...)...)
	}
	for _, e := range exprs {
		if err := pxCheckText(e); err != nil {
			return err
		}
	}
	st := pl.stream(r, r.Range(4, 12))
	var perms [][]int
	if len(exprs) <= 3 {
		perms = pxAllPerms(len(exprs))
	} else {
		perms = pxSomePerms(r, len(exprs), 4)
	}
	o.Count("failed-parse histories")
	for _, perm := range perms {
		if err := pxFreeCase(o, r, c08FailOps(exprs, bad, st, perm, true), false); err != nil {
			return err
		}
	}
	return nil
}

// c08FailedFixed: the auditor's witnesses and their neighbours, verbatim.
func c08FailedFixed(o *hx.Out, r *hx.Rng) error {
	mk := func(text string, fs ...pxSpec) *pxExpr { return &pxExpr{Fields: fs, Text: text} }
	first := func(k string) pxSpec { return pxSpec{Key: k, Order: "first"} }
	a := pxResult{Name: "F", Config: [][3]string{{"goos", "linux", "file"}}, Units: []string{"ns/op"}}
	b := pxResult{Name: "F", Config: [][3]string{{"goos", "darwin", "file"}}, Units: []string{"ns/op"}}
	c := pxResult{Name: "F/a=1", Config: [][3]string{{"goos", "linux", "file"}, {"pkg", "p", "file"}}, Units: []string{"ns/op"}}
	d := pxResult{Name: "F/a=2", Config: [][3]string{{"goos", "linux", "file"}, {"pkg", "p", "file"}}, Units: []string{"ns/op"}}
	st := []pxResult{a, b, c, d, a}
	type hist struct {
		exprs []*pxExpr
		bad   []bool
	}
	hs := []hist{
		// "goos,.unit" is rejected; ".fullname" + residue must still tell goos apart
		{[]*pxExpr{mk("goos,.unit", first("goos"), first(".unit")), mk(".fullname", first(".fullname"))}, []bool{true, false}},
		// a rejected expression that names .config: the residue must still hold .config
		{[]*pxExpr{mk(".config,.unit", first(".config"), first(".unit")), mk(".fullname", first(".fullname"))}, []bool{true, false}},
		// a rejected expression that names .fullname and /a: the residue must still hold the full name
		{[]*pxExpr{mk("/a,.fullname,k@bogus", first("/a"), first(".fullname"), pxSpec{Key: "k", Order: "bogus"}), mk(".config", first(".config"))}, []bool{true, false}},
		// a rejected expression naming /a next to an accepted .fullname: /a=... stays in the name
		{[]*pxExpr{mk("/a,.unit", first("/a"), first(".unit")), mk(".fullname", first(".fullname"))}, []bool{true, false}},
		// the same key rejected once and accepted once: excluded all the same
		{[]*pxExpr{mk("goos,.unit", first("goos"), first(".unit")), mk("goos", first("goos")), mk(".config", first(".config"))}, []bool{true, false, false}},
	}
	for _, h := range hs {
		for _, e := range h.exprs {
			if err := pxCheckText(e); err != nil {
				return err
			}
		}
		for _, perm := range pxAllPerms(len(h.exprs)) {
			if err := pxFreeCase(o, r, c08FailOps(h.exprs, h.bad, st, perm, true), false); err != nil {
				return err
			}
		}
	}
	return nil
}
