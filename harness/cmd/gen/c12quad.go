package main

// C12, kinds 13-14: the implementation's PDF judged against its CDF by
// quadrature of the observed PDF values, and the second table of certified
// reference points (PDF and CDF of Student t and normal).

import (
	"fmt"
	"math"

	stats "golang.org/x/perf/verifbridge/stats"
	"verifharness/internal/hx"
)

type pdfCdf interface {
	PDF(float64) float64
	CDF(float64) float64
}

// c12Quad ships PDF(a + i h), i = 0..n (n a multiple of 4; a, h dyadic so that every point is
// exact), CDF(a), CDF(a + n h).
func c12Quad(o *hx.Out, which int, p1, p2 float64, d pdfCdf, a, h float64, n int) {
	fs := make([]float64, n+1)
	var fa, fb float64
	exact := true
	pan := try(func() {
		for i := range fs {
			x := a + float64(i)*h
			if (x-a)/h != float64(i) {
				exact = false
			}
			fs[i] = d.PDF(x)
		}
		fa, fb = d.CDF(a), d.CDF(a+float64(n)*h)
	})
	if !exact {
		panic("c12Quad: inexact grid")
	}
	// Boole sum in floats, for the calibration record only
	sum := 0.0
	for i := 0; i+4 <= n; i += 4 {
		sum += 7*fs[i] + 32*fs[i+1] + 12*fs[i+2] + 32*fs[i+3] + 7*fs[i+4]
	}
	calib(fmt.Sprintf("quad%d |dCDF - Boole(PDF)|", which), math.Abs(fb-fa-2*h/45*sum))
	cs := hx.L(hx.I(13), hx.I(which), hx.F64(p1), hx.F64(p2), hx.F64(a), hx.F64(h), f64s(fs), hx.F64(fa), hx.F64(fb), hx.Bool(pan))
	o.Count(fmt.Sprintf("quadrature kind=%d", which))
	args := hexfs([]float64{p1, p2, a, h, float64(n)})
	o.Add(cs, c12DistInput{fmt.Sprintf("quad%d", which), args}, fmt.Sprint("quad", which, args), fb-fa > 1e-6)
}

func genC12Quad(o *hx.Out, r *hx.Rng, tier string) {
	nT, nN := 120, 40
	if tier == "thorough" {
		nT, nN = 3000, 1000
	}
	for i := 0; i < nT; i++ {
		v := c12Nu(r)
		if i%8 == 0 {
			v = []float64{1, 1.5, 2, 2.5, 3, 78739.3, 1e5, 99999.5}[r.Intn(8)]
		}
		e := 6 + r.Intn(2)
		h := math.Ldexp(1, -e)
		// start: a multiple of h in [-10, 9], denser around the centre
		lim := 10.0
		if r.Chance(0.6) {
			lim = 3
		}
		a := math.Floor((r.Float()*2-1)*lim/h) * h
		c12Quad(o, 0, v, 0, stats.TDist{V: v}, a, h, 64)
	}
	for i := 0; i < nN; i++ {
		// mu, sigma with few bits so that mu + sigma (k h0) is exact
		sigma := math.Ldexp([]float64{1, 1.5, 1.25, 1.75}[r.Intn(4)], r.Range(-8, 8))
		mu := math.Ldexp(float64(r.Range(-40, 40)), -2)
		if r.Bool() {
			mu = 0
		}
		e := 6 + r.Intn(2)
		h0 := math.Ldexp(1, -e)
		lim := 8.0
		if r.Chance(0.6) {
			lim = 3
		}
		k := math.Floor((r.Float()*2 - 1) * lim / h0)
		c12Quad(o, 1, mu, sigma, stats.NormalDist{Mu: mu, Sigma: sigma}, mu+sigma*k*h0, sigma*h0, 64)
	}
	for k, g := range c12DistRef {
		var d pdfCdf
		if g.dist == 0 {
			d = stats.TDist{V: g.p1}
		} else {
			d = stats.NormalDist{Mu: g.p1, Sigma: g.p2}
		}
		f := d.CDF(g.x)
		if g.fn == 0 {
			f = d.PDF(g.x)
		}
		cs := hx.L(hx.I(14), hx.I(k), hx.I(g.dist), hx.F64(g.p1), hx.F64(g.p2), hx.I(g.fn), hx.F64(g.x), hx.F64(f))
		o.Count(fmt.Sprintf("reference point 2 dist=%d fn=%d", g.dist, g.fn))
		args := hexfs([]float64{float64(g.dist), g.p1, g.p2, float64(g.fn), g.x})
		o.Add(cs, c12DistInput{"dref", args}, fmt.Sprint("dref", args), true)
	}
}
