package main

import (
	"bytes"
	"encoding/csv"
	"errors"
	"fmt"
	"math"
	"math/big"
	"sort"
	"strconv"
	"strings"

	"golang.org/x/perf/benchstat"
	oldfmt "golang.org/x/perf/storage/benchfmt"
	vstats "golang.org/x/perf/verifbridge/stats"
	"verifharness/internal/hx"
)

func init() { gens["C17"] = genC17 }

// ---------- replayable input ----------

type c17Config struct {
	Name string `json:"name"`
	Mode string `json:"mode"` // "text" (AddConfig), "file" (AddFile), "results" (AddResults)
	Text string `json:"text,omitempty"`
	// for mode "results": hand-made results
	Results []c17Result `json:"results,omitempty"`
}

type c17Result struct {
	Labels     map[string]string `json:"labels,omitempty"`
	NameLabels map[string]string `json:"namelabels,omitempty"`
	Content    string            `json:"content"`
}

type c17Input struct {
	Test    string      `json:"test"` // nil, utest, ttest, nodelta, custom1, custom2
	Alpha   float64     `json:"alpha"`
	AlphaS  string      `json:"alpha_text"`
	SplitBy []string    `json:"splitby"`
	Order   string      `json:"order"` // nil, name, delta, rname, rdelta, rrname
	GeoMean bool        `json:"geomean"`
	NoRange bool        `json:"norange"`
	Configs []c17Config `json:"configs"`
}

// custom DeltaTests: functions of the retained values only (the oracle table is
// keyed by them); they return the internal/stats error values themselves,
// which only a caller inside the module can do, plus odd p-values.
func c17Custom1(old, new *benchstat.Metrics) (float64, error) {
	n := len(old.RValues) + 2*len(new.RValues)
	switch n % 7 {
	case 0:
		return -1, vstats.ErrZeroVariance
	case 1:
		return -1, vstats.ErrSampleSize
	case 2:
		return 0.25, vstats.ErrSamplesEqual
	case 3:
		return math.NaN(), nil
	case 4:
		return 1.5, errors.New("custom failure")
	case 5:
		return 0.001, nil
	}
	return -1, nil
}

func c17Custom2(old, new *benchstat.Metrics) (float64, error) {
	// p decided by the first retained values: exercises thresholds p == alpha
	if len(old.RValues) == 0 || len(new.RValues) == 0 {
		return 0, benchstat.ErrSampleSize
	}
	switch int(math.Abs(old.RValues[0]+new.RValues[0])) % 6 {
	case 0:
		return 0.05, nil
	case 1:
		return math.Nextafter(0.05, 0), nil
	case 2:
		return 0.01, nil
	case 3:
		return 0, nil
	case 4:
		return math.Copysign(0, -1), nil
	}
	return 0.0004999, nil
}

func c17Test(name string) benchstat.DeltaTest {
	switch name {
	case "utest":
		return benchstat.UTest
	case "ttest":
		return benchstat.TTest
	case "nodelta":
		return benchstat.NoDeltaTest
	case "custom1":
		return c17Custom1
	case "custom2":
		return c17Custom2
	}
	return nil
}

func c17Order(name string) benchstat.Order {
	switch name {
	case "name":
		return benchstat.ByName
	case "delta":
		return benchstat.ByDelta
	case "rname":
		return benchstat.Reverse(benchstat.ByName)
	case "rdelta":
		return benchstat.Reverse(benchstat.ByDelta)
	case "rrname":
		return benchstat.Reverse(benchstat.Reverse(benchstat.ByName))
	case "rrdelta":
		return benchstat.Reverse(benchstat.Reverse(benchstat.ByDelta))
	}
	return nil
}

func c17OrderSx(name string) hx.Sx {
	switch name {
	case "name":
		return hx.L(hx.I(0), hx.I(0))
	case "delta":
		return hx.L(hx.I(1), hx.I(0))
	case "rname":
		return hx.L(hx.I(0), hx.I(1))
	case "rdelta":
		return hx.L(hx.I(1), hx.I(1))
	case "rrname":
		return hx.L(hx.I(0), hx.I(2))
	case "rrdelta":
		return hx.L(hx.I(1), hx.I(2))
	}
	return hx.L()
}

func c17F64s(xs []float64) hx.Sx {
	it := make([]hx.Sx, len(xs))
	for i, x := range xs {
		it[i] = hx.F64(x)
	}
	return hx.List(it)
}

func c17ErrSx(err error) hx.Sx {
	switch {
	case err == nil:
		return hx.L(hx.I(0), hx.S(""))
	case err == vstats.ErrZeroVariance:
		return hx.L(hx.I(1), hx.S(""))
	case err == vstats.ErrSampleSize:
		return hx.L(hx.I(2), hx.S(""))
	case err == vstats.ErrSamplesEqual:
		return hx.L(hx.I(3), hx.S(""))
	}
	return hx.L(hx.I(4), hx.S(err.Error()))
}

// results of one config as the old reader delivers them
func c17Results(cf c17Config) ([]*oldfmt.Result, error) {
	if cf.Mode == "results" {
		var rs []*oldfmt.Result
		for _, r := range cf.Results {
			rs = append(rs, &oldfmt.Result{Labels: oldfmt.Labels(r.Labels), NameLabels: oldfmt.Labels(r.NameLabels), Content: r.Content})
		}
		return rs, nil
	}
	var rs []*oldfmt.Result
	br := oldfmt.NewReader(strings.NewReader(cf.Text))
	for br.Next() {
		rs = append(rs, br.Result())
	}
	return rs, br.Err()
}

// what addResult reads from a result, for the model
func c17ResultSx(split []string, r *oldfmt.Result) hx.Sx {
	var nls, ls []hx.Sx
	for _, s := range split {
		nls = append(nls, hx.S(r.NameLabels[s]))
		ls = append(ls, hx.S(r.Labels[s]))
	}
	f := strings.Fields(r.Content)
	iters := 0
	if len(f) > 1 {
		iters, _ = strconv.Atoi(f[1])
	}
	var vals []hx.Sx
	for i := 2; i+2 <= len(f); i += 2 {
		v, err := strconv.ParseFloat(f[i], 64)
		vals = append(vals, hx.Opt(err == nil, hx.F64(v)))
	}
	return hx.L(hx.List(nls), hx.List(ls), hx.SList(f), hx.I(iters), hx.List(vals))
}

func c17MetricsSx(m *benchstat.Metrics) hx.Sx {
	return hx.L(hx.S(m.Unit), c17F64s(m.Values), c17F64s(m.RValues), hx.F64(m.Min), hx.F64(m.Mean), hx.F64(m.Max))
}

var c17DeltaTok = func(tok string) bool {
	if tok == "~" || tok == "0.00%" {
		return true
	}
	return len(tok) >= 2 && (tok[0] == '+' || tok[0] == '-') && tok[len(tok)-1] == '%'
}

// c17AddConfig adds one configuration to the collection the way its mode says
// and returns what addResult reads from its results, for the model.
func c17AddConfig(c *benchstat.Collection, cf c17Config, split []string) (hx.Sx, error) {
	rs, rerr := c17Results(cf)
	if rerr != nil {
		return hx.L(), fmt.Errorf("reader: %v", rerr)
	}
	switch cf.Mode {
	case "text":
		c.AddConfig(cf.Name, []byte(cf.Text))
	case "file":
		if e := c.AddFile(cf.Name, strings.NewReader(cf.Text)); e != nil {
			return hx.L(), e
		}
	default:
		c.AddResults(cf.Name, rs)
	}
	var rsx []hx.Sx
	for _, r := range rs {
		rsx = append(rsx, c17ResultSx(split, r))
	}
	return hx.L(hx.S(cf.Name), hx.List(rsx)), nil
}

func c17One(o *hx.Out, in c17Input, tags ...string) (err error) {
	c := &benchstat.Collection{Alpha: in.Alpha, AddGeoMean: in.GeoMean, SplitBy: in.SplitBy,
		DeltaTest: c17Test(in.Test), Order: c17Order(in.Order)}
	var cfgSx []hx.Sx
	for _, cf := range in.Configs {
		sx, aerr := c17AddConfig(c, cf, in.SplitBy)
		if aerr != nil {
			return aerr
		}
		cfgSx = append(cfgSx, sx)
	}
	var tables []*benchstat.Table
	panicked := false
	func() {
		defer func() {
			if r := recover(); r != nil {
				panicked = true
			}
		}()
		tables = c.Tables()
	}()
	ord := hx.L()
	if in.Order != "nil" {
		ord = hx.L(c17OrderSx(in.Order))
	}
	opts := hx.L(hx.F64(in.Alpha), hx.SList(in.SplitBy), ord, hx.Bool(in.GeoMean), hx.Bool(in.NoRange))
	key := fmt.Sprintf("%v", in)
	if panicked {
		o.Count("panic")
		o.Add(hx.L(opts, hx.List(cfgSx), hx.L(hx.L(), hx.L(), hx.L()), hx.L(hx.I(1))), in, key, true, tags...)
		return nil
	}

	orc, rs := c17Oracles(o, in, c, tables)
	nshown, ntilde, nrows, nerr := rs.nshown, rs.ntilde, rs.nrows, rs.nerr
	c17SortCounts(o, in, tables)
	// observed collection state and tables
	collSx := c17CollSx(c)
	tsx := c17TablesSx(tables)
	textOK, textLines := c17TextSx(tables)
	csvOK, csvLines := c17CSVSx(tables, in.NoRange)
	fmtSx := hx.L(hx.Bool(textOK), textLines, hx.Bool(csvOK), csvLines)

	obs := hx.L(hx.I(0), collSx, tsx, fmtSx)
	coq := hx.L(opts, hx.List(cfgSx), orc, obs)

	o.Count(fmt.Sprintf("configs=%d", len(in.Configs)))
	o.Count(fmt.Sprintf("tables=%d", min(len(tables), 6)))
	o.Count("test=" + in.Test)
	o.Count("order=" + in.Order)
	o.Count(fmt.Sprintf("split=%d", len(in.SplitBy)))
	o.Count(fmt.Sprintf("groups=%d", min(len(c.Groups), 4)))
	o.Count(fmt.Sprintf("rows=%d", min(nrows/4*4, 24)))
	if nshown > 0 {
		o.Count("has_delta_shown")
	}
	if ntilde > 0 {
		o.Count("has_tilde")
	}
	if nerr > 0 {
		o.Count("has_test_error")
	}
	outl := false
	for _, m := range c.Metrics {
		if len(m.RValues) < len(m.Values) {
			outl = true
		}
	}
	if outl {
		o.Count("has_outlier_removed")
	}
	if in.GeoMean {
		o.Count("geomean")
		for _, t := range tables {
			if n := len(t.Rows); n > 0 && t.Rows[n-1].Benchmark == "[Geo mean]" {
				o.Count("geomean_row_present")
				break
			}
		}
	}
	tags = c17OverflowTags(c, tags)
	for _, tg := range tags {
		o.Count("tag=" + tg)
	}
	o.Add(coq, in, key, len(tables) > 0, tags...)
	return nil
}

// ---------- observation helpers (shared by single reports and histories) ----------

type c17RowStats struct{ nshown, ntilde, nrows, nerr int }

// c17Oracles records the DeltaTest in force on the two Metrics of every
// compared row, and math.Log / math.Exp on the arguments stats.GeoMean needs.
func c17Oracles(o *hx.Out, in c17Input, c *benchstat.Collection, tables []*benchstat.Table) (hx.Sx, c17RowStats) {
	test := c17Test(in.Test)
	if test == nil {
		test = benchstat.UTest
	}
	var ptab []hx.Sx
	nshown, ntilde, nrows, nerr := 0, 0, 0, 0
	for _, t := range tables {
		for _, row := range t.Rows {
			nrows++
			if len(t.Configs) != 2 || row.Benchmark == "[Geo mean]" || len(row.Metrics) != 2 {
				continue
			}
			p, e := test(row.Metrics[0], row.Metrics[1])
			ptab = append(ptab, hx.L(c17F64s(row.Metrics[0].RValues), c17F64s(row.Metrics[1].RValues), hx.F64(p), c17ErrSx(e)))
			if e != nil {
				nerr++
			} else {
				eff := in.Alpha
				if eff == 0 {
					eff = 0.05
				}
				switch {
				case p == eff:
					o.Count("row_p_equals_alpha")
				case p < eff && eff-p < 0.0005:
					o.Count("row_p_within_0.0005_below_alpha")
				case p > eff && p-eff < 0.0005:
					o.Count("row_p_within_0.0005_above_alpha")
				}
			}
			if row.Delta == "~" {
				ntilde++
			} else {
				nshown++
			}
		}
	}
	// oracle: math.Log / math.Exp on the arguments stats.GeoMean needs
	var logtab, exptab []hx.Sx
	if in.GeoMean {
		seenL, seenE := map[uint64]bool{}, map[uint64]bool{}
		for _, unit := range c.Units {
			for _, cfg := range c.Configs {
				m, i, ok := 0.0, 0, true
				for _, g := range c.Groups {
					for _, b := range c.Benchmarks[g] {
						mt := c.Metrics[benchstat.Key{Config: cfg, Group: g, Benchmark: b, Unit: unit}]
						if mt == nil || mt.Mean == 0 || !ok {
							continue
						}
						x := mt.Mean
						if x <= 0 {
							ok = false
							continue
						}
						lx := math.Log(x)
						if !seenL[math.Float64bits(x)] {
							seenL[math.Float64bits(x)] = true
							logtab = append(logtab, hx.L(hx.F64(x), hx.F64(lx)))
						}
						m += (lx - m) / float64(i+1)
						i++
					}
				}
				if ok && i > 0 && !seenE[math.Float64bits(m)] {
					seenE[math.Float64bits(m)] = true
					exptab = append(exptab, hx.L(hx.F64(m), hx.F64(math.Exp(m))))
				}
			}
		}
	}
	return hx.L(hx.List(ptab), hx.List(logtab), hx.List(exptab)), c17RowStats{nshown, ntilde, nrows, nerr}
}

// ---------- known finding C17_binary64_overflow: input tag ----------
//
// The tag is decided per sample (the values recorded under one key) by
// replaying the mechanism on the input values, never from what the library
// reported:
//  (a) the binary64 fence q1-1.5*(q3-q1), q3+1.5*(q3-q1) over R8 quartiles
//      a+frac*(b-a) is not a pair of finite numbers although the exact fence
//      (math/big rationals over the same order statistics) is, and the two
//      retain different values;
//  (b) the incremental mean m += (x-m)/(i+1) of the values the binary64 fence
//      retains ends as NaN, or as an infinity that is not among them.

// order statistics used by R8 at p, and the interpolation weight, exactly
func c17R8(n int, p *big.Rat) (k int, frac *big.Rat) {
	pos := new(big.Rat).SetFrac64(1, 3)
	t := new(big.Rat).Add(new(big.Rat).SetInt64(int64(n)), big.NewRat(1, 3))
	pos.Add(pos, t.Mul(t, p))
	fl := new(big.Int).Div(pos.Num(), pos.Denom()) // pos > 0
	k = int(fl.Int64())
	frac = new(big.Rat).Sub(pos, new(big.Rat).SetInt(fl))
	return
}

func c17ExactQuantile(s []float64, p *big.Rat) *big.Rat {
	rat := func(x float64) *big.Rat {
		if math.IsInf(x, 0) || math.IsNaN(x) {
			return nil
		}
		return new(big.Rat).SetFloat64(x)
	}
	k, frac := c17R8(len(s), p)
	if k <= 0 {
		return rat(s[0])
	}
	if k >= len(s) {
		return rat(s[len(s)-1])
	}
	a, b := rat(s[k-1]), rat(s[k])
	if a == nil || b == nil {
		return nil
	}
	d := new(big.Rat).Sub(b, a)
	return d.Add(a, d.Mul(d, frac))
}

func c17FloatQuantile(s []float64, p float64) float64 {
	n := 1/3.0 + p*(float64(len(s))+1/3.0)
	kf, frac := math.Modf(n)
	k := int(kf)
	if k <= 0 {
		return s[0]
	}
	if k >= len(s) {
		return s[len(s)-1]
	}
	return s[k-1] + frac*(s[k]-s[k-1])
}

func c17SampleOverflows(vals []float64) bool {
	if len(vals) == 0 {
		return false
	}
	for _, v := range vals {
		if math.IsNaN(v) {
			return false
		}
	}
	s := append([]float64(nil), vals...)
	sort.Float64s(s)
	q1, q3 := c17FloatQuantile(s, 0.25), c17FloatQuantile(s, 0.75)
	lo, hi := q1-1.5*(q3-q1), q3+1.5*(q3-q1)
	finite := func(x float64) bool { return !math.IsNaN(x) && !math.IsInf(x, 0) }
	var kept []float64
	for _, v := range vals {
		if lo <= v && v <= hi {
			kept = append(kept, v)
		}
	}
	if !finite(lo) || !finite(hi) {
		e1, e3 := c17ExactQuantile(s, big.NewRat(1, 4)), c17ExactQuantile(s, big.NewRat(3, 4))
		if e1 != nil && e3 != nil {
			w := new(big.Rat).Sub(e3, e1)
			w.Mul(w, big.NewRat(3, 2))
			elo, ehi := new(big.Rat).Sub(e1, w), new(big.Rat).Add(e3, w)
			nk := 0
			for _, v := range vals {
				if finite(v) {
					r := new(big.Rat).SetFloat64(v)
					if elo.Cmp(r) <= 0 && r.Cmp(ehi) <= 0 {
						if nk >= len(kept) || kept[nk] != v {
							return true
						}
						nk++
					}
				}
			}
			if nk != len(kept) {
				return true
			}
		}
	}
	if len(kept) > 0 {
		m := 0.0
		for i, x := range kept {
			m += (x - m) / float64(i+1)
		}
		if math.IsNaN(m) {
			return true
		}
		if math.IsInf(m, 0) {
			among := false
			for _, x := range kept {
				if x == m {
					among = true
				}
			}
			if !among {
				return true
			}
		}
	}
	return false
}

// c17OverflowTags: the input tag of the finding, from the values the input
// records per key (Metrics.Values is the input gathered per key, judged equal
// to the input records by the specification)
func c17AnyOverflow(c *benchstat.Collection) bool {
	for _, m := range c.Metrics {
		if c17SampleOverflows(m.Values) {
			return true
		}
	}
	return false
}

func c17OverflowTags(c *benchstat.Collection, tags []string) []string {
	if c17AnyOverflow(c) {
		return append(append([]string{}, tags...), "C17_binary64_overflow")
	}
	return tags
}

func c17SortCounts(o *hx.Out, in c17Input, tables []*benchstat.Table) {
	for _, t := range tables {
		if len(t.Rows) > 12 && in.Order != "nil" {
			o.Count("sorted_table_rows>12")
			seenK, seenN := map[float64]bool{}, map[string]bool{}
			tieK, tieN := false, false
			for _, row := range t.Rows {
				k := math.Abs(row.PctDelta) * float64(row.Change)
				if seenK[k] {
					tieK = true
				}
				if seenN[row.Benchmark] {
					tieN = true
				}
				seenK[k], seenN[row.Benchmark] = true, true
			}
			if tieK && (in.Order == "delta" || in.Order == "rdelta" || in.Order == "rrdelta") {
				o.Count("sorted_table_rows>12_tied_delta_keys")
			}
			if tieN && (in.Order == "name" || in.Order == "rname" || in.Order == "rrname") {
				o.Count("sorted_table_rows>12_tied_names")
			}
		}
	}
}

func c17CollSx(c *benchstat.Collection) hx.Sx {
	var bsx []hx.Sx
	for _, g := range c.Groups {
		bsx = append(bsx, hx.L(hx.S(g), hx.SList(c.Benchmarks[g])))
	}
	return hx.L(hx.SList(c.Configs), hx.SList(c.Groups), hx.SList(c.Units), hx.List(bsx), hx.I(len(c.Metrics)))
}

func c17TablesSx(tables []*benchstat.Table) hx.Sx {
	var tsx []hx.Sx
	for _, t := range tables {
		var rows []hx.Sx
		for _, row := range t.Rows {
			var ms []hx.Sx
			for _, m := range row.Metrics {
				ms = append(ms, c17MetricsSx(m))
			}
			rows = append(rows, hx.L(hx.S(row.Benchmark), hx.S(row.Group), hx.List(ms), hx.F64(row.PctDelta),
				hx.S(row.Delta), hx.S(row.Note), hx.I(row.Change)))
		}
		tsx = append(tsx, hx.L(hx.S(t.Metric), hx.Bool(t.OldNewDelta), hx.SList(t.Configs), hx.SList(t.Groups), hx.List(rows)))
	}
	return hx.List(tsx)
}

// FormatText parsed back loosely: per non-blank line the first token and the
// delta-looking token; only meaningful when no label is empty
func c17TextSx(tables []*benchstat.Table) (bool, hx.Sx) {
	textOK := true
	for _, t := range tables {
		for _, row := range t.Rows {
			if row.Benchmark == "" {
				textOK = false
			}
		}
	}
	var tb bytes.Buffer
	benchstat.FormatText(&tb, tables)
	var textLines []hx.Sx
	for _, line := range strings.Split(tb.String(), "\n") {
		f := strings.Fields(line)
		if len(f) == 0 {
			continue
		}
		d := ""
		for _, tok := range f[1:] {
			if c17DeltaTok(tok) {
				d = tok
			}
		}
		textLines = append(textLines, hx.L(hx.S(f[0]), hx.S(d)))
	}
	return textOK, hx.List(textLines)
}

// FormatCSV parsed back: first cell and the delta cell by position
func c17CSVSx(tables []*benchstat.Table, norange bool) (bool, hx.Sx) {
	var cb bytes.Buffer
	benchstat.FormatCSV(&cb, tables, norange)
	cr := csv.NewReader(&cb)
	cr.FieldsPerRecord = -1
	recs, cerr := cr.ReadAll()
	var csvLines []hx.Sx
	for _, rec := range recs {
		csvLines = append(csvLines, hx.SList(rec))
	}
	return cerr == nil, hx.List(csvLines)
}

// ---------- generators ----------

var c17Units = []string{"ns/op", "MB/s", "B/op", "allocs/op", "x-MB/s", "widgets", "speed", "y-ns/op", "ns/GC", "z-B/op", "-MB/s", "MB/s-x"}
var c17Names = []string{"Fib", "Fib/n=10", "Fib/n=20", "Sort-8", "Sort-16", "Alloc", "Zed/big/x=1-4", "a", "B", "Encode/json", "Décode", "Fib-x"}

func c17Value(r *hx.Rng, base float64, style int) float64 {
	switch style {
	case 0: // noisy around base
		return base * (1 + 0.02*(r.Float()-0.5))
	case 1: // constant
		return base
	case 2: // zero
		return 0
	case 3: // wide noise
		return base * (0.5 + r.Float())
	case 4: // small integers (ties)
		return float64(r.Range(1, 5))
	case 5: // negative allowed
		return base * (r.Float() - 0.5)
	case 6: // negative throughout: negative means (a lower value is a larger magnitude)
		return -base * (1 + 0.02*(r.Float()-0.5))
	case 7: // near the top of the binary64 range, either sign: differences and the fence overflow
		v := 1.3e308 * (1 + 0.3*r.Float())
		if r.Bool() {
			v = -v
		}
		return v
	}
	return base
}

func c17Fmt(x float64) string { return strconv.FormatFloat(x, 'g', -1, 64) }

func c17Collection(r *hx.Rng, big bool) c17Input { return c17CollectionN(r, big, nil) }

// c17CollectionN: names, when given, fixes the number and the names of the
// configurations (histories); otherwise both are drawn as before.
func c17CollectionN(r *hx.Rng, big bool, names0 []string) c17Input {
	special := !big // no Inf among more than 20 rows: NaN sort keys make sort.SliceStable's result algorithm-specific
	var in c17Input
	in.Test = []string{"nil", "utest", "utest", "ttest", "ttest", "nodelta", "custom1", "custom2"}[r.Intn(8)]
	alphas := []float64{0, 0, 0.05, 0.01, 0.5, 1, 2, -1, 1e-9, 0.2, math.Copysign(0, -1), 0.001}
	in.Alpha = alphas[r.Intn(len(alphas))]
	in.AlphaS = c17Fmt(in.Alpha)
	switch r.Intn(8) {
	case 0:
		in.SplitBy = []string{"pkg"}
	case 1:
		in.SplitBy = []string{"goos", "pkg"}
	case 2:
		in.SplitBy = []string{"name"}
	case 3:
		in.SplitBy = []string{"n", "sub1", "gomaxprocs"}
	default:
		in.SplitBy = []string{}
	}
	in.Order = []string{"nil", "nil", "name", "delta", "rname", "rdelta", "rrname", "rrdelta", "delta"}[r.Intn(9)]
	in.GeoMean = r.Chance(0.45)
	in.NoRange = r.Bool()

	nconf := []int{1, 2, 2, 2, 2, 2, 3, 4, 2, 1}[r.Intn(10)]
	confNames := []string{"old.txt", "new.txt", "third", "dir/fourth.txt"}
	if r.Chance(0.06) && nconf >= 2 {
		confNames[1] = confNames[0] // the same name twice
	}
	if names0 != nil {
		nconf, confNames = len(names0), names0
	}
	nb := r.Range(1, 5)
	if big {
		nb = r.Range(6, 24)
	}
	var names []string
	for len(names) < nb {
		n := c17Names[r.Intn(len(c17Names))]
		if big {
			n = fmt.Sprintf("%s%d", n[:1], r.Intn(40))
		}
		names = append(names, n)
	}
	nu := r.Range(1, 3)
	var units []string
	for len(units) < nu {
		units = append(units, c17Units[r.Intn(len(c17Units))])
	}
	// per (bench, unit): base, style; per config a shift
	type bu struct {
		base  float64
		style int
	}
	plan := map[string]bu{}
	for _, n := range names {
		for _, u := range units {
			b := math.Pow(10, float64(r.Range(-3, 9))) * (1 + r.Float())
			st := []int{0, 0, 0, 0, 1, 2, 3, 4, 5, 0, 3, 6}[r.Intn(12)]
			if u != "widgets" && st == 5 && r.Bool() {
				st = 0
			}
			if special && r.Chance(0.01) {
				st = 7
			}
			plan[n+"\x00"+u] = bu{b, st}
		}
	}
	for ci := 0; ci < nconf; ci++ {
		cf := c17Config{Name: confNames[ci], Mode: []string{"text", "text", "file", "results"}[r.Intn(4)]}
		shift := 1.0
		if ci > 0 {
			shift = []float64{1, 1, 0.9, 1.1, 0.5, 2, 1.001, 0.97}[r.Intn(8)]
		}
		var sb strings.Builder
		if r.Chance(0.5) {
			sb.WriteString("goos: linux\npkg: " + []string{"foo", "bar/baz"}[r.Intn(2)] + "\n")
			if r.Chance(0.3) {
				sb.WriteString("\n")
			}
		}
		nrun := r.Range(1, 12)
		if r.Chance(0.1) {
			nrun = r.Range(13, 25)
		}
		// benchmarks in this config: mostly all, sometimes missing, order sometimes rotated
		var here []string
		for _, n := range names {
			if r.Chance(0.88) {
				here = append(here, n)
			}
		}
		if r.Chance(0.2) && len(here) > 1 {
			k := r.Intn(len(here))
			here = append(here[k:], here[:k]...)
		}
		byRun := r.Bool() // runs interleaved (go test -count) or grouped per benchmark
		emit := func(n string) {
			if r.Chance(0.04) {
				sb.WriteString("pkg: " + []string{"foo", "bar/baz", ""}[r.Intn(3)] + "\n")
			}
			switch r.Intn(60) {
			case 0:
				sb.WriteString("Benchmark" + n + " 0 12 ns/op\n") // zero iterations: ignored
				return
			case 1:
				sb.WriteString("Benchmark" + n + " 10 12\n") // too few fields
				return
			case 2:
				sb.WriteString("PASS\nok  \tpkg 1.2s\n")
			case 3:
				sb.WriteString("Benchmark" + n + " x 12 ns/op\n") // bad iteration count: ignored
				return
			}
			sb.WriteString("Benchmark" + n + " " + strconv.Itoa(r.Range(1, 100000)))
			for _, u := range units {
				if r.Chance(0.06) {
					continue
				}
				p := plan[n+"\x00"+u]
				v := c17Value(r, p.base*shift, p.style)
				if r.Chance(0.05) && p.style != 7 {
					v *= []float64{10, 0.1, 3, 100, -1}[r.Intn(5)] // outlier
				}
				txt := c17Fmt(v)
				sp := r.Intn(200)
				if (sp == 1 || sp == 4 || sp == 5) && (!special || r.Chance(0.6)) {
					sp = 100
				}
				switch sp {
				case 4:
					txt = "-Inf"
				case 5:
					txt = []string{"1.5e308", "-1.5e308", "1.7e308", "-1.7e308"}[r.Intn(4)]
				case 0:
					txt = "abc" // unparsable: pair skipped
				case 1:
					txt = "+Inf"
				case 2:
					txt = "1e400" // ParseFloat range error: pair skipped
				case 3:
					txt = "0x1p-2"
				}
				sb.WriteString(" " + txt + " " + u)
			}
			if r.Chance(0.03) {
				sb.WriteString(" 7") // dangling field
			}
			sb.WriteString("\n")
		}
		if byRun {
			for k := 0; k < nrun; k++ {
				for _, n := range here {
					if r.Chance(0.93) {
						emit(n)
					}
				}
			}
		} else {
			for _, n := range here {
				k2 := nrun
				if r.Chance(0.3) {
					k2 = r.Range(1, nrun)
				}
				for k := 0; k < k2; k++ {
					emit(n)
				}
			}
		}
		cf.Text = sb.String()
		if cf.Mode == "results" {
			// hand the reader's results over, some of them doctored
			rs, _ := c17Results(c17Config{Mode: "text", Text: cf.Text})
			for _, x := range rs {
				cr := c17Result{Labels: map[string]string{}, NameLabels: map[string]string{}, Content: x.Content}
				for k, v := range x.Labels {
					cr.Labels[k] = v
				}
				for k, v := range x.NameLabels {
					cr.NameLabels[k] = v
				}
				switch r.Intn(40) {
				case 0:
					cr.Content = "Bench" + strings.TrimPrefix(cr.Content, "Benchmark") // not a benchmark line
				case 1:
					cr.NameLabels["pkg"] = "fromname" // name label wins over file label
				case 2:
					cr.Content = "  " + strings.ReplaceAll(cr.Content, " ", "\t ")
				case 3:
					cr.Content = "Benchmark 5 1 ns/op" // empty benchmark name
				}
				cf.Results = append(cf.Results, cr)
			}
			cf.Text = ""
		}
		in.Configs = append(in.Configs, cf)
	}
	return in
}

// ---------- colliding (group, benchmark) labels ----------
//
// Two groups of which one extends the other after a separator ("pkg:example.com/codec"
// and "pkg:example.com/codec/JSON"), and a sub-benchmark in the shorter one
// ("JSON/Marshal") next to the plain name ("Marshal") in the longer one: the
// pairs (group, benchmark) are distinct although group + sep + benchmark is the
// same string.  Every such pair is a benchmark of its own: its own row in every
// table, its own cell statistics, its own term in the geomean.  Sometimes a
// chain of three groups; the separator is mostly "/" (also "", ":", "-", ".").

// c17CollideLabels reports whether two distinct (group, benchmark) pairs of the
// collection give the same string group + sep + benchmark, for the separators
// the stream uses (input predicate, for the distribution counts only).
func c17CollideLabels(c *benchstat.Collection) (rows int, seps map[string]bool) {
	seps = map[string]bool{}
	for _, sep := range []string{"/", "", ":", "-", ".", " "} {
		seen := map[string]int{}
		for _, g := range c.Groups {
			for _, b := range c.Benchmarks[g] {
				seen[g+sep+b]++
			}
		}
		for _, g := range c.Groups {
			for _, b := range c.Benchmarks[g] {
				if seen[g+sep+b] > 1 {
					seps[sep] = true
					if sep == "/" {
						rows++
					}
				}
			}
		}
	}
	return
}

func c17Collide(r *hx.Rng, names0 []string) c17Input {
	var in c17Input
	in.Test = []string{"nil", "utest", "utest", "ttest", "nodelta", "custom1", "custom2"}[r.Intn(7)]
	in.Alpha = []float64{0, 0, 0.05, 0.01, 0.5, 1, 0.2}[r.Intn(7)]
	in.AlphaS = c17Fmt(in.Alpha)
	in.Order = []string{"nil", "nil", "nil", "name", "delta", "rname", "rdelta", "rrname", "rrdelta"}[r.Intn(9)]
	in.GeoMean = r.Chance(0.55)
	in.NoRange = r.Bool()
	// the label that carries the group: a file label ("pkg: ..." line, alone or
	// after goos), another file label, or a label only AddResults can supply
	lab := "pkg"
	resultsOnly := false
	switch r.Intn(8) {
	case 0, 1, 2:
		in.SplitBy = []string{"pkg"}
	case 3:
		in.SplitBy = []string{"goos", "pkg"}
	case 4:
		lab = "branch"
		in.SplitBy = []string{"branch"}
	case 5:
		lab = "branch"
		in.SplitBy = []string{"pkg", "branch"}
	case 6:
		in.SplitBy = []string{"pkg", "missing"}
	default:
		lab = "suite"
		in.SplitBy = []string{"suite"}
		resultsOnly = true // handed over as a NAME label of hand-made results
	}
	sep := "/"
	if r.Chance(0.2) {
		sep = []string{"", ":", "-", "."}[r.Intn(4)]
	}
	base := []string{"example.com/codec", "enc", "a/b", "x", "golang.org/x/perf/benchstat", "Enc"}[r.Intn(6)]
	segs := []string{"JSON", "v2", "Gob", "sub", "n=10", "XML"}
	leafs := []string{"Marshal", "Marshal-8", "Encode/big", "n=10", "Unmarshal", "A"}
	depth := 2
	if r.Chance(0.25) {
		depth = 3
	}
	// group values base, base+sep+s1, base+sep+s1+sep+s2
	s1, s2 := segs[r.Intn(len(segs))], segs[r.Intn(len(segs))]
	gvals := []string{base, base + sep + s1, base + sep + s1 + sep + s2}[:depth]
	nleaf := r.Range(1, 2)
	type gb struct{ g, b string }
	var labels []gb
	for li := 0; li < nleaf; li++ {
		leaf := leafs[r.Intn(len(leafs))]
		// the same concatenation in every group of the chain
		suff := []string{s1 + sep + leaf, leaf}
		if depth == 3 {
			suff = []string{s1 + sep + s2 + sep + leaf, s2 + sep + leaf, leaf}
		}
		for gi, g := range gvals {
			if depth == 3 && r.Chance(0.15) {
				continue // only two of the three collide
			}
			labels = append(labels, gb{g, suff[gi]})
		}
	}
	// bystanders: plain names, some shared by the groups (legitimately equal
	// names in different groups), some of them only in one
	for k, nby := 0, r.Range(0, 3); k < nby; k++ {
		n := []string{"Fib", "Sort-8", "Plain", "Marshal", "JSON", "Z/z"}[r.Intn(6)]
		for _, g := range gvals {
			if r.Chance(0.6) {
				labels = append(labels, gb{g, n})
			}
		}
	}
	if r.Chance(0.2) {
		labels = append(labels, gb{"other", "Marshal"})
	}
	// order of first appearance: shorter group first, longer first, or mixed
	switch r.Intn(3) {
	case 0:
		for i, j := 0, len(labels)-1; i < j; i, j = i+1, j-1 {
			labels[i], labels[j] = labels[j], labels[i]
		}
	case 1:
		for i := len(labels) - 1; i > 0; i-- {
			j := r.Intn(i + 1)
			labels[i], labels[j] = labels[j], labels[i]
		}
	}
	// drop accidental duplicates of a (group, benchmark) pair
	{
		seen := map[gb]bool{}
		var u []gb
		for _, l := range labels {
			if !seen[l] {
				seen[l] = true
				u = append(u, l)
			}
		}
		labels = u
	}
	nu := r.Range(1, 2)
	units := []string{[]string{"ns/op", "MB/s", "B/op", "widgets", "allocs/op"}[r.Intn(5)], []string{"B/op", "x-MB/s", "ns/GC"}[r.Intn(3)]}[:nu]
	// every label its own level, so that merged samples, a row taken from the
	// wrong pair or a term missing from the geomean all show
	type lu struct {
		l gb
		u string
	}
	level := map[lu]float64{}
	for _, l := range labels {
		for _, u := range units {
			level[lu{l, u}] = float64(r.Range(2, 900)) * []float64{1, 1, 10, 0.5, 1000}[r.Intn(5)]
		}
	}
	nconf := []int{1, 2, 2, 2, 2, 3, 3, 4}[r.Intn(8)]
	confNames := []string{"old.txt", "new.txt", "third", "dir/fourth.txt"}
	if names0 != nil {
		nconf, confNames = len(names0), names0
	}
	for ci := 0; ci < nconf; ci++ {
		cf := c17Config{Name: confNames[ci], Mode: []string{"text", "file", "results"}[r.Intn(3)]}
		if resultsOnly {
			cf.Mode = "results"
		}
		shift := 1.0
		if ci > 0 {
			shift = []float64{1, 0.9, 1.1, 0.5, 2, 1.001, 0.97}[r.Intn(7)]
		}
		nrun := r.Range(2, 8)
		var here []gb
		for _, l := range labels {
			if r.Chance(0.93) {
				here = append(here, l)
			}
		}
		byRun := r.Bool()
		var sb strings.Builder
		var rs []c17Result
		if lab != "pkg" || len(in.SplitBy) > 1 {
			sb.WriteString("goos: linux\npkg: fixed/pkg\n")
		}
		cur := "\x00"
		emit := func(l gb) {
			if l.g != cur {
				cur = l.g
				sb.WriteString(lab + ": " + l.g + "\n")
			}
			line := "Benchmark" + l.b + " " + strconv.Itoa(r.Range(1, 1000))
			for _, u := range units {
				if r.Chance(0.04) {
					continue
				}
				v := level[lu{l, u}] * shift * (1 + 0.04*(r.Float()-0.5))
				if r.Chance(0.15) {
					v = level[lu{l, u}] * shift // ties
				}
				if r.Chance(0.03) {
					v *= 10 // outlier
				}
				line += " " + c17Fmt(v) + " " + u
			}
			sb.WriteString(line + "\n")
			rs = append(rs, c17Result{Labels: map[string]string{"goos": "linux", "pkg": "fixed/pkg"},
				NameLabels: map[string]string{lab: l.g}, Content: line})
		}
		if byRun {
			for k := 0; k < nrun; k++ {
				for _, l := range here {
					emit(l)
				}
			}
		} else {
			for _, l := range here {
				for k := 0; k < nrun; k++ {
					emit(l)
				}
			}
		}
		if resultsOnly {
			cf.Results = rs
		} else if cf.Mode == "results" {
			xs, _ := c17Results(c17Config{Mode: "text", Text: sb.String()})
			for _, x := range xs {
				cr := c17Result{Labels: map[string]string{}, NameLabels: map[string]string{}, Content: x.Content}
				for k, v := range x.Labels {
					cr.Labels[k] = v
				}
				for k, v := range x.NameLabels {
					cr.NameLabels[k] = v
				}
				cf.Results = append(cf.Results, cr)
			}
		} else {
			cf.Text = sb.String()
		}
		in.Configs = append(in.Configs, cf)
	}
	return in
}

// c17CollideOne runs one case of the stream and records its shape.
func c17CollideOne(o *hx.Out, in c17Input) error {
	c := &benchstat.Collection{SplitBy: in.SplitBy}
	for _, cf := range in.Configs {
		if _, err := c17AddConfig(c, cf, in.SplitBy); err != nil {
			return err
		}
	}
	rows, seps := c17CollideLabels(c)
	o.Count("stream=collide")
	if len(seps) > 0 {
		o.Count("collide: distinct (group, benchmark) pairs with equal group+sep+benchmark")
		for _, sp := range []string{"/", "", ":", "-", "."} {
			if seps[sp] {
				o.Count("collide: sep=" + strconv.Quote(sp))
			}
		}
		shape := "configs=1"
		switch {
		case len(in.Configs) == 2:
			shape = "configs=2(delta)"
		case len(in.Configs) > 2:
			shape = "configs>2"
		}
		o.Count("collide: " + shape)
		if in.GeoMean {
			o.Count("collide: " + shape + " geomean")
		}
		if in.Order != "nil" {
			o.Count("collide: sorted")
		}
		o.Count("collide: split=" + strings.Join(in.SplitBy, ","))
		if rows > 2 {
			o.Count("collide: more than one colliding pair")
		}
	}
	return c17One(o, in)
}

// ---------- sort stress: 13-40 rows, tied keys mixed with distinct ones ----------

// c17Text renders one configuration: for every (pkg, benchmark) its samples.
type c17Sample struct {
	pkg, name, unit string
	vals            []float64
}

func c17Text(ss []c17Sample) string {
	var sb strings.Builder
	pkg := "\x00"
	for _, s := range ss {
		if s.pkg != pkg {
			pkg = s.pkg
			sb.WriteString("pkg: " + pkg + "\n")
		}
		for _, v := range s.vals {
			sb.WriteString("Benchmark" + s.name + " 1 " + c17Fmt(v) + " " + s.unit + "\n")
		}
	}
	return sb.String()
}

func c17SortStress(r *hx.Rng) c17Input {
	var in c17Input
	in.Order = []string{"name", "delta", "rname", "rdelta", "rrname", "rrdelta", "delta", "rdelta"}[r.Intn(8)]
	in.Test = []string{"nodelta", "utest", "ttest", "nodelta", "nil"}[r.Intn(5)]
	in.Alpha = []float64{0, 0.05, 0.2, 0.5}[r.Intn(4)]
	in.AlphaS = c17Fmt(in.Alpha)
	in.GeoMean = r.Chance(0.3)
	in.NoRange = r.Bool()
	in.SplitBy = []string{"pkg"}
	npkg := r.Range(1, 3)
	if npkg == 1 && r.Bool() {
		in.SplitBy = []string{}
	}
	nrows := r.Range(13, 40)
	unit := []string{"ns/op", "MB/s", "B/op", "widgets"}[r.Intn(4)]
	// a few sample profiles: rows sharing a profile have identical statistics,
	// hence identical deltas (ties under ByDelta); names repeat across
	// packages (ties under ByName)
	nprof := r.Range(2, 6)
	type prof struct{ old, new []float64 }
	var profs []prof
	for i := 0; i < nprof; i++ {
		n := r.Range(3, 7)
		base := float64(r.Range(10, 1000))
		shift := []float64{1, 1, 0.5, 2, 1.1, 0.9, 1.01}[r.Intn(7)]
		var p prof
		for k := 0; k < n; k++ {
			p.old = append(p.old, base+float64(r.Range(0, 9)))
			p.new = append(p.new, base*shift+float64(r.Range(0, 9)))
		}
		if r.Chance(0.25) {
			p.new = append([]float64(nil), p.old...) // equal means: "0.00%" or "~"
		}
		profs = append(profs, p)
	}
	nnames := (nrows + npkg - 1) / npkg
	var olds, news []c17Sample
	rows := 0
	for pk := 0; pk < npkg && rows < nrows; pk++ {
		pkg := fmt.Sprintf("p%d", pk)
		// names in a scrambled order so that sorting has work to do
		perm := make([]int, nnames)
		for i := range perm {
			perm[i] = i
		}
		for i := len(perm) - 1; i > 0; i-- {
			j := r.Intn(i + 1)
			perm[i], perm[j] = perm[j], perm[i]
		}
		for _, i := range perm {
			if rows >= nrows {
				break
			}
			rows++
			name := fmt.Sprintf("N%02d", i)
			var p prof
			if r.Chance(0.6) {
				p = profs[r.Intn(len(profs))]
			} else { // a row of its own
				n := r.Range(3, 6)
				base := float64(r.Range(10, 1000))
				for k := 0; k < n; k++ {
					p.old = append(p.old, base+float64(r.Range(0, 9)))
					p.new = append(p.new, base*(0.5+r.Float())+float64(r.Range(0, 9)))
				}
			}
			olds = append(olds, c17Sample{pkg, name, unit, p.old})
			news = append(news, c17Sample{pkg, name, unit, p.new})
		}
	}
	in.Configs = []c17Config{{Name: "old", Mode: "text", Text: c17Text(olds)}, {Name: "new", Mode: "text", Text: c17Text(news)}}
	if r.Chance(0.15) { // ByName on a table without deltas
		in.Configs = append(in.Configs, c17Config{Name: "third", Mode: "text", Text: c17Text(olds)})
	}
	return in
}

// ---------- significance exactly at the threshold ----------

// c17PValues builds the collection once and returns the p-values the test
// gives on the compared rows (no error, 0 < p < 1).
func c17PValues(in c17Input) []float64 {
	c := &benchstat.Collection{DeltaTest: benchstat.NoDeltaTest, SplitBy: in.SplitBy}
	for _, cf := range in.Configs {
		c.AddConfig(cf.Name, []byte(cf.Text))
	}
	test := c17Test(in.Test)
	var ps []float64
	for _, t := range c.Tables() {
		for _, row := range t.Rows {
			if len(row.Metrics) != 2 {
				continue
			}
			p, err := test(row.Metrics[0], row.Metrics[1])
			if err == nil && p > 0 && p < 1 {
				ps = append(ps, p)
			}
		}
	}
	return ps
}

func c17SmallInts(r *hx.Rng, n, lo, hi int) []float64 {
	var v []float64
	for i := 0; i < n; i++ {
		v = append(v, float64(r.Range(lo, hi)))
	}
	return v
}

// c17Threshold: small integer samples; alpha is placed on, just above and
// just below the unrounded p-value of one row (all print as the same p=0.xxx),
// or samples are searched until p falls within 0.0005 of a customary alpha.
func c17Threshold(r *hx.Rng) (c17Input, bool) {
	var in c17Input
	in.Test = []string{"utest", "ttest", "ttest"}[r.Intn(3)]
	in.Order = []string{"nil", "delta", "rdelta"}[r.Intn(3)]
	in.SplitBy = []string{}
	in.NoRange = r.Bool()
	unit := []string{"ns/op", "MB/s", "B/op"}[r.Intn(3)]
	mk := func() {
		nb := r.Range(1, 4)
		var olds, news []c17Sample
		for b := 0; b < nb; b++ {
			n1, n2 := r.Range(3, 9), r.Range(3, 9)
			off := r.Range(0, 6)
			olds = append(olds, c17Sample{"x", fmt.Sprintf("T%d", b), unit, c17SmallInts(r, n1, 10, 22)})
			news = append(news, c17Sample{"x", fmt.Sprintf("T%d", b), unit, c17SmallInts(r, n2, 10+off, 22+off)})
		}
		in.Configs = []c17Config{{Name: "old", Mode: "text", Text: c17Text(olds)}, {Name: "new", Mode: "text", Text: c17Text(news)}}
	}
	if r.Bool() {
		// alpha placed relative to an observed p
		for try := 0; try < 50; try++ {
			mk()
			ps := c17PValues(in)
			if len(ps) == 0 {
				continue
			}
			p := ps[r.Intn(len(ps))]
			switch r.Intn(7) {
			case 0:
				in.Alpha = p
			case 1:
				in.Alpha = math.Nextafter(p, 2)
			case 2:
				in.Alpha = math.Nextafter(p, -1)
			case 3:
				in.Alpha = p + 0.0004*r.Float()
			case 4:
				in.Alpha = p - 0.0004*r.Float()
			case 5:
				in.Alpha = p * (1 + 1e-12)
			default:
				in.Alpha = p * (1 - 1e-12)
			}
			if in.Alpha == 0 {
				continue
			}
			in.AlphaS = c17Fmt(in.Alpha)
			return in, true
		}
		return in, false
	}
	// samples searched for a p within 0.0005 of a customary alpha
	in.Alpha = []float64{0, 0.05, 0.01, 0.1}[r.Intn(4)]
	in.AlphaS = c17Fmt(in.Alpha)
	eff := in.Alpha
	if eff == 0 {
		eff = 0.05
	}
	for try := 0; try < 4000; try++ {
		mk()
		for _, p := range c17PValues(in) {
			if math.Abs(p-eff) < 0.0005 {
				return in, true
			}
		}
	}
	return in, false
}

func genC17(o *hx.Out, r *hx.Rng, tier string, replay string) error {
	o.Rule = "collections of 1-4 configurations (same name twice allowed) built through AddConfig/AddFile/AddResults from generated benchmark text: 1-5 (or 6-24) benchmarks x 1-3 units from {ns/op, MB/s, B/op, allocs/op, x-MB/s, widgets, speed, y-ns/op, ns/GC, z-B/op, -MB/s, MB/s-x}, 1-25 runs, missing and repeated benchmarks, outliers, constant/zero/tied/negative samples (negative means on every unit), samples at +-1.3e308..1.7e308 and +-Inf among at most 20 rows, ignored and malformed lines, label changes; x {nil, UTest, TTest, NoDeltaTest, two custom tests} x alpha x SplitBy x Order (ByName, ByDelta, Reverse up to twice) x AddGeoMean; plus a sort stress stream (two configurations, 13-40 rows, rows sharing sample profiles and names repeated across packages so that keys tie, every Order) and a threshold stream (small integer samples under U/t-test with alpha on, one ulp around, and within 0.0004 of a row's unrounded p, or samples searched until p is within 0.0005 of alpha 0.05/0.01/0.1) and a history stream on ONE Collection (1-4 stages, each: add 0-6 further configurations, Tables(), then FormatText/FormatCSV/FormatHTML of those tables in a random order; 2-6 configurations whose names mostly share a directory prefix such as runs/a.txt, runs/b.txt, runs/c.txt, sometimes a name added again later; every Tables() result judged against the records added so far, collection and tables observed again after formatting) and a collision stream (single reports and histories; SplitBy pkg / goos,pkg / branch / pkg,branch / pkg,missing / a name label of hand-made results; 2-3 groups of which each extends the previous one after a separator - mostly \"/\", also none, \":\", \"-\", \".\" - e.g. pkg:example.com/codec and pkg:example.com/codec/JSON, the shorter holding the sub-benchmark JSON/Marshal and the longer Marshal, so that distinct (group, benchmark) pairs have equal group+sep+benchmark strings; each pair with a sample level of its own, bystander names shared between the groups, 1-4 configurations, every Order, with and without AddGeoMean). non-trivial = at least one table; distinct by input"
	n := 1500
	nbig := 60
	nsort, nthr := 40, 60
	nhist := 220
	ncoll, nhcoll := 260, 40
	if tier == "thorough" {
		n, nbig = 12000, 600
		nsort, nthr = 1500, 1500
		nhist = 4000
		ncoll, nhcoll = 4000, 600
	}
	// fixed small cases first
	fixed := []c17Input{
		{Test: "nil", Order: "nil", SplitBy: []string{}, Configs: []c17Config{
			{Name: "old", Mode: "text", Text: "BenchmarkA 1 10 ns/op\nBenchmarkA 1 11 ns/op\nBenchmarkA 1 12 ns/op\nBenchmarkA 1 10 ns/op\nBenchmarkA 1 100 ns/op\n"},
			{Name: "new", Mode: "text", Text: "BenchmarkA 1 5 ns/op\nBenchmarkA 1 6 ns/op\nBenchmarkA 1 5 ns/op\nBenchmarkA 1 6 ns/op\nBenchmarkA 1 5.5 ns/op\n"}}},
		{Test: "ttest", Order: "delta", GeoMean: true, SplitBy: []string{}, Configs: []c17Config{
			{Name: "old", Mode: "text", Text: "BenchmarkA 1 10 MB/s\nBenchmarkA 1 11 MB/s\nBenchmarkA 1 12 MB/s\nBenchmarkB 1 1 MB/s\nBenchmarkB 1 2 MB/s\nBenchmarkB 1 3 MB/s\n"},
			{Name: "new", Mode: "text", Text: "BenchmarkA 1 20 MB/s\nBenchmarkA 1 21 MB/s\nBenchmarkA 1 22 MB/s\nBenchmarkB 1 1 MB/s\nBenchmarkB 1 2 MB/s\nBenchmarkB 1 3.5 MB/s\n"}}},
		{Test: "utest", Order: "nil", SplitBy: []string{}, Configs: []c17Config{}},
		// audit witnesses.  Negative means: -10 -> -5 ns/op is a higher value, hence a
		// regression, printed "-49.80%"; -1.04 -> +1.04 widgets prints "-200.00%"
		{Test: "utest", Order: "delta", SplitBy: []string{}, Configs: []c17Config{
			{Name: "old", Mode: "text", Text: c17Text([]c17Sample{{"p", "Neg", "ns/op", []float64{-10, -10.1, -9.9, -10, -10.2}}, {"p", "Neg", "MB/s", []float64{-10, -10.1, -9.9, -10, -10.2}}, {"p", "Flip", "widgets", []float64{-1, -1.1, -1, -1.1, -1}}})},
			{Name: "new", Mode: "text", Text: c17Text([]c17Sample{{"p", "Neg", "ns/op", []float64{-5, -5.1, -4.9, -5, -5.2}}, {"p", "Neg", "MB/s", []float64{-5, -5.1, -4.9, -5, -5.2}}, {"p", "Flip", "widgets", []float64{1, 1.1, 1, 1.1, 1}}})}}},
		// the geomean of an old-new table: C has no row (new lacks it) yet takes part in the
		// old column (the statement does not restrict the geomean to the rows shown)
		{Test: "utest", Order: "nil", GeoMean: true, SplitBy: []string{}, Configs: []c17Config{
			{Name: "old", Mode: "text", Text: c17Text([]c17Sample{{"p", "A", "ns/op", []float64{10, 10, 10}}, {"p", "B", "ns/op", []float64{10, 10, 10}}, {"p", "C", "ns/op", []float64{1000, 1000}}})},
			{Name: "new", Mode: "text", Text: c17Text([]c17Sample{{"p", "A", "ns/op", []float64{10, 10, 10}}, {"p", "B", "ns/op", []float64{10, 10, 10}}})}}},
		{Test: "nodelta", Order: "nil", GeoMean: true, SplitBy: []string{}, Configs: []c17Config{
			{Name: "old", Mode: "text", Text: c17Text([]c17Sample{{"p", "A", "ns/op", []float64{10, 11, 12}}, {"p", "B", "ns/op", []float64{20, 21, 22}}, {"p", "C", "ns/op", []float64{1000, 1001}}})},
			{Name: "new", Mode: "text", Text: c17Text([]c17Sample{{"p", "C", "ns/op", []float64{500, 501}}, {"p", "A", "ns/op", []float64{5, 6, 7}}, {"p", "D", "ns/op", []float64{7, 8, 9}}})}}},
		// symmetric outliers: the mean of ALL values (10) and the median (10) lie inside the retained hull
		{Test: "nodelta", Order: "nil", SplitBy: []string{}, Configs: []c17Config{
			{Name: "old", Mode: "text", Text: c17Text([]c17Sample{{"p", "S", "ns/op", []float64{1, 10, 10, 10, 10, 19}}, {"p", "T", "ns/op", []float64{1, 2, 3, 4, 5, 6, 7, 8, 90}}})},
			{Name: "new", Mode: "text", Text: c17Text([]c17Sample{{"p", "S", "ns/op", []float64{1, 10, 10, 12, 10, 19}}, {"p", "T", "ns/op", []float64{9, 8, 7, 6, 5, 4, 3, 2, 1}}})}}},
		// known finding C17_binary64_overflow: mean NaN, fence (+Inf,-Inf)
		{Test: "nodelta", Order: "nil", SplitBy: []string{}, Configs: []c17Config{
			{Name: "old", Mode: "text", Text: c17Text([]c17Sample{{"p", "Big", "ns/op", []float64{1.5e308, -1.5e308, 1.5e308, -1.5e308}}, {"p", "Inf", "ns/op", []float64{math.Inf(1), 1, 2}}, {"p", "InfLast", "ns/op", []float64{1, 2, math.Inf(1)}}})},
			{Name: "new", Mode: "text", Text: c17Text([]c17Sample{{"p", "Big", "ns/op", []float64{1.7e308, -1.7e308, 1.7e308}}, {"p", "Inf", "ns/op", []float64{1, 2, 3}}, {"p", "InfLast", "ns/op", []float64{1, 2, 3, 4, 5, 6, 7, 8, 9, math.Inf(1)}}})}}},
	}
	for _, in := range fixed {
		in.AlphaS = c17Fmt(in.Alpha)
		if err := c17One(o, in); err != nil {
			return err
		}
	}
	for i := 0; i < n; i++ {
		if err := c17One(o, c17Collection(r.Split(), false)); err != nil {
			return err
		}
	}
	for i := 0; i < nbig; i++ {
		if err := c17One(o, c17Collection(r.Split(), true)); err != nil {
			return err
		}
	}
	// sort stress: 13-40 rows (sort.Slice and sort.SliceStable part ways beyond 12 elements)
	for i := 0; i < nsort; i++ {
		o.Count("stream=sort_stress")
		if err := c17One(o, c17SortStress(r.Split())); err != nil {
			return err
		}
	}
	// p-values on and around alpha
	found := 0
	for i := 0; i < nthr; i++ {
		in, ok := c17Threshold(r.Split())
		if !ok {
			o.Count("threshold_search_failed")
			continue
		}
		found++
		o.Count("stream=threshold")
		if err := c17One(o, in); err != nil {
			return err
		}
	}
	o.Extra["threshold_cases"] = found
	// histories: one collection reporting several times (c17hist.go)
	for _, in := range c17FixedHistories() {
		in.AlphaS = c17Fmt(in.Alpha)
		if err := c17HistOne(o, in); err != nil {
			return err
		}
	}
	for i := 0; i < nhist; i++ {
		if err := c17HistOne(o, c17History(r.Split())); err != nil {
			return err
		}
	}
	// colliding (group, benchmark) labels: single reports, then histories
	fixedColl := []c17Input{
		{Test: "utest", Order: "nil", GeoMean: true, SplitBy: []string{"pkg"}, Configs: []c17Config{
			{Name: "old", Mode: "text", Text: c17Text([]c17Sample{{"example.com/codec", "JSON/Marshal", "ns/op", []float64{100, 101, 102, 100, 101}}, {"example.com/codec/JSON", "Marshal", "ns/op", []float64{900, 901, 902, 900, 903}}})},
			{Name: "new", Mode: "text", Text: c17Text([]c17Sample{{"example.com/codec", "JSON/Marshal", "ns/op", []float64{50, 51, 52, 50, 51}}, {"example.com/codec/JSON", "Marshal", "ns/op", []float64{1800, 1801, 1802, 1800, 1803}}})}}},
		{Test: "nodelta", Order: "name", GeoMean: true, SplitBy: []string{"pkg"}, Configs: []c17Config{
			{Name: "only", Mode: "text", Text: c17Text([]c17Sample{{"example.com/codec/JSON", "Marshal", "ns/op", []float64{900, 901, 902}}, {"example.com/codec", "JSON/Marshal", "ns/op", []float64{100, 101, 102}}, {"example.com/codec", "Marshal", "ns/op", []float64{10, 11, 12}}})}}},
	}
	for _, in := range fixedColl {
		in.AlphaS = c17Fmt(in.Alpha)
		if err := c17CollideOne(o, in); err != nil {
			return err
		}
	}
	for i := 0; i < ncoll; i++ {
		if err := c17CollideOne(o, c17Collide(r.Split(), nil)); err != nil {
			return err
		}
	}
	for i := 0; i < nhcoll; i++ {
		o.Count("stream=collide_history")
		if err := c17HistOne(o, c17HistoryOf(r.Split(), true)); err != nil {
			return err
		}
	}
	return nil
}
