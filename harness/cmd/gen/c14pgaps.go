package main

// C14 pipeline cases for two input classes that belong to C02 (file labels)
// and C06 (measurement masks) and reach cmd/benchstat through its arguments:
//
//   dup+label: the same file given at least twice as a plain path AND at least
//     once as label=path (`a.txt a.txt ref=a.txt`), in every order, with another
//     file in between: the labelled input keeps its label, the plain duplicates
//     are path#0, path#1 (seen as the .file column labels, in -filter .file:...
//     and in the "benchmarks vary in" / table keys when .file is projected);
//   mask: benchmark lines with exactly 31, 32, 33, 64, 65 value/unit pairs of
//     pairwise different units u0 .. u<n-1> under -filter .unit:u<k> for k at
//     the mask's word boundaries, negated and as small unions: the tables that
//     exist are exactly those of the units the filter keeps.

import (
	"fmt"
	"strings"

	"verifharness/internal/hx"
)

func ppDupInput(r *hx.Rng, o *hx.Out) (ppInput, string) {
	var in ppInput
	sh := &ppShape{benches: ppNames(r), units: []string{r.Pick(ppUnits[:4])}}
	if r.Chance(0.4) {
		sh.units = append(sh.units, r.Pick(ppUnits[4:]))
	}
	base := bsFile{Name: "f0.txt", Content: ppFileText(r, sh, false)}
	other := bsFile{Name: "f1.txt", Content: ppFileText(r, sh, false)}
	np := r.Range(2, 3)
	for i := 0; i < np; i++ {
		in.Files = append(in.Files, base)
	}
	nl := 1
	if r.Chance(0.25) {
		nl = 2
	}
	labels := []string{"ref", "old", "new", "L"}
	for i := 0; i < nl; i++ {
		f := base
		f.Label = labels[(r.Intn(2)+2*i)%len(labels)]
		in.Files = append(in.Files, f)
	}
	others := r.Intn(3)
	for i := 0; i < others; i++ {
		f := other
		if r.Chance(0.3) {
			f.Label = "new"
		}
		in.Files = append(in.Files, f)
	}
	for j := len(in.Files) - 1; j > 0; j-- {
		k := r.Intn(j + 1)
		in.Files[j], in.Files[k] = in.Files[k], in.Files[j]
	}
	// where the (first) label stands among the plain duplicates
	seen, pos := 0, ""
	for _, f := range in.Files {
		if f.Name != base.Name {
			continue
		}
		if f.Label == "" {
			seen++
		} else if pos == "" {
			switch seen {
			case 0:
				pos = "before"
			case np:
				pos = "after"
			default:
				pos = "between"
			}
		}
	}
	o.Count("pipe:class:dup+label label-" + pos + "-the-plain-duplicates")
	if others > 0 {
		o.Count("pipe:class:dup+label with-another-file")
	}
	fl := ppFlags{Filter: "*", Table: ".config", Row: ".fullname", Col: ".file", Ignore: ""}
	switch r.Intn(8) {
	case 0:
		fl.Filter = r.Pick([]string{".file:ref", "-.file:ref", ".file:/#1$/", ".file:/#0$/ OR .file:old", "-.file:/#/"})
	case 1:
		fl.Table, fl.Col = ".file", "goos"
	case 2:
		fl.Row, fl.Col = ".fullname,.file", "goos"
	case 3:
		fl.Col = ".file@alpha"
	case 4:
		fl.Ignore = ".file"
		fl.Col = "goos"
	}
	in.Flags = fl
	return in, "dup+label"
}

func ppMaskUnit(i int) string { return fmt.Sprintf("u%d", i) }

func ppMaskInput(r *hx.Rng, o *hx.Out, n int, directed int) (ppInput, string) {
	var in ppInput
	names := []string{"Fib", "Sort-4"}
	nfiles := r.Range(1, 2)
	for fi := 0; fi < nfiles; fi++ {
		var b strings.Builder
		b.WriteString("goos: linux\n")
		for rep := r.Range(1, 2); rep > 0; rep-- {
			for _, name := range names[:r.Range(1, 2)] {
				fmt.Fprintf(&b, "Benchmark%s %d", name, r.Range(1, 100))
				for i := 0; i < n; i++ {
					fmt.Fprintf(&b, " %d %s", r.Range(1, 5000), ppMaskUnit(i))
				}
				b.WriteString("\n")
			}
		}
		in.Files = append(in.Files, bsFile{Name: fmt.Sprintf("f%d.txt", fi), Content: b.String()})
	}
	var edges []int
	for _, k := range []int{0, 3, 30, 31, 32, 33, 62, 63, 64, n - 2, n - 1} {
		if k >= 0 && k < n {
			edges = append(edges, k)
		}
	}
	pick := func() int { return edges[r.Intn(len(edges))] }
	fl := ppFlags{Table: ".config", Row: ".fullname", Col: ".file", Ignore: ""}
	shape := ""
	// the last measurement of a full mask word (or the last one of the line)
	wordEnd := n - 1
	if n >= 32 {
		wordEnd = 32*r.Range(1, n/32) - 1
	}
	choice := r.Intn(8)
	switch {
	case directed == 0:
		choice = -1
		fl.Filter, shape = ".unit:"+ppMaskUnit(wordEnd), "only-the-last-of-a-word (directed)"
	case directed == 1:
		choice = -1
		fl.Filter, shape = "-.unit:"+ppMaskUnit(wordEnd), "all-but-the-last-of-a-word (directed)"
	}
	switch choice {
	case -1:
	case 0, 1, 2:
		fl.Filter, shape = ".unit:"+ppMaskUnit(pick()), "one"
	case 3:
		fl.Filter, shape = ".unit:"+ppMaskUnit(n-1), "the-last"
	case 4:
		fl.Filter, shape = fmt.Sprintf(".unit:(%s OR %s OR %s)", ppMaskUnit(pick()), ppMaskUnit(pick()), ppMaskUnit(n-1)), "a-few"
	case 5:
		if n <= 33 {
			fl.Filter, shape = "-.unit:"+ppMaskUnit(pick()), "all-but-one"
		} else {
			// all but one of a small set (the number of tables stays small)
			fl.Filter, shape = fmt.Sprintf(".unit:/^u(3|31|32|63|%d)$/ -.unit:%s", n-1, ppMaskUnit([]int{31, 63, n - 1}[r.Intn(3)])), "a-few-but-one"
		}
	case 6:
		fl.Filter, shape = ".unit:/^u3/", "prefix-regexp"
	default:
		fl.Filter, shape = fmt.Sprintf(".name:Fib .unit:%s OR .name:Sort .unit:%s", ppMaskUnit(pick()), ppMaskUnit(pick())), "per-name"
	}
	o.Count(fmt.Sprintf("pipe:class:mask n=%d value/unit pairs per line, -filter %s", n, shape))
	in.Flags = fl
	return in, "mask"
}

func genC14PipelineGaps(o *hx.Out, r *hx.Rng, tier string, exe, dir string) error {
	o.Rule += "; pipeline dup+label: the same file 2-3 times as a plain argument and 1-2 times as label=path, shuffled, with 0-2 arguments naming another file in between (default flags; -filter on .file values path#N / labels; .file as table, row or ignored key); pipeline mask: benchmark lines with exactly 31, 32, 33, 64, 65 value/unit pairs of pairwise different units u0.. under -filter .unit:u<k> (k the last measurement of a 32-bit mask word: directed; k next to a word boundary), -.unit:u<k>, small unions, a prefix regexp, per-name conjunctions"
	nDup, nMask := 24, 4
	if tier == "thorough" {
		nDup, nMask = 300, 40
	}
	for i := 0; i < nDup; i++ {
		in, kind := ppDupInput(r.Split(), o)
		if err := ppCase(o, exe, dir, in, kind); err != nil {
			return err
		}
	}
	for _, n := range []int{31, 32, 33, 64, 65} {
		for i := 0; i < nMask; i++ {
			in, kind := ppMaskInput(r.Split(), o, n, i%(nMask))
			if err := ppCase(o, exe, dir, in, kind); err != nil {
				return err
			}
		}
	}
	return nil
}
