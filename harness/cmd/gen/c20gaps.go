package main

// C20, BIG uploads followed by a failing step. The database layer flushes its
// buffered rows whenever 990 arguments are pending, inside the one records
// transaction; a request of 600-2000 records with distinct labels makes it
// flush more than 16 times before anything can fail. Then one step fails: a
// later file without benchmark lines, an `abort` / unexpected field, the client's
// Abort, the body cut or the connection dropped (inside the big file, inside a
// later file, inside the closing delimiter), a file-store fault late in the big
// file or on the later file, a database fault at a late flush / the last flush /
// the commit. Judged like every other upload case: status not 200, nothing of
// the upload queryable or listed, earlier uploads untouched.

import (
	"bytes"
	"fmt"
	"strings"

	"verifharness/internal/hx"
)

// c20BigBody: n benchmark lines with pairwise distinct label sets (so nothing
// coalesces) and a file label that changes now and then.
func c20BigBody(shape int, goos bool, n int) string {
	var sb strings.Builder
	if goos {
		sb.WriteString("goos: linux\n")
	}
	for i := 0; i < n; i++ {
		if i%250 == 100 {
			fmt.Fprintf(&sb, "commit: c%d\n", i)
		}
		switch shape {
		case 0:
			fmt.Fprintf(&sb, "BenchmarkBig/i=%d-8 1 %d ns/op\n", i, i%3)
		case 1:
			fmt.Fprintf(&sb, "BenchmarkB%d 1 %d ns/op\n", i, i%3)
		default:
			fmt.Fprintf(&sb, "BenchmarkBig/i=%d/j=%d 1 %d ns/op\n", i, i%7, i%3)
		}
	}
	return sb.String()
}

func c20BigScenario(o *hx.Out, r *hx.Rng, extra int) error {
	in := c20Input{Kind: "upload", Light: true}
	var herr error
	if in.Pre, herr = c20GenHistory(r, r.Intn(3), ""); herr != nil {
		return herr
	}
	user := r.Pick([]string{"", "user"})
	big := c20Part{Kind: "file", Name: r.Pick([]string{"big.txt", ""})}
	shape, goos := r.Intn(3), r.Bool()
	// labels per record (server labels + file labels + name labels), as the
	// server's reader sees them; enough records for more than 17 flushes of
	// 248 labels, within 600-2000
	counts, _ := c19LabelCounts(c19Upload{User: user, Files: []c19File{{big.Name, c20BigBody(shape, goos, 1)}}})
	nrec := 18*248/counts[0] + 1 + extra
	nrec = min(max(nrec, 600), 2000)
	big.Body = c20BigBody(shape, goos, nrec)
	o.Count(fmt.Sprintf("big.labels-per-record=%d", counts[0]))
	later := c20Part{Kind: "file", Name: "later.txt", Body: c20GenFileBody(r)}
	// the intact request: the big file, then (mostly) a small later file
	good := c20Req{User: user, Parts: []c20Part{big}}
	if r.Chance(0.7) {
		good.Parts = append(good.Parts, later)
	}
	good.Parts = append(good.Parts, c20Part{Kind: "commit"})
	in.Req = good
	ops, writes, sqlKinds, sqlDuring, err := c20DryRun(in)
	if err != nil {
		return err
	}
	nflush := 0
	for i, k := range sqlKinds {
		if k == "exec" && sqlDuring[i] >= 0 {
			nflush++
		}
	}
	nflush /= 2 // one flush = the Records INSERT and the RecordLabels INSERT
	o.Count("big")
	o.Count(fmt.Sprintf("big.records=%d00s", nrec/100))
	if nflush > 16 {
		o.Count("big.over-16-flush-batches")
	}
	o.Extra[fmt.Sprintf("big_%d", o.Len())] = map[string]int{"records": nrec, "flushes_while_reading": nflush, "fs_ops": ops, "sql_ops": len(sqlKinds)}
	run := func(what string, f c20Fault, rq c20Req) error {
		x := in
		x.Req = rq
		x.Fault = f
		w := writes
		if f.Kind != "fs" && f.Kind != "none" {
			w = nil
		}
		o.Count("big.step=" + what)
		return c20Run(o, x, w, sqlKinds, sqlDuring)
	}
	with := func(extra ...c20Part) c20Req {
		return c20Req{User: user, Parts: append(append([]c20Part{}, good.Parts[:len(good.Parts)-1]...), append(extra, c20Part{Kind: "commit"})...)}
	}
	// the intact request succeeds: every record queryable
	if err := run("none", c20Fault{"none", 0}, good); err != nil {
		return err
	}
	// an invalid later file (after the big one; and after the big and the small one)
	for _, bad := range []string{r.Pick(c20NoBenchBodies), r.Pick(c20NoBenchBodies)} {
		rq := c20Req{User: user, Parts: []c20Part{big, {Kind: "file", Name: "bad.txt", Body: bad}, {Kind: "commit"}}}
		if r.Bool() {
			rq = with(c20Part{Kind: "file", Name: "bad.txt", Body: bad})
		}
		if err := run("invalid-later-file", c20Fault{"none", 0}, rq); err != nil {
			return err
		}
	}
	// rows the database refuses, in a later file
	if err := run("refused-later-file", c20Fault{"none", 0}, with(c20Part{Kind: "file", Name: "dup.txt", Body: "name: x\nBenchmarkDup 1 2 ns/op\n"})); err != nil {
		return err
	}
	// an abort field / an unexpected field after the files; the real client's Abort
	for _, f := range []string{"abort", r.Pick([]string{"other", "File", "commit2"})} {
		rq := c20Req{User: user, Parts: append(append([]c20Part{}, good.Parts[:len(good.Parts)-1]...), c20Part{Kind: "field", Name: f, Body: "1"}, c20Part{Kind: "commit"})}
		what := "unexpected-field"
		if f == "abort" {
			what = "abort-field"
		}
		if err := run(what, c20Fault{"none", 0}, rq); err != nil {
			return err
		}
	}
	nfiles := len(good.Parts) - 1
	if err := run("client-abort", c20Fault{"abort", nfiles}, good); err != nil {
		return err
	}
	// the body truncated: late inside the big file, inside the later file's
	// data, inside the closing delimiter; with intact framing and as a drop
	full := c20Encode(good.Parts)
	bigStart := bytes.Index(full, []byte("\r\n\r\n")) + 4
	bigEnd := bigStart + len(big.Body)
	cuts := []int{bigStart + len(big.Body)*r.Range(70, 99)/100, bigEnd - r.Range(0, 40), len(full) - r.Range(3, 30)}
	if nfiles > 1 {
		if i := bytes.Index(full[bigEnd:], []byte("\r\n\r\n")); i >= 0 {
			cuts = append(cuts, bigEnd+i+4+r.Range(1, max(1, len(later.Body)-1)))
		}
	}
	for _, cut := range cuts {
		kind := r.Pick([]string{"cut", "drop"})
		if cls, _ := c20CutClass(full, cut); cls == "header" {
			kind = "drop" // the clean end inside a later part's header is the recorded finding; not this class
		}
		if err := run("truncated-"+kind, c20Fault{kind, cut}, good); err != nil {
			return err
		}
	}
	// a storage fault: the last operations (close of the last file, its writes,
	// its create) and late body writes of the big file
	fsAt := map[int]bool{ops - 1: true, ops - 2: true, ops - r.Range(3, 6): true}
	if nw := writes[0]; nw > 8 {
		// operations of part 0: create (0), nw writes (header lines, separator, body), close (nw+1)
		fsAt[nw-r.Range(0, 2)] = true
		fsAt[nw+1] = true
	}
	for n := 0; n < ops; n++ {
		if fsAt[n] {
			if err := run("storage-fault", c20Fault{"fs", n}, good); err != nil {
				return err
			}
		}
	}
	// a database fault: a flush beyond the 16th batch while the file is read, the
	// last such flush, the flush at Commit, the commit itself
	var mid []int
	lastCommit, lastExec := -1, -1
	for i, k := range sqlKinds {
		switch {
		case k == "exec" && sqlDuring[i] >= 0 && i >= 5:
			mid = append(mid, i)
		case k == "exec" && i >= 5:
			lastExec = i
		case k == "commit":
			lastCommit = i
		}
	}
	sqlAt := map[int]bool{}
	if len(mid) > 34 {
		sqlAt[mid[34+r.Intn(len(mid)-34)]] = true
	}
	if len(mid) > 0 {
		sqlAt[mid[len(mid)-1]] = true
	}
	if lastExec >= 0 {
		sqlAt[lastExec] = true
	}
	if lastCommit >= 5 {
		sqlAt[lastCommit] = true
	}
	for n := 0; n < len(sqlKinds); n++ {
		if sqlAt[n] {
			if err := run("database-fault", c20Fault{"sql", n}, good); err != nil {
				return err
			}
		}
	}
	return nil
}

// c20BoundarySweep: fault-free single-file uploads of n = 1, 2, 3, ... records
// with pairwise distinct labels, past the second 990-argument flush of the
// database layer - so that for some n the LAST record of the upload is the one
// being inserted when a forced flush fires (its record row goes out with that
// flush, part of its label rows only with the flush at Commit), for some n the
// flush falls exactly between two records, and for the others somewhere
// earlier. Judged like every successful upload: every record of the file is
// returned by upload:<id> and by the label queries, once.
func c20BoundarySweep(o *hx.Out, r *hx.Rng, dense bool) error {
	user := r.Pick([]string{"", "user"})
	name := r.Pick([]string{"f.txt", ""})
	shape, goos := r.Intn(3), r.Bool()
	counts, _ := c19LabelCounts(c19Upload{User: user, Files: []c19File{{name, c20BigBody(shape, goos, 1)}}})
	per := max(counts[0], 1)
	hi := 2*248/per + 3
	o.Count(fmt.Sprintf("sweep.labels-per-record=%d", per))
	for n := 1; n <= hi; n++ {
		// away from the two boundaries every third size is enough in the quick tier
		near := false
		for _, b := range []int{248 / per, 2 * 248 / per} {
			if n >= b-1 && n <= b+2 {
				near = true
			}
		}
		if !dense && !near && n%3 != 0 && hi > 120 {
			continue // (the label count is an estimate: all sizes unless that would be many)
		}
		in := c20Input{Kind: "upload", Light: true}
		in.Req = c20Req{User: user, Parts: []c20Part{{Kind: "file", Name: name, Body: c20BigBody(shape, goos, n)}, {Kind: "commit"}}}
		in.Fault = c20Fault{"none", 0}
		_, writes, sqlKinds, sqlDuring, err := c20DryRun(in)
		if err != nil {
			return err
		}
		o.Count("sweep.upload")
		if near {
			o.Count("sweep.near-flush-boundary")
		}
		if err := c20Run(o, in, writes, sqlKinds, sqlDuring); err != nil {
			return err
		}
	}
	return nil
}

func genC20Big(o *hx.Out, r *hx.Rng, tier string) error {
	n := 2
	if tier == "thorough" {
		n = 12
	}
	for i := 0; i < n; i++ {
		extra := r.Range(0, 150)
		if i%2 == 1 {
			extra = r.Range(150, 900)
		}
		if err := c20BigScenario(o, r.Split(), extra); err != nil {
			return err
		}
	}
	return nil
}
