package main

// C18, two more history classes:
//
//   (4 results wf runs conf N refs incs)   ONE Builder used incrementally: some
//        results are added, AllComparisonSeries + AddSummaries on every series,
//        then the remaining results are added (into cells that have just been
//        summarised) and the series are built and summarised again.
//        runs / refs as in kind 2 (FRESH builders over the whole result set);
//        inc = (how order k out1 sums1 out2 sums2), k = number of (result,
//        value) pairs added before the first build.
//
//   kind 2 again, but every run reads FILES through one benchfmt.Files /
//        Builder.AddFiles: the builder keys (goos runstamp ser role nh dh) are
//        file-configuration lines; every file sets its own subset of them in
//        its own order, so a result of a later file has the EMPTY value for a
//        key its file does not set.  The result set handed to the model is what
//        the files say (harness-side reading of its own files), run orders are
//        the file orders.
import (
	"fmt"
	"os"
	"path/filepath"
	"sort"
	"strings"
	"time"

	"golang.org/x/perf/benchfmt"
	"golang.org/x/perf/benchseries"
	"verifharness/internal/hx"
)

// ---------------------------------------------------------------- incremental use of one builder

type c18IncOut struct {
	out1, sums1, out2, sums2 hx.Sx
	kind                     string
	hit                      bool // the second part adds into a cell the first build summarised
}

// unit string of a comparison series as AllComparisonSeries names it
func c18UString(unit, table string) string {
	if table != "" {
		return unit + " " + table
	}
	return unit
}

func c18RunInc(results []c18Result, order []int, k int, how int, conf float64, n int) (res c18IncOut) {
	res.out1, res.sums1, res.out2, res.sums2 = hx.L(hx.I(2)), hx.L(hx.I(2)), hx.L(hx.I(2)), hx.L(hx.I(2))
	res.kind = "panic"
	defer func() {
		if e := recover(); e != nil {
			res.kind = "panic"
		}
	}()
	b, err := benchseries.NewBuilder(c18Opts())
	if err != nil {
		panic(err)
	}
	for _, i := range order[:k] {
		b.Add(results[i].result())
	}
	css, err := b.AllComparisonSeries(nil, how)
	summarised := map[string]bool{} // unit-string | benchmark | series point
	trials := map[string]bool{}     // unit-string | benchmark | experiment text, of summarised cells
	if err != nil {
		res.out1, res.sums1 = hx.L(hx.I(1)), hx.L(hx.I(0), hx.L())
	} else {
		res.out1 = hx.L(hx.I(0), c18Observe(css))
		res.sums1 = c18Summaries(css, conf, n)
		for _, cs := range css {
			for bi, bn := range cs.Benchmarks {
				for si, s := range cs.Series {
					if si < len(cs.Summaries) && bi < len(cs.Summaries[si]) && cs.Summaries[si][bi].Defined() {
						summarised[cs.Unit+"|"+bn+"|"+s] = true
					}
				}
			}
		}
		for _, i := range order[:k] {
			c := results[i]
			if c.Role != "num" {
				continue
			}
			ser, e := benchseries.NormalizeDateString(c.Ser)
			if e != nil {
				continue
			}
			for _, u := range c.Units {
				if summarised[c18UString(u, c.Table)+"|"+c.Bench+"|"+ser] {
					trials[c18UString(u, c.Table)+"|"+c.Bench+"|"+c.Exp] = true
				}
			}
		}
	}
	for _, i := range order[k:] {
		c := results[i]
		for _, u := range c.Units {
			us := c18UString(u, c.Table)
			switch c.Role {
			case "num":
				if ser, e := benchseries.NormalizeDateString(c.Ser); e == nil && summarised[us+"|"+c.Bench+"|"+ser] {
					res.hit = true
				}
			case "den":
				if trials[us+"|"+c.Bench+"|"+c.Exp] {
					res.hit = true
				}
			}
		}
		b.Add(c.result())
	}
	css2, err := b.AllComparisonSeries(nil, how)
	if err != nil {
		res.out2, res.sums2 = hx.L(hx.I(1)), hx.L(hx.I(0), hx.L())
		res.kind = "error"
		return
	}
	res.out2 = hx.L(hx.I(0), c18Observe(css2))
	res.sums2 = c18Summaries(css2, conf, n)
	res.kind = "ok"
	return
}

func c18Shuffle(r *hx.Rng, n int) []int {
	order := make([]int, n)
	for i := range order {
		order[i] = i
	}
	for i := n - 1; i > 0; i-- {
		j := r.Intn(i + 1)
		order[i], order[j] = order[j], order[i]
	}
	return order
}

func c18ResultsSx(flat []c18Flat) hx.Sx {
	var rs []hx.Sx
	for _, f := range flat {
		rs = append(rs, hx.L(hx.S(f.Unit), hx.S(f.Table), hx.S(f.Bench), hx.S(f.Exp), hx.S(f.Ser), hx.I(c18RoleCode(f.Role)),
			hx.S(f.NH), hx.S(f.DH), hx.F64(f.Val)))
	}
	return hx.List(rs)
}

func c18WFTags(flat []c18Flat) (wfSx hx.Sx, wf bool, tags []string) {
	wa, wb, wc, wd, wan := c18WF(flat)
	if !wan {
		tags = append(tags, "c18_series_hash_two_stamps")
	}
	if !wb {
		tags = append(tags, "c18_series_point_two_hash_pairs")
	}
	if !wc {
		tags = append(tags, "c18_series_trial_two_baseline_hashes")
	}
	if !wd {
		tags = append(tags, "c18_series_same_instant_two_experiments")
	}
	return hx.L(hx.Bool(wa), hx.Bool(wb), hx.Bool(wc), hx.Bool(wd), hx.Bool(wan)), wan && wb && wc && wd, tags
}

// per policy and cell: seed, math/rand stream and the summary of the same
// multiset summarised as ONE experiment by a builder of its own
func c18Refs(first [2][][]c18CellObs, conf float64, bootN int) hx.Sx {
	var refs [2]hx.Sx
	for how := 0; how < 2; how++ {
		var tabs []hx.Sx
		for _, row := range first[how] {
			var cs []hx.Sx
			for _, c := range row {
				nu := append([]float64(nil), c.Nu...)
				de := append([]float64(nil), c.De...)
				sort.Float64s(nu)
				sort.Float64s(de)
				if len(de) == 0 {
					cs = append(cs, hx.L(hx.Z(0), hx.L(), hx.L(hx.I(1))))
					continue
				}
				seed, stream := c18Stream(nu, de, bootN)
				alone, _ := c18PublicSummary(c18Boot{Nu: nu, De: de, Conf: conf, N: bootN})
				cs = append(cs, hx.L(hx.Z(seed), stream, alone))
			}
			tabs = append(tabs, hx.List(cs))
		}
		refs[how] = hx.List(tabs)
	}
	return hx.L(refs[0], refs[1])
}

func c18FlatOrder(results []c18Result, start []int, order []int) []hx.Sx {
	var fo []hx.Sx
	for _, i := range order {
		for j := range results[i].Units {
			fo = append(fo, hx.I(start[i]+j))
		}
	}
	return fo
}

// an order whose tail consists of results that fall into trials which also have
// results in the head (so the second part appends to existing cells), and the
// number of results in the head
func c18IncSplit(r *hx.Rng, results []c18Result, mode int) ([]int, int) {
	n := len(results)
	order := c18Shuffle(r, n)
	if n < 2 {
		return order, n
	}
	switch mode {
	case 0: // any split
		return order, 1 + r.Intn(n-1)
	case 1: // the tail: about a third of the results of every trial (same experiment: the cells' own slices grow)
		var head, tail []int
		seen := map[string]int{}
		for _, i := range order {
			c := results[i]
			key := c.Table + "|" + c.Bench + "|" + c.Exp + "|" + c.Role + "|" + c.NH
			seen[key]++
			if seen[key] > 1 && r.Chance(0.5) {
				tail = append(tail, i)
			} else {
				head = append(head, i)
			}
		}
		if len(tail) == 0 {
			return order, 1 + r.Intn(n-1)
		}
		return append(head, tail...), len(head)
	default: // the tail: one whole experiment (another experiment measures the summarised points again)
		exps := map[string]bool{}
		var names []string
		for _, i := range order {
			if e := results[i].Exp; !exps[e] {
				exps[e] = true
				names = append(names, e)
			}
		}
		if len(names) < 2 {
			return order, 1 + r.Intn(n-1)
		}
		late := names[r.Intn(len(names))]
		var head, tail []int
		for _, i := range order {
			if results[i].Exp == late {
				tail = append(tail, i)
			} else {
				head = append(head, i)
			}
		}
		return append(head, tail...), len(head)
	}
}

func c18IncCase(o *hx.Out, r *hx.Rng, w c18World, nsplits int) {
	flat, start := c18Flatten(w.Results)
	wfSx, wf, tags := c18WFTags(flat)
	conf := []float64{0.5, 0.9, 0.95, 0.99}[r.Intn(4)]
	bootN := []int{3, 8, 20}[r.Intn(3)]
	n := len(w.Results)
	// fresh builders over the whole set: generated order and a shuffle, both policies
	var runs []hx.Sx
	var first [2][][]c18CellObs
	for how := 0; how < 2; how++ {
		for k := 0; k < 2; k++ {
			order := make([]int, n)
			for i := range order {
				order[i] = i
			}
			if k == 1 {
				order = c18Shuffle(r, n)
			}
			out, kind, sums, cells := c18Run(w.Results, order, how, conf, bootN)
			if kind == "ok" && first[how] == nil {
				first[how] = cells
				if first[how] == nil {
					first[how] = [][]c18CellObs{}
				}
			}
			runs = append(runs, hx.L(hx.I(how), hx.List(c18FlatOrder(w.Results, start, order)), out, sums))
		}
	}
	var incs []hx.Sx
	hits := 0
	for s := 0; s < nsplits; s++ {
		order, k := c18IncSplit(r, w.Results, s%3)
		kflat := 0
		for _, i := range order[:k] {
			kflat += len(w.Results[i].Units)
		}
		for how := 0; how < 2; how++ {
			res := c18RunInc(w.Results, order, k, how, conf, bootN)
			if res.hit {
				hits++
			}
			o.Count("inc-outcome:" + res.kind)
			incs = append(incs, hx.L(hx.I(how), hx.List(c18FlatOrder(w.Results, start, order)), hx.I(kflat),
				res.out1, res.sums1, res.out2, res.sums2))
		}
	}
	o.Count(fmt.Sprintf("inc-wf:%v", wf))
	o.Count(fmt.Sprintf("inc-histories-adding-into-a-summarised-cell:%d-of-%d", min(hits, 2*nsplits), 2*nsplits))
	if w.Mut != "" {
		o.Count("inc-class:" + strings.SplitN(w.Mut, ":", 2)[0])
	}
	o.Add(hx.L(hx.I(4), c18ResultsSx(flat), wfSx, hx.List(runs), hx.F64(conf), hx.I(bootN), c18Refs(first, conf, bootN), hx.List(incs)),
		map[string]interface{}{"kind": "incremental-builder", "world": w, "splits": nsplits, "confidence": conf, "n": bootN},
		fmt.Sprintf("i:%d", o.Len()), hits > 0, tags...)
}

// a well-formed world in which every series point is measured by several
// results per cell and by 1-3 experiments (so that both kinds of second part
// exist: more values for an existing trial, and a further experiment)
func c18GenIncWorld(r *hx.Rng) c18World {
	var w c18World
	w.Mut = "incremental"
	t0 := time.Date(2022, 1, 1, 21, 32, 12, 0, time.UTC)
	nH, nE, nB := 1+r.Intn(3), 1+r.Intn(3), 1+r.Intn(2)
	nT := 1 + r.Intn(2)
	sers := make([]string, nH)
	for i := range sers {
		sers[i] = c18Stamp(r, t0.AddDate(0, 0, i), r.Intn(4))
	}
	exps := make([]string, nE)
	for i := range exps {
		exps[i] = c18Stamp(r, t0.AddDate(0, 1, i), r.Intn(4))
	}
	units := c18UnitSets[r.Intn(len(c18UnitSets))]
	for ti := 0; ti < nT; ti++ {
		table := c18Tables[ti]
		if nT == 1 && r.Chance(0.4) {
			table = ""
		}
		for ei := 0; ei < nE; ei++ {
			for bi := 0; bi < nB; bi++ {
				mk := func(role string, h int, k int) {
					for ; k > 0; k-- {
						vals := make([]float64, len(units))
						for i := range vals {
							vals[i] = c18Val(r)
						}
						w.Results = append(w.Results, c18Result{Table: table, Bench: c18Benches[bi], Exp: exps[ei], Ser: sers[h],
							Role: role, NH: fmt.Sprintf("h%d", h), DH: "d0", Units: units, Vals: vals})
					}
				}
				mk("den", 0, 2+r.Intn(4))
				for h := 0; h < nH; h++ {
					if ei == 0 || r.Chance(0.7) {
						mk("num", h, 2+r.Intn(4))
					}
				}
			}
		}
	}
	return w
}

// ---------------------------------------------------------------- files with their own configuration keys

var c18FileKeys = []string{"goos", "runstamp", "ser", "role", "nh", "dh"}

type c18CfgLine struct{ K, V string }

type c18File struct {
	Name    string `json:"name"`
	Content string `json:"content"`
	Omits   string `json:"omits"`
	results []c18Result
}

type c18FilesWorld struct {
	Files []c18File `json:"files"`
	Kind  string    `json:"kind"`
}

// one file = one experiment: a header of configuration lines in a random order
// (builder keys the file sets, plus padding keys that end up in the residue),
// then a baseline section and one section per numerator hash.  Keys in [omit]
// never occur in the file.
func c18GenFile(r *hx.Rng, idx int, omit map[string]bool, table string, exp string, hashes []int, sers []string, units []string, benches []string) c18File {
	var f c18File
	f.Name = fmt.Sprintf("run%d.txt", idx)
	var om []string
	for _, k := range c18FileKeys {
		if omit[k] {
			om = append(om, k)
		}
	}
	f.Omits = strings.Join(om, ",")
	cfg := map[string]string{}
	var b strings.Builder
	set := func(k, v string) {
		if omit[k] {
			return
		}
		fmt.Fprintf(&b, "%s: %s\n", k, v)
		cfg[k] = v
	}
	// header: table key, experiment stamp, baseline hash, padding; shuffled
	hdr := []c18CfgLine{{"goos", table}, {"runstamp", exp}, {"dh", "d0"}, {"goarch", "amd64"}, {"cpu", "Z80"}}
	if r.Bool() {
		hdr = append(hdr, c18CfgLine{"note", fmt.Sprintf("n%d", idx)})
	}
	// sometimes the first section's keys are part of the header too (longer header)
	early := r.Chance(0.5)
	if early {
		hdr = append(hdr, c18CfgLine{"role", "den"})
	}
	for i := len(hdr) - 1; i > 0; i-- {
		j := r.Intn(i + 1)
		hdr[i], hdr[j] = hdr[j], hdr[i]
	}
	for _, l := range hdr {
		if l.K == "goos" && l.V == "" {
			continue
		}
		if l.K == "goarch" || l.K == "cpu" || l.K == "note" {
			fmt.Fprintf(&b, "%s: %s\n", l.K, l.V)
			continue
		}
		set(l.K, l.V)
	}
	b.WriteString("\n")
	emit := func(k int) {
		for _, bn := range benches {
			for j := 0; j < k; j++ {
				vals := make([]float64, len(units))
				fmt.Fprintf(&b, "Benchmark%s %d", bn, 1+r.Intn(100))
				for i, u := range units {
					vals[i] = c18Val(r)
					fmt.Fprintf(&b, " %v %s", vals[i], u)
				}
				b.WriteString("\n")
				f.results = append(f.results, c18Result{Table: cfg["goos"], Bench: bn, Exp: cfg["runstamp"], Ser: cfg["ser"],
					Role: cfg["role"], NH: cfg["nh"], DH: cfg["dh"], Units: units, Vals: vals})
			}
		}
	}
	// baseline section; real baseline results carry the tip's keys too (sometimes)
	if !early {
		set("role", "den")
	}
	if r.Chance(0.4) && len(hashes) > 0 {
		set("nh", fmt.Sprintf("h%d", hashes[0]))
		set("ser", sers[hashes[0]])
	}
	emit(1 + r.Intn(2))
	for _, h := range hashes {
		b.WriteString("\n")
		kv := []c18CfgLine{{"role", "num"}, {"nh", fmt.Sprintf("h%d", h)}, {"ser", sers[h]}}
		for i := len(kv) - 1; i > 0; i-- {
			j := r.Intn(i + 1)
			kv[i], kv[j] = kv[j], kv[i]
		}
		for _, l := range kv {
			set(l.K, l.V)
		}
		emit(1 + r.Intn(2))
	}
	f.Content = b.String()
	return f
}

var c18OmitSets = [][]string{
	{"goos"}, {"goos"}, {"dh"}, {"goos", "dh"}, {"runstamp"}, {"role"}, {"nh"}, {"nh", "ser"}, {"goos", "nh"},
	{"dh", "nh"}, {"ser"}, {"goos", "runstamp"}, {"goos", "dh", "nh"}, {"role", "dh"},
}

func c18GenFilesWorld(r *hx.Rng) c18FilesWorld {
	var w c18FilesWorld
	t0 := time.Date(2022, 1, 1, 21, 32, 12, 0, time.UTC)
	nF := 2 + r.Intn(2)
	sers := make([]string, 8)
	for i := range sers {
		sers[i] = c18Stamp(r, t0.AddDate(0, 0, i), r.Intn(4))
	}
	units := c18UnitSets[r.Intn(len(c18UnitSets))]
	benches := c18Benches[:1+r.Intn(2)]
	shared := r.Chance(0.3) // the files measure the same series points
	var kinds []string
	for fi := 0; fi < nF; fi++ {
		omit := map[string]bool{}
		// the first file (as written) sets everything, or all but one key; the others omit a set
		var set []string
		if fi == 0 {
			if r.Chance(0.25) {
				set = []string{c18FileKeys[r.Intn(len(c18FileKeys))]}
			}
		} else if r.Chance(0.9) {
			set = c18OmitSets[r.Intn(len(c18OmitSets))]
		}
		for _, k := range set {
			omit[k] = true
		}
		var hashes []int
		nh := 1 + r.Intn(2)
		if (omit["nh"] || omit["ser"]) && r.Chance(0.7) {
			nh = 1 // one hash, one stamp: the empty hash keeps a single series stamp (else: finding A / B)
		}
		for k := 0; k < nh; k++ {
			if shared {
				hashes = append(hashes, k)
			} else {
				hashes = append(hashes, 2*fi+k)
			}
		}
		table := c18Tables[r.Intn(2)]
		if r.Chance(0.7) {
			table = "linux"
		}
		exp := c18Stamp(r, t0.AddDate(0, 1, fi), r.Intn(4))
		f := c18GenFile(r, fi, omit, table, exp, hashes, sers, units, benches)
		w.Files = append(w.Files, f)
		kinds = append(kinds, "-"+f.Omits)
	}
	w.Kind = strings.Join(kinds, " ")
	return w
}

// the real builder fed by AddFiles over the files in the given order
func c18RunFiles(dir string, files []c18File, order []int, how int, conf float64, n int) (outcome hx.Sx, kind string, sums hx.Sx, cells [][]c18CellObs) {
	sums = hx.L(hx.I(0), hx.L())
	defer func() {
		if e := recover(); e != nil {
			outcome, kind = hx.L(hx.I(2)), "panic"
		}
	}()
	b, err := benchseries.NewBuilder(c18Opts())
	if err != nil {
		panic(err)
	}
	var paths []string
	for _, i := range order {
		paths = append(paths, filepath.Join(dir, files[i].Name))
	}
	if err := b.AddFiles(benchfmt.Files{Paths: paths, AllowStdin: false, AllowLabels: false}); err != nil {
		panic(err)
	}
	css, err := b.AllComparisonSeries(nil, how)
	if err != nil {
		return hx.L(hx.I(1)), "error", sums, nil
	}
	outcome, kind = hx.L(hx.I(0), c18Observe(css)), "ok"
	for _, cs := range css {
		var row []c18CellObs
		for _, bn := range cs.Benchmarks {
			for _, s := range cs.Series {
				if c, ok := cs.ComparisonAt(bn, s); ok {
					var o c18CellObs
					if c.Numerator != nil {
						o.Nu = append([]float64(nil), c.Numerator.Values...)
					}
					if c.Denominator != nil {
						o.De = append([]float64(nil), c.Denominator.Values...)
					}
					row = append(row, o)
				}
			}
		}
		cells = append(cells, row)
	}
	sums = c18Summaries(css, conf, n)
	return
}

func c18FilesCase(o *hx.Out, r *hx.Rng, dir string, w c18FilesWorld) error {
	var results []c18Result
	var fstart []int // first result index of every file
	for _, f := range w.Files {
		fstart = append(fstart, len(results))
		results = append(results, f.results...)
		if err := os.WriteFile(filepath.Join(dir, f.Name), []byte(f.Content), 0o644); err != nil {
			return err
		}
	}
	fstart = append(fstart, len(results))
	flat, start := c18Flatten(results)
	wfSx, wf, tags := c18WFTags(flat)
	conf := []float64{0.5, 0.9, 0.95, 0.99}[r.Intn(4)]
	bootN := []int{1, 2, 3, 5, 8}[r.Intn(5)]
	forders := c18Perms(len(w.Files))
	var runs []hx.Sx
	var first [2][][]c18CellObs
	kinds := map[string]bool{}
	for how := 0; how < 2; how++ {
		for _, fo := range forders {
			out, kind, sums, cells := c18RunFiles(dir, w.Files, fo, how, conf, bootN)
			kinds[kind] = true
			if kind == "ok" && first[how] == nil {
				first[how] = cells
				if first[how] == nil {
					first[how] = [][]c18CellObs{}
				}
			}
			var order []int
			for _, fi := range fo {
				for i := fstart[fi]; i < fstart[fi+1]; i++ {
					order = append(order, i)
				}
			}
			runs = append(runs, hx.L(hx.I(how), hx.List(c18FlatOrder(results, start, order)), out, sums))
		}
	}
	for k := range kinds {
		o.Count("files-outcome:" + k)
	}
	o.Count(fmt.Sprintf("files-wf:%v", wf))
	o.Count(fmt.Sprintf("files:%d", len(w.Files)))
	later := false
	for i, f := range w.Files {
		if f.Omits != "" {
			o.Count("files-omit:" + f.Omits)
			if i > 0 {
				later = true
			}
		}
	}
	if later {
		o.Count("files-later-file-omits-keys-an-earlier-file-sets")
	}
	o.Add(hx.L(hx.I(2), c18ResultsSx(flat), wfSx, hx.List(runs), hx.F64(conf), hx.I(bootN), c18Refs(first, conf, bootN)),
		map[string]interface{}{"kind": "series-from-files", "world": w, "confidence": conf, "n": bootN},
		fmt.Sprintf("f:%d", o.Len()), later, tags...)
	return nil
}

func c18GenHistories(o *hx.Out, r *hx.Rng, tier string) error {
	// quick tier: 124 cases; with the 2663 cases before them the evenly spaced
	// cross-check sample (hx.Out.Flush: every (n/24+1)-th case) then takes its one
	// series case from the shared-baseline class, which is cheap under vm_compute
	ninc, nsplits, nfiles := 40, 6, 84
	if tier == "thorough" {
		ninc, nsplits, nfiles = 600, 9, 900
	}
	ri := r.Split()
	for i := 0; i < ninc; i++ {
		var w c18World
		switch i % 4 {
		case 0, 1:
			w = c18GenIncWorld(ri)
			if i%8 == 1 {
				// a set outside the well-formed domain (judged up to the places of the findings)
				w = c18GenIllWorld(ri)
			}
		case 2:
			w = c18GenInterleave(ri)
		default:
			w = c18GenSharedBaseline(ri)
		}
		c18IncCase(o, ri, w, nsplits)
	}
	dir, err := os.MkdirTemp(os.Getenv("VERIF_WORK"), "c18files")
	if err != nil {
		return err
	}
	defer os.RemoveAll(dir)
	rf := r.Split()
	for i := 0; i < nfiles; i++ {
		w := c18GenFilesWorld(rf)
		// every world is judged, whatever the keys of its files add up to: a set
		// outside the well-formed domain is compared with the specification up to
		// the places of the recorded findings (RunC18.series_known); every other
		// world is re-drawn at most twice so that most sets stay inside
		if i%3 != 0 {
			for try := 0; try < 2; try++ {
				var all []c18Result
				for _, f := range w.Files {
					all = append(all, f.results...)
				}
				fl, _ := c18Flatten(all)
				if _, wf, _ := c18WFTags(fl); wf {
					break
				}
				w = c18GenFilesWorld(rf)
			}
		}
		if err := c18FilesCase(o, rf, dir, w); err != nil {
			return err
		}
	}
	return nil
}
