package main

// C08 gap classes, round 3: projections made of the .config group alone whose
// first result has no file configuration; excluded sub-name keys that are a
// proper prefix of another sub-name key; /gomaxprocs on names with hyphens
// that are not a GOMAXPROCS suffix.

import (
	"fmt"

	"verifharness/internal/hx"
)

// (C08-d) a projection with NO field at the time of its first Project call:
// `.config` alone (or the residue when .fullname is taken by an expression),
// the first result(s) carrying no file configuration key at all (no
// configuration, internal keys only, or only keys projected individually),
// later results introducing keys one by one; pairs of results differing in
// exactly one late key; the empty configuration again after the growth.
func c08CfgOnly(o *hx.Out, r *hx.Rng, pl *pxPools, sortObs bool) error {
	keys := pxShuffled(r, pl.cfgKeys)
	taken := keys[len(keys)-1] // a file key projected individually in some shapes
	ord := func() string { return r.Pick([]string{"first", "first", "alpha", "num"}) }
	var es []*pxExpr
	shape := r.Intn(6)
	switch shape {
	case 0: // .config alone; the residue is .fullname
		es = append(es, pxE(false, r, pxSpec{Key: ".config", Order: ord()}))
	case 1: // .config alone, everything else taken: the residue has no field at all
		es = append(es, pxE(false, r, pxSpec{Key: ".config", Order: ord()}), pxE(false, r, pxFirst(".fullname")))
	case 2: // the residue is .config alone
		es = append(es, pxE(false, r, pxFirst(".fullname")))
	case 3: // the residue is .config alone, minus a key taken individually
		es = append(es, pxE(false, r, pxFirst(".fullname")), pxE(false, r, pxSpec{Key: taken, Order: ord()}))
	case 4: // .config alone next to an expression taking one key
		es = append(es, pxE(false, r, pxSpec{Key: ".config", Order: ord()}), pxE(false, r, pxFirst(taken), pxFirst("/a")))
	default: // .config plus .unit: one field at the start
		es = append(es, pxE(true, r, pxSpec{Key: ".config", Order: ord()}))
	}
	if r.Chance(0.25) {
		es = append(es, pl.expr(r))
	}
	name := r.Pick([]string{"Fib", "X/a=1", "Sort-8"})
	units := []string{"sec/op"}
	mk := func(cfg ...[3]string) pxResult {
		return pxResult{Name: name, Config: append([][3]string(nil), cfg...), Units: units}
	}
	val := func(k string) string { return pl.pickVal(r, pxHot(nonEmpty(pl.poolOf(k)))) }
	// the first result(s): nothing for the .config group
	var first pxResult
	firstKind := r.Intn(4)
	switch firstKind {
	case 0, 1:
		first = mk()
	case 2:
		first = mk([3]string{keys[0], val(keys[0]), "internal"})
	default:
		first = mk([3]string{taken, val(taken), "file"})
		if shape != 3 && shape != 4 {
			first = mk()
			firstKind = 0
		}
	}
	st := []pxResult{first}
	if r.Chance(0.5) {
		st = append(st, first) // the empty Key once more before any field exists
	}
	// keys arrive one by one; each arrival comes as a pair differing only there
	var cur [][3]string
	if firstKind >= 2 {
		cur = append(cur, first.Config...)
	}
	npairs := 0
	for i, n := 0, r.Range(1, 4); i < n && i+1 < len(keys)-1; i++ {
		k := keys[1+i]
		v1 := val(k)
		v2 := v1
		for j := 0; j < 8 && v2 == v1; j++ {
			v2 = val(k)
		}
		if v2 == v1 {
			v2 = v1 + "x"
		}
		a := mk(append(append([][3]string(nil), cur...), [3]string{k, v1, "file"})...)
		b := mk(append(append([][3]string(nil), cur...), [3]string{k, v2, "file"})...)
		st = append(st, a, b)
		npairs++
		if r.Chance(0.4) {
			st = append(st, a)
		}
		if r.Chance(0.5) {
			st = append(st, first) // the Key from before the growth
		}
		if r.Chance(0.3) {
			st = append(st, mk(cur...)) // lacks the new key
		}
		if r.Chance(0.6) {
			cur = append(cur, [3]string{k, v1, "file"})
		}
	}
	if r.Chance(0.5) {
		st = append(st, pl.stream(r, r.Range(2, 5))...)
	}
	st = append(st, first)
	o.Count("config-only family: " + []string{".config alone (residue .fullname)", ".config alone (residue empty)", "residue is .config alone",
		"residue is .config alone minus a taken key", ".config alone next to a key-taking expression", ".config with .unit"}[shape])
	o.Count("config-only family: first result has " + []string{"no config", "no config", "internal keys only", "a taken file key only"}[firstKind])
	o.Count(fmt.Sprintf("config-only family: pairs differing in one late key=%d", npairs))
	return pxProtoCase(o, r, es, st, c08Perms(r, len(es)), sortObs)
}

func nonEmpty(vs []string) []string {
	var out []string
	for _, v := range vs {
		if v != "" {
			out = append(out, v)
		}
	}
	return out
}

// (C08-e) .fullname (explicit or via Residue) with an excluded sub-name key
// that is a proper prefix of ANOTHER sub-name key present in the names: only
// the exact "/key=" part is deleted / extracted.
var c08PrefixPairs = [][2]string{{"/size", "/sizeclass"}, {"/n", "/nodes"}, {"/a", "/ab"}, {"/gomaxprocs", "/gomaxprocsx"}, {"/b", "/b.c"}}

func c08Prefix(o *hx.Out, r *hx.Rng, pl *pxPools) error {
	pair := c08PrefixPairs[r.Intn(len(c08PrefixPairs))]
	short, long := pair[0], pair[1]
	excl := short // the excluded (individually projected or ignored) key
	if r.Chance(0.2) {
		excl = long
	}
	fields := []pxSpec{{Key: excl, Order: r.Pick([]string{"first", "alpha", "num"})}}
	explicit := r.Chance(0.5)
	if explicit {
		fields = append(fields, pxFirst(".fullname"))
	}
	for _, k := range []string{".name", "/gomaxprocs", "goos", ".config"} {
		if k != excl && r.Chance(0.2) {
			fields = append(fields, pxFirst(k))
		}
	}
	for j := len(fields) - 1; j > 0; j-- {
		k := r.Intn(j + 1)
		fields[j], fields[k] = fields[k], fields[j]
	}
	var es []*pxExpr
	var cur []pxSpec
	for i, f := range fields {
		cur = append(cur, f)
		if i == len(fields)-1 || (len(es) < 2 && r.Chance(0.5)) {
			es = append(es, pxE(r.Chance(0.1), r, cur...))
			cur = nil
		}
	}
	if r.Chance(0.3) { // an "ignored" key: parsed, its projection used like any other
		es = append(es, pxE(false, r, pxFirst(r.Pick([]string{"/a", "/size", "/n"}))))
	}
	vs := []string{"1", "2", "3"}
	part := func(k string) string { return k + "=" + r.Pick(vs) }
	var st []pxResult
	add := func(n string) { st = append(st, pxResult{Name: n, Units: []string{"sec/op"}}) }
	for i, n := 0, r.Range(6, 12); i < n; i++ {
		name := r.Pick([]string{"X", "X", "Y"})
		switch r.Intn(7) {
		case 0:
			name += part(long)
		case 1:
			name += part(long) + part(short)
		case 2:
			name += part(short) + part(long)
		case 3:
			name += part(short)
		case 4:
			name += part(long) + "/z=1" + part(short)
		case 5:
			name += "/z=1" + part(long)
		}
		if r.Chance(0.25) {
			name += "-8"
		}
		add(name)
	}
	// two names that differ ONLY in the longer key, with and without the short one
	add("X" + long + "=1" + short + "=1")
	add("X" + long + "=2" + short + "=1")
	add("X" + long + "=1")
	add("X" + long + "=2")
	add("X" + short + "=1")
	add("X")
	for j := len(st) - 1; j > 0; j-- {
		k := r.Intn(j + 1)
		st[j], st[k] = st[k], st[j]
	}
	o.Count(fmt.Sprintf("prefix-key family: excluded %s next to %s, fullname-explicit=%v", excl, map[bool]string{true: long, false: short}[excl == short], explicit))
	return pxProtoCase(o, r, es, st, c08Perms(r, len(es)), false)
}

// (C08-f) names for the gomaxprocs family whose last part or base name has a
// hyphen NOT followed purely by digits, alone, next to an explicit
// /gomaxprocs=N part and next to a genuine -N suffix.
var c08GmHyphen = []string{
	"RW/gomaxprocs=4/mode=read-only", "RW/mode=read-only", "RW/mode=read-only-8", "RW/mode=read-only/gomaxprocs=8",
	"RW/gomaxprocs=8/mode=read-only", "RW/gomaxprocs=4/mode=read-only-8", "RW/size=1/mode=read-only", "RW/size=1/mode=read-only-8",
	"Foo-bar", "Foo-bar-8", "Foo-bar/gomaxprocs=8", "Foo-bar/size=1", "Foo-bar/size=1-8", "Foo-bar/size=1/gomaxprocs=8",
	"a-1x", "a-1x-8", "a-1x/gomaxprocs=8", "x-", "x--8", "x-/gomaxprocs=8", "X/size=1-", "X/size=1-x", "X/size=1-8x",
	"X/size=a-b/gomaxprocs=8", "X/size=a-b-8", "X/size=a-b", "X/a=1-x", "X/a=1-x-8", "X/gomaxprocs=8/a=1-x", "X/gomaxprocs=8-", "X/gomaxprocs=8-x",
	"-8", "X-08", "X/gomaxprocs=-8", "X/-8", "X/size=-8",
}
