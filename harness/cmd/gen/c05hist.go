package main

import (
	"fmt"
	"io"
	"strconv"
	"strings"

	"golang.org/x/perf/benchfmt"
	"golang.org/x/perf/benchproc"
	"verifharness/internal/hx"
)

// Histories for C05: ONE long-lived single-field Projection and ONE long-lived
// literal Filter per key (hence one extractor each), plus one long-lived
// .fullname projection with an exclusion set, applied IN ORDER to consecutive
// results whose Name bytes sit at the same memory address with the same
// length but different content:
//
//	in-place          one Result, res.Name's bytes overwritten between calls
//	in-place-reslice  one backing array, res.Name = buf[:n] (same address, other length)
//	fresh             a new Result per step (control)
//	reader            benchfmt.Reader, Result() used WITHOUT Clone (same *Result; names
//	                  of equal length at different scanner-buffer offsets)
//	reader-long-lines the same with result lines longer than half the scanner buffer, so
//	                  that every line is shifted to buffer offset 0 (same address)
//	reader-chunked    one Read per line and an ignored filler line between results, so
//	                  that the next result line lands at buffer offset 0 again
//
// Every answer is judged against the meaning of the key for the name the
// result holds at that moment (statelessness).

type c05HistKey struct {
	Key string `json:"key"`
	Lit string `json:"literal"`
}
type c05HistStep struct {
	Name       string      `json:"name"`
	Config     [][3]string `json:"config"`
	Line       string      `json:"line,omitempty"`        // reader modes: the result line as written (Go-quoted)
	ExtraPairs int         `json:"extra_pairs,omitempty"` // reader-long-lines: " 1 u" appended this many times
	JunkBytes  int         `json:"junk_bytes,omitempty"`  // reader-chunked: an ignored line "#ppp…" of this many bytes precedes the result line (after the config lines); one Read per line
	Before     []string    `json:"config_lines_before,omitempty"`
}
type c05HistInput struct {
	Kind    string        `json:"kind"` // history
	Mode    string        `json:"mode"`
	Keys    []c05HistKey  `json:"keys"`
	Exclude []string      `json:"exclude"`
	Steps   []c05HistStep `json:"steps"`
}

var c05HistVals = []string{"1", "2", "x", "xy", "10", "é", "8", "16", ""}
var c05HistN = []string{"8", "16", "2", "128", "4"}

// c05HistName builds a name of exactly L bytes: base, 0-3 '/' segments, an
// optional -N suffix, one component padded to reach L.  ok=false if it does
// not fit.
func c05HistName(r *hx.Rng, L int, nonEmptyBase bool) (string, bool) {
	bases := []string{"X", "Fib", "Xy", "B", "a", "X-8", ""}
	base := bases[r.Intn(len(bases))]
	if nonEmptyBase && base == "" {
		base = "X"
	}
	var segs []string
	ns := r.Intn(4)
	for i := 0; i < ns; i++ {
		v := c05HistVals[r.Intn(len(c05HistVals))]
		switch r.Intn(9) {
		case 0, 1, 2:
			segs = append(segs, "/a="+v)
		case 3, 4:
			segs = append(segs, "/b="+v)
		case 5:
			segs = append(segs, "/gomaxprocs="+c05HistN[r.Intn(len(c05HistN))])
		case 6:
			segs = append(segs, "/"+v) // positional
		case 7:
			segs = append(segs, "/ab="+v)
		default:
			segs = append(segs, "/7="+v)
		}
	}
	gmp := ""
	if r.Chance(0.5) {
		gmp = "-" + c05HistN[r.Intn(len(c05HistN))]
	}
	n := len(base) + len(gmp)
	for _, s := range segs {
		n += len(s)
	}
	if n > L {
		return "", false
	}
	pad := L - n
	if pad > 0 {
		// one component takes the whole pad
		t := r.Intn(len(segs) + 2)
		switch {
		case t < len(segs):
			segs[t] += strings.Repeat("x", pad)
		case t == len(segs) && gmp != "":
			gmp = "-" + strings.Repeat("1", pad) + gmp[1:]
		default:
			base += strings.Repeat("y", pad)
		}
	}
	name := base + strings.Join(segs, "") + gmp
	if len(name) != L || (nonEmptyBase && name == "") {
		return "", false
	}
	return name, true
}

// lineReader delivers one chunk per Read call.
type c05ChunkReader struct {
	chunks []string
	i      int
}

func (c *c05ChunkReader) Read(p []byte) (int, error) {
	if c.i >= len(c.chunks) {
		return 0, io.EOF
	}
	s := c.chunks[c.i]
	if len(s) > len(p) {
		n := copy(p, s)
		c.chunks[c.i] = s[n:]
		return n, nil
	}
	c.i++
	return copy(p, s), nil
}

func c05SlashShape(name []byte) string {
	var sb strings.Builder
	for i, c := range name {
		if c == '/' || c == '-' || c == '=' {
			fmt.Fprintf(&sb, "%d%c", i, c)
		}
	}
	return sb.String()
}

func c05Hist(o *hx.Out, r *hx.Rng, mode string) (err error) {
	defer func() {
		if p := recover(); p != nil {
			err = fmt.Errorf("PANIC-INPUT history mode=%s: %v", mode, p)
		}
	}()
	readerMode := strings.HasPrefix(mode, "reader")
	// the names
	L := r.Range(4, 26)
	m := r.Range(3, 6)
	var names []string
	for len(names) < m {
		l := L
		if mode == "in-place-reslice" || (mode == "fresh" && r.Bool()) {
			l = r.Range(2, L)
		}
		n, ok := c05HistName(r, l, readerMode)
		if !ok {
			continue
		}
		if len(names) > 0 && names[len(names)-1] == n && r.Chance(0.9) {
			continue
		}
		names = append(names, n)
	}
	// keys, literals, exclusion set
	in := c05HistInput{Kind: "history", Mode: mode}
	hkeys := []string{".name", ".fullname", "/a", "/b", "/gomaxprocs", "/a", "/gomaxprocs", "/7", "/ab", "/", "/é", "k", "goos"}
	nk := r.Range(4, 7)
	var projs []*benchproc.Projection
	var fields []*benchproc.Field
	var flts []*benchproc.Filter
	var keysT []hx.Sx
	for j := 0; j < nk; j++ {
		k := hkeys[r.Intn(len(hkeys))]
		if j == 0 {
			k = []string{"/a", "/gomaxprocs", ".name", "/b"}[r.Intn(4)]
		}
		lit := ""
		switch r.Intn(4) {
		case 0, 1:
			if k == "/gomaxprocs" {
				lit = c05HistN[r.Intn(len(c05HistN))]
			} else {
				lit = c05HistVals[r.Intn(len(c05HistVals))]
			}
		case 2:
			nm := names[r.Intn(len(names))]
			if k == ".fullname" {
				lit = nm
			} else if i := strings.IndexAny(nm, "/-"); i >= 0 {
				lit = nm[:i]
			} else {
				lit = nm
			}
		}
		var pp benchproc.ProjectionParser
		p, perr := pp.Parse(c05Quote(k), nil)
		if perr != nil {
			return fmt.Errorf("projection %q: %v", k, perr)
		}
		if len(p.Fields()) != 1 {
			return fmt.Errorf("projection %q: %d fields", k, len(p.Fields()))
		}
		f, ferr := benchproc.NewFilter(c05Quote(k) + ":" + strconv.Quote(lit))
		if ferr != nil {
			return fmt.Errorf("filter %q: %v", k, ferr)
		}
		projs, fields, flts = append(projs, p), append(fields, p.Fields()[0]), append(flts, f)
		keysT = append(keysT, hx.L(hx.S(k), hx.S(lit)))
		in.Keys = append(in.Keys, c05HistKey{k, lit})
	}
	var ex []string
	var ppx benchproc.ProjectionParser
	for _, c := range []string{"/a", "/b", "/gomaxprocs", ".name", "/7"} {
		if r.Chance(0.3) {
			ex = append(ex, c)
			if _, perr := ppx.Parse(c05Quote(c), nil); perr != nil {
				return perr
			}
		}
	}
	pfull, perr := ppx.Parse(".fullname", nil)
	if perr != nil {
		return perr
	}
	ffull := pfull.Fields()[len(pfull.Fields())-1]
	in.Exclude = append([]string{}, ex...)

	// observation of one step
	var steps []hx.Sx
	var prevPtr *byte
	prevName := ""
	nontriv := false
	observe := func(res *benchfmt.Result, st c05HistStep) error {
		name := string(res.Name)
		st.Name = name
		var cfgT []hx.Sx
		for _, c := range res.Config {
			kind := "file"
			if !c.File {
				kind = "internal"
			}
			st.Config = append(st.Config, [3]string{c.Key, string(c.Value), kind})
			cfgT = append(cfgT, hx.L(hx.S(c.Key), hx.B(c.Value), hx.Bool(c.File)))
		}
		var ptr *byte
		if len(res.Name) > 0 {
			ptr = &res.Name[0]
		}
		if prevPtr != nil && ptr == prevPtr {
			switch {
			case len(name) == len(prevName) && name != prevName:
				o.Count("class:history:consecutive-names-same-address-same-length-different-content")
				o.Count("class:history:consecutive-names-same-address-same-length-different-content:mode=" + mode)
				if c05SlashShape([]byte(name)) != c05SlashShape([]byte(prevName)) {
					o.Count("class:history:…and-separators-at-different-places")
					nontriv = true
				}
			case len(name) != len(prevName):
				o.Count("class:history:consecutive-names-same-address-different-length")
			}
		} else if prevPtr != nil && len(name) == len(prevName) && name != prevName {
			o.Count("class:history:consecutive-names-same-length-different-address")
		}
		prevPtr, prevName = ptr, name
		var gets, fm []hx.Sx
		for j := range projs {
			// filter first or projection first
			if j%2 == 0 {
				gets = append(gets, hx.S(projs[j].Project(res).Get(fields[j])))
			}
			mt, merr := flts[j].Match(res)
			if merr != nil {
				return merr
			}
			fm = append(fm, hx.Bool(mt.All()))
			if j%2 != 0 {
				gets = append(gets, hx.S(projs[j].Project(res).Get(fields[j])))
			}
		}
		xf := pfull.Project(res).Get(ffull)
		if string(res.Name) != name {
			return fmt.Errorf("projection/filter modified the name %q -> %q", name, res.Name)
		}
		steps = append(steps, hx.L(hx.S(name), hx.List(cfgT), hx.List(gets), hx.List(fm), hx.S(xf)))
		in.Steps = append(in.Steps, st)
		return nil
	}

	cfgKeys := []string{"k", "goos", "pkg"}
	cfgVals := []string{"v", "linux", "1", "x"}
	if !readerMode {
		maxL := 0
		for _, n := range names {
			if len(n) > maxL {
				maxL = len(n)
			}
		}
		buf := make([]byte, maxL)
		mk := func() *benchfmt.Result {
			res := &benchfmt.Result{Iters: 1, Values: []benchfmt.Value{{Value: 1, Unit: "sec/op"}}}
			for _, k := range cfgKeys {
				if r.Chance(0.4) {
					res.SetConfig(k, cfgVals[r.Intn(len(cfgVals))])
					if r.Chance(0.3) {
						i, _ := res.ConfigIndex(k)
						res.Config[i].File = false
					}
				}
			}
			return res
		}
		res := mk()
		for _, n := range names {
			if mode == "fresh" {
				res = mk()
				res.Name = benchfmt.Name(n)
			} else {
				res.Name = buf[:len(n)]
				copy(res.Name, n)
				if r.Chance(0.2) { // a configuration value changes between calls, too
					res.SetConfig(cfgKeys[r.Intn(len(cfgKeys))], cfgVals[r.Intn(len(cfgVals))])
				}
			}
			if err := observe(res, c05HistStep{}); err != nil {
				return err
			}
		}
	} else {
		var chunks []string
		var sts []c05HistStep
		for i, n := range names {
			st := c05HistStep{}
			if i == 0 || r.Chance(0.2) {
				for _, k := range cfgKeys {
					if r.Chance(0.35) {
						l := k + ": " + cfgVals[r.Intn(len(cfgVals))] + "\n"
						st.Before = append(st.Before, strconv.Quote(l))
						chunks = append(chunks, l)
					}
				}
			}
			line := "Benchmark" + n + " 1 1 ns/op"
			st.Line = strconv.Quote(line)
			switch mode {
			case "reader-long-lines":
				st.ExtraPairs = 520 + r.Intn(40)
				line += strings.Repeat(" 1 u", st.ExtraPairs)
			}
			if mode == "reader-chunked" { // the filler precedes the result line
				st.JunkBytes = 2050 + r.Intn(300)
				chunks = append(chunks, "#"+strings.Repeat("p", st.JunkBytes-1)+"\n")
			}
			chunks = append(chunks, line+"\n")
			sts = append(sts, st)
		}
		var rd io.Reader
		if mode == "reader-chunked" {
			rd = &c05ChunkReader{chunks: chunks}
		} else {
			rd = strings.NewReader(strings.Join(chunks, ""))
		}
		rdr := benchfmt.NewReader(rd, "f")
		i := 0
		for rdr.Scan() {
			res, ok := rdr.Result().(*benchfmt.Result)
			if !ok {
				return fmt.Errorf("history %s: unexpected record %T", mode, rdr.Result())
			}
			if i >= len(names) || string(res.Name) != names[i] {
				return fmt.Errorf("history %s: result %d has name %q", mode, i, res.Name)
			}
			// NO Clone: the extractors see the reader's own Result
			if err := observe(res, sts[i]); err != nil {
				return err
			}
			i++
		}
		if rdr.Err() != nil || i != len(names) {
			return fmt.Errorf("history %s: %d of %d results, err=%v", mode, i, len(names), rdr.Err())
		}
	}
	o.Count("history:mode=" + mode)
	o.Count(fmt.Sprintf("history:steps=%d", len(names)))
	o.Add(hx.L(hx.I(1), hx.List(keysT), hx.SList(ex), hx.List(steps)), in,
		"hist\x00"+mode+"\x00"+strings.Join(names, "\x00")+fmt.Sprint(in.Keys, ex), nontriv, "history", "history-"+mode)
	return nil
}

func c05GenHist(o *hx.Out, r *hx.Rng, n int) error {
	modes := []string{"in-place", "in-place", "in-place", "reader", "reader", "reader-long-lines", "reader-chunked", "in-place-reslice", "fresh"}
	for i := 0; i < n; i++ {
		if err := c05Hist(o, r, modes[i%len(modes)]); err != nil {
			return err
		}
	}
	return nil
}
