package main

import (
	"bytes"
	"encoding/csv"
	"fmt"
	"os"
	"sort"
	"strings"

	"golang.org/x/perf/benchmath"

	"golang.org/x/perf/benchfmt"
	"golang.org/x/perf/benchproc"
	"golang.org/x/perf/benchunit"
	vb "golang.org/x/perf/cmd/benchstat/verifbridge"
	"verifharness/internal/hx"
)

func init() { gens["C16"] = genC16 }

// ---------- texttab cases ----------

// c16Op is one call of the texttab API.
type c16Op struct {
	Op     string  `json:"op"` // row | col | span | shrink
	N      int     `json:"n,omitempty"`
	Value  string  `json:"value,omitempty"`
	Margin *string `json:"margin,omitempty"`
	Align  int     `json:"align,omitempty"` // 0 left 1 center 2 right
	On     bool    `json:"on,omitempty"`
}

type c16Table struct {
	Kind string  `json:"kind"`
	Ops  []c16Op `json:"ops"`
}

func (o c16Op) sx() hx.Sx {
	switch o.Op {
	case "row":
		return hx.L(hx.I(0))
	case "col":
		return hx.L(hx.I(1), hx.I(o.N))
	case "span":
		m := hx.L()
		if o.Margin != nil {
			m = hx.L(hx.S(*o.Margin))
		}
		return hx.L(hx.I(2), hx.I(o.N), hx.S(o.Value), m, hx.I(o.Align))
	default:
		return hx.L(hx.I(3), hx.I(o.N), hx.Bool(o.On))
	}
}

// c16Run drives the real texttab with the ops and returns the output, whether
// it panicked, and the permutation sort.Slice produces for "cells by span"
// (recomputed with the same comparison on the same sequence of spans: sort.Slice
// is deterministic in the comparison results).
func c16Run(ops []c16Op) (out string, panicked bool, perm []int, spans []int) {
	var t vb.TextTable
	defer func() {
		if r := recover(); r != nil {
			panicked = true
		}
	}()
	for _, o := range ops {
		switch o.Op {
		case "row":
			t.Row()
		case "col":
			t.Col(o.N)
		case "span":
			var opts []vb.CellOption
			// the order of options does not matter: they set different fields
			switch o.Align {
			case 1:
				opts = append(opts, vb.Center)
			case 2:
				opts = append(opts, vb.Right)
			}
			if o.Margin != nil {
				opts = append(opts, vb.LeftMargin(*o.Margin))
			}
			if o.N == 1 {
				t.Cell(o.Value, opts...)
			} else {
				t.Span(o.N, o.Value, opts...)
			}
			spans = append(spans, o.N)
		case "shrink":
			t.SetShrink(o.N, o.On)
		}
	}
	type is struct{ idx, span int }
	cs := make([]is, len(spans))
	for i, s := range spans {
		cs[i] = is{i, s}
	}
	sort.Slice(cs, func(i, j int) bool { return cs[i].span < cs[j].span })
	for _, c := range cs {
		perm = append(perm, c.idx)
	}
	var sb strings.Builder
	if err := t.Format(&sb); err != nil {
		panicked = true
	}
	return sb.String(), false, perm, spans
}

var c16Values = []string{"", "", "a", "b", "abc", "x y", "héllo", "☃", "10.50n", "∞", "+1.23%", "(p=0.000 n=10+10)",
	"?", "vs base", "sec/op", "a-rather-long-header-value", "¹ ²", "日本語", "0123456789", " ", " ", "é"}
var c16Margins = []string{"", " ", "  ", " │ ", " │", "|", " ± ", "::", "   ", "—"}

func c16Table1(r *hx.Rng, mode int) []c16Op {
	rows := r.Range(1, 8)
	cols := r.Range(1, 10)
	var ops []c16Op
	// shrink pattern
	shrinkP := []float64{0, 0.3, 0.6, 1}[r.Intn(4)]
	var shrinkOps []c16Op
	for c := 0; c < cols+1; c++ {
		if r.Chance(shrinkP) {
			shrinkOps = append(shrinkOps, c16Op{Op: "shrink", N: c, On: true})
		}
	}
	if r.Chance(0.1) && len(shrinkOps) > 0 { // switched off again
		o := shrinkOps[r.Intn(len(shrinkOps))]
		shrinkOps = append(shrinkOps, c16Op{Op: "shrink", N: o.N, On: false})
	}
	before := r.Bool()
	if before {
		ops = append(ops, shrinkOps...)
	}
	narrow := mode == 1 // narrow contents under wide spans
	for row := 0; row < rows; row++ {
		ops = append(ops, c16Op{Op: "row"})
		if r.Chance(0.08) {
			continue // blank row
		}
		col := 0
		for col < cols {
			if r.Chance(0.25) {
				col += r.Range(1, 2)
				continue
			}
			span := 1
			if r.Chance(0.3) {
				span = r.Range(2, max(2, min(cols-col, 6)))
			}
			if col+span > cols {
				span = cols - col
			}
			if span < 1 {
				break
			}
			v := c16Values[r.Intn(len(c16Values))]
			if narrow && span == 1 {
				v = []string{"", "?", "a", "é"}[r.Intn(4)]
			}
			if span > 1 && r.Chance(0.5) {
				v = strings.Repeat(c16Values[2+r.Intn(len(c16Values)-2)], r.Range(1, 3))
			}
			o := c16Op{Op: "span", N: span, Value: v, Align: r.Intn(3)}
			if r.Chance(0.4) {
				m := c16Margins[r.Intn(len(c16Margins))]
				o.Margin = &m
			}
			ops = append(ops, c16Op{Op: "col", N: col}, o)
			col += span
		}
	}
	if !before {
		ops = append(ops, shrinkOps...)
	}
	return ops
}

// c16BenchstatLike reproduces the shape benchtab.ToText builds: a label
// column, per experiment 3 centre columns and 3 delta columns of which all but
// the first are shrink columns, "vs base" spanning the delta group.
func c16BenchstatLike(r *hx.Rng) []c16Op {
	nexp := r.Range(2, 3)
	start := func(e int) int {
		if e == 0 {
			return 1
		}
		return 1 + 3 + (e-1)*6
	}
	edge := start(nexp + 1)
	bar, bar2, two, pm := " │ ", " │", "  ", " ± "
	var ops []c16Op
	ops = append(ops, c16Op{Op: "row"})
	for e := 0; e < nexp; e++ {
		ops = append(ops, c16Op{Op: "col", N: start(e)},
			c16Op{Op: "span", N: start(e+1) - start(e), Value: []string{"old.txt", "new.txt", "a", "a/long/path/to/results.txt"}[r.Intn(4)], Align: 1, Margin: &bar})
	}
	ops = append(ops, c16Op{Op: "col", N: edge}, c16Op{Op: "span", N: 1, Value: "", Margin: &bar2})
	ops = append(ops, c16Op{Op: "row"})
	for e := 0; e < nexp; e++ {
		ops = append(ops, c16Op{Op: "col", N: start(e)}, c16Op{Op: "span", N: 3, Value: "sec/op", Align: 1, Margin: &bar})
		if e > 0 {
			ops = append(ops, c16Op{Op: "span", N: 3, Value: "vs base", Margin: &two})
		}
		for j := start(e) + 1; j < start(e+1); j++ {
			ops = append(ops, c16Op{Op: "shrink", N: j, On: true})
		}
	}
	ops = append(ops, c16Op{Op: "col", N: edge}, c16Op{Op: "span", N: 1, Value: "", Margin: &bar2})
	nrows := r.Range(1, 4)
	for i := 0; i < nrows; i++ {
		ops = append(ops, c16Op{Op: "row"}, c16Op{Op: "span", N: 1, Value: []string{"A", "Encode", "B/size=10"}[r.Intn(3)]})
		for e := 0; e < nexp; e++ {
			if r.Chance(0.4) {
				continue // benchmark missing in this file
			}
			ops = append(ops, c16Op{Op: "col", N: start(e)},
				c16Op{Op: "span", N: 1, Value: "10.50n", Align: 2},
				c16Op{Op: "span", N: 1, Value: []string{"∞", "1%", "12%"}[r.Intn(3)], Align: 2, Margin: &pm},
				c16Op{Op: "span", N: 1, Value: []string{"", "¹"}[r.Intn(2)]})
			if e > 0 && r.Chance(0.5) {
				ops = append(ops, c16Op{Op: "span", N: 1, Value: []string{"~", "+1.25%"}[r.Intn(2)], Align: 2},
					c16Op{Op: "span", N: 1, Value: "(p=0.002 n=6)"}, c16Op{Op: "span", N: 1, Value: ""})
			}
		}
	}
	ops = append(ops, c16Op{Op: "row"}, c16Op{Op: "span", N: 1, Value: "geomean"})
	for e := 0; e < nexp; e++ {
		ops = append(ops, c16Op{Op: "col", N: start(e)}, c16Op{Op: "span", N: 1, Value: "14.67n", Align: 2})
		if e > 0 {
			ops = append(ops, c16Op{Op: "col", N: start(e) + 3}, c16Op{Op: "span", N: 1, Value: "?"})
		}
		ops = append(ops, c16Op{Op: "col", N: start(e+1) - 1}, c16Op{Op: "span", N: 1, Value: []string{"", "² ³"}[r.Intn(2)]})
	}
	return ops
}

// tags: input predicates
func c16Tags(ops []c16Op) []string {
	// all-shrink span: a span > 1 all of whose columns are (finally) shrink columns
	shrink := map[int]bool{}
	for _, o := range ops {
		if o.Op == "shrink" {
			shrink[o.N] = o.On
		}
	}
	var tags []string
	col := 0
	seen := false
	for _, o := range ops {
		switch o.Op {
		case "row":
			col = 0
		case "col":
			col = o.N
		case "span":
			if o.N > 1 {
				all := true
				for j := col; j < col+o.N; j++ {
					all = all && shrink[j]
				}
				if all && !seen {
					tags = append(tags, "allshrink_span")
					seen = true
				}
			}
			col += o.N
		}
	}
	return tags
}

func c16AddTable(o *hx.Out, ops []c16Op, kind string) {
	out, panicked, perm, spans := c16Run(ops)
	var opsx, permx []hx.Sx
	for _, op := range ops {
		opsx = append(opsx, op.sx())
	}
	for _, p := range perm {
		permx = append(permx, hx.I(p))
	}
	res := hx.L(hx.I(0), hx.S(out))
	if panicked {
		res = hx.L(hx.I(1))
	}
	tags := c16Tags(ops)
	multi := false
	for _, s := range spans {
		multi = multi || s > 1
	}
	o.Count("table:" + kind)
	o.Count(fmt.Sprintf("table:cells=%d", min(len(spans)/10*10, 60)))
	if multi {
		o.Count("table:has_span")
	}
	if len(tags) > 0 {
		o.Count("table:allshrink_span")
	}
	if panicked {
		o.Count("table:panic")
	}
	if len(spans) > 12 {
		o.Count("table:>12cells(pdqsort)")
	}
	o.Add(hx.L(hx.I(0), hx.List(opsx), hx.List(permx), res), c16Table{Kind: "table/" + kind, Ops: ops},
		fmt.Sprintf("%v", ops), multi, tags...)
}

// ---------- KeyHeader cases ----------

type c16Keys struct {
	Kind   string     `json:"kind"`
	Fields []string   `json:"fields"`
	Keys   [][]string `json:"keys"`
}

func c16AddKeys(o *hx.Out, fields []string, rows [][]string) error {
	var pp benchproc.ProjectionParser
	proj, err := pp.Parse(strings.Join(fields, ","), nil)
	if err != nil {
		return err
	}
	var keys []benchproc.Key
	for _, row := range rows {
		res := &benchfmt.Result{Name: benchfmt.Name("X"), Iters: 1, Values: []benchfmt.Value{{Value: 1, Unit: "sec/op"}}}
		for i, f := range fields {
			if row[i] != "" {
				res.SetConfig(f, row[i])
			}
		}
		keys = append(keys, proj.Project(res))
	}
	kh := benchproc.NewKeyHeader(keys)
	// inputs as the code sees them: Key.Get per flattened field
	ff := proj.FlattenedFields()
	var keysx []hx.Sx
	for _, k := range keys {
		var vs []string
		for _, f := range ff {
			vs = append(vs, k.Get(f))
		}
		keysx = append(keysx, hx.SList(vs))
	}
	// observed: breadth-first levels of (field, value, start, len, #children)
	var levels []hx.Sx
	nodes := kh.Top
	nn := 0
	for len(nodes) > 0 {
		var lv []hx.Sx
		var next []*benchproc.KeyHeaderNode
		for _, n := range nodes {
			lv = append(lv, hx.L(hx.I(n.Field), hx.S(n.Value), hx.I(n.Start), hx.I(n.Len), hx.I(len(n.Children))))
			next = append(next, n.Children...)
			nn++
		}
		levels = append(levels, hx.List(lv))
		nodes = next
	}
	nlev := len(kh.Levels)
	o.Count(fmt.Sprintf("keys:n=%d", min(len(rows), 12)))
	o.Count(fmt.Sprintf("keys:fields=%d", len(fields)))
	o.Add(hx.L(hx.I(1), hx.I(len(ff)), hx.List(keysx), hx.I(nlev), hx.List(levels)),
		c16Keys{Kind: "keyheader", Fields: fields, Keys: rows}, fmt.Sprintf("%v%v", fields, rows), nn > len(rows))
	return nil
}

// ---------- benchtab.Table.ToText on real tables (in-process benchstat pipeline) ----------

type c16Bench struct {
	Kind  string     `json:"kind"`
	Col   string     `json:"col"`
	Files [][]string `json:"files"` // benchmark lines per file
}

// c16AddBench runs parse -> benchtab.Builder -> ToTables -> Table.ToText like
// cmd/benchstat does (-table .config -row .fullname -col <col>) and records,
// per table, the header line count and the table's text lines.
func c16AddBench(o *hx.Out, col string, files [][]string, tags ...string) error {
	var parser benchproc.ProjectionParser
	tableBy, _, err := parser.ParseWithUnit(".config", nil)
	if err != nil {
		return err
	}
	rowBy, err := parser.Parse(".fullname", nil)
	if err != nil {
		return err
	}
	colBy, err := parser.Parse(col, nil)
	if err != nil {
		return err
	}
	residue := parser.Residue()
	stat := vb.NewBuilder(tableBy, rowBy, colBy, residue)
	var units benchfmt.UnitMetadataMap
	for i, lines := range files {
		rd := benchfmt.NewReader(strings.NewReader(strings.Join(lines, "\n")+"\n"), fmt.Sprintf("f%d.txt", i))
		for rd.Scan() {
			if res, ok := rd.Result().(*benchfmt.Result); ok {
				stat.Add(res)
			}
		}
		units = rd.Units()
	}
	th := benchmath.DefaultThresholds
	tables := stat.ToTables(vb.TableOpts{Confidence: 0.95, Thresholds: &th, Units: units})
	var tabs []hx.Sx
	for _, t := range tables.Tables {
		var buf bytes.Buffer
		if err := t.ToText(&buf, false); err != nil {
			return err
		}
		nhdr := 1
		if len(t.Cols) > 0 {
			nhdr += len(t.Cols[0].Projection().FlattenedFields())
		}
		nlines := nhdr + len(t.Rows)
		if len(t.Rows) > 1 {
			nlines++
		}
		all := strings.Split(strings.TrimSuffix(buf.String(), "\n"), "\n")
		if len(all) < nlines {
			nlines = len(all)
		}
		tabs = append(tabs, hx.L(hx.I(nhdr), hx.SList(all[:nlines])))
		o.Count(fmt.Sprintf("bench:cols=%d", min(len(t.Cols), 4)))
	}
	o.Count("bench:" + col)
	o.Add(hx.L(hx.I(2), hx.List(tabs)), c16Bench{Kind: "benchtab", Col: col, Files: files},
		fmt.Sprintf("%s%v", col, files), len(files) > 1, tags...)
	return nil
}

func c16BenchFiles(r *hx.Rng) (string, [][]string) {
	names := []string{"A", "Encode/format=json", "Encode/format=gob", "C/size=1kB-8", "Décode"}
	nf := r.Range(1, 3)
	col := []string{".file", ".file", "/format", ".file,/format", "goos"}[r.Intn(5)]
	var files [][]string
	for f := 0; f < nf; f++ {
		lines := []string{"goos: " + []string{"linux", "darwin"}[r.Intn(2)]}
		disjoint := r.Chance(0.3)
		for i, n := range names {
			if disjoint && i%nf != f {
				continue
			}
			if !disjoint && r.Chance(0.3) {
				continue
			}
			ns := r.Range(1, 7)
			base := float64(r.Range(1, 5000)) * []float64{0.01, 1, 1000}[r.Intn(3)]
			for k := 0; k < ns; k++ {
				v := base * (1 + float64(r.Intn(9))/100)
				l := fmt.Sprintf("Benchmark%s 1 %g ns/op", n, v)
				if r.Chance(0.4) {
					l += fmt.Sprintf(" %d B/op", r.Range(0, 3)*16)
				}
				lines = append(lines, l)
			}
		}
		files = append(files, lines)
	}
	return col, files
}

// ---------- text vs CSV of the same benchtab.Table (kind 3) ----------

func c16Errs(es []error) hx.Sx {
	var ss []string
	for _, e := range es {
		ss = append(ss, e.Error())
	}
	return hx.SList(ss)
}

// c16Zeroize rewrites the measurements of one unit in a file to val with
// probability p per line (zero / negative values: no geomean for that column).
func c16Zeroize(r *hx.Rng, content, unit, val string, p float64) string {
	lines := strings.Split(content, "\n")
	for i, l := range lines {
		if !strings.HasPrefix(l, "Benchmark") || !r.Chance(p) {
			continue
		}
		f := strings.Fields(l)
		for j := 3; j < len(f); j += 2 {
			if f[j] == unit {
				f[j-1] = val
			}
		}
		lines[i] = strings.Join(f, " ")
	}
	return strings.Join(lines, "\n")
}

// c16TableCase records, for one real benchtab.Table: the abstract table (all
// formatted strings taken from the real Table: number formatting is an oracle,
// the model is about placement), the text ToText wrote and the CSV records and
// warnings ToCSV wrote (CSV parsed back with encoding/csv).
func c16TableCase(t *vb.Table, startRow int) (hx.Sx, bool, error) {
	abs, noGeo := c16AbsTable(t)
	var text, cbuf, wbuf bytes.Buffer
	if err := t.ToText(&text, false); err != nil {
		return hx.Sx{}, false, err
	}
	cw := csv.NewWriter(&cbuf)
	n := t.ToCSV(cw, startRow, &wbuf)
	cw.Flush()
	rd := csv.NewReader(&cbuf)
	rd.FieldsPerRecord = -1
	recs, err := rd.ReadAll()
	if err != nil {
		return hx.Sx{}, false, err
	}
	var recx []hx.Sx
	for _, rec := range recs {
		recx = append(recx, hx.SList(rec))
	}
	return hx.L(abs, hx.I(startRow), hx.S(text.String()), hx.List(recx), hx.I(n), hx.S(wbuf.String())), noGeo, nil
}

// c16OneRowTag marks a case that holds a table with fewer than two rows: ToCSV
// writes the summary record for it, ToText does not (known finding
// C16_csv_summary_one_row).
const c16OneRowTag = "one_row_table"

// c16AbsTable is the abstract table of Model/Render.v for one real benchtab.Table.
func c16AbsTable(t *vb.Table) (hx.Sx, bool) {
	cls := benchunit.ClassOf(t.Unit)
	var fields []*benchproc.Field
	if len(t.Cols) > 0 {
		fields = t.Cols[0].Projection().FlattenedFields()
	}
	var colkeys []hx.Sx
	for _, c := range t.Cols {
		var vs []string
		for _, f := range fields {
			vs = append(vs, c.Get(f))
		}
		colkeys = append(colkeys, hx.SList(vs))
	}
	var rows []hx.Sx
	for _, rk := range t.Rows {
		sc := t.RowScaler(rk, cls)
		var cells []hx.Sx
		for _, ck := range t.Cols {
			cell, ok := t.Cells[vb.TableKey{Row: rk, Col: ck}]
			if !ok {
				cells = append(cells, hx.L())
				continue
			}
			cmp := hx.L()
			if cell.Baseline != nil {
				cmp = hx.L(hx.L(hx.S(cell.Comparison.FormatDelta(cell.Baseline.Summary.Center, cell.Summary.Center)),
					hx.S(cell.Comparison.String()), c16Errs(cell.Comparison.Warnings)))
			}
			cells = append(cells, hx.L(hx.L(hx.S(fmt.Sprint(cell.Summary.Center)), hx.S(sc.Format(cell.Summary.Center)),
				hx.S(cell.Summary.PctRangeString()), c16Errs(cell.Sample.Warnings), c16Errs(cell.Summary.Warnings), cmp)))
		}
		rows = append(rows, hx.L(hx.S(rk.StringValues()), hx.List(cells)))
	}
	var sums []hx.Sx
	noGeo := false
	for i, ck := range t.Cols {
		ts, ok := t.Summary[ck]
		if !ok {
			sums = append(sums, hx.L())
			continue
		}
		if i > 0 && !ts.HasSummary {
			noGeo = true
		}
		sums = append(sums, hx.L(hx.L(hx.Bool(ts.HasSummary), hx.S(fmt.Sprint(ts.Summary)), hx.S(benchunit.Scale(ts.Summary, cls)),
			hx.Bool(ts.HasRatio), hx.S(fmt.Sprintf("%+.2f%%", (ts.Ratio-1)*100)), c16Errs(ts.Warnings))))
	}
	abs := hx.L(hx.S(t.Unit), hx.S(t.SummaryLabel), hx.I(len(fields)), hx.List(colkeys), hx.List(rows), hx.List(sums))
	return abs, noGeo
}

// c16AddCsvTables records the real Tables.ToCSV output of a whole benchstat run
// (kind 4): per table the table-key header lines that printTables emitted
// before it (observed in the real Tables.ToText output: what lies between the
// tables' own texts, without the blank separator line) and the abstract table;
// every record Tables.ToCSV wrote (one per output line, the blank separators
// included) and its warning stream. The model (Render.csv_tables_model)
// predicts records and warnings, so the row numbers of the cell references
// depend on counting every header and separator line.
func c16AddCsvTables(o *hx.Out, tabs *vb.Tables, in bsInput) error {
	if len(tabs.Tables) == 0 {
		return nil
	}
	var full bytes.Buffer
	if err := tabs.ToText(&full, false); err != nil {
		return err
	}
	rest := full.String()
	var tx []hx.Sx
	nhdr := 0
	for i, t := range tabs.Tables {
		var tb bytes.Buffer
		if err := t.ToText(&tb, false); err != nil {
			return err
		}
		idx := strings.Index(rest, tb.String())
		if idx < 0 || tb.Len() == 0 {
			return fmt.Errorf("c16: table %d text not found in Tables.ToText output", i)
		}
		hdr := rest[:idx]
		rest = rest[idx+tb.Len():]
		var lines []string
		if hdr != "" {
			lines = strings.Split(strings.TrimSuffix(hdr, "\n"), "\n")
		}
		if i > 0 {
			if len(lines) == 0 || lines[0] != "" {
				return fmt.Errorf("c16: no blank separator line before table %d", i)
			}
			lines = lines[1:]
		}
		nhdr += len(lines)
		abs, _ := c16AbsTable(t)
		tx = append(tx, hx.L(hx.SList(lines), abs))
	}
	var cbuf, wbuf bytes.Buffer
	if err := tabs.ToCSV(&cbuf, &wbuf); err != nil {
		return err
	}
	var recx []hx.Sx
	for _, line := range strings.Split(strings.TrimSuffix(cbuf.String(), "\n"), "\n") {
		if line == "" {
			recx = append(recx, hx.SList([]string{""})) // csv.Writer writes the record [""] as an empty line
			continue
		}
		rd := csv.NewReader(strings.NewReader(line))
		rd.FieldsPerRecord = -1
		rec, err := rd.Read()
		if err != nil {
			return fmt.Errorf("c16: CSV line %q: %v", line, err)
		}
		recx = append(recx, hx.SList(rec))
	}
	o.Count(fmt.Sprintf("csvtables:tables=%d", min(len(tabs.Tables), 4)))
	o.Count(fmt.Sprintf("csvtables:hdrlines=%d", min(nhdr, 4)))
	if wbuf.Len() > 0 {
		o.Count("csvtables:with-warnings")
		if len(tabs.Tables) > 1 {
			o.Count("csvtables:with-warnings-multi")
		}
	}
	o.Add(hx.L(hx.I(4), hx.List(tx), hx.List(recx), hx.S(wbuf.String())), c16TC{Kind: "csv-tables", Input: in},
		"tables:"+fmt.Sprint(in), len(tabs.Tables) > 1 && wbuf.Len() > 0)
	return nil
}

type c16TC struct {
	Kind  string  `json:"kind"`
	Input bsInput `json:"input"`
}

func c16AddTextCSV(o *hx.Out, r *hx.Rng, dir string) error {
	in, fl := genBsInput(r)
	// extra weight on tables with >= 2 columns: at least two files, and (often)
	// no per-file configuration lines, so that the files share their tables
	for try := 0; try < 4 && len(in.Files) < 2 && r.Chance(0.85); try++ {
		in, fl = genBsInput(r)
	}
	if r.Chance(0.6) {
		for i := range in.Files {
			var keep []string
			for _, l := range strings.Split(in.Files[i].Content, "\n") {
				if strings.HasPrefix(l, "goos:") || strings.HasPrefix(l, "pkg:") || strings.HasPrefix(l, "note:") || strings.HasPrefix(l, "goarch:") {
					continue
				}
				keep = append(keep, l)
			}
			in.Files[i].Content = strings.Join(keep, "\n")
		}
	}
	// extra weight: zero / negative measurements in one file (no geomean in that column)
	if z := r.Intn(4); z < 2 && len(in.Files) > 0 {
		fi := r.Intn(len(in.Files))
		if len(in.Files) > 1 && r.Chance(0.7) {
			fi = 1 + r.Intn(len(in.Files)-1) // a non-baseline column
		}
		val := []string{"0", "-5", "0", "-0.25"}[r.Intn(4)]
		in.Files[fi].Content = c16Zeroize(r, in.Files[fi].Content, bsUnits[r.Intn(len(bsUnits))], val, []float64{1, 0.5, 0.2}[r.Intn(3)])
		if r.Chance(0.5) {
			in.Files[fi].Content = c16Zeroize(r, in.Files[fi].Content, bsUnits[r.Intn(len(bsUnits))], val, 1)
		}
	}
	// extra weight: multi-level / repeating column headers
	if r.Chance(0.3) {
		fl.col = []string{".file,/fmt", "goos,.file", "/fmt,/n", "goos,/fmt", "goos"}[r.Intn(5)]
		if fl.row != "" && fl.row != ".name" {
			fl.row = ""
		}
		if fl.table != "" && fl.table != "pkg" {
			fl.table = ""
		}
		fl.ignore = ""
		in.Flags = fl.args()
	}
	return c16RunTextCSV(o, dir, in, fl)
}

func c16RunTextCSV(o *hx.Out, dir string, in bsInput, fl bsFlags) error {
	if err := writeBsFiles(dir, in); err != nil {
		return err
	}
	run := runBenchstatInProc(dir, in, fl)
	if run.err != nil {
		o.Count("textcsv:pipeline-error")
		return nil
	}
	var tags []string
	var tabs []hx.Sx
	startRow := 1
	anyNoGeo := false
	multi := false
	oneRow := false
	for _, t := range run.tables.Tables {
		startRow++ // the table-key header line Tables.ToCSV writes
		tc, noGeo, err := c16TableCase(t, startRow)
		if err != nil {
			return err
		}
		tabs = append(tabs, tc)
		anyNoGeo = anyNoGeo || noGeo
		multi = multi || len(t.Cols) > 1
		if len(t.Cols) >= 8 && len(tags) == 0 {
			// CSV column 26 and beyond carry cell references
			tags = append(tags, "csv_col_ge_26")
			o.Count("textcsv:csv_col_ge_26")
		}
		if len(t.Rows) < 2 && !oneRow {
			// known finding C16_csv_summary_one_row: decided from the table both
			// renderings are given (its number of rows), nothing else
			oneRow = true
			tags = append(tags, c16OneRowTag)
			o.Count("textcsv:case-with-one-row-table")
		}
		o.Count(fmt.Sprintf("textcsv:cols=%d", min(len(t.Cols), 4)))
		o.Count(fmt.Sprintf("textcsv:rows=%d", min(len(t.Rows), 4)))
		if len(t.Cols) > 0 {
			o.Count(fmt.Sprintf("textcsv:colfields=%d", min(len(t.Cols[0].Projection().FlattenedFields()), 3)))
		}
		startRow += len(t.Rows) + 8
	}
	if anyNoGeo {
		o.Count("textcsv:nonbaseline-col-without-geomean")
	}
	o.Add(hx.L(hx.I(3), hx.List(tabs)), c16TC{Kind: "text-vs-csv", Input: in}, fmt.Sprint(in), multi, tags...)
	if err := c16AddCsvTables(o, run.tables, in); err != nil {
		return err
	}
	return c16AddRun(o, run.tables, in, "generic")
}

// ---------- a whole run: Tables.ToText and Tables.ToCSV of the same Tables (kind 5) ----------

// c16CSVRows splits CSV output into its spreadsheet rows: one per output line
// (newlines inside quoted fields do not end a row), the empty line that
// csv.Writer produces for the record [""] being a row of its own (encoding/csv's
// reader would skip it).
func c16CSVRows(b string) ([][]string, error) {
	var rows [][]string
	start, inq := 0, false
	for i := 0; i < len(b); i++ {
		switch b[i] {
		case '"':
			inq = !inq
		case '\n':
			if inq {
				continue
			}
			line := b[start:i]
			start = i + 1
			if line == "" {
				rows = append(rows, []string{""})
				continue
			}
			rd := csv.NewReader(strings.NewReader(line))
			rd.FieldsPerRecord = -1
			rec, err := rd.Read()
			if err != nil {
				return nil, fmt.Errorf("c16: CSV line %q: %v", line, err)
			}
			rows = append(rows, rec)
		}
	}
	if start != len(b) {
		return nil, fmt.Errorf("c16: CSV output does not end in a newline")
	}
	return rows, nil
}

// c16TableWarnings is the set of distinct warning messages of one table (what
// its text numbers as footnotes; the summary row only when the text shows it).
func c16TableWarnings(t *vb.Table) map[string]bool {
	set := map[string]bool{}
	add := func(es []error) {
		for _, e := range es {
			set[e.Error()] = true
		}
	}
	for _, rk := range t.Rows {
		for i, ck := range t.Cols {
			if cell, ok := t.Cells[vb.TableKey{Row: rk, Col: ck}]; ok {
				add(cell.Sample.Warnings)
				add(cell.Summary.Warnings)
				if i > 0 && cell.Baseline != nil {
					add(cell.Comparison.Warnings)
				}
			}
		}
	}
	if len(t.Rows) > 1 {
		for _, ck := range t.Cols {
			if ts, ok := t.Summary[ck]; ok {
				add(ts.Warnings)
			}
		}
	}
	return set
}

// c16AddRun records a whole run (kind 5): the names of the table-key fields and,
// per table, the table key the in-process Tables report (its value of every
// field) and the abstract table; the bytes Tables.ToText wrote; every
// spreadsheet row Tables.ToCSV wrote and its warning stream. Nothing of the
// header lines is handed over as input: model and specification predicate
// derive them from the keys.
func c16AddRun(o *hx.Out, tabs *vb.Tables, in bsInput, kind string, tags ...string) error {
	if len(tabs.Tables) == 0 {
		return nil
	}
	fields := tabs.Keys[0].Projection().FlattenedFields()
	var names []string
	for _, f := range fields {
		names = append(names, f.Name)
	}
	var tx []hx.Sx
	laterWarn, toEmpty, maxNotes, twoDigit := false, false, 0, 0
	oneRow := false
	for i, t := range tabs.Tables {
		var vals []string
		for _, f := range fields {
			vals = append(vals, tabs.Keys[i].Get(f))
			if i > 0 && f.Name != ".unit" && tabs.Keys[i].Get(f) == "" && tabs.Keys[i-1].Get(f) != "" {
				toEmpty = true
			}
		}
		abs, _ := c16AbsTable(t)
		tx = append(tx, hx.L(hx.SList(vals), abs))
		if len(t.Rows) < 2 && !oneRow {
			oneRow = true
			tags = append(append([]string{}, tags...), c16OneRowTag)
		}
		nw := len(c16TableWarnings(t))
		if i > 0 && nw > 0 {
			laterWarn = true
		}
		if nw >= 10 {
			twoDigit++
		}
		maxNotes = max(maxNotes, nw)
	}
	var text, cbuf, wbuf bytes.Buffer
	if err := tabs.ToText(&text, false); err != nil {
		return err
	}
	if err := tabs.ToCSV(&cbuf, &wbuf); err != nil {
		return err
	}
	rows, err := c16CSVRows(cbuf.String())
	if err != nil {
		return err
	}
	var recx []hx.Sx
	for _, rec := range rows {
		recx = append(recx, hx.SList(rec))
	}
	o.Count("run:" + kind)
	if oneRow {
		o.Count("run:with-one-row-table")
	}
	o.Count(fmt.Sprintf("run:tables=%d", min(len(tabs.Tables), 6)))
	o.Count(fmt.Sprintf("run:keyfields=%d", min(len(fields), 5)))
	if laterWarn {
		o.Count("run:warnings-in-later-table")
	}
	if toEmpty {
		o.Count("run:key-changes-to-empty")
	}
	if twoDigit > 0 {
		o.Count("run:table-with>=10-footnotes")
	}
	o.Count(fmt.Sprintf("run:max-footnotes=%d", min(maxNotes/5*5, 30)))
	o.Add(hx.L(hx.I(5), hx.SList(names), hx.List(tx), hx.S(text.String()), hx.List(recx), hx.S(wbuf.String())),
		c16TC{Kind: "run/" + kind, Input: in}, "run:"+fmt.Sprint(in), laterWarn || twoDigit > 0, tags...)
	return nil
}

func c16RunWhole(o *hx.Out, dir string, in bsInput, fl bsFlags, kind string) error {
	if err := writeBsFiles(dir, in); err != nil {
		return err
	}
	run := runBenchstatInProc(dir, in, fl)
	if run.err != nil {
		o.Count("run:pipeline-error")
		return nil
	}
	return c16AddRun(o, run.tables, in, kind)
}

// c16Samples writes ns result lines of one benchmark: every unit measured
// (units dropped with probability 0.1), values base*(1+k%) or all equal.
func c16Samples(b *strings.Builder, r *hx.Rng, name string, ns int, base float64, units []string, equal bool) {
	for s := 0; s < ns; s++ {
		fmt.Fprintf(b, "Benchmark%s %d", name, r.Range(1, 100))
		for ui, u := range units {
			if r.Chance(0.1) {
				continue
			}
			v := base * float64(ui+1)
			if !equal {
				v *= 1 + float64(s+r.Intn(3))/100
			}
			if u == "allocs/op" || u == "B/op" {
				v = float64(int(v))
			}
			fmt.Fprintf(b, " %v %s", v, u)
		}
		b.WriteString("\n")
	}
}

func c16PickUnits(r *hx.Rng, n int) []string {
	perm := make([]int, len(bsUnits))
	for i := range perm {
		perm[i] = i
	}
	for i := len(perm) - 1; i > 0; i-- {
		j := r.Intn(i + 1)
		perm[i], perm[j] = perm[j], perm[i]
	}
	var us []string
	for _, i := range perm[:n] {
		us = append(us, bsUnits[i])
	}
	return us
}

// c16GenMultiTable: several tables in one run - 2-3 file configurations (some
// lacking a key another has: the key header must change to the empty value),
// 1-3 units, 1-3 files; few samples (no confidence interval), all-equal
// samples, benchmark sets differing between files, zero values: warnings in
// the second and later tables.
func c16GenMultiTable(r *hx.Rng) (bsInput, bsFlags) {
	type cfg map[string]string
	pool := []cfg{
		{"goos": "linux", "pkg": "p0"}, {"goos": "linux"}, {"pkg": "p0"}, {},
		{"goos": "darwin", "pkg": "p1", "note": "x"}, {"goos": "linux", "pkg": "p1"}, {"note": "x"}, {"goos": "darwin"},
	}
	for i := len(pool) - 1; i > 0; i-- {
		j := r.Intn(i + 1)
		pool[i], pool[j] = pool[j], pool[i]
	}
	cfgs := pool[:r.Range(2, 3)]
	keys := []string{"goos", "pkg", "note"}
	units := c16PickUnits(r, r.Range(1, 3))
	benches := []string{"A", "B/n=1", "C-8", "D/fmt=json"}[:r.Range(1, 4)]
	nf := r.Range(1, 3)
	sampleChoice := []int{1, 2, 3, 5, 6, 7, 10}
	var in bsInput
	for f := 0; f < nf; f++ {
		var b strings.Builder
		set := map[string]bool{}
		nblocks := 0
		for ci, c := range cfgs {
			if !r.Chance(0.85) && !(ci == len(cfgs)-1 && nblocks == 0) {
				continue
			}
			nblocks++
			for _, k := range keys {
				if v, ok := c[k]; ok {
					fmt.Fprintf(&b, "%s: %s\n", k, v)
					set[k] = true
				} else if set[k] {
					fmt.Fprintf(&b, "%s:\n", k) // unset
					set[k] = false
				}
			}
			b.WriteString("\n")
			for bi, name := range benches {
				if !r.Chance(0.8) {
					continue // benchmark sets differ
				}
				base := float64(100*(bi+1) + 10*ci + f)
				if r.Chance(0.08) {
					base = 0
				}
				c16Samples(&b, r, name, sampleChoice[r.Intn(len(sampleChoice))], base, units, r.Chance(0.2))
			}
		}
		in.Files = append(in.Files, bsFile{Name: fmt.Sprintf("f%d.txt", f), Content: b.String()})
	}
	fl := bsFlags{alpha: -1, confidence: -1}
	switch r.Intn(10) {
	case 0:
		fl.table = "goos"
	case 1:
		fl.table = "pkg"
		fl.ignore = "note"
	case 2:
		fl.table = "pkg"
		fl.col = "goos"
	case 3:
		fl.table = ".config@alpha"
	case 4:
		fl.table = "goos,pkg"
		fl.row = ".name"
	}
	switch r.Intn(8) {
	case 0:
		fl.confidence = 0.99
	case 1:
		fl.alpha = 0.01
	}
	in.Flags = fl.args()
	return in, fl
}

// c16GenManyNotes: one table (per unit) with many DISTINCT warning messages, so
// that the text needs footnote marks of two digits: "exact distribution
// expected, but values range from X to Y" per cell (unit metadata
// assume=exact, different values in every cell) and/or "benchmarks vary in
// <fields>" with a different set of residue fields per cell (-row .name -table
// pkg: goos, note and - through /n, /fmt - .fullname vary inside a cell), on
// top of the few-samples, all-equal and geomean warnings.
func c16GenManyNotes(r *hx.Rng) (bsInput, bsFlags) {
	mode := r.Intn(3) // 0 exact, 1 vary, 2 both
	units := c16PickUnits(r, r.Range(1, 2))
	nf := r.Range(2, 3)
	nb := r.Range(5, 8)
	names := []string{"Fib", "Sort", "Enc", "Dec", "Hash", "Copy", "Zip", "Sum"}[:nb]
	var subsets [][]string
	res := []string{"/n", "/fmt", "goos", "note"}
	for m := 1; m < 16; m++ {
		var s []string
		for i, f := range res {
			if m&(1<<i) != 0 {
				s = append(s, f)
			}
		}
		subsets = append(subsets, s)
	}
	for i := len(subsets) - 1; i > 0; i-- {
		j := r.Intn(i + 1)
		subsets[i], subsets[j] = subsets[j], subsets[i]
	}
	var in bsInput
	cell := 0
	for f := 0; f < nf; f++ {
		var b strings.Builder
		if mode != 1 {
			for _, u := range units {
				if r.Chance(0.8) {
					fmt.Fprintf(&b, "Unit %s assume=exact\n", u)
				}
			}
		}
		for bi, name := range names {
			if r.Chance(0.1) {
				continue
			}
			base := float64(100*(bi+1) + 7*f)
			if mode == 0 {
				c16Samples(&b, r, name, r.Range(2, 4), base, units, r.Chance(0.1))
				continue
			}
			vary := map[string]bool{}
			if r.Chance(0.85) {
				for _, x := range subsets[cell%len(subsets)] {
					vary[x] = true
				}
				cell++
			}
			nv := r.Range(2, 3)
			for v := 0; v < nv; v++ {
				pick := func(field string, x, y string) string {
					if vary[field] && v%2 == 1 {
						return y
					}
					return x
				}
				fmt.Fprintf(&b, "goos: %s\nnote: %s\n", pick("goos", "linux", "darwin"), pick("note", "r0", "r1"))
				full := fmt.Sprintf("%s/n=%s/fmt=%s", name, pick("/n", "1", "10"), pick("/fmt", "json", "gob"))
				c16Samples(&b, r, full, r.Range(1, 3), base, units, r.Chance(0.15))
			}
		}
		in.Files = append(in.Files, bsFile{Name: fmt.Sprintf("f%d.txt", f), Content: b.String()})
	}
	fl := bsFlags{alpha: -1, confidence: -1}
	if mode != 0 {
		fl.row = ".name"
		fl.table = "pkg"
	}
	in.Flags = fl.args()
	return in, fl
}

func genC16(o *hx.Out, r *hx.Rng, tier string, replay string) error {
	o.Rule = "text vs CSV: C14-style generated benchstat inputs (1-3 files, flag grid, missing cells, units with/without metadata, single-row tables) with extra zero/negative measurements (columns without geomean), run in process; per table the real ToText text and the real ToCSV records+warnings are compared cell by cell; per run the real Tables.ToCSV output (all records incl. blank separators and table-key header lines, warning stream) against the multi-table model, and every cell reference must name a data/summary record of its table; whole runs (the generic inputs plus multi-table inputs: 2-3 file configurations some lacking keys the others have, 1-3 units, 1-3 files, 1-10 samples, all-equal samples, differing benchmark sets, zero values, -table goos|pkg|goos,pkg|.config@alpha; and many-notes inputs: 5-8 benchmarks x 2-3 files with assume=exact and/or residue fields varying inside the cells, 10-30 different warnings in one table): the real Tables.ToText and Tables.ToCSV outputs against the table keys and tables the in-process Tables report - header lines reconstruct every table key in both renderings, per table text vs CSV with the warnings looked up at the real spreadsheet row, every reported warning names exactly its cell, footnote numbers distinct. benchtab: the real parse->Builder->ToTables->Table.ToText pipeline on 1-3 generated files (random/disjoint benchmark subsets, 1-7 samples, 1-2 units, -col .file | /format | .file,/format | goos): right borders of all header lines aligned, bars nested, no text beyond the border, no trailing blanks. texttab: random API call sequences (1-8 rows, 1-10 columns, spans 1-6 wider/narrower than the cells beneath, shrink patterns 0/30/60/100% incl. all-shrink spans, empty/blank cells, multi-byte text, margins) and benchstat-shaped tables with missing benchmarks; blank-tail tables (c16audit.go): 2-6 rows whose LAST printed cell has a blank text (empty, U+0020s, tab, U+00A0, U+3000) centred or right-aligned behind a visible margin (also margins ending in blanks), single or spanning, in a column made wide by another row, plus texts with blanks at their own ends; KeyHeader: random key slices over 1-4 fields with small value domains (incl. empty values, repeated non-adjacent prefixes). Gap classes (c16gaps.go): texttab tables whose multi-column header cells start in a column with a non-empty left margin and carry a label of width(columns below) - margin + d runes, d in -2..+5 (benchstat-shaped with 1-4 experiments and 1-2 header levels; generic bodies of single-column cells under 1-2 rows of spans with margins and shrink columns); real benchtab tables and whole runs whose file labels have that length relative to their column group; whole runs over files A, X1..Xk, D where every unit is measured in A, D and its own subset of the middle files (consecutive tables with equally many columns, the same first and last column key and different keys in between); row-scale cases (kind 6): per real table the ToText text and the cells' centres, rows whose least non-zero |centre| is negative, all-negative rows, rows mixing zero, negative and positive centres - the centres printed in the text are read back and judged by the C10 shared-scale clause (one prefix and precision per row, that of the least non-zero magnitude, every centre within half a unit of the last printed digit); whole runs whose table-key values CSV has to quote (c16csvkeys.go): file configuration values and file labels with a comma, a double quote, blanks at their ends - the key lines of text and CSV must name the table key, the CSV must be read back by encoding/csv (otherwise recorded as kind 7). non-trivial = table has a multi-column span / header merges at least one pair of keys"
	n := 3000
	if tier == "thorough" {
		n = 150000
	}
	// the witness of the repaired defect first
	{
		two, bar2 := "  ", " │"
		ops := []c16Op{{Op: "row"}, {Op: "span", N: 1, Value: "x"}, {Op: "span", N: 3, Value: "vs base", Margin: &two},
			{Op: "span", N: 1, Value: "", Margin: &bar2},
			{Op: "row"}, {Op: "span", N: 1, Value: "geomean"}, {Op: "span", N: 1, Value: "?"}, {Op: "col", N: 4},
			{Op: "span", N: 1, Value: "", Margin: &bar2},
			{Op: "shrink", N: 1, On: true}, {Op: "shrink", N: 2, On: true}, {Op: "shrink", N: 3, On: true}}
		c16AddTable(o, ops, "witness")
	}
	// audit item 1 (c16audit.go): last cells with blank centred / right-aligned texts
	c16GenAudit(o, r, tier)
	for i := 0; i < n; i++ {
		switch {
		case i%5 == 4:
			c16AddTable(o, c16BenchstatLike(r), "benchstat-shaped")
		case i%5 == 3:
			c16AddTable(o, c16Table1(r, 1), "narrow-under-spans")
		default:
			c16AddTable(o, c16Table1(r, 0), "random")
		}
	}
	// the benchstat-level witness: two files with disjoint benchmarks
	if err := c16AddBench(o, ".file", [][]string{
		{"BenchmarkA 1 10 ns/op", "BenchmarkA 1 11 ns/op", "BenchmarkB 1 20 ns/op", "BenchmarkB 1 21 ns/op"},
		{"BenchmarkC 1 10 ns/op", "BenchmarkC 1 11 ns/op", "BenchmarkD 1 20 ns/op", "BenchmarkD 1 21 ns/op"}}); err != nil {
		return err
	}
	nb := 300
	if tier == "thorough" {
		nb = 6000
	}
	for i := 0; i < nb; i++ {
		col, files := c16BenchFiles(r)
		if err := c16AddBench(o, col, files); err != nil {
			return err
		}
	}
	ntc := 250
	if tier == "thorough" {
		ntc = 5000
	}
	dir, err := os.MkdirTemp(os.Getenv("VERIF_WORK"), "c16in")
	if err != nil {
		return err
	}
	defer os.RemoveAll(dir)
	// witnesses: 8 columns (warnings referring to CSV column 27 = "AB"), and a
	// non-baseline column without geomean (zero measurement)
	{
		var b strings.Builder
		for n := 1; n <= 8; n++ {
			fmt.Fprintf(&b, "BenchmarkX/n=%d 1 %d ns/op\n", n, 10*n)
		}
		w1 := bsInput{Files: []bsFile{{Name: "f0.txt", Content: b.String()}}}
		fl1 := bsFlags{col: "/n", row: ".name", alpha: -1, confidence: -1}
		w1.Flags = fl1.args()
		if err := c16RunTextCSV(o, dir, w1, fl1); err != nil {
			return err
		}
		w2 := bsInput{Files: []bsFile{
			{Name: "f0.txt", Content: "BenchmarkA 1 10 ns/op\nBenchmarkA 1 11 ns/op\nBenchmarkB 1 20 ns/op\nBenchmarkB 1 21 ns/op\n"},
			{Name: "f1.txt", Content: "BenchmarkA 1 0 ns/op\nBenchmarkA 1 0 ns/op\nBenchmarkB 1 20 ns/op\nBenchmarkB 1 22 ns/op\n"}}}
		fl2 := bsFlags{alpha: -1, confidence: -1}
		if err := c16RunTextCSV(o, dir, w2, fl2); err != nil {
			return err
		}
		// known finding C16_csv_summary_one_row: one row, whose summary carries a
		// warning (zero measurement) - in the CSV only; with one and with two files
		w3 := bsInput{Files: []bsFile{{Name: "z.txt", Content: "BenchmarkA 1 0 ns/op\nBenchmarkA 1 0 ns/op\n"}}}
		if err := c16RunTextCSV(o, dir, w3, fl2); err != nil {
			return err
		}
		w4 := bsInput{Files: []bsFile{{Name: "y.txt", Content: "BenchmarkA 1 5 ns/op\nBenchmarkA 1 6 ns/op\n"},
			{Name: "z.txt", Content: "BenchmarkA 1 0 ns/op\nBenchmarkA 1 0 ns/op\n"}}}
		if err := c16RunTextCSV(o, dir, w4, fl2); err != nil {
			return err
		}
	}
	for i := 0; i < ntc; i++ {
		if err := c16AddTextCSV(o, r.Split(), dir); err != nil {
			return err
		}
	}
	nk := 1000
	if tier == "thorough" {
		nk = 30000
	}
	fieldNames := []string{"a", "b", "c", "d"}
	for i := 0; i < nk; i++ {
		nf := r.Range(1, 4)
		nkeys := r.Range(1, 12)
		if r.Chance(0.05) {
			nkeys = 0
		}
		dom := r.Range(1, 3)
		vals := []string{"1", "2", "x", "", "é"}
		var rows [][]string
		for k := 0; k < nkeys; k++ {
			row := make([]string, nf)
			for f := range row {
				row[f] = vals[r.Intn(dom+1)%len(vals)]
			}
			if k > 0 && r.Chance(0.3) { // share a prefix with the previous key
				p := r.Range(1, nf)
				copy(row[:p], rows[k-1][:p])
			}
			rows = append(rows, row)
		}
		if err := c16AddKeys(o, fieldNames[:nf], rows); err != nil {
			return err
		}
	}
	// whole runs (kind 5). Witnesses: the second table lacks the key "pkg" the
	// first one has (header must change to the empty value) and carries the
	// warnings; a table with 12 different warnings.
	{
		w := bsInput{Files: []bsFile{
			{Name: "f0.txt", Content: "pkg: p0\nBenchmarkA 1 10 ns/op\nBenchmarkA 1 11 ns/op\nBenchmarkA 1 12 ns/op\nBenchmarkA 1 13 ns/op\nBenchmarkA 1 14 ns/op\nBenchmarkA 1 15 ns/op\n" +
				"pkg:\nBenchmarkA 1 10 ns/op\nBenchmarkB 1 20 ns/op\nBenchmarkB 1 20 ns/op\n"},
			{Name: "f1.txt", Content: "BenchmarkA 1 10 ns/op\nBenchmarkB 1 20 ns/op\nBenchmarkB 1 20 ns/op\nBenchmarkC 1 5 ns/op\n"}}}
		flw := bsFlags{alpha: -1, confidence: -1}
		if err := c16RunWhole(o, dir, w, flw, "witness"); err != nil {
			return err
		}
		var b0, b1 strings.Builder
		b0.WriteString("Unit ns/op assume=exact\n")
		for i := 1; i <= 6; i++ {
			fmt.Fprintf(&b0, "BenchmarkX%d 1 %d ns/op\nBenchmarkX%d 1 %d ns/op\n", i, 10*i, i, 10*i+1)
			fmt.Fprintf(&b1, "BenchmarkX%d 1 %d ns/op\nBenchmarkX%d 1 %d ns/op\n", i, 10*i+2, i, 10*i+3)
		}
		w2 := bsInput{Files: []bsFile{{Name: "f0.txt", Content: b0.String()}, {Name: "f1.txt", Content: b1.String()}}}
		if err := c16RunWhole(o, dir, w2, flw, "witness"); err != nil {
			return err
		}
	}
	nmt, nmn := 130, 70
	if tier == "thorough" {
		nmt, nmn = 2600, 1400
	}
	for i := 0; i < nmt; i++ {
		in, fl := c16GenMultiTable(r.Split())
		if err := c16RunWhole(o, dir, in, fl, "multi-table"); err != nil {
			return err
		}
	}
	for i := 0; i < nmn; i++ {
		in, fl := c16GenManyNotes(r.Split())
		if err := c16RunWhole(o, dir, in, fl, "many-notes"); err != nil {
			return err
		}
	}
	// round-4 gap classes (c16gaps.go): spans over a margin with labels as long as
	// the room, runs of same-shaped consecutive tables, negative / mixed-sign rows
	if err := c16GenGaps(o, r, tier); err != nil {
		return err
	}
	// round-5 gap class (c16csvkeys.go): table-key values CSV has to quote; a
	// stream of its own
	return c16GenCsvKeys(o, hx.NewRng(r.Seed()^0x6a09e667f3bcc909), tier, dir)
}
