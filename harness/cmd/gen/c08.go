package main

// C08 (and the driver shared with C09): streams of ProjectionParser /
// Projection API calls on the real benchproc code. Observables: the == classes
// of the returned Keys (numbered by first appearance per projection), Key.Get
// per flattened field, Key.String, Fields/FlattenedFields names,
// NonSingularFields; for C09 additionally the Less matrix and SortKeys results.

import (
	"fmt"
	"math"
	"regexp"
	"strconv"
	"strings"

	"golang.org/x/perf/benchfmt"
	"golang.org/x/perf/benchproc"
	parsebridge "golang.org/x/perf/benchproc/verifbridge"
	"verifharness/internal/hx"
)

func init() { gens["C08"] = genC08 }

type pxSpec struct {
	Key   string   `json:"key"`
	Order string   `json:"order"`
	Fixed []string `json:"fixed,omitempty"`
}

type pxExpr struct {
	Unit   bool     `json:"unit,omitempty"`
	Fields []pxSpec `json:"fields"`
	Text   string   `json:"text"`
}

type pxResult struct {
	Name   string      `json:"name"`
	Config [][3]string `json:"config"` // key, value, "file"|"internal"
	Units  []string    `json:"units"`
}

type pxOp struct {
	Kind int       `json:"kind"` // 0 parse, 1 residue, 2 project, 3 projectvalues
	Expr *pxExpr   `json:"expr,omitempty"`
	Pi   int       `json:"pi,omitempty"`
	Res  *pxResult `json:"res,omitempty"`
	// position of Res in the stream of a protocol run: when the world has a
	// live source (c08live.go) the *benchfmt.Result projected is the source's
	// own, mutated in place from one position to the next, not a fresh copy
	live bool
	si   int
}

var pxBare = regexp.MustCompile(`^[A-Za-z0-9_./=]+$`)

func pxWord(w string) string {
	if pxBare.MatchString(w) && w != "AND" && w != "OR" {
		return w
	}
	return strconv.Quote(w)
}

// pxText prints parsed fields in the simple grammar key[@order|@(v ...)], comma separated.
func pxText(fs []pxSpec, r *hx.Rng) string {
	var parts []string
	for _, f := range fs {
		s := pxWord(f.Key)
		switch f.Order {
		case "first":
			if r.Chance(0.2) {
				s += "@first"
			}
		case "fixed":
			var ws []string
			for _, w := range f.Fixed {
				ws = append(ws, pxWord(w))
			}
			s += "@(" + strings.Join(ws, " ") + ")"
		default:
			s += "@" + pxWord(f.Order)
		}
		parts = append(parts, s)
	}
	sep := ","
	if r.Chance(0.2) {
		sep = " "
	}
	return strings.Join(parts, sep)
}

// pxCheckText makes sure the text really parses to the fields shipped to the model.
func pxCheckText(e *pxExpr) error {
	got, err := parsebridge.ParseProjection(e.Text)
	if err != nil {
		return fmt.Errorf("generated projection %q does not parse: %v", e.Text, err)
	}
	if len(got) != len(e.Fields) {
		return fmt.Errorf("generated projection %q: %d fields, want %d", e.Text, len(got), len(e.Fields))
	}
	for i, g := range got {
		w := e.Fields[i]
		if g.Key != w.Key || g.Order != w.Order || strings.Join(g.Fixed, "\x00") != strings.Join(w.Fixed, "\x00") || len(g.Fixed) != len(w.Fixed) {
			return fmt.Errorf("generated projection %q: field %d parsed as %+v, want %+v", e.Text, i, g, w)
		}
	}
	return nil
}

func pxSpecSx(f pxSpec) hx.Sx { return hx.L(hx.S(f.Key), hx.S(f.Order), hx.SList(f.Fixed)) }
func pxExprSx(e *pxExpr) hx.Sx {
	var fs []hx.Sx
	for _, f := range e.Fields {
		fs = append(fs, pxSpecSx(f))
	}
	return hx.L(hx.Bool(e.Unit), hx.List(fs), hx.S(e.Text))
}
func pxFieldsSx(e *pxExpr) hx.Sx {
	var fs []hx.Sx
	for _, f := range e.Fields {
		fs = append(fs, pxSpecSx(f))
	}
	return hx.List(fs)
}
func pxResultSx(r *pxResult) hx.Sx {
	var cs []hx.Sx
	for _, c := range r.Config {
		cs = append(cs, hx.L(hx.S(c[0]), hx.S(c[1]), hx.Bool(c[2] == "file")))
	}
	return hx.L(hx.S(r.Name), hx.List(cs), hx.SList(r.Units))
}

func pxMkResult(r *pxResult) *benchfmt.Result {
	res := &benchfmt.Result{Name: benchfmt.Name(r.Name), Iters: 1}
	for _, c := range r.Config {
		res.Config = append(res.Config, benchfmt.Config{Key: c[0], Value: []byte(c[1]), File: c[2] == "file"})
	}
	for i, u := range r.Units {
		res.Values = append(res.Values, benchfmt.Value{Value: float64(i + 1), Unit: u})
	}
	return res
}

// pxWorld drives one ProjectionParser and the projections it produced.
type pxWorld struct {
	pp     benchproc.ProjectionParser
	filter *benchproc.Filter
	projs  []*benchproc.Projection
	nums   []map[benchproc.Key]int
	keys   [][]benchproc.Key
	outs   []hx.Sx
	last   []benchproc.Key // the slice the latest ProjectValues call returned (c08late.go)
	src    pxSource        // nil: every operation projects a freshly built Result
	srcErr error           // the live source disagreed with the stream shipped to the model (harness bug)
}

// result gives the *benchfmt.Result an operation projects.
func (w *pxWorld) result(op pxOp) *benchfmt.Result {
	if w.src == nil || !op.live {
		return pxMkResult(op.Res)
	}
	res, err := w.src.at(op.si)
	if err == nil {
		if got, want := pxSnapshot(res), *op.Res; !pxSameResult(got, want) {
			err = fmt.Errorf("live source at %d holds %+v, the stream says %+v", op.si, got, want)
		}
	}
	if err != nil {
		if w.srcErr == nil {
			w.srcErr = err
		}
		return pxMkResult(op.Res)
	}
	return res
}

func pxNewWorld() (*pxWorld, error) {
	f, err := benchproc.NewFilter("*")
	if err != nil {
		return nil, err
	}
	return &pxWorld{filter: f}, nil
}

func (w *pxWorld) addProj(p *benchproc.Projection) {
	w.projs = append(w.projs, p)
	w.nums = append(w.nums, map[benchproc.Key]int{})
	w.keys = append(w.keys, nil)
}

func (w *pxWorld) num(pi int, k benchproc.Key) int {
	if n, ok := w.nums[pi][k]; ok {
		return n
	}
	n := len(w.keys[pi])
	w.nums[pi][k] = n
	w.keys[pi] = append(w.keys[pi], k)
	return n
}

func (w *pxWorld) do(op pxOp) {
	switch op.Kind {
	case 0:
		var p *benchproc.Projection
		var err error
		if op.Expr.Unit {
			p, _, err = w.pp.ParseWithUnit(op.Expr.Text, w.filter)
		} else {
			p, err = w.pp.Parse(op.Expr.Text, w.filter)
		}
		if err != nil {
			w.outs = append(w.outs, hx.L(hx.I(0)))
		} else {
			w.addProj(p)
			w.outs = append(w.outs, hx.L(hx.I(1)))
		}
	case 1:
		w.addProj(w.pp.Residue())
		w.outs = append(w.outs, hx.L())
	case 2:
		k := w.projs[op.Pi].Project(w.result(op))
		w.outs = append(w.outs, hx.L(hx.I(w.num(op.Pi, k))))
	case 3:
		ks := w.projs[op.Pi].ProjectValues(w.result(op))
		w.last = ks
		var ids []hx.Sx
		for _, k := range ks {
			ids = append(ids, hx.I(w.num(op.Pi, k)))
		}
		w.outs = append(w.outs, hx.List(ids))
	}
}

func pxInts(xs []int) hx.Sx {
	it := make([]hx.Sx, len(xs))
	for i, x := range xs {
		it[i] = hx.I(x)
	}
	return hx.List(it)
}

// pxObserve records the final observables of projection pi. With sortObs the
// Less matrix and SortKeys results are included and the values seen are added
// to vals (for the oracle table of C09).
func (w *pxWorld) observe(pi int, r *hx.Rng, sortObs bool, vals map[string]bool) hx.Sx {
	p := w.projs[pi]
	keys := w.keys[pi]
	// Key.String before the harness itself asks for FlattenedFields, so that a
	// String relying on somebody else having refreshed the flattened fields shows
	strs := make([]string, len(keys))
	for i, k := range keys {
		strs[i] = k.String()
	}
	var fields []hx.Sx
	for _, f := range p.Fields() {
		var subs []string
		for _, s := range f.Sub {
			subs = append(subs, s.Name)
		}
		fields = append(fields, hx.L(hx.S(f.Name), hx.Bool(f.IsTuple), hx.SList(subs)))
	}
	flat := p.FlattenedFields()
	pos := map[*benchproc.Field]int{}
	var flatNames []string
	for i, f := range flat {
		pos[f] = i
		flatNames = append(flatNames, f.Name)
	}
	var ks []hx.Sx
	for i, k := range keys {
		var gets []string
		for _, f := range flat {
			v := k.Get(f)
			gets = append(gets, v)
			if vals != nil {
				vals[v] = true
			}
		}
		ks = append(ks, hx.L(hx.SList(gets), hx.S(strs[i])))
	}
	var ns []hx.Sx
	if len(keys) > 0 {
		nsub := r.Intn(4)
		for i := 0; i < nsub; i++ {
			n := r.Intn(5)
			var ids []int
			var sel []benchproc.Key
			for j := 0; j < n; j++ {
				id := r.Intn(len(keys))
				ids = append(ids, id)
				sel = append(sel, keys[id])
			}
			var got []int
			for _, f := range benchproc.NonSingularFields(sel) {
				got = append(got, pos[f])
			}
			ns = append(ns, hx.L(pxInts(ids), pxInts(got)))
		}
	}
	var less, sorts []hx.Sx
	if sortObs {
		for _, a := range keys {
			var row []hx.Sx
			for _, b := range keys {
				row = append(row, hx.Bool(a.Less(b)))
			}
			less = append(less, hx.List(row))
		}
		if len(keys) > 0 {
			nperm := 5
			for i := 0; i < nperm; i++ {
				ids := make([]int, len(keys))
				for j := range ids {
					ids[j] = j
				}
				switch i {
				case 0: // identity
				case 1: // reversed
					for a, b := 0, len(ids)-1; a < b; a, b = a+1, b-1 {
						ids[a], ids[b] = ids[b], ids[a]
					}
				default:
					for j := len(ids) - 1; j > 0; j-- {
						k := r.Intn(j + 1)
						ids[j], ids[k] = ids[k], ids[j]
					}
				}
				if i == 4 && len(ids) > 2 { // a random sub-slice
					ids = ids[:r.Range(1, len(ids)-1)]
				}
				sl := make([]benchproc.Key, len(ids))
				for j, id := range ids {
					sl[j] = keys[id]
				}
				benchproc.SortKeys(sl)
				outIDs := make([]int, len(sl))
				for j, k := range sl {
					outIDs[j] = w.nums[pi][k]
				}
				sorts = append(sorts, hx.L(pxInts(ids), pxInts(outIDs)))
			}
		}
	}
	return hx.L(hx.List(fields), hx.SList(flatNames), hx.List(ks), hx.List(ns), hx.List(less), hx.List(sorts))
}

func (w *pxWorld) observeAll(r *hx.Rng, sortObs bool, vals map[string]bool) hx.Sx {
	var obs []hx.Sx
	for pi := range w.projs {
		obs = append(obs, w.observe(pi, r, sortObs, vals))
	}
	return hx.List(obs)
}

// ---------- oracle table for C09's num order ----------

var pxDigitRun = regexp.MustCompile(`[0-9.]+`)

func pxOracle(vals map[string]bool) hx.Sx {
	asked := map[string]bool{}
	var order []string
	add := func(s string) {
		if !asked[s] {
			asked[s] = true
			order = append(order, s)
		}
	}
	for _, v := range hx.SortedKeys(boolsToInts(vals)) {
		add(v)
		for _, run := range pxDigitRun.FindAllString(v, -1) {
			add(run)
		}
	}
	var pf []hx.Sx
	for _, s := range order {
		f, err := strconv.ParseFloat(s, 64)
		if err != nil {
			pf = append(pf, hx.L(hx.S(s), hx.Bool(false), hx.I(0)))
		} else {
			pf = append(pf, hx.L(hx.S(s), hx.Bool(true), hx.F64(f)))
		}
	}
	var pw []hx.Sx
	for _, base := range []int{1000, 1024} {
		for e := 0; e <= 8; e++ {
			pw = append(pw, hx.L(hx.I(base), hx.I(e), hx.F64(math.Pow(float64(base), float64(e)))))
		}
	}
	return hx.L(hx.List(pf), hx.List(pw))
}

func boolsToInts(m map[string]bool) map[string]int {
	r := map[string]int{}
	for k := range m {
		r[k] = 1
	}
	return r
}

// ---------- running cases ----------

type pxProtoInput struct {
	Kind   string     `json:"kind"`
	Exprs  []*pxExpr  `json:"exprs"`
	Stream []pxResult `json:"stream"`
	Perms  [][]int    `json:"perms"`
	Source *pxSrcSpec `json:"source,omitempty"` // how the stream reaches the code when not as fresh Results
}

type pxFreeInput struct {
	Kind string `json:"kind"`
	Ops  []pxOp `json:"ops"`
}

func pxProtoOps(exprs []*pxExpr, stream []pxResult, perm []int) []pxOp {
	var ops []pxOp
	last := make([]int, len(exprs))
	for j, e := range perm {
		ops = append(ops, pxOp{Kind: 0, Expr: exprs[e]})
		last[e] = j
	}
	ops = append(ops, pxOp{Kind: 1})
	for i := range stream {
		for e, x := range exprs {
			k := 2
			if x.Unit {
				k = 3
			}
			ops = append(ops, pxOp{Kind: k, Pi: last[e], Res: &stream[i], live: true, si: i})
		}
		ops = append(ops, pxOp{Kind: 2, Pi: len(perm), Res: &stream[i], live: true, si: i})
	}
	return ops
}

// pxRun runs ops on a fresh world; a panic of the real code becomes data.
func pxRun(ops []pxOp, r *hx.Rng, sortObs bool, vals map[string]bool) (outs, obs hx.Sx, panicked string) {
	outs, obs, panicked, _ = pxRunSrc(ops, r, sortObs, vals, nil)
	return
}

// pxRunSrc: as pxRun, the results of a protocol run coming from a live source
// (a fresh one per run) when spec is not nil.
func pxRunSrc(ops []pxOp, r *hx.Rng, sortObs bool, vals map[string]bool, spec *pxSrcSpec) (outs, obs hx.Sx, panicked string, srcErr error) {
	defer func() {
		if e := recover(); e != nil {
			panicked = fmt.Sprint(e)
		}
	}()
	w, err := pxNewWorld()
	if err != nil {
		panic(err)
	}
	if spec != nil {
		w.src = spec.open()
	}
	for _, op := range ops {
		w.do(op)
	}
	return hx.List(w.outs), w.observeAll(r, sortObs, vals), "", w.srcErr
}

func pxProtoCase(o *hx.Out, r *hx.Rng, exprs []*pxExpr, stream []pxResult, perms [][]int, sortObs bool, tags ...string) error {
	return pxProtoCaseSrc(o, r, exprs, stream, perms, sortObs, nil, tags...)
}

// pxProtoCaseSrc: a protocol case whose results are handed to the code by the
// live source src (nil: fresh Results); the model and the specification
// predicates get the stream of snapshots either way.
func pxProtoCaseSrc(o *hx.Out, r *hx.Rng, exprs []*pxExpr, stream []pxResult, perms [][]int, sortObs bool, src *pxSrcSpec, tags ...string) error {
	for _, e := range exprs {
		if err := pxCheckText(e); err != nil {
			return err
		}
	}
	var vals map[string]bool
	if sortObs {
		vals = map[string]bool{"": true}
	}
	var runs []hx.Sx
	in := pxProtoInput{Kind: "proto", Exprs: exprs, Stream: stream, Perms: perms, Source: src}
	for _, perm := range perms {
		outs, obs, pan, srcErr := pxRunSrc(pxProtoOps(exprs, stream, perm), r, sortObs, vals, src)
		if srcErr != nil {
			return srcErr
		}
		if pan != "" {
			o.Count("panic")
			o.Add(hx.L(hx.I(9), hx.S(pan)), in, fmt.Sprint(len(o.Dist), o.Len()), true, append(tags, "panic")...)
			return nil
		}
		runs = append(runs, hx.L(pxInts(perm), outs, obs))
	}
	var es, st []hx.Sx
	for _, e := range exprs {
		es = append(es, pxExprSx(e))
	}
	for i := range stream {
		st = append(st, pxResultSx(&stream[i]))
	}
	orc := hx.L()
	if sortObs {
		orc = pxOracle(vals)
	}
	var texts []string
	for _, e := range exprs {
		texts = append(texts, e.Text)
	}
	o.Count(fmt.Sprintf("proto exprs=%d", len(exprs)))
	o.Count(fmt.Sprintf("proto perms=%s", pxBucket(len(perms))))
	o.Count(fmt.Sprintf("proto stream=%s", pxBucket(len(stream))))
	o.Add(hx.L(hx.I(0), hx.List(es), hx.List(st), hx.List(runs), orc), in,
		strings.Join(texts, " ; ")+fmt.Sprint(len(stream), stream[0].Name), true, tags...)
	return nil
}

func pxFreeCase(o *hx.Out, r *hx.Rng, ops []pxOp, sortObs bool, tags ...string) error {
	var vals map[string]bool
	if sortObs {
		vals = map[string]bool{"": true}
	}
	in := pxFreeInput{Kind: "free", Ops: ops}
	outs, obs, pan := pxRun(ops, r, sortObs, vals)
	if pan != "" {
		o.Count("panic")
		o.Add(hx.L(hx.I(9), hx.S(pan)), in, fmt.Sprint(o.Len()), true, append(tags, "panic")...)
		return nil
	}
	var os []hx.Sx
	for _, op := range ops {
		switch op.Kind {
		case 0:
			os = append(os, hx.L(hx.I(0), hx.Bool(op.Expr.Unit), pxFieldsSx(op.Expr)))
		case 1:
			os = append(os, hx.L(hx.I(1)))
		default:
			os = append(os, hx.L(hx.I(op.Kind), hx.I(op.Pi), pxResultSx(op.Res)))
		}
	}
	orc := hx.L()
	if sortObs {
		orc = pxOracle(vals)
	}
	o.Count(fmt.Sprintf("free ops=%s", pxBucket(len(ops))))
	o.Add(hx.L(hx.I(1), hx.List(os), outs, obs, orc), in, fmt.Sprint("free", o.Len()), true, tags...)
	return nil
}

func pxBucket(n int) string {
	switch {
	case n <= 3:
		return fmt.Sprint(n)
	case n <= 6:
		return "4-6"
	case n <= 12:
		return "7-12"
	case n <= 24:
		return "13-24"
	case n <= 60:
		return "25-60"
	}
	return ">60"
}

// ---------- generators ----------

type pxPools struct {
	cfgKeys   []string
	nameKeys  []string
	values    map[string][]string // per config key
	defVals   []string
	subVals   []string // values of /k=... name parts
	fixedPool []string
	orders    []string
	// C08 gap classes (zero for other users of the pools, whose streams then
	// draw exactly the random numbers they drew before)
	zeroP float64 // a result has no values at all
	dupP  float64 // a result is projected again later; late results lacking the newest keys, repeated
}

var c08Pools = pxPools{
	cfgKeys:  []string{"goos", "goarch", "pkg", "commit", "cpu", "k1", "k2", "é", "note"},
	nameKeys: []string{".name", "/a", "/b", "/gomaxprocs", "/size"},
	values: map[string][]string{
		"goos": {"linux", "darwin"}, "goarch": {"amd64", "arm64", "386"}, "pkg": {"p/q", "p"},
	},
	defVals:   []string{"v1", "v2", "x y", "", "é"},
	subVals:   []string{"1", "2", "x", "1k", ""},
	fixedPool: []string{"linux", "darwin", "1", "2", "amd64", "v1", "x"},
	orders:    []string{"first", "first", "first", "alpha", "num", "fixed"},
	zeroP:     0.1,
	dupP:      0.12,
}

// hot is the part of a value pool that streams draw from most of the time, so
// that the same few values meet in one field (ties, fixed lists that apply).
func pxHot(vs []string) []string {
	if len(vs) > 8 {
		return vs[:8]
	}
	return vs
}

func (pl *pxPools) poolOf(key string) []string {
	if len(key) > 0 && (key[0] == '/' || key[0] == '.') {
		return pl.subVals
	}
	if vs := pl.values[key]; vs != nil {
		return vs
	}
	return pl.defVals
}

func (pl *pxPools) pickVal(r *hx.Rng, vs []string) string {
	if r.Chance(0.6) {
		return r.Pick(pxHot(vs))
	}
	return r.Pick(vs)
}

func (pl *pxPools) spec(r *hx.Rng, key string) pxSpec {
	ord := r.Pick(pl.orders)
	if key == ".config" && ord == "fixed" {
		ord = "first"
	}
	s := pxSpec{Key: key, Order: ord}
	if ord == "fixed" {
		n := r.Range(1, 4)
		pool := pl.fixedPool
		if r.Chance(0.7) {
			pool = pxHot(pl.poolOf(key))
		}
		for i := 0; i < n; i++ {
			s.Fixed = append(s.Fixed, r.Pick(pool))
		}
		if n >= 2 && r.Chance(0.4) { // a repeated word: the last position counts
			s.Fixed = append(s.Fixed, s.Fixed[0])
		}
	}
	return s
}

func (pl *pxPools) expr(r *hx.Rng) *pxExpr {
	e := &pxExpr{Unit: r.Chance(0.2)}
	n := r.Range(1, 3)
	for i := 0; i < n; i++ {
		var key string
		switch x := r.Intn(10); {
		case x < 2:
			key = ".config"
		case x < 4:
			key = ".fullname"
		case x < 7:
			key = r.Pick(pl.nameKeys)
		default:
			key = r.Pick(pl.cfgKeys)
		}
		e.Fields = append(e.Fields, pl.spec(r, key))
	}
	e.Text = pxText(e.Fields, r)
	return e
}

func (pl *pxPools) exprSet(r *hx.Rng, n int) []*pxExpr {
	var es []*pxExpr
	for i := 0; i < n; i++ {
		es = append(es, pl.expr(r))
	}
	return es
}

// stream of n results over a growing set of config keys and name parts
func (pl *pxPools) stream(r *hx.Rng, n int) []pxResult {
	keys := append([]string(nil), pl.cfgKeys...)
	for j := len(keys) - 1; j > 0; j-- {
		k := r.Intn(j + 1)
		keys[j], keys[k] = keys[k], keys[j]
	}
	bases := []string{"Fib", "Sort", "X"}
	var out []pxResult
	for i := 0; i < n; i++ {
		avail := 1 + (len(keys)-1)*(i+1)/n // grows to the whole pool
		if r.Chance(0.1) {
			avail = len(keys)
		}
		var res pxResult
		// config in a random order of the available keys
		idx := make([]int, avail)
		for j := range idx {
			idx[j] = j
		}
		for j := len(idx) - 1; j > 0; j-- {
			k := r.Intn(j + 1)
			idx[j], idx[k] = idx[k], idx[j]
		}
		for _, j := range idx {
			if !r.Chance(0.65) {
				continue
			}
			k := keys[j]
			vs := pl.values[k]
			if vs == nil {
				vs = pl.defVals
			}
			kind := "file"
			if r.Chance(0.15) {
				kind = "internal"
			}
			res.Config = append(res.Config, [3]string{k, pl.pickVal(r, vs), kind})
		}
		name := r.Pick(bases)
		np := r.Intn(4)
		for j := 0; j < np; j++ {
			switch x := r.Intn(8); {
			case x < 5:
				k := r.Pick(pl.nameKeys[1:])
				name += k + "=" + pl.pickVal(r, pl.subVals)
			case x < 6:
				name += "/plain"
			case x < 7:
				name += "/c=" + r.Pick(pl.subVals)
			default:
				name += "/a" // prefix of a key without '='
			}
		}
		switch r.Intn(5) {
		case 0:
			name += "-8"
		case 1:
			name += "-16"
		}
		res.Name = name
		units := []string{"sec/op", "B/op", "allocs/op"}
		nu := r.Range(1, 3)
		for j := 0; j < nu; j++ {
			res.Units = append(res.Units, units[(i+j)%3])
		}
		if pl.zeroP > 0 && r.Chance(pl.zeroP) {
			res.Units = nil // e.g. every value filtered away
		}
		out = append(out, res)
		if pl.dupP > 0 && r.Chance(pl.dupP) {
			// an earlier result (or this one) once more
			out = append(out, out[r.Intn(len(out))])
		}
		if pl.dupP > 0 && i >= n/2 && r.Chance(pl.dupP) {
			// a NEW tuple that has only the oldest keys (trailing fields empty after
			// the field set has grown), projected two or three times
			late := pxResult{Name: r.Pick(bases), Units: []string{units[i%3]}}
			for j, m := 0, r.Range(1, 2); j < m && j < len(keys); j++ {
				late.Config = append(late.Config, [3]string{keys[j], fmt.Sprintf("late%d", i), "file"})
			}
			out = append(out, late)
			if r.Chance(0.5) {
				out = append(out, res)
			}
			out = append(out, late)
			if r.Chance(0.3) {
				out = append(out, late)
			}
		}
	}
	return out
}

func pxAllPerms(n int) [][]int {
	var out [][]int
	var rec func(cur []int, used []bool)
	rec = func(cur []int, used []bool) {
		if len(cur) == n {
			out = append(out, append([]int(nil), cur...))
			return
		}
		for i := 0; i < n; i++ {
			if !used[i] {
				used[i] = true
				rec(append(cur, i), used)
				used[i] = false
			}
		}
	}
	rec(nil, make([]bool, n))
	return out
}

// pxSomePerms: identity, a few random permutations, one with repeated Parse calls.
func pxSomePerms(r *hx.Rng, n, k int) [][]int {
	id := make([]int, n)
	for i := range id {
		id[i] = i
	}
	out := [][]int{id}
	for len(out) < k {
		p := append([]int(nil), id...)
		for j := n - 1; j > 0; j-- {
			x := r.Intn(j + 1)
			p[j], p[x] = p[x], p[j]
		}
		if len(out) == k-1 { // duplicate some calls
			nd := r.Range(1, 3)
			for d := 0; d < nd; d++ {
				at := r.Intn(len(p) + 1)
				p = append(p[:at], append([]int{r.Intn(n)}, p[at:]...)...)
			}
		}
		out = append(out, p)
	}
	return out
}

func (pl *pxPools) badExpr(r *hx.Rng) *pxExpr {
	e := pl.expr(r)
	e.Unit = false
	var bad pxSpec
	switch r.Intn(4) {
	case 0:
		bad = pxSpec{Key: r.Pick(pl.cfgKeys), Order: "bogus"}
	case 1:
		bad = pxSpec{Key: ".config", Order: "fixed", Fixed: []string{"a", "b"}}
	case 2:
		bad = pxSpec{Key: ".unit", Order: "first"}
	default:
		bad = pxSpec{Key: "", Order: "first"}
	}
	at := r.Intn(len(e.Fields) + 1)
	e.Fields = append(e.Fields[:at], append([]pxSpec{bad}, e.Fields[at:]...)...)
	e.Text = pxText(e.Fields, r)
	return e
}

func (pl *pxPools) freeOps(r *hx.Rng, n int) ([]pxOp, error) {
	var ops []pxOp
	nproj := 0
	stream := pl.stream(r, n)
	si := 0
	for len(ops) < n {
		x := r.Intn(20)
		switch {
		case nproj == 0 || x < 2:
			e := pl.expr(r)
			if err := pxCheckText(e); err != nil {
				return nil, err
			}
			ops = append(ops, pxOp{Kind: 0, Expr: e})
			nproj++
		case x < 3:
			e := pl.badExpr(r)
			if err := pxCheckText(e); err != nil {
				return nil, err
			}
			ops = append(ops, pxOp{Kind: 0, Expr: e})
		case x < 4:
			ops = append(ops, pxOp{Kind: 1})
			nproj++
		default:
			k := 2
			if r.Chance(0.3) {
				k = 3
			}
			res := stream[si%len(stream)]
			if r.Chance(0.7) {
				si++
			}
			ops = append(ops, pxOp{Kind: k, Pi: r.Intn(nproj), Res: &res})
		}
	}
	return ops, nil
}

func genC08(o *hx.Out, r *hx.Rng, tier string, replay string) error {
	o.Rule = "one ProjectionParser per run. proto cases: 2-5 projection expressions (.config, .fullname, .name, /k, plain keys; orders first/alpha/num/fixed lists; some with .unit) parsed in every order (all permutations up to 5 expressions = 120) or in a few orders including repeated Parse calls, then Residue, then a stream of 5-60 results over a growing set of config keys (file/internal, empty values), sub-name keys (duplicates, bare prefixes), gomaxprocs suffixes and units, every result projected through every projection and the residue. free cases: random interleavings of Parse (valid and failing), Residue (also repeated), Project and ProjectValues, every returned Key judged against the inputs (free_ok). failed-parse family (c08fail.go): 1-3 valid and 1-2 rejected expressions (unknown order, .config with a fixed list, .unit, empty key next to fields naming keys of the stream, .config, .fullname) parsed in every order (<= 3 expressions) or 4 orders, Residue, 4-12 results through every returned projection and the residue; plus the audit witnesses verbatim (goos,.unit / .config,.unit / /a,.fullname,k@bogus rejected, then .fullname or .config, results differing in goos or /a only). In all streams about a tenth of the results have NO values (ProjectValues returns no Key), results recur, and new tuples over only the oldest config keys appear late and are projected 2-3 times. zero-values family: a ParseWithUnit projection holding .config, a result without values that brings 1-2 unseen config keys (also twice in a row), then results lacking those keys, the keys again with values; grow family: .config projections, the field set grown key by key, then new tuples over the 0-2 oldest keys projected repeatedly, more growth, the same tuples again; gomaxprocs family: /gomaxprocs and /size (or /a) with .fullname explicit or via Residue, fields shuffled and cut into 1-3 expressions, every parse order, on names spelling GOMAXPROCS as -N and as /gomaxprocs=N (X-8 next to X/gomaxprocs=8, X/size=1-8 next to X/size=1/gomaxprocs=8) and on 3-8 names per case whose last part or base name has a hyphen that is NOT a GOMAXPROCS suffix (RW/gomaxprocs=4/mode=read-only, Foo-bar, a-1x, x-, x--8, X/size=1-8x, ... alone, next to /gomaxprocs=N and next to a genuine -N); live families (the code is handed ONE Result mutated in place, the model the snapshot taken at each call): reader family = a benchmark file of 6-18 results read by benchfmt.Reader and projected WITHOUT Clone, between consecutive results mostly one file key changing to another value of the same byte length (goarch amd64->arm64; the Reader overwrites the bytes), also other lengths, deletions (key:), new keys, repeated results; edit family = a struct-literal Result whose cfg.Value bytes are overwritten in place (copy / append(v[:0],...)), SetConfig (internal, delete), name and values rewritten in their buffers; both through .config alone / .config,.fullname / a single file key (+residue) / .config with .unit / .fullname (residue = .config alone); config-only family: a projection consisting of the .config group alone (.config, or the residue when .fullname is taken, also minus an individually projected key, also with .unit) whose first one or two results carry no file configuration at all (none, internal keys only, only the individually projected key), keys then arriving one by one as PAIRS of results differing in that key only, the empty configuration again after the growth; prefix-key family: an individually projected (or additionally parsed = ignored) sub-name key that is a proper prefix of another sub-name key present in the names (/size vs /sizeclass, /n vs /nodes, /a vs /ab, /gomaxprocs vs /gomaxprocsx, /b vs /b.c; either one excluded), .fullname explicit or via Residue, names with both keys in both orders, pairs differing only in the longer key; kept-slices family (c08late.go): 1-2 ParseWithUnit / Parse projections (+ Residue), then 2-4 ProjectValues calls on the SAME projection with results of 2-6 measurements each (other tuples, other unit orders, longer and shorter value lists than the call before), interleaved with Project / ProjectValues on the other projections, the caller KEEPING every returned slice and reading it again after every later call (key == classes, Key.Get of every field, the .unit value per position). non-trivial = every case; distinct by expression texts and stream"
	pl := &c08Pools
	mul := 1
	if tier == "thorough" {
		mul = 12
	}
	// all parse orders, short streams
	for i := 0; i < 70*mul; i++ {
		n := r.Range(2, 4)
		if i%10 == 0 {
			n = 5
		}
		es := pl.exprSet(r, n)
		st := pl.stream(r, r.Range(5, 14))
		if err := pxProtoCase(o, r, es, st, pxAllPerms(n), false); err != nil {
			return err
		}
	}
	// long streams, a few orders with repeated Parse calls
	for i := 0; i < 90*mul; i++ {
		n := r.Range(2, 5)
		es := pl.exprSet(r, n)
		st := pl.stream(r, r.Range(15, 60))
		if err := pxProtoCase(o, r, es, st, pxSomePerms(r, n, 3), false); err != nil {
			return err
		}
	}
	for i := 0; i < 150*mul; i++ {
		ops, err := pl.freeOps(r, r.Range(8, 60))
		if err != nil {
			return err
		}
		if err := pxFreeCase(o, r, ops, false); err != nil {
			return err
		}
	}
	// gap classes (c08gaps.go)
	for i := 0; i < 60*mul; i++ {
		if err := c08Zero(o, r, pl); err != nil {
			return err
		}
		if err := c08Grow(o, r, pl); err != nil {
			return err
		}
		if err := c08Gomax(o, r, pl); err != nil {
			return err
		}
	}
	// round-4 gap class (c08late.go): the slices ProjectValues returned, read again later
	lr := r.Split()
	for i := 0; i < 250*mul; i++ {
		if err := c08Late(o, lr, pl, i); err != nil {
			return err
		}
	}
	// round-3 gap classes (c08live.go, c08gaps3.go)
	for i := 0; i < 50*mul; i++ {
		if err := c08Reader(o, r, pl); err != nil {
			return err
		}
		if err := c08Edit(o, r, pl); err != nil {
			return err
		}
		if err := c08CfgOnly(o, r, pl, false); err != nil {
			return err
		}
		if err := c08Prefix(o, r, pl); err != nil {
			return err
		}
	}
	// audit class (c08fail.go): protocol-shaped histories with rejected expressions
	if err := c08FailedFixed(o, r); err != nil {
		return err
	}
	for i := 0; i < 40*mul; i++ {
		if err := c08Failed(o, r, pl); err != nil {
			return err
		}
	}
	return nil
}
