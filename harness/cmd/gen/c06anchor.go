package main

import (
	"regexp"
	"strings"

	"golang.org/x/perf/benchfmt"
	"verifharness/internal/hx"
)

// Regexp terms that are a LITERAL ANCHORED AT BOTH ENDS (^L$, \AL\z, ^(?:L)$ ...)
// and their half-anchored / unanchored neighbours, applied to results whose
// value for the key is the literal, strictly contains it (prefix, suffix,
// middle) or is contained in it.  The meaning is regexp.MatchString: the
// table of the case records, for every regexp TEXT THE GENERATOR PUT INTO THE
// EXPRESSION (compiled afresh here, not taken from the parser under test),
// its answer on every candidate string of the result.

// c06ExtraRes: regexp texts the oracle table must cover independently of the
// parser under test (consumed by c06ReTableList).
var c06ExtraRes []string

func c06ReExtra(res *benchfmt.Result, seen map[[2]string]bool) []hx.Sx {
	var l []hx.Sx
	cands := c06Candidates(res)
	for _, k := range c06ExtraRes {
		re, err := regexp.Compile(k)
		if err != nil {
			continue
		}
		for _, c := range cands {
			if seen[[2]string{k, c}] {
				continue
			}
			seen[[2]string{k, c}] = true
			l = append(l, hx.L(hx.S(k), hx.S(c), hx.Bool(re.MatchString(c))))
		}
	}
	return l
}

type c06AnchorKV struct{ key, val string }

var c06AnchorBases = []string{"Copy", "CopyLarge", "MemCopy", "XCopyY", "copy"}
var c06AnchorNums = []string{"16", "160", "116", "1", "8", "1160"}
var c06AnchorPkgs = []string{"bytes", "encoding/bytes", "bytes/x", "xbytesx", "Bytes"}
var c06AnchorGoos = []string{"linux", "linux2", "gnulinux", "gnu-linux-x"}
var c06AnchorUnits = [][2]string{{"sec/op", "ns/op"}, {"B/op", ""}, {"op", ""}, {"B", ""}, {"B/s", "MB/s"}, {"allocs/op", ""}, {"ns", ""}, {"sec/op", ""}, {"ops", ""}}

// c06AnchorResult: a result and the (key, value) pairs a term can be about.
func c06AnchorResult(r *hx.Rng, n int) (*benchfmt.Result, c06Input, []c06AnchorKV) {
	base := c06AnchorBases[r.Intn(len(c06AnchorBases))]
	name := base
	var kvs []c06AnchorKV
	kvs = append(kvs, c06AnchorKV{".name", base})
	if r.Chance(0.6) {
		v := c06AnchorNums[r.Intn(len(c06AnchorNums))]
		name += "/k=" + v
		kvs = append(kvs, c06AnchorKV{"/k", v})
	}
	if r.Chance(0.3) {
		v := []string{"4k", "64k", "4k4"}[r.Intn(3)]
		name += "/size=" + v
		kvs = append(kvs, c06AnchorKV{"/size", v})
	}
	switch r.Intn(4) {
	case 0: // explicit /gomaxprocs=
		v := c06AnchorNums[r.Intn(len(c06AnchorNums))]
		name += "/gomaxprocs=" + v
		kvs = append(kvs, c06AnchorKV{"/gomaxprocs", v})
	case 1, 2: // trailing -N
		v := c06AnchorNums[r.Intn(len(c06AnchorNums))]
		name += "-" + v
		kvs = append(kvs, c06AnchorKV{"/gomaxprocs", v})
	}
	kvs = append(kvs, c06AnchorKV{".fullname", name})
	res := &benchfmt.Result{Name: benchfmt.Name(name), Iters: 7}
	in := c06Input{Name: name}
	if r.Chance(0.8) {
		v := c06AnchorPkgs[r.Intn(len(c06AnchorPkgs))]
		res.SetConfig("pkg", v)
		kind := "file"
		if r.Chance(0.2) {
			i, _ := res.ConfigIndex("pkg")
			res.Config[i].File = false
			kind = "internal"
		}
		in.Config = append(in.Config, [3]string{"pkg", v, kind})
		kvs = append(kvs, c06AnchorKV{"pkg", v})
	}
	if r.Chance(0.6) {
		v := c06AnchorGoos[r.Intn(len(c06AnchorGoos))]
		res.SetConfig("goos", v)
		in.Config = append(in.Config, [3]string{"goos", v, "file"})
		kvs = append(kvs, c06AnchorKV{"goos", v})
	}
	nu := r.Range(2, 5)
	off := r.Intn(len(c06AnchorUnits))
	for i := 0; i < n; i++ {
		u := c06AnchorUnits[(off+r.Intn(nu))%len(c06AnchorUnits)]
		res.Values = append(res.Values, benchfmt.Value{Value: float64(i), Unit: u[0], OrigValue: float64(i), OrigUnit: u[1]})
		in.Units = append(in.Units, u)
		if i < 6 {
			kvs = append(kvs, c06AnchorKV{".unit", u[0]})
			if u[1] != "" {
				kvs = append(kvs, c06AnchorKV{".unit", u[1]})
			}
		}
	}
	return res, in, kvs
}

// c06AnchorLit: a literal in a chosen relation to the value.
func c06AnchorLit(r *hx.Rng, v string) (string, string) {
	if len(v) >= 2 {
		switch r.Intn(10) {
		case 0, 1, 2:
			return v[:r.Range(1, len(v)-1)], "value-strictly-contains-literal(prefix)"
		case 3, 4:
			return v[r.Range(1, len(v)-1):], "value-strictly-contains-literal(suffix)"
		case 5:
			if len(v) >= 3 {
				a := r.Range(1, len(v)-2)
				return v[a:r.Range(a+1, len(v)-1)], "value-strictly-contains-literal(middle)"
			}
		case 6:
			return v + []string{"0", "x", "/op"}[r.Intn(3)], "literal-strictly-contains-value"
		case 7:
			return []string{"x", "1"}[r.Intn(2)] + v, "literal-strictly-contains-value"
		}
	}
	return v, "value-equals-literal"
}

// c06AnchorQuote: the literal as regexp text without a top-level "/" (the
// expression delimits regexps by "/").
func c06AnchorQuote(l string) string {
	return strings.ReplaceAll(regexp.QuoteMeta(l), "/", "[/]")
}

type c06AnchorForm struct {
	pre, post, class string
}

var c06AnchorForms = []c06AnchorForm{
	{"^", "$", "anchored-both"}, {"^", "$", "anchored-both"}, {"^", "$", "anchored-both"},
	{`\A`, `\z`, "anchored-both"}, {"^(?:", ")$", "anchored-both"}, {"^(", ")$", "anchored-both"},
	{"(?:^", "$)", "anchored-both"}, {`^`, `\z`, "anchored-both"}, {"(?i)^", "$", "anchored-both-fold"},
	{"^", "", "anchored-start"}, {`\A`, "", "anchored-start"}, {"", "$", "anchored-end"}, {"", `\z`, "anchored-end"},
	{"", "", "unanchored"}, {"(?:", ")", "unanchored"},
	{"^", "$|^zzz$", "anchored-both-alternation"}, {"^", ".*$", "anchored-prefix-dotstar"},
}

func c06AnchorOne(o *hx.Out, r *hx.Rng, n int) error {
	res, in, kvs := c06AnchorResult(r, n)
	var texts []string
	term := func() (string, string) {
		kv := kvs[r.Intn(len(kvs))]
		if r.Chance(0.15) {
			kv = c06AnchorKV{[]string{"goarch", "/j", "/gomaxprocs", "pkg"}[r.Intn(4)], ""} // key possibly absent: value ""
			for _, x := range kvs {
				if x.key == kv.key {
					kv = x
				}
			}
		}
		lit, rel := c06AnchorLit(r, kv.val)
		f := c06AnchorForms[r.Intn(len(c06AnchorForms))]
		text := f.pre + c06AnchorQuote(lit) + f.post
		texts = append(texts, text)
		return kv.key + ":/" + text + "/", f.class + " x " + rel
	}
	t1, class := term()
	q := t1
	switch r.Intn(10) {
	case 0:
		q = "-" + t1
	case 1:
		t2, _ := term()
		q = t1 + " " + t2
	case 2:
		t2, _ := term()
		q = t1 + " OR " + t2
	case 3:
		// the neighbour forms of the same literal side by side
		i := strings.Index(t1, ":/")
		key, text := t1[:i], texts[0]
		core := strings.TrimSuffix(strings.TrimPrefix(text, "^"), "$")
		if _, err := regexp.Compile(core); err == nil && core != text {
			texts = append(texts, core)
			q = "(" + t1 + ") OR -" + key + ":/" + core + "/"
		}
	case 4:
		i := strings.Index(t1, ":/")
		q = t1[:i] + ":(" + t1[i+1:] + ` OR "zzz")`
	}
	c06ExtraRes = texts
	err := c06FilterOn(o, res, in, q, "anchor")
	c06ExtraRes = nil
	o.Count("class:anchor: " + class)
	return err
}

func c06AnchorFixed(o *hx.Out) error {
	o.Rule += "; anchor: regexp terms that are a LITERAL ANCHORED AT BOTH ENDS (^L$, \\AL\\z, ^(?:L)$, ^(L)$, (?:^L$), (?i)^L$, ^L$|^zzz$) and their half-anchored (^L, L$, \\AL, L\\z), unanchored (L, (?:L)) and ^L.*$ neighbours on the keys .name .fullname /k /size /gomaxprocs (explicit part and trailing -N) pkg goos .unit and absent keys, where L is the value of that key in the result (Copy / CopyLarge / MemCopy, bytes / encoding/bytes, 16 / 160 / 116, op / B / ns vs ns/op B/op), a strict prefix, suffix or middle piece of it, or a string strictly containing it; alone, negated, ANDed / ORed with a second such term, next to its unanchored form, or inside a value list; 14 fixed witnesses (.name:/^Copy$/ on CopyLarge, pkg:/^bytes$/ on encoding/bytes, /gomaxprocs:/^16$/ on -160 ...); judged by regexp.MatchString through the per-case table, which for this family is built from the regexp texts the generator wrote (compiled afresh), not from the parser under test"
	type fx struct {
		name  string
		cfg   [][2]string
		units [][2]string
		q     string
		texts []string
	}
	u1 := [][2]string{{"sec/op", "ns/op"}, {"B/op", ""}, {"op", ""}}
	cases := []fx{
		{"CopyLarge/k=160-160", [][2]string{{"pkg", "encoding/bytes"}}, u1, ".name:/^Copy$/", []string{"^Copy$"}},
		{"Copy/k=16-16", [][2]string{{"pkg", "bytes"}}, u1, ".name:/^Copy$/", []string{"^Copy$"}},
		{"CopyLarge", [][2]string{{"pkg", "encoding/bytes"}}, u1, "pkg:/^bytes$/", []string{"^bytes$"}},
		{"CopyLarge", [][2]string{{"pkg", "encoding/bytes"}}, u1, "pkg:/bytes$/ -pkg:/^bytes/", []string{"bytes$", "^bytes"}},
		{"Copy-160", nil, u1, "/gomaxprocs:/^16$/", []string{"^16$"}},
		{"Copy-16", nil, u1, "/gomaxprocs:/^16$/", []string{"^16$"}},
		{"Copy/gomaxprocs=160", nil, u1, "/gomaxprocs:/^16$/ OR /gomaxprocs:/^60$/", []string{"^16$", "^60$"}},
		{"foobar", nil, u1, `.name:/\Afoo\z/`, []string{`\Afoo\z`}},
		{"xfoo", nil, u1, `.fullname:/^(?:foo)$/`, []string{`^(?:foo)$`}},
		{"foo", nil, u1, `.fullname:/^(?:foo)$/ .name:/\Afoo\z/`, []string{`^(?:foo)$`, `\Afoo\z`}},
		{"X", nil, u1, ".unit:/^op$/", []string{"^op$"}},
		{"X", nil, u1, ".unit:/^ns$/ OR .unit:/^B$/", []string{"^ns$", "^B$"}},
		{"X", nil, u1, "-.unit:/^sec$/", []string{"^sec$"}},
		{"X/k=116", [][2]string{{"goos", "gnulinux"}}, u1, "/k:/^16$/ OR goos:/^linux$/ OR /k:/^11$/", []string{"^16$", "^linux$", "^11$"}},
	}
	for _, c := range cases {
		res := &benchfmt.Result{Name: benchfmt.Name(c.name), Iters: 1}
		in := c06Input{Name: c.name}
		for _, kv := range c.cfg {
			res.SetConfig(kv[0], kv[1])
			in.Config = append(in.Config, [3]string{kv[0], kv[1], "file"})
		}
		for i, u := range c.units {
			res.Values = append(res.Values, benchfmt.Value{Value: float64(i), Unit: u[0], OrigValue: float64(i), OrigUnit: u[1]})
			in.Units = append(in.Units, u)
		}
		c06ExtraRes = c.texts
		err := c06FilterOn(o, res, in, c.q, "anchor")
		c06ExtraRes = nil
		if err != nil {
			return err
		}
		o.Count("class:anchor: fixed")
	}
	return nil
}
