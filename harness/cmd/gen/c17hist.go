package main

import (
	"bytes"
	"fmt"
	"strings"

	"golang.org/x/perf/benchstat"
	"verifharness/internal/hx"
)

// Histories for C17: ONE long-lived benchstat.Collection that reports more than
// once.  A history is a list of stages; every stage
//
//	adds zero or more configurations (AddConfig / AddFile / AddResults),
//	calls Tables()                         -> collection state and tables observed,
//	applies FormatText / FormatCSV / FormatHTML to those tables in some order
//	                                       -> text and CSV parsed back,
//	                                          collection state and the same tables observed AGAIN.
//
// Configuration names mostly share a directory prefix (runs/a.txt, runs/b.txt,
// runs/c.txt, ...: toCSV trims it for three or more configurations), later
// stages add further files, sometimes under a name that exists already (more
// values for statistics that were computed before), or nothing at all
// (Tables() twice in a row).  Every Tables() result is judged against the
// records added so far; formatting must leave collection and tables alone.

type c17HistStage struct {
	Add     []c17Config `json:"add"`     // configurations added before this Tables() call
	Formats []string    `json:"formats"` // text, csv, csv-other-norange, html: applied to this call's tables, in order
}

type c17HistInput struct {
	Kind    string         `json:"kind"` // history
	Test    string         `json:"test"`
	Alpha   float64        `json:"alpha"`
	AlphaS  string         `json:"alpha_text"`
	SplitBy []string       `json:"splitby"`
	Order   string         `json:"order"`
	GeoMean bool           `json:"geomean"`
	NoRange bool           `json:"norange"`
	Stages  []c17HistStage `json:"stages"`
}

func c17SafeTables(c *benchstat.Collection) (tables []*benchstat.Table, panicked bool) {
	defer func() {
		if r := recover(); r != nil {
			panicked = true
		}
	}()
	return c.Tables(), false
}

func c17HistOne(o *hx.Out, in c17HistInput) error {
	base := c17Input{Test: in.Test, Alpha: in.Alpha, AlphaS: in.AlphaS, SplitBy: in.SplitBy, Order: in.Order,
		GeoMean: in.GeoMean, NoRange: in.NoRange}
	c := &benchstat.Collection{Alpha: in.Alpha, AddGeoMean: in.GeoMean, SplitBy: in.SplitBy,
		DeltaTest: c17Test(in.Test), Order: c17Order(in.Order)}
	ord := hx.L()
	if in.Order != "nil" {
		ord = hx.L(c17OrderSx(in.Order))
	}
	opts := hx.L(hx.F64(in.Alpha), hx.SList(in.SplitBy), ord, hx.Bool(in.GeoMean), hx.Bool(in.NoRange))
	noOracle := hx.L(hx.L(), hx.L(), hx.L())

	var stages []hx.Sx
	calls, anyTable, addedAfterReport, sameNameAgain := 0, false, false, false
	overflow := false
	seenNames := map[string]bool{}
	for _, st := range in.Stages {
		var added []hx.Sx
		for _, cf := range st.Add {
			sx, err := c17AddConfig(c, cf, in.SplitBy)
			if err != nil {
				return err
			}
			added = append(added, sx)
			if calls > 0 {
				addedAfterReport = true
				if seenNames[cf.Name] {
					sameNameAgain = true
				}
			}
			seenNames[cf.Name] = true
		}
		var kinds []hx.Sx
		for _, f := range st.Formats {
			kinds = append(kinds, hx.I(map[string]int{"text": 0, "csv": 1, "csv-other-norange": 1, "html": 2}[f]))
		}
		tables, panicked := c17SafeTables(c)
		if panicked {
			o.Count("panic")
			stages = append(stages, hx.L(hx.List(added), noOracle, hx.List(kinds), hx.L(hx.I(1)), hx.L()))
			break
		}
		calls++
		overflow = overflow || c17AnyOverflow(c)
		orc, _ := c17Oracles(o, base, c, tables)
		collSx, tsx := c17CollSx(c), c17TablesSx(tables)
		if len(tables) > 0 {
			anyTable = true
		}
		if calls > 1 && len(c.Configs) == 2 && len(tables) > 0 {
			o.Count("hist_delta_table_on_later_call")
		}
		if len(st.Add) == 0 && calls > 1 {
			o.Count("hist_tables_again_without_add")
		}

		// the Format calls, in the order the input says
		textOK, textLines, csvOK, csvLines := true, hx.L(), true, hx.L()
		fpanic := false
		func() {
			defer func() {
				if r := recover(); r != nil {
					fpanic = true
				}
			}()
			for _, f := range st.Formats {
				switch f {
				case "text":
					textOK, textLines = c17TextSx(tables)
				case "csv":
					csvOK, csvLines = c17CSVSx(tables, in.NoRange)
				case "csv-other-norange":
					c17CSVSx(tables, !in.NoRange)
				case "html":
					var hb bytes.Buffer
					benchstat.FormatHTML(&hb, tables)
				}
			}
		}()
		if fpanic {
			o.Count("panic")
			stages = append(stages, hx.L(hx.List(added), noOracle, hx.List(kinds), hx.L(hx.I(1)), hx.L()))
			break
		}
		if len(c.Configs) >= 3 && len(tables) > 0 {
			o.Count("hist_csv_of_3+_configs")
			if c17SharedDir(c.Configs) {
				o.Count("hist_csv_of_3+_configs_sharing_a_directory")
			}
		}
		fmtSx := hx.L(hx.Bool(textOK), textLines, hx.Bool(csvOK), csvLines)
		obs := hx.L(hx.I(0), collSx, tsx, fmtSx)
		post := hx.L(c17CollSx(c), c17TablesSx(tables))
		stages = append(stages, hx.L(hx.List(added), orc, hx.List(kinds), obs, post))
	}

	o.Count("stream=history")
	o.Count(fmt.Sprintf("hist_tables_calls=%d", calls))
	o.Count(fmt.Sprintf("hist_configs=%d", min(len(c.Configs), 6)))
	o.Count("hist_test=" + in.Test)
	if addedAfterReport {
		o.Count("hist_add_after_a_report")
	}
	if sameNameAgain {
		o.Count("hist_more_values_for_reported_statistics")
	}
	var tags []string
	if calls >= 2 {
		tags = append(tags, "c17_tables_called_again")
	}
	if overflow { // some report of the history was made on a sample the finding's mechanism hits
		tags = append(tags, "C17_binary64_overflow")
		o.Count("tag=C17_binary64_overflow")
	}
	o.Add(hx.L(hx.S("hist"), opts, hx.List(stages)), in, fmt.Sprintf("%v", in), anyTable, tags...)
	return nil
}

// c17SharedDir: at least two names, all with one common prefix ending in '/'.
func c17SharedDir(names []string) bool {
	if len(names) < 2 {
		return false
	}
	i := strings.LastIndex(names[0], "/")
	if i < 0 {
		return false
	}
	for _, n := range names[1:] {
		if !strings.HasPrefix(n, names[0][:i+1]) {
			return false
		}
	}
	return true
}

func c17HistNames(r *hx.Rng, total int) []string {
	dir := []string{"runs/", "runs/", "out/x/", "/tmp/bench/", "a/", "résultats/"}[r.Intn(6)]
	leaf := []string{"a.txt", "b.txt", "c.txt", "d.txt", "e.txt", "f.txt"}
	names := make([]string, total)
	style := r.Intn(10)
	for i := range names {
		switch style {
		default: // every name in one directory
			names[i] = dir + leaf[i]
		case 6: // one name elsewhere: nothing to trim
			names[i] = dir + leaf[i]
			if i == total-1 {
				names[i] = []string{"other/z.txt", "plain", "z"}[r.Intn(3)]
			}
		case 7: // no directories
			names[i] = []string{"old", "new", "third", "fourth", "fifth", "sixth"}[i]
		case 8: // common bytes beyond the separator
			names[i] = dir + "bench-" + leaf[i]
		case 9: // nested: common directory above differing ones
			names[i] = dir + []string{"1/", "1/", "2/", "2/", "3/", "3/"}[i] + leaf[i]
		}
	}
	if total >= 3 && r.Chance(0.4) { // a later file under a name that exists already
		j := r.Range(1, total-1)
		names[j] = names[r.Intn(j)]
	}
	return names
}

func c17History(r *hx.Rng) c17HistInput { return c17HistoryOf(r, false) }

// c17HistoryOf: collide = the configurations come from the collision stream
// (c17Collide: groups extending one another, sub-benchmarks colliding with them)
func c17HistoryOf(r *hx.Rng, collide bool) c17HistInput {
	total := []int{2, 3, 3, 3, 4, 4, 5, 6}[r.Intn(8)]
	names := c17HistNames(r, total)
	var col c17Input
	if collide {
		col = c17Collide(r.Split(), names)
	} else {
		col = c17CollectionN(r.Split(), false, names)
	}
	in := c17HistInput{Kind: "history", Test: col.Test, Alpha: col.Alpha, AlphaS: col.AlphaS, SplitBy: col.SplitBy,
		Order: col.Order, GeoMean: col.GeoMean, NoRange: col.NoRange}
	nst := []int{1, 2, 2, 2, 3, 3, 4}[r.Intn(7)]
	// configurations of the first report: mostly 2 or 3
	first := []int{1, 2, 2, 2, 3, 3, 3, total, total}[r.Intn(9)]
	if first > total || nst == 1 {
		first = total
	}
	cut := make([]int, nst) // number of configurations added by each stage
	cut[0] = first
	for left := total - first; left > 0; left-- {
		cut[1+r.Intn(nst-1)]++
	}
	k := 0
	for s := 0; s < nst; s++ {
		st := c17HistStage{Add: append([]c17Config{}, col.Configs[k:k+cut[s]]...)}
		k += cut[s]
		fs := []string{"text", "csv"}
		if r.Chance(0.6) {
			fs = append(fs, "html")
		}
		if r.Chance(0.2) {
			fs = append(fs, []string{"csv", "text", "csv-other-norange"}[r.Intn(3)])
		}
		for i := len(fs) - 1; i > 0; i-- {
			j := r.Intn(i + 1)
			fs[i], fs[j] = fs[j], fs[i]
		}
		st.Formats = fs
		in.Stages = append(in.Stages, st)
	}
	return in
}

// fixed histories: the witness of the Tables()-twice defect (three values a
// side: "~ (p=0.100 n=3+3)" must not turn into "+150.00% (p=0.002 n=6+6)"),
// and three files of one directory formatted as CSV before a fourth is added.
func c17FixedHistories() []c17HistInput {
	oldT := "BenchmarkA 1 1 ns/op\nBenchmarkA 1 2 ns/op\nBenchmarkA 1 3 ns/op\n"
	newT := "BenchmarkA 1 4 ns/op\nBenchmarkA 1 5 ns/op\nBenchmarkA 1 6 ns/op\n"
	all := []string{"text", "csv", "html"}
	return []c17HistInput{
		{Kind: "history", Test: "nil", Order: "nil", SplitBy: []string{}, Stages: []c17HistStage{
			{Add: []c17Config{{Name: "old", Mode: "text", Text: oldT}, {Name: "new", Mode: "text", Text: newT}}, Formats: all},
			{Add: []c17Config{}, Formats: all}}},
		{Kind: "history", Test: "utest", Order: "name", GeoMean: true, SplitBy: []string{}, Stages: []c17HistStage{
			{Add: []c17Config{{Name: "runs/a.txt", Mode: "text", Text: oldT}, {Name: "runs/b.txt", Mode: "file", Text: newT},
				{Name: "runs/c.txt", Mode: "text", Text: oldT + "BenchmarkB 1 7 ns/op\n"}}, Formats: []string{"csv", "text", "html"}},
			{Add: []c17Config{{Name: "runs/d.txt", Mode: "text", Text: newT}}, Formats: all},
			{Add: []c17Config{{Name: "runs/a.txt", Mode: "text", Text: newT}}, Formats: all}}},
	}
}
