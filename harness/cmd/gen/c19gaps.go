package main

// C19, flush-boundary histories. The database layer buffers the label rows of
// an upload and flushes them whenever 990 arguments (248 labels) are pending;
// the flush can fall inside the label loop of one record. These histories make
// the LAST record of an upload the one a flush falls into (or the one a flush
// falls right in front of, or its neighbours), with the application's own label
// counts per record (three to five server labels + name labels + file labels),
// or make the last record a single one with more than 247 labels. Every label of
// that final record is then searched for, alone and together with upload:ID,
// through db.DB.Query, storage.Client.Query and both ListUploads.

import (
	"fmt"
	"strings"

	sbf "golang.org/x/perf/storage/benchfmt"
	"verifharness/internal/hx"
)

// c19LabelCounts: per stored result of the upload, in order, the number of
// label rows InsertRecord queues for it (file + server labels, name labels), as
// the legacy Reader with the server's AddLabels sees the files. Distinct
// benchmark names keep consecutive results from coalescing.
func c19LabelCounts(u c19Upload) (counts []int, last *sbf.Result) {
	for i, f := range u.Files {
		meta := sbf.Labels{"upload": "19700101.1", "upload-part": fmt.Sprintf("19700101.1/%d", i), "upload-time": "t"}
		name := f.Name
		if k := strings.LastIndexAny(name, `/\`); k >= 0 {
			name = name[k+1:]
		}
		if name != "" {
			meta["upload-file"] = name
		}
		if u.User != "" {
			meta["by"] = u.User
		}
		br := sbf.NewReader(strings.NewReader(f.Body))
		br.AddLabels(meta)
		for br.Next() {
			x := br.Result()
			counts = append(counts, len(x.Labels)+len(x.NameLabels))
			last = x
		}
	}
	return
}

// c19SimFlush replays insertLabel's counter (4 arguments per label, flush when
// 990 or more are pending) over the records: how many flushes happen before
// Commit, and for the last record the index of the label in front of which the
// last of them fell (-1: none fell inside or in front of the last record) and
// all such indices.
func c19SimFlush(counts []int) (flushes int, lastAt int, ats []int) {
	pend := 0
	lastAt = -1
	for i, n := range counts {
		for j := 0; j < n; j++ {
			if pend >= 990 {
				flushes++
				pend = 0
				if i == len(counts)-1 {
					lastAt = j
					ats = append(ats, j)
				}
			}
			pend += 4
		}
	}
	return
}

type c19BoundaryCfg struct {
	user     string
	fname    string   // form file name of the (first) file
	hdr      []string // file-label lines at the top of every file
	shape    int      // 0 BenchmarkR<i>, 1 BenchmarkR<i>-8, 2 BenchmarkR<i>/x=<i%5>-4
	twoFiles int      // > 0: the first file holds this many records, the rest go to a second file
	midLabel int      // > 0: a further file label is set after this many records
}

func (c c19BoundaryCfg) line(i int) string {
	switch c.shape {
	case 1:
		return fmt.Sprintf("BenchmarkR%d-8 1 %d ns/op", i, 2+i%3)
	case 2:
		return fmt.Sprintf("BenchmarkR%d/x=%d-4 1 %d ns/op", i, i%5, 2+i%3)
	}
	return fmt.Sprintf("BenchmarkR%d 1 %d ns/op", i, 2+i%3)
}

// upload with n distinct records
func (c c19BoundaryCfg) upload(n int) c19Upload {
	u := c19Upload{User: c.user}
	var sb strings.Builder
	start := func() {
		sb.Reset()
		for _, h := range c.hdr {
			sb.WriteString(h + "\n")
		}
	}
	start()
	second := c.fname
	if second != "" {
		second = "b.txt"
	}
	for i := 0; i < n; i++ {
		if c.twoFiles > 0 && i == c.twoFiles {
			u.Files = append(u.Files, c19File{c.fname, sb.String()})
			start()
		}
		if c.midLabel > 0 && i == c.midLabel {
			sb.WriteString("cl: 12345\n")
		}
		sb.WriteString(c.line(i) + "\n")
	}
	name := c.fname
	if len(u.Files) > 0 {
		name = second
	}
	u.Files = append(u.Files, c19File{name, sb.String()})
	return u
}

// c19FinalQueries: every label of the upload's final record as an equality
// word, alone and with upload:ID (and a few ranges); for a record with very
// many labels the ones around each flush position plus a sample.
func c19FinalQueries(r *hx.Rng, last *sbf.Result, ats []int, uploadIdx int) func(all []c19Res, ids []string) []c19Query {
	return func(all []c19Res, ids []string) []c19Query {
		if uploadIdx >= len(ids) || last == nil {
			return nil
		}
		id := ids[uploadIdx]
		name := last.NameLabels["name"]
		// the stored form of the final record (with the real ID, part and time)
		var fin *c19Res
		for i := range all {
			if all[i].Labels["upload"] == id && all[i].NameLabels["name"] == name {
				fin = &all[i]
			}
		}
		if fin == nil {
			return nil
		}
		type kv struct{ k, v string }
		var kvs []kv
		for _, k := range fin.Labels.Keys() {
			kvs = append(kvs, kv{k, fin.Labels[k]})
		}
		for _, k := range fin.NameLabels.Keys() {
			kvs = append(kvs, kv{k, fin.NameLabels[k]})
		}
		pick := map[int]bool{}
		if len(kvs) <= 14 {
			for i := range kvs {
				pick[i] = true
			}
		} else {
			// insertion order = this order: the labels next to each 248-label flush position, both ends, a sample
			for _, c := range []int{0, 1, len(kvs) - 1, len(kvs) - 2, len(kvs) - 3, len(kvs) - 4, len(kvs) - 5, len(kvs) - 6} {
				pick[c] = true
			}
			for _, p := range ats {
				for d := -2; d <= 1; d++ {
					pick[p+d] = true
				}
			}
			for j := 0; j < 6; j++ {
				pick[r.Intn(len(kvs))] = true
			}
		}
		var out []c19Query
		for i, p := range kvs {
			if !pick[i] || p.v == "" {
				continue
			}
			w := c19Quote(p.k + ":" + p.v)
			out = append(out, c19Query{w + " " + c19Quote("name:"+name), 0})
			if p.k != "upload" {
				out = append(out, c19Query{w + " upload:" + id, []int{0, 1, 0}[r.Intn(3)]})
			}
			if i%3 == 0 {
				out = append(out, c19Query{w, 0})
			}
		}
		out = append(out,
			c19Query{"upload:" + id, 0},
			c19Query{c19Quote("name:" + name), 0},
			c19Query{c19Quote("name>"+name[:len(name)-1]) + " " + c19Quote("name<"+name+"\x01"), 0},
			c19Query{"upload-part:" + fin.Labels["upload-part"], 0},
			c19Query{"upload-part>" + id + "/ upload:" + id, 0},
		)
		if f := fin.Labels["upload-file"]; f != "" {
			out = append(out, c19Query{c19Quote("upload-file:" + f), 0}, c19Query{c19Quote("upload-file:"+f) + " upload:" + id, 2})
		}
		return out
	}
}

func genC19Boundary(o *hx.Out, r *hx.Rng, tier string) error {
	n, nfat := 14, 5
	if tier == "thorough" {
		n, nfat = 120, 40
	}
	small := func() c19Upload {
		return c19Upload{User: r.Pick([]string{"", "user"}), Files: []c19File{{"s.txt", "goos: linux\nBenchmarkSmall 1 2 ns/op\nBenchmarkSmall-8 1 3 ns/op\n"}}}
	}
	for i := 0; i < n; i++ {
		cfg := c19BoundaryCfg{user: r.Pick([]string{"user", "user", "", "gopher"}), fname: r.Pick([]string{"a.txt", "a.txt", "", "dir/c.txt"}), shape: []int{0, 0, 0, 1, 2}[r.Intn(5)]}
		plain := i < 4
		if plain {
			// the application's plain case: six labels per record (by, upload, upload-file, upload-part, upload-time, name)
			cfg = c19BoundaryCfg{user: "user", fname: "a.txt"}
		}
		if !plain {
			for j := []int{0, 0, 0, 1, 2, 3}[r.Intn(6)]; j > 0; j-- {
				cfg.hdr = append(cfg.hdr, []string{"goos: linux", "goarch: amd64", "pkg: p/q"}[j-1])
			}
			if r.Chance(0.25) {
				cfg.twoFiles = r.Range(1, 30)
			}
			if r.Chance(0.2) {
				cfg.midLabel = r.Range(1, 30)
			}
		}
		// which flush falls on the last record, and the last record relative to it
		t := []int{1, 1, 1, 2, 2, 3}[r.Intn(6)]
		delta := []int{0, 0, 0, 0, -1, 1}[r.Intn(6)]
		if plain {
			// 42, 41, 43 and 83 records
			t, delta = []int{1, 1, 1, 2}[i], []int{0, -1, 1, 0}[i]
		}
		found := 0
		for k := 1; k <= 800; k++ {
			counts, _ := c19LabelCounts(cfg.upload(k))
			fl, at, _ := c19SimFlush(counts)
			if fl == t && at >= 0 {
				found = k
				break
			}
		}
		if found == 0 {
			return fmt.Errorf("boundary: no record count puts flush %d on the last record", t)
		}
		nrec := found + delta
		u := cfg.upload(nrec)
		counts, last := c19LabelCounts(u)
		fl, at, ats := c19SimFlush(counts)
		cls := "none"
		switch {
		case at == 0:
			cls = "aligned" // the flush fell in front of the last record's first label
		case at > 0:
			cls = "straddle"
		}
		o.Count("hist.boundary")
		o.Count("hist.boundary.last-record=" + cls)
		o.Count(fmt.Sprintf("hist.boundary.flushes-before-commit=%d", fl))
		o.Count(fmt.Sprintf("hist.boundary.labels-per-record=%d", counts[len(counts)-1]))
		o.Count(fmt.Sprintf("hist.boundary.records=%d", nrec))
		in := c19HistIn{Kind: "history"}
		idx := 0
		if r.Chance(0.5) {
			in.Uploads = append(in.Uploads, small())
			idx = 1
		}
		in.Uploads = append(in.Uploads, u)
		if r.Chance(0.4) {
			in.Uploads = append(in.Uploads, small())
		}
		if err := c19HistoryX(o, r, in, 6, nil, c19FinalQueries(r, last, ats, idx)); err != nil {
			return err
		}
	}
	// a final record with more than 247 labels (the flush falls inside its own label loop)
	for i := 0; i < nfat; i++ {
		var sb strings.Builder
		user := r.Pick([]string{"user", ""})
		fname := r.Pick([]string{"a.txt", ""})
		for j := r.Intn(4); j > 0; j-- {
			fmt.Fprintf(&sb, "BenchmarkPre%d 1 2 ns/op\n", j)
		}
		nk := r.Range(245, 262)
		if i == 1 {
			nk = r.Range(490, 500)
		}
		for j := 0; j < nk; j++ {
			fmt.Fprintf(&sb, "k%03d: v%d\n", j, j%7)
		}
		sb.WriteString(r.Pick([]string{"BenchmarkFat 1 2 ns/op\n", "BenchmarkFat-8 1 2 ns/op\n", "BenchmarkFat/z=1 1 2 ns/op\n"}))
		u := c19Upload{User: user, Files: []c19File{{fname, sb.String()}}}
		counts, last := c19LabelCounts(u)
		fl, at, ats := c19SimFlush(counts)
		cls := "none"
		switch {
		case at == 0:
			cls = "aligned"
		case at > 0:
			cls = "straddle"
		}
		o.Count("hist.boundary.fat")
		o.Count("hist.boundary.fat.last-record=" + cls)
		o.Count(fmt.Sprintf("hist.boundary.fat.flushes-before-commit=%d", fl))
		if counts[len(counts)-1] > 247 {
			o.Count("hist.boundary.fat.over-247-labels")
		}
		in := c19HistIn{Kind: "history"}
		idx := 0
		if r.Chance(0.5) {
			in.Uploads = append(in.Uploads, small())
			idx = 1
		}
		in.Uploads = append(in.Uploads, u)
		if err := c19HistoryX(o, r, in, 3, nil, c19FinalQueries(r, last, ats, idx)); err != nil {
			return err
		}
	}
	return nil
}
