package main

// C13 — summaries and comparisons of golang.org/x/perf/benchmath honour their
// statistical contracts. Drives NewSample, AssumeNothing/AssumeExact/
// AssumeNormal (Summary, Compare), Comparison.String/FormatDelta and
// Summary.PctRangeString of /repo on generated samples and records inputs,
// observed outputs, the oracle values of the library calls the model does not
// compute (go-moremath normal approximations, t quantiles, mathx.Choose above
// 20, the p-value of a direct call of the dependency's test on the same values)
// and the results of metamorphic variants (swap, permute, rescale). The model
// follows benchmath WITH the repair hooks/fix_c13_cap_p_at_one.diff.

import (
	"errors"
	"fmt"
	"math"
	"math/big"
	"regexp"
	"sort"
	"strconv"

	"github.com/aclements/go-moremath/mathx"
	"github.com/aclements/go-moremath/stats"
	"golang.org/x/perf/benchmath"
	"verifharness/internal/hx"
)

func init() { gens["C13"] = genC13 }

const c13Tag = "C13_moremath_tied_exact_path"
const c13TagOverflow = "C13_normal_compare_overflow_panic"

// c13WelchOverflows: the Welch computation of go-moremath leaves the floats for
// these samples: (variance/n)^2 is +Inf, or the degrees of freedom come out
// NaN/Inf (Inf/Inf after overflow, 0/0 after underflow). Input predicate of
// the known finding C13_normal_compare_overflow_panic.
func c13WelchOverflows(x1, x2 []float64) bool {
	n1, n2 := float64(len(x1)), float64(len(x2))
	if n1 <= 1 || n2 <= 1 {
		return false
	}
	s1 := append([]float64(nil), x1...)
	s2 := append([]float64(nil), x2...)
	sort.Float64s(s1)
	sort.Float64s(s2)
	v1, v2 := stats.Variance(s1), stats.Variance(s2)
	if v1 == 0 && v2 == 0 {
		return false
	}
	a, b := v1/n1, v2/n2
	dof := math.Pow(a+b, 2) / (math.Pow(a, 2)/(n1-1) + math.Pow(b, 2)/(n2-1))
	return math.IsInf(math.Pow(a, 2), 0) || math.IsInf(math.Pow(b, 2), 0) || math.IsInf(math.Pow(a+b, 2), 0) ||
		math.IsNaN(dof) || math.IsInf(dof, 0)
}

type c13Input struct {
	Kind       string   `json:"kind"`
	Assumption string   `json:"assumption,omitempty"`
	Values     []string `json:"values,omitempty"`
	Values2    []string `json:"values2,omitempty"`
	Confidence string   `json:"confidence,omitempty"`
	Alpha      string   `json:"alpha,omitempty"`
	Floats     []string `json:"floats,omitempty"`
	Ints       []int    `json:"ints,omitempty"`
	Observed   string   `json:"observed,omitempty"`
}

func c13f(x float64) string { return strconv.FormatFloat(x, 'g', -1, 64) }
func c13fs(xs []float64) []string {
	r := make([]string, len(xs))
	for i, x := range xs {
		r[i] = c13f(x)
	}
	return r
}
func c13FL(xs []float64) hx.Sx {
	it := make([]hx.Sx, len(xs))
	for i, x := range xs {
		it[i] = hx.F64(x)
	}
	return hx.List(it)
}

var c13Assumptions = []benchmath.Assumption{benchmath.AssumeNothing, benchmath.AssumeExact, benchmath.AssumeNormal}
var c13AssumptionNames = []string{"nothing", "exact", "normal"}

var (
	c13reCI    = regexp.MustCompile(`^need (>=|>) (\d+) samples for confidence interval at level (.*)$`)
	c13reAlpha = regexp.MustCompile(`^need (>=|>) (\d+) samples to detect a difference at alpha level (.*)$`)
	c13reRange = regexp.MustCompile(`^exact distribution expected, but values range from (.*) to (.*)$`)
)

// warning -> (kind ge n textok): 1 need-CI, 2 need-alpha, 3 range, 4 ErrSampleSize,
// 5 ErrSamplesEqual, 6 ErrZeroVariance, 9 unrecognised. textok: the numbers
// printed in the text parse back to the given floats.
func c13Warn(err error, a, b float64) hx.Sx {
	geb := func(op string) hx.Sx { return hx.Bool(op == ">=") }
	same := func(s string, x float64) bool {
		v, e := strconv.ParseFloat(s, 64)
		return e == nil && (v == x || (v != v && x != x)) && math.Signbit(v) == math.Signbit(x)
	}
	switch {
	case errors.Is(err, stats.ErrSampleSize):
		return hx.L(hx.I(4), hx.I(0), hx.I(0), hx.I(1))
	case errors.Is(err, stats.ErrSamplesEqual):
		return hx.L(hx.I(5), hx.I(0), hx.I(0), hx.I(1))
	case errors.Is(err, stats.ErrZeroVariance):
		return hx.L(hx.I(6), hx.I(0), hx.I(0), hx.I(1))
	}
	msg := err.Error()
	if m := c13reCI.FindStringSubmatch(msg); m != nil {
		n, _ := strconv.Atoi(m[2])
		return hx.L(hx.I(1), geb(m[1]), hx.I(n), hx.Bool(same(m[3], a)))
	}
	if m := c13reAlpha.FindStringSubmatch(msg); m != nil {
		n, _ := strconv.Atoi(m[2])
		return hx.L(hx.I(2), geb(m[1]), hx.I(n), hx.Bool(same(m[3], a)))
	}
	if m := c13reRange.FindStringSubmatch(msg); m != nil {
		return hx.L(hx.I(3), hx.I(0), hx.I(0), hx.Bool(same(m[1], a) && same(m[2], b)))
	}
	return hx.L(hx.I(9), hx.I(0), hx.I(0), hx.I(0))
}

func c13Warns(ws []error, a, b float64) hx.Sx {
	it := make([]hx.Sx, len(ws))
	for i, w := range ws {
		it[i] = c13Warn(w, a, b)
	}
	return hx.List(it)
}

// ---------- value generators ----------

func c13Values(r *hx.Rng, n int, style int, e int) []float64 {
	xs := make([]float64, n)
	switch style {
	case 0: // untied, positive, benchmark-like
		base := 100 + 900*r.Float()
		for i := range xs {
			xs[i] = base * (1 + 0.1*(r.Float()-0.5))
		}
	case 1: // heavily tied small integers
		k := r.Range(1, 4)
		off := float64(r.Range(-2, 3))
		for i := range xs {
			xs[i] = off + float64(r.Intn(k+1))
		}
	case 2: // mixed sign with zeros, some ties
		for i := range xs {
			switch r.Intn(5) {
			case 0:
				xs[i] = 0
			case 1:
				xs[i] = -float64(r.Range(1, 6)) / 4
			default:
				xs[i] = float64(r.Range(-8, 8)) + float64(r.Intn(4))/4
			}
		}
	case 3: // constant
		c := []float64{0, 1, -3.5, 1e-9, 12345.678}[r.Intn(5)]
		for i := range xs {
			xs[i] = c
		}
	case 4: // wide magnitudes, untied mostly
		for i := range xs {
			xs[i] = math.Ldexp(1+r.Float(), e+r.Range(-3, 3))
			if r.Chance(0.2) {
				xs[i] = -xs[i]
			}
		}
	case 5: // few ties among otherwise distinct values
		for i := range xs {
			xs[i] = float64(r.Range(1, 3*n+2))
		}
	default: // almost constant: one or two outliers
		for i := range xs {
			xs[i] = 7
		}
		xs[r.Intn(n)] = 7 + float64(r.Range(-2, 2))
		if n > 2 && r.Bool() {
			xs[r.Intn(n)] = 7.5
		}
	}
	// a negative zero now and then, but never next to a positive zero:
	// sort.Float64s is unstable, so their relative order is unspecified.
	if r.Chance(0.03) {
		for i := range xs {
			if xs[i] == 0 {
				xs[i] = math.Copysign(0, -1)
			}
		}
	}
	return xs
}

func c13Size(r *hx.Rng) int {
	switch r.Intn(10) {
	case 0:
		return 1
	case 1, 2, 3:
		return r.Range(2, 6)
	case 4, 5, 6:
		return r.Range(5, 12)
	case 7:
		return r.Range(18, 32)
	case 8:
		return r.Range(24, 52)
	default:
		return r.Range(1, 70)
	}
}

var c13Confs = []float64{0.5, 0.9, 0.95, 0.99, 0.999}
var c13Alphas = []float64{0, 0.01, 0.05, 0.5, 1}

func c13Conf(r *hx.Rng) float64 {
	switch r.Intn(12) {
	case 0, 1, 2:
		return r.Float()*0.998 + 0.001
	case 3:
		return 1 - math.Ldexp(1, -r.Range(2, 52)) // just below the coverage steps 1-2^(1-n)
	case 4:
		return 1 - math.Ldexp(1, -r.Range(2, 30)) - math.Ldexp(1, -53)
	default:
		return c13Confs[r.Intn(len(c13Confs))]
	}
}

var c13MinP = []float64{1, 0.3333333333333333, 0.1, 0.02857142857142857, 0.007936507936507936,
	0.0021645021645021645, 0.0005827505827505828, 0.0001554001554001554, 4.113533525298231e-05}

func c13Alpha(r *hx.Rng) float64 {
	switch r.Intn(10) {
	case 0:
		return r.Float()
	case 1:
		return r.Float() * 0.05
	case 2:
		return c13MinP[r.Intn(len(c13MinP))]
	case 3:
		return math.Nextafter(c13MinP[r.Intn(len(c13MinP))], 0)
	default:
		return c13Alphas[r.Intn(len(c13Alphas))]
	}
}

// ---------- quantile CI oracle / witness ----------

func c13QCI(n int, conf float64) hx.Sx {
	ci := stats.QuantileCI(n, 0.5, conf)
	return hx.L(hx.I(n), hx.I(ci.LoOrder), hx.I(ci.HiOrder), hx.F64(ci.Confidence))
}

func c13ChooseRow(n int) hx.Sx {
	row := make([]hx.Sx, n+1)
	for k := 0; k <= n; k++ {
		row[k] = hx.F64(mathx.Choose(n, k))
	}
	return hx.L(hx.I(n), hx.List(row))
}

// ---------- summary cases ----------

func c13Summary(o *hx.Out, ai int, vals []float64, conf float64) {
	a := c13Assumptions[ai]
	in := c13Input{Kind: "summary", Assumption: c13AssumptionNames[ai], Values: c13fs(vals), Confidence: c13f(conf)}
	orig := append([]float64(nil), vals...)
	var s *benchmath.Sample
	var sum benchmath.Summary
	var pct string
	panicked := false
	func() {
		defer func() {
			if e := recover(); e != nil {
				panicked = true
			}
		}()
		thr := benchmath.DefaultThresholds
		s = benchmath.NewSample(append([]float64(nil), vals...), &thr)
		sum = a.Summary(s, conf)
		pct = sum.PctRangeString()
	}()
	if panicked {
		o.Count("summary panic")
		o.Add(hx.L(hx.I(1), hx.I(ai), c13FL(orig), hx.F64(conf), hx.L(hx.I(1))), in, "panic", false)
		return
	}
	n := len(vals)
	var first, last float64
	if n > 0 {
		first, last = s.Values[0], s.Values[n-1]
	}
	var warnT hx.Sx
	if ai == 1 {
		warnT = c13Warns(sum.Warnings, first, last)
	} else {
		warnT = c13Warns(sum.Warnings, conf, 0)
	}
	// oracles
	var qci, choose []hx.Sx
	var tinv hx.Sx = hx.L()
	switch ai {
	case 0:
		qci = append(qci, c13QCI(n, conf))
		if n > 20 && n <= 30 {
			choose = append(choose, c13ChooseRow(n))
		}
		if len(sum.Warnings) > 0 {
			for m := 2; m <= 50; m++ {
				if m != n {
					qci = append(qci, c13QCI(m, conf))
				}
				if m > 20 && m <= 30 && m != n {
					choose = append(choose, c13ChooseRow(m))
				}
			}
		}
	case 2:
		if conf > 0 && conf < 1 && n > 1 {
			alpha := (1 - conf) / 2
			t := stats.InvCDF(stats.TDist{V: float64(n - 1)})(alpha)
			tinv = hx.L(hx.F64(alpha), hx.F64(t))
		}
	}
	c := hx.L(hx.I(1), hx.I(ai), c13FL(orig), hx.F64(conf),
		hx.L(hx.I(0), c13FL(s.Values), hx.F64(sum.Center), hx.F64(sum.Lo), hx.F64(sum.Hi), hx.F64(sum.Confidence), warnT, hx.S(pct)),
		hx.L(hx.List(qci), hx.List(choose), tinv))
	in.Observed = fmt.Sprintf("center=%v lo=%v hi=%v conf=%v warnings=%v pct=%s", sum.Center, sum.Lo, sum.Hi, sum.Confidence, sum.Warnings, pct)
	o.Count("summary " + c13AssumptionNames[ai])
	o.Count(fmt.Sprintf("summary n=%s", c13Bucket(n)))
	if len(sum.Warnings) > 0 {
		o.Count("summary with warning")
	}
	o.Count("pct " + c13PctClass(pct))
	o.Add(c, in, fmt.Sprintf("S%d/%v/%v", ai, in.Values, conf), n > 1)
}

func c13Bucket(n int) string {
	switch {
	case n <= 1:
		return "1"
	case n <= 5:
		return "2-5"
	case n <= 12:
		return "6-12"
	case n <= 20:
		return "13-20"
	case n <= 30:
		return "21-30"
	case n <= 50:
		return "31-50"
	}
	return "51-70"
}

func c13PctClass(s string) string {
	switch s {
	case "∞", "?", "0%":
		return s
	}
	return "N%"
}

// ---------- exact permutation p (harness side, for tagging the known finding) ----------

// c13ExactP returns the exact two-sided permutation p-value
// min(1, 2*min(P(U<=u), P(U>=u))) of the observed U of x1 among all ways of
// choosing len(x1) of the pooled values, and whether the pooled values have ties.
func c13ExactP(x1, x2 []float64) (*big.Rat, bool) {
	type lv struct {
		v     float64
		first bool
	}
	n1, n2 := len(x1), len(x2)
	var pool []lv
	for _, v := range x1 {
		pool = append(pool, lv{v, true})
	}
	for _, v := range x2 {
		pool = append(pool, lv{v, false})
	}
	sort.SliceStable(pool, func(i, j int) bool { return pool[i].v < pool[j].v })
	var T, R []int
	for i := 0; i < len(pool); {
		j, r := i, 0
		for j < len(pool) && pool[j].v == pool[i].v {
			if pool[j].first {
				r++
			}
			j++
		}
		T = append(T, j-i)
		R = append(R, r)
		i = j
	}
	ties := len(T) < len(pool)
	maxU := 2 * n1 * n2
	// dist[n][u]: number of ways (weighted by binomials) to choose n firsts among the groups so far with 2U = u
	dist := make([][]uint64, n1+1)
	for i := range dist {
		dist[i] = make([]uint64, maxU+1)
	}
	dist[0][0] = 1
	S, obsU, nprev := 0, 0, 0
	for k, t := range T {
		nd := make([][]uint64, n1+1)
		for i := range nd {
			nd[i] = make([]uint64, maxU+1)
		}
		for n := 0; n <= n1 && n <= S; n++ {
			for u := 0; u <= maxU; u++ {
				c := dist[n][u]
				if c == 0 {
					continue
				}
				for r := 0; r <= t && n+r <= n1; r++ {
					du := r * (2*(S-n) + (t - r))
					if u+du > maxU {
						continue
					}
					nd[n+r][u+du] += c * uint64(mathxChooseInt(t, r))
				}
			}
		}
		obsU += R[k] * (2*(S-nprev) + (t - R[k]))
		nprev += R[k]
		S += t
		dist = nd
	}
	var le, ge, tot uint64
	for u, c := range dist[n1] {
		tot += c
		if u <= obsU {
			le += c
		}
		if u >= obsU {
			ge += c
		}
	}
	m := le
	if ge < m {
		m = ge
	}
	p := new(big.Rat).SetFrac(new(big.Int).SetUint64(m), new(big.Int).SetUint64(tot))
	p.Mul(p, big.NewRat(2, 1))
	if p.Cmp(big.NewRat(1, 1)) > 0 {
		p.SetInt64(1)
	}
	return p, ties
}

func mathxChooseInt(n, k int) int64 {
	r := new(big.Int).Binomial(int64(n), int64(k))
	return r.Int64()
}

// differs: |p - spec| > 1e-9 * spec in exact arithmetic (NaN and infinities differ)
func c13Differs(p float64, spec *big.Rat) bool {
	if math.IsNaN(p) || math.IsInf(p, 0) {
		return true
	}
	d := new(big.Rat).SetFloat64(p)
	d.Sub(d, spec)
	d.Abs(d)
	return d.Cmp(new(big.Rat).Mul(big.NewRat(1, 1000000000), spec)) > 0
}

// c13DirectU: the p-value of a direct call of the dependency's U-test (not
// through benchmath); ok = false when it fails or panics.
func c13DirectU(x1, x2 []float64) (p float64, ok bool) {
	defer func() {
		if e := recover(); e != nil {
			ok = false
		}
	}()
	a := append([]float64(nil), x1...)
	b := append([]float64(nil), x2...)
	sort.Float64s(a)
	sort.Float64s(b)
	res, err := stats.MannWhitneyUTest(a, b, stats.LocationDiffers)
	if err != nil {
		return 0, false
	}
	return res.P, true
}

// c13DirectWelch: the same for Welch's t-test.
func c13DirectWelch(x1, x2 []float64) (p float64, ok bool) {
	defer func() {
		if e := recover(); e != nil {
			ok = false
		}
	}()
	a := append([]float64(nil), x1...)
	b := append([]float64(nil), x2...)
	sort.Float64s(a)
	sort.Float64s(b)
	res, err := stats.TwoSampleWelchTTest(stats.Sample{Xs: a, Sorted: true}, stats.Sample{Xs: b, Sorted: true}, stats.LocationDiffers)
	if err != nil {
		return 0, false
	}
	return res.P, true
}

// c13TiedPathDeviates: input predicate of the known finding
// C13_moremath_tied_exact_path, decided by running the mechanism itself: the
// pooled values have ties, both sizes are within go-moremath's tied exact limit
// (25), and the dependency's U-test (called directly, its result capped at 1 as
// benchmath's repaired Compare does) returns for (x1, x2) or for (x2, x1) a
// p-value that is not the exact permutation p-value of the samples.
func c13TiedPathDeviates(x1, x2 []float64) bool {
	if len(x1) == 0 || len(x2) == 0 || len(x1) > 25 || len(x2) > 25 {
		return false
	}
	spec, ties := c13ExactP(x1, x2)
	if !ties {
		return false
	}
	for _, pr := range [][2][]float64{{x1, x2}, {x2, x1}} {
		if p, ok := c13DirectU(pr[0], pr[1]); ok && c13Differs(math.Min(p, 1), spec) {
			return true
		}
	}
	return false
}

// ---------- comparison cases ----------

type c13Cmp struct {
	c        benchmath.Comparison
	panicked bool
}

func c13Compare(a benchmath.Assumption, x1, x2 []float64, alpha float64) (res c13Cmp, s1, s2 *benchmath.Sample) {
	defer func() {
		if e := recover(); e != nil {
			res.panicked = true
		}
	}()
	thr := benchmath.Thresholds{CompareAlpha: alpha}
	s1 = benchmath.NewSample(append([]float64(nil), x1...), &thr)
	// the second sample deliberately carries a different threshold: the
	// comparison must use the first sample's
	thr2 := benchmath.Thresholds{CompareAlpha: 0.75}
	s2 = benchmath.NewSample(append([]float64(nil), x2...), &thr2)
	res.c = a.Compare(s1, s2)
	return
}

func c13Shuffle(r *hx.Rng, xs []float64) []float64 {
	ys := append([]float64(nil), xs...)
	for i := len(ys) - 1; i > 0; i-- {
		j := r.Intn(i + 1)
		ys[i], ys[j] = ys[j], ys[i]
	}
	return ys
}

func c13Scale(xs []float64, f float64) []float64 {
	ys := make([]float64, len(xs))
	for i, x := range xs {
		ys[i] = x * f
	}
	return ys
}

// strictly order preserving on the pooled values, no overflow to Inf, no new zeros
func c13ScaleKeepsOrder(x1, x2, y1, y2 []float64) bool {
	px := append(append([]float64(nil), x1...), x2...)
	py := append(append([]float64(nil), y1...), y2...)
	for i := range px {
		if math.IsInf(py[i], 0) || (py[i] == 0) != (px[i] == 0) {
			return false
		}
		for j := range px {
			if (px[i] < px[j]) != (py[i] < py[j]) {
				return false
			}
		}
	}
	return true
}

func c13CompareCase(o *hx.Out, r *hx.Rng, ai int, x1, x2 []float64, alpha float64) {
	a := c13Assumptions[ai]
	in := c13Input{Kind: "compare", Assumption: c13AssumptionNames[ai], Values: c13fs(x1), Values2: c13fs(x2), Alpha: c13f(alpha)}
	res, s1, s2 := c13Compare(a, x1, x2, alpha)
	var tags []string
	if ai == 2 && c13WelchOverflows(x1, x2) {
		tags = append(tags, c13TagOverflow)
		o.Count("tagged " + c13TagOverflow)
	}
	if res.panicked {
		o.Count("compare panic")
		in.Observed = "PANIC"
		o.Add(hx.L(hx.I(2), hx.I(ai), c13FL(x1), c13FL(x2), hx.F64(alpha), hx.L(hx.I(1))), in,
			fmt.Sprintf("C%d/%v/%v/%v", ai, in.Values, in.Values2, alpha), true, tags...)
		return
	}
	c := res.c
	// deltas: the centres of the two samples under the same assumption, and fixed probes
	type pair struct{ old, new float64 }
	var pairs []pair
	func() {
		defer func() { recover() }()
		c1 := a.Summary(s1, 0.95).Center
		c2 := a.Summary(s2, 0.95).Center
		pairs = append(pairs, pair{c1, c2}, pair{c2, c1})
	}()
	pairs = append(pairs, pair{0, 1}, pair{2, 2}, pair{1, 1.00125}, pair{8, 9}, pair{-4, 5})
	var deltas []hx.Sx
	for _, p := range pairs {
		deltas = append(deltas, hx.L(hx.F64(p.old), hx.F64(p.new), hx.S(c.FormatDelta(p.old, p.new))))
	}
	// metamorphic variants on the implementation
	var variants []hx.Sx
	addVar := func(kind int, y1, y2 []float64, valid bool) {
		if ai == 2 && len(tags) == 0 && c13WelchOverflows(y1, y2) {
			// the rescaled input falls into the overflow finding's domain although the
			// original does not: not a statement about this input
			valid = false
		}
		v, _, _ := c13Compare(a, y1, y2, alpha)
		if v.panicked {
			variants = append(variants, hx.L(hx.I(kind), hx.F64(math.NaN()), hx.I(-1), hx.I(-1), hx.Bool(valid)))
			return
		}
		variants = append(variants, hx.L(hx.I(kind), hx.F64(v.c.P), hx.I(v.c.N1), hx.I(v.c.N2), hx.Bool(valid)))
	}
	addVar(1, x2, x1, true)
	addVar(2, c13Shuffle(r, x1), c13Shuffle(r, x2), true)
	k := r.Range(-40, 40)
	f2 := math.Ldexp(1, k)
	y1, y2 := c13Scale(x1, f2), c13Scale(x2, f2)
	addVar(3, y1, y2, c13ScaleKeepsOrder(x1, x2, y1, y2))
	z1, z2 := c13Scale(x1, 10), c13Scale(x2, 10)
	addVar(4, z1, z2, c13ScaleKeepsOrder(x1, x2, z1, z2))

	tied := false
	exact := false
	if ai == 0 && len(x1) > 0 && len(x2) > 0 && len(x1) <= 25 && len(x2) <= 25 {
		spec, ties := c13ExactP(x1, x2)
		tied, exact = ties, true
		if c13TiedPathDeviates(x1, x2) {
			tags = append(tags, c13Tag)
		}
		in.Observed = fmt.Sprintf("p=%v exact-permutation-p=%s ", c.P, spec.FloatString(17))
	}
	// oracle: the float the dependency's test returns on these values (direct call)
	var raw hx.Sx = hx.L()
	switch ai {
	case 0:
		if p, ok := c13DirectU(x1, x2); ok {
			raw = hx.L(hx.F64(p))
			if p > 1 {
				o.Count("utest raw p > 1")
			}
		}
	case 2:
		if p, ok := c13DirectWelch(x1, x2); ok {
			raw = hx.L(hx.F64(p))
		}
	}
	cs := hx.L(hx.I(2), hx.I(ai), c13FL(x1), c13FL(x2), hx.F64(alpha),
		hx.L(hx.I(0), hx.F64(c.P), hx.I(c.N1), hx.I(c.N2), hx.F64(c.Alpha), c13Warns(c.Warnings, alpha, 0), hx.S(c.String())),
		hx.List(deltas), hx.List(variants), raw)
	in.Observed += fmt.Sprintf("P=%v N1=%d N2=%d Alpha=%v warnings=%v string=%q delta=%q", c.P, c.N1, c.N2, c.Alpha, c.Warnings, c.String(), c.FormatDelta(pairs[0].old, pairs[0].new))
	o.Count("compare " + c13AssumptionNames[ai])
	if ai == 0 {
		switch {
		case exact && tied:
			o.Count("utest exact tied")
		case exact:
			o.Count("utest exact untied")
		case len(x1) <= 50 && len(x2) <= 50:
			o.Count("utest n in 26..50")
		default:
			o.Count("utest approx sizes")
		}
		if len(tags) > 0 {
			o.Count("tagged " + c13Tag)
		}
	}
	if len(c.Warnings) > 0 {
		o.Count("compare with warning")
	}
	if c.P > c.Alpha {
		o.Count("compare p>alpha")
	} else {
		o.Count("compare p<=alpha")
	}
	o.Add(cs, in, fmt.Sprintf("C%d/%v/%v/%v", ai, in.Values, in.Values2, alpha), len(x1) > 1 && len(x2) > 1, tags...)
}

// ---------- direct rendering cases over arbitrary floats ----------

var c13Special = []float64{0, math.Copysign(0, -1), 1, -1, 0.5, 2, 100, 0.05, 0.049, 0.051, 1e-320, 5e-324,
	math.MaxFloat64, -math.MaxFloat64, math.Inf(1), math.Inf(-1), math.NaN(), 0.0625, 0.1875, 0.0005, 0.9995, 0.99951,
	1.125, 1.375, 1.005, 1.015, 1.025, 8, 9, 1e15, 1e22, 123456789.125, 3, 1e-7, 0.3333333333333333, 1.5, 2.5, 0.125, 0.375}

func c13AnyFloat(r *hx.Rng) float64 {
	switch r.Intn(6) {
	case 0:
		return math.Float64frombits(r.U64())
	case 1:
		return float64(r.Range(-20, 20)) / 8
	case 2:
		return math.Ldexp(float64(r.Range(1, 4000)), -r.Range(0, 12))
	default:
		return c13Special[r.Intn(len(c13Special))]
	}
}

func c13Direct(o *hx.Out, r *hx.Rng) {
	switch r.Intn(3) {
	case 0:
		p, al, old, nw := c13AnyFloat(r), c13AnyFloat(r), c13AnyFloat(r), c13AnyFloat(r)
		if r.Chance(0.4) { // make the percentage branch likely
			p, al = 0.01, 0.05
		}
		if r.Chance(0.2) {
			nw = old
		}
		s := benchmath.Comparison{P: p, Alpha: al}.FormatDelta(old, nw)
		in := c13Input{Kind: "delta", Floats: c13fs([]float64{p, al, old, nw}), Observed: s}
		o.Count("direct delta")
		o.Count("delta class " + c13DeltaClass(s))
		o.Add(hx.L(hx.I(3), hx.F64(p), hx.F64(al), hx.F64(old), hx.F64(nw), hx.S(s)), in, fmt.Sprint("D", in.Floats), true)
	case 1:
		c, lo, hi := c13AnyFloat(r), c13AnyFloat(r), c13AnyFloat(r)
		if r.Chance(0.5) { // plausible summaries
			c = math.Abs(c)
			if c != c || math.IsInf(c, 0) {
				c = 10
			}
			lo = c * (1 - r.Float()*0.3)
			hi = c * (1 + r.Float()*0.3)
			if r.Chance(0.3) {
				c, lo, hi = -c, -hi, -lo
			}
			if r.Chance(0.2) {
				hi = c * 1.125
				lo = c
			}
		}
		s := benchmath.Summary{Center: c, Lo: lo, Hi: hi}.PctRangeString()
		in := c13Input{Kind: "pct", Floats: c13fs([]float64{c, lo, hi}), Observed: s}
		o.Count("direct pct")
		o.Count("pct " + c13PctClass(s))
		o.Add(hx.L(hx.I(4), hx.F64(c), hx.F64(lo), hx.F64(hi), hx.S(s)), in, fmt.Sprint("R", in.Floats), true)
	default:
		p := c13AnyFloat(r)
		n1, n2 := r.Range(0, 70), r.Range(0, 70)
		if r.Chance(0.4) {
			n2 = n1
		}
		if r.Chance(0.05) {
			n1 = -n1
		}
		s := benchmath.Comparison{P: p, N1: n1, N2: n2}.String()
		in := c13Input{Kind: "string", Floats: c13fs([]float64{p}), Ints: []int{n1, n2}, Observed: s}
		o.Count("direct string")
		o.Add(hx.L(hx.I(5), hx.F64(p), hx.I(n1), hx.I(n2), hx.S(s)), in, fmt.Sprint("G", in.Floats, n1, n2), true)
	}
}

func c13DeltaClass(s string) string {
	switch s {
	case "~", "?", "0.00%":
		return s
	}
	return "pct"
}

// ---------- driver ----------

func genC13(o *hx.Out, r *hx.Rng, tier string, replay string) error {
	o.Rule = "samples of 1-70 finite values in 7 styles (untied, heavily tied, mixed sign with zeros, constant, wide magnitudes 2^-300..2^300, few ties, near-constant) x confidences {0.5,0.9,0.95,0.99,0.999, random, just below 1-2^(1-n)} x alphas {0,0.01,0.05,0.5,1, random, the U-test minimum-p table values} x {nothing, exact, normal}; every comparison re-evaluated on swapped, shuffled, 2^k-scaled and 10x-scaled samples; direct FormatDelta / PctRangeString / String calls over arbitrary float64 incl. NaN, infinities, -0, subnormals and decimal rounding ties; exhaustive small tied pairs; every untied split of 1..N (N <= 6 quick, 9 thorough), balanced untied splits (exact p at or just below 1), well separated untied samples of 12-25 values (exact p down to 1.6e-14). non-trivial = samples with >= 2 values; distinct by input"
	nS, nC, nD := 900, 1500, 900
	if tier == "thorough" {
		nS, nC, nD = 12000, 20000, 12000
	}
	// the design's witness first
	c13CompareCase(o, r, 0, []float64{2}, []float64{1, 1, 1}, 0.05)
	c13CompareCase(o, r, 0, []float64{1, 1, 1}, []float64{2}, 0.05)
	c13CompareCase(o, r, 2, []float64{1, 2, 3, 4}, []float64{11, 12, 13, 14}, 0.05)
	// exhaustive small pairs over a 3-letter alphabet
	maxN := 3
	if tier == "thorough" {
		maxN = 4
	}
	var all [][]float64
	var rec func(cur []float64, start float64)
	rec = func(cur []float64, start float64) {
		if len(cur) > 0 {
			all = append(all, append([]float64(nil), cur...))
		}
		if len(cur) == maxN {
			return
		}
		for v := start; v <= 3; v++ {
			rec(append(cur, v), v)
		}
	}
	rec(nil, 1)
	for _, x1 := range all {
		for _, x2 := range all {
			c13CompareCase(o, r, 0, x1, x2, c13Alphas[r.Intn(len(c13Alphas))])
		}
	}
	o.Extra["exhaustive_pairs_over_3_values_up_to_n"] = maxN
	// untied samples whose exact p is 1 or close to it: go-moremath's untied exact
	// path doubles a float sum without a cap and returns 1 + 2^-52 for some of them
	// ({2,3,5} vs {1,4,6}); every split of 1..N into two non-empty samples
	c13CompareCase(o, r, 0, []float64{2, 3, 5}, []float64{1, 4, 6}, 1)
	c13CompareCase(o, r, 0, []float64{1, 4, 5}, []float64{2, 3, 6}, 0.05)
	maxSplit := 6
	if tier == "thorough" {
		maxSplit = 9
	}
	for N := 2; N <= maxSplit; N++ {
		for mask := 1; mask < 1<<N-1; mask++ {
			var a, b []float64
			for i := 0; i < N; i++ {
				if mask>>i&1 == 1 {
					a = append(a, float64(i+1))
				} else {
					b = append(b, float64(i+1))
				}
			}
			c13CompareCase(o, r, 0, a, b, []float64{1, 0.05, 0.5}[r.Intn(3)])
		}
	}
	o.Extra["exhaustive_untied_splits_of_1..N_up_to_N"] = maxSplit
	// balanced untied splits of larger pools (U1 and U2 one apart: exact p just below or at 1)
	nBal := 40
	if tier == "thorough" {
		nBal = 400
	}
	for i := 0; i < nBal; i++ {
		n1, n2 := r.Range(3, 12), r.Range(3, 12)
		pool := c13Shuffle(r, c13Values(r, n1+n2, 0, 0))
		sort.Float64s(pool)
		// alternate, then swap a few neighbours: U stays near n1*n2/2
		var a, b []float64
		for j, v := range pool {
			if (j%2 == 0 && len(a) < n1) || len(b) >= n2 {
				a = append(a, v)
			} else {
				b = append(b, v)
			}
		}
		for k := r.Intn(3); k > 0; k-- {
			ia, ib := r.Intn(len(a)), r.Intn(len(b))
			a[ia], b[ib] = b[ib], a[ia]
		}
		c13CompareCase(o, r, 0, a, b, c13Alpha(r))
	}
	// well separated untied samples of 12..25 values each: exact p down to 2/C(50,25) = 1.6e-14
	nSep := 12
	if tier == "thorough" {
		nSep = 100
	}
	for i := 0; i < nSep; i++ {
		n1, n2 := r.Range(12, 25), r.Range(12, 25)
		e := r.Range(-300, 300)
		x1 := c13Values(r, n1, 0, 0)
		x2 := c13Values(r, n2, 0, 0)
		off := 2000.0
		if r.Chance(0.3) {
			off = 60 // overlapping a little
		}
		for j := range x2 {
			x2[j] += off
		}
		sc := math.Ldexp(1, e)
		c13CompareCase(o, r, 0, c13Scale(x1, sc), c13Scale(x2, sc), c13Alpha(r))
	}
	for i := 0; i < nS; i++ {
		ai := r.Intn(3)
		n := c13Size(r)
		e := r.Range(-300, 300)
		if ai == 2 {
			e = r.Range(-120, 120) // the Welch/variance arithmetic of the normal model overflows beyond ~1e77
		}
		vals := c13Values(r, n, r.Intn(7), e)
		conf := c13Conf(r)
		if r.Chance(0.02) {
			conf = []float64{1, 0, 1.5, -0.5}[r.Intn(4)]
		}
		c13Summary(o, ai, vals, conf)
	}
	for i := 0; i < nC; i++ {
		ai := r.Intn(5)
		if ai > 2 {
			ai = 0
		}
		n1, n2 := c13Size(r), c13Size(r)
		if r.Chance(0.4) {
			n2 = n1
		}
		style := r.Intn(7)
		if ai == 0 && n1 > 25 && n2 > 25 && n1 <= 50 && n2 <= 50 && r.Chance(0.8) {
			// the exact untied distribution for two large samples is expensive to re-derive: keep a few
			style = 1
		}
		e := r.Range(-300, 300)
		if ai == 2 {
			e = r.Range(-120, 120)
		}
		x1 := c13Values(r, n1, style, e)
		x2 := c13Values(r, n2, style, e+r.Range(-2, 2))
		if style == 0 || style == 4 {
			// shift the second sample a little so that significance varies
			f := 1 + (r.Float()-0.3)*0.2
			for i := range x2 {
				x2[i] *= f
			}
		}
		if style == 3 && r.Bool() {
			x2 = c13Values(r, n2, 1, 0)
		}
		c13CompareCase(o, r, ai, x1, x2, c13Alpha(r))
	}
	// the normal model beyond the range of its intermediate arithmetic (known
	// finding C13_normal_compare_overflow_panic): (variance/n)^2 overflowing or
	// underflowing, in one sample or both
	nO := 10
	if tier == "thorough" {
		nO = 60
	}
	c13CompareCase(o, r, 2, []float64{4.944247551662357e-66, 8.774573370410683e-68, 2.6976835841875326e-67, 3.851292956526457e-67, -3.003399546835419e-66},
		[]float64{-6.418567847939022e+78, 1.153234906434618e+79, 4.2199994183924477e+77}, 0.05)
	c13CompareCase(o, r, 2, []float64{math.Ldexp(1, -220), math.Ldexp(2, -220), math.Ldexp(3, -220)},
		[]float64{math.Ldexp(1, 260), math.Ldexp(2, 260), math.Ldexp(4, 260)}, 0.05)
	// the variance of the second sample overflows to +Inf: t = 0, no panic, P = 1 for clearly different samples
	c13CompareCase(o, r, 2, []float64{1.0830157094123588e+152, 1.2243957732193596e+152},
		[]float64{1.7689646180779952e+155, 1.6979856734457484e+155, 1.2176571555774998e+155}, 0.05)
	for i := 0; i < nO; i++ {
		var e1, e2 int
		switch r.Intn(5) {
		case 0: // second sample's (variance/n)^2 overflows
			e1, e2 = r.Range(-250, 100), r.Range(257, 300)
		case 1: // both overflow
			e1, e2 = r.Range(257, 300), r.Range(257, 300)
		case 2: // both underflow: 0/0
			e1, e2 = r.Range(-330, -275), r.Range(-330, -275)
		case 3: // the variance itself overflows
			e1, e2 = r.Range(505, 508), r.Range(-20, 508)
		default: // near the edge, either side
			e1, e2 = r.Range(240, 262), r.Range(240, 262)
		}
		x1 := c13Values(r, r.Range(2, 8), 4, e1)
		x2 := c13Values(r, r.Range(2, 8), 4, e2)
		c13CompareCase(o, r, 2, x1, x2, c13Alpha(r))
	}
	for i := 0; i < nD; i++ {
		c13Direct(o, r)
	}
	return nil
}
