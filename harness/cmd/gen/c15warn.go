package main

// C15, class "over-aggregation warnings in several cells of one row": tables
// with 2-4 columns and 24-40 rows in which `-row .name` merges sub-benchmarks
// (differing in /format, /n, and - with -table goos - in the note: file key), so
// that the warning "benchmarks vary in ..." arises in the baseline cell AND in
// other cells of the SAME row (same or different field lists), only in the
// baseline, only elsewhere, or nowhere.  Every input is run through the real
// binary repeatedly at GOMAXPROCS 1, 2, 4, 16 in text and csv (stdout AND the
// csv warning stream on stderr compared byte for byte) and through the -race
// build.  The first run's text, csv rows and csv warnings go to the evaluator
// together with the projected measurements (table/row/column/residue ids as in
// C14): there the warning of every cell is derived from the residue keys of the
// cell's OWN measurements and the renderings are compared with the rendering
// model (Model/Render.v, Model/RenderRun.v) of the tables carrying those
// warnings.
//
// case: (7 identical race_ok nruns meas resvals fields keyfields tabs text recs warn)
//       tab = (tid (rid ...) (cid ...) (key values) abstract-table)
import (
	"bytes"
	"fmt"
	"os"
	"strings"

	bt "golang.org/x/perf/cmd/benchstat/verifbridge"
	"verifharness/internal/hx"
)

type c15Pattern int

const (
	c15Single c15Pattern = iota // one sub-benchmark: no warning
	c15Fmt2                     // /format differs
	c15Fmt3                     // /format differs (three values)
	c15FmtN                     // /format and /n differ
	c15N2                       // /n differs
	c15Note                     // the note: file key differs (needs -table goos)
	c15FmtNote                  // /format and note differ
	c15Missing                  // no measurement in this column
)

var c15PatName = map[c15Pattern]string{c15Single: "single", c15Fmt2: "fmt", c15Fmt3: "fmt", c15FmtN: "fmt+n", c15N2: "n",
	c15Note: "note", c15FmtNote: "fmt+note", c15Missing: "missing"}

type c15Variant struct {
	name string
	subs [][2]string // (sub-name, note)
}

func c15Subs(p c15Pattern) [][2]string {
	switch p {
	case c15Single:
		return [][2]string{{"/format=json/n=10", "a"}}
	case c15Fmt2:
		return [][2]string{{"/format=json/n=10", "a"}, {"/format=gob/n=10", "a"}}
	case c15Fmt3:
		return [][2]string{{"/format=json/n=10", "a"}, {"/format=gob/n=10", "a"}, {"/format=xml/n=10", "a"}}
	case c15FmtN:
		return [][2]string{{"/format=json/n=10", "a"}, {"/format=gob/n=1k", "a"}}
	case c15N2:
		return [][2]string{{"/format=json/n=10", "a"}, {"/format=json/n=1k", "a"}}
	case c15Note:
		return [][2]string{{"/format=json/n=10", "a"}, {"/format=json/n=10", "b"}}
	case c15FmtNote:
		return [][2]string{{"/format=json/n=10", "a"}, {"/format=gob/n=10", "b"}}
	}
	return nil
}

// c15GenVary builds one input of the class. mode 0: columns are files
// (-row .name); mode 1: the same with -table goos and note: blocks (note is a
// residue key); mode 2: columns are the values of the sub-name key /v in ONE
// file (-row .name -col /v).
func c15GenVary(r *hx.Rng) (bsInput, bsFlags, string) {
	mode := r.Intn(3)
	ncols := 2 + r.Intn(3)
	nrows := 24 + r.Intn(17)
	units := []string{"ns/op"}
	if r.Chance(0.4) {
		units = append(units, "B/op")
	}
	pool := []c15Pattern{c15Fmt2, c15Fmt3, c15FmtN, c15N2}
	if mode == 1 {
		pool = append(pool, c15Note, c15FmtNote)
	}
	warnPat := func() c15Pattern { return pool[r.Intn(len(pool))] }
	// the pattern of every (row, column)
	pats := make([][]c15Pattern, nrows)
	nboth, nbase, nother := 0, 0, 0
	for i := range pats {
		pats[i] = make([]c15Pattern, ncols)
		switch k := r.Intn(20); {
		case k < 10: // baseline and others warn
			p := warnPat()
			pats[i][0] = p
			any := false
			for c := 1; c < ncols; c++ {
				switch r.Intn(4) {
				case 0:
					pats[i][c] = c15Single
				case 1:
					pats[i][c] = p
					any = true
				default:
					pats[i][c] = warnPat()
					any = true
				}
			}
			if !any {
				pats[i][1+r.Intn(ncols-1)] = p
			}
			nboth++
		case k < 14: // only the baseline
			pats[i][0] = warnPat()
			nbase++
		case k < 17: // only another column
			pats[i][1+r.Intn(ncols-1)] = warnPat()
			nother++
		}
		if r.Chance(0.06) {
			pats[i][r.Intn(ncols)] = c15Missing
		}
	}
	var files []strings.Builder
	nfiles := ncols
	if mode == 2 {
		nfiles = 1
	}
	files = make([]strings.Builder, nfiles)
	vnames := []string{"a", "b", "c", "d"}
	order := make([]int, nrows)
	for i := range order {
		order[i] = i
	}
	for c := 0; c < ncols; c++ {
		fi := c
		if mode == 2 {
			fi = 0
		}
		b := &files[fi]
		if mode == 1 && (c == fi) {
			fmt.Fprintf(b, "goos: linux\n")
		}
		// rows in a per-column order (first observation differs between files)
		for i := len(order) - 1; i > 0; i-- {
			j := r.Intn(i + 1)
			order[i], order[j] = order[j], order[i]
		}
		curNote := ""
		for _, row := range order {
			p := pats[row][c]
			if p == c15Missing {
				continue
			}
			base := float64(100 + r.Intn(4000))
			for _, sub := range c15Subs(p) {
				if mode == 1 && sub[1] != curNote {
					fmt.Fprintf(b, "note: %s\n\n", sub[1])
					curNote = sub[1]
				}
				name := fmt.Sprintf("Op%02d%s", row, sub[0])
				if mode == 2 {
					name += "/v=" + vnames[c]
				}
				ns := 2 + r.Intn(3)
				if p == c15Single {
					ns = 4 + r.Intn(3)
				}
				for s := 0; s < ns; s++ {
					fmt.Fprintf(b, "Benchmark%s-8 %d", name, 1+r.Intn(1000))
					for ui, u := range units {
						v := base * (1 + float64(r.Intn(21)-10)*0.004) * float64(1+ui)
						if u == "B/op" {
							v = float64(int(base/8) + r.Intn(4))
						}
						fmt.Fprintf(b, " %v %s", v, u)
					}
					b.WriteString("\n")
				}
			}
		}
	}
	var in bsInput
	for i := range files {
		in.Files = append(in.Files, bsFile{Name: fmt.Sprintf("v%d.txt", i), Content: files[i].String()})
	}
	fl := bsFlags{alpha: -1, confidence: -1, row: ".name"}
	switch mode {
	case 1:
		fl.table = "goos"
	case 2:
		fl.col = "/v"
	}
	in.Flags = fl.args()
	desc := fmt.Sprintf("mode=%d cols=%d rows=%d units=%d both=%d base-only=%d other-only=%d", mode, ncols, nrows, len(units), nboth, nbase, nother)
	return in, fl, desc
}

// c15VaryCase runs one input of the class and records it.
func c15VaryCase(o *hx.Out, exe, raceExe, dir string, in bsInput, fl bsFlags, desc string, reps int) error {
	if err := writeBsFiles(dir, in); err != nil {
		return err
	}
	run := runBenchstatInProc(dir, in, fl)
	if run.err != nil {
		o.Count("vary:pipeline-error")
		return nil
	}
	if len(run.tables.Tables) == 0 {
		o.Count("vary:no-tables")
		return nil
	}
	var ipText, ipCSV, ipWarn bytes.Buffer
	run.tables.ToText(&ipText, false)
	run.tables.ToCSV(&ipCSV, &ipWarn)
	// the reference run of the binary
	text0, terr0, _ := runBinary(exe, dir, in, "text", []string{"GOMAXPROCS=1"})
	csv0, warn0, _ := runBinary(exe, dir, in, "csv", []string{"GOMAXPROCS=1"})
	identical := terr0 == ""
	firstDiff := ""
	diff := func(what string) {
		identical = false
		if firstDiff == "" {
			firstDiff = what
		}
	}
	if text0 != ipText.String() || csv0 != ipCSV.String() || warn0 != ipWarn.String() {
		diff("binary vs in-process tables")
	}
	nruns := 2
	for rep := 0; rep < reps; rep++ {
		for _, p := range []string{"1", "2", "4", "16"} {
			env := []string{"GOMAXPROCS=" + p}
			gt, ge, _ := runBinary(exe, dir, in, "text", env)
			gc, gw, _ := runBinary(exe, dir, in, "csv", env)
			nruns += 2
			if gt != text0 || ge != "" {
				diff("text GOMAXPROCS=" + p)
			}
			if gc != csv0 {
				diff("csv GOMAXPROCS=" + p)
			}
			if gw != warn0 {
				diff("csv warnings GOMAXPROCS=" + p)
			}
		}
	}
	// in process again (fresh maps), cell warnings compared through the renderings
	for k := 0; k < 2; k++ {
		again := runBenchstatInProc(dir, in, fl)
		var t2, c2, w2 bytes.Buffer
		if again.err == nil {
			again.tables.ToText(&t2, false)
			again.tables.ToCSV(&c2, &w2)
		}
		if again.err != nil || t2.String() != ipText.String() || w2.String() != ipWarn.String() {
			diff("in-process run again")
		}
	}
	raceOK := true
	for _, p := range []string{"1", "2", "4", "16"} {
		// atexit_sleep_ms: the race runtime's default one-second sleep at exit only waits for
		// goroutines still running; benchstat joins all of its goroutines before printing
		env := []string{"GOMAXPROCS=" + p, "GORACE=atexit_sleep_ms=0"}
		gt, ge, _ := runBinary(raceExe, dir, in, "text", env)
		gc, gw, _ := runBinary(raceExe, dir, in, "csv", env)
		nruns += 2
		if strings.Contains(ge, "DATA RACE") || strings.Contains(gw, "DATA RACE") {
			raceOK = false
		} else if gt != text0 || gc != csv0 || gw != warn0 {
			diff("race build GOMAXPROCS=" + p)
		}
	}
	o.Count("vary:race-runs")

	// the projected measurements, as in C14
	var meas []hx.Sx
	for _, m := range run.meas {
		meas = append(meas, hx.L(hx.I(m[0].(int)), hx.I(m[1].(int)), hx.I(m[2].(int)), hx.I(m[3].(int)), hx.F64(m[4].(float64))))
	}
	var resvals, fields []hx.Sx
	rf := run.residue.FlattenedFields()
	for _, f := range rf {
		fields = append(fields, hx.S(f.Name))
	}
	for _, k := range run.reskeys {
		var vs []hx.Sx
		for _, f := range rf {
			vs = append(vs, hx.S(k.Get(f)))
		}
		resvals = append(resvals, hx.L(hx.I(run.re[k]), hx.List(vs)))
	}
	// the in-process tables: ids, key values, abstract table (formatted numbers are taken from here)
	kf := run.tables.Keys[0].Projection().FlattenedFields()
	var kfNames []string
	for _, f := range kf {
		kfNames = append(kfNames, f.Name)
	}
	var tabs []hx.Sx
	ncells, nwarn, bothRows, rowsTotal, maxCols := 0, 0, 0, 0, 0
	for ti, t := range run.tables.Tables {
		tk := run.tables.Keys[ti]
		var rows, cols []hx.Sx
		for _, rk := range t.Rows {
			rows = append(rows, hx.I(run.rid[rk]))
		}
		for _, ck := range t.Cols {
			cols = append(cols, hx.I(run.cid[ck]))
		}
		var vals []string
		for _, f := range kf {
			vals = append(vals, tk.Get(f))
		}
		abs, _ := c16AbsTable(t)
		tabs = append(tabs, hx.L(hx.I(run.tid[tk]), hx.List(rows), hx.List(cols), hx.SList(vals), abs))
		maxCols = max(maxCols, len(t.Cols))
		for _, rk := range t.Rows {
			rowsTotal++
			baseWarn, otherWarn := false, false
			for ci, ck := range t.Cols {
				if cell, ok := t.Cells[bt.TableKey{Row: rk, Col: ck}]; ok {
					ncells++
					if hasWarning(cell.Sample.Warnings, "benchmarks vary in ") {
						nwarn++
						if ci == 0 {
							baseWarn = true
						} else {
							otherWarn = true
						}
					}
				}
			}
			if baseWarn && otherWarn {
				bothRows++
			}
		}
	}
	csvRows, err := c16CSVRows(csv0)
	if err != nil {
		diff("csv output not parsable: " + err.Error())
	}
	var recx []hx.Sx
	for _, rec := range csvRows {
		recx = append(recx, hx.SList(rec))
	}
	o.Count(fmt.Sprintf("vary:rows-per-table>=24:%v", rowsTotal/len(run.tables.Tables) >= 24))
	o.Count(fmt.Sprintf("vary:cols=%d", maxCols))
	o.Count(fmt.Sprintf("vary:tables=%d", len(run.tables.Tables)))
	o.Count(fmt.Sprintf("vary:rows-with-warning-in-baseline-and-other-cell=%d", min(bothRows/10*10, 60)))
	o.Count(fmt.Sprintf("vary:runs=%d", nruns))
	o.Count(fmt.Sprintf("vary:identical=%v", identical))
	input := map[string]interface{}{"kind": "vary-warnings", "class": desc, "input": in, "first_diff": firstDiff,
		"identical": identical, "race_ok": raceOK, "cells": ncells, "cells_with_warning": nwarn, "rows_both": bothRows}
	o.Add(hx.L(hx.I(7), hx.Bool(identical), hx.Bool(raceOK), hx.I(nruns), hx.List(meas), hx.List(resvals), hx.List(fields),
		hx.SList(kfNames), hx.List(tabs), hx.S(text0), hx.List(recx), hx.S(warn0)),
		input, "vary:"+fmt.Sprint(in), bothRows > 0)
	return nil
}

func c15GenVaryCases(o *hx.Out, r *hx.Rng, tier string, exe, raceExe string) error {
	n, reps := 10, 3
	if tier == "thorough" {
		n, reps = 90, 4
	}
	dir, err := os.MkdirTemp(os.Getenv("VERIF_WORK"), "c15vary")
	if err != nil {
		return err
	}
	defer os.RemoveAll(dir)
	for i := 0; i < n; i++ {
		rr := r.Split()
		in, fl, desc := c15GenVary(rr)
		o.Count("vary:" + strings.SplitN(desc, " ", 2)[0])
		if err := c15VaryCase(o, exe, raceExe, dir, in, fl, desc, reps); err != nil {
			return err
		}
	}
	return nil
}
