package main

import (
	"bytes"
	"context"
	"fmt"
	"math"
	"os"
	"os/exec"
	"path/filepath"
	"sort"
	"strings"
	"time"

	"golang.org/x/perf/benchfmt"
	"golang.org/x/perf/benchmath"
	"golang.org/x/perf/benchproc"
	bt "golang.org/x/perf/cmd/benchstat/verifbridge"
	"verifharness/internal/hx"
)

func init() { gens["C14"] = genC14 }

// ---------- generated benchstat inputs ----------

type bsFile struct {
	Name    string `json:"name"`
	Label   string `json:"label,omitempty"` // label=path argument form
	Content string `json:"content"`
}

type bsInput struct {
	Files []bsFile `json:"files"`
	Flags []string `json:"flags"`
}

type bsFlags struct {
	table, row, col, ignore, filter string
	alpha, confidence               float64
	literal                         bool // the five strings are the flag values as given (no defaults filled in for "")
}

func (f bsFlags) args() []string {
	var a []string
	if f.table != "" {
		a = append(a, "-table", f.table)
	}
	if f.row != "" {
		a = append(a, "-row", f.row)
	}
	if f.col != "" {
		a = append(a, "-col", f.col)
	}
	if f.ignore != "" {
		a = append(a, "-ignore", f.ignore)
	}
	if f.filter != "" {
		a = append(a, "-filter", f.filter)
	}
	if f.alpha >= 0 {
		a = append(a, "-alpha", fmt.Sprint(f.alpha))
	}
	if f.confidence >= 0 {
		a = append(a, "-confidence", fmt.Sprint(f.confidence))
	}
	return a
}

var bsUnits = []string{"ns/op", "B/op", "allocs/op", "MB/s", "widgets", "ns/frob", "sec/op"}

func genBsFile(r *hx.Rng, benchPool []string, unitsUsed []string, shape int) string {
	var b strings.Builder
	nblocks := r.Range(1, 3)
	if shape == 0 {
		nblocks = 1
	}
	for blk := 0; blk < nblocks; blk++ {
		if r.Chance(0.7) {
			fmt.Fprintf(&b, "goos: %s\n", r.Pick([]string{"linux", "darwin"}))
		}
		if r.Chance(0.5) {
			fmt.Fprintf(&b, "pkg: p%d\n", r.Intn(2))
		}
		if r.Chance(0.4) {
			fmt.Fprintf(&b, "note: run%d\n", r.Intn(3))
		}
		if r.Chance(0.3) {
			fmt.Fprintf(&b, "goarch: %s\n", r.Pick([]string{"amd64", "arm64"}))
		}
		if r.Chance(0.2) {
			u := r.Pick(unitsUsed)
			fmt.Fprintf(&b, "Unit %s assume=%s\n", u, r.Pick([]string{"exact", "nothing", "exact"}))
		}
		if r.Chance(0.1) {
			fmt.Fprintf(&b, "Unit %s better=%s\n", r.Pick(unitsUsed), r.Pick([]string{"higher", "lower"}))
		}
		b.WriteString("\n")
		nb := r.Range(1, len(benchPool))
		perm := make([]int, len(benchPool))
		for i := range perm {
			perm[i] = i
		}
		for i := len(perm) - 1; i > 0; i-- {
			j := r.Intn(i + 1)
			perm[i], perm[j] = perm[j], perm[i]
		}
		for _, bi := range perm[:nb] {
			name := benchPool[bi]
			ns := r.Range(1, 8)
			if r.Chance(0.15) {
				ns = r.Range(9, 14)
			}
			base := float64(r.Range(1, 5000))
			for s := 0; s < ns; s++ {
				fmt.Fprintf(&b, "Benchmark%s %d", name, r.Range(1, 1000))
				for _, u := range unitsUsed {
					if r.Chance(0.15) {
						continue // missing measurement
					}
					v := base * (1 + float64(r.Intn(7)-3)*0.01)
					switch r.Intn(12) {
					case 0:
						v = 0
					case 1:
						v = base // ties
					case 2:
						v = float64(int(v))
					}
					if u == "allocs/op" || u == "B/op" {
						v = float64(int(base/10) + r.Intn(3))
					}
					fmt.Fprintf(&b, " %v %s", v, u)
				}
				b.WriteString("\n")
			}
			if r.Chance(0.1) {
				b.WriteString("some unrelated line\n")
			}
		}
	}
	return b.String()
}

func genBsInput(r *hx.Rng) (bsInput, bsFlags) {
	var in bsInput
	nfiles := r.Range(1, 3)
	nbench := r.Range(1, 5)
	var pool []string
	for i := 0; i < nbench; i++ {
		n := r.Pick([]string{"Fib", "Sort", "Enc", "Dec", "Hash"})
		if r.Chance(0.5) {
			n += "/n=" + r.Pick([]string{"1", "10", "1k"})
		}
		if r.Chance(0.3) {
			n += "/fmt=" + r.Pick([]string{"json", "gob"})
		}
		if r.Chance(0.5) {
			n += "-" + r.Pick([]string{"4", "8", "16"})
		}
		pool = append(pool, n)
	}
	nunits := r.Range(1, 3)
	var units []string
	for len(units) < nunits {
		u := r.Pick(bsUnits)
		dup := false
		for _, x := range units {
			dup = dup || x == u
		}
		if !dup {
			units = append(units, u)
		}
	}
	shape := r.Intn(4)
	for i := 0; i < nfiles; i++ {
		f := bsFile{Name: fmt.Sprintf("f%d.txt", i), Content: genBsFile(r, pool, units, shape)}
		if r.Chance(0.2) {
			f.Label = r.Pick([]string{"old", "new", "L"})
		}
		in.Files = append(in.Files, f)
	}
	if r.Chance(0.1) && nfiles >= 2 {
		// duplicate path
		in.Files[1].Name = in.Files[0].Name
		in.Files[1].Content = in.Files[0].Content
	}
	fl := bsFlags{alpha: -1, confidence: -1}
	switch r.Intn(16) {
	case 12, 13:
		fl.table = "goos"
		fl.row = ".name"
	case 8:
		fl.row = ".name"
		fl.ignore = ".fullname"
	case 9:
		fl.table = "goos"
		fl.ignore = ".config"
	case 10:
		fl.row = ".name"
		fl.ignore = "/n,/fmt"
	case 11:
		fl.table = "pkg"
		fl.ignore = "note,.file"
		fl.col = "goos"
	case 0:
		fl.col = "/fmt"
	case 1:
		fl.col = "/n@num"
		fl.row = ".name"
	case 2:
		fl.row = ".name"
	case 3:
		fl.table = "goos"
		fl.ignore = "pkg"
	case 4:
		fl.col = "goos"
	case 5:
		fl.col = ".file,/fmt"
	case 6:
		fl.table = ".config@alpha"
		fl.row = ".fullname@alpha"
	case 7:
		fl.row = ".name,/n"
		fl.ignore = ".file"
		fl.col = "/fmt@(json gob)"
	}
	switch r.Intn(8) {
	case 0:
		fl.filter = ".unit:" + r.Pick(units)
	case 1:
		fl.filter = "-.name:Fib"
	case 2:
		fl.filter = "goos:linux OR .name:Sort"
	}
	switch r.Intn(6) {
	case 0:
		fl.alpha = 0.5
	case 1:
		fl.alpha = 0.01
	case 2:
		fl.alpha = 1
	}
	switch r.Intn(6) {
	case 0:
		fl.confidence = 0.5
	case 1:
		fl.confidence = 0.99
	}
	in.Flags = fl.args()
	return in, fl
}

// ---------- the benchstat pipeline, as cmd/benchstat/main.go wires it ----------

type bsRun struct {
	tables            *bt.Tables
	tableBy, rowBy    *benchproc.Projection
	colBy, residue    *benchproc.Projection
	meas              [][5]interface{} // t r c res v (ids)
	tid, rid, cid, re map[benchproc.Key]int
	tkeys, rkeys      []benchproc.Key
	ckeys, reskeys    []benchproc.Key
	units             benchfmt.UnitMetadataMap
	thresholds        benchmath.Thresholds
	confidence        float64
	groups            map[[3]int][]float64
	err               error
	stderr            string
}

func keyID(m map[benchproc.Key]int, list *[]benchproc.Key, k benchproc.Key) int {
	if id, ok := m[k]; ok {
		return id
	}
	id := len(*list)
	m[k] = id
	*list = append(*list, k)
	return id
}

func runBenchstatInProc(dir string, in bsInput, fl bsFlags) (res *bsRun) {
	res = &bsRun{tid: map[benchproc.Key]int{}, rid: map[benchproc.Key]int{}, cid: map[benchproc.Key]int{},
		re: map[benchproc.Key]int{}, groups: map[[3]int][]float64{}}
	def := func(s, d string) string {
		if s == "" && !fl.literal {
			return d
		}
		return s
	}
	thresholds := benchmath.DefaultThresholds
	if fl.alpha >= 0 {
		thresholds.CompareAlpha = fl.alpha
	}
	conf := 0.95
	if fl.confidence >= 0 {
		conf = fl.confidence
	}
	res.thresholds, res.confidence = thresholds, conf
	filter, err := benchproc.NewFilter(def(fl.filter, "*"))
	if err != nil {
		res.err = err
		return
	}
	var parser benchproc.ProjectionParser
	var parseErr error
	mustParse := func(val string, unit bool) *benchproc.Projection {
		var proj *benchproc.Projection
		var err error
		if unit {
			proj, _, err = parser.ParseWithUnit(val, filter)
		} else {
			proj, err = parser.Parse(val, filter)
		}
		if err != nil && parseErr == nil {
			parseErr = err
		}
		return proj
	}
	tableBy := mustParse(def(fl.table, ".config"), true)
	rowBy := mustParse(def(fl.row, ".fullname"), false)
	colBy := mustParse(def(fl.col, ".file"), false)
	mustParse(fl.ignore, false)
	residue := parser.Residue()
	if parseErr != nil {
		res.err = parseErr
		return
	}
	res.tableBy, res.rowBy, res.colBy, res.residue = tableBy, rowBy, colBy, residue
	stat := bt.NewBuilder(tableBy, rowBy, colBy, residue)
	var paths []string
	for _, f := range in.Files {
		p := filepath.Join(dir, f.Name)
		if f.Label != "" {
			p = f.Label + "=" + p
		}
		paths = append(paths, p)
	}
	files := benchfmt.Files{Paths: paths, AllowStdin: false, AllowLabels: true}
	var serr bytes.Buffer
	for files.Scan() {
		switch rec := files.Result().(type) {
		case *benchfmt.SyntaxError:
			fmt.Fprintln(&serr, rec)
		case *benchfmt.Result:
			if ok, err := filter.Apply(rec); !ok {
				if err != nil {
					fmt.Fprintln(&serr, err)
				}
				continue
			}
			// our own record of where each measurement goes (before Add)
			tks := tableBy.ProjectValues(rec)
			rk := rowBy.Project(rec)
			ck := colBy.Project(rec)
			rsk := residue.Project(rec)
			r := keyID(res.rid, &res.rkeys, rk)
			c := keyID(res.cid, &res.ckeys, ck)
			rs := keyID(res.re, &res.reskeys, rsk)
			for i, tk := range tks {
				t := keyID(res.tid, &res.tkeys, tk)
				v := rec.Values[i].Value
				res.meas = append(res.meas, [5]interface{}{t, r, c, rs, v})
				g := [3]int{t, r, c}
				res.groups[g] = append(res.groups[g], v)
			}
			stat.Add(rec)
		}
	}
	if err := files.Err(); err != nil {
		res.err = err
		return
	}
	res.units = files.Units()
	res.stderr = serr.String()
	res.tables = stat.ToTables(bt.TableOpts{Confidence: conf, Thresholds: &thresholds, Units: files.Units()})
	return
}

func sortedIDs(keys []benchproc.Key, ids map[benchproc.Key]int) []hx.Sx {
	cp := append([]benchproc.Key(nil), keys...)
	benchproc.SortKeys(cp)
	out := make([]hx.Sx, len(cp))
	for i, k := range cp {
		out[i] = hx.I(ids[k])
	}
	return out
}

func bsF64s(xs []float64) hx.Sx {
	it := make([]hx.Sx, len(xs))
	for i, x := range xs {
		it[i] = hx.F64(x)
	}
	return hx.List(it)
}

func hasWarning(ws []error, sub string) bool {
	for _, w := range ws {
		if strings.Contains(w.Error(), sub) {
			return true
		}
	}
	return false
}

// c14Case builds the Sx case from one in-process run plus the binary's outputs.
func c14Case(run *bsRun, csvAgree, textAgree bool, csvTabs []ppCsvTable) hx.Sx {
	var meas []hx.Sx
	for _, m := range run.meas {
		meas = append(meas, hx.L(hx.I(m[0].(int)), hx.I(m[1].(int)), hx.I(m[2].(int)), hx.I(m[3].(int)), hx.F64(m[4].(float64))))
	}
	// residue key values
	var resvals []hx.Sx
	var fields []hx.Sx
	rf := run.residue.FlattenedFields()
	for _, f := range rf {
		fields = append(fields, hx.S(f.Name))
	}
	for _, k := range run.reskeys {
		var vs []hx.Sx
		for _, f := range rf {
			vs = append(vs, hx.S(k.Get(f)))
		}
		resvals = append(resvals, hx.L(hx.I(run.re[k]), hx.List(vs)))
	}
	// observed tables
	var obs []hx.Sx
	unitField := run.tableBy.Fields()[len(run.tableBy.Fields())-1]
	for ti, t := range run.tables.Tables {
		tk := run.tables.Keys[ti]
		var rows, cols, cells, sums []hx.Sx
		for _, r := range t.Rows {
			rows = append(rows, hx.I(run.rid[r]))
		}
		for _, c := range t.Cols {
			cols = append(cols, hx.I(run.cid[c]))
		}
		// deterministic emission order of the map
		type ck struct{ r, c int }
		var cks []ck
		byck := map[ck]*bt.TableCell{}
		for k, cell := range t.Cells {
			x := ck{run.rid[k.Row], run.cid[k.Col]}
			cks = append(cks, x)
			byck[x] = cell
		}
		sort.Slice(cks, func(i, j int) bool {
			if cks[i].r != cks[j].r {
				return cks[i].r < cks[j].r
			}
			return cks[i].c < cks[j].c
		})
		for _, x := range cks {
			cell := byck[x]
			var vary []hx.Sx
			for _, w := range cell.Sample.Warnings {
				if s := w.Error(); strings.HasPrefix(s, "benchmarks vary in ") {
					for _, n := range strings.Split(strings.TrimPrefix(s, "benchmarks vary in "), ", ") {
						vary = append(vary, hx.S(n))
					}
				}
			}
			cmp := hx.L()
			if cell.Baseline != nil {
				cmp = hx.L(hx.L(hx.F64(cell.Comparison.P), hx.I(cell.Comparison.N1), hx.I(cell.Comparison.N2), hx.F64(cell.Comparison.Alpha)))
			}
			cells = append(cells, hx.L(hx.I(x.r), hx.I(x.c), bsF64s(cell.Sample.Values), hx.Bool(cell.Baseline != nil),
				hx.F64(cell.Summary.Center), hx.F64(cell.Summary.Lo), hx.F64(cell.Summary.Hi), cmp, hx.List(vary)))
		}
		for _, c := range t.Cols {
			s := t.Summary[c]
			sums = append(sums, hx.L(hx.I(run.cid[c]), hx.Bool(hasWarning(s.Warnings, "benchmark set differs")),
				hx.Bool(s.HasSummary), hx.F64(s.Summary), hx.Bool(s.HasRatio), hx.F64(s.Ratio),
				hx.Bool(hasWarning(s.Warnings, "summaries must be >0")), hx.Bool(hasWarning(s.Warnings, "ratios must be >0"))))
		}
		_ = unitField
		obs = append(obs, hx.L(hx.I(run.tid[tk]), hx.List(rows), hx.List(cols), hx.List(cells), hx.List(sums)))
	}
	// oracles computed from OUR grouping, calling benchmath directly
	var gkeys [][3]int
	for g := range run.groups {
		gkeys = append(gkeys, g)
	}
	sort.Slice(gkeys, func(i, j int) bool {
		a, b := gkeys[i], gkeys[j]
		for k := 0; k < 3; k++ {
			if a[k] != b[k] {
				return a[k] < b[k]
			}
		}
		return false
	})
	assumptionOf := func(t int) benchmath.Assumption {
		unit := run.tkeys[t].Get(unitField)
		return run.units.GetAssumption(unit)
	}
	var osum, ocmp []hx.Sx
	samples := map[[3]int]*benchmath.Sample{}
	for _, g := range gkeys {
		th := run.thresholds
		s := benchmath.NewSample(run.groups[g], &th)
		samples[g] = s
		sm := assumptionOf(g[0]).Summary(s, run.confidence)
		osum = append(osum, hx.L(hx.L(hx.I(g[0]), bsF64s(s.Values)), hx.L(hx.F64(sm.Center), hx.F64(sm.Lo), hx.F64(sm.Hi))))
	}
	// the first column of every table (a comparison of samples holding a NaN is only repeated here when the real
	// ToTables made it too, i.e. against the first column: on code without the NaN guard any other one would not return)
	firstCol := map[int]int{}
	for ti, t := range run.tables.Tables {
		firstCol[run.tid[run.tables.Keys[ti]]] = run.cid[t.Cols[0]]
	}
	for _, a := range gkeys {
		for _, b := range gkeys {
			if a[0] == b[0] && a[1] == b[1] && a[2] != b[2] {
				if (c14HasNaN(samples[a].Values) || c14HasNaN(samples[b].Values)) && firstCol[a[0]] != a[2] {
					continue
				}
				cmp := assumptionOf(a[0]).Compare(samples[a], samples[b])
				ocmp = append(ocmp, hx.L(hx.L(hx.I(a[0]), bsF64s(samples[a].Values)), bsF64s(samples[b].Values),
					hx.L(hx.F64(cmp.P), hx.I(cmp.N1), hx.I(cmp.N2), hx.F64(cmp.Alpha))))
			}
		}
	}
	stat, sosum, socmp := c14Stat(run, csvTabs)
	return hx.L(hx.List(meas), hx.List(sortedIDs(run.tkeys, run.tid)), hx.List(sortedIDs(run.rkeys, run.rid)),
		hx.List(sortedIDs(run.ckeys, run.cid)), hx.List(resvals), hx.List(fields), hx.List(obs),
		hx.List(osum), hx.List(ocmp), hx.Bool(csvAgree), hx.Bool(textAgree), stat, sosum, socmp)
}

// buildBenchstat builds the real cmd/benchstat binary from the module under test.
func buildBenchstat(race bool) (string, error) {
	work := os.Getenv("VERIF_WORK")
	if work == "" {
		work = os.TempDir()
	}
	name := "benchstat"
	args := []string{"build", "-o"}
	if race {
		name = "benchstat_race"
	}
	exe := filepath.Join(work, name)
	args = append(args, exe)
	if race {
		args = append(args, "-race")
	}
	args = append(args, "golang.org/x/perf/cmd/benchstat")
	cmd := exec.Command("go", args...)
	cmd.Dir = harnessDir()
	out, err := cmd.CombinedOutput()
	if err != nil {
		return "", fmt.Errorf("building benchstat: %v\n%s", err, out)
	}
	return exe, nil
}

func harnessDir() string {
	if d := os.Getenv("VERIF_HARNESS"); d != "" {
		return d
	}
	exe, _ := os.Executable()
	// work/bin/gen -> ../../harness
	return filepath.Join(filepath.Dir(exe), "..", "..", "harness")
}

func writeBsFiles(dir string, in bsInput) error {
	for _, f := range in.Files {
		if err := os.WriteFile(filepath.Join(dir, f.Name), []byte(f.Content), 0o644); err != nil {
			return err
		}
	}
	return nil
}

func runBinary(exe, dir string, in bsInput, format string, env []string) (string, string, error) {
	args := append([]string{}, in.Flags...)
	args = append(args, "-format", format)
	for _, f := range in.Files {
		p := filepath.Join(dir, f.Name)
		if f.Label != "" {
			p = f.Label + "=" + p
		}
		args = append(args, p)
	}
	cmd := exec.Command(exe, args...)
	cmd.Env = append(os.Environ(), env...)
	var so, se bytes.Buffer
	cmd.Stdout, cmd.Stderr = &so, &se
	err := cmd.Run()
	return so.String(), se.String(), err
}

func genC14(o *hx.Out, r *hx.Rng, tier string, replay string) error {
	o.Rule = "generated benchstat inputs: 1-3 files (labelled / duplicate paths), 1-3 configuration blocks, 1-5 benchmarks with sub-name keys and GOMAXPROCS, 1-3 units with and without Unit metadata, 1-14 samples, missing cells, x flag grid (-table/-row/-col/-ignore/-filter/-alpha/-confidence); run through cmd/benchstat's pipeline in process (observing benchtab.Tables) and through the real binary (csv and text). non-trivial = at least two cells; distinct by file contents+flags. 45% of the inputs are widened (c14Widen): one benchmark of the first file all zero (zero baseline centres), NaN/+Inf/-Inf/-2.5/0/1e300/1e-290 sprinkled over 12% of the values, or one benchmark of one file filled with +Inf/NaN/-7/0/-Inf/1e300; plus fixed witnesses (NaN in a compared cell, +Inf centre followed by / after another row, ratios [+Inf,1], 0/0 and 100/0 from testdata/zero.txt, negative and zero ratios, asymmetric significant deltas, three files). An input holding a NaN is first run through the real binary under a watchdog (ulimit -v, 10 s): no normal termination = case (8). Every case carries the statistics block judged by Corr/StatC14.v (cells: centre, interval, comparison, the delta string of the binary's csv; summary row with its three warnings and ratio string; oracles by direct benchmath calls). Tag C14_geomean_inf_order: some column's centres or ratios are all positive yet the running mean of their logarithms (simulated) is NaN. SECOND KIND (tag 7, c14p.go): flag strings + file texts only (1-3 files, config keys changing/deleted between results, units needing Tidy, /key=value names with -N, repeated and interleaved benchmarks, malformed lines, CR, unterminated last line, one over-long line) x grid of -filter/-table/-row/-col/-ignore values incl. bad flags; observed: the real binary (csv parsed back, stderr) and benchtab.Tables in process; the composed model recomputes everything from texts and flags"
	exe, err := buildBenchstat(false)
	if err != nil {
		return err
	}
	n := 150
	if tier == "thorough" {
		n = 1500
	}
	dir, err := os.MkdirTemp(os.Getenv("VERIF_WORK"), "c14in")
	if err != nil {
		return err
	}
	defer os.RemoveAll(dir)
	one := func(in bsInput, fl bsFlags, class string) error {
		if err := writeBsFiles(dir, in); err != nil {
			return err
		}
		o.Count("class:" + class)
		key := fmt.Sprint(in)
		if c14Hangs(exe, dir, in) {
			// the real binary does not terminate: nothing else can be observed (and the in-process run would not return)
			o.Count("hang")
			o.Add(hx.L(hx.I(8)), in, key, true)
			return nil
		}
		run := runBenchstatInProc(dir, in, fl)
		if run.err != nil {
			o.Count("pipeline-error")
			return nil
		}
		// the binary must print exactly what the in-process tables render to
		var wantCSV, wantCSVErr, wantText bytes.Buffer
		run.tables.ToCSV(&wantCSV, &wantCSVErr)
		run.tables.ToText(&wantText, false)
		gotCSV, _, _ := runBinary(exe, dir, in, "csv", nil)
		gotText, _, _ := runBinary(exe, dir, in, "text", nil)
		csvAgree := gotCSV == wantCSV.String()
		textAgree := gotText == wantText.String()
		csvTabs, csvOK := ppParseCSV(gotCSV)
		if !csvOK {
			csvAgree = false
		}
		ncells := 0
		for _, t := range run.tables.Tables {
			ncells += len(t.Cells)
		}
		o.Count(fmt.Sprintf("tables=%d", min(len(run.tables.Tables), 6)))
		o.Count(fmt.Sprintf("cells=%d", min(ncells/4*4, 40)))
		if strings.Contains(wantText.String(), "benchmarks vary in") {
			o.Count("has-vary-warning")
		}
		if strings.Contains(wantText.String(), "benchmark set differs") {
			o.Count("has-set-warning")
		}
		c14CountClasses(o, run, "")
		var tags []string
		if c14InfOrder(run) {
			tags = append(tags, "C14_geomean_inf_order")
			o.Count("inf-order")
		}
		o.Add(c14Case(run, csvAgree, textAgree, csvTabs), in, key, ncells >= 2, tags...)
		return nil
	}
	for i := 0; i < n; i++ {
		rr := r.Split()
		in, fl := genBsInput(rr)
		class := "plain"
		if rr.Chance(0.45) {
			class = c14Widen(rr, &in)
		}
		if err := one(in, fl, class); err != nil {
			return err
		}
	}
	for _, w := range c14Witnesses() {
		if err := one(w, bsFlags{alpha: -1, confidence: -1}, "witness"); err != nil {
			return err
		}
	}
	// second kind of case: flag strings + file texts against the composed model (c14p.go)
	return genC14Pipeline(o, r, tier, exe)
}

// ---------- values that are not positive finite numbers ----------

// c14Widen rewrites measurement values of a generated input (genBsInput itself is shared with C15 and stays as it
// is): zero baselines, NaN / +Inf / -Inf / negative / huge / tiny values sprinkled or filling one benchmark of one file.
func c14Widen(r *hx.Rng, in *bsInput) string {
	type loc struct{ f, line, field int }
	lines := make([][]string, len(in.Files))
	var locs []loc
	byBench := map[string][]loc{} // file:name
	var benchKeys []string
	for fi, f := range in.Files {
		lines[fi] = strings.Split(f.Content, "\n")
		for li, l := range lines[fi] {
			fs := strings.Fields(l)
			if len(fs) < 4 || !strings.HasPrefix(fs[0], "Benchmark") {
				continue
			}
			for k := 2; k+1 < len(fs); k += 2 {
				x := loc{fi, li, k}
				locs = append(locs, x)
				bk := fmt.Sprint(fi, ":", fs[0])
				if _, ok := byBench[bk]; !ok {
					benchKeys = append(benchKeys, bk)
				}
				byBench[bk] = append(byBench[bk], x)
			}
		}
	}
	if len(locs) == 0 {
		return "plain"
	}
	set := func(x loc, v string) {
		fs := strings.Fields(lines[x.f][x.line])
		fs[x.field] = v
		lines[x.f][x.line] = strings.Join(fs, " ")
	}
	specials := []string{"NaN", "+Inf", "-Inf", "-2.5", "0", "1e300", "1e-290", "Inf", "nan"}
	class := ""
	switch r.Intn(4) {
	case 0: // one benchmark of the first file all zero: a zero baseline centre
		class = "zero-base"
		var ks []string
		for _, k := range benchKeys {
			if strings.HasPrefix(k, "0:") {
				ks = append(ks, k)
			}
		}
		if len(ks) == 0 {
			ks = benchKeys
		}
		for _, x := range byBench[r.Pick(ks)] {
			set(x, "0")
		}
	case 1: // sprinkled
		class = "sprinkle"
		for _, x := range locs {
			if r.Chance(0.12) {
				set(x, r.Pick(specials))
			}
		}
	case 2: // one benchmark of one file filled with one special value
		class = "fill"
		v := r.Pick([]string{"+Inf", "+Inf", "NaN", "-7", "0", "-Inf", "1e300"})
		for _, x := range byBench[r.Pick(benchKeys)] {
			set(x, v)
		}
	default: // both
		class = "fill+zero"
		for _, x := range byBench[r.Pick(benchKeys)] {
			set(x, "0")
		}
		v := r.Pick([]string{"+Inf", "NaN", "-7", "-Inf"})
		for _, x := range byBench[r.Pick(benchKeys)] {
			set(x, v)
		}
	}
	for fi := range in.Files {
		in.Files[fi].Content = strings.Join(lines[fi], "\n")
	}
	// a duplicated path keeps one content
	for i := 1; i < len(in.Files); i++ {
		if in.Files[i].Name == in.Files[0].Name {
			in.Files[i].Content = in.Files[0].Content
		}
	}
	return class
}

// c14Witnesses: fixed inputs for the classes the audit named.
func c14Witnesses() []bsInput {
	two := func(a, b string) bsInput {
		return bsInput{Files: []bsFile{{Name: "f0.txt", Content: a}, {Name: "f1.txt", Content: b}}}
	}
	oneFile := func(a string) bsInput { return bsInput{Files: []bsFile{{Name: "f0.txt", Content: a}}} }
	rep := func(line string, n int) string { return strings.Repeat(line+"\n", n) }
	return []bsInput{
		// a NaN measurement in a cell compared with a baseline (go-moremath's tie loop does not advance on NaN)
		two("BenchmarkX 1 NaN sec/op\nBenchmarkX 1 2 sec/op\nBenchmarkX 1 1 sec/op\n", "BenchmarkX 1 4 sec/op\nBenchmarkX 1 2 sec/op\nBenchmarkX 1 1 sec/op\n"),
		two("BenchmarkX 1 4 sec/op\nBenchmarkX 1 2 sec/op\n", "BenchmarkX 1 nan sec/op\nBenchmarkX 1 2 sec/op\nBenchmarkY 1 2 sec/op\n"),
		// +Inf centre followed by another / last in the column
		oneFile("BenchmarkA 1 +Inf sec/op\nBenchmarkB 1 1 sec/op\n"),
		oneFile("BenchmarkA 1 1 sec/op\nBenchmarkB 1 Inf sec/op\n"),
		two("BenchmarkA 1 1 sec/op\nBenchmarkB 1 1 sec/op\n", "BenchmarkA 1 +Inf sec/op\nBenchmarkB 1 1 sec/op\n"),
		// zero baseline: 0/0 = 1, non-zero over zero uncomputable (testdata/zero.txt)
		two("Unit y assume=exact\nBenchmarkN 1 0 y\nBenchmarkN2 1 0 y\nBenchmarkZ 1 0 x\nBenchmarkZ2 1 0 x\n", "BenchmarkN 1 100 y\nBenchmarkN2 1 100 y\nBenchmarkZ 1 0 x\nBenchmarkZ2 1 0 x\n"),
		two("BenchmarkN 1 0 y\nBenchmarkM 1 5 y\n", "BenchmarkN 1 100 y\nBenchmarkM 1 10 y\n"),
		// negative and zero ratios
		two("Unit y assume=exact\nBenchmarkN 1 -4 y\nBenchmarkM 1 5 y\n", "BenchmarkN 1 2 y\nBenchmarkM 1 10 y\n"),
		two("Unit y assume=exact\nBenchmarkN 1 4 y\nBenchmarkM 1 5 y\n", "BenchmarkN 1 0 y\nBenchmarkM 1 10 y\n"),
		// a significant asymmetric delta: +100% one way, -50% the other
		two(rep("BenchmarkX 1 1 sec/op", 6)+rep("BenchmarkY 1 3 sec/op", 6), rep("BenchmarkX 1 2 sec/op", 6)+rep("BenchmarkY 1 1 sec/op", 6)),
		// three files: deltas are against the FIRST column, not the previous one
		bsInput{Files: []bsFile{{Name: "f0.txt", Content: rep("BenchmarkX 1 1 sec/op", 6) + "BenchmarkY 1 1 sec/op\n"},
			{Name: "f1.txt", Content: rep("BenchmarkX 1 2 sec/op", 6)}, {Name: "f2.txt", Content: rep("BenchmarkX 1 8 sec/op", 6) + "BenchmarkY 1 3 sec/op\n"}}},
	}
}

func c14HasNaN(xs []float64) bool {
	for _, x := range xs {
		if math.IsNaN(x) {
			return true
		}
	}
	return false
}

// c14Hangs runs the real binary under a watchdog (10 s, 3 GB of address space) when a NaN measurement may be
// present, and reports whether it failed to terminate normally within these limits.
func c14Hangs(exe, dir string, in bsInput) bool {
	nan := false
	for _, f := range in.Files {
		if strings.Contains(strings.ToLower(f.Content), "nan") {
			nan = true
		}
	}
	if !nan {
		return false
	}
	args := []string{"-c", `ulimit -v 3000000; exec "$0" "$@"`, exe}
	args = append(args, in.Flags...)
	args = append(args, "-format", "csv")
	for _, f := range in.Files {
		p := filepath.Join(dir, f.Name)
		if f.Label != "" {
			p = f.Label + "=" + p
		}
		args = append(args, p)
	}
	ctx, cancel := context.WithTimeout(context.Background(), 10*time.Second)
	defer cancel()
	cmd := exec.CommandContext(ctx, "/bin/sh", args...)
	cmd.Stdout, cmd.Stderr = nil, nil
	err := cmd.Run()
	if ctx.Err() != nil {
		return true
	}
	if ee, ok := err.(*exec.ExitError); ok {
		// benchstat's own failures exit with status 1; the runtime's out-of-memory abort with 2 (or a signal)
		return ee.ExitCode() != 1
	}
	return false
}

// geoMeanSim is the running mean of logarithms go-moremath's GeoMean computes.
func geoMeanSim(xs []float64) float64 {
	if len(xs) == 0 {
		return math.NaN()
	}
	m := 0.0
	for i, x := range xs {
		if x <= 0 {
			return math.NaN()
		}
		m += (math.Log(x) - m) / float64(i+1)
	}
	return math.Exp(m)
}

func allPositive(xs []float64) bool {
	for _, x := range xs {
		if !(x > 0) {
			return false
		}
	}
	return len(xs) > 0
}

// c14ColumnLists: per table and column the centres in row order and, outside the first column, the per-row ratios
// (ok=false: some ratio is uncomputable, a non-equal centre over a zero baseline centre).
func c14ColumnLists(t *bt.Table, f func(ci int, centres, ratios []float64, ratiosOK bool)) {
	for ci, col := range t.Cols {
		var centres, ratios []float64
		ok := true
		for _, row := range t.Rows {
			cell, has := t.Cells[bt.TableKey{Row: row, Col: col}]
			if !has {
				continue
			}
			a := cell.Summary.Center
			centres = append(centres, a)
			if ci == 0 {
				continue
			}
			base, hasb := t.Cells[bt.TableKey{Row: row, Col: t.Cols[0]}]
			if !hasb {
				continue
			}
			b := base.Summary.Center
			switch {
			case a == b:
				ratios = append(ratios, 1)
			case b == 0:
				ok = false
			default:
				ratios = append(ratios, a/b)
			}
		}
		f(ci, centres, ratios, ok)
	}
}

// c14InfOrder decides the input class of the recorded finding C14_geomean_inf_order by simulating the mechanism:
// some column's centres (or ratios) are all positive, yet the running mean of their logarithms is NaN.
func c14InfOrder(run *bsRun) bool {
	hit := false
	for _, t := range run.tables.Tables {
		c14ColumnLists(t, func(ci int, centres, ratios []float64, ok bool) {
			if allPositive(centres) && math.IsNaN(geoMeanSim(centres)) {
				hit = true
			}
			if ci > 0 && ok && allPositive(ratios) && math.IsNaN(geoMeanSim(ratios)) {
				hit = true
			}
		})
	}
	return hit
}

func c14CountClasses(o *hx.Out, run *bsRun, pre string) {
	seen := map[string]bool{}
	for _, t := range run.tables.Tables {
		c14ColumnLists(t, func(ci int, centres, ratios []float64, ok bool) {
			if !allPositive(centres) {
				seen["col-centres-not-positive"] = true
			}
			if ci > 0 && !ok {
				seen["col-ratio-uncomputable"] = true
			}
			if ci > 0 && ok && !allPositive(ratios) {
				seen["col-ratios-not-positive"] = true
			}
			if ci > 0 && ok && allPositive(ratios) {
				seen["col-ratio-geomean"] = true
			}
		})
		for k, cell := range t.Cells {
			if c14HasNaN(cell.Sample.Values) {
				seen["cell-with-nan"] = true
				if cell.Baseline != nil || (k.Col == t.Cols[0] && len(t.Cols) > 1) {
					seen["nan-in-compared-cell"] = true
				}
			}
			if cell.Baseline != nil && cell.Baseline.Summary.Center == 0 && cell.Summary.Center != 0 {
				seen["delta-over-zero-base"] = true
			}
		}
	}
	var ks []string
	for k := range seen {
		ks = append(ks, k)
	}
	sort.Strings(ks)
	for _, k := range ks {
		o.Count(pre + k)
	}
}

// c14Stat: per observed table every cell's statistics with the delta STRING the real binary printed for it (csv
// parsed back), the summary row with its three warnings and the ratio string; and the oracles, direct benchmath calls
// on the observed samples keyed by assumption (0 nothing, 1 exact) and sample content.
func c14Stat(run *bsRun, csvTabs []ppCsvTable) (stat, sosum, socmp hx.Sx) {
	var tabs, osum, ocmp []hx.Sx
	seenSum := map[string]bool{}
	seenCmp := map[string]bool{}
	bitsKey := func(xs []float64) string {
		var b strings.Builder
		for _, x := range xs {
			fmt.Fprintf(&b, "%x,", math.Float64bits(x))
		}
		return b.String()
	}
	for ti, t := range run.tables.Tables {
		asm := 0
		if t.Assumption == benchmath.AssumeExact {
			asm = 1
		}
		var csvT *ppCsvTable
		if ti < len(csvTabs) {
			csvT = &csvTabs[ti]
		}
		deltaOf := func(ri, ci int) hx.Sx {
			if csvT != nil {
				for _, c := range csvT.cells {
					if c.row == ri && c.col == ci && c.delta != "" {
						return hx.L(hx.S(c.delta))
					}
				}
			}
			return hx.L()
		}
		var cells, sums []hx.Sx
		newSample := func(cell *bt.TableCell) *benchmath.Sample {
			th := run.thresholds
			return benchmath.NewSample(append([]float64(nil), cell.Sample.Values...), &th)
		}
		for ri, row := range t.Rows {
			var rowCells []*bt.TableCell
			var rowCols []int
			for ci, col := range t.Cols {
				cell, ok := t.Cells[bt.TableKey{Row: row, Col: col}]
				if !ok {
					continue
				}
				rowCells = append(rowCells, cell)
				rowCols = append(rowCols, ci)
				cmp := hx.L()
				if cell.Baseline != nil {
					cmp = hx.L(hx.L(hx.F64(cell.Comparison.P), hx.I(cell.Comparison.N1), hx.I(cell.Comparison.N2), hx.F64(cell.Comparison.Alpha)))
				}
				cells = append(cells, hx.L(hx.I(ri), hx.I(ci), bsF64s(cell.Sample.Values),
					hx.F64(cell.Summary.Center), hx.F64(cell.Summary.Lo), hx.F64(cell.Summary.Hi), cmp, deltaOf(ri, ci)))
				s := newSample(cell)
				if k := fmt.Sprint(asm, ":", bitsKey(s.Values)); !seenSum[k] {
					seenSum[k] = true
					sm := t.Assumption.Summary(s, run.confidence)
					osum = append(osum, hx.L(hx.L(hx.I(asm), bsF64s(s.Values)), hx.L(hx.F64(sm.Center), hx.F64(sm.Lo), hx.F64(sm.Hi))))
				}
			}
			for i, a := range rowCells {
				for j, b := range rowCells {
					if i == j {
						continue
					}
					// a comparison of samples holding a NaN is repeated only where the real ToTables made it too
					if (c14HasNaN(a.Sample.Values) || c14HasNaN(b.Sample.Values)) && rowCols[i] != 0 {
						continue
					}
					sa, sb := newSample(a), newSample(b)
					k := fmt.Sprint(asm, ":", bitsKey(sa.Values), "|", bitsKey(sb.Values))
					if seenCmp[k] {
						continue
					}
					seenCmp[k] = true
					cmp := t.Assumption.Compare(sa, sb)
					ocmp = append(ocmp, hx.L(hx.L(hx.I(asm), bsF64s(sa.Values)), bsF64s(sb.Values),
						hx.L(hx.F64(cmp.P), hx.I(cmp.N1), hx.I(cmp.N2), hx.F64(cmp.Alpha))))
				}
			}
		}
		for ci, c := range t.Cols {
			s := t.Summary[c]
			rs := hx.L()
			if csvT != nil && ci < len(csvT.ratios) && csvT.ratios[ci] != "" {
				rs = hx.L(hx.S(csvT.ratios[ci]))
			}
			sums = append(sums, hx.L(hx.Bool(s.HasSummary), hx.F64(s.Summary), hx.Bool(s.HasRatio), hx.F64(s.Ratio),
				hx.Bool(hasWarning(s.Warnings, "benchmark set differs")), hx.Bool(hasWarning(s.Warnings, "summaries must be >0")),
				hx.Bool(hasWarning(s.Warnings, "ratios must be >0")), rs))
		}
		tabs = append(tabs, hx.L(hx.I(asm), hx.I(len(t.Rows)), hx.I(len(t.Cols)), hx.List(cells), hx.List(sums)))
	}
	return hx.List(tabs), hx.List(osum), hx.List(ocmp)
}
