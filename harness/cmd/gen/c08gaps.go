package main

// C08 gap classes: targeted families on top of the random streams of c08.go.

import (
	"fmt"

	"verifharness/internal/hx"
)

func pxE(unit bool, r *hx.Rng, fs ...pxSpec) *pxExpr {
	e := &pxExpr{Unit: unit, Fields: fs}
	e.Text = pxText(fs, r)
	return e
}

func pxFirst(k string) pxSpec { return pxSpec{Key: k, Order: "first"} }

func pxShuffled(r *hx.Rng, ks []string) []string {
	keys := append([]string(nil), ks...)
	for j := len(keys) - 1; j > 0; j-- {
		k := r.Intn(j + 1)
		keys[j], keys[k] = keys[k], keys[j]
	}
	return keys
}

// (C08-a) ProjectValues through a projection with .unit and .config of a result
// that has NO values but brings new config keys, then results lacking them.
func c08Zero(o *hx.Out, r *hx.Rng, pl *pxPools) error {
	keys := pxShuffled(r, pl.cfgKeys)
	// the unit projection with .config, sometimes with a specific key before / after it
	fs := []pxSpec{pxFirst(".config")}
	switch r.Intn(4) {
	case 0:
		fs = []pxSpec{pxFirst(keys[7]), pxFirst(".config")}
	case 1:
		fs = []pxSpec{pxFirst(".config"), pxFirst(r.Pick([]string{"/a", ".name", keys[7]}))}
	}
	es := []*pxExpr{pxE(true, r, fs...)}
	for i, n := 0, r.Intn(3); i < n; i++ {
		es = append(es, pl.expr(r))
	}
	if r.Chance(0.3) {
		es = append(es, pxE(r.Chance(0.5), r, pxFirst(".config"), pxFirst(".fullname")))
	}
	cfg := func(ks ...string) [][3]string {
		var c [][3]string
		for _, k := range ks {
			c = append(c, [3]string{k, pl.pickVal(r, []string{"v1", "v2", "x y"}), "file"})
		}
		return c
	}
	units := func() []string {
		return [][]string{{"sec/op"}, {"sec/op", "B/op"}, {"B/op", "sec/op", "allocs/op"}}[r.Intn(3)]
	}
	name := r.Pick([]string{"Fib", "X/a=1", "Sort-8"})
	base := pxResult{Name: name, Config: cfg(keys[0]), Units: units()}
	st := []pxResult{base}
	nz := 0
	for round, nr := 0, r.Range(1, 3); round < nr; round++ {
		// no values, one or two keys nobody has seen
		fresh := keys[1+2*round : 1+2*round+r.Range(1, 2)]
		z := pxResult{Name: name, Config: append(append([][3]string(nil), base.Config...), cfg(fresh...)...)}
		st = append(st, z)
		nz++
		if r.Chance(0.3) {
			st = append(st, z) // twice in a row
		}
		// results that lack those keys
		st = append(st, pxResult{Name: name, Config: base.Config, Units: units()})
		if r.Chance(0.5) {
			st = append(st, pxResult{Name: r.Pick([]string{"Fib", "Y"}), Config: cfg(keys[0]), Units: units()})
		}
		if r.Chance(0.4) {
			st = append(st, pxResult{Name: name, Units: units()}) // no config at all
		}
		if r.Chance(0.4) {
			// the keys arrive again, now with values
			z2 := z
			z2.Units = units()
			st = append(st, z2, base)
		}
	}
	st = append(st, pl.stream(r, r.Range(2, 6))...)
	perms := pxAllPerms(len(es))
	if len(es) > 3 {
		perms = pxSomePerms(r, len(es), 4)
	}
	o.Count(fmt.Sprintf("zero-values family: results without values bringing new keys=%d", nz))
	return pxProtoCase(o, r, es, st, perms, false)
}

// (C08-b) Keys first created with trailing fields empty after the field set has
// grown, the same tuple projected again (and again after more growth).
func c08Grow(o *hx.Out, r *hx.Rng, pl *pxPools) error {
	keys := pxShuffled(r, pl.cfgKeys)
	var es []*pxExpr
	switch r.Intn(4) {
	case 0:
		es = append(es, pxE(false, r, pxFirst(".config")))
	case 1:
		es = append(es, pxE(false, r, pxFirst(keys[0]), pxFirst(".config")))
	case 2:
		es = append(es, pxE(true, r, pxFirst(".config")))
	default:
		es = append(es, pxE(false, r, pxFirst(".config"), pxFirst("/a")))
	}
	for i, n := 0, r.Intn(3); i < n; i++ {
		es = append(es, pl.expr(r))
	}
	var st []pxResult
	var cur [][3]string
	grow := func(k int) {
		for ; k > 0 && len(cur) < len(keys); k-- {
			cur = append(cur, [3]string{keys[len(cur)], r.Pick([]string{"v1", "v2"}), "file"})
			st = append(st, pxResult{Name: "Fib", Config: append([][3]string(nil), cur...), Units: []string{"sec/op"}})
		}
	}
	grow(r.Range(3, 5))
	var lates []pxResult
	nl := 0
	for round, nr := 0, r.Range(1, 3); round < nr; round++ {
		// new tuples over the OLDEST keys only
		for i, n := 0, r.Range(1, 3); i < n; i++ {
			late := pxResult{Name: r.Pick([]string{"Fib", "Fib/a=1"}), Units: []string{"sec/op"}}
			for j, m := 0, r.Range(0, 2); j < m; j++ {
				late.Config = append(late.Config, [3]string{keys[j], fmt.Sprintf("w%d%d", round, i), "file"})
			}
			lates = append(lates, late)
			st = append(st, late)
			nl++
			if r.Chance(0.6) {
				st = append(st, late)
			}
		}
		st = append(st, st[r.Intn(len(st))])
		grow(r.Range(0, 2))
		for _, l := range lates {
			if r.Chance(0.7) {
				st = append(st, l)
			}
		}
	}
	perms := pxAllPerms(len(es))
	if len(es) > 3 {
		perms = pxSomePerms(r, len(es), 4)
	}
	o.Count(fmt.Sprintf("grow family: late tuples=%s", pxBucket(nl)))
	return pxProtoCase(o, r, es, st, perms, false)
}

// (C08-b) /gomaxprocs together with another sub-name key (same expression or
// another one, parsed earlier or later), .fullname explicit or via Residue, on
// names that spell GOMAXPROCS as -N and as /gomaxprocs=N.
var c08GmNames = []string{"X-8", "X/gomaxprocs=8", "X/size=1-8", "X/size=1/gomaxprocs=8", "X/gomaxprocs=8/size=1", "X", "X/size=1",
	"X-4", "X/gomaxprocs=4", "Y-8", "X/a=1-8", "X/a=1/gomaxprocs=8", "X/size=2-8", "X/size=1/a=1-8", "X/a=1/size=1/gomaxprocs=8",
	"Y/gomaxprocs=8", "X/gomaxprocs=4-8", "X/size=2/gomaxprocs=8", "X/b=1-8"}

func c08Gomax(o *hx.Out, r *hx.Rng, pl *pxPools) error {
	sub := r.Pick([]string{"/size", "/size", "/a"})
	fields := []pxSpec{{Key: "/gomaxprocs", Order: r.Pick([]string{"first", "num"})}, pxFirst(sub)}
	explicit := r.Chance(0.5)
	if explicit {
		fields = append(fields, pxFirst(".fullname"))
	}
	for _, k := range []string{".name", "/a", "goos", ".config"} {
		if k != sub && r.Chance(0.25) {
			fields = append(fields, pxFirst(k))
		}
	}
	for j := len(fields) - 1; j > 0; j-- {
		k := r.Intn(j + 1)
		fields[j], fields[k] = fields[k], fields[j]
	}
	// cut into 1-3 expressions
	var es []*pxExpr
	var cur []pxSpec
	for i, f := range fields {
		cur = append(cur, f)
		if i == len(fields)-1 || (len(es) < 2 && r.Chance(0.5)) {
			es = append(es, pxE(r.Chance(0.15), r, cur...))
			cur = nil
		}
	}
	var st []pxResult
	for i, n := 0, r.Range(8, 16); i < n; i++ {
		res := pxResult{Name: c08GmNames[r.Intn(len(c08GmNames))], Units: []string{"sec/op"}}
		if r.Chance(0.5) {
			res.Config = append(res.Config, [3]string{"goos", r.Pick([]string{"linux", "darwin"}), "file"})
		}
		st = append(st, res)
	}
	// hyphens that are not a GOMAXPROCS suffix (c08gaps3.go)
	nh := r.Range(3, 8)
	for i := 0; i < nh; i++ {
		st = append(st, pxResult{Name: c08GmHyphen[r.Intn(len(c08GmHyphen))], Units: []string{"sec/op"}})
	}
	for j := len(st) - 1; j > 0; j-- {
		k := r.Intn(j + 1)
		st[j], st[k] = st[k], st[j]
	}
	o.Count(fmt.Sprintf("gomaxprocs family: names with a hyphen that is no GOMAXPROCS suffix=%s", pxBucket(nh)))
	// the two spellings of one configuration always meet
	st = append(st, pxResult{Name: "X-8", Units: []string{"sec/op"}}, pxResult{Name: "X/gomaxprocs=8", Units: []string{"sec/op"}},
		pxResult{Name: "X/size=1-8", Units: []string{"sec/op"}}, pxResult{Name: "X/size=1/gomaxprocs=8", Units: []string{"sec/op"}})
	o.Count(fmt.Sprintf("gomaxprocs family: exprs=%d fullname-explicit=%v", len(es), explicit))
	return pxProtoCase(o, r, es, st, pxAllPerms(len(es)), false)
}
