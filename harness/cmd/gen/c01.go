package main

import (
	"bytes"
	"fmt"
	"math"
	"os"
	"path/filepath"
	"strconv"
	"strings"
	"unicode"
	"unicode/utf8"

	"golang.org/x/perf/benchfmt"
	"golang.org/x/perf/benchproc"
	"golang.org/x/perf/benchunit"
	"verifharness/internal/hx"
)

func init() { gens["C01"] = genC01 }

type c01Edit struct {
	Op string `json:"op"` // set | setfile | flip | value
	K  string `json:"k"`
	V  string `json:"v,omitempty"`
}
type c01Val struct {
	Value, OrigValue float64
	Unit, OrigUnit   string
}
type c01Step struct {
	Kind  string    `json:"kind"` // result | unit | syntaxerror
	Edits []c01Edit `json:"edits,omitempty"`
	Name  string    `json:"name,omitempty"`
	Iters int       `json:"iters,omitempty"`
	Vals  []string  `json:"values,omitempty"` // rendered
	Unit  [4]string `json:"unit,omitempty"`   // tidied unit, key, orig unit, value
	vals  []c01Val
}
type c01Input struct {
	Kind  string    `json:"kind"` // history | text
	Steps []c01Step `json:"steps,omitempty"`
	Files []c02File `json:"files,omitempty"`
	Paths []string  `json:"paths,omitempty"`
}

// fmtTable records fmt's %v for every float the writer prints.
type c01Fmt struct {
	seen map[uint64]bool
	out  []hx.Sx
	diff int
}

func (t *c01Fmt) add(x float64) {
	b := math.Float64bits(x)
	if math.IsNaN(x) {
		b = 0x7FF8000000000001
	}
	if t.seen[b] {
		return
	}
	t.seen[b] = true
	s := fmt.Sprintf("%v", x)
	if s != strconv.FormatFloat(x, 'g', -1, 64) {
		t.diff++
	}
	t.out = append(t.out, hx.L(hx.F64(x), hx.S(s)))
}

// c01ReprintLen is the length of the benchmark line the format prescribes for
// res when written back ("Benchmark<name> <iters>" then " <%v> <unit>" per
// measurement as originally written), without the newline.
func c01ReprintLen(res *benchfmt.Result) int {
	n := len("Benchmark") + len(res.Name) + 1 + len(strconv.Itoa(res.Iters))
	for _, v := range res.Values {
		x, u := v.Value, v.Unit
		if v.OrigUnit != "" {
			x, u = v.OrigValue, v.OrigUnit
		}
		n += 1 + len(fmt.Sprintf("%v", x)) + 1 + len(u)
	}
	return n
}

// c01LongLine builds a benchmark line shorter than 64 KiB whose measurements
// re-print longer (1e9 -> 1e+09, .5 -> 0.5 ...) so that the written line reaches 64 KiB.
func c01LongLine(r *hx.Rng, witness bool) string {
	if witness {
		return "BenchmarkX 1" + strings.Repeat(" 1e9 u", 10920) + "\n"
	}
	type lv struct {
		lit  string
		grow int
	}
	var lits []lv
	for _, l := range []string{"1e9", "1e7", "1E9", "1e21", ".5", "2e10", "1e-7", "1e+9"} {
		x, _ := strconv.ParseFloat(l, 64)
		lits = append(lits, lv{l, len(fmt.Sprintf("%v", x)) - len(l)})
	}
	unit := []string{"u", "x", "ns/op", "B"}[r.Intn(4)]
	head := "Benchmark" + []string{"X", "Long/n=1-8", "é"}[r.Intn(3)] + " " + []string{"1", "100"}[r.Intn(2)]
	var sb strings.Builder
	sb.WriteString(head)
	orig, re := len(head), len(head)
	for re < 65536+r.Intn(64) {
		l := lits[r.Intn(len(lits))]
		add := 1 + len(l.lit) + 1 + len(unit)
		if orig+add > 65535 {
			break
		}
		sb.WriteString(" " + l.lit + " " + unit)
		orig += add
		re += add + l.grow
	}
	sb.WriteString("\n")
	pre, post := "", ""
	if r.Bool() {
		pre = "k: v\nBenchmarkA 1 1 ns/op\n"
	}
	if r.Bool() {
		post = "BenchmarkB 2 2 MB/s\n"
	}
	return pre + sb.String() + post
}

func c01ReadBack(out []byte) (*c02Obs, hx.Sx, error) {
	rd := benchfmt.NewReader(bytes.NewReader(out), "out")
	ob := &c02Obs{}
	for rd.Scan() {
		if e := ob.add(rd.Result()); e != nil {
			return nil, hx.L(), e
		}
	}
	errx := hx.L()
	if e := rd.Err(); e != nil {
		errx = hx.L(hx.I(c02ErrLine(e, "out")))
	}
	return ob, errx, nil
}

// ---------- histories through the API ----------

// c01KeyIsKey: the key rule of the format (non-empty, first rune lower case, no
// white space, no upper case, no colon).
func c01KeyIsKey(k string) bool {
	if k == "" {
		return false
	}
	for i, r := range k {
		if i == 0 && !unicode.IsLower(r) {
			return false
		}
		if unicode.IsSpace(r) || unicode.IsUpper(r) || r == ':' {
			return false
		}
	}
	return true
}

func c01HasSpace(b []byte) bool {
	for len(b) > 0 {
		r, n := utf8.DecodeRune(b)
		if unicode.IsSpace(r) {
			return true
		}
		b = b[n:]
	}
	return false
}

// c01ResultTags: which known findings of C01 the record res, as handed to
// Writer.Write, falls under.  Decided from the record alone.
func c01ResultTags(res *benchfmt.Result, set map[string]bool) {
	for _, c := range res.Config {
		if !c.File {
			continue // internal configuration is not written
		}
		if !c01KeyIsKey(c.Key) {
			set["C01_file_key_not_a_key"] = true
		}
		v := c.Value
		if len(v) == 0 {
			set["C01_empty_file_value"] = true
			continue
		}
		if i := bytes.IndexByte(v, '\n'); i >= 0 {
			set["C01_value_contains_LF"] = true
			v = v[:i]
		}
		if len(v) > 0 && v[len(v)-1] == '\r' {
			set["C01_value_ends_with_CR"] = true
			v = v[:len(v)-1]
		}
		if len(v) > 0 && (v[0] == ' ' || v[0] == '\t') {
			set["C01_value_starts_with_blank"] = true
		}
	}
	if len(res.Values) == 0 {
		set["C01_result_without_measurements"] = true
	}
	if c01HasSpace([]byte(res.Name)) {
		set["C01_name_with_white_space"] = true
	}
}

var c01FindingTags = []string{"C01_value_ends_with_CR", "C01_value_starts_with_blank", "C01_value_contains_LF", "C01_empty_file_value",
	"C01_file_key_not_a_key", "C01_result_without_measurements", "C01_name_with_white_space", "C01_repeated_unit_metadata"}

func c01History(o *hx.Out, steps []c01Step, tags ...string) (err error) {
	in := c01Input{Kind: "history", Steps: steps}
	key := fmt.Sprintf("%+v", steps)
	defer func() {
		if p := recover(); p != nil {
			o.Count("panic")
			o.Add(hx.L(hx.I(3)), in, key, false, append(tags, "panic")...)
			err = nil
		}
	}()
	var buf bytes.Buffer
	w := benchfmt.NewWriter(&buf)
	res := &benchfmt.Result{}
	ft := &c01Fmt{seen: map[uint64]bool{}}
	var sx []hx.Sx
	found := map[string]bool{}       // known-finding classes the written records fall under
	nameClass := map[string]bool{}   // keyword-like names among the results written
	unitSeen := map[[2]string]bool{} // (tidied unit, key) of the unit-metadata records written so far
	// class bookkeeping: a key added into the slot just vacated by a deletion
	// (no other key added in between) with the opposite kind of the deleted entry
	delSet, delKind, delKey := false, false, ""
	recycledOpp, recycledOppSame := 0, 0
	track := func(e c01Edit, file bool) {
		i, ok := res.ConfigIndex(e.K)
		switch {
		case e.V == "" && ok:
			delSet, delKind, delKey = true, res.Config[i].File, e.K
		case e.V != "" && !ok:
			if delSet && delKind != file {
				recycledOpp++
				if delKey == e.K {
					recycledOppSame++
				}
			}
			delSet = false
		}
	}
	for si := range steps {
		st := &steps[si]
		switch st.Kind {
		case "unit":
			m := &benchfmt.UnitMetadata{UnitMetadataKey: benchfmt.UnitMetadataKey{Unit: st.Unit[0], Key: st.Unit[1]}, OrigUnit: st.Unit[2], Value: st.Unit[3]}
			if e := w.Write(m); e != nil {
				return e
			}
			_, tu := benchunit.Tidy(1, st.Unit[2])
			if unitSeen[[2]string{tu, st.Unit[1]}] {
				found["C01_repeated_unit_metadata"] = true
			}
			unitSeen[[2]string{tu, st.Unit[1]}] = true
			sx = append(sx, hx.L(hx.I(1), hx.S(st.Unit[0]), hx.S(st.Unit[1]), hx.S(st.Unit[2]), hx.S(st.Unit[3])))
			continue
		case "syntaxerror":
			if e := w.Write(&benchfmt.SyntaxError{FileName: "x", Line: 3, Msg: "some error"}); e != nil {
				return e
			}
			sx = append(sx, hx.L(hx.I(2)))
			continue
		}
		var ex []hx.Sx
		for _, e := range st.Edits {
			switch e.Op {
			case "set":
				track(e, false)
				res.SetConfig(e.K, e.V)
				ex = append(ex, hx.L(hx.I(0), hx.S(e.K), hx.S(e.V)))
			case "setfile":
				track(e, true)
				res.SetConfig(e.K, e.V)
				if e.V != "" {
					i, _ := res.ConfigIndex(e.K)
					res.Config[i].File = true
				}
				ex = append(ex, hx.L(hx.I(1), hx.S(e.K), hx.S(e.V)))
			case "flip":
				if i, ok := res.ConfigIndex(e.K); ok {
					res.Config[i].File = !res.Config[i].File
				}
				ex = append(ex, hx.L(hx.I(2), hx.S(e.K)))
			case "value":
				if i, ok := res.ConfigIndex(e.K); ok {
					res.Config[i].Value = []byte(e.V)
				}
				ex = append(ex, hx.L(hx.I(3), hx.S(e.K), hx.S(e.V)))
			}
		}
		res.Name = benchfmt.Name(st.Name)
		res.Iters = st.Iters
		res.Values = res.Values[:0]
		var vx []hx.Sx
		for _, v := range st.vals {
			res.Values = append(res.Values, benchfmt.Value{Value: v.Value, Unit: v.Unit, OrigValue: v.OrigValue, OrigUnit: v.OrigUnit})
			vx = append(vx, hx.L(hx.F64(v.Value), hx.S(v.Unit), hx.F64(v.OrigValue), hx.S(v.OrigUnit)))
			if v.OrigUnit == "" {
				ft.add(v.Value)
			} else {
				ft.add(v.OrigValue)
			}
		}
		var cx []hx.Sx
		for _, c := range res.Config {
			cx = append(cx, hx.L(hx.S(c.Key), hx.B(c.Value), hx.Bool(c.File)))
		}
		c01ResultTags(res, found)
		if c := c01NameClass(st.Name); c != "" {
			nameClass[c] = true
		}
		if e := w.Write(res); e != nil {
			return e
		}
		sx = append(sx, hx.L(hx.I(0), hx.List(ex), hx.S(st.Name), hx.I(st.Iters), hx.List(vx), hx.List(cx)))
		o.Count(fmt.Sprintf("history:edits-in-step=%d", min(len(st.Edits), 4)))
		for _, e := range st.Edits {
			o.Count("edit:" + e.Op)
		}
	}
	out := buf.Bytes()
	ob, errx, e := c01ReadBack(out)
	if e != nil {
		return e
	}
	for _, t := range c01FindingTags {
		if found[t] {
			tags = append(tags, t)
			o.Count("class:history:" + t)
		}
	}
	if len(found) == 0 {
		o.Count("class:history:every-record-expressible")
	}
	if ft.diff > 0 {
		o.Count("fmt-%v-differs-from-strconv-g")
	}
	for _, c := range []string{"name-starts-with-Benchmark", "name-looks-like-format-keyword"} {
		if nameClass[c] {
			o.Count("class:history:" + c)
		}
	}
	if recycledOpp > 0 {
		o.Count("class:history:key-added-into-recycled-slot-of-opposite-kind")
	}
	if recycledOppSame > 0 {
		o.Count("class:history:key-deleted-and-re-added-with-opposite-kind-in-same-slot")
	}
	c := hx.L(hx.I(1), c02Oracle([]string{string(out)}), hx.List(ft.out), hx.List(sx), hx.B(out), hx.List(ob.recs), errx)
	o.Count(fmt.Sprintf("history:steps=%d", min(len(steps), 12)))
	o.Add(c, in, key, len(steps) > 1, tags...)
	return nil
}

var c01Keys = []string{"goos", "pkg", "k1", "é", "note"}
var c01KVals = []string{"linux", "v", "x y", "1", "a:b", "é", "w  ", "darwin", "k1: nested"}
var c01Special = []float64{0, math.Copysign(0, -1), math.Inf(1), math.Inf(-1), math.NaN(), 1, 0.30000000000000004, 0.1, 1e21, 1e20, 123456789012345678,
	5e-324, 2.2250738585072014e-308, math.MaxFloat64, 1e-7, 100, 9223372036854775807, 9007199254740993, 1.7976931348623157e308, 4.9406564584124654e-324, -1.5}

func c01Value(r *hx.Rng) c01Val {
	var x float64
	switch r.Intn(4) {
	case 0:
		x = c01Special[r.Intn(len(c01Special))]
	case 1:
		x = math.Float64frombits(r.U64())
	case 2:
		x = float64(r.Intn(1000000)) / 64
	default:
		x = float64(r.Intn(100000))
	}
	u := []string{"ns/op", "MB/s", "B/op", "allocs/op", "widgets", "sec/op", "ns", "é/op", "MB*ns/x"}[r.Intn(9)]
	if r.Chance(0.15) {
		// built through the API without going through Tidy
		return c01Val{Value: x, Unit: u}
	}
	tv, tu := benchunit.Tidy(x, u)
	if tu == u {
		return c01Val{Value: x, Unit: u}
	}
	return c01Val{Value: tv, Unit: tu, OrigValue: x, OrigUnit: u}
}

// c01Hostile: record classes the line format cannot express (each a known
// finding of C01), switched on per history.  The tags are NOT derived from these
// options but from the records written (c01ResultTags).
type c01Hostile struct{ cr, blank, lf, empty, key, nomeas, name, unitdup bool }

var c01BlankVals = []string{" v", "\tx y", "  ", " \tv", "  linux"}
var c01LFVals = []string{"a\nnot a line", "a\nj9: injected", "x\n", "\nz", "a\r\nb", "v\n\nw", "linux\nj9: injected\nmore text"}
var c01BadKeys = []string{"Key", "k 1", "kK", "1k", ""}
var c01SpaceNames = []string{"a b", "X 5", "a\tb", "Fib/n=10 -8"}

// c01KeywordNames: names that themselves start with the line prefix "Benchmark"
// (the line reads BenchmarkBenchmark...) or look like another keyword of the
// format.  All are one field without upper-case-initial trouble for the
// reader: they must read back unchanged.
var c01KeywordNames = []string{"BenchmarkDecode-8", "BenchmarksPerSecond-8", "BenchmarkQueue/depth=4", "Benchmark", "BenchmarkBenchmarkX",
	"Benchmark-8", "Benchmarks", "Unit", "PASS", "ok", "FAIL", "Unit/op", "benchmark", "BenchmarkUnit", "okBenchmark"}

// c01NameClass: the class of a benchmark name for the distribution record.
func c01NameClass(n string) string {
	switch {
	case strings.HasPrefix(n, "Benchmark"):
		return "name-starts-with-Benchmark"
	case n == "Unit" || n == "PASS" || n == "ok" || n == "FAIL" || n == "benchmark" || strings.HasPrefix(n, "Unit") || strings.HasPrefix(n, "ok"):
		return "name-looks-like-format-keyword"
	}
	return ""
}

func c01GenHistory(r *hx.Rng, h c01Hostile) []c01Step {
	n := r.Range(1, 12)
	nk := r.Range(1, 5)
	keys := c01Keys[:nk]
	if h.key {
		keys = append(append([]string{}, keys...), c01BadKeys[r.Intn(len(c01BadKeys))])
		if r.Bool() {
			keys = append(keys, c01BadKeys[r.Intn(len(c01BadKeys))])
		}
	}
	present := map[string]bool{}
	var order []string // first-seen order of keys, as the writer keeps it
	inOrder := map[string]bool{}
	val := func() string {
		if h.cr && r.Chance(0.3) {
			return c01KVals[r.Intn(len(c01KVals))] + "\r"
		}
		if h.blank && r.Chance(0.3) {
			return c01BlankVals[r.Intn(len(c01BlankVals))]
		}
		if h.lf && r.Chance(0.3) {
			return c01LFVals[r.Intn(len(c01LFVals))]
		}
		return c01KVals[r.Intn(len(c01KVals))]
	}
	var steps []c01Step
	kind := map[string]bool{} // file?
	lastDel, lastDelKind := "", false
	for i := 0; i < n; i++ {
		if r.Chance(0.08) || h.unitdup && r.Chance(0.25) {
			u := []string{"ns/op", "sec/op", "MB/s", "widgets", "B/s"}[r.Intn(5)]
			_, tu := benchunit.Tidy(1, u)
			steps = append(steps, c01Step{Kind: "unit", Unit: [4]string{tu, []string{"better", "assume"}[r.Intn(2)], u, []string{"lower", "higher", "exact"}[r.Intn(3)]}})
			continue
		}
		if r.Chance(0.03) {
			steps = append(steps, c01Step{Kind: "syntaxerror"})
			continue
		}
		st := c01Step{Kind: "result"}
		ne := 0
		switch q := r.Intn(10); {
		case q < 2:
			ne = 0 // same configuration
		case q < 6:
			ne = 1
		case q < 8:
			ne = 2
		default:
			ne = r.Range(3, 5)
		}
		if i == 0 && ne == 0 {
			ne = r.Range(1, 3)
		}
		edit := func(k string) c01Edit {
			if !present[k] {
				present[k] = true
				file := r.Chance(0.7)
				if lastDel != "" && r.Chance(0.6) {
					file = !lastDelKind // the recycled slot held an entry of the other kind
				}
				lastDel = ""
				kind[k] = file
				if file {
					return c01Edit{Op: "setfile", K: k, V: val()} // add / re-add as file key
				}
				return c01Edit{Op: "set", K: k, V: val()} // add as internal key
			}
			switch r.Intn(6) {
			case 0:
				present[k] = false
				lastDel, lastDelKind = k, kind[k]
				return c01Edit{Op: "set", K: k, V: ""} // delete
			case 1:
				kind[k] = !kind[k]
				return c01Edit{Op: "flip", K: k} // file <-> internal
			case 2:
				kind[k] = false
				return c01Edit{Op: "set", K: k, V: val()} // SetConfig on a file key: turns internal
			case 3:
				if h.empty && r.Chance(0.5) {
					return c01Edit{Op: "value", K: k, V: ""} // Config[i].Value emptied in place: the key stays
				}
				return c01Edit{Op: "value", K: k, V: val()} // value changed in place
			case 4:
				present[k] = false
				lastDel, lastDelKind = k, kind[k]
				return c01Edit{Op: "setfile", K: k, V: ""}
			}
			kind[k] = true
			return c01Edit{Op: "setfile", K: k, V: val()} // change
		}
		if ne >= 2 && len(order) >= 2 && r.Chance(0.5) {
			// delete a key while its successor in the writer's order changes or is deleted too
			j := r.Intn(len(order) - 1)
			if present[order[j]] {
				present[order[j]] = false
				st.Edits = append(st.Edits, c01Edit{Op: "set", K: order[j], V: ""})
				st.Edits = append(st.Edits, edit(order[j+1]))
				ne -= 2
			}
		}
		for j := 0; j < ne; j++ {
			k := keys[r.Intn(len(keys))]
			if lastDel != "" && !present[lastDel] && r.Chance(0.4) {
				k = lastDel // re-add the key just deleted, nothing added in between
			}
			st.Edits = append(st.Edits, edit(k))
		}
		for _, k := range keys {
			if present[k] && !inOrder[k] {
				inOrder[k] = true
				order = append(order, k)
			}
		}
		// keys that disappeared leave the writer's order
		var no []string
		for _, k := range order {
			if present[k] {
				no = append(no, k)
			} else {
				delete(inOrder, k)
			}
		}
		order = no
		st.Name = []string{"X", "Fib/n=10-8", "é", "", "Enc/size=1k", "a:b"}[r.Intn(6)]
		st.Iters = []int{1, 100, 0, -5, math.MaxInt64, 20000, math.MinInt64}[r.Intn(7)]
		if r.Chance(0.12) {
			st.Name = c01KeywordNames[r.Intn(len(c01KeywordNames))]
		}
		if h.name && r.Chance(0.3) {
			st.Name = c01SpaceNames[r.Intn(len(c01SpaceNames))]
		}
		nv := r.Range(1, 3)
		if h.nomeas && r.Chance(0.3) {
			nv = 0
		}
		for j := 0; j < nv; j++ {
			v := c01Value(r)
			st.vals = append(st.vals, v)
			st.Vals = append(st.Vals, fmt.Sprintf("%v %s (orig %v %q)", v.Value, v.Unit, v.OrigValue, v.OrigUnit))
		}
		steps = append(steps, st)
	}
	return steps
}

// ---------- arbitrary text through the cmd/benchfilter loop ----------

func c01Text(o *hx.Out, dir string, names, contents, paths []string, tags ...string) (err error) {
	in := c01Input{Kind: "text", Paths: paths}
	for i, n := range names {
		in.Files = append(in.Files, c02File{Name: n, Content: strconv.Quote(contents[i])})
	}
	key := strings.Join(paths, "\x00") + "\x01" + strings.Join(contents, "\x00")
	defer func() {
		if p := recover(); p != nil {
			o.Count("panic")
			o.Add(hx.L(hx.I(3)), in, key, false, append(tags, "panic")...)
			err = nil
		}
	}()
	var fsx []hx.Sx
	for i, n := range names {
		p := filepath.Join(dir, n)
		if e := os.WriteFile(p, []byte(contents[i]), 0o644); e != nil {
			return e
		}
		fsx = append(fsx, hx.L(hx.S(n), hx.S(contents[i])))
	}
	defer func() {
		for _, n := range names {
			os.Remove(filepath.Join(dir, n))
		}
	}()
	// the loop of cmd/benchfilter/main.go with the query "*"
	filter, ferr := benchproc.NewFilter("*")
	if ferr != nil {
		return ferr
	}
	var buf bytes.Buffer
	writer := benchfmt.NewWriter(&buf)
	files := benchfmt.Files{Paths: paths, AllowStdin: false, AllowLabels: true}
	ob := &c02Obs{}
	ft := &c01Fmt{seen: map[uint64]bool{}}
	crValue := false
	last, changes, sameLen := map[string]string{}, map[string]int{}, 0
	longLine := false
	nameClass := map[string]bool{}
	for files.Scan() {
		rec := files.Result()
		if e := ob.add(rec); e != nil {
			return e
		}
		switch rec := rec.(type) {
		case *benchfmt.SyntaxError:
			continue
		case *benchfmt.Result:
			if ok, _ := filter.Apply(rec); !ok {
				continue
			}
			if c01ReprintLen(rec) >= 65536 {
				longLine = true
			}
			if c := c01NameClass(rec.Name.String()); c != "" {
				nameClass[c] = true
			}
			for _, c := range rec.Config {
				if !c.File {
					continue
				}
				if old, ok := last[c.Key]; ok && old != string(c.Value) && len(old) == len(c.Value) {
					changes[c.Key]++
					sameLen = max(sameLen, changes[c.Key])
				}
				last[c.Key] = string(c.Value)
			}
			for _, v := range rec.Values {
				if v.OrigUnit == "" {
					ft.add(v.Value)
				} else {
					ft.add(v.OrigValue)
				}
			}
			for _, c := range rec.Config {
				if c.File && len(c.Value) > 0 && c.Value[len(c.Value)-1] == '\r' {
					crValue = true
				}
			}
		}
		if e := writer.Write(rec); e != nil {
			return e
		}
	}
	out := buf.Bytes()
	rb, errx, e := c01ReadBack(out)
	if e != nil {
		return e
	}
	if crValue {
		tags = append(tags, "C01_value_ends_with_CR")
		o.Count("class:file-value-ends-with-CR")
	}
	if longLine {
		// input predicate: a result line (shorter than the scanner's limit, or it would
		// not have been read) whose re-printed form reaches 64 KiB
		tags = append(tags, "C01_reprinted_line_exceeds_scanner_limit")
		o.Count("class:text:reprinted-line>=64KiB")
	}
	for _, c := range []string{"name-starts-with-Benchmark", "name-looks-like-format-keyword"} {
		if nameClass[c] {
			o.Count("class:text:" + c)
		}
	}
	if sameLen >= 3 {
		o.Count("class:text:file-value-changes-to-same-length>=3 (same Result streamed reader->writer)")
	}
	o.Dist["text:results"] += ob.nres
	o.Dist["text:unit-metadata"] += ob.nunit
	o.Dist["text:syntax-errors-dropped"] += ob.nerr
	c := hx.L(hx.I(2), c02Oracle(append(append([]string{}, contents...), string(out))), hx.List(ft.out), hx.List(fsx), hx.SList(paths),
		hx.List(ob.recs), hx.B(out), hx.List(rb.recs), errx)
	o.Add(c, in, key, ob.nres > 0, tags...)
	return nil
}

func genC01(o *hx.Out, r *hx.Rng, tier string, replay string) error {
	o.Rule = "(a) histories of 1-12 records written by benchfmt.Writer: results whose configuration is edited between writes through the API over 1-5 keys (add / re-add as file or internal key, change, in-place value change, delete, flip file<->internal, SetConfig on a file key, no change; a deletion together with a change or deletion of the next key in the writer's order), 1-3 measurements from {0,-0,+-Inf,NaN,subnormal,17-significant-digit,random bits} x {rescaled by Tidy, plain, API-built without original}, unit-metadata and SyntaxError records in between; (b) arbitrary texts from the C02 generator (1-3 files, label=path arguments) through the cmd/benchfilter loop (Files -> Filter \"*\" -> Writer), 35% of the files from a churn generator (1-3 keys, the main key taking 4-8 successive values of ONE length with 1-2 results after each change, other keys changed / deleted / re-added around it, unit and foreign lines); (c) the REAL cmd/benchfilter binary built from the module under test, run on such files (1-3 files, label=path, repeated paths; 15% through stdin) with the queries *, key:value and .unit:literal (mostly naming a key/value/unit present in the input), its stdout read back and compared with the filtered record stream (results, file configuration, unit metadata); (d) one Reader reused through Reset over 2-4 inputs, with and without an initial label on the key that the first line of the input sets, every record streamed into one Writer. Histories favour re-adding the key just deleted (or another key) with the opposite kind into the vacated slot. The written bytes are read back by benchfmt.Reader. Records the line format cannot express are generated on purpose, each class switched on in about 2.5% of the histories plus directed witnesses, and tagged FROM THE RECORDS WRITTEN (not from the option): a file value ending in CR (C01_value_ends_with_CR), starting with a blank/tab or all blank (C01_value_starts_with_blank), containing LF with an inert rest, a rest that sets a fresh key j9, an empty first line, CR LF (C01_value_contains_LF), emptied in place (C01_empty_file_value); a file key that is no key of the format: Key, \"k 1\", kK, 1k, empty (C01_file_key_not_a_key); a result without measurements (C01_result_without_measurements) or with white space in its name (C01_name_with_white_space); a unit-metadata record repeated for its (tidied unit, key) with the same or another value (C01_repeated_unit_metadata); the same shapes on INTERNAL configuration as an untagged control. Tagged too is C01_reprinted_line_exceeds_scanner_limit (1-2 texts with a result line just under 64 KiB whose measurements re-print longer, 1e9 -> 1e+09, so that the written line exceeds the reader's line limit). Names that START WITH the line prefix themselves (API name BenchmarkDecode-8 / BenchmarkQueue/depth=4, text line BenchmarkBenchmarkDecode-8 ...) or look like another keyword of the format (Unit, PASS, ok, FAIL, benchmark, Benchmarks): 12% of the results of a history, 15% of the benchmark lines of the churn texts (text, binary and Reset routes), one directed history per such name and two fixed texts; judged like every name (it reads back unchanged). non-trivial = more than one record; distinct by history / input bytes"
	nh, nt, nb, nr := 1500, 400, 220, 300
	if tier == "thorough" {
		nh, nt, nb, nr = 40000, 8000, 3000, 6000
	}
	// directed histories
	kv := func(op, k, v string) c01Edit { return c01Edit{Op: op, K: k, V: v} }
	one := func(edits ...c01Edit) c01Step {
		return c01Step{Kind: "result", Edits: edits, Name: "X", Iters: 1, vals: []c01Val{{Value: 1e-9, Unit: "sec/op", OrigValue: 1, OrigUnit: "ns/op"}}}
	}
	directed := [][]c01Step{
		{one(kv("setfile", "k", "v")), one(kv("flip", "k", ""))},                             // file -> internal
		{one(kv("setfile", "k", "v")), one(kv("set", "k", "v"))},                             // SetConfig on a file key
		{one(kv("set", "k", "v")), one(kv("flip", "k", ""))},                                 // internal -> file
		{one(kv("setfile", "a", "1"), kv("setfile", "b", "2"), kv("setfile", "c", "3")), one(kv("set", "a", ""), kv("setfile", "b", "9"))},
		{one(kv("setfile", "a", "1"), kv("setfile", "b", "2"), kv("setfile", "c", "3")), one(kv("set", "a", ""), kv("set", "b", ""))},
		{one(kv("setfile", "a", "1"), kv("setfile", "b", "2")), one(kv("set", "a", "")), one(kv("setfile", "a", "1"))},
		{one(kv("setfile", "a", "1"), kv("setfile", "b", "2")), one(kv("set", "a", ""), kv("setfile", "c", "3")), one()},
		{one(), one(kv("setfile", "a", "1")), one(kv("set", "a", "")), one()},
		{one(kv("setfile", "a", "1"), kv("set", "i", "x")), one(kv("flip", "a", ""), kv("flip", "i", ""))},
		// a key deleted and re-added with the opposite kind, landing in the slot it vacated
		{one(kv("setfile", "a", "1"), kv("setfile", "b", "2")), one(kv("set", "a", "")), one(kv("set", "a", "1"))},
		{one(kv("set", "a", "1"), kv("setfile", "b", "2")), one(kv("set", "a", "")), one(kv("setfile", "a", "1"))},
		{one(kv("setfile", "a", "1")), one(kv("set", "a", "")), one(kv("set", "a", "1"))},
		{one(kv("set", "a", "x")), one(kv("setfile", "a", "")), one(kv("setfile", "a", "x"))},
		{one(kv("setfile", "a", "1")), one(kv("set", "a", ""), kv("set", "a", "1"))},
		{one(kv("set", "a", "1")), one(kv("set", "a", ""), kv("setfile", "a", "1"))},
		{one(kv("setfile", "a", "1"), kv("setfile", "b", "2")), one(kv("set", "b", ""), kv("set", "c", "3"))},
		{one(kv("set", "a", "1"), kv("set", "b", "2")), one(kv("set", "b", ""), kv("setfile", "c", "3"))},
		{one(kv("setfile", "a", "1"), kv("setfile", "b", "2"), kv("setfile", "c", "3")), one(kv("set", "a", ""), kv("set", "b", "")), one(kv("set", "b", "2"), kv("set", "a", "1"))},
	}
	for _, n := range c01KeywordNames {
		// API records whose name starts with the line prefix or looks like a keyword
		a, b := one(kv("setfile", "k", "v")), one()
		a.Name, b.Name = n, n+"/sub=1-8"
		directed = append(directed, []c01Step{a, b, one()})
	}
	for _, h := range directed {
		if err := c01History(o, h, "directed"); err != nil {
			return err
		}
	}
	if err := c01History(o, []c01Step{one(kv("setfile", "k", "v\r")), one()}, "directed"); err != nil {
		return err
	}
	// records the line format cannot express (known findings; the tags come from the records)
	unit := func(u, k, v string) c01Step {
		_, tu := benchunit.Tidy(1, u)
		return c01Step{Kind: "unit", Unit: [4]string{tu, k, u, v}}
	}
	nomeas := one(kv("setfile", "k", "v"))
	nomeas.vals = nil
	spaced := one(kv("setfile", "k", "v"))
	spaced.Name = "a b"
	inexpressible := [][]c01Step{
		{one(kv("setfile", "k", " v")), one()},
		{one(kv("setfile", "k", "a\nj: injected")), one(kv("set", "k", "")), one()},
		{one(kv("setfile", "k", "v")), one(kv("value", "k", "")), one(kv("flip", "k", ""))},
		{one(kv("setfile", "k", "\r")), one()},
		{one(kv("setfile", "k", "  ")), one()},
		{one(kv("setfile", "Key", "v"), kv("setfile", "k", "w")), one(kv("set", "Key", ""))},
		{nomeas, one()},
		{spaced, one()},
		{unit("ns/op", "better", "lower"), one(), unit("ns/op", "better", "lower"), unit("sec/op", "better", "higher"), unit("ns/op", "assume", "exact")},
		{one(kv("setfile", "k", " a\r\nj9: injected\r")), one(kv("setfile", "k", "a")), one()},
	}
	for _, h := range inexpressible {
		if err := c01History(o, h, "directed"); err != nil {
			return err
		}
	}
	// control: the same shapes on INTERNAL configuration are not written and must round-trip strictly
	if err := c01History(o, []c01Step{one(kv("set", "k", "a\nj: injected"), kv("set", "Key", " v\r")), one(kv("value", "k", ""))}, "directed", "control"); err != nil {
		return err
	}
	for i := 0; i < nh; i++ {
		h := c01Hostile{cr: r.Chance(0.03), blank: r.Chance(0.025), lf: r.Chance(0.025), empty: r.Chance(0.05), key: r.Chance(0.025),
			nomeas: r.Chance(0.025), name: r.Chance(0.025), unitdup: r.Chance(0.025)}
		if err := c01History(o, c01GenHistory(r, h), "random"); err != nil {
			return err
		}
	}
	// text route on real files
	base := os.Getenv("VERIF_WORK")
	if base == "" {
		base = os.TempDir()
	}
	dir, err := os.MkdirTemp(base, "c01files")
	if err != nil {
		return err
	}
	defer os.RemoveAll(dir)
	cwd, _ := os.Getwd()
	if err := os.Chdir(dir); err != nil {
		return err
	}
	defer os.Chdir(cwd)
	fixed := []string{"k: v\r\r\nBenchmarkX 1 1 ns/op\n", "k: v\r\nBenchmarkX 1 1 ns/op\r\n", "a: 1\nBenchmarkX 1 0 ns/op +Inf MB/s NaN B/op\na:\nb: 2\nBenchmarkY 5 0.30000000000000004 widgets\n",
		// one key, four values of one length, a result after each (the reader reuses the value buffer)
		"goos: linux\nBenchmarkX 1 1 ns/op\ngoos: amd64\nBenchmarkX 1 1 ns/op\ngoos: win32\nBenchmarkX 1 1 ns/op\ngoos: plan9\nBenchmarkX 1 1 ns/op\ngoos: linux\nBenchmarkX 1 1 ns/op\n",
		"k: a\nj: x\nBenchmarkX 1 1 ns/op\nk: b\nBenchmarkX 1 1 ns/op\nk: c\nBenchmarkY 1 1 ns/op\nk: a\nBenchmarkX 2 1 ns/op\nk: b\nBenchmarkX 1 1 ns/op\n"}
	fixed = append(fixed,
		"BenchmarkBenchmarkDecode-8 100 12.5 ns/op\nBenchmarkBenchmarksPerSecond-8 5 2 MB/s\nBenchmarkBenchmark 1 1 ns/op\nBenchmarkBenchmarkBenchmarkX 1 1 ns/op\n",
		"k: v\nBenchmarkUnit 1 1 ns/op\nBenchmarkPASS 2 2 ns/op\nBenchmarkok 3 3 ns/op\nUnit ns/op better=lower\nPASS\nok  \tpkg\t1.2s\nBenchmarkFAIL 1 1 ns/op\nBenchmarkBenchmarkQueue/depth=4 7 1 widgets\n")
	for _, t := range fixed {
		if err := c01Text(o, dir, []string{"a"}, []string{t}, []string{"a"}, "fixed"); err != nil {
			return err
		}
	}
	// known finding C01_reprinted_line_exceeds_scanner_limit: the witness and a random relative
	for _, t := range []string{c01LongLine(r, true), c01LongLine(r, false)} {
		if err := c01Text(o, dir, []string{"a"}, []string{t}, []string{"a"}, "long-line"); err != nil {
			return err
		}
	}
	scratch := hx.NewOut("", "C02", 1) // distribution of the text generator is not this property's
	for i := 0; i < nt; i++ {
		names := []string{"a", "b", "c"}[:r.Range(1, 3)]
		contents, paths := c01GenFiles(r, scratch, names)
		if err := c01Text(o, dir, names, contents, paths, "text"); err != nil {
			return err
		}
	}
	// the real cmd/benchfilter binary
	exe, err := buildBenchfilter()
	if err != nil {
		return err
	}
	binFixed := []string{
		"Unit ns/op better=lower\ngoos: linux\nBenchmarkX 1 100 ns/op 8 B/op\nPASS\nUnit MB/s better=higher assume=exact\ngoos: plan9\nBenchmarkY 2 5 MB/s\n",
		"Unit widgets assume=exact\n",
		"pkg: v\nBenchmarkX 1 1 ns/op\nUnit sec/op better=lower\nBenchmarkX 1 bad ns/op\npkg:\nBenchmarkZ 3 2 widgets 1 sec\n",
	}
	for _, t := range binFixed {
		for _, stdin := range []bool{false, true} {
			if err := c01Bin(o, r, exe, dir, []string{"a"}, []string{t}, []string{"a"}, stdin, "binary", "fixed"); err != nil {
				return err
			}
		}
	}
	if err := c01Bin(o, r, exe, dir, []string{"a", "b"}, []string{binFixed[0], binFixed[2]}, []string{"a", "L=b", "a"}, false, "binary", "fixed"); err != nil {
		return err
	}
	for i := 0; i < nb; i++ {
		names := []string{"a", "b", "c"}[:r.Range(1, 3)]
		contents, paths := c01GenFiles(r, scratch, names)
		stdin := r.Chance(0.15)
		if stdin {
			names, contents, paths = names[:1], contents[:1], nil
		}
		if err := c01Bin(o, r, exe, dir, names, contents, paths, stdin, "binary"); err != nil {
			return err
		}
	}
	// one Reader reused through Reset, streamed into one Writer
	lab := func(k, v string) [][2]string { return [][2]string{{k, v}} }
	rf := func(labels [][2]string, text string) c02File {
		return c02File{Name: "f", Labels: labels, Content: strconv.Quote(text)}
	}
	t1, t2, t3 := "k: v\nBenchmarkX 1 1 ns/op\n", "k: w\nBenchmarkY 1 1 ns/op\nj: 1\nBenchmarkY 2 2 MB/s\n", "BenchmarkZ 1 1 ns/op\nk: u\nBenchmarkZ 2 1 ns/op\n"
	resetDirected := [][]c02File{
		{rf(lab("k", "lab"), t1), rf(nil, t1), rf(lab("k", "lab"), t1), rf(nil, t2)},
		{rf(nil, t1), rf(lab("k", "lab"), t1), rf(nil, t1)},
		{rf(lab("k", "lab"), t3), rf(nil, t1), rf(lab("k", "lab"), t3)},
		{rf(nil, t2), rf(lab("k", "lab"), t3), rf(lab("j", "x"), t2), rf(nil, t1)},
		{rf(lab("k", "lab"), t2), rf(lab("k", "lab"), t2)},
	}
	for _, fs := range resetDirected {
		var raw []string
		for _, f := range fs {
			t, _ := strconv.Unquote(f.Content)
			raw = append(raw, t)
		}
		if err := c01Reset(o, fs, raw, "reset", "directed"); err != nil {
			return err
		}
	}
	for i := 0; i < nr; i++ {
		nf := r.Range(2, 4)
		var fs []c02File
		var raw []string
		k := []string{"goos", "pkg", "k1"}[r.Intn(3)]
		for j := 0; j < nf; j++ {
			var t string
			switch r.Intn(3) {
			case 0:
				t = c02Text(r, scratch, r.Intn(16))
			case 1:
				t = c01ChurnText(r)
			default: // the first line sets k
				t = k + ": " + c01KVals[r.Intn(len(c01KVals))] + "\n" + c01ChurnText(r)
			}
			var labels [][2]string
			switch r.Intn(4) {
			case 0:
				labels = c02Labels(r)
			case 1, 2:
				labels = lab(k, []string{"lab", "linux", "v"}[r.Intn(3)])
			}
			fs = append(fs, c02File{Name: []string{"f", "g.txt", ""}[r.Intn(3)], Labels: labels, Content: strconv.Quote(t)})
			raw = append(raw, t)
		}
		if err := c01Reset(o, fs, raw, "reset"); err != nil {
			return err
		}
	}
	return nil
}

// c01GenFiles: contents for the named files (C02's text generator or the churn
// generator) and 1-3 path arguments over them, some as label=path.
func c01GenFiles(r *hx.Rng, scratch *hx.Out, names []string) (contents, paths []string) {
	for range names {
		if r.Chance(0.35) {
			contents = append(contents, c01ChurnText(r))
		} else {
			contents = append(contents, c02Text(r, scratch, r.Intn(20)))
		}
	}
	for j := 0; j < r.Range(1, 3); j++ {
		p := names[r.Intn(len(names))]
		if r.Chance(0.2) {
			p = "L=" + p
		}
		paths = append(paths, p)
	}
	return contents, paths
}
