package main

import (
	"bytes"
	"fmt"
	"math"
	"os"
	"path/filepath"
	"strconv"
	"strings"

	"golang.org/x/perf/benchfmt"
	"golang.org/x/perf/benchproc"
	"golang.org/x/perf/benchunit"
	"verifharness/internal/hx"
)

func init() { gens["C01"] = genC01 }

type c01Edit struct {
	Op string `json:"op"` // set | setfile | flip | value
	K  string `json:"k"`
	V  string `json:"v,omitempty"`
}
type c01Val struct {
	Value, OrigValue float64
	Unit, OrigUnit   string
}
type c01Step struct {
	Kind  string    `json:"kind"` // result | unit | syntaxerror
	Edits []c01Edit `json:"edits,omitempty"`
	Name  string    `json:"name,omitempty"`
	Iters int       `json:"iters,omitempty"`
	Vals  []string  `json:"values,omitempty"` // rendered
	Unit  [4]string `json:"unit,omitempty"`   // tidied unit, key, orig unit, value
	vals  []c01Val
}
type c01Input struct {
	Kind  string    `json:"kind"` // history | text
	Steps []c01Step `json:"steps,omitempty"`
	Files []c02File `json:"files,omitempty"`
	Paths []string  `json:"paths,omitempty"`
}

// fmtTable records fmt's %v for every float the writer prints.
type c01Fmt struct {
	seen map[uint64]bool
	out  []hx.Sx
	diff int
}

func (t *c01Fmt) add(x float64) {
	b := math.Float64bits(x)
	if math.IsNaN(x) {
		b = 0x7FF8000000000001
	}
	if t.seen[b] {
		return
	}
	t.seen[b] = true
	s := fmt.Sprintf("%v", x)
	if s != strconv.FormatFloat(x, 'g', -1, 64) {
		t.diff++
	}
	t.out = append(t.out, hx.L(hx.F64(x), hx.S(s)))
}

func c01ReadBack(out []byte) (*c02Obs, hx.Sx, error) {
	rd := benchfmt.NewReader(bytes.NewReader(out), "out")
	ob := &c02Obs{}
	for rd.Scan() {
		if e := ob.add(rd.Result()); e != nil {
			return nil, hx.L(), e
		}
	}
	errx := hx.L()
	if e := rd.Err(); e != nil {
		errx = hx.L(hx.I(c02ErrLine(e, "out")))
	}
	return ob, errx, nil
}

// ---------- histories through the API ----------

func c01History(o *hx.Out, steps []c01Step, tags ...string) (err error) {
	in := c01Input{Kind: "history", Steps: steps}
	key := fmt.Sprintf("%+v", steps)
	defer func() {
		if p := recover(); p != nil {
			o.Count("panic")
			o.Add(hx.L(hx.I(3)), in, key, false, append(tags, "panic")...)
			err = nil
		}
	}()
	var buf bytes.Buffer
	w := benchfmt.NewWriter(&buf)
	res := &benchfmt.Result{}
	ft := &c01Fmt{seen: map[uint64]bool{}}
	var sx []hx.Sx
	crValue := false
	for si := range steps {
		st := &steps[si]
		switch st.Kind {
		case "unit":
			m := &benchfmt.UnitMetadata{UnitMetadataKey: benchfmt.UnitMetadataKey{Unit: st.Unit[0], Key: st.Unit[1]}, OrigUnit: st.Unit[2], Value: st.Unit[3]}
			if e := w.Write(m); e != nil {
				return e
			}
			sx = append(sx, hx.L(hx.I(1), hx.S(st.Unit[0]), hx.S(st.Unit[1]), hx.S(st.Unit[2]), hx.S(st.Unit[3])))
			continue
		case "syntaxerror":
			if e := w.Write(&benchfmt.SyntaxError{FileName: "x", Line: 3, Msg: "some error"}); e != nil {
				return e
			}
			sx = append(sx, hx.L(hx.I(2)))
			continue
		}
		var ex []hx.Sx
		for _, e := range st.Edits {
			switch e.Op {
			case "set":
				res.SetConfig(e.K, e.V)
				ex = append(ex, hx.L(hx.I(0), hx.S(e.K), hx.S(e.V)))
			case "setfile":
				res.SetConfig(e.K, e.V)
				if e.V != "" {
					i, _ := res.ConfigIndex(e.K)
					res.Config[i].File = true
				}
				ex = append(ex, hx.L(hx.I(1), hx.S(e.K), hx.S(e.V)))
			case "flip":
				if i, ok := res.ConfigIndex(e.K); ok {
					res.Config[i].File = !res.Config[i].File
				}
				ex = append(ex, hx.L(hx.I(2), hx.S(e.K)))
			case "value":
				if i, ok := res.ConfigIndex(e.K); ok {
					res.Config[i].Value = []byte(e.V)
				}
				ex = append(ex, hx.L(hx.I(3), hx.S(e.K), hx.S(e.V)))
			}
		}
		res.Name = benchfmt.Name(st.Name)
		res.Iters = st.Iters
		res.Values = res.Values[:0]
		var vx []hx.Sx
		for _, v := range st.vals {
			res.Values = append(res.Values, benchfmt.Value{Value: v.Value, Unit: v.Unit, OrigValue: v.OrigValue, OrigUnit: v.OrigUnit})
			vx = append(vx, hx.L(hx.F64(v.Value), hx.S(v.Unit), hx.F64(v.OrigValue), hx.S(v.OrigUnit)))
			if v.OrigUnit == "" {
				ft.add(v.Value)
			} else {
				ft.add(v.OrigValue)
			}
		}
		var cx []hx.Sx
		for _, c := range res.Config {
			cx = append(cx, hx.L(hx.S(c.Key), hx.B(c.Value), hx.Bool(c.File)))
			if c.File && len(c.Value) > 0 && c.Value[len(c.Value)-1] == '\r' {
				crValue = true
			}
		}
		if e := w.Write(res); e != nil {
			return e
		}
		sx = append(sx, hx.L(hx.I(0), hx.List(ex), hx.S(st.Name), hx.I(st.Iters), hx.List(vx), hx.List(cx)))
		o.Count(fmt.Sprintf("history:edits-in-step=%d", min(len(st.Edits), 4)))
		for _, e := range st.Edits {
			o.Count("edit:" + e.Op)
		}
	}
	out := buf.Bytes()
	ob, errx, e := c01ReadBack(out)
	if e != nil {
		return e
	}
	if crValue {
		tags = append(tags, "C01_value_ends_with_CR")
		o.Count("class:file-value-ends-with-CR")
	}
	if ft.diff > 0 {
		o.Count("fmt-%v-differs-from-strconv-g")
	}
	c := hx.L(hx.I(1), c02Oracle([]string{string(out)}), hx.List(ft.out), hx.List(sx), hx.B(out), hx.List(ob.recs), errx)
	o.Count(fmt.Sprintf("history:steps=%d", min(len(steps), 12)))
	o.Add(c, in, key, len(steps) > 1, tags...)
	return nil
}

var c01Keys = []string{"goos", "pkg", "k1", "é", "note"}
var c01KVals = []string{"linux", "v", "x y", "1", "a:b", "é", "w  ", "darwin", "k1: nested"}
var c01Special = []float64{0, math.Copysign(0, -1), math.Inf(1), math.Inf(-1), math.NaN(), 1, 0.30000000000000004, 0.1, 1e21, 1e20, 123456789012345678,
	5e-324, 2.2250738585072014e-308, math.MaxFloat64, 1e-7, 100, 9223372036854775807, 9007199254740993, 1.7976931348623157e308, 4.9406564584124654e-324, -1.5}

func c01Value(r *hx.Rng) c01Val {
	var x float64
	switch r.Intn(4) {
	case 0:
		x = c01Special[r.Intn(len(c01Special))]
	case 1:
		x = math.Float64frombits(r.U64())
	case 2:
		x = float64(r.Intn(1000000)) / 64
	default:
		x = float64(r.Intn(100000))
	}
	u := []string{"ns/op", "MB/s", "B/op", "allocs/op", "widgets", "sec/op", "ns", "é/op", "MB*ns/x"}[r.Intn(9)]
	if r.Chance(0.15) {
		// built through the API without going through Tidy
		return c01Val{Value: x, Unit: u}
	}
	tv, tu := benchunit.Tidy(x, u)
	if tu == u {
		return c01Val{Value: x, Unit: u}
	}
	return c01Val{Value: tv, Unit: tu, OrigValue: x, OrigUnit: u}
}

func c01GenHistory(r *hx.Rng, cr bool) []c01Step {
	n := r.Range(1, 12)
	nk := r.Range(1, 5)
	keys := c01Keys[:nk]
	present := map[string]bool{}
	var order []string // first-seen order of keys, as the writer keeps it
	inOrder := map[string]bool{}
	val := func() string {
		if cr && r.Chance(0.3) {
			return c01KVals[r.Intn(len(c01KVals))] + "\r"
		}
		return c01KVals[r.Intn(len(c01KVals))]
	}
	var steps []c01Step
	for i := 0; i < n; i++ {
		if r.Chance(0.08) {
			u := []string{"ns/op", "sec/op", "MB/s", "widgets", "B/s"}[r.Intn(5)]
			_, tu := benchunit.Tidy(1, u)
			steps = append(steps, c01Step{Kind: "unit", Unit: [4]string{tu, []string{"better", "assume"}[r.Intn(2)], u, []string{"lower", "higher", "exact"}[r.Intn(3)]}})
			continue
		}
		if r.Chance(0.03) {
			steps = append(steps, c01Step{Kind: "syntaxerror"})
			continue
		}
		st := c01Step{Kind: "result"}
		ne := 0
		switch q := r.Intn(10); {
		case q < 2:
			ne = 0 // same configuration
		case q < 6:
			ne = 1
		case q < 8:
			ne = 2
		default:
			ne = r.Range(3, 5)
		}
		if i == 0 && ne == 0 {
			ne = r.Range(1, 3)
		}
		edit := func(k string) c01Edit {
			if !present[k] {
				present[k] = true
				if r.Chance(0.7) {
					return c01Edit{Op: "setfile", K: k, V: val()} // add / re-add as file key
				}
				return c01Edit{Op: "set", K: k, V: val()} // add as internal key
			}
			switch r.Intn(6) {
			case 0:
				present[k] = false
				return c01Edit{Op: "set", K: k, V: ""} // delete
			case 1:
				return c01Edit{Op: "flip", K: k} // file <-> internal
			case 2:
				return c01Edit{Op: "set", K: k, V: val()} // SetConfig on a file key: turns internal
			case 3:
				return c01Edit{Op: "value", K: k, V: val()} // value changed in place
			case 4:
				present[k] = false
				return c01Edit{Op: "setfile", K: k, V: ""}
			}
			return c01Edit{Op: "setfile", K: k, V: val()} // change
		}
		if ne >= 2 && len(order) >= 2 && r.Chance(0.5) {
			// delete a key while its successor in the writer's order changes or is deleted too
			j := r.Intn(len(order) - 1)
			if present[order[j]] {
				present[order[j]] = false
				st.Edits = append(st.Edits, c01Edit{Op: "set", K: order[j], V: ""})
				st.Edits = append(st.Edits, edit(order[j+1]))
				ne -= 2
			}
		}
		for j := 0; j < ne; j++ {
			st.Edits = append(st.Edits, edit(keys[r.Intn(len(keys))]))
		}
		for _, k := range keys {
			if present[k] && !inOrder[k] {
				inOrder[k] = true
				order = append(order, k)
			}
		}
		// keys that disappeared leave the writer's order
		var no []string
		for _, k := range order {
			if present[k] {
				no = append(no, k)
			} else {
				delete(inOrder, k)
			}
		}
		order = no
		st.Name = []string{"X", "Fib/n=10-8", "é", "", "Enc/size=1k", "a:b"}[r.Intn(6)]
		st.Iters = []int{1, 100, 0, -5, math.MaxInt64, 20000, math.MinInt64}[r.Intn(7)]
		nv := r.Range(1, 3)
		for j := 0; j < nv; j++ {
			v := c01Value(r)
			st.vals = append(st.vals, v)
			st.Vals = append(st.Vals, fmt.Sprintf("%v %s (orig %v %q)", v.Value, v.Unit, v.OrigValue, v.OrigUnit))
		}
		steps = append(steps, st)
	}
	return steps
}

// ---------- arbitrary text through the cmd/benchfilter loop ----------

func c01Text(o *hx.Out, dir string, names, contents, paths []string, tags ...string) (err error) {
	in := c01Input{Kind: "text", Paths: paths}
	for i, n := range names {
		in.Files = append(in.Files, c02File{Name: n, Content: strconv.Quote(contents[i])})
	}
	key := strings.Join(paths, "\x00") + "\x01" + strings.Join(contents, "\x00")
	defer func() {
		if p := recover(); p != nil {
			o.Count("panic")
			o.Add(hx.L(hx.I(3)), in, key, false, append(tags, "panic")...)
			err = nil
		}
	}()
	var fsx []hx.Sx
	for i, n := range names {
		p := filepath.Join(dir, n)
		if e := os.WriteFile(p, []byte(contents[i]), 0o644); e != nil {
			return e
		}
		fsx = append(fsx, hx.L(hx.S(n), hx.S(contents[i])))
	}
	defer func() {
		for _, n := range names {
			os.Remove(filepath.Join(dir, n))
		}
	}()
	// the loop of cmd/benchfilter/main.go with the query "*"
	filter, ferr := benchproc.NewFilter("*")
	if ferr != nil {
		return ferr
	}
	var buf bytes.Buffer
	writer := benchfmt.NewWriter(&buf)
	files := benchfmt.Files{Paths: paths, AllowStdin: false, AllowLabels: true}
	ob := &c02Obs{}
	ft := &c01Fmt{seen: map[uint64]bool{}}
	crValue := false
	for files.Scan() {
		rec := files.Result()
		if e := ob.add(rec); e != nil {
			return e
		}
		switch rec := rec.(type) {
		case *benchfmt.SyntaxError:
			continue
		case *benchfmt.Result:
			if ok, _ := filter.Apply(rec); !ok {
				continue
			}
			for _, v := range rec.Values {
				if v.OrigUnit == "" {
					ft.add(v.Value)
				} else {
					ft.add(v.OrigValue)
				}
			}
			for _, c := range rec.Config {
				if c.File && len(c.Value) > 0 && c.Value[len(c.Value)-1] == '\r' {
					crValue = true
				}
			}
		}
		if e := writer.Write(rec); e != nil {
			return e
		}
	}
	out := buf.Bytes()
	rb, errx, e := c01ReadBack(out)
	if e != nil {
		return e
	}
	if crValue {
		tags = append(tags, "C01_value_ends_with_CR")
		o.Count("class:file-value-ends-with-CR")
	}
	o.Dist["text:results"] += ob.nres
	o.Dist["text:unit-metadata"] += ob.nunit
	o.Dist["text:syntax-errors-dropped"] += ob.nerr
	c := hx.L(hx.I(2), c02Oracle(append(append([]string{}, contents...), string(out))), hx.List(ft.out), hx.List(fsx), hx.SList(paths),
		hx.List(ob.recs), hx.B(out), hx.List(rb.recs), errx)
	o.Add(c, in, key, ob.nres > 0, tags...)
	return nil
}

func genC01(o *hx.Out, r *hx.Rng, tier string, replay string) error {
	o.Rule = "(a) histories of 1-12 records written by benchfmt.Writer: results whose configuration is edited between writes through the API over 1-5 keys (add / re-add as file or internal key, change, in-place value change, delete, flip file<->internal, SetConfig on a file key, no change; a deletion together with a change or deletion of the next key in the writer's order), 1-3 measurements from {0,-0,+-Inf,NaN,subnormal,17-significant-digit,random bits} x {rescaled by Tidy, plain, API-built without original}, unit-metadata and SyntaxError records in between; (b) arbitrary texts from the C02 generator (1-3 files, label=path arguments) through the cmd/benchfilter loop (Files -> Filter \"*\" -> Writer). The written bytes are read back by benchfmt.Reader. Class C01_value_ends_with_CR (a file value ending in CR) is tagged. non-trivial = more than one record; distinct by history / input bytes"
	nh, nt := 1500, 400
	if tier == "thorough" {
		nh, nt = 40000, 8000
	}
	// directed histories
	kv := func(op, k, v string) c01Edit { return c01Edit{Op: op, K: k, V: v} }
	one := func(edits ...c01Edit) c01Step {
		return c01Step{Kind: "result", Edits: edits, Name: "X", Iters: 1, vals: []c01Val{{Value: 1e-9, Unit: "sec/op", OrigValue: 1, OrigUnit: "ns/op"}}}
	}
	directed := [][]c01Step{
		{one(kv("setfile", "k", "v")), one(kv("flip", "k", ""))}, // file -> internal
		{one(kv("setfile", "k", "v")), one(kv("set", "k", "v"))}, // SetConfig on a file key
		{one(kv("set", "k", "v")), one(kv("flip", "k", ""))},     // internal -> file
		{one(kv("setfile", "a", "1"), kv("setfile", "b", "2"), kv("setfile", "c", "3")), one(kv("set", "a", ""), kv("setfile", "b", "9"))},
		{one(kv("setfile", "a", "1"), kv("setfile", "b", "2"), kv("setfile", "c", "3")), one(kv("set", "a", ""), kv("set", "b", ""))},
		{one(kv("setfile", "a", "1"), kv("setfile", "b", "2")), one(kv("set", "a", "")), one(kv("setfile", "a", "1"))},
		{one(kv("setfile", "a", "1"), kv("setfile", "b", "2")), one(kv("set", "a", ""), kv("setfile", "c", "3")), one()},
		{one(), one(kv("setfile", "a", "1")), one(kv("set", "a", "")), one()},
		{one(kv("setfile", "a", "1"), kv("set", "i", "x")), one(kv("flip", "a", ""), kv("flip", "i", ""))},
	}
	for _, h := range directed {
		if err := c01History(o, h, "directed"); err != nil {
			return err
		}
	}
	if err := c01History(o, []c01Step{one(kv("setfile", "k", "v\r")), one()}, "directed"); err != nil {
		return err
	}
	for i := 0; i < nh; i++ {
		if err := c01History(o, c01GenHistory(r, r.Chance(0.03)), "random"); err != nil {
			return err
		}
	}
	// text route on real files
	base := os.Getenv("VERIF_WORK")
	if base == "" {
		base = os.TempDir()
	}
	dir, err := os.MkdirTemp(base, "c01files")
	if err != nil {
		return err
	}
	defer os.RemoveAll(dir)
	cwd, _ := os.Getwd()
	if err := os.Chdir(dir); err != nil {
		return err
	}
	defer os.Chdir(cwd)
	fixed := []string{"k: v\r\r\nBenchmarkX 1 1 ns/op\n", "k: v\r\nBenchmarkX 1 1 ns/op\r\n", "a: 1\nBenchmarkX 1 0 ns/op +Inf MB/s NaN B/op\na:\nb: 2\nBenchmarkY 5 0.30000000000000004 widgets\n"}
	for _, t := range fixed {
		if err := c01Text(o, dir, []string{"a"}, []string{t}, []string{"a"}, "fixed"); err != nil {
			return err
		}
	}
	scratch := hx.NewOut("", "C02", 1) // distribution of the text generator is not this property's
	for i := 0; i < nt; i++ {
		names := []string{"a", "b", "c"}[:r.Range(1, 3)]
		var contents []string
		for range names {
			contents = append(contents, c02Text(r, scratch, r.Intn(20)))
		}
		var paths []string
		for j := 0; j < r.Range(1, 3); j++ {
			p := names[r.Intn(len(names))]
			if r.Chance(0.2) {
				p = "L=" + p
			}
			paths = append(paths, p)
		}
		if err := c01Text(o, dir, names, contents, paths, "text"); err != nil {
			return err
		}
	}
	return nil
}
