package main

import (
	"bytes"
	"errors"
	"fmt"
	"io"
	"math"
	"os"
	"path/filepath"
	"sort"
	"strconv"
	"strings"
	"unicode"
	"unicode/utf8"

	"golang.org/x/perf/benchfmt"
	bc "golang.org/x/perf/benchfmt/verifbridge"
	"verifharness/internal/hx"
)

func init() { gens["C02"] = genC02 }

type c02File struct {
	Name    string      `json:"name"`
	Labels  [][2]string `json:"labels,omitempty"`
	Content string      `json:"content"` // Go-quoted
	Take    *int        `json:"take,omitempty"` // the caller stops after this many Scans, then Resets
	IOErr   bool        `json:"io_error_after_content,omitempty"` // the io.Reader delivers Content and then fails (not io.EOF)
}

// c02FailReader fails every Read with an error that is not io.EOF.
type c02FailReader struct{}

var errC02Disk = errors.New("injected read failure")

func (c02FailReader) Read([]byte) (int, error) { return 0, errC02Disk }
type c02Input struct {
	Kind        string    `json:"kind"` // reader | files
	Files       []c02File `json:"files"`
	Paths       []string  `json:"paths,omitempty"`
	AllowLabels bool      `json:"allow_labels,omitempty"`
	AllowStdin  bool      `json:"allow_stdin,omitempty"`
	Stdin       string    `json:"stdin,omitempty"` // strconv.Quote of what os.Stdin delivers
}

// ---------- observation ----------

func c02ErrKind(msg string) int {
	switch {
	case msg == "missing iteration count":
		return 1
	case strings.HasPrefix(msg, "parsing iteration count"):
		return 2
	case msg == "missing measurements":
		return 3
	case strings.HasPrefix(msg, "parsing measurement"):
		return 4
	case msg == "missing units":
		return 5
	case msg == "missing unit":
		return 6
	case msg == "expected key=value":
		return 7
	case strings.HasPrefix(msg, "metadata "):
		return 8
	}
	return 0 // unclassified: matches any kind
}

func c02Res(res *benchfmt.Result) hx.Sx {
	fn, line := res.Pos()
	var vals, cfgs []hx.Sx
	for _, v := range res.Values {
		vals = append(vals, hx.L(hx.F64(v.Value), hx.S(v.Unit), hx.F64(v.OrigValue), hx.S(v.OrigUnit)))
	}
	for _, c := range res.Config {
		cfgs = append(cfgs, hx.L(hx.S(c.Key), hx.B(c.Value), hx.Bool(c.File)))
	}
	return hx.L(hx.I(0), hx.S(fn), hx.I(line), hx.B(res.Name), hx.I(res.Iters), hx.List(vals), hx.List(cfgs))
}

func c02Unit(u *benchfmt.UnitMetadata) hx.Sx {
	fn, line := u.Pos()
	return hx.L(hx.I(1), hx.S(fn), hx.I(line), hx.S(u.Unit), hx.S(u.Key), hx.S(u.OrigUnit), hx.S(u.Value))
}

// c02Obs collects the records of a Scan loop; every result is cloned at Scan
// time and serialised, and serialised again by stable() at the end.
type c02Obs struct {
	recs   []hx.Sx
	clones []*benchfmt.Result
	texts  []string
	nres   int
	nerr   int
	nunit  int
}

func (ob *c02Obs) add(rec benchfmt.Record) error {
	switch x := rec.(type) {
	case *benchfmt.Result:
		c := x.Clone()
		s := c02Res(c)
		ob.clones = append(ob.clones, c)
		ob.texts = append(ob.texts, s.Text())
		ob.recs = append(ob.recs, s)
		ob.nres++
	case *benchfmt.UnitMetadata:
		ob.recs = append(ob.recs, c02Unit(x))
		ob.nunit++
	case *benchfmt.SyntaxError:
		fn, line := x.Pos()
		ob.recs = append(ob.recs, hx.L(hx.I(2), hx.S(fn), hx.I(line), hx.I(c02ErrKind(x.Msg))))
		ob.nerr++
	default:
		return fmt.Errorf("unexpected record type %T", rec)
	}
	return nil
}

func (ob *c02Obs) stable() bool {
	for i, c := range ob.clones {
		if c02Res(c).Text() != ob.texts[i] {
			return false
		}
	}
	return true
}

// c02Oracle records bytesconv.Atoi / ParseFloat on every field of every
// "Benchmark" line of the contents (number parsing is C03's).
func c02Oracle(contents []string) hx.Sx {
	seen := map[string]bool{}
	var out []hx.Sx
	for _, c := range contents {
		for _, line := range bytes.Split([]byte(c), []byte("\n")) {
			if !bytes.HasPrefix(line, []byte("Benchmark")) {
				continue
			}
			for _, f := range bytes.FieldsFunc(line[len("Benchmark"):], unicode.IsSpace) {
				if seen[string(f)] {
					continue
				}
				seen[string(f)] = true
				n, err1 := bc.Atoi(f)
				v, err2 := bc.ParseFloat(f, 64)
				out = append(out, hx.L(hx.B(f), hx.Opt(err1 == nil, hx.I(n)), hx.Opt(err2 == nil, hx.F64(v))))
			}
		}
	}
	return hx.List(out)
}

// scanErrLine extracts the line from "file:line: msg" of Reader.Err.
func c02ErrLine(err error, fname string) int {
	s := err.Error()
	if !strings.HasPrefix(s, fname+":") {
		return -1
	}
	s = s[len(fname)+1:]
	i := strings.IndexByte(s, ':')
	if i < 0 {
		return -1
	}
	n, e := strconv.Atoi(s[:i])
	if e != nil {
		return -1
	}
	return n
}

// ---------- known finding C02_file_line_overrides_tool_label ----------

// c02KVKey is the key/value recogniser of the format (benchfmt's
// parseKeyValueLine, which is not exported): the key of line if it is a
// key/value line.
func c02KVKey(line []byte) (string, bool) {
	var key, val []byte
	for i := 0; i < len(line); {
		r, n := utf8.DecodeRune(line[i:])
		if i == 0 && !unicode.IsLower(r) {
			return "", false
		}
		if unicode.IsSpace(r) || unicode.IsUpper(r) {
			return "", false
		}
		if i > 0 && r == ':' {
			key, val = line[:i], line[i+1:]
			break
		}
		i += n
	}
	if len(key) == 0 {
		return "", false
	}
	if len(val) == 0 || val[0] == ' ' || val[0] == '\t' {
		return string(key), true
	}
	return "", false
}

// c02LabelCollision: does a key/value line of the text name a key that the
// tool installed as a label (labels are installed in order, an empty value
// removes the key)?  Decided from the input alone.
func c02LabelCollision(labels [][2]string, content string) bool {
	inst := map[string]bool{}
	for _, kv := range labels {
		if kv[1] == "" {
			delete(inst, kv[0])
		} else {
			inst[kv[0]] = true
		}
	}
	if len(inst) == 0 {
		return false
	}
	for _, line := range strings.Split(content, "\n") {
		line = strings.TrimSuffix(line, "\r")
		if strings.HasPrefix(line, "Benchmark") {
			continue
		}
		if f := strings.FieldsFunc(line, unicode.IsSpace); len(line) > 0 && line[0] == 'U' && len(f) > 0 && f[0] == "Unit" {
			continue
		}
		if k, ok := c02KVKey([]byte(line)); ok && inst[k] {
			return true
		}
	}
	return false
}

const c02TagLabel = "C02_file_line_overrides_tool_label"

// ---------- one reader reused through Reset ----------

func c02Reader(o *hx.Out, files []c02File, raw []string, tags ...string) (err error) {
	in := c02Input{Kind: "reader", Files: files}
	for i, f := range files {
		if c02LabelCollision(f.Labels, raw[i]) {
			tags = append(append([]string{}, tags...), c02TagLabel)
			o.Count("class:key/value-line-names-a-tool-label")
			break
		}
	}
	defer func() {
		if p := recover(); p != nil {
			// the implementation panicked: that outcome is the case
			o.Count("panic")
			o.Add(hx.L(hx.I(3)), in, strings.Join(raw, "\x00"), false, append(tags, "panic")...)
			err = nil
		}
	}()
	rd := new(benchfmt.Reader)
	ob := &c02Obs{}
	var fsx []hx.Sx
	for i, f := range files {
		var lab []string
		var labx []hx.Sx
		for _, kv := range f.Labels {
			lab = append(lab, kv[0], kv[1])
			labx = append(labx, hx.L(hx.S(kv[0]), hx.S(kv[1])))
		}
		var src io.Reader = strings.NewReader(raw[i])
		if f.IOErr {
			src = io.MultiReader(src, c02FailReader{})
			o.Count("input-fails-with-io-error-then-Reset")
		}
		rd.Reset(src, f.Name, lab...)
		start := len(ob.recs)
		takex := hx.L()
		if f.Take != nil {
			// abandon the input after *f.Take records (possibly between the
			// records queued by one line); the next iteration Resets
			takex = hx.L(hx.I(*f.Take))
			o.Count("reset-before-drained")
			for n := 0; n < *f.Take && rd.Scan(); n++ {
				if e := ob.add(rd.Result()); e != nil {
					return e
				}
			}
		} else {
			for rd.Scan() {
				if e := ob.add(rd.Result()); e != nil {
					return e
				}
			}
		}
		errx := hx.L()
		if e := rd.Err(); e != nil {
			fn := f.Name
			if fn == "" {
				fn = "<unknown>"
			}
			errx = hx.L(hx.I(c02ErrLine(e, fn)))
			o.Count("io-error")
		}
		recs := append([]hx.Sx(nil), ob.recs[start:]...)
		if f.IOErr {
			fsx = append(fsx, hx.L(hx.S(f.Name), hx.List(labx), hx.S(raw[i]), hx.List(recs), errx, takex, hx.I(1)))
			continue
		}
		fsx = append(fsx, hx.L(hx.S(f.Name), hx.List(labx), hx.S(raw[i]), hx.List(recs), errx, takex))
	}
	c := hx.L(hx.I(1), c02Oracle(raw), hx.List(fsx), hx.Bool(ob.stable()))
	c02Count(o, ob, raw)
	o.Add(c, in, strings.Join(raw, "\x00"), ob.nres > 0, tags...)
	return nil
}

func c02Count(o *hx.Out, ob *c02Obs, raw []string) {
	o.Dist["records:result"] += ob.nres
	o.Dist["records:syntax-error"] += ob.nerr
	o.Dist["records:unit-metadata"] += ob.nunit
	for _, c := range raw {
		o.Dist["input-bytes"] += len(c)
		o.Dist["input-lines"] += strings.Count(c, "\n")
		if strings.Contains(c, "\r\n") {
			o.Dist["inputs-with-CRLF"]++
		}
		if len(c) > 0 && c[len(c)-1] != '\n' {
			o.Dist["inputs-without-final-newline"]++
		}
		if !strings.Contains(c, "\xff") && !strings.Contains(c, "\xc2 ") {
			continue
		}
		o.Dist["inputs-with-invalid-utf8"]++
	}
}

// ---------- benchfmt.Files on real files ----------

func c02Files(o *hx.Out, dir string, names []string, contents []string, paths []string, allow bool, tags ...string) (err error) {
	return c02FilesStdin(o, dir, names, contents, paths, allow, nil, tags...)
}

// c02FilesStdin: stdin == nil runs Files{AllowStdin: false} (case kind 2); otherwise AllowStdin is set and
// os.Stdin delivers *stdin for the duration (case kind 4; the path "-" and, with no paths at all, the
// implicit input read it)
func c02FilesStdin(o *hx.Out, dir string, names []string, contents []string, paths []string, allow bool, stdin *string, tags ...string) (err error) {
	in := c02Input{Kind: "files", Paths: paths, AllowLabels: allow}
	if stdin != nil {
		in.AllowStdin, in.Stdin = true, strconv.Quote(*stdin)
	}
	for i, n := range names {
		in.Files = append(in.Files, c02File{Name: n, Content: strconv.Quote(contents[i])})
	}
	defer func() {
		if p := recover(); p != nil {
			o.Count("panic")
			o.Add(hx.L(hx.I(3)), in, strings.Join(paths, "\x00")+"\x01"+strings.Join(contents, "\x00"), false, append(tags, "panic")...)
			err = nil
		}
	}()
	var fsx []hx.Sx
	for i, n := range names {
		p := filepath.Join(dir, n)
		if e := os.MkdirAll(filepath.Dir(p), 0o755); e != nil {
			return e
		}
		if e := os.WriteFile(p, []byte(contents[i]), 0o644); e != nil {
			return e
		}
		fsx = append(fsx, hx.L(hx.S(n), hx.S(contents[i])))
	}
	defer func() {
		for _, n := range names {
			os.Remove(filepath.Join(dir, n))
		}
	}()
	fl := &benchfmt.Files{Paths: paths, AllowLabels: allow}
	if stdin != nil {
		sp := filepath.Join(dir, ".stdin")
		if e := os.WriteFile(sp, []byte(*stdin), 0o644); e != nil {
			return e
		}
		sf, e := os.Open(sp)
		if e != nil {
			return e
		}
		old := os.Stdin
		os.Stdin = sf
		defer func() { os.Stdin = old; sf.Close(); os.Remove(sp) }()
		fl.AllowStdin = true
	}
	ob := &c02Obs{}
	for fl.Scan() {
		if e := ob.add(fl.Result()); e != nil {
			return e
		}
	}
	ek, el := 0, 0
	if e := fl.Err(); e != nil {
		if _, ok := e.(*os.PathError); ok {
			ek = 1
			o.Count("open-error")
		} else {
			ek = 2
			o.Count("io-error")
			// "path:line: msg"
			s := e.Error()
			enames := names
			if stdin != nil {
				enames = append(append([]string{}, names...), "-")
			}
			for _, n := range enames {
				if l := c02ErrLine(e, n); l >= 0 && strings.HasPrefix(s, n+":") {
					el = l
				}
			}
		}
	}
	type uk struct{ u, k string }
	var keys []uk
	um := fl.Units()
	for k := range um {
		keys = append(keys, uk{k.Unit, k.Key})
	}
	sort.Slice(keys, func(i, j int) bool {
		if keys[i].u != keys[j].u {
			return keys[i].u < keys[j].u
		}
		return keys[i].k < keys[j].k
	})
	var units []hx.Sx
	for _, k := range keys {
		units = append(units, c02Unit(um[benchfmt.UnitMetadataKey{Unit: k.u, Key: k.k}]))
	}
	c := hx.L(hx.I(2), c02Oracle(contents), hx.Bool(allow), hx.List(fsx), hx.SList(paths),
		hx.List(ob.recs), hx.I(ek), hx.I(el), hx.List(units), hx.Bool(ob.stable()))
	key := strings.Join(paths, "\x00") + "\x01" + strings.Join(contents, "\x00")
	if stdin != nil {
		all := append(append([]string{}, contents...), *stdin)
		c = hx.L(hx.I(4), c02Oracle(all), hx.Bool(allow), hx.List(fsx), hx.SList(paths), hx.S(*stdin),
			hx.List(ob.recs), hx.I(ek), hx.I(el), hx.List(units), hx.Bool(ob.stable()))
		key += "\x02" + *stdin
		o.Count(fmt.Sprintf("files:allow-stdin:paths=%d", len(paths)))
	}
	c02Count(o, ob, contents)
	o.Count(fmt.Sprintf("files:paths=%d", len(paths)))
	o.Add(c, in, key, ob.nres > 0, tags...)
	return nil
}

// ---------- text generator ----------

var c02WS = []string{" ", " ", " ", "\t", "  ", "\u00a0", "\u2028", "\v", "\f", "\r", "\u3000", "\u0085", " \t "}
var c02Names = []string{"X", "Fib/n=10-8", "é", "Enc/size=1k", "Y-4", "", "\xffz", "a:b"}
var c02Iters = []string{"1", "100", "20000", "0", "-5", "1e3", "99999999999999999999", "x", "007", "+3", "9223372036854775807", "١"}
var c02Vals = []string{"1.5", "0", "-0", "NaN", "+Inf", "-inf", "1e400", "12345678901234567890123", "0x1p-2", "1_000", ".", "12", "3.0e-7",
	"922337203685477580", "922337203685477581", "9223372036854775808", "9223372036854775807", "9223372036854775809",
	"9223372036854775806", "9223372036854775800", "9223372036854775799", "1000000000000000000", "9999999999999999999", "922337203685477579", "1e-400", "0x", "5e-324", "١٢"}
var c02Units = []string{"ns/op", "MB/s", "B/op", "allocs/op", "widgets", "ns", "é/op", "x\xffy", "sec/op", "MB*ns", "op/ns", "ns/op/ns"}
var c02Keys = []string{"goos", "pkg", "cpu", "k1", "k2", "k3", "k4", "k5", "é", "ünï", "a-b", "note", "goarch", "k\xffz", "ǆ"}
var c02KVals = []string{"linux", "v", "x y", "1", "é", "a:b", "\xff", "value with  spaces ", "Unit x k=v", "BenchmarkX 1 1 ns/op"}

func c02BenchLine(r *hx.Rng) string {
	ws := func() string { return c02WS[r.Intn(len(c02WS))] }
	var sb strings.Builder
	sb.WriteString("Benchmark")
	if r.Chance(0.05) {
		sb.WriteString(ws())
	}
	sb.WriteString(c02Names[r.Intn(len(c02Names))])
	switch r.Intn(20) {
	case 0:
		return sb.String() // name only: skipped
	case 1:
		return sb.String() + ws() // missing iteration count
	}
	sb.WriteString(ws())
	if r.Chance(0.85) {
		sb.WriteString(c02Iters[r.Intn(3)])
	} else {
		sb.WriteString(c02Iters[r.Intn(len(c02Iters))])
	}
	n := r.Intn(4)
	if r.Chance(0.7) {
		n = r.Range(1, 3)
	}
	for i := 0; i < n; i++ {
		sb.WriteString(ws())
		if r.Chance(0.8) {
			sb.WriteString(strconv.FormatFloat(float64(r.Intn(100000))/16, 'g', -1, 64))
		} else {
			sb.WriteString(c02Vals[r.Intn(len(c02Vals))])
		}
		if i == n-1 && r.Chance(0.06) {
			break // missing units
		}
		sb.WriteString(ws())
		sb.WriteString(c02Units[r.Intn(len(c02Units))])
	}
	if r.Chance(0.1) {
		sb.WriteString(ws())
	}
	return sb.String()
}

// rune pools for keys of key/value lines, by what unicode.IsLower / IsUpper /
// IsSpace say about them (Ll / Lu / Lt / letters and symbols that are neither,
// incl. Other_Lowercase and Other_Uppercase code points / white space)
var c02RuneClasses = []struct {
	name  string
	runes []rune
}{
	{"ascii-lower", []rune("abkz")},
	{"ascii-upper", []rune("AKZ")},
	{"nonascii-lower", []rune{'é', 'ß', 'δ', 'я', 'ǆ', 'ÿ', 'µ', 'ſ', 'ա', '𝐚'}},
	{"nonascii-upper", []rune{'Δ', 'É', 'Я', 'Ǆ', 'Ω', 'Ÿ', 'Ա', '𝐀', 'Ⴀ'}},
	{"titlecase", []rune{'ǅ', 'ǈ', 'ǲ', 'ᾈ'}},
	{"caseless-or-other-case", []rune{'漢', 'ª', 'º', 'ʰ', 'ⅰ', 'Ⅰ', 'Ⓐ', 'ⓐ', 'ا', '1', '_', '-', '.', '\u0301', '\u200b'}},
	{"nonascii-space", []rune{'\u00a0', '\u2003', '\u0085', '\u3000', '\u1680', '\u2028', '\u202f', '\u205f'}},
	{"ascii-space", []rune{' ', '\t', '\v', '\f'}},
}

// c02MixedKey builds a key of 1-4 runes; the first mostly lower case (ASCII or
// not), the others from every class.  Returns the key and the classes used
// ("first:<class>", "later:<class>").
func c02MixedKey(r *hx.Rng) (string, []string) {
	var sb strings.Builder
	var cls []string
	n := r.Range(1, 4)
	for i := 0; i < n; i++ {
		var c int
		switch {
		case i == 0 && r.Chance(0.65):
			c = []int{0, 0, 2}[r.Intn(3)]
		case i == 0:
			c = r.Intn(len(c02RuneClasses))
		case r.Chance(0.4):
			c = []int{0, 2}[r.Intn(2)]
		default:
			c = 1 + r.Intn(len(c02RuneClasses)-1)
		}
		rc := c02RuneClasses[c]
		sb.WriteRune(rc.runes[r.Intn(len(rc.runes))])
		if i == 0 {
			cls = append(cls, "first:"+rc.name)
		} else {
			cls = append(cls, "later:"+rc.name)
		}
	}
	return sb.String(), cls
}

var c02FixedMixedKeys = []string{"tempΔ", "résumÉ", "éa", "ßkey", "Δt", "Éa", "ǅx", "aǅ", "a\u00a0b", "a\u2003b", "δ\u2003", "aⒶ", "aⅠ", "ªb", "ʰx", "a漢", "漢a", "a𝐀", "𝐚b", "яЯ", "ǆǄ", "ǆǅ"}

func c02KVLine(r *hx.Rng, o *hx.Out) string {
	k := c02Keys[r.Intn(len(c02Keys))]
	v := c02KVals[r.Intn(len(c02KVals))]
	if r.Chance(0.3) {
		// mixed-script key: a valid key, or a foreign line because of a
		// non-ASCII upper-case / white-space rune or a first rune that is not lower case
		if r.Chance(0.25) {
			k = c02FixedMixedKeys[r.Intn(len(c02FixedMixedKeys))]
			o.Dist["kv-key:fixed-mixed-script"]++
		} else {
			var cls []string
			k, cls = c02MixedKey(r)
			for _, c := range cls {
				o.Dist["kv-key:"+c]++
			}
		}
		switch r.Intn(6) {
		case 0:
			return k + ":"
		case 1:
			return k + ":\t" + v
		}
		return k + ": " + v
	}
	switch r.Intn(14) {
	case 0:
		return k + ":" // delete
	case 1:
		return k + ":   " // delete
	case 2:
		return k + ":" + v // no blank: not a kv line
	case 3:
		return k + ":\t" + v
	case 4:
		return strings.ToUpper(k[:1]) + k[1:] + ": " + v
	case 5:
		return k + " : " + v
	case 6:
		return k + "A: " + v
	case 7:
		return k + "\u00a0x: " + v
	case 8:
		return ": " + v
	case 9:
		return k + ": " + v + "\t"
	case 10:
		return k + ":\u00a0" + v
	}
	return k + ": " + v
}

func c02UnitLine(r *hx.Rng) string {
	forms := []string{"Unit ns/op better=lower", "Unit sec/op better=higher", "Unit sec/op better=lower",
		"Unit MB/s assume=exact better=higher", "Unit", "Unit ", "Unit x", "Unit x y", "Unit x =v", "Unit x k=", "Units x k=v",
		"Unit\u00a0x k=v", "Unitx", "U", "Unit x k=v k=v k=w j=1 bad", "Unit\tB/s better=higher", "Unit widgets a=b=c",
		"Unit ns k=1", "Unit sec k=2", "Unit sec k=1", "Unit ns/op a=1 b=2 c=3", "Unit B/s a=1 a=2 a=1 b", "Unit sec/op b=2 c=4 d=5", "Unit é ü=ï", "Unit x\xff k=\xfe", "Unit  x  k=v  "}
	return forms[r.Intn(len(forms))]
}

func c02OtherLine(r *hx.Rng) string {
	forms := []string{"PASS", "ok  \tpkg\t1.2s", "", "--- BENCH: BenchmarkX", "    file.go:12: msg", "benchmark: lower",
		"Benchmarks", "BenchmarkX", "Benchmark", "FAIL", "goos:linux", "  goos: linux", "Goos: linux", "=== RUN   TestX",
		"\u00a0", "\t", "key", "é", "É: v", "\xff: v", "U nit x k=v", " BenchmarkX 1 1 ns/op", " Unit x k=v", "benchmarkX 1 1 ns/op",
		"a:b: c", "a:b:c", "a::", "a:: x", "a: :b", ":a: b", "a:b", "k1:\u00a0v", "k1:\v v", "goos: : x", "Unit", "Unit ns/op", "Benchmark 1 1 ns/op", "Benchmark\t", "Unit\u2003x k=v", "Unitx: v", "unit: v"}
	if r.Chance(0.15) {
		b := make([]byte, r.Range(1, 12))
		for i := range b {
			b[i] = byte(r.Intn(256))
			if b[i] == '\n' {
				b[i] = ' '
			}
		}
		return string(b)
	}
	return forms[r.Intn(len(forms))]
}

func c02Mutate(r *hx.Rng, s string) string {
	b := []byte(s)
	ins := []byte{0xff, 0xc2, 0xa0, ':', ' ', 'U', 'B', '\r', '=', 0xe2, 0x80, 0xa8, '\t', 'A', '0'}
	switch r.Intn(3) {
	case 0:
		if len(b) > 0 {
			i := r.Intn(len(b))
			b = append(b[:i], b[i+1:]...)
		}
	case 1:
		i := r.Intn(len(b) + 1)
		b = append(b[:i], append([]byte{ins[r.Intn(len(ins))]}, b[i:]...)...)
	case 2:
		if len(b) > 0 {
			i := r.Intn(len(b))
			b[i] = ins[r.Intn(len(ins))]
		}
	}
	return strings.ReplaceAll(string(b), "\n", " ")
}

func c02Text(r *hx.Rng, o *hx.Out, nlines int) string {
	var sb strings.Builder
	for i := 0; i < nlines; i++ {
		var line string
		p := r.Intn(100)
		switch {
		case p < 40:
			line = c02BenchLine(r)
			o.Dist["lines:bench"]++
		case p < 65:
			line = c02KVLine(r, o)
			o.Dist["lines:kv"]++
		case p < 75:
			line = c02UnitLine(r)
			o.Dist["lines:unit"]++
		default:
			line = c02OtherLine(r)
			o.Dist["lines:foreign"]++
		}
		if r.Chance(0.12) {
			line = c02Mutate(r, line)
			o.Dist["lines:mutated"]++
		}
		sb.WriteString(line)
		if i == nlines-1 && r.Chance(0.25) {
			break
		}
		switch q := r.Intn(100); {
		case q < 85:
			sb.WriteString("\n")
		case q < 96:
			sb.WriteString("\r\n")
		default:
			sb.WriteString("\r\r\n")
		}
	}
	return sb.String()
}

// c02BigText: 50-600 results with distinct random names, configuration values
// that keep changing, unit / foreign lines in between; more than 64 KiB in all
// (the scanner's 4 KiB buffer is refilled, shifted and grown many times).
func c02BigText(r *hx.Rng) (string, int) {
	nres := r.Range(50, 600)
	target := 65536 + 1024 + r.Intn(30000)
	per := target/nres + 1
	letters := "abcdefghijklmnopqrstuvwxyzABCDEFGHIJKLMNOPQRSTUVWXYZ0123456789_"
	word := func(n int) string {
		b := make([]byte, n)
		for i := range b {
			b[i] = letters[r.Intn(len(letters))]
		}
		return string(b)
	}
	var sb strings.Builder
	for i := 0; i < nres || sb.Len() <= target; i++ {
		room := per
		if r.Chance(0.3) {
			n := r.Intn(per/3 + 2)
			fmt.Fprintf(&sb, "k%d: %s %d\n", r.Intn(6), word(n), i)
			room -= n + 8
		}
		switch r.Intn(12) {
		case 0:
			fmt.Fprintf(&sb, "k%d:\n", r.Intn(6))
		case 1:
			fmt.Fprintf(&sb, "Unit %s better=lower\n", []string{"ns/op", "B/op", "u" + word(3)}[r.Intn(3)])
		case 2:
			sb.WriteString("--- BENCH: " + word(r.Intn(20)) + "\n")
		case 3:
			sb.WriteString("\n")
		}
		n := max(room-40, 1) / (1 + r.Intn(2))
		name := word(1+r.Intn(6)) + strconv.Itoa(i) + "/" + word(1+r.Intn(max(n, 1))) + "=" + word(1+r.Intn(4)) + "-" + strconv.Itoa(1+r.Intn(64))
		fmt.Fprintf(&sb, "Benchmark%s %d %v ns/op", name, 1+r.Intn(100000), float64(r.Intn(1000000))/8)
		if r.Chance(0.5) {
			fmt.Fprintf(&sb, " %d B/op", r.Intn(4096))
		}
		if r.Chance(0.2) {
			fmt.Fprintf(&sb, " %v %s", float64(r.Intn(1000)), "u"+word(2))
		}
		if r.Chance(0.1) {
			sb.WriteString("\r")
		}
		sb.WriteString("\n")
		if i+1 >= nres && sb.Len() > target {
			break
		}
	}
	s := sb.String()
	return s, strings.Count(s, "\nBenchmark") + 1
}

func c02Labels(r *hx.Rng) [][2]string {
	var out [][2]string
	n := r.Intn(4)
	keys := []string{".file", "goos", "k1", ".label", "é", "K"}
	vals := []string{"a.txt", "linux", "", "x y", "é"}
	for i := 0; i < n; i++ {
		out = append(out, [2]string{keys[r.Intn(len(keys))], vals[r.Intn(len(vals))]})
	}
	return out
}

func genC02(o *hx.Out, r *hx.Rng, tier string, replay string) error {
	o.Rule = "byte-level benchmark texts: lines weighted 40% benchmark / 25% key-value / 10% unit / 25% foreign, 12% of lines mutated (byte deleted / inserted / replaced, incl. invalid UTF-8 and U+00A0/U+2028), separators from ASCII and Unicode white space, LF / CRLF / CRCRLF endings, missing final newline; read (a) through one benchfmt.Reader reused by Reset over 1-3 inputs with arbitrary initial labels and (b) through benchfmt.Files over 1-4 real files with duplicate paths, label=path arguments and missing files; 30% of the key/value lines carry a mixed-script key of 1-4 runes drawn from rune classes (ASCII / non-ASCII lower case, ASCII / non-ASCII upper case, titlecase, caseless and Other_Lowercase/Other_Uppercase letters, digits, marks, ASCII and non-ASCII white space), and every such rune is also tried alone, first, last and in the middle of a key (directed); inputs of 50-600 results with distinct random names totalling more than 64 KiB (every result cloned at Scan time, all clones re-serialised at the end: Name, configuration values, values); hostile: 1500 distinct keys / units (intern-table eviction), set/delete/re-set key histories, lines of 64 KiB and more (foreign, benchmark, key/value; 65534-140000 bytes, LF and CR LF); the caller of the reused Reader may stop after k Scans (also between the records queued by one Unit line) and Reset; io-error histories: 2-4 inputs through one reused Reader where an earlier input's io.Reader delivers a prefix (cut at a line end or inside a line) and then fails with an error other than io.EOF - Err must report it and the following inputs are read afresh. Every result is cloned at Scan time and re-serialised at the end. non-trivial = at least one result record; distinct by input bytes"
	o.Add(hx.L(hx.I(0), hx.List(unicodeRanges(unicode.IsSpace)), hx.List(unicodeRanges(unicode.IsLower)), hx.List(unicodeRanges(unicode.IsUpper))),
		map[string]string{"kind": "tables"}, "tables", false)

	nReader, nFiles := 1200, 250
	if tier == "thorough" {
		nReader, nFiles = 30000, 4000
	}
	// fixed small corpus: the documented examples and edge shapes
	fixed := []string{
		"", "\n", "\r", "\r\n", "BenchmarkX 1 1 ns/op", "BenchmarkX 1 1 ns/op\n", "a: b\nBenchmarkX 1 1 ns/op\na:\nBenchmarkX 1 1 ns/op\n",
		"a: 1\nb: 2\nc: 3\na:\nBenchmarkX 1 1 ns/op\nd: 4\nb:\nBenchmarkX 1 1 ns/op\na: 5\nBenchmarkX 1 1 ns/op\n",
		"Unit ns/op better=lower\nUnit sec/op better=higher\nUnit ns/op better=lower\n",
		"BenchmarkX\nBenchmarkX \nBenchmarkX 1\nBenchmarkX 1 1\nBenchmarkX x 1 ns/op\nBenchmarkX 1 x ns/op\nBenchmark 1 1 ns/op\n",
		"a:b: c\nBenchmarkX 1 1 ns/op\nUnit ns/op\nUnit\nBenchmark 2 2 ns/op\na: b: c\nBenchmarkY 1 1 ns/op\n",
		"k: v\r\nBenchmarkX 1 1 ns/op\r\n", "k: v\r\r\nBenchmarkX 1 0 ns/op +Inf MB/s\n",
	}
	for _, t := range fixed {
		if err := c02Reader(o, []c02File{{Name: "f", Content: strconv.Quote(t)}}, []string{t}, "fixed"); err != nil {
			return err
		}
	}
	// directed: Reset while records of one line are still queued
	multi := []string{
		"Unit ns/op a=1 b=2 c=3\nBenchmarkX 1 1 ns/op\n",
		"k: v\nUnit x bad a=1 also-bad b=2\nBenchmarkX 1 1 ns/op\n",
		"Unit sec/op better=lower\nUnit ns/op better=higher assume=exact x=y\nBenchmarkY 2 2 MB/s\n",
		"BenchmarkX 1 1 ns/op\nUnit MB/s a=1 a=2 a=3 b=1\n",
	}
	nexts := []string{"BenchmarkZ 3 3 ns/op\n", "Unit ns/op a=1 b=3 d=4\nj: w\nBenchmarkZ 3 3 sec/op\n", "", "Unit MB/s a=1 b=1 c=1"}
	for _, t := range multi {
		for k := 0; k <= 5; k++ {
			for _, t2 := range nexts {
				kk := k
				files := []c02File{{Name: "first", Content: strconv.Quote(t), Take: &kk}, {Name: "second", Labels: [][2]string{{"k", "lab"}}, Content: strconv.Quote(t2)}}
				if err := c02Reader(o, files, []string{t, t2}, "reset-mid-line"); err != nil {
					return err
				}
			}
		}
	}
	// directed: keys of key/value lines over the rune classes, ten candidate
	// lines and then a result that shows which of them took effect
	{
		var cands []string
		cands = append(cands, c02FixedMixedKeys...)
		for _, a := range c02RuneClasses {
			for _, x := range a.runes {
				cands = append(cands, string(x), string(x)+"x", "x"+string(x), "x"+string(x)+"y", "é"+string(x))
			}
		}
		for i := 0; i < len(cands); i += 10 {
			var sb strings.Builder
			for j, k := range cands[i:min(i+10, len(cands))] {
				fmt.Fprintf(&sb, "%s: %d.5\n", k, j)
			}
			sb.WriteString("BenchmarkX 1 1 ns/op\n")
			t := sb.String()
			o.Count("class:kv-keys-over-rune-classes (directed)")
			if err := c02Reader(o, []c02File{{Name: "f", Content: strconv.Quote(t)}}, []string{t}, "kv-key-classes"); err != nil {
				return err
			}
		}
	}
	// directed: one reader Reset over successive inputs whose first line sets a key
	// that is / is not an initial label (internal <-> file in one recycled slot)
	{
		t1, t2, t3 := "k: v\nBenchmarkX 1 1 ns/op\n", "k: w\nBenchmarkY 1 1 ns/op\nj: 1\nBenchmarkY 2 2 MB/s\n", "BenchmarkZ 1 1 ns/op\nk: u\nBenchmarkZ 2 1 ns/op\n"
		lab := [][2]string{{"k", "lab"}}
		seqs := [][]c02File{
			{{Name: "f", Labels: lab, Content: t1}, {Name: "f", Content: t1}, {Name: "f", Labels: lab, Content: t1}, {Name: "f", Content: t2}},
			{{Name: "f", Content: t1}, {Name: "f", Labels: lab, Content: t1}, {Name: "f", Content: t1}},
			{{Name: "f", Labels: lab, Content: t3}, {Name: "f", Content: t1}, {Name: "f", Labels: lab, Content: t3}},
			{{Name: "f", Content: t2}, {Name: "f", Labels: lab, Content: t3}, {Name: "f", Labels: [][2]string{{"j", "x"}}, Content: t2}, {Name: "f", Content: t1}},
			{{Name: "f", Labels: lab, Content: t2}, {Name: "f", Labels: lab, Content: t2}},
		}
		for _, fs := range seqs {
			var raw []string
			for i := range fs {
				raw = append(raw, fs[i].Content)
				fs[i].Content = strconv.Quote(fs[i].Content)
			}
			o.Count("class:reset:initial-label-key-also-set-by-first-line (directed)")
			if err := c02Reader(o, fs, raw, "reset-label-first-line"); err != nil {
				return err
			}
		}
	}
	// inputs larger than the scanner's buffer, every result cloned at Scan time
	nBig := 6
	if tier == "thorough" {
		nBig = 60
	}
	for i := 0; i < nBig; i++ {
		t, nres := c02BigText(r)
		files := []c02File{{Name: "big", Content: strconv.Quote(t)}}
		raw := []string{t}
		if i%3 == 2 {
			t2 := c02Text(r, o, 10)
			files = append(files, c02File{Name: "after", Content: strconv.Quote(t2)})
			raw = append(raw, t2)
		}
		o.Count("class:input>64KiB,all-results-cloned")
		o.Dist["big-input:results"] += nres
		o.Dist["big-input:bytes"] += len(t)
		if err := c02Reader(o, files, raw, "big"); err != nil {
			return err
		}
	}
	for i := 0; i < nReader; i++ {
		nf := 1
		if r.Chance(0.4) {
			nf = r.Range(2, 3)
		}
		var files []c02File
		var raw []string
		for j := 0; j < nf; j++ {
			t := c02Text(r, o, r.Intn(26))
			name := []string{"f", "g.txt", "", "dir/é"}[r.Intn(4)]
			cf := c02File{Name: name, Labels: c02Labels(r), Content: strconv.Quote(t)}
			if j < nf-1 && r.Chance(0.5) {
				k := r.Intn(6)
				cf.Take = &k
			}
			files = append(files, cf)
			raw = append(raw, t)
		}
		if err := c02Reader(o, files, raw, "random"); err != nil {
			return err
		}
	}
	// hostile: many keys, set/delete churn, many units, long line
	hostile := func(kind int) string {
		var sb strings.Builder
		switch kind {
		case 0: // 1500 distinct keys, then results, then delete most, result
			for i := 0; i < 1500; i++ {
				fmt.Fprintf(&sb, "k%d: v%d\n", i, i)
			}
			sb.WriteString("BenchmarkX 1 1 ns/op\n")
			for i := 0; i < 1500; i += 2 {
				fmt.Fprintf(&sb, "k%d:\n", i)
			}
			sb.WriteString("BenchmarkY 1 1 ns/op\nk3: again\nk2: back\nBenchmarkZ 2 2 MB/s\n")
		case 1: // churn over 40 keys
			for i := 0; i < 1200; i++ {
				k := r.Intn(40)
				switch r.Intn(3) {
				case 0:
					fmt.Fprintf(&sb, "k%d:\n", k)
				default:
					fmt.Fprintf(&sb, "k%d: v%d\n", k, r.Intn(5))
				}
				if r.Chance(0.05) {
					sb.WriteString("BenchmarkX 1 1 ns/op\n")
				}
			}
			sb.WriteString("BenchmarkX 1 1 ns/op\n")
		case 2: // 1500 distinct units in results and unit lines
			for i := 0; i < 1500; i++ {
				fmt.Fprintf(&sb, "BenchmarkX 1 %d u%d-ns\n", i, i)
				if i%3 == 0 {
					fmt.Fprintf(&sb, "Unit u%d-ns better=lower\n", i)
				}
			}
		case 3: // a line over the scanner's token limit in the middle
			sb.WriteString("a: b\nBenchmarkX 1 1 ns/op\n")
			sb.WriteString("x: " + strings.Repeat("y", 65536-3-r.Intn(2)) + "\n")
			sb.WriteString("BenchmarkY 1 1 ns/op\n")
		case 4: // exactly at the limit, unterminated
			sb.WriteString("BenchmarkX 1 1 ns/op\n" + strings.Repeat("z", 65535+r.Intn(2)))
		case 5: // a foreign line far over the limit, results on both sides (the audit's witness)
			sb.WriteString("BenchmarkX 1 1 ns/op\n# " + strings.Repeat("y", 70000+r.Intn(70000)) + "\nBenchmarkY 1 1 ns/op\n")
		case 6: // a benchmark line over the limit: long name, and many measurements
			sb.WriteString("k: v\nBenchmark" + strings.Repeat("N", 65536+r.Intn(300)) + " 7 1 ns/op\n")
			sb.WriteString("BenchmarkM 1" + strings.Repeat(" 2 ns/op", 8200+r.Intn(50)) + "\nBenchmarkZ 1 1 ns/op\n")
		case 7: // a configuration value over the limit, shown by the next result, then deleted
			sb.WriteString("long: " + strings.Repeat("v", 65530+r.Intn(12)) + "\nBenchmarkX 1 1 ns/op\nlong:\nBenchmarkY 1 1 ns/op\n")
		case 8: // lines of 65534..65537 bytes with CR LF endings around the limit
			for d := -2; d <= 1; d++ {
				sb.WriteString("# " + strings.Repeat("c", 65536-2+d) + "\r\nBenchmarkX 1 " + strconv.Itoa(d+5) + " ns/op\n")
			}
		}
		return sb.String()
	}
	nh := 1
	if tier == "thorough" {
		nh = 4
	}
	for rep := 0; rep < nh; rep++ {
		for kind := 0; kind < 9; kind++ {
			t := hostile(kind)
			if kind >= 3 {
				o.Count("class:line-of-64KiB-or-more")
			}
			t2 := c02Text(r, o, 10)
			files := []c02File{{Name: "h", Content: strconv.Quote(t)}, {Name: "after", Content: strconv.Quote(t2)}}
			if err := c02Reader(o, files, []string{t, t2}, "hostile"); err != nil {
				return err
			}
		}
	}

	// Files on real files
	base := os.Getenv("VERIF_WORK")
	if base == "" {
		base = os.TempDir()
	}
	dir, err := os.MkdirTemp(base, "c02files")
	if err != nil {
		return err
	}
	defer os.RemoveAll(dir)
	cwd, _ := os.Getwd()
	if err := os.Chdir(dir); err != nil {
		return err
	}
	defer os.Chdir(cwd)
	for i := 0; i < nFiles; i++ {
		names := []string{"a", "b", "x=y", "d/a", "y"}
		names = names[:r.Range(1, len(names))]
		var contents []string
		for range names {
			n := r.Intn(16)
			if r.Chance(0.03) {
				contents = append(contents, hostile([]int{3, 5, 7}[r.Intn(3)]))
				o.Count("class:files:line-of-64KiB-or-more")
				continue
			}
			if i%100 == 7 && len(contents) == 0 {
				t, _ := c02BigText(r)
				contents = append(contents, t)
				o.Count("class:files:input>64KiB,all-results-cloned")
				continue
			}
			contents = append(contents, c02Text(r, o, n))
		}
		np := r.Range(1, 4)
		var paths []string
		for j := 0; j < np; j++ {
			p := names[r.Intn(len(names))]
			switch r.Intn(10) {
			case 0:
				p = "L=" + p
			case 1:
				p = "=" + p
			case 2:
				p = "missing"
			case 3:
				p = "a#0=" + p
			}
			paths = append(paths, p)
		}
		if r.Chance(0.3) && len(paths) > 1 {
			paths[len(paths)-1] = paths[0]
		}
		allow := r.Chance(0.6)
		if r.Chance(0.25) {
			// the same file named both as label=path and as a plain path, in either order, with labels allowed
			p0 := names[r.Intn(len(names))]
			lab := []string{"L", "", p0, p0 + "#0", "other"}[r.Intn(5)]
			pair := []string{lab + "=" + p0, p0}
			if r.Bool() {
				pair[0], pair[1] = pair[1], pair[0]
			}
			if r.Chance(0.4) {
				pair = append(pair, p0)
			}
			paths = pair
			allow = true
			o.Count("files:label=path-and-plain")
		}
		if err := c02Files(o, dir, names, contents, paths, allow, "files"); err != nil {
			return err
		}
		if i%4 == 0 {
			// the same world with AllowStdin: no paths at all (the implicit input), "-" alone, "-" among files,
			// "label=-"; at most one input reads stdin (a second read of the consumed stream is the empty file)
			stdin := c02Text(r, o, r.Intn(12))
			var sp []string
			switch r.Intn(5) {
			case 0:
				sp = nil
			case 1:
				sp = []string{"-"}
			case 2:
				sp = append([]string{}, paths...)
				sp[r.Intn(len(sp))] = "-"
			case 3:
				sp = append([]string{"L=-"}, paths...)
			default:
				sp = append(append([]string{}, paths...), "-")
			}
			nd := 0
			for k, p := range sp {
				if p == "-" || strings.HasSuffix(p, "=-") {
					nd++
					if nd > 1 {
						sp[k] = names[0]
					}
				}
			}
			o.Count(fmt.Sprintf("files:allow-stdin:shape=%d", len(sp)))
			if err := c02FilesStdin(o, dir, names, contents, sp, allow || len(sp) > 0 && strings.Contains(sp[0], "=-"), &stdin, "files", "stdin"); err != nil {
				return err
			}
		}
	}
	_ = math.Pi
	if err := c02DupLabelled(o, r.Split(), dir, tier); err != nil { // c02dup.go: the same path twice plain and once labelled
		return err
	}
	return c02IOErrors(o, r.Split(), tier)
}

// c02IOErrors: one Reader reused through Reset where an EARLIER input died with
// a real I/O error of its io.Reader (after delivering a prefix that ends at a
// line boundary or inside a line): Err reports it, and the next input is read
// from its first line as if the Reader were new (own stream, last).
func c02IOErrors(o *hx.Out, r *hx.Rng, tier string) error {
	n := 40
	if tier == "thorough" {
		n = 600
	}
	for i := 0; i < n; i++ {
		nf := r.Range(2, 4)
		bad := r.Intn(nf - 1) // never the last: something must follow the failure
		var files []c02File
		var raw []string
		for j := 0; j < nf; j++ {
			t := c02Text(r, o, r.Range(1, 10))
			f := c02File{Name: []string{"a", "b", "", "c"}[j]}
			if r.Chance(0.3) {
				f.Labels = c02Labels(r)
			}
			if j == bad || (j < nf-1 && r.Chance(0.2)) {
				f.IOErr = true
				if len(t) > 0 && r.Chance(0.6) {
					t = t[:r.Intn(len(t)+1)] // the failure comes anywhere, also inside a line
				}
			}
			f.Content = strconv.Quote(t)
			files, raw = append(files, f), append(raw, t)
		}
		if err := c02Reader(o, files, raw, "ioerr"); err != nil {
			return err
		}
	}
	return nil
}
