package main

// C15, two classes of LARGE inputs.
//
// big-table (case kind 10, coq/Corr/RunC15.v): tables with >= 1024 rows (one
// row per benchmark, 2-3 columns: files, or the values of the sub-name key /v
// of one file), values spread over nine orders of magnitude with all their
// digits, so that the geomean row of -format csv (printed at full precision)
// shows the last bits of the summary.  Every input is run through the real
// binary at GOMAXPROCS 1, 2, 4, 16 in csv (twice) and text, and through the
// -race build; the case carries the standard output and standard error of
// EVERY run and the evaluator compares them.
//   case: (10 rows keyfields ((key values) abstract-table)... csv-records runs)
//         run = (gomaxprocs csv? race? stdout stderr)
//
// big-sample (case kind 8, as c15nan.go): cells of 256..600 measurements that
// arrive unsorted (shuffled, descending, saw-tooth), in 2-3 columns whose
// distributions nearly coincide (p-values away from 0 and 1).  Variants: the
// input as given, the SAME input again, its result lines reversed, shuffled;
// every variant in process (under a different GOMAXPROCS each: cells with the
// values in order of arrival, p-values at full precision) and through the
// binary in text and csv at GOMAXPROCS 1, 2, 4, 16; the first two variants
// through the -race build at GOMAXPROCS 4 and 16.  Judged: every cell's sample
// is the ascending arrangement of its own measurements, each once; all variants
// have the same cells with the same contents, the comparison (P, N1, N2,
// baseline sample) included; no data race; the same bytes everywhere.

import (
	"fmt"
	"math"
	"os"
	"runtime"
	"strings"

	"verifharness/internal/hx"
)

// c15GenBigTable builds one input with nrows benchmarks. mode 0: columns are
// files; mode 1: columns are the values of /v in one file (-col /v).
func c15GenBigTable(r *hx.Rng, mode int) (bsInput, bsFlags, string, int) {
	nrows := 1024 + r.Intn(160)
	ncols := 2
	if mode == 1 {
		ncols = 2 + r.Intn(2)
	}
	units := []string{"ns/op"}
	if r.Chance(0.3) {
		units = append(units, "B/op")
	}
	missing := r.Chance(0.5) // a few cells without measurements: "benchmark set differs from baseline"
	nfiles := ncols
	if mode == 1 {
		nfiles = 1
	}
	files := make([]strings.Builder, nfiles)
	vnames := []string{"a", "b", "c"}
	for f := range files {
		files[f].WriteString("goos: linux\npkg: big\n")
	}
	for row := 0; row < nrows; row++ {
		// the centre of the row: nine orders of magnitude, all digits
		base := math.Exp(float64(r.Intn(20000))/1000.0 - 4)
		for c := 0; c < ncols; c++ {
			if missing && r.Chance(0.01) {
				continue
			}
			fi := c
			if mode == 1 {
				fi = 0
			}
			b := &files[fi]
			name := fmt.Sprintf("BenchmarkOp%04d", row)
			if mode == 1 {
				name += "/v=" + vnames[c]
			}
			ns := 2 + r.Intn(2)
			for s := 0; s < ns; s++ {
				fmt.Fprintf(b, "%s-8 %d", name, 1+r.Intn(1000))
				for ui, u := range units {
					v := base * (1 + float64(c)*0.013) * (1 + float64(r.Intn(2001)-1000)*1e-5) * float64(1+ui)
					fmt.Fprintf(b, " %v %s", v, u)
				}
				b.WriteString("\n")
			}
		}
	}
	var in bsInput
	for i := range files {
		in.Files = append(in.Files, bsFile{Name: fmt.Sprintf("big%d.txt", i), Content: files[i].String()})
	}
	fl := bsFlags{alpha: -1, confidence: -1}
	if mode == 1 {
		fl.col = "/v"
	}
	in.Flags = fl.args()
	desc := fmt.Sprintf("mode=%d cols=%d units=%d missing-cells=%v", mode, ncols, len(units), missing)
	return in, fl, desc, nrows
}

func c15BigTableCase(o *hx.Out, exe, raceExe, dir string, in bsInput, fl bsFlags, desc string, nrows int, reps int) error {
	if err := writeBsFiles(dir, in); err != nil {
		return err
	}
	run := runBenchstatInProc(dir, in, fl)
	if run.err != nil || len(run.tables.Tables) == 0 {
		o.Count("big-table:pipeline-error")
		return nil
	}
	var runs []hx.Sx
	var csv0, firstDiff string
	var out0 [2]string
	var have [2]bool
	one := func(bin string, race bool, procs int, format string) {
		env := []string{fmt.Sprint("GOMAXPROCS=", procs)}
		if race {
			env = append(env, "GORACE=atexit_sleep_ms=0")
		}
		so, se, _ := runBinary(bin, dir, in, format, env)
		k := 0
		if format == "csv" {
			k = 1
		}
		if !race && !have[k] {
			have[k], out0[k] = true, so
			if k == 1 {
				csv0 = so
			}
		} else if have[k] && so != out0[k] && firstDiff == "" {
			firstDiff = fmt.Sprintf("%s GOMAXPROCS=%d race=%v", format, procs, race)
		}
		if race && strings.Contains(se, "DATA RACE") && firstDiff == "" {
			firstDiff = fmt.Sprintf("DATA RACE: %s GOMAXPROCS=%d", format, procs)
		}
		runs = append(runs, hx.L(hx.I(procs), hx.Bool(format == "csv"), hx.Bool(race), hx.S(so), hx.S(se)))
	}
	for rep := 0; rep < reps; rep++ {
		for _, p := range []int{1, 2, 4, 16} {
			one(exe, false, p, "csv")
		}
	}
	one(exe, false, 1, "text")
	one(exe, false, 16, "text")
	one(raceExe, true, 4, "csv")
	one(raceExe, true, 16, "csv")
	o.Count("big-table:race-runs")

	// the tables built in process, in the abstract form of the rendering model
	kf := run.tables.Keys[0].Projection().FlattenedFields()
	var kfNames []string
	for _, f := range kf {
		kfNames = append(kfNames, f.Name)
	}
	var tabs []hx.Sx
	maxRows := 0
	for ti, t := range run.tables.Tables {
		tk := run.tables.Keys[ti]
		var vals []string
		for _, f := range kf {
			vals = append(vals, tk.Get(f))
		}
		abs, _ := c16AbsTable(t)
		tabs = append(tabs, hx.L(hx.SList(vals), abs))
		maxRows = max(maxRows, len(t.Rows))
	}
	csvRows, err := c16CSVRows(csv0)
	if err != nil {
		o.Count("big-table:csv-not-parsable")
	}
	var recx []hx.Sx
	for _, rec := range csvRows {
		recx = append(recx, hx.SList(rec))
	}
	o.Count("big-table:" + strings.SplitN(desc, " ", 2)[0])
	o.Count(fmt.Sprintf("big-table:rows>=1024:%v", maxRows >= 1024))
	o.Count(fmt.Sprintf("big-table:tables=%d", len(run.tables.Tables)))
	o.Count(fmt.Sprintf("big-table:runs=%d", len(runs)))
	o.Count(fmt.Sprintf("big-table:identical=%v", firstDiff == ""))
	input := map[string]interface{}{"kind": "big-table", "class": desc, "rows": nrows, "input": in, "first_diff": firstDiff,
		"runs": "GOMAXPROCS 1,2,4,16 csv (repeated), 1,16 text, -race build csv at 4,16"}
	o.Add(hx.L(hx.I(10), hx.I(maxRows), hx.SList(kfNames), hx.List(tabs), hx.List(recx), hx.List(runs)),
		input, "big-table:"+fmt.Sprint(nrows, desc, len(in.Files[0].Content)), true)
	return nil
}

// ---------------------------------------------------------------- big samples

// c15GenBigSample: 2-3 files, 1-2 benchmarks, 1-2 units; every cell holds
// 256..600 measurements in a non-ascending arrival order.
func c15GenBigSample(r *hx.Rng) (files [][]string, names []string, desc string) {
	nfiles := 2 + r.Intn(2)
	units := [][]string{{"sec/op"}, {"sec/op", "B/op"}, {"widgets"}}[r.Intn(3)]
	nb := 1 + r.Intn(2)
	files = make([][]string, nfiles)
	shape := r.Intn(3)
	ties := r.Bool()
	for f := 0; f < nfiles; f++ {
		for b := 0; b < nb; b++ {
			n := 256 + r.Intn(345)
			if r.Chance(0.2) {
				n = []int{256, 257, 512, 600}[r.Intn(4)]
			}
			name := fmt.Sprintf("BenchmarkBig%d-8", b)
			centre := 1000 * float64(b+1)
			vals := make([][]float64, len(units))
			for ui := range units {
				vs := make([]float64, n)
				for i := range vs {
					// nearly the same distribution in every file (a shift of a fraction of the spread)
					x := centre*float64(ui+1) + float64(r.Intn(4001)-2000)*0.05 + float64(f)*float64(r.Intn(7))
					if ties {
						x = math.Round(x)
					} else {
						x += float64(r.Intn(1000)) * 1e-6
					}
					vs[i] = x
				}
				switch shape {
				case 1: // descending
					c15SortDesc(vs)
				case 2: // saw-tooth: two ascending halves
					c15SortDesc(vs)
					for i, j := 0, len(vs)/2-1; i < j; i, j = i+1, j-1 {
						vs[i], vs[j] = vs[j], vs[i]
					}
					for i, j := len(vs)/2, len(vs)-1; i < j; i, j = i+1, j-1 {
						vs[i], vs[j] = vs[j], vs[i]
					}
				}
				vals[ui] = vs
			}
			for i := 0; i < n; i++ {
				var sb strings.Builder
				fmt.Fprintf(&sb, "%s %d", name, 1+r.Intn(1000))
				for ui, u := range units {
					fmt.Fprintf(&sb, " %v %s", vals[ui][i], u)
				}
				files[f] = append(files[f], sb.String())
			}
		}
		names = append(names, fmt.Sprintf("s%c.txt", 'a'+f))
	}
	desc = fmt.Sprintf("files=%d benchmarks=%d units=%d arrival=%s ties=%v", nfiles, nb, len(units),
		[]string{"shuffled", "descending", "saw-tooth"}[shape], ties)
	return
}

func c15SortDesc(vs []float64) {
	for i := 1; i < len(vs); i++ {
		for j := i; j > 0 && vs[j] > vs[j-1]; j-- {
			vs[j], vs[j-1] = vs[j-1], vs[j]
		}
	}
}

func c15BigSampleInput(files [][]string, names []string) bsInput {
	var in bsInput
	for f, ls := range files {
		in.Files = append(in.Files, bsFile{Name: names[f], Content: "goos: linux\npkg: p\n" + strings.Join(ls, "\n") + "\n"})
	}
	return in
}

func c15BigSampleCase(o *hx.Out, r *hx.Rng, exe, raceExe, dir string) error {
	files, names, desc := c15GenBigSample(r)
	fl := bsFlags{alpha: -1, confidence: -1}
	identical, raceOK := true, true
	nruns := 0
	var wantText, wantCSV, firstDiff string
	var variants []hx.Sx
	var inputs []bsInput
	ncells, maxN, minN, unsorted := 0, 0, 1<<30, 0
	procs := []int{1, 2, 4, 16}
	saved := runtime.GOMAXPROCS(0)
	defer runtime.GOMAXPROCS(saved)
	for mode := 0; mode < 4; mode++ {
		vf := make([][]string, len(files))
		for f := range files {
			ls := append([]string(nil), files[f]...)
			// the lines of one benchmark are contiguous: permute inside each block, so
			// that the rows keep their order of first observation
			for i := 0; i < len(ls); {
				j := i
				for j < len(ls) && strings.SplitN(ls[j], " ", 2)[0] == strings.SplitN(ls[i], " ", 2)[0] {
					j++
				}
				blk := ls[i:j]
				switch mode {
				case 2:
					for a, b := 0, len(blk)-1; a < b; a, b = a+1, b-1 {
						blk[a], blk[b] = blk[b], blk[a]
					}
				case 3:
					for a := len(blk) - 1; a > 0; a-- {
						b := r.Intn(a + 1)
						blk[a], blk[b] = blk[b], blk[a]
					}
				}
				i = j
			}
			vf[f] = ls
		}
		in := c15BigSampleInput(vf, names)
		inputs = append(inputs, in)
		if err := writeBsFiles(dir, in); err != nil {
			return err
		}
		// in process, each variant under another GOMAXPROCS (ToTables reads it)
		runtime.GOMAXPROCS(procs[(mode+1)%4])
		run := runBenchstatInProc(dir, in, fl)
		runtime.GOMAXPROCS(saved)
		if run.err != nil {
			o.Count("big-sample:pipeline-error")
			return nil
		}
		cells, _, _ := c15nCells(run)
		if mode == 0 {
			ncells = len(cells)
			for _, vs := range run.groups {
				maxN, minN = max(maxN, len(vs)), min(minN, len(vs))
				for i := 1; i < len(vs); i++ {
					if vs[i] < vs[i-1] {
						unsorted++
						break
					}
				}
			}
		}
		variants = append(variants, hx.List(cells))
		for _, p := range procs {
			env := []string{fmt.Sprint("GOMAXPROCS=", p)}
			gt, _, _ := runBinary(exe, dir, in, "text", env)
			gc, _, _ := runBinary(exe, dir, in, "csv", env)
			nruns += 2
			if mode == 0 && p == 1 {
				wantText, wantCSV = gt, gc
			}
			if gt != wantText || gc != wantCSV {
				identical = false
				if firstDiff == "" {
					firstDiff = fmt.Sprintf("variant %d GOMAXPROCS=%d", mode, p)
				}
			}
		}
		if mode <= 1 {
			for _, p := range []int{4, 16} {
				out, serr, _ := runBinary(raceExe, dir, in, "text", []string{fmt.Sprint("GOMAXPROCS=", p), "GORACE=atexit_sleep_ms=0"})
				if strings.Contains(serr, "DATA RACE") {
					raceOK = false
					if firstDiff == "" {
						firstDiff = fmt.Sprintf("DATA RACE variant %d GOMAXPROCS=%d", mode, p)
					}
				}
				if out != wantText {
					identical = false
					if firstDiff == "" {
						firstDiff = fmt.Sprintf("race build variant %d GOMAXPROCS=%d", mode, p)
					}
				}
				nruns++
				o.Count("big-sample:race-runs")
			}
		}
	}
	o.Count("big-sample:" + desc[strings.Index(desc, "arrival="):])
	o.Count(fmt.Sprintf("big-sample:files=%d", len(files)))
	o.Count(fmt.Sprintf("big-sample:every-cell>=256:%v", minN >= 256))
	o.Count(fmt.Sprintf("big-sample:largest-sample<=%d", (maxN+99)/100*100))
	o.Count(fmt.Sprintf("big-sample:all-cells-arrive-unsorted:%v", unsorted == ncells))
	o.Count(fmt.Sprintf("big-sample:identical=%v race_ok=%v", identical, raceOK))
	input := map[string]interface{}{"kind": "big-sample: cells of 256..600 values arriving unsorted; variants: as given, again, reversed, shuffled",
		"class": desc, "variants": inputs, "first_diff": firstDiff, "identical": identical, "race_ok": raceOK}
	o.Add(hx.L(hx.I(8), hx.Bool(identical), hx.Bool(raceOK), hx.I(nruns), hx.List(variants)),
		input, "big-sample:"+desc+fmt.Sprint(len(inputs[0].Files[0].Content)), ncells >= 2)
	return nil
}

func c15GenBigCases(o *hx.Out, r *hx.Rng, tier string, exe, raceExe string) error {
	ntab, nsmp, reps := 2, 3, 2
	if tier == "thorough" {
		ntab, nsmp, reps = 8, 12, 3
	}
	dir, err := os.MkdirTemp(os.Getenv("VERIF_WORK"), "c15big")
	if err != nil {
		return err
	}
	defer os.RemoveAll(dir)
	for i := 0; i < ntab; i++ {
		rr := r.Split()
		in, fl, desc, nrows := c15GenBigTable(rr, i%2)
		if err := c15BigTableCase(o, exe, raceExe, dir, in, fl, desc, nrows, reps); err != nil {
			return err
		}
	}
	for i := 0; i < nsmp; i++ {
		if err := c15BigSampleCase(o, r.Split(), exe, raceExe, dir); err != nil {
			return err
		}
	}
	return nil
}
