package main

// C20 — uploads are all-or-nothing under faults; upload IDs are never reused.
// Fault enumeration on the real storage/app server (in-process, in-memory
// sqlite): a fault-injecting fs.FS failing the n-th create/write/close, a fault-injecting
// driver.Connector under sqlite failing the n-th Begin/Exec/Query/Commit, request
// bodies cut at every byte offset (with intact HTTP framing, and as a dropped
// connection), unexpected form field, file without benchmark lines, rows the
// database refuses, client Abort; after each run /search, /uploads and the file
// store are recorded. And DB.NewUpload sequentially and from 16 goroutines.
// The file store is either in memory or the real local-disk implementation
// (storage/fs/local, as cmd/localperfdata -data constructs it) over a fresh
// directory under $VERIF_WORK, in which case "the file store" is what a walk
// of that directory finds afterwards (any name, also temporary ones).

import (
	"bytes"
	"context"
	"database/sql"
	"database/sql/driver"
	"encoding/json"
	"errors"
	"fmt"
	"io"
	iofs "io/fs"
	"log"
	"mime/multipart"
	"net/http"
	"net/http/httptest"
	"os"
	"path/filepath"
	"sort"
	"strings"
	"sync"

	sqlite3 "github.com/mattn/go-sqlite3"
	"golang.org/x/perf/storage"
	sapp "golang.org/x/perf/storage/app"
	"golang.org/x/perf/storage/db"
	_ "golang.org/x/perf/storage/db/sqlite3"
	"golang.org/x/perf/storage/fs"
	"golang.org/x/perf/storage/fs/local"
	"verifharness/internal/hx"
)

func init() { gens["C20"] = genC20 }

// ---------- fault-injecting file store ----------
// Like a local disk: a created file exists (as partial) until it is closed
// (complete) or closed with an error (removed). A failing Close removes
// nothing: the unfinished file stays in the store until CloseWithError is
// called (storage/fs/local behaves so: Close is os.File.Close).

type ffsFile struct {
	content  []byte
	complete bool
	writes   int
}

type faultFS struct {
	mu      sync.Mutex
	files   map[string]*ffsFile
	creates int // NewWriter calls so far
	open    int // writers not yet closed
	ops     int
	failAt int // index of the operation (create, write, close) that fails; -1 = none
	// disk != nil: the files live in the local-disk store rooted at root; the
	// map above is then only the bookkeeping of what the store was told
	disk fs.FS
	root string
	tmp  string // the process's TMPDIR while a disk store is in use; must stay empty
}

func newFaultFS(failAt int) *faultFS { return &faultFS{files: map[string]*ffsFile{}, failAt: failAt} }

var errInjected = errors.New("injected storage fault")

func (f *faultFS) step() error {
	n := f.ops
	f.ops++
	if n == f.failAt {
		return errInjected
	}
	return nil
}

type ffsWriter struct {
	fs    *faultFS
	name  string
	done  bool
	inner fs.Writer // the local-disk writer, if any
}

func (f *faultFS) NewWriter(ctx context.Context, name string, meta map[string]string) (fs.Writer, error) {
	f.mu.Lock()
	defer f.mu.Unlock()
	if err := f.step(); err != nil {
		return nil, err
	}
	var inner fs.Writer
	if f.disk != nil {
		var err error
		if inner, err = f.disk.NewWriter(ctx, name, meta); err != nil {
			return nil, err
		}
	}
	f.files[name] = &ffsFile{}
	f.creates++
	f.open++
	return &ffsWriter{fs: f, name: name, inner: inner}, nil
}

func (w *ffsWriter) Write(p []byte) (int, error) {
	w.fs.mu.Lock()
	defer w.fs.mu.Unlock()
	if err := w.fs.step(); err != nil {
		if w.inner != nil && len(p) > 1 {
			// a short write (disk full): part of the data reaches the file
			n, _ := w.inner.Write(p[:len(p)/2])
			return n, err
		}
		return 0, err
	}
	if w.inner != nil {
		if n, err := w.inner.Write(p); err != nil {
			return n, err
		}
	}
	fl := w.fs.files[w.name]
	fl.content = append(fl.content, p...)
	fl.writes++
	return len(p), nil
}

func (w *ffsWriter) Close() error {
	w.fs.mu.Lock()
	defer w.fs.mu.Unlock()
	if w.done {
		return errors.New("already closed")
	}
	w.done = true
	w.fs.open--
	if err := w.fs.step(); err != nil {
		// The store reports a failed Close and does nothing else: what was
		// written stays where it is (in memory as an unfinished file; on disk
		// the file is closed, all its bytes are there) until the SERVER has
		// it removed. fs.Writer states no contract for a failing Close, and
		// storage/fs/local's Close is a plain os.File.Close that removes nothing.
		if w.inner != nil {
			w.inner.Close()
		}
		return err
	}
	if w.inner != nil {
		if err := w.inner.Close(); err != nil {
			return err // a real close error: the file stays on disk, not complete
		}
	}
	w.fs.files[w.name].complete = true
	return nil
}

func (w *ffsWriter) CloseWithError(err error) error {
	w.fs.mu.Lock()
	defer w.fs.mu.Unlock()
	if !w.done {
		w.fs.open--
	}
	w.done = true
	delete(w.fs.files, w.name)
	if w.inner != nil {
		return w.inner.CloseWithError(err)
	}
	return nil
}

// snapshot: what the store holds now, sorted by name. On disk: every
// non-directory entry below the root, whatever its name; it counts as complete
// only if the store was told to keep exactly that file.
type ffsEntry struct {
	name     string
	content  []byte
	complete bool
}

func (f *faultFS) snapshot() []ffsEntry {
	f.mu.Lock()
	defer f.mu.Unlock()
	var out []ffsEntry
	if f.disk == nil {
		for n, fl := range f.files {
			out = append(out, ffsEntry{n, fl.content, fl.complete})
		}
	} else {
		filepath.WalkDir(f.root, func(path string, d iofs.DirEntry, err error) error {
			if err != nil || d.IsDir() {
				return nil
			}
			rel, _ := filepath.Rel(f.root, path)
			rel = filepath.ToSlash(rel)
			b, rerr := os.ReadFile(path)
			if rerr != nil {
				b = []byte("unreadable: " + d.Type().String())
			}
			bk := f.files[rel]
			out = append(out, ffsEntry{rel, b, d.Type().IsRegular() && bk != nil && bk.complete})
			return nil
		})
		// anything left in the temporary directory is a leftover too
		filepath.WalkDir(f.tmp, func(path string, d iofs.DirEntry, err error) error {
			if err != nil || d.IsDir() {
				return nil
			}
			rel, _ := filepath.Rel(f.tmp, path)
			b, _ := os.ReadFile(path)
			out = append(out, ffsEntry{"TMPDIR/" + filepath.ToSlash(rel), b, false})
			return nil
		})
	}
	sort.Slice(out, func(i, j int) bool { return out[i].name < out[j].name })
	return out
}

// ---------- fault-injecting SQL connector (under sqlite, through the tagged
// hook storage/db/verif_export.go) ----------
// Counts Begin / Exec / Query / Commit in order and fails the chosen one
// without letting it reach SQLite (a failing Commit rolls the transaction
// back: "commit failed" means nothing was published).

type faultSQL struct {
	mu        sync.Mutex
	ops       int
	kinds     []string
	during    []int    // per operation: number of file writers created so far if one is open, else -1
	fs        *faultFS // to note which file is being written when an operation happens
	failAt    int      // -1 = none
	failEvery int // > 0: every failEvery-th operation fails (concurrency soak)
	dsn       string
	drv       *sqlite3.SQLiteDriver
}

func newFaultSQL(dsn string) *faultSQL {
	return &faultSQL{failAt: -1, dsn: dsn, drv: &sqlite3.SQLiteDriver{ConnectHook: func(c *sqlite3.SQLiteConn) error {
		_, err := c.Exec("PRAGMA foreign_keys = ON;", nil)
		return err
	}}}
}

func (f *faultSQL) step(kind string) error {
	f.mu.Lock()
	defer f.mu.Unlock()
	n := f.ops
	f.ops++
	if len(f.kinds) < 4096 {
		f.kinds = append(f.kinds, kind)
		d := -1
		if f.fs != nil {
			f.fs.mu.Lock()
			if f.fs.open > 0 {
				d = f.fs.creates
			}
			f.fs.mu.Unlock()
		}
		f.during = append(f.during, d)
	}
	if n == f.failAt || (f.failEvery > 0 && n%f.failEvery == f.failEvery-1) {
		return errInjectedSQL
	}
	return nil
}

var errInjectedSQL = errors.New("injected database fault")

func (f *faultSQL) Connect(context.Context) (driver.Conn, error) {
	c, err := f.drv.Open(f.dsn)
	if err != nil {
		return nil, err
	}
	return &fsqlConn{f, c}, nil
}
func (f *faultSQL) Driver() driver.Driver { return f.drv }

type fsqlConn struct {
	f *faultSQL
	c driver.Conn
}

func (c *fsqlConn) Prepare(q string) (driver.Stmt, error) {
	st, err := c.c.Prepare(q)
	if err != nil {
		return nil, err
	}
	return &fsqlStmt{c.f, st}, nil
}
func (c *fsqlConn) Close() error { return c.c.Close() }
func (c *fsqlConn) Begin() (driver.Tx, error) {
	if err := c.f.step("begin"); err != nil {
		return nil, err
	}
	tx, err := c.c.Begin() //nolint:staticcheck
	if err != nil {
		return nil, err
	}
	return &fsqlTx{c.f, tx}, nil
}

type fsqlStmt struct {
	f  *faultSQL
	st driver.Stmt
}

func (s *fsqlStmt) Close() error  { return s.st.Close() }
func (s *fsqlStmt) NumInput() int { return s.st.NumInput() }
func (s *fsqlStmt) Exec(args []driver.Value) (driver.Result, error) {
	if err := s.f.step("exec"); err != nil {
		return nil, err
	}
	return s.st.Exec(args) //nolint:staticcheck
}
func (s *fsqlStmt) Query(args []driver.Value) (driver.Rows, error) {
	if err := s.f.step("query"); err != nil {
		return nil, err
	}
	return s.st.Query(args) //nolint:staticcheck
}

type fsqlTx struct {
	f  *faultSQL
	tx driver.Tx
}

func (t *fsqlTx) Commit() error {
	if err := t.f.step("commit"); err != nil {
		t.tx.Rollback()
		return err
	}
	return t.tx.Commit()
}
func (t *fsqlTx) Rollback() error { return t.tx.Rollback() }

// c20OpenDB opens the storage DB on sqlite through the fault connector.
func c20OpenDB(dsn string, maxConns int) (*db.DB, *faultSQL, error) {
	d, f, _, err := c20OpenDB2(dsn, maxConns)
	return d, f, err
}

func c20OpenDB2(dsn string, maxConns int) (*db.DB, *faultSQL, *sql.DB, error) {
	f := newFaultSQL(dsn)
	sdb := sql.OpenDB(f)
	if maxConns > 0 {
		sdb.SetMaxOpenConns(maxConns)
	}
	d, err := db.VerifOpenWithDB(sdb, "sqlite3")
	if err != nil {
		return nil, nil, nil, err
	}
	return d, f, sdb, nil
}

// ---------- in-process server ----------

type c20Server struct {
	db   *db.DB
	sdb  *sql.DB // the same database, to read the Uploads table (every ID ever handed out)
	sql  *faultSQL
	fs   *faultFS
	mux  *http.ServeMux
	cl   *storage.Client
	user string
	seen    []string
	seenSet map[string]bool
	// light: leave out the extra searches that return nearly every record (big uploads)
	light bool
}

type inprocTransport struct{ h http.Handler }

func (t inprocTransport) RoundTrip(req *http.Request) (*http.Response, error) {
	rec := httptest.NewRecorder()
	t.h.ServeHTTP(rec, req)
	if req.Body != nil {
		req.Body.Close() // unblocks a client still writing into the pipe
	}
	return rec.Result(), nil
}

var c20DiskSeq int

// c20NewServer: store "" = in-memory files, "disk" = storage/fs/local over a
// fresh directory under $VERIF_WORK.
func c20NewServer(user, store string) (*c20Server, error) {
	// one connection: an in-memory sqlite database lives in its connection
	d, fsql, sdb, err := c20OpenDB2(":memory:", 1)
	if err != nil {
		return nil, err
	}
	s := &c20Server{db: d, sdb: sdb, sql: fsql, fs: newFaultFS(-1), user: user}
	if store == "disk" {
		dir := os.Getenv("VERIF_WORK")
		if dir == "" {
			dir = os.TempDir()
		}
		c20DiskSeq++
		root := filepath.Join(dir, fmt.Sprintf("c20disk_%d", c20DiskSeq))
		os.RemoveAll(root)
		if err := os.MkdirAll(root, 0777); err != nil {
			d.Close()
			return nil, err
		}
		s.fs.root, s.fs.disk = root, local.NewFS(root)
		s.fs.tmp = filepath.Join(dir, "c20tmp")
		os.RemoveAll(s.fs.tmp)
		if err := os.MkdirAll(s.fs.tmp, 0777); err != nil {
			d.Close()
			return nil, err
		}
		os.Setenv("TMPDIR", s.fs.tmp)
	}
	fsql.fs = s.fs
	a := &sapp.App{DB: d, FS: s.fs, Auth: func(http.ResponseWriter, *http.Request) (string, error) { return s.user, nil }}
	s.mux = http.NewServeMux()
	a.RegisterOnMux(s.mux)
	s.cl = &storage.Client{BaseURL: "http://inproc", HTTPClient: &http.Client{Transport: inprocTransport{s.mux}}}
	return s, nil
}

func (s *c20Server) Close() {
	s.db.Close()
	if s.fs.root != "" {
		os.RemoveAll(s.fs.root)
	}
}

// ---------- requests ----------

type c20Part struct {
	Kind string `json:"kind"` // file | commit | field
	Name string `json:"name,omitempty"`
	Body string `json:"body,omitempty"`
}

type c20Req struct {
	User  string    `json:"user"`
	Parts []c20Part `json:"parts"`
	// only for the earlier uploads of a history (Pre): the single fault that
	// upload met (nil: none), so that the history contains failed and aborted
	// uploads made through the same HTTP path
	Fault *c20Fault `json:"fault,omitempty"`
}

const c20Boundary = "verifBOUNDARYverifBOUNDARYverif"

func c20Encode(parts []c20Part) []byte {
	var buf bytes.Buffer
	w := multipart.NewWriter(&buf)
	w.SetBoundary(c20Boundary)
	for _, p := range parts {
		switch p.Kind {
		case "file":
			pw, _ := w.CreateFormFile("file", p.Name)
			io.WriteString(pw, p.Body)
		case "commit":
			w.WriteField("commit", "1")
		default:
			w.WriteField(p.Name, p.Body)
		}
	}
	w.Close()
	return buf.Bytes()
}

type dropReader struct{}

func (dropReader) Read([]byte) (int, error) { return 0, io.ErrUnexpectedEOF }

// c20BodyReader is the request body the server sees: the first cut bytes and
// then either a clean end (HTTP framing intact) or a dropped connection.
func c20BodyReader(full []byte, cut int, drop bool) io.Reader {
	if drop {
		return io.MultiReader(bytes.NewReader(full[:cut]), dropReader{})
	}
	return bytes.NewReader(full[:cut])
}

// post runs the upload handler in-process on the given body.
func (s *c20Server) post(body io.Reader) (ok bool, id string) {
	req := httptest.NewRequest("POST", "/upload", body)
	req.Header.Set("Content-Type", "multipart/form-data; boundary="+c20Boundary)
	rec := httptest.NewRecorder()
	s.mux.ServeHTTP(rec, req)
	if rec.Code != 200 {
		return false, ""
	}
	var st struct {
		UploadID string `json:"uploadid"`
	}
	if err := json.Unmarshal(rec.Body.Bytes(), &st); err != nil {
		return false, ""
	}
	return true, st.UploadID
}

// the library's own reading of the same bytes: which parts arrive, and how the
// sequence ends (0 closing delimiter read, 1 error, 2 bare EOF without it)
type c20Item struct {
	kind  int // 0 file 1 commit 2 other
	name  string
	body  []byte
	cut   bool
	field string
}

func c20Oracle(full []byte, cut int, drop bool) ([]c20Item, int) {
	mr := multipart.NewReader(c20BodyReader(full, cut, drop), c20Boundary)
	var items []c20Item
	for {
		p, err := mr.NextPart()
		if err == io.EOF {
			if bytes.Contains(full[:cut], []byte("--"+c20Boundary+"--")) {
				return items, 0
			}
			return items, 2
		}
		if err != nil {
			return items, 1
		}
		switch p.FormName() {
		case "commit":
			items = append(items, c20Item{kind: 1})
		case "file":
			b, rerr := io.ReadAll(p)
			items = append(items, c20Item{kind: 0, name: p.FileName(), body: b, cut: rerr != nil})
			if rerr != nil {
				return items, 1
			}
		default:
			items = append(items, c20Item{kind: 2, field: p.FormName()})
			return items, 1 // the server stops here; how the body continues is immaterial
		}
	}
}

// ---------- observations ----------

// The queries and listings made after every step besides "upload>" and the
// plain /uploads. They do not depend on the upload under test; the ones that
// name it (upload:<id>) are added for every ID the Uploads table gained.
var c20Searches = []string{"by:user", "upload-file:a.txt", "goos:linux", "k>a upload-part>"}

type c20ListQ struct {
	q     string
	extra []string
	limit int
}

var c20ListQs = []c20ListQ{{"by:user", nil, 0}, {"", []string{"by", "upload-file"}, 0}, {"upload-file:a.txt", []string{"upload-file"}, 5}}

func (s *c20Server) search(qs string) ([]hx.Sx, error) {
	q := s.cl.Query(context.Background(), qs)
	var sr []hx.Sx
	for q.Next() {
		r := q.Result()
		sr = append(sr, hx.L(hx.S(r.Labels["upload"]), hx.S(r.Content)))
	}
	if err := q.Err(); err != nil {
		return nil, fmt.Errorf("/search %q: %v", qs, err)
	}
	q.Close()
	return sr, nil
}

// listing rows: (id, count) for the plain one; (id, "count|k=v;...") otherwise
func (s *c20Server) listing(l c20ListQ, plain bool) ([]hx.Sx, error) {
	ul := s.cl.ListUploads(context.Background(), l.q, l.extra, l.limit)
	var li []hx.Sx
	for ul.Next() {
		i := ul.Info()
		if plain {
			li = append(li, hx.L(hx.S(i.UploadID), hx.I(i.Count)))
			continue
		}
		var ks []string
		for k := range i.LabelValues {
			ks = append(ks, k)
		}
		sort.Strings(ks)
		d := fmt.Sprint(i.Count) + "|"
		for _, k := range ks {
			d += k + "=" + i.LabelValues[k] + ";"
		}
		li = append(li, hx.L(hx.S(i.UploadID), hx.S(d)))
	}
	if err := ul.Err(); err != nil {
		return nil, fmt.Errorf("/uploads %+v: %v", l, err)
	}
	ul.Close()
	return li, nil
}

// usedIDs: every upload ID seen in use on this server so far, whether its
// upload was committed or not: the rows of the Uploads table and the
// uploads/<id>/ directories of the file store, as found now and at every
// earlier call (it is called after every step of a history, so an ID whose
// row or files vanish later stays in the list).
func (s *c20Server) usedIDs() ([]string, error) {
	rows, err := s.sdb.Query("SELECT UploadID FROM Uploads ORDER BY rowid")
	if err != nil {
		return nil, err
	}
	defer rows.Close()
	note := func(id string) {
		if s.seenSet == nil {
			s.seenSet = map[string]bool{}
		}
		if !s.seenSet[id] {
			s.seenSet[id] = true
			s.seen = append(s.seen, id)
		}
	}
	for rows.Next() {
		var id string
		if err := rows.Scan(&id); err != nil {
			return nil, err
		}
		note(id)
	}
	if err := rows.Err(); err != nil {
		return nil, err
	}
	for _, f := range s.fs.snapshot() {
		if rest, ok := strings.CutPrefix(f.name, "uploads/"); ok {
			if i := strings.Index(rest, "/"); i > 0 {
				note(rest[:i])
			}
		}
	}
	return append([]string(nil), s.seen...), nil
}

func c20NewIDs(before, after []string) []string {
	m := map[string]bool{}
	for _, x := range before {
		m[x] = true
	}
	var out []string
	for _, x := range after {
		if !m[x] {
			out = append(out, x)
		}
	}
	return out
}

// observe: status, ID, /search upload>, /uploads, the file store, and the
// further queries and listings: (kind name rows) with kind 0 a search that
// does not name the upload under test, 1 such a listing, 4 the plain listing
// limited to one row, 2 / 3 the search / listing for upload:<id> of every id
// in newIDs (the IDs the Uploads table gained by the step, or the answered ID).
func (s *c20Server) observe(ok bool, id string, newIDs []string) (hx.Sx, error) {
	sr, err := s.search("upload>")
	if err != nil {
		return hx.Sx{}, err
	}
	li, err := s.listing(c20ListQ{}, true)
	if err != nil {
		return hx.Sx{}, err
	}
	var fl []hx.Sx
	for _, f := range s.fs.snapshot() {
		fl = append(fl, hx.L(hx.S(f.name), hx.B(f.content), hx.Bool(f.complete)))
	}
	var more []hx.Sx
	searches := c20Searches
	if s.light {
		searches = searches[1:] // not the ones that return (nearly) everything
	}
	for _, q := range searches {
		rows, err := s.search(q)
		if err != nil {
			return hx.Sx{}, err
		}
		more = append(more, hx.L(hx.I(0), hx.S("S:"+q), hx.List(rows)))
	}
	for _, l := range c20ListQs {
		rows, err := s.listing(l, false)
		if err != nil {
			return hx.Sx{}, err
		}
		more = append(more, hx.L(hx.I(1), hx.S(fmt.Sprintf("L:%s;%v;%d", l.q, l.extra, l.limit)), hx.List(rows)))
	}
	rows, err := s.listing(c20ListQ{limit: 1}, false)
	if err != nil {
		return hx.Sx{}, err
	}
	more = append(more, hx.L(hx.I(4), hx.S("L:limit=1"), hx.List(rows)))
	for _, nid := range newIDs {
		rows, err := s.search("upload:" + nid)
		if err != nil {
			return hx.Sx{}, err
		}
		more = append(more, hx.L(hx.I(2), hx.S("S:upload:"+nid), hx.List(rows)))
		if rows, err = s.listing(c20ListQ{q: "upload:" + nid, extra: []string{"by"}}, false); err != nil {
			return hx.Sx{}, err
		}
		more = append(more, hx.L(hx.I(3), hx.S("L:upload:"+nid), hx.List(rows)))
		// labels every stored record carries: the first and last the server adds, and the
		// benchmark name (the last label row a record gets)
		for _, k := range []string{"upload-part", "upload-time", "name"} {
			if rows, err = s.search("upload:" + nid + " " + k + ">"); err != nil {
				return hx.Sx{}, err
			}
			more = append(more, hx.L(hx.I(5), hx.S("S:upload:"+nid+" "+k+">"), hx.List(rows)))
		}
	}
	return hx.L(hx.Bool(ok), hx.S(id), hx.List(sr), hx.List(li), hx.List(fl), hx.List(more)), nil
}

// idAndTime finds the ID and upload-time of the upload that wrote new files.
func (s *c20Server) idAndTime(before map[string]bool) (id, tm string) {
	for _, f := range s.fs.snapshot() {
		n := f.name
		if before[n] {
			continue
		}
		rest := strings.TrimPrefix(n, "uploads/")
		if i := strings.Index(rest, "/"); i >= 0 {
			id = rest[:i]
		}
		for _, line := range strings.Split(string(f.content), "\n") {
			if strings.HasPrefix(line, "upload-time: ") {
				tm = line[len("upload-time: "):]
			}
		}
	}
	return
}

func (s *c20Server) fileSet() map[string]bool {
	m := map[string]bool{}
	for _, f := range s.fs.snapshot() {
		m[f.name] = true
	}
	return m
}

// writesOf returns the number of writes each file index of upload id received.
func (s *c20Server) writesOf(id string) map[int]int {
	s.fs.mu.Lock()
	defer s.fs.mu.Unlock()
	m := map[int]int{}
	for n, f := range s.fs.files {
		var i int
		if _, err := fmt.Sscanf(n, "uploads/"+id+"/%d.txt", &i); err == nil {
			m[i] = f.writes
		}
	}
	return m
}

// c20CutClass says where offset cut falls in the encoded body:
//   "boundary-token": inside a delimiter line, after its complete "\r\n--BOUNDARY"
//                     (right after the token, after the following CR, or inside /
//                     before the closing dashes of the final delimiter)
//   "delimiter":      inside a delimiter line before the token is complete
//   "header":         in the MIME header of a part (from just after the delimiter
//                     line's CRLF up to, not including, the end of the blank line)
//   "data":           elsewhere (part data, or at/after the end)
// and how many complete delimiter lines precede it.
func c20CutClass(full []byte, cut int) (class string, before int) {
	tok := []byte("--" + c20Boundary)
	pos := 0
	for {
		var p, tokEnd int
		if pos == 0 && bytes.HasPrefix(full, tok) {
			p, tokEnd = 0, len(tok)
		} else {
			i := bytes.Index(full[pos:], append([]byte("\r\n"), tok...))
			if i < 0 {
				return "data", before
			}
			p, tokEnd = pos+i, pos+i+2+len(tok)
		}
		final := bytes.HasPrefix(full[tokEnd:], []byte("--"))
		lineEnd := tokEnd + 2 // CRLF
		if final {
			lineEnd = tokEnd + 2 // the closing dashes; what follows is the epilogue
		}
		switch {
		case cut <= p:
			return "data", before
		case cut < tokEnd:
			return "delimiter", before
		case cut < lineEnd:
			return "boundary-token", before
		}
		if final {
			return "data", before + 1
		}
		before++
		hdrEnd := len(full)
		if i := bytes.Index(full[lineEnd:], []byte("\r\n\r\n")); i >= 0 {
			hdrEnd = lineEnd + i + 4
		}
		if cut < hdrEnd {
			return "header", before
		}
		pos = hdrEnd - 2 // an empty part's delimiter starts with the blank line's CRLF
	}
}

// ---------- one fault run ----------

type c20Fault struct {
	Kind string `json:"kind"` // none | fs | sql | cut | drop | abort | content (only in a history: the request itself is faulty)
	N    int    `json:"n"`    // fs operation index / cut offset / files before Abort
}

type c20Input struct {
	Kind  string   `json:"kind"`
	Store string   `json:"store,omitempty"` // "" in-memory file store, "disk" storage/fs/local
	Light bool     `json:"light,omitempty"` // leave out the extra searches that return nearly everything (big uploads)
	Pre   []c20Req `json:"pre"`
	Req   c20Req   `json:"req"`
	Fault c20Fault `json:"fault"`
}

func c20MetaCount(name, user string) int {
	n := 3
	if name != "" {
		n++
	}
	if user != "" {
		n++
	}
	return n
}

// itemsSx renders the part sequence for the model; writes = per part index the
// number of writes observed in a fault-free run (nil: unknown, use 1).
func c20ItemsSx(items []c20Item, user string, writes map[int]int) hx.Sx {
	var it []hx.Sx
	for i, x := range items {
		switch x.kind {
		case 0:
			nw := 1
			if w, ok := writes[i]; ok {
				nw = w - (c20MetaCount(x.name, user) + 1)
				if nw < 0 {
					nw = 0
				}
			}
			it = append(it, hx.L(hx.I(0), hx.S(x.name), hx.B(x.body), hx.I(nw), hx.Bool(x.cut)))
		case 1:
			it = append(it, hx.L(hx.I(1)))
		default:
			it = append(it, hx.L(hx.I(2), hx.S(x.field)))
		}
	}
	return hx.List(it)
}

// what one request did: the answer, the part sequence the library sees, and
// which step of the model's oracle the injected fault is
type c20Done struct {
	ok       bool
	id       string // as answered (200 only)
	items    []c20Item
	end      int
	fsFault  int
	sqlClass int
	sqlPart  int
}

// exec runs one upload request through the server's HTTP handler (or, for
// "abort", through the real client) with the single fault f injected.
func (s *c20Server) exec(rq c20Req, f c20Fault, sqlKinds []string, sqlDuring []int) (c20Done, error) {
	d := c20Done{fsFault: -1}
	s.user = rq.User
	full := c20Encode(rq.Parts)
	cut, drop := len(full), false
	switch f.Kind {
	case "fs":
		d.fsFault = f.N
		s.fs.failAt = s.fs.ops + f.N
	case "sql":
		var err error
		if d.sqlClass, d.sqlPart, err = c20SQLClass(sqlKinds, sqlDuring, f.N); err != nil {
			return d, err
		}
		s.sql.failAt = s.sql.ops + f.N
	case "cut":
		cut = f.N
	case "drop":
		cut, drop = f.N, true
	}
	if f.Kind == "abort" {
		// the real client: N files, then Abort instead of Commit
		up := s.cl.NewUpload(context.Background())
		k := 0
		for _, p := range rq.Parts {
			if p.Kind != "file" || k == f.N {
				continue
			}
			w, err := up.CreateFile(p.Name)
			if err != nil {
				break
			}
			io.WriteString(w, p.Body)
			d.items = append(d.items, c20Item{kind: 0, name: p.Name, body: []byte(p.Body)})
			k++
		}
		up.Abort()
		d.items = append(d.items, c20Item{kind: 2, field: "abort"})
		d.end = 1
	} else {
		d.ok, d.id = s.post(c20BodyReader(full, cut, drop))
		d.items, d.end = c20Oracle(full, cut, drop)
	}
	s.fs.failAt = -1
	s.sql.failAt = -1
	return d, nil
}

// setup builds a fresh server and replays the history of earlier uploads,
// each through the HTTP path with the single fault it carries (none: it must
// succeed). Per earlier upload the model gets the part sequence, the fault and
// the ID the Uploads table gained (also when the upload failed).
func c20Setup(pre []c20Req, store string) (*c20Server, []hx.Sx, error) {
	s, err := c20NewServer("", store)
	if err != nil {
		return nil, nil, err
	}
	var presx []hx.Sx
	for i, p := range pre {
		f := c20Fault{Kind: "none"}
		if p.Fault != nil {
			f = *p.Fault
		}
		var writes map[int]int
		var kinds []string
		var during []int
		if f.Kind == "fs" || f.Kind == "sql" {
			dr, err := c20DryCached(c20Input{Store: store, Pre: pre[:i], Req: p})
			if err != nil {
				s.Close()
				return nil, nil, err
			}
			writes, kinds, during = dr.writes, dr.kinds, dr.during
		}
		used0, err := s.usedIDs()
		if err != nil {
			s.Close()
			return nil, nil, err
		}
		before := s.fileSet()
		d, err := s.exec(p, f, kinds, during)
		if err != nil {
			s.Close()
			return nil, nil, err
		}
		if f.Kind == "none" && !d.ok {
			s.Close()
			return nil, nil, fmt.Errorf("earlier fault-free upload refused")
		}
		used1, err := s.usedIDs()
		if err != nil {
			s.Close()
			return nil, nil, err
		}
		id := d.id
		if nw := c20NewIDs(used0, used1); id == "" && len(nw) > 0 {
			id = nw[0]
		}
		_, tm := s.idAndTime(before)
		if f.Kind == "none" {
			writes = s.writesOf(id)
		} else if f.Kind != "fs" {
			writes = nil
		}
		presx = append(presx, hx.L(
			hx.L(hx.Opt(id != "", hx.S(id)), hx.S(tm), hx.S(p.User), c20ItemsSx(d.items, p.User, writes), hx.I(d.end)),
			hx.I(d.fsFault), hx.I(d.sqlClass), hx.I(d.sqlPart), hx.Bool(d.ok)))
	}
	return s, presx, nil
}

// dryRun: fault-free run of the request on an identical server: number of
// file-store operations and writes per file.
type c20Dry struct {
	ops    int
	writes map[int]int
	kinds  []string
	during []int
}

var c20DryCache = map[string]c20Dry{}

func c20DryCached(in c20Input) (c20Dry, error) {
	in.Req.Fault = nil
	in.Fault = c20Fault{}
	kb, _ := json.Marshal(in)
	if d, ok := c20DryCache[string(kb)]; ok {
		return d, nil
	}
	ops, writes, kinds, during, err := c20DryRun(in)
	if err != nil {
		return c20Dry{}, err
	}
	d := c20Dry{ops, writes, kinds, during}
	if len(c20DryCache) > 4096 {
		c20DryCache = map[string]c20Dry{}
	}
	c20DryCache[string(kb)] = d
	return d, nil
}

func c20DryRun(in c20Input) (ops int, writes map[int]int, sqlKinds []string, sqlDuring []int, err error) {
	s, _, err := c20Setup(in.Pre, in.Store)
	if err != nil {
		return 0, nil, nil, nil, err
	}
	defer s.Close()
	s.user = in.Req.User
	before := s.fileSet()
	ops0 := s.fs.ops
	creates0 := s.fs.creates
	sql0 := s.sql.ops
	full := c20Encode(in.Req.Parts)
	_, id := s.post(bytes.NewReader(full))
	sql1 := s.sql.ops
	if id == "" {
		id, _ = s.idAndTime(before)
	}
	sqlKinds = append(sqlKinds, s.sql.kinds[sql0:sql1]...)
	for _, d := range s.sql.during[sql0:sql1] {
		if d >= 0 {
			d -= creates0 + 1 // index of the part being written
		}
		sqlDuring = append(sqlDuring, d)
	}
	return s.fs.ops - ops0, s.writesOf(id), sqlKinds, sqlDuring, nil
}

// c20SQLClass says which step of the model's oracle the n-th database
// operation of a request is (4: a flush forced while a part is read): 0 none (beyond the last), 1 NewUpload (its ID
// transaction begin/read/insert/commit and the begin of the records
// transaction), 2 a flush (INSERT of buffered rows), 3 the final commit.
func c20SQLClass(kinds []string, during []int, n int) (class, part int, err error) {
	want := []string{"begin", "query", "exec", "commit", "begin"}
	if len(kinds) < len(want) {
		return 0, 0, fmt.Errorf("unexpected database operation sequence %v", kinds)
	}
	for i, k := range want {
		if kinds[i] != k {
			return 0, 0, fmt.Errorf("unexpected database operation sequence %v", kinds)
		}
	}
	switch {
	case n >= len(kinds):
		return 0, 0, nil
	case n < len(want):
		return 1, 0, nil
	case kinds[n] == "commit":
		return 3, 0, nil
	case kinds[n] == "exec" && during[n] >= 0:
		return 4, during[n], nil // a flush forced by the argument limit while that part is read
	case kinds[n] == "exec":
		return 2, 0, nil
	}
	return 0, 0, fmt.Errorf("unexpected database operation %q at %d", kinds[n], n)
}

func c20Run(o *hx.Out, in c20Input, writes map[int]int, sqlKinds []string, sqlDuring []int) error {
	s, presx, err := c20Setup(in.Pre, in.Store)
	if err != nil {
		return err
	}
	defer s.Close()
	s.light = in.Light
	s.user = in.Req.User
	used0, err := s.usedIDs()
	if err != nil {
		return err
	}
	beforeObs, err := s.observe(true, "", nil)
	if err != nil {
		return err
	}
	beforeFiles := s.fileSet()
	full := c20Encode(in.Req.Parts)
	cut := len(full)
	if in.Fault.Kind == "cut" || in.Fault.Kind == "drop" {
		cut = in.Fault.N
	}
	d, err := s.exec(in.Req, in.Fault, sqlKinds, sqlDuring)
	if err != nil {
		return err
	}
	ok, id, items, end := d.ok, d.id, d.items, d.end
	used1, err := s.usedIDs()
	if err != nil {
		return err
	}
	newIDs := c20NewIDs(used0, used1)
	fid, tm := s.idAndTime(beforeFiles)
	if id == "" && len(newIDs) > 0 {
		id = newIDs[0]
	}
	if id == "" {
		id = fid
	}
	if ok && len(newIDs) == 0 {
		newIDs = []string{d.id} // an answered ID that is no new row: the queries for it are made all the same
	}
	afterObs, err := s.observe(ok, id, newIDs)
	if err != nil {
		return err
	}
	for _, p := range in.Pre {
		k := "none"
		if p.Fault != nil {
			k = p.Fault.Kind
		}
		o.Count("upload.history-step=" + k)
	}
	rq := hx.L(hx.Opt(id != "", hx.S(id)), hx.S(tm), hx.S(in.Req.User), c20ItemsSx(items, in.Req.User, writes), hx.I(end))
	c := hx.L(hx.I(0), hx.List(presx), rq, hx.I(d.fsFault), hx.I(d.sqlClass), hx.I(d.sqlPart),
		hx.SList(used0), hx.SList(used1), beforeObs, afterObs)
	var tags []string
	nfilesDone := 0
	for _, x := range items {
		if x.kind == 0 && !x.cut {
			nfilesDone++
		}
	}
	cutClass := ""
	if in.Fault.Kind == "cut" || in.Fault.Kind == "drop" {
		cutClass, _ = c20CutClass(full, cut)
		o.Count("upload." + in.Fault.Kind + "-in=" + cutClass)
	}
	if in.Fault.Kind == "cut" && end == 2 && nfilesDone > 0 {
		// the known finding is only this narrow class: the body stops inside the
		// MIME header of a later part. A bare EOF anywhere else (e.g. inside a
		// delimiter line) is not excused.
		if cutClass == "header" {
			tags = append(tags, "C20_truncated_in_later_part_header")
			o.Count("upload.cut-in-later-header")
		} else {
			o.Count("upload.bare-eof-outside-header")
		}
	}
	if in.Store == "disk" {
		o.Count("upload.disk.fault=" + in.Fault.Kind)
	}
	{
		// a request of >= 2 files, some with and some without benchmark lines
		nf, bad, firstBad, lastBad := 0, 0, -1, -1
		for _, p := range in.Req.Parts {
			if p.Kind != "file" {
				continue
			}
			if !c20HasBenchLine(p.Body) {
				bad++
				if firstBad < 0 {
					firstBad = nf
				}
				lastBad = nf
			}
			nf++
		}
		if in.Fault.Kind == "none" && nf >= 2 && bad > 0 && bad < nf {
			o.Count("upload.mixed-nobench")
			if firstBad == 0 {
				o.Count("upload.mixed-nobench.first")
			}
			if lastBad == nf-1 {
				o.Count("upload.mixed-nobench.last")
			}
			if firstBad > 0 && firstBad < nf-1 || lastBad > 0 && lastBad < nf-1 {
				o.Count("upload.mixed-nobench.middle")
			}
			if ok {
				o.Count("upload.mixed-nobench.ACCEPTED")
			}
		}
	}
	o.Count("upload.fault=" + in.Fault.Kind)
	if ok {
		o.Count("upload.accepted")
	} else {
		o.Count("upload.refused")
	}
	o.Add(c, in, fmt.Sprintf("u%d", o.Len()), true, tags...)
	return nil
}

// ---------- scenarios ----------

// c20HasBenchLine: some line of body starts with "Benchmark" and has white
// space after the name (coarse; only used to record the distribution).
func c20HasBenchLine(body string) bool {
	for _, l := range strings.Split(body, "\n") {
		if strings.HasPrefix(l, "Benchmark") && strings.ContainsAny(l, " \t") {
			return true
		}
	}
	return false
}

var c20NoBenchBodies = []string{"", "k: v\n", "no benchmark here\n", "BenchmarkNoSpace\n", "\n", "PASS\nok  \tpkg\t0.1s\n", "benchmarkFoo 1 2 ns/op\n", "goos: linux\ngoarch: amd64\n\n"}

// c20Mixed: uploads of 2-4 files of which one (every position, every kind of
// benchmark-free content) or two have no benchmark line: the whole upload
// must fail, with nothing queryable or listed.
func c20Mixed(o *hx.Out, r *hx.Rng, store string, allBodies bool) error {
	for nfiles := 2; nfiles <= 4; nfiles++ {
		in := c20Input{Kind: "upload", Store: store, Fault: c20Fault{"none", 0}}
		var err error
		if in.Pre, err = c20GenHistory(r, r.Intn(3), store); err != nil {
			return err
		}
		good := c20GenReq(r, nfiles)
		var variants [][]int // positions without benchmark lines
		for j := 0; j < nfiles; j++ {
			variants = append(variants, []int{j})
		}
		a := r.Intn(nfiles)
		b := (a + 1 + r.Intn(nfiles-1)) % nfiles
		if nfiles > 2 {
			variants = append(variants, []int{a, b})
		}
		for _, v := range variants {
			bodies := c20NoBenchBodies
			if !allBodies || len(v) > 1 {
				bodies = []string{r.Pick(c20NoBenchBodies)}
			}
			for _, bad := range bodies {
				x := in
				x.Req = c20Req{User: good.User, Parts: append([]c20Part{}, good.Parts...)}
				for _, j := range v {
					x.Req.Parts[j].Body = bad
				}
				if err := c20Run(o, x, nil, nil, nil); err != nil {
					return err
				}
			}
		}
		// and the intact request, which must succeed
		x := in
		x.Req = good
		if err := c20Run(o, x, nil, nil, nil); err != nil {
			return err
		}
	}
	return nil
}

func c20GenFileBody(r *hx.Rng) string {
	var sb strings.Builder
	for j := r.Range(1, 4); j > 0; j-- {
		if r.Chance(0.4) {
			sb.WriteString(r.Pick([]string{"goos", "pkg", "k"}) + ": " + r.Pick([]string{"linux", "a", "b c"}) + "\n")
		}
		line := "Benchmark" + r.Pick([]string{"Foo", "Bar-8", "Foo/q=1", "Baz/x/y-2"}) + " " + r.Pick([]string{"1 2 ns/op", "100 12.5 ns/op"}) + "\n"
		sb.WriteString(line)
		if r.Chance(0.3) {
			sb.WriteString(line)
		}
	}
	return sb.String()
}

func c20GenReq(r *hx.Rng, nfiles int) c20Req {
	rq := c20Req{User: r.Pick([]string{"", "user"})}
	for j := 0; j < nfiles; j++ {
		rq.Parts = append(rq.Parts, c20Part{Kind: "file", Name: r.Pick([]string{"", "a.txt", "b.txt"}), Body: c20GenFileBody(r)})
	}
	rq.Parts = append(rq.Parts, c20Part{Kind: "commit"})
	return rq
}

// c20GenHistory: n earlier uploads made one after the other on the same
// server; about half of them meet a single fault (any kind the request under
// test can meet: a file-store or database operation failing, the body cut or
// the connection dropped, the client's Abort, an unexpected field, a file
// without benchmark lines, rows the database refuses) and so fail, leaving a
// used ID, possibly orphan files, and nothing to query.
func c20GenHistory(r *hx.Rng, n int, store string) ([]c20Req, error) {
	var pre []c20Req
	for len(pre) < n {
		rq := c20GenReq(r, r.Range(1, 2))
		nfiles := len(rq.Parts) - 1
		if r.Chance(0.5) {
			pre = append(pre, rq)
			continue
		}
		switch kind := r.Pick([]string{"fs", "sql", "cut", "drop", "abort", "field", "nobench", "refused"}); kind {
		case "fs", "sql":
			dr, err := c20DryCached(c20Input{Store: store, Pre: pre, Req: rq})
			if err != nil {
				return nil, err
			}
			if kind == "fs" {
				rq.Fault = &c20Fault{"fs", r.Intn(dr.ops)}
			} else {
				rq.Fault = &c20Fault{"sql", r.Intn(len(dr.kinds))}
			}
		case "cut", "drop":
			rq.Fault = &c20Fault{kind, r.Intn(len(c20Encode(rq.Parts)))}
		case "abort":
			rq.Fault = &c20Fault{"abort", r.Range(0, nfiles)}
		case "field":
			j := r.Range(0, nfiles)
			rq.Parts = append(append(append([]c20Part{}, rq.Parts[:j]...), c20Part{Kind: "field", Name: r.Pick([]string{"abort", "other"}), Body: "1"}), rq.Parts[j:]...)
			rq.Fault = &c20Fault{"content", 0}
		case "nobench":
			rq.Parts[r.Intn(nfiles)].Body = r.Pick(c20NoBenchBodies)
			rq.Fault = &c20Fault{"content", 0}
		default:
			j := r.Intn(nfiles)
			rq.Parts[j].Body = "name: x\n" + rq.Parts[j].Body
			rq.Fault = &c20Fault{"content", 0}
		}
		pre = append(pre, rq)
	}
	return pre, nil
}

type c20ScenOpts struct {
	store    string // "" | "disk"
	minFiles int
}

func c20Scenario(o *hx.Out, r *hx.Rng, allCuts bool, cutStride int, big bool, op c20ScenOpts) error {
	in := c20Input{Kind: "upload", Store: op.store}
	var err error
	if in.Pre, err = c20GenHistory(r, r.Intn(4), op.store); err != nil {
		return err
	}
	nfiles := r.Range(max(1, op.minFiles), 3)
	in.Req = c20GenReq(r, nfiles)
	if big {
		// enough distinct records to cross the 990-argument flush boundary
		var sb strings.Builder
		for i := 0; i < 70; i++ {
			fmt.Fprintf(&sb, "BenchmarkBig/i=%d 1 %d ns/op\n", i, i%3)
		}
		in.Req.Parts[0].Body = sb.String()
	}
	ops, writes, sqlKinds, sqlDuring, err := c20DryRun(in)
	if err != nil {
		return err
	}
	o.Count(fmt.Sprintf("scenario.sqlops=%d", len(sqlKinds)))
	run := func(f c20Fault, rq c20Req) error {
		x := in
		x.Req = rq
		x.Fault = f
		w := writes
		if f.Kind != "fs" && f.Kind != "none" {
			w = nil
		}
		return c20Run(o, x, w, sqlKinds, sqlDuring)
	}
	if err := run(c20Fault{"none", 0}, in.Req); err != nil {
		return err
	}
	// every single file-store fault position (and one beyond the last operation)
	for n := 0; n <= ops; n++ {
		if err := run(c20Fault{"fs", n}, in.Req); err != nil {
			return err
		}
	}
	// every single database fault position: NewUpload's ID transaction (begin,
	// read last, insert, commit), begin of the records transaction, every flush
	// INSERT (also at the 990-argument boundary), the final commit, one beyond
	for n := 0; n <= len(sqlKinds); n++ {
		if err := run(c20Fault{"sql", n}, in.Req); err != nil {
			return err
		}
	}
	if big {
		return nil
	}
	// protocol / content faults at every position
	for j := 0; j <= nfiles; j++ {
		bad := in.Req
		bad.Parts = append(append(append([]c20Part{}, in.Req.Parts[:j]...), c20Part{Kind: "field", Name: r.Pick([]string{"abort", "other", "File"}), Body: "1"}), in.Req.Parts[j:]...)
		if err := run(c20Fault{"none", 0}, bad); err != nil {
			return err
		}
		if err := run(c20Fault{"abort", j}, in.Req); err != nil {
			return err
		}
	}
	for j := 0; j < nfiles; j++ {
		bad := in.Req
		bad.Parts = append([]c20Part{}, in.Req.Parts...)
		bad.Parts[j].Body = r.Pick([]string{"", "k: v\n", "no benchmark here\n", "BenchmarkNoSpace\n"})
		if err := run(c20Fault{"none", 0}, bad); err != nil {
			return err
		}
		// rows the database refuses at flush: a file label that is also a name label
		bad2 := in.Req
		bad2.Parts = append([]c20Part{}, in.Req.Parts...)
		bad2.Parts[j].Body = "name: x\n" + bad2.Parts[j].Body
		if err := run(c20Fault{"none", 0}, bad2); err != nil {
			return err
		}
	}
	// no file at all
	if err := run(c20Fault{"none", 0}, c20Req{User: in.Req.User, Parts: []c20Part{{Kind: "commit"}}}); err != nil {
		return err
	}
	// the body cut at byte offsets, with intact framing and as a dropped connection
	full := c20Encode(in.Req.Parts)
	// every delimiter line: right after "\r\n--BOUNDARY", after the CR (or the
	// first closing dash) that follows, and inside the token
	want := map[int]bool{}
	tok := []byte("\r\n--" + c20Boundary)
	for p := 0; ; {
		i := bytes.Index(full[p:], tok)
		if i < 0 {
			break
		}
		p += i
		for _, c := range []int{p + 1, p + 2, p + 4, p + 4 + len(c20Boundary)/2, p + len(tok), p + len(tok) + 1} {
			want[c] = true
		}
		p += len(tok)
	}
	for cut := 0; cut < len(full); cut++ {
		if !allCuts && cut%cutStride != 0 && !want[cut] {
			continue
		}
		if err := run(c20Fault{"cut", cut}, in.Req); err != nil {
			return err
		}
		if err := run(c20Fault{"drop", cut}, in.Req); err != nil {
			return err
		}
	}
	return nil
}

// ---------- IDs ----------

type c20IDsIn struct {
	Kind       string `json:"kind"`
	Sequential int    `json:"sequential"`
	Goroutines int    `json:"goroutines"`
	Each       int    `json:"each"`
	TxLock     string `json:"txlock"`
	FailEvery  int    `json:"fail_every"`
}

func c20IDs(o *hx.Out, nseq, ngo, each int, txlock string, failEvery int) error {
	d, err := db.OpenSQL("sqlite3", ":memory:")
	if err != nil {
		return err
	}
	var seq []string
	for i := 0; i < nseq; i++ {
		u, err := d.NewUpload(context.Background())
		if err != nil {
			return fmt.Errorf("sequential NewUpload: %v", err)
		}
		seq = append(seq, u.ID)
		if i%2 == 0 {
			u.Abort()
		} else {
			u.Commit()
		}
	}
	d.Close()
	dir := os.Getenv("VERIF_WORK")
	if dir == "" {
		dir = os.TempDir()
	}
	path := filepath.Join(dir, fmt.Sprintf("c20ids_%d.sqlite", o.Len()))
	os.Remove(path)
	defer os.Remove(path)
	dsn := "file:" + path + "?_busy_timeout=20000"
	if txlock != "" {
		dsn += "&_txlock=" + txlock
	}
	if failEvery > 0 {
		// the same soak with every failEvery-th database operation failing
		var fsql *faultSQL
		d, fsql, err = c20OpenDB(dsn, 0)
		if err == nil {
			fsql.mu.Lock()
			fsql.failEvery = failEvery
			fsql.mu.Unlock()
		}
	} else {
		d, err = db.OpenSQL("sqlite3", dsn)
	}
	if err != nil {
		return err
	}
	defer d.Close()
	per := make([][]string, ngo)
	nerr := make([]int, ngo)
	var wg sync.WaitGroup
	for g := 0; g < ngo; g++ {
		wg.Add(1)
		go func(g int) {
			defer wg.Done()
			for i := 0; i < each; i++ {
				u, err := d.NewUpload(context.Background())
				if err != nil {
					nerr[g]++
					continue
				}
				per[g] = append(per[g], u.ID)
				if i%3 == 0 {
					u.Commit()
				} else {
					u.Abort()
				}
			}
		}(g)
	}
	wg.Wait()
	day := int64(0)
	if len(seq) > 0 {
		fmt.Sscanf(seq[0], "%d.", &day)
	}
	var persx []hx.Sx
	total, errs := 0, 0
	for g := range per {
		persx = append(persx, hx.SList(per[g]))
		total += len(per[g])
		errs += nerr[g]
	}
	o.Count("ids")
	o.Extra[fmt.Sprintf("ids_concurrent_%s_failevery%d", txlock, failEvery)] = map[string]int{"allocated": total, "errors": errs, "goroutines": ngo, "each": each}
	c := hx.L(hx.I(1), hx.Z(day), hx.SList(seq), hx.List(persx), hx.I(errs))
	o.Add(c, c20IDsIn{"ids", nseq, ngo, each, txlock, failEvery}, fmt.Sprintf("i%d", o.Len()), true)
	return nil
}

func genC20(o *hx.Out, r *hx.Rng, tier string, replay string) error {
	log.SetOutput(io.Discard)
	o.Rule = "per scenario (a history of 0-3 earlier uploads made through the same HTTP path, about half of them meeting one fault - a file-store or database operation failing, the body cut, the connection dropped, the client's Abort, an unexpected field, a file without benchmark lines, refused rows - and so failing; then a request of 1-3 files + commit field): the fault-free run; every file-store operation index failing in turn (create / each header write / separator / body writes / close, plus one index beyond); every database operation index failing in turn (NewUpload's begin/read/insert/commit, begin of the records transaction, each flush INSERT incl. the 990-argument boundary in the big scenarios, final commit, plus one beyond); an unexpected field and a client Abort (storage.Client) at every position; each file in turn without benchmark lines, and with a label the database refuses; a request without files; the multipart body cut at byte offsets both with intact HTTP framing and as a dropped connection (every offset in the designated scenarios; in every scenario the offsets inside each delimiter line: after CR, CRLF, the dashes, half the boundary, the complete \\r\\n--BOUNDARY, and one byte further). The same enumeration on the local-disk file store (storage/fs/local over a fresh directory; write faults as short writes; the directory is walked afterwards, every name counts). Uploads of 2-4 files with one (every position, every kind of benchmark-free content) or two files without benchmark lines, on both stores. Big uploads: a first file of 600-2000 records with pairwise distinct labels (more than 16 flushes of the database layer's 990-argument buffer inside the one records transaction), alone or followed by a small file, and then one failing step each: a later file without benchmark lines, a later file whose rows the database refuses, an abort field, an unexpected field, the client's Abort, the body cut / the connection dropped late in the big file, in the later file and in the closing delimiter, a file-store fault in the last operations and late in the big file, a database fault at a flush beyond the 16th batch, at the last flush, at the flush of Commit and at the commit; plus the intact request. Fault-free single-file uploads of n = 1, 2, 3, ... records with pairwise distinct labels up to past the second forced 990-argument flush (every n within -1..+2 records of a flush boundary, every third elsewhere; every n in the thorough tier), so that the last record of an upload is the one being inserted when a forced flush fires. Before and after each run are recorded: /search upload> and four label queries, /uploads plain, with a query, with extra_label, with a limit, the search and the listing for upload:<id> of every ID the run is seen to use and the searches upload:<id> narrowed by upload-part> / upload-time> / name> (labels every stored record carries), the file store, and every ID ever seen in use (rows of the Uploads table, uploads/<id>/ directories, noted after every step of the history). An injected Close fault only makes Close return an error; the file stays in the store until the server has it removed. Plus DB.NewUpload 40 times sequentially and from 16 goroutines on one file-backed sqlite database (deferred and immediate transactions), and again with every 11th / 7th database operation failing. ID histories (tagged clock hook db.VerifSetNow): 5-12 steps of NewUpload at chosen clock readings on three consecutive UTC days (shown in several time zones, around midnight, over month/year/leap-day boundaries) where the reading is on an EARLIER day than the newest upload - the earlier day without uploads, with upload .1, with several (patterns: step back over midnight, two front ends one day apart taking turns, the earlier day has uploads before the later day starts, explicit IDs out of order via ReplaceUpload of an absent ID: same day with a lower counter / an older day, random) - each upload inserting 0-3 records and committed or aborted; after every step the result and the listing of all uploads; and 8 goroutines allocating on one database while the clock alternates between two days that both have uploads. non-trivial = every case"
	nscen, nall, nbig, ndisk, nmixed := 6, 2, 1, 2, 1
	each := 50
	if tier == "thorough" {
		nscen, nall, nbig, ndisk, nmixed = 60, 12, 6, 20, 8
		each = 200
	}
	for i := 0; i < nscen; i++ {
		if err := c20Scenario(o, r.Split(), i < nall, 7, false, c20ScenOpts{}); err != nil {
			return err
		}
	}
	for i := 0; i < nbig; i++ {
		if err := c20Scenario(o, r.Split(), false, 7, true, c20ScenOpts{}); err != nil {
			return err
		}
	}
	// the same enumeration against the local-disk file store
	for i := 0; i < ndisk; i++ {
		if err := c20Scenario(o, r.Split(), false, 13, false, c20ScenOpts{store: "disk", minFiles: 1 + i%2}); err != nil {
			return err
		}
	}
	// files without benchmark lines among files with them
	for i := 0; i < nmixed; i++ {
		if err := c20Mixed(o, r.Split(), "", true); err != nil {
			return err
		}
		if err := c20Mixed(o, r.Split(), "disk", false); err != nil {
			return err
		}
	}
	// big uploads (more than 16 flush batches) followed by one failing step
	if err := genC20Big(o, r.Split(), tier); err != nil {
		return err
	}
	for _, lock := range []string{"", "immediate"} {
		if err := c20IDs(o, 40, 16, each, lock, 0); err != nil {
			return err
		}
	}
	for _, k := range []int{11, 7} {
		if err := c20IDs(o, 40, 16, each, "immediate", k); err != nil {
			return err
		}
	}
	// ID histories under a clock that steps back / two front ends with skewed clocks (c20clock.go)
	if err := genC20Clock(o, r.Split(), tier); err != nil {
		return err
	}
	// fault-free uploads of every size around the database layer's forced flushes (c20gaps.go);
	// last, so that the case numbers of everything above stay what they were
	return c20BoundarySweep(o, r.Split(), tier == "thorough")
}
