package main

// C19 — stored results come back exactly, and queries mean what they say.
// Drives: storage/query.SplitWords, analysis/app addToQuery/parseQueryString
// (through the tagged hook analysis/app/verif_export.go), the legacy
// storage/benchfmt Reader/Printer, and an in-process storage/app server on an
// in-memory sqlite database queried through db.DB and storage.Client.

import (
	"bytes"
	"context"
	"fmt"
	"io"
	"log"
	"net/http"
	"net/http/httptest"
	"sort"
	"strings"
	"sync"
	"unicode"

	aapp "golang.org/x/perf/analysis/app"
	"golang.org/x/perf/storage"
	sapp "golang.org/x/perf/storage/app"
	sbf "golang.org/x/perf/storage/benchfmt"
	"golang.org/x/perf/storage/db"
	_ "golang.org/x/perf/storage/db/sqlite3"
	"golang.org/x/perf/storage/fs"
	"golang.org/x/perf/storage/query"
	"verifharness/internal/hx"
)

func init() { gens["C19"] = genC19 }

// ---------- a recording fs.FS (MemFS does not expose file contents) ----------

type recFS struct {
	mu    sync.Mutex
	files map[string][]byte
}

func newRecFS() *recFS { return &recFS{files: map[string][]byte{}} }

type recFile struct {
	fs   *recFS
	name string
	buf  []byte
	done bool
}

func (f *recFS) NewWriter(_ context.Context, name string, _ map[string]string) (fs.Writer, error) {
	return &recFile{fs: f, name: name}, nil
}
func (w *recFile) Write(p []byte) (int, error) { w.buf = append(w.buf, p...); return len(p), nil }
func (w *recFile) Close() error {
	if w.done {
		return fmt.Errorf("already closed")
	}
	w.done = true
	w.fs.mu.Lock()
	w.fs.files[w.name] = w.buf
	w.fs.mu.Unlock()
	return nil
}
func (w *recFile) CloseWithError(error) error { w.done = true; return nil }

// ---------- emission helpers ----------

func c19Labels(l sbf.Labels) hx.Sx {
	keys := make([]string, 0, len(l))
	for k := range l {
		keys = append(keys, k)
	}
	sort.Strings(keys)
	it := make([]hx.Sx, len(keys))
	for i, k := range keys {
		it[i] = hx.L(hx.S(k), hx.S(l[k]))
	}
	return hx.List(it)
}

func c19Result(r *sbf.Result) hx.Sx {
	return hx.L(c19Labels(r.Labels), c19Labels(r.NameLabels), hx.I(r.LineNum), hx.S(r.Content))
}

type c19Res struct {
	Labels, NameLabels sbf.Labels
	Content            string
}

// ---------- kind 0: words ----------

type c19WordsIn struct {
	Kind  string `json:"kind"`
	Q     string `json:"q"`
	Add   string `json:"add"`
	Query string `json:"query"`
}

func c19Words(o *hx.Out, q, add, qry string) {
	words := query.SplitWords(q)
	built := aapp.VerifAddToQuery(qry, add)
	bwords := query.SplitWords(built)
	qwords := query.SplitWords(qry)
	prefix, queries := aapp.VerifParseQueryString(q)
	c := hx.L(hx.I(0), hx.S(q), hx.SList(words), hx.S(add), hx.S(qry), hx.S(built), hx.SList(bwords), hx.SList(qwords),
		hx.S(prefix), hx.SList(queries))
	o.Count("words")
	o.Count(fmt.Sprintf("words.n=%d", min(len(words), 6)))
	if strings.ContainsAny(add, " \t\\\"") {
		o.Count("words.add-quoted")
	} else if c19HasSpaceByte(add) {
		// the front end emits this value bare although one of its UTF-8 bytes is 0x85 / 0xA0
		o.Count("words.add-bare-byte85a0")
	}
	if c19HasSpaceByte(q) {
		o.Count("words.q-byte85a0")
		if !strings.ContainsAny(q, "\\\"") {
			o.Count("words.q-byte85a0-plain")
		}
	}
	o.Add(c, c19WordsIn{"words", q, add, qry}, "w\x00"+q+"\x00"+add+"\x00"+qry, len(words) > 0 || add != "")
}

func c19RandStr(r *hx.Rng, alpha []string, maxLen int) string {
	n := r.Intn(maxLen + 1)
	var sb strings.Builder
	for i := 0; i < n; i++ {
		sb.WriteString(alpha[r.Intn(len(alpha))])
	}
	return sb.String()
}

// c19HasSpaceByte: some byte of s is 0x85 or 0xA0 (U+0085 / U+00A0 are white
// space as runes; as bytes of a longer UTF-8 sequence they are not).
func c19HasSpaceByte(s string) bool {
	return strings.IndexByte(s, 0x85) >= 0 || strings.IndexByte(s, 0xa0) >= 0
}

// non-ASCII symbols whose UTF-8 encodings contain 0x85 / 0xA0 (à = C3 A0,
// Å = C3 85, 全 = E5 85 A8, U+00A0 = C2 A0, U+2003 = E2 80 83, U+0085 = C2 85)
var c19UniSyms = []string{"à", "Å", "全", "\u00a0", "\u2003", "\u0085"}

// words as users and the front end write them, bare
var c19UniWords = []string{"note:voilà", "Å", "全", "k:a\u00a0b", "a\u2003b", "x\u0085y", "note:Å", "k>全", "k<à", "voilà", "pkg:全/à", "k:v"}

// label values the analysis front end's addToQuery emits without quoting
var c19UniVals = []string{"voilà", "Å", "全", "a\u00a0b", "a\u2003b", "x\u0085y", "à", "note:voilà", "déjà", "Ångström", "全部", "\u00a0"}

var c19WordAlpha = []string{"a", "b", " ", "\t", "\"", "\\", "|", "v", "s", ":", "é", " ", "\"", "\\", "<", "k"}

func genC19Words(o *hx.Out, r *hx.Rng, tier string) {
	exh := []string{"a", " ", "\"", "\\", "|"}
	maxLen := 4
	if tier == "thorough" {
		maxLen = 6
	}
	var rec func(p string, d int)
	rec = func(p string, d int) {
		// the same short text also serves as the word to add and as the old query
		c19Words(o, p, p, c19RandStr(r, c19WordAlpha, 6))
		if d == maxLen {
			return
		}
		for _, s := range exh {
			rec(p+s, d+1)
		}
	}
	rec("", 0)
	n := 1500
	if tier == "thorough" {
		n = 30000
	}
	for i := 0; i < n; i++ {
		q := c19RandStr(r, c19WordAlpha, 14)
		if r.Chance(0.3) {
			// shaped like a front-end query: prefix | a vs b
			parts := []string{}
			for j := r.Range(1, 5); j > 0; j-- {
				parts = append(parts, r.Pick([]string{"|", "vs", "k:v", "\"a b\"", "a\\ b", "\"|\"", "\"vs\"", "x:\"1 2\"", "", "v\\s"}))
			}
			q = strings.Join(parts, r.Pick([]string{" ", " ", "\t", "  "}))
		}
		c19Words(o, q, c19RandStr(r, c19WordAlpha, 7), c19RandStr(r, c19WordAlpha, 8))
	}
	genC19WordsUni(o, r.Split(), tier)
}

// genC19WordsUni: texts with non-ASCII symbols whose UTF-8 bytes include 0x85 /
// 0xA0 and with the white-space runes U+00A0 / U+2003 / U+0085 inside words:
// SplitWords separates words at the BYTES space and tab only.
func genC19WordsUni(o *hx.Out, r *hx.Rng, tier string) {
	// exhaustive over a small alphabet
	exh := []string{"a", " ", "à", "Å", "\u00a0"}
	var rec func(p string, d int)
	rec = func(p string, d int) {
		if p != "" {
			c19Words(o, p, p, r.Pick([]string{"", "k:v", "a | b", "Å", "x à"}))
		}
		if d == 3 {
			return
		}
		for _, s := range exh {
			rec(p+s, d+1)
		}
	}
	rec("", 0)
	alpha := append(append([]string{}, c19WordAlpha...), c19UniSyms...)
	alpha = append(alpha, c19UniSyms...)
	n := 500
	if tier == "thorough" {
		n = 10000
	}
	for i := 0; i < n; i++ {
		var q, add, qry string
		switch x := r.Intn(100); {
		case x < 40:
			q, add, qry = c19RandStr(r, alpha, 12), c19RandStr(r, alpha, 6), c19RandStr(r, alpha, 8)
		case x < 75:
			// bare words joined by blanks (sometimes by a white-space rune, which must NOT separate)
			var parts []string
			for j := r.Range(1, 4); j > 0; j-- {
				parts = append(parts, r.Pick(c19UniWords))
			}
			q = strings.Join(parts, r.Pick([]string{" ", "\t", "  ", " ", "\u00a0", "\u2003"}))
			add = r.Pick(c19UniVals)
			qry = r.Pick([]string{"", "k:v", "a | b", "note:voilà | Å", r.Pick(c19UniWords), "Å 全"})
		default:
			// a front-end round: key:value built from a label value, added to a query
			add = r.Pick([]string{"note", "k", "pkg"}) + ":" + r.Pick(c19UniVals)
			if r.Chance(0.3) {
				add += r.Pick([]string{" x", "\"", "\\", "\tà"})
			}
			qry = c19RandStr(r, alpha, 8)
			q = aapp.VerifAddToQuery(qry, add)
		}
		c19Words(o, q, add, qry)
	}
}

// ---------- kind 1: fmt ----------

type c19FmtIn struct {
	Kind string      `json:"kind"`
	Meta [][2]string `json:"meta,omitempty"`
	Text string      `json:"text"`
}

var c19Keys = []string{"goos", "goarch", "pkg", "commit", "k", "cl", "é", "key-2", "a/b", "µ"}
var c19Vals = []string{"linux", "amd64", "a", "b", "ab", "a b", "x\"y", "b\\s", "1", "10", "2", "é", "Z", "a\tb", "v ", "世", "x:y", "B", "aa"}
var c19Names = []string{"Foo", "Foo-8", "Foo/bar", "Foo/k=v/x-4", "Foo/a=1/b=2", "Bar", "Bar-16", "Foo/bar/baz-2", "", "Foo-+3", "Foo-x", "Foo/k=v", "Bar/a=2", "Foo-99999999999999999999"}

func c19ReadAll(br *sbf.Reader) ([]*sbf.Result, error) {
	var rs []*sbf.Result
	for br.Next() {
		rs = append(rs, br.Result())
	}
	return rs, br.Err()
}

func c19Fmt(o *hx.Out, meta [][2]string, hasMeta bool, text string, tags ...string) error {
	br := sbf.NewReader(strings.NewReader(text))
	if hasMeta {
		m := sbf.Labels{}
		for _, kv := range meta {
			m[kv[0]] = kv[1]
		}
		br.AddLabels(m)
	}
	rs, err := c19ReadAll(br)
	if err != nil {
		return nil // token too long: outside the modelled domain
	}
	var buf bytes.Buffer
	pr := sbf.NewPrinter(&buf)
	for _, x := range rs {
		if err := pr.Print(x); err != nil {
			return err
		}
	}
	rr, err := c19ReadAll(sbf.NewReader(bytes.NewReader(buf.Bytes())))
	if err != nil {
		return nil
	}
	var ms []hx.Sx
	for _, kv := range meta {
		ms = append(ms, hx.L(hx.S(kv[0]), hx.S(kv[1])))
	}
	var rsx, rrx []hx.Sx
	cr := false
	for _, x := range rs {
		rsx = append(rsx, c19Result(x))
		if strings.HasSuffix(x.Content, "\r") {
			cr = true
		}
		for _, v := range x.Labels {
			if strings.HasSuffix(v, "\r") {
				cr = true
			}
		}
	}
	for _, x := range rr {
		rrx = append(rrx, c19Result(x))
	}
	if cr {
		tags = append(tags, "C19_trailing_cr")
		o.Count("fmt.trailing-cr")
	}
	c := hx.L(hx.I(1), hx.Opt(hasMeta, hx.List(ms)), hx.S(text), hx.List(rsx), hx.S(buf.String()), hx.List(rrx))
	o.Count("fmt")
	o.Count(fmt.Sprintf("fmt.results=%d", min(len(rs), 8)))
	o.Add(c, c19FmtIn{"fmt", meta, text}, "f\x00"+text+fmt.Sprint(meta, hasMeta), len(rs) > 0, tags...)
	return nil
}

// c19Line produces one line (without terminator) of a benchmark file.
func c19Line(r *hx.Rng, hostile bool) string {
	switch x := r.Intn(100); {
	case x < 30:
		return r.Pick(c19Keys) + ": " + r.Pick(c19Vals)
	case x < 38:
		return r.Pick(c19Keys) + ":"
	case x < 80:
		return "Benchmark" + r.Pick(c19Names) + " " + r.Pick([]string{"100 12.5 ns/op", "1 2 ns/op", "5"})
	case x < 83:
		return ""
	}
	if !hostile {
		return r.Pick([]string{"PASS", "ok  \tpkg\t0.1s", "some text"})
	}
	return r.Pick([]string{
		"k:v", "k:\tv", "k:  v  ", "K: v", "kK: v", "k x: v", ": v", "k: ", "k:\t", "é: 1", "É: 1", "k\u00a0: v", "k\u2003x: v",
		"αβ: 1", "Αβ: 1", "ж: 2", "жЖ: 2", "\xff: 1", "k\xff: 1", "k\xc3: 1", "世: 1", "k世: 1", "k: a: b", "k::",
		"BenchmarkFoo", "Benchmark 1", "BenchmarkFoo\t1", "BenchmarkFoo\u00a01 ns/op", "benchmarkFoo 1", "BenchmarkX/=v 1", "BenchmarkX/a= 1",
		"BenchmarkX//y 1", "BenchmarkX/name=Y 1", "BenchmarkX/gomaxprocs=3-4 1", "BenchmarkX-4/y 1", "BenchmarkX--4 1", "BenchmarkX-007 1",
		"BenchmarkX-9223372036854775807 1", "BenchmarkX-9223372036854775808 1", "Benchmark-1 1", "BenchmarkX/sub1=q/z 1",
		" k: v", "\tBenchmarkX 1", "k: v\r", "BenchmarkX 1 ns/op\r", "x\ry: 1", "µ: micro", "ª: 1",
	})
}

func c19Text(r *hx.Rng, hostile bool, maxLines int) string {
	var sb strings.Builder
	n := r.Range(0, maxLines)
	for i := 0; i < n; i++ {
		sb.WriteString(c19Line(r, hostile))
		switch {
		case i == n-1 && r.Chance(0.2):
		case r.Chance(0.1):
			sb.WriteString("\r\n")
		default:
			sb.WriteString("\n")
		}
	}
	return sb.String()
}

func genC19Fmt(o *hx.Out, r *hx.Rng, tier string) error {
	n := 1200
	if tier == "thorough" {
		n = 20000
	}
	for i := 0; i < n; i++ {
		hasMeta := r.Chance(0.4)
		var meta [][2]string
		if hasMeta {
			seen := map[string]bool{}
			for j := r.Intn(4); j > 0; j-- {
				k := r.Pick([]string{"upload", "by", "goos", "k", "é"})
				if !seen[k] {
					seen[k] = true
					meta = append(meta, [2]string{k, r.Pick([]string{"u1", "linux", "x y", "é"})})
				}
			}
		}
		if err := c19Fmt(o, meta, hasMeta, c19Text(r, r.Chance(0.6), 14)); err != nil {
			return err
		}
	}
	// fixed witnesses
	for _, t := range []string{
		"a: 1\n\nb: 2\n\nBenchmarkX 1\na: 3\nBenchmarkY 1\n",
		"a: 1\n\ngarbage\na: 2\nBenchmarkX 1\n",
		"a: 1\nBenchmarkX 1\na:\nBenchmarkX 1\na: 1\nBenchmarkX 1\n",
		"k: v\r\r\nBenchmarkX 1 ns/op\r\r\n",
		// a line that is no benchmark line any more once its CR is gone; a value that is just CR
		"BenchmarkV\r\r\nBenchmark 1\nBenchmarkW 2\nBenchmark 3\n",
		"k: \r\r\nBenchmarkX 1\nj: 1\r\r\nBenchmarkY\r\r\nBenchmarkZ 1\r\r\n",
	} {
		if err := c19Fmt(o, nil, false, t); err != nil {
			return err
		}
	}
	return nil
}

// ---------- kind 2: histories ----------

type c19File struct {
	Name string `json:"name"`
	Body string `json:"body"`
}
type c19Upload struct {
	User  string    `json:"user"`
	Files []c19File `json:"files"`
}
type c19Query struct {
	Q     string `json:"q"`
	Limit int    `json:"limit"`
}
type c19HistIn struct {
	Kind    string      `json:"kind"`
	Uploads []c19Upload `json:"uploads"`
	Queries []c19Query  `json:"queries"`
}

type c19Server struct {
	db   *db.DB
	fs   *recFS
	srv  *httptest.Server
	cl   *storage.Client
	user string
}

func c19NewServer() (*c19Server, error) {
	d, err := db.OpenSQL("sqlite3", ":memory:")
	if err != nil {
		return nil, err
	}
	s := &c19Server{db: d, fs: newRecFS()}
	a := &sapp.App{DB: d, FS: s.fs, Auth: func(http.ResponseWriter, *http.Request) (string, error) { return s.user, nil }}
	mux := http.NewServeMux()
	a.RegisterOnMux(mux)
	s.srv = httptest.NewServer(mux)
	s.cl = &storage.Client{BaseURL: s.srv.URL, HTTPClient: s.srv.Client()}
	return s, nil
}

func (s *c19Server) Close() {
	s.srv.Close()
	s.db.Close()
}

// upload sends the files with storage.Client; returns the upload id ("" on failure).
func (s *c19Server) upload(u c19Upload) (string, error) {
	s.user = u.User
	up := s.cl.NewUpload(context.Background())
	for _, f := range u.Files {
		w, err := up.CreateFile(f.Name)
		if err != nil {
			up.Abort()
			return "", err
		}
		if _, err := io.WriteString(w, f.Body); err != nil {
			up.Abort()
			return "", err
		}
	}
	st, err := up.Commit()
	if err != nil {
		return "", nil // the server refused the upload
	}
	return st.UploadID, nil
}

func (s *c19Server) uploadTime(id string) string {
	s.fs.mu.Lock()
	defer s.fs.mu.Unlock()
	b := s.fs.files["uploads/"+id+"/0.txt"]
	for _, line := range strings.Split(string(b), "\n") {
		if strings.HasPrefix(line, "upload-time: ") {
			return line[len("upload-time: "):]
		}
	}
	return ""
}

func c19ObsResults(rs []c19Res, err error) hx.Sx {
	if err != nil {
		return hx.L(hx.I(1))
	}
	it := make([]hx.Sx, len(rs))
	for i, x := range rs {
		it[i] = hx.L(c19Labels(x.Labels), c19Labels(x.NameLabels), hx.I(0), hx.S(x.Content))
	}
	return hx.L(hx.I(0), hx.List(it))
}

func (s *c19Server) dbQuery(q string) ([]c19Res, error) {
	qq := s.db.Query(q)
	defer qq.Close()
	var rs []c19Res
	for qq.Next() {
		x := qq.Result()
		rs = append(rs, c19Res{x.Labels, x.NameLabels, x.Content})
	}
	return rs, qq.Err()
}

func (s *c19Server) httpQuery(q string) ([]c19Res, error) {
	qq := s.cl.Query(context.Background(), q)
	defer qq.Close()
	var rs []c19Res
	for qq.Next() {
		x := qq.Result()
		rs = append(rs, c19Res{x.Labels, x.NameLabels, x.Content})
	}
	return rs, qq.Err()
}

func c19ObsList(l []storage.UploadInfo, err error) hx.Sx {
	if err != nil {
		return hx.L(hx.I(1))
	}
	it := make([]hx.Sx, len(l))
	for i, x := range l {
		it[i] = hx.L(hx.S(x.UploadID), hx.I(x.Count))
	}
	return hx.L(hx.I(0), hx.List(it))
}

func (s *c19Server) dbList(q string, limit int) ([]storage.UploadInfo, error) {
	ul := s.db.ListUploads(q, nil, limit)
	defer ul.Close()
	var l []storage.UploadInfo
	for ul.Next() {
		l = append(l, ul.Info())
	}
	return l, ul.Err()
}

func (s *c19Server) httpList(q string, limit int) ([]storage.UploadInfo, error) {
	ul := s.cl.ListUploads(context.Background(), q, nil, limit)
	defer ul.Close()
	var l []storage.UploadInfo
	for ul.Next() {
		l = append(l, ul.Info())
	}
	return l, ul.Err()
}

// c19Quote quotes a query word for SplitWords when it needs it.
func c19Quote(w string) string {
	if w == "" || strings.ContainsAny(w, " \t\\\"") {
		w = strings.Replace(w, `\`, `\\`, -1)
		w = strings.Replace(w, `"`, `\"`, -1)
		return `"` + w + `"`
	}
	return w
}

type c19HistOpts struct {
	collide  bool // allow file labels that coincide with name-derived labels
	emptyVal bool // allow names deriving labels with empty values
	cr       bool // allow values / lines ending in CR
	big      bool // many records (crosses the 990-argument flush)
}

func c19GenBody(r *hx.Rng, op c19HistOpts) string {
	var sb strings.Builder
	keys := []string{"goos", "goarch", "pkg", "commit", "k", "cl", "é"}
	vals := []string{"linux", "amd64", "a", "b", "ab", "a b", "x\"y", "b\\s", "1", "10", "2", "é", "Z", "aa", "a\tb"}
	names := []string{"Foo", "Foo-8", "Foo/bar", "Foo/q=v/x-4", "Foo/a=1/b=2", "Bar", "Bar-16", "Foo/bar/baz-2", "Foo/q=v", "Bar/a=2", "Foo/a=1 2"}
	if op.emptyVal {
		names = append(names, "X/a=", "X/b=", "X//y", "X/=v", "X/b=y", "X/a=y")
	}
	if op.collide {
		keys = append(keys, "name", "gomaxprocs", "sub1", "q", "a")
	}
	n := r.Range(1, 14)
	if op.big {
		n = r.Range(60, 110)
	}
	header := r.Chance(0.4)
	last := ""
	for i := 0; i < n; i++ {
		line := ""
		switch x := r.Intn(100); {
		case x < 22:
			line = r.Pick(keys) + ": " + r.Pick(vals)
			if op.cr && r.Chance(0.3) {
				line += "\r\r"
			}
		case x < 28:
			line = r.Pick(keys) + ":"
		case x < 31:
			// attempt to override a server label
			line = r.Pick([]string{"upload: 19700101.1", "upload-time: never", "by: me", "upload-part: x/9", "upload-file: other.txt"})
		case x < 34:
			line = r.Pick([]string{"", "PASS", "ok  \tpkg\t0.1s"})
		case x < 40 && op.emptyVal:
			// name labels that differ only in which key has the empty value: never one record
			line = r.Pick([]string{"BenchmarkX/a= 1 ns/op\nBenchmarkX/b=y 1 ns/op", "BenchmarkX/a= 1 ns/op\nBenchmarkX/b= 1 ns/op",
				"BenchmarkX/b=y 1 ns/op\nBenchmarkX/a= 1 ns/op", "BenchmarkX/a= 1 ns/op\nBenchmarkX/a= 2 ns/op"})
		case x < 50 && last != "":
			line = last // repeat: coalesces when no label changed in between
		default:
			line = "Benchmark" + r.Pick(names) + " " + r.Pick([]string{"100 12.5 ns/op", "1 2 ns/op", "200 7 ns/op 3 B/op"})
			if op.big {
				line = fmt.Sprintf("BenchmarkBig/i=%d-%d 1 %d ns/op", r.Intn(40), 1+r.Intn(3), r.Intn(3))
			}
			if op.cr && r.Chance(0.2) {
				line += "\r\r"
			}
			last = line
		}
		if header && i == 2 {
			line = ""
		}
		sb.WriteString(line)
		if i == n-1 && r.Chance(0.15) {
			break
		}
		if r.Chance(0.05) {
			sb.WriteString("\r")
		}
		sb.WriteString("\n")
	}
	return sb.String()
}

func c19GenQueries(r *hx.Rng, all []c19Res, ids []string, n int) []c19Query {
	type kv struct{ k, v string }
	var pool []kv
	for _, x := range all {
		for _, m := range []sbf.Labels{x.Labels, x.NameLabels} {
			ks := make([]string, 0, len(m))
			for k := range m {
				ks = append(ks, k)
			}
			sort.Strings(ks)
			for _, k := range ks {
				pool = append(pool, kv{k, m[k]})
			}
		}
	}
	if len(pool) == 0 {
		pool = []kv{{"k", "v"}}
	}
	near := func(v string) string {
		switch r.Intn(7) {
		case 0:
			return v + "\x00"
		case 1:
			return v + "a"
		case 2:
			if len(v) > 0 {
				return v[:len(v)-1]
			}
		case 3:
			if len(v) > 0 {
				return v[:len(v)-1] + string(rune(v[len(v)-1]+1))
			}
		case 4:
			return ""
		case 5:
			return r.Pick([]string{"a", "b", "m", "~", "0", "A"})
		}
		return v
	}
	term := func() string {
		p := pool[r.Intn(len(pool))]
		k, v := p.k, p.v
		if r.Chance(0.12) {
			k = r.Pick([]string{"absent", "nokey", "upload-x"})
		}
		if r.Chance(0.15) && len(ids) > 0 {
			k, v = "upload", ids[r.Intn(len(ids))]
		}
		op := r.Pick([]string{":", ":", ":", "<", ">", ">"})
		if (op == ":" && r.Chance(0.2)) || (op != ":" && r.Chance(0.6)) {
			v = near(v)
		}
		return k + op + v
	}
	// terms all satisfied by one stored result (so that conjunctions are not mostly empty)
	recTerms := func(k int) []string {
		if len(all) == 0 {
			return []string{term()}
		}
		x := all[r.Intn(len(all))]
		var kvs []kv
		for _, m := range []sbf.Labels{x.Labels, x.NameLabels} {
			ks := make([]string, 0, len(m))
			for key := range m {
				ks = append(ks, key)
			}
			sort.Strings(ks)
			for _, key := range ks {
				kvs = append(kvs, kv{key, m[key]})
			}
		}
		var ws []string
		for j := 0; j < k && len(kvs) > 0; j++ {
			p := kvs[r.Intn(len(kvs))]
			switch r.Intn(5) {
			case 0, 1:
				ws = append(ws, p.k+":"+p.v)
			case 2:
				if len(p.v) > 0 {
					ws = append(ws, p.k+">"+p.v[:len(p.v)-1])
				} else {
					ws = append(ws, p.k+">")
				}
			case 3:
				ws = append(ws, p.k+"<"+p.v+r.Pick([]string{"~", "\x00", "a"}))
			default:
				if len(p.v) > 0 {
					ws = append(ws, p.k+">"+p.v[:len(p.v)-1], p.k+"<"+p.v+"\x01")
				} else {
					ws = append(ws, p.k+":"+p.v)
				}
			}
		}
		return ws
	}
	var qs []c19Query
	for i := 0; i < n; i++ {
		var words []string
		switch x := r.Intn(100); {
		case x < 45:
			words = recTerms(r.Range(1, 4))
			if r.Chance(0.3) {
				words = append(words, term())
			}
			x = 100
		case x < 55:
			words = []string{term()}
		case x < 62:
			words = []string{term(), term()}
		case x < 82:
			// several terms on one key: ranges, redundancy, contradictions
			p := pool[r.Intn(len(pool))]
			if r.Chance(0.2) && len(ids) > 0 {
				p = kv{"upload", ids[r.Intn(len(ids))]}
			}
			for j := r.Range(2, 4); j > 0; j-- {
				words = append(words, p.k+r.Pick([]string{":", "<", ">", "<", ">"})+near(p.v))
			}
			if r.Chance(0.4) {
				words = append(words, term())
			}
		case x < 91:
			for j := r.Range(3, 5); j > 0; j-- {
				words = append(words, term())
			}
		case x < 96:
			words = []string{term(), r.Pick([]string{"BAD", "K:v", "k", "kK:v", "k:", "|", "vs", "a b:c"}), term()}
			r.Chance(0.5)
		default:
			words = nil
		}
		for j := range words {
			words[j] = c19Quote(words[j])
		}
		q := strings.Join(words, r.Pick([]string{" ", " ", "  ", "\t"}))
		qs = append(qs, c19Query{q, []int{0, 0, 1, 2, 3, -1}[r.Intn(6)]})
	}
	return qs
}

func c19History(o *hx.Out, r *hx.Rng, in c19HistIn, nq int, tags []string) error {
	return c19HistoryX(o, r, in, nq, tags, nil)
}

// c19ServerKeys are the labels the server adds to every upload.
var c19ServerKeys = map[string]bool{"upload": true, "upload-part": true, "upload-time": true, "upload-file": true, "by": true}

// c19Transition classifies how the file-label KEY set changes from one record
// of a response to the next (the server's Printer writes only the difference).
func c19Transition(a, b sbf.Labels) string {
	drop, gain, common := 0, 0, 0
	for k := range a {
		if c19ServerKeys[k] {
			continue
		}
		if _, ok := b[k]; ok {
			common++
		} else {
			drop++
		}
	}
	for k := range b {
		if c19ServerKeys[k] {
			continue
		}
		if _, ok := a[k]; !ok {
			gain++
		}
	}
	switch {
	case drop == 0 && gain == 0:
		return "same-keys"
	case drop == 0:
		return "superset"
	case gain == 0:
		return "subset"
	case common == 0:
		return "disjoint"
	case drop == gain:
		return "swap-same-size"
	}
	return "swap"
}

// c19HistoryX: extra, if not nil, supplies queries in front of the generated ones
// (it sees the stored results and the upload IDs).
func c19HistoryX(o *hx.Out, r *hx.Rng, in c19HistIn, nq int, tags []string, extra func(all []c19Res, ids []string) []c19Query) error {
	s, err := c19NewServer()
	if err != nil {
		return err
	}
	defer s.Close()
	var ups []hx.Sx
	var ids []string
	var ok []bool
	nok := 0
	for _, u := range in.Uploads {
		id, err := s.upload(u)
		if err != nil {
			return err
		}
		var fsx []hx.Sx
		for _, f := range u.Files {
			fsx = append(fsx, hx.L(hx.S(f.Name), hx.S(f.Body)))
		}
		tm := ""
		if id != "" {
			tm = s.uploadTime(id)
			ids = append(ids, id)
			nok++
		} else {
			o.Count("hist.upload-refused")
		}
		ok = append(ok, id != "")
		ups = append(ups, hx.L(hx.S(id), hx.S(tm), hx.S(u.User), hx.List(fsx), hx.Bool(id != "")))
	}
	all, err := s.dbQuery("")
	if err != nil {
		return fmt.Errorf("query all: %v", err)
	}
	if in.Queries == nil {
		if extra != nil {
			in.Queries = extra(all, ids)
		}
		if nq > 0 {
			in.Queries = append(in.Queries, c19GenQueries(r, all, ids, nq)...)
		}
	}
	var qsx []hx.Sx
	for _, q := range in.Queries {
		dr, derr := s.dbQuery(q.Q)
		hr, herr := s.httpQuery(q.Q)
		dl, dlerr := s.dbList(q.Q, q.Limit)
		hl, hlerr := s.httpList(q.Q, q.Limit)
		if herr == nil {
			// label-set transitions between consecutive records of this one response
			for i := 1; i < len(hr); i++ {
				o.Count("hist.http-transition=" + c19Transition(hr[i-1].Labels, hr[i].Labels))
			}
		}
		if q.Limit > 0 && dlerr == nil && len(dl) == q.Limit && len(ids) >= 10 {
			// a listing that the limit really cuts: how many uploads match without it
			if full, ferr := s.dbList(q.Q, 0); ferr == nil && len(full) > q.Limit {
				kind := "hist.list-cut"
				if q.Q != "" {
					kind = "hist.list-cut-query"
				}
				o.Count(kind)
				if len(full) >= 10 {
					o.Count(kind + "-10plus-matching")
				}
			}
		}
		if derr == nil && c19HasSpaceByte(q.Q) && !strings.ContainsAny(q.Q, "\\\"") {
			o.Count("hist.query-bare-byte85a0")
			if len(dr) > 0 {
				o.Count("hist.query-bare-byte85a0-found")
			}
		}
		qsx = append(qsx, hx.L(hx.S(q.Q), hx.I(q.Limit), c19ObsResults(dr, derr), c19ObsResults(hr, herr),
			c19ObsList(dl, dlerr), c19ObsList(hl, hlerr)))
		switch {
		case derr != nil:
			o.Count("hist.query-error")
		case len(dr) == 0:
			o.Count("hist.query-empty")
		case len(dr) == len(all):
			o.Count("hist.query-all")
		default:
			o.Count("hist.query-some")
		}
	}
	allSx := func() hx.Sx {
		it := make([]hx.Sx, len(all))
		for i, x := range all {
			it[i] = hx.L(c19Labels(x.Labels), c19Labels(x.NameLabels), hx.I(0), hx.S(x.Content))
		}
		return hx.List(it)
	}()
	c := hx.L(hx.I(2), hx.List(ups), allSx, hx.List(qsx))
	o.Count("hist")
	o.Count(fmt.Sprintf("hist.uploads-ok=%d", nok))
	// known-finding input classes, decided from the input alone (the uploaded
	// files as the Reader sees them, the query words, a replay of the insert
	// counter): never from a generator option. What a tag excuses is decided by
	// RunC19.known_h, which allows exactly the recorded deviation.
	tags = append(append([]string{}, tags...), c19InputTags(o, in, ok)...)
	key := fmt.Sprintf("h%d", o.Len())
	o.Add(c, in, key, len(all) > 0, tags...)
	return nil
}

type c19Term struct {
	key, val string
	op       byte
}

// c19ParseWord splits a query word at its first ':' '<' '>' (nil if the word
// is not a term: no operator, or white space / an upper-case letter in front of it).
func c19ParseWord(w string) *c19Term {
	i := strings.IndexFunc(w, func(r rune) bool {
		return r == ':' || r == '>' || r == '<' || unicode.IsSpace(r) || unicode.IsUpper(r)
	})
	if i < 0 || (w[i] != ':' && w[i] != '<' && w[i] != '>') {
		return nil
	}
	return &c19Term{w[:i], w[i+1:], w[i]}
}

// c19InputTags: which recorded findings' input classes this history meets.
//   C19_trailing_cr            an accepted upload holds a result whose line or a label value ends in CR
//   C19_empty_name_label_value a well-formed query has a term key> (empty value) and a stored result
//                              carries that key with an empty value
//   C19_empty_equality_refused a well-formed query has a term key: (empty value), key other than upload
//   C19_record_split_at_flush  a forced flush falls on the first result of a run that has a follower (c19runs.go)
func c19InputTags(o *hx.Out, in c19HistIn, ok []bool) []string {
	var tags []string
	splits := 0
	cr := false
	emptyKeys := map[string]bool{}
	for i, u := range in.Uploads {
		if !ok[i] {
			continue
		}
		splits += c19SplitSim(u).splits
		for _, x := range c19UploadResults(u) {
			if strings.HasSuffix(x.Content, "\r") {
				cr = true
			}
			for _, v := range x.Labels {
				if strings.HasSuffix(v, "\r") {
					cr = true
				}
			}
			for k, v := range x.NameLabels {
				if v == "" {
					emptyKeys[k] = true
				}
			}
		}
	}
	emptyGt, emptyEq := false, false
	for _, q := range in.Queries {
		var ts []*c19Term
		wellFormed := true
		for _, w := range query.SplitWords(q.Q) {
			t := c19ParseWord(w)
			if t == nil {
				wellFormed = false
				break
			}
			ts = append(ts, t)
		}
		if !wellFormed {
			continue
		}
		for _, t := range ts {
			if t.val != "" || t.key == "upload" {
				continue
			}
			if t.op == ':' {
				emptyEq = true
			}
			if t.op == '>' && emptyKeys[t.key] {
				emptyGt = true
			}
		}
	}
	if cr {
		tags = append(tags, "C19_trailing_cr")
		o.Count("hist.in-trailing-cr")
	}
	if emptyGt {
		tags = append(tags, "C19_empty_name_label_value")
		o.Count("hist.in-empty-value-gt")
	}
	if emptyEq {
		tags = append(tags, "C19_empty_equality_refused")
		o.Count("hist.in-empty-equality")
	}
	if len(emptyKeys) > 0 {
		o.Count("hist.in-empty-name-label")
	}
	if splits > 0 {
		tags = append(tags, c19SplitTag)
		o.Count("hist.record-split-at-flush")
	}
	return tags
}

func genC19Hist(o *hx.Out, r *hx.Rng, tier string) error {
	n := 120
	if tier == "thorough" {
		n = 1500
	}
	for i := 0; i < n; i++ {
		op := c19HistOpts{collide: r.Chance(0.1), emptyVal: r.Chance(0.06), cr: r.Chance(0.04), big: r.Chance(0.05)}
		var tags []string // input tags are computed in c19HistoryX from the history itself
		if op.emptyVal {
			o.Count("hist.opt-empty-value")
		}
		if op.cr {
			o.Count("hist.opt-cr")
		}
		if op.collide {
			o.Count("hist.opt-collide")
		}
		if op.big {
			o.Count("hist.opt-big")
		}
		in := c19HistIn{Kind: "history"}
		for j := r.Range(1, 6); j > 0; j-- {
			u := c19Upload{User: r.Pick([]string{"", "user", "gopher"})}
			for k := r.Range(1, 3); k > 0; k-- {
				u.Files = append(u.Files, c19File{r.Pick([]string{"", "a.txt", "b.txt", "dir/c.txt", "d\\e.txt", "new.txt"}), c19GenBody(r, op)})
			}
			in.Uploads = append(in.Uploads, u)
			if op.big {
				op.big = false
			}
		}
		if err := c19History(o, r, in, r.Range(20, 60), tags); err != nil {
			return err
		}
	}
	return nil
}

// fixed witnesses: past defects and recorded findings, re-run every time
func genC19Fixed(o *hx.Out, r *hx.Rng) error {
	one := func(body string, qs []string, tags ...string) error {
		in := c19HistIn{Kind: "history", Uploads: []c19Upload{
			{User: "user", Files: []c19File{{"a.txt", "k: a\nBenchmarkFoo-8 1 2 ns/op\n"}}},
			{User: "user", Files: []c19File{{"w.txt", body}}}}}
		for _, q := range qs {
			in.Queries = append(in.Queries, c19Query{q, 0})
		}
		return c19History(o, r, in, 0, tags)
	}
	// 6683d59: a contradictory query lists no uploads (was: EOF error)
	if err := one("k: b\nBenchmarkBar 1 2 ns/op\n", []string{"k:a k:b", "k>b k<b", "k:a", "k>a k<a\x00", "k<", "upload>"}); err != nil {
		return err
	}
	// finding: a name-derived label with an empty value
	// (the tags come from c19InputTags)
	if err := one("BenchmarkX/a= 1 ns/op\nBenchmarkX/b= 1 ns/op\n", []string{"a>", "b>", "a> a<b", "name:X", "a> a>0", "a> name:X", "b> a>"}); err != nil {
		return err
	}
	// finding: a value / line ending in CR loses it on the way back (one CR per pass)
	if err := one("k: v\r\r\nBenchmarkX 1 ns/op\r\r\n", []string{"k>a", "name:X", "k:v", "k:v\r", "k<w"}); err != nil {
		return err
	}
	if err := one("k: v\r\r\r\nBenchmarkX 1 ns/op\r\r\r\nj: \r\r\nBenchmarkX 1 ns/op\nBenchmarkX 1 ns/op\r\r\n", []string{"k>a", "name:X", "j>", "j:\r"}); err != nil {
		return err
	}
	// finding: an equality term with an empty value makes the whole query fail
	if err := one("BenchmarkX/a= 1 ns/op\nBenchmarkY/a=1 1 ns/op\n", []string{"a:", "a:\"\"", "\"a:\" name:X", "name:X", "a: a:1", "a: a<b", "absent:", "upload:", "a:1"}); err != nil {
		return err
	}
	// Labels.Equal (repaired by hooks/fix_c19_labels_equal.diff): a missing key read as "",
	// so {name:X, a:""} "equalled" {name:X, b:y} and the second result was indexed
	// under the first one's name labels
	for _, body := range []string{
		"BenchmarkX/a= 1 ns/op\nBenchmarkX/b=y 1 ns/op\n",
		"BenchmarkX/b=y 1 ns/op\nBenchmarkX/a= 1 ns/op\n",
		"BenchmarkX/a= 1 ns/op\nBenchmarkX/b=y 1 ns/op\nBenchmarkX/b=y 2 ns/op\nBenchmarkX/a= 2 ns/op\n",
	} {
		if err := one(body, []string{"", "b:y", "a<z", "name:X", "b>x", "name:X b:y"}); err != nil {
			return err
		}
	}
	// finding: 41 distinct six-label records, then one benchmark run twice: the
	// flush forced by the 990-argument limit falls on the first of the two, which
	// are stored as two records (the input tag is set by c19HistoryX's simulation).
	// Control: 40 distinct records, then the pair.
	for _, k := range []int{41, 40} {
		var sb strings.Builder
		for i := 0; i < k; i++ {
			fmt.Fprintf(&sb, "BenchmarkR%d 1 2 ns/op\n", i)
		}
		sb.WriteString("BenchmarkRun 1 2 ns/op\nBenchmarkRun 1 3 ns/op\n")
		in := c19HistIn{Kind: "history", Uploads: []c19Upload{{User: "user", Files: []c19File{{"a.txt", sb.String()}}}}}
		for _, q := range []string{"", "name:Run", "upload>1", "name:R7", "by:user name>Ru"} {
			in.Queries = append(in.Queries, c19Query{q, 0})
		}
		if err := c19History(o, r, in, 0, nil); err != nil {
			return err
		}
	}
	return nil
}

// ---------- histories of many uploads on one day: listings with query and limit ----------

// genC19Many: 11-14 tiny uploads (IDs .10, .11, ... sort below .9 as strings)
// and listings with limits 1, 3, 5 with and without queries that most uploads
// match: the listing is the limit NEWEST matching uploads, newest first.
func genC19Many(o *hx.Out, r *hx.Rng, tier string) error {
	n := 6
	if tier == "thorough" {
		n = 60
	}
	for i := 0; i < n; i++ {
		in := c19HistIn{Kind: "history"}
		for j := r.Range(11, 14); j > 0; j-- {
			var sb strings.Builder
			sb.WriteString("goos: " + r.Pick([]string{"linux", "linux", "linux", "linux", "darwin"}) + "\n")
			if r.Chance(0.75) {
				sb.WriteString("pkg: a\n")
			}
			switch {
			case r.Chance(0.06):
				// refused (no benchmark line): uses an ID up, leaves a gap
			case r.Chance(0.3):
				sb.WriteString("BenchmarkFoo 1 2 ns/op\nBenchmarkBar-8 1 3 ns/op\n")
			default:
				sb.WriteString("BenchmarkFoo 1 2 ns/op\n")
			}
			in.Uploads = append(in.Uploads, c19Upload{User: r.Pick([]string{"", "user"}), Files: []c19File{{"a.txt", sb.String()}}})
		}
		extra := func(all []c19Res, ids []string) []c19Query {
			qs := []string{"", "goos:linux", "pkg:a", "name:Foo", "goos>a", "goos:linux pkg:a", "goos<m name:Foo"}
			if len(ids) > 0 {
				day := ids[0]
				if k := strings.IndexByte(day, '.'); k >= 0 {
					day = day[:k]
				}
				qs = append(qs, "upload>"+day, "upload<"+day+".5", "upload>"+day+".2 goos:linux", "upload>"+ids[r.Intn(len(ids))])
			}
			var out []c19Query
			for _, q := range qs {
				for _, l := range []int{1, 3, 5} {
					out = append(out, c19Query{q, l})
				}
				out = append(out, c19Query{q, []int{0, 12, -1, 2, 9, 10, 11}[r.Intn(7)]})
			}
			return out
		}
		o.Count("hist.many")
		if err := c19HistoryX(o, r, in, 6, nil, extra); err != nil {
			return err
		}
	}
	return nil
}

// ---------- label-set transitions between consecutive stored records ----------

var c19TransKeys = []string{"goos", "goarch", "pkg", "k", "cl", "note"}

// c19TransBody: a file made of blocks; each block moves the label set to a
// new one (superset / subset / same size other keys / disjoint / other values
// / unchanged) with deletion and assignment lines, then one benchmark line.
func c19TransBody(r *hx.Rng) string {
	vals := []string{"linux", "amd64", "a", "b", "1", "2", "x y"}
	cur := map[string]string{}
	present := func() (in, out []string) {
		for _, k := range c19TransKeys {
			if _, ok := cur[k]; ok {
				in = append(in, k)
			} else {
				out = append(out, k)
			}
		}
		return
	}
	take := func(l []string, n int) []string {
		l = append([]string{}, l...)
		var t []string
		for ; n > 0 && len(l) > 0; n-- {
			i := r.Intn(len(l))
			t = append(t, l[i])
			l = append(l[:i], l[i+1:]...)
		}
		return t
	}
	var sb strings.Builder
	for b := r.Range(2, 5); b > 0; b-- {
		in, out := present()
		var del, add []string
		switch kind := r.Intn(6); {
		case kind == 1 && len(in) > 0: // subset
			del = take(in, r.Range(1, 2))
		case kind == 2 && len(in) > 0 && len(out) > 0: // same size, other keys
			m := r.Range(1, min(2, min(len(in), len(out))))
			del, add = take(in, m), take(out, m)
		case kind == 3 && len(in) > 0 && len(out) > 0: // disjoint
			del, add = in, take(out, r.Range(1, 2))
		case kind == 4 && len(in) > 0: // same keys, another value
			add = take(in, 1)
		case kind == 5: // unchanged
		default: // superset
			add = take(out, r.Range(1, 2))
		}
		var lines []string
		for _, k := range del {
			delete(cur, k)
			lines = append(lines, k+":")
		}
		for _, k := range add {
			v := r.Pick(vals)
			for v == cur[k] {
				v = r.Pick(vals)
			}
			cur[k] = v
			lines = append(lines, k+": "+v)
		}
		if r.Bool() {
			for i, j := 0, len(lines)-1; i < j; i, j = i+1, j-1 {
				lines[i], lines[j] = lines[j], lines[i]
			}
		}
		for _, l := range lines {
			sb.WriteString(l + "\n")
		}
		sb.WriteString("Benchmark" + r.Pick([]string{"Foo", "Bar-8", "Foo/q=v", "Baz"}) + " 1 2 ns/op\n")
	}
	return sb.String()
}

func c19TransQueries(r *hx.Rng) func(all []c19Res, ids []string) []c19Query {
	return func(all []c19Res, ids []string) []c19Query {
		var out []c19Query
		for _, id := range ids {
			// every record of one upload in one response
			out = append(out, c19Query{"upload:" + id, []int{0, 1, -1}[r.Intn(3)]})
		}
		if len(ids) > 0 {
			out = append(out, c19Query{"upload>" + ids[0][:strings.IndexByte(ids[0]+".", '.')], 0})
		}
		for _, q := range []string{"name:Foo", "name>A", "goos>", "gomaxprocs:8"} {
			out = append(out, c19Query{q, []int{0, 2}[r.Intn(2)]})
		}
		return out
	}
}

func genC19Trans(o *hx.Out, r *hx.Rng, tier string) error {
	n := 24
	if tier == "thorough" {
		n = 300
	}
	for i := 0; i < n; i++ {
		in := c19HistIn{Kind: "history"}
		for j := r.Range(1, 3); j > 0; j-- {
			u := c19Upload{User: r.Pick([]string{"", "user"})}
			for k := r.Range(1, 3); k > 0; k-- {
				u.Files = append(u.Files, c19File{r.Pick([]string{"", "a.txt", "b.txt"}), c19TransBody(r)})
			}
			in.Uploads = append(in.Uploads, u)
		}
		o.Count("hist.trans")
		if err := c19HistoryX(o, r, in, 6, nil, c19TransQueries(r)); err != nil {
			return err
		}
		// the same files through the Reader / Printer / Reader alone
		for _, u := range in.Uploads {
			for _, f := range u.Files {
				if err := c19Fmt(o, nil, false, f.Body); err != nil {
					return err
				}
			}
		}
	}
	// fixed witnesses
	for _, fs := range [][]c19File{
		{{"a.txt", "goos: linux\nBenchmarkFoo 1 2 ns/op\n"}, {"b.txt", "goarch: amd64\nBenchmarkFoo 1 2 ns/op\n"}},
		{{"a.txt", "a: 1\nb: 2\nBenchmarkX 1 ns/op\na:\nc: 3\nBenchmarkY 1 ns/op\n"}},
		{{"a.txt", "a: 1\nb: 2\nBenchmarkX 1 ns/op\nb:\nBenchmarkY 1 ns/op\nb: 2\nBenchmarkZ 1 ns/op\n"}},
		{{"a.txt", "goos: linux\nBenchmarkFoo 1 2 ns/op\n"}, {"b.txt", "BenchmarkFoo 1 2 ns/op\n"}, {"c.txt", "goos: linux\nBenchmarkFoo 1 2 ns/op\n"}},
	} {
		in := c19HistIn{Kind: "history", Uploads: []c19Upload{{User: "user", Files: fs}}}
		if err := c19HistoryX(o, r, in, 0, nil, c19TransQueries(r)); err != nil {
			return err
		}
	}
	return nil
}

// ---------- non-ASCII label values found by bare query words ----------

func genC19Uni(o *hx.Out, r *hx.Rng, tier string) error {
	n := 12
	if tier == "thorough" {
		n = 150
	}
	keys := []string{"note", "k", "goos"}
	vals := append([]string{"linux", "voil", "a"}, c19UniVals...)
	extra := func(all []c19Res, ids []string) []c19Query {
		// every stored file label as a bare equality word, as the front end writes it
		seen := map[string]bool{}
		var out []c19Query
		for _, x := range all {
			for _, k := range keys {
				v, ok := x.Labels[k]
				if !ok || seen[k+":"+v] {
					continue
				}
				seen[k+":"+v] = true
				w := aapp.VerifAddToQuery("", k+":"+v)
				w = strings.TrimSuffix(w, " | ")
				out = append(out, c19Query{w, []int{0, 1}[r.Intn(2)]})
			}
		}
		return out
	}
	for i := 0; i < n; i++ {
		in := c19HistIn{Kind: "history"}
		for j := r.Range(1, 3); j > 0; j-- {
			u := c19Upload{User: r.Pick([]string{"", "user"})}
			for k := r.Range(1, 2); k > 0; k-- {
				var sb strings.Builder
				for l := r.Range(1, 4); l > 0; l-- {
					if r.Chance(0.85) {
						sb.WriteString(r.Pick(keys) + ": " + r.Pick(vals) + "\n")
					}
					sb.WriteString("Benchmark" + r.Pick([]string{"Foo", "Bar-8", "Baz"}) + " 1 2 ns/op\n")
				}
				u.Files = append(u.Files, c19File{"a.txt", sb.String()})
			}
			in.Uploads = append(in.Uploads, u)
		}
		o.Count("hist.uni")
		if err := c19HistoryX(o, r, in, 15, nil, extra); err != nil {
			return err
		}
	}
	in := c19HistIn{Kind: "history", Uploads: []c19Upload{{User: "user", Files: []c19File{
		{"a.txt", "note: voilà\nBenchmarkX 1 ns/op\nnote: Å\nBenchmarkY 1 ns/op\nnote: 全\nBenchmarkZ 1 ns/op\nnote: a\u00a0b\nBenchmarkW 1 ns/op\n"}}}}}
	for _, q := range []string{"note:voilà", "note:Å", "note:全", "note:a\u00a0b", "note:voil", "note>voil note<voilb", "note:voilà name:X", "name:X note:voilà"} {
		in.Queries = append(in.Queries, c19Query{q, 0})
	}
	return c19HistoryX(o, r, in, 0, nil, nil)
}

func genC19(o *hx.Out, r *hx.Rng, tier string, replay string) error {
	log.SetOutput(io.Discard)
	o.Rule = "three streams: (words) texts over {a b space tab quote backslash | v s : é < k}, exhaustive up to a length bound over 5 symbols, through SplitWords / addToQuery / parseQueryString; (fmt) generated benchmark files (label set/delete, blank, hostile lines, CRLF) through the legacy Reader (with and without AddLabels), the Printer and the Reader again; (history) 1-6 uploads of 1-3 files through storage.Client into an in-process storage/app server on in-memory sqlite, then 20-60 generated queries (equality/range, present/absent keys, several terms per key, contradictory, redundant, quoted values, malformed words, key upload) each through db.DB.Query, storage.Client.Query, db.DB.ListUploads and storage.Client.ListUploads with a limit; (words, non-ASCII) texts and front-end values with à Å 全 U+00A0 U+2003 U+0085 (UTF-8 bytes 0x85 / 0xA0), exhaustive to length 3 over {a space à Å U+00A0}; (many) 11-14 tiny uploads on one day, listings with limits 1/3/5 and others, with and without queries most uploads match; (transitions) files built from label-set transitions (superset, subset, same size other keys, disjoint, value change) read back per upload in one HTTP response, and through Reader/Printer/Reader; (non-ASCII values) stored label values with those symbols searched by the bare word the front end builds; (flush boundary) uploads of distinct records whose LAST record is the one the database layer's 990-argument (248-label) flush falls into, or falls in front of, or a neighbour of it (first/second/third flush; 4-9 labels per record: with/without user, file name, file labels, gomaxprocs and sub-name labels; one or two files; with the plain six labels that is 42 records; 42, 41, 43 and 83 six-label records are always generated), and uploads whose last record alone has more than 247 (or ~500) labels; every label of that final record is searched as key:value alone, with name:, and with upload:ID through Query and ListUploads; (runs at the flush boundary) the same kind of uploads in which the record the flush falls on is the FIRST of a run of 2-4 results with identical labels (different values), or the run starts one record later / one record earlier (controls), 0-3 distinct records (and sometimes a second run) after it, and runs behind a first result that alone has more than 247 labels; always: 41 distinct six-label records then one benchmark twice, and 40 then the pair; every accepted upload of every history stream is replayed through a simulation of InsertRecord's coalescing and insertLabel's counter, and an input in which a forced flush falls on the first result of a run that has a follower is tagged C19_record_split_at_flush; the other known-finding tags are likewise decided from the history itself (C19_trailing_cr: an accepted upload holds a result whose line or label value ends in CR; C19_empty_name_label_value: a query term key> on a key some stored result carries with an empty value; C19_empty_equality_refused: a query term key: with an empty value), and a tagged history is judged by RunC19.known_h (the property with exactly the recorded deviations allowed, bit 3 of the code). non-trivial = at least one word / result / stored result"
	genC19Words(o, r.Split(), tier)
	if err := genC19Fmt(o, r.Split(), tier); err != nil {
		return err
	}
	if err := genC19Hist(o, r.Split(), tier); err != nil {
		return err
	}
	if err := genC19Fixed(o, r.Split()); err != nil {
		return err
	}
	if err := genC19Many(o, r.Split(), tier); err != nil {
		return err
	}
	if err := genC19Trans(o, r.Split(), tier); err != nil {
		return err
	}
	if err := genC19Uni(o, r.Split(), tier); err != nil {
		return err
	}
	// last: a new stream takes its generator from a new split, so the earlier streams keep their inputs
	if err := genC19Boundary(o, r.Split(), tier); err != nil {
		return err
	}
	return genC19Runs(o, r.Split(), tier)
}
