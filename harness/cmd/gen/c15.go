package main

import (
	"encoding/json"
	"fmt"
	"os"
	"os/exec"
	"path/filepath"
	"sort"
	"strings"

	"verifharness/internal/hx"
)

func init() { gens["C15"] = genC15 }

// permuteBenchLines shuffles each maximal run of benchmark lines.
func permuteBenchLines(r *hx.Rng, content string) string {
	lines := strings.Split(content, "\n")
	i := 0
	for i < len(lines) {
		if !strings.HasPrefix(lines[i], "Benchmark") {
			i++
			continue
		}
		j := i
		for j < len(lines) && strings.HasPrefix(lines[j], "Benchmark") {
			j++
		}
		run := lines[i:j]
		for k := len(run) - 1; k > 0; k-- {
			m := r.Intn(k + 1)
			run[k], run[m] = run[m], run[k]
		}
		i = j
	}
	return strings.Join(lines, "\n")
}

// cellMap renders every cell of a run as (table|row|col label, sorted sample, summary, comparison).
func cellMap(run *bsRun) []hx.Sx {
	type ent struct {
		key string
		sx  hx.Sx
	}
	var ents []ent
	for ti, t := range run.tables.Tables {
		tk := run.tables.Keys[ti]
		for k, cell := range t.Cells {
			key := tk.String() + " | " + k.Row.String() + " | " + k.Col.String()
			cmp := hx.L()
			if cell.Baseline != nil {
				cmp = hx.L(hx.F64(cell.Comparison.P), hx.I(cell.Comparison.N1), hx.I(cell.Comparison.N2), bsF64s(cell.Baseline.Sample.Values))
			}
			var warns []string
			for _, w := range cell.Sample.Warnings {
				warns = append(warns, w.Error())
			}
			sort.Strings(warns)
			ents = append(ents, ent{key, hx.L(hx.S(key), bsF64s(cell.Sample.Values), hx.F64(cell.Summary.Center),
				hx.F64(cell.Summary.Lo), hx.F64(cell.Summary.Hi), cmp, hx.SList(warns))})
		}
	}
	sort.Slice(ents, func(i, j int) bool { return ents[i].key < ents[j].key })
	out := make([]hx.Sx, len(ents))
	for i, e := range ents {
		out[i] = e.sx
	}
	return out
}

func genC15(o *hx.Out, r *hx.Rng, tier string, replay string) error {
	o.Rule = "perm (tag 9, c15perm.go): every input is run as given (A) and with the benchmark lines of every configuration block permuted (B: shuffled / reversed / last line first); recorded per run: the requested order of every field of the table, row and column key, the stream of projected measurements in input order, tables / rows / columns in output order, every cell; judged: arrangement = the one stream and orders determine (first observation, alpha, fixed list, num), each cell compared with the cell of its row in the first column, A and B the same cells with the same contents INCLUDING the comparison; tag C15_perm_changes_first_column iff a simulation of the documented ordering on both streams gives some cell another baseline column (known finding C15_perm_changes_baseline). Two input sources: the C14 generator (class bs) and own files with columns keyed by the sub-name key /v (class perm: 1-2 files, 1-2 blocks with the same configuration keys, 1-3 benchmarks x 2-4 values of /v, optional /n, 1-2 units; each file set under -col /v AND -col /v@alpha AND /v@(fixed list) / @num; also .file, .file,/v, rows by /v). Each run >= 8 times through the binary (GOMAXPROCS 1,2,3,16 x text,csv), in process twice, the first ones under -race. nan-inf (tag 8): 1-3 files, 2-4 benchmarks (shared by all files: +Inf / -Inf among the values; in one file only: NaN, +Inf, -Inf; spellings NaN nan Inf inf +Inf -Inf Infinity), 1-2 units, samples of 1..32 values, benchmarks interleaved; five variants per input with the lines of every benchmark reordered within the positions it occupies (as generated, special values first, last, in the middle, shuffled); every variant in process (cells with the values in order of arrival) and through the binary in text and csv at GOMAXPROCS 1 and 4, the first ones under -race: each cell's sample must be the NaN-first ascending arrangement of its measurements, cells and bytes identical for all variants. vary-warnings: tables of 2-4 columns x 24-40 rows where -row .name merges sub-benchmarks differing in /format, /n (and the note: file key under -table goos; columns by file or by -col /v), so that \"benchmarks vary in ...\" arises in the baseline cell AND other cells of the same row (same / different field lists), only in the baseline, only elsewhere, nowhere; each run repeatedly at GOMAXPROCS 1,2,4,16 in text and csv (stdout and the csv warning stream compared byte for byte), twice more in process and under the -race build; the first run's text footnotes and csv warnings are compared with the rendering model of the tables in which every cell carries the warning derived from the residue keys of its OWN measurements. big-table (tag 10, c15big.go): tables of 1024-1183 rows x 2-3 columns (files, or -col /v in one file), 2-3 samples per cell, values over nine orders of magnitude with all digits, sometimes 1% of the cells missing; real binary at GOMAXPROCS 1,2,4,16 in csv (repeated: the geomean row at full precision) and text, -race build in csv at 4 and 16; stdout and stderr of EVERY run are in the case and compared by the evaluator (same bytes per format, same csv warning stream, no DATA RACE), the csv records compared with the rendering model of the tables built in process. big-sample (tag 8): 2-3 files x 1-2 benchmarks x 1-2 units, every cell 256..600 values arriving shuffled / descending / saw-tooth (with and without ties), distributions nearly coinciding; variants: as given, the same again, lines reversed, shuffled; each in process under another GOMAXPROCS (p-values bit for bit) and through the binary in text and csv at GOMAXPROCS 1,2,4,16, the first two through the -race build at 4 and 16. benchstat inputs from the C14 generator; each is run through the real binary several times across GOMAXPROCS in {1,2,3,16} in text and csv (bytes compared), a subset under a -race build, twice in process (fresh map seeds),. non-trivial = at least two cells; distinct by input"
	exe, err := buildBenchstat(false)
	if err != nil {
		return err
	}
	raceExe, err := buildBenchstat(true)
	if err != nil {
		return err
	}
	n, reps, nrace := 40, 2, 20
	if tier == "thorough" {
		n, reps, nrace = 300, 8, 100
	}
	dir, err := os.MkdirTemp(os.Getenv("VERIF_WORK"), "c15in")
	if err != nil {
		return err
	}
	defer os.RemoveAll(dir)
	// in-process sequence: the same invocations again, all in ONE process (tagged test in cmd/benchstat)
	type inprocRun struct {
		args     []string
		want     string
		input    bsInput
		hasAlpha bool
	}
	var seq []inprocRun
	for i := 0; i < n; i++ {
		rr := r.Split()
		in, fl := genBsInput(rr)
		if err := writeBsFiles(dir, in); err != nil {
			return err
		}
		// the input as given (A) and with the benchmark lines of every configuration block permuted (B):
		// repeated runs of the binary, the -race build, in process; case kind 9 (c15perm.go)
		in2 := c15PermuteInput(rr, in, 0)
		_, ok, err := c15PermCase(o, c15Bins{exe: exe, raceExe: raceExe, dir: dir, reps: reps, race: i < nrace}, in, in2, fl, "bs", nil)
		if err != nil {
			return err
		}
		if !ok {
			continue
		}
		// remember this invocation for the in-process sequence (files get unique names there)
		{
			sub := filepath.Join(dir, fmt.Sprintf("seq%d", i))
			os.MkdirAll(sub, 0o755)
			writeBsFiles(sub, in)
			for _, format := range []string{"text", "csv"} {
				args := append([]string{}, in.Flags...)
				args = append(args, "-format", format)
				for _, f := range in.Files {
					p := filepath.Join(sub, f.Name)
					if f.Label != "" {
						p = f.Label + "=" + p
					}
					args = append(args, p)
				}
				want, _, _ := runBinary(exe, sub, in, format, nil)
				ha := false
				for _, a := range in.Flags {
					ha = ha || a == "-alpha" || a == "-confidence"
				}
				seq = append(seq, inprocRun{args: args, want: want, input: in, hasAlpha: ha})
			}
		}
	}
	// columns keyed by a sub-name key with and without an explicit order, lines permuted (c15perm.go)
	if err := c15GenPermCases(o, r.Split(), tier, exe, raceExe); err != nil {
		return err
	}
	// over-aggregation warnings in several cells of one row, many rows (c15warn.go)
	if err := c15GenVaryCases(o, r.Split(), tier, exe, raceExe); err != nil {
		return err
	}
	// NaN / +Inf / -Inf measurements in samples of at most 32 values, lines permuted (c15nan.go)
	if err := c15GenNaNCases(o, r.Split(), tier, exe, raceExe); err != nil {
		return err
	}
	// tables of >= 1024 rows across GOMAXPROCS in csv; cells of 256..600 unsorted values (c15big.go)
	if err := c15GenBigCases(o, r.Split(), tier, exe, raceExe); err != nil {
		return err
	}
	// all invocations once more inside one process: forwards, then backwards, so that every
	// invocation runs both after and before invocations with other flags
	if len(seq) > 0 {
		testExe := filepath.Join(os.Getenv("VERIF_WORK"), "benchstat.test")
		cmd := exec.Command("go", "test", "-c", "-tags", "verif", "-o", testExe, "golang.org/x/perf/cmd/benchstat")
		cmd.Dir = harnessDir()
		if out, err := cmd.CombinedOutput(); err != nil {
			return fmt.Errorf("building benchstat test binary: %v\n%s", err, out)
		}
		order := make([]int, 0, 2*len(seq))
		for i := range seq {
			order = append(order, i)
		}
		for i := len(seq) - 1; i >= 0; i-- {
			order = append(order, i)
		}
		var script [][]string
		for _, i := range order {
			script = append(script, seq[i].args)
		}
		sp := filepath.Join(dir, "inproc_script.json")
		op := filepath.Join(dir, "inproc_out.json")
		js, _ := json.Marshal(script)
		os.WriteFile(sp, js, 0o644)
		run := exec.Command(testExe, "-test.run", "^TestVerifInproc$", "-test.count=1")
		run.Env = append(os.Environ(), "VERIF_INPROC_SCRIPT="+sp, "VERIF_INPROC_OUT="+op)
		run.Dir = dir
		rout, rerr := run.CombinedOutput()
		var results []struct {
			Stdout string `json:"stdout"`
			Stderr string `json:"stderr"`
			Err    string `json:"err"`
		}
		if data, err := os.ReadFile(op); err == nil {
			json.Unmarshal(data, &results)
		}
		if rerr != nil || len(results) != len(order) {
			return fmt.Errorf("in-process benchstat run failed: %v\n%s", rerr, rout)
		}
		for k, i := range order {
			same := results[k].Stdout == seq[i].want
			o.Count(fmt.Sprintf("inproc same=%v", same))
			pos := "forward"
			if k >= len(seq) {
				pos = "backward"
			}
			input := map[string]interface{}{"kind": "in-process sequence", "position": k, "pass": pos, "args": seq[i].args,
				"input": seq[i].input, "got": results[k].Stdout, "want": seq[i].want}
			if same {
				input["got"], input["want"] = "", ""
			}
			// (identical, race_ok, (), (), runs): two runs are compared, the stand-alone one and this one
			o.Add(hx.L(hx.Bool(same), hx.Bool(true), hx.List(nil), hx.List(nil), hx.I(2)), input,
				fmt.Sprint("inproc", k), true)
		}
	}
	return nil
}
