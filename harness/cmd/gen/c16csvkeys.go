package main

// C16 gap class: -format csv with TABLE-KEY values that CSV has to quote - file
// configuration values (note: a,b / note: say "hi") and file labels holding a
// comma, a double quote, or blanks at their ends (a trailing U+0020 / tab, a
// leading U+00A0 / U+3000; labels also with leading U+0020).  Whole runs (kind
// 5): the text's and the CSV's key lines must name the same key and value as
// the table key the in-process Tables report; the CSV must be CSV.  An output
// that encoding/csv cannot read back is recorded as kind 7 (raw bytes and the
// reader's message) - prop_ok rejects it - instead of stopping the generator.

import (
	"bytes"
	"encoding/csv"
	"fmt"
	"strings"

	"verifharness/internal/hx"
)

var c16HostileVals = []struct{ v, class string }{
	{"a,b", "comma"}, {"x, y", "comma"}, {",", "comma"}, {"a,", "comma"}, {",a", "comma"}, {"1,000", "comma"}, {"a,b,c", "comma"},
	{`say "hi"`, "quote"}, {`"`, "quote"}, {`""`, "quote"}, {`"quoted"`, "quote"}, {`a"b`, "quote"}, {`5" disk`, "quote"},
	{`"a,b"`, "comma+quote"}, {`he said "a, b"`, "comma+quote"}, {`,"`, "comma+quote"}, {`",`, "comma+quote"},
	{"a ", "trailing-blank"}, {"a\t", "trailing-blank"}, {"x y  ", "trailing-blank"}, {"a,b ", "comma+trailing-blank"},
	{"\u00a0x", "leading-blank"}, {"\u3000x", "leading-blank"}, {"\u00a0a,b\u00a0", "comma+both-blanks"}, {"\u2003\"x\" ", "quote+both-blanks"},
	{"plain", "control"}, {"a;b", "control"}, {"a'b", "control"}, {"k: v", "control"}, {"", "control"},
}

// labels (label=path): ASCII blanks at either end survive here
var c16HostileLabels = []struct{ v, class string }{
	{" x", "leading-blank"}, {"  a,b ", "comma+both-blanks"}, {"\tx", "leading-blank"}, {"x ", "trailing-blank"},
	{`"l"`, "quote"}, {"l,m", "comma"}, {` "a", b `, "comma+quote+both-blanks"}, {"old", "control"}, {"new,", "comma"},
}

// c16CSVWellFormed: encoding/csv reads the whole output back, and so does the
// per-line reading the cases are built from
func c16CSVWellFormed(b string) error {
	rd := csv.NewReader(strings.NewReader(b))
	rd.FieldsPerRecord = -1
	if _, err := rd.ReadAll(); err != nil {
		return err
	}
	_, err := c16CSVRows(b)
	return err
}

func c16RunCsvKeys(o *hx.Out, dir string, in bsInput, fl bsFlags, classes []string) error {
	if err := writeBsFiles(dir, in); err != nil {
		return err
	}
	run := runBenchstatInProc(dir, in, fl)
	if run.err != nil {
		o.Count("csvkeys:pipeline-error")
		return nil
	}
	if len(run.tables.Tables) == 0 {
		o.Count("csvkeys:no-table")
		return nil
	}
	o.Count("csvkeys:runs")
	for _, c := range classes {
		o.Count("csvkeys:value-with-" + c)
	}
	var cbuf, wbuf bytes.Buffer
	if err := run.tables.ToCSV(&cbuf, &wbuf); err != nil {
		return err
	}
	if err := c16CSVWellFormed(cbuf.String()); err != nil {
		o.Count("csvkeys:csv-malformed")
		o.Add(hx.L(hx.I(7), hx.S(cbuf.String()), hx.S(err.Error())), c16TC{Kind: "run/csv-keys", Input: in}, "run:"+fmt.Sprint(in), true)
		return nil
	}
	return c16AddRun(o, run.tables, in, "csv-keys")
}

func c16GenCsvKeys(o *hx.Out, r *hx.Rng, tier string, dir string) error {
	fl0 := bsFlags{alpha: -1, confidence: -1}
	// witnesses: the two values of the class description, alone and in sequence
	for _, vals := range [][]string{{"a,b"}, {`say "hi"`}, {"a,b", `say "hi"`, "a "}, {"\u00a0x", "plain", ","}} {
		var b strings.Builder
		for i, v := range vals {
			fmt.Fprintf(&b, "note: %s\nBenchmarkA 1 %d ns/op\nBenchmarkA 1 %d ns/op\nBenchmarkB 1 %d ns/op\nBenchmarkB 1 %d ns/op\n", v, 10+i, 11+i, 20+i, 21+i)
		}
		in := bsInput{Files: []bsFile{{Name: "f0.txt", Content: b.String()}}, Flags: fl0.args()}
		if err := c16RunCsvKeys(o, dir, in, fl0, []string{"witness"}); err != nil {
			return err
		}
	}
	n := 120
	if tier == "thorough" {
		n = 2500
	}
	for i := 0; i < n; i++ {
		var in bsInput
		fl := fl0
		var classes []string
		nf := r.Range(1, 2)
		nb := r.Range(2, 3)
		units := c16PickUnits(r, r.Range(1, 2))
		byLabel := r.Chance(0.2)
		if byLabel {
			// the file label is the table key; columns by goos
			nf = r.Range(2, 3)
			fl.table, fl.col = ".file", "goos"
		} else if r.Chance(0.3) {
			fl.table = "note"
			if r.Chance(0.5) {
				fl.table = "note,tag"
			}
		}
		perm := make([]int, len(c16HostileLabels))
		for k := range perm {
			perm[k] = k
		}
		for k := len(perm) - 1; k > 0; k-- {
			j := r.Intn(k + 1)
			perm[k], perm[j] = perm[j], perm[k]
		}
		for f := 0; f < nf; f++ {
			var b strings.Builder
			file := bsFile{Name: fmt.Sprintf("f%d.txt", f)}
			if byLabel {
				l := c16HostileLabels[perm[f]]
				file.Label = l.v
				classes = append(classes, l.class)
				for _, goos := range []string{"linux", "darwin"} {
					fmt.Fprintf(&b, "goos: %s\n", goos)
					for bi := 0; bi < nb; bi++ {
						c16Samples(&b, r, fmt.Sprintf("B%d", bi), r.Range(2, 3), float64(100*(bi+1)+f), units, false)
					}
				}
			} else {
				nblk := r.Range(1, 3)
				for k := 0; k < nblk; k++ {
					h := c16HostileVals[r.Intn(len(c16HostileVals))]
					classes = append(classes, h.class)
					fmt.Fprintf(&b, "note: %s\n", h.v)
					if r.Chance(0.3) {
						h2 := c16HostileVals[r.Intn(len(c16HostileVals))]
						classes = append(classes, h2.class)
						fmt.Fprintf(&b, "tag: %s\n", h2.v)
					}
					for bi := 0; bi < nb; bi++ {
						if r.Chance(0.85) || bi == 0 {
							c16Samples(&b, r, fmt.Sprintf("B%d", bi), r.Range(2, 4), float64(100*(bi+1)+10*k+f), units, false)
						}
					}
				}
			}
			file.Content = b.String()
			in.Files = append(in.Files, file)
		}
		in.Flags = fl.args()
		if err := c16RunCsvKeys(o, dir, in, fl, classes); err != nil {
			return err
		}
	}
	return nil
}
