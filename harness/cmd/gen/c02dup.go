package main

// C02, files cases: the SAME file named at least twice as a plain path AND at
// least once as label=path (`a.txt a.txt ref=a.txt`), in every order, with
// other files (plain, duplicated, labelled) in between.  What the property
// says of them: a labelled input keeps its label whatever else names the same
// path; the unlabelled duplicates get path#0, path#1, ... counted among the
// unlabelled occurrences only.  Every file holds at least one result, so that
// every input's .file is observed.  Half of the worlds are also read with
// AllowStdin (the way cmd/benchstat constructs its Files).

import (
	"fmt"
	"strings"

	"verifharness/internal/hx"
)

// c02Perms3: all distinct orders of a multiset given as a list (duplicates collapse).
func c02MultisetPerms(items []string) [][]string {
	var out [][]string
	seen := map[string]bool{}
	for _, p := range c06Perms(len(items)) {
		var l []string
		for _, i := range p {
			l = append(l, items[i])
		}
		k := strings.Join(l, "\x00")
		if !seen[k] {
			seen[k] = true
			out = append(out, l)
		}
	}
	return out
}

func c02DupShape(paths []string, p0 string) string {
	// where the labelled occurrences of p0 stand relative to its plain ones
	first, last, nl, np := -1, -1, 0, 0
	var lab []int
	for i, p := range paths {
		switch {
		case p == p0:
			if first < 0 {
				first = i
			}
			last = i
			np++
		case strings.HasSuffix(p, "="+p0):
			lab = append(lab, i)
			nl++
		}
	}
	pos := map[string]bool{}
	for _, i := range lab {
		switch {
		case i < first:
			pos["before"] = true
		case i > last:
			pos["after"] = true
		default:
			pos["between"] = true
		}
	}
	var ks []string
	for _, k := range []string{"before", "between", "after"} {
		if pos[k] {
			ks = append(ks, k)
		}
	}
	return fmt.Sprintf("label-%s-the-plain-ones other-inputs=%v", strings.Join(ks, "+"), np+nl < len(paths))
}

func c02DupOne(o *hx.Out, r *hx.Rng, dir string, names []string, p0 string, paths []string, allow bool, how string) error {
	var contents []string
	for i := range names {
		// at least one result per file: its .file is what the case is about
		t := fmt.Sprintf("BenchmarkK%d 1 %d ns/op\n", i, i+1)
		switch r.Intn(3) {
		case 0:
			t += c02Text(r, o, r.Intn(6))
		case 1:
			t = c02Text(r, o, r.Intn(4)) + "\n" + t
		}
		contents = append(contents, t)
	}
	o.Count("class:files:same-path-twice-plain-and-labelled (" + how + ")")
	if allow {
		o.Count("files:dup+label: " + c02DupShape(paths, p0))
	} else {
		o.Count("files:dup+label: labels not allowed")
	}
	if err := c02Files(o, dir, names, contents, paths, allow, "files", "dup-plain-and-labelled"); err != nil {
		return err
	}
	if r.Chance(0.5) {
		// as cmd/benchstat reads its arguments: AllowStdin set as well
		stdin := c02Text(r, o, r.Intn(5))
		sp := append([]string{}, paths...)
		if r.Chance(0.3) {
			k := r.Intn(len(sp) + 1)
			sp = append(sp[:k], append([]string{"-"}, sp[k:]...)...)
		}
		o.Count("class:files:same-path-twice-plain-and-labelled,allow-stdin")
		return c02FilesStdin(o, dir, names, contents, sp, allow, &stdin, "files", "stdin", "dup-plain-and-labelled")
	}
	return nil
}

func c02DupLabelled(o *hx.Out, r *hx.Rng, dir string, tier string) error {
	o.Rule += "; dup-plain-and-labelled (own stream): benchfmt.Files (AllowLabels, half of them with AllowStdin too) on argument lists that name the SAME file 2-3 times as a plain path and 1-2 times as label=path (labels ref / L / new / empty / the path itself / path#0 / path#1), shuffled into every order, with 0-2 other inputs (another file plain, twice, labelled, labelled with the first file's name, missing) in between; the minimal shapes (a a ref=a; + b; + a; + new=a; + b b; =d/a; b#0=b) in EVERY distinct order; every file holds a result, so every input's .file is observed"
	names := []string{"a.txt", "b", "d/a", "y"}
	// directed: the minimal shapes in EVERY order
	for _, ms := range [][]string{
		{"a.txt", "a.txt", "ref=a.txt"},
		{"a.txt", "a.txt", "ref=a.txt", "b"},
		{"a.txt", "a.txt", "a.txt", "ref=a.txt"},
		{"a.txt", "a.txt", "ref=a.txt", "new=a.txt"},
		{"a.txt", "a.txt", "ref=a.txt", "b", "b"},
		{"d/a", "d/a", "=d/a", "L=b"},
		{"b", "b", "b#0=b", "y"},
	} {
		for _, paths := range c02MultisetPerms(ms) {
			p0 := ms[0]
			if err := c02DupOne(o, r, dir, names, p0, paths, true, "directed: every order"); err != nil {
				return err
			}
		}
	}
	n := 80
	if tier == "thorough" {
		n = 2500
	}
	for i := 0; i < n; i++ {
		p0 := names[r.Intn(3)]
		var paths []string
		for k := r.Range(2, 3); k > 0; k-- {
			paths = append(paths, p0)
		}
		labels := []string{"ref", "L", "new", "", p0, p0 + "#0", p0 + "#1", "other", "ref"}
		for k := 1 + r.Intn(2); k > 0; k-- {
			paths = append(paths, labels[r.Intn(len(labels))]+"="+p0)
		}
		// other inputs: another file, plain (once or twice) or labelled, or a missing one (rare)
		for k := r.Intn(3); k > 0; k-- {
			q := names[r.Intn(len(names))]
			for q == p0 {
				q = names[r.Intn(len(names))]
			}
			switch r.Intn(8) {
			case 0, 1:
				paths = append(paths, q, q)
			case 2:
				paths = append(paths, labels[r.Intn(3)]+"="+q)
			case 3:
				paths = append(paths, p0+"="+q) // another file labelled with p0's name
			case 4:
				if r.Chance(0.3) {
					paths = append(paths, "missing")
					break
				}
				fallthrough
			default:
				paths = append(paths, q)
			}
		}
		// every order: Fisher-Yates from the case's own choices
		for j := len(paths) - 1; j > 0; j-- {
			k := r.Intn(j + 1)
			paths[j], paths[k] = paths[k], paths[j]
		}
		allow := !r.Chance(0.08)
		if err := c02DupOne(o, r, dir, names, p0, paths, allow, "random"); err != nil {
			return err
		}
	}
	return nil
}
