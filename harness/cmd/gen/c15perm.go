package main

// C15, case kind 9 (coq/Corr/RunC15.v): one benchstat input run as given (A) and
// with the benchmark lines of every configuration block permuted (B).
//
// Recorded per run, all from the benchfmt results BEFORE Builder.Add and from
// the finished benchtab.Tables:
//   - the field lists of the three projections with the requested order of every
//     field (first observation / alpha / fixed list / num with the numeric value
//     of every observed string);
//   - the stream: per measurement, in input order, the values of its table, row
//     and column key;
//   - the arrangement benchstat produced: tables in output order, each with its
//     rows and columns in output order;
//   - every cell (sample, summary, comparison with its baseline sample,
//     warnings) keyed by the values of its table / row / column key.
//
// Judged (Model/ArrangeSpec.v): the arrangement of A and of B is the one the
// stream and the orders determine; A and B have the same cells with the same
// contents.  A permutation that changes which column comes first in a table
// changes the baseline and with it the comparison of the cells of that table:
// known finding C15_perm_changes_baseline, tag computed here by simulating the
// documented ordering on both streams (c15BaseMap).

import (
	"bytes"
	"fmt"
	"math"
	"os"
	"regexp"
	"sort"
	"strconv"
	"strings"

	"golang.org/x/perf/benchproc"
	pbridge "golang.org/x/perf/benchproc/verifbridge"
	bt "golang.org/x/perf/cmd/benchstat/verifbridge"
	"verifharness/internal/hx"
)

const c15TagBaseline = "C15_perm_changes_first_column"

type c15Field struct {
	name  string
	kind  int // 0 first observation, 1 alpha, 2 fixed, 3 num
	fixed []string
	sub   bool // sub-field of .config
	f     *benchproc.Field
}

// c15Fields lists the flattened fields of a projection with the order requested for each.
func c15Fields(projStr string, proj *benchproc.Projection) ([]c15Field, error) {
	pf, err := pbridge.ParseProjection(projStr)
	if err != nil {
		return nil, err
	}
	spec := map[string]c15Field{}
	for _, p := range pf {
		k := 0
		switch p.Order {
		case "first":
			k = 0
		case "alpha":
			k = 1
		case "fixed":
			k = 2
		case "num":
			k = 3
		default:
			return nil, fmt.Errorf("unknown order %q", p.Order)
		}
		spec[p.Key] = c15Field{kind: k, fixed: p.Fixed}
	}
	byPtr := map[*benchproc.Field]c15Field{}
	for _, top := range proj.Fields() {
		s := spec[top.Name] // .unit: absent = first observation
		if top.IsTuple {
			for _, sub := range top.Sub {
				byPtr[sub] = c15Field{name: sub.Name, kind: s.kind, fixed: s.fixed, sub: true, f: sub}
			}
		} else {
			byPtr[top] = c15Field{name: top.Name, kind: s.kind, fixed: s.fixed, f: top}
		}
	}
	var out []c15Field
	for _, f := range proj.FlattenedFields() {
		cf, ok := byPtr[f]
		if !ok {
			return nil, fmt.Errorf("flattened field %q not found", f.Name)
		}
		out = append(out, cf)
	}
	return out, nil
}

func c15Vals(k benchproc.Key, fs []c15Field) []string {
	out := make([]string, len(fs))
	for i, f := range fs {
		out[i] = k.Get(f.f)
	}
	return out
}

var c15NumRe = regexp.MustCompile(`([0-9.]+)([kKMGTPEZY]i?)?[bB]?`)

// c15ParseNum: the value of a string under @num (benchproc/sort.go parseNum, which C09 judges)
func c15ParseNum(x string) (float64, bool) {
	if v, err := strconv.ParseFloat(x, 64); err == nil {
		return v, true
	}
	subs := c15NumRe.FindStringSubmatch(x)
	if subs == nil {
		return 0, false
	}
	v, err := strconv.ParseFloat(subs[1], 64)
	if err != nil {
		return 0, false
	}
	exp := 0
	if len(subs[2]) > 0 {
		pre := subs[2][0]
		if pre == 'k' {
			pre = 'K'
		}
		exp = 1 + strings.IndexByte("KMGTPEZY", pre)
	}
	if strings.HasSuffix(subs[2], "i") {
		return v * math.Pow(1024, float64(exp)), true
	}
	return v * math.Pow(1000, float64(exp)), true
}

// c15Order: the documented ordering of one dimension, simulated from the stream
type c15Order struct {
	fs    []c15Field
	first []map[string]int
}

func c15NewOrder(fs []c15Field, stream [][]string) *c15Order {
	o := &c15Order{fs: fs, first: make([]map[string]int, len(fs))}
	for i := range fs {
		o.first[i] = map[string]int{}
	}
	for _, k := range stream {
		for i := range fs {
			if _, ok := o.first[i][k[i]]; !ok {
				o.first[i][k[i]] = len(o.first[i])
			}
		}
	}
	return o
}

func (o *c15Order) less(a, b []string) bool {
	for i, f := range o.fs {
		if a[i] == b[i] {
			continue
		}
		c := 0
		switch f.kind {
		case 0:
			c = o.first[i][a[i]] - o.first[i][b[i]]
		case 1:
			c = strings.Compare(a[i], b[i])
		case 2:
			ia, ib := -1, -1
			for j, w := range f.fixed {
				if w == a[i] && ia < 0 {
					ia = j
				}
				if w == b[i] && ib < 0 {
					ib = j
				}
			}
			c = ia - ib
		case 3:
			x, okx := c15ParseNum(a[i])
			y, oky := c15ParseNum(b[i])
			switch {
			case okx && oky:
				if x < y || (!math.IsNaN(x) && math.IsNaN(y)) {
					c = -1
				} else if x > y || (math.IsNaN(x) && !math.IsNaN(y)) {
					c = 1
				}
			case okx:
				c = -1
			case oky:
				c = 1
			}
		}
		if c != 0 {
			return c < 0
		}
		return a[i] < b[i]
	}
	return false
}

func c15Join(vs []string) string { return strings.Join(vs, "\x00") }

type c15Run struct {
	run        *bsRun
	ft, fr, fc []c15Field
	stream     [][3][]string // per measurement: table, row, column key values
	static     [3]bool
}

func c15Observe(run *bsRun, fl bsFlags) (*c15Run, error) {
	def := func(s, d string) string {
		if s == "" && !fl.literal {
			return d
		}
		return s
	}
	x := &c15Run{run: run, static: [3]bool{true, true, true}}
	var err error
	if x.ft, err = c15Fields(def(fl.table, ".config"), run.tableBy); err != nil {
		return nil, err
	}
	if x.fr, err = c15Fields(def(fl.row, ".fullname"), run.rowBy); err != nil {
		return nil, err
	}
	if x.fc, err = c15Fields(def(fl.col, ".file"), run.colBy); err != nil {
		return nil, err
	}
	for _, m := range run.meas {
		e := [3][]string{c15Vals(run.tkeys[m[0].(int)], x.ft), c15Vals(run.rkeys[m[1].(int)], x.fr), c15Vals(run.ckeys[m[2].(int)], x.fc)}
		x.stream = append(x.stream, e)
		// static: every sub-field of .config has a value in every key, so all fields exist from the
		// first result on and the values a field observes are those of the stream
		for d, fs := range [][]c15Field{x.ft, x.fr, x.fc} {
			for i, f := range fs {
				if f.sub && e[d][i] == "" {
					x.static[d] = false
				}
			}
		}
	}
	return x, nil
}

func (x *c15Run) dim(d int) [][]string {
	out := make([][]string, len(x.stream))
	for i, e := range x.stream {
		out[i] = e[d]
	}
	return out
}

// c15BaseMap simulates the mechanism: per cell, the column key it is compared with
// ("" = none), from the stream and the requested orders alone.
func (x *c15Run) baseMap() map[string]string {
	ord := c15NewOrder(x.fc, x.dim(2))
	firstCol := map[string][]string{}
	cells := map[string]bool{}
	for _, e := range x.stream {
		t := c15Join(e[0])
		if cur, ok := firstCol[t]; !ok || ord.less(e[2], cur) {
			firstCol[t] = e[2]
		}
		cells[t+"\x01"+c15Join(e[1])+"\x01"+c15Join(e[2])] = true
	}
	out := map[string]string{}
	for _, e := range x.stream {
		t, r, c := c15Join(e[0]), c15Join(e[1]), c15Join(e[2])
		fc := c15Join(firstCol[t])
		base := ""
		if c != fc && cells[t+"\x01"+r+"\x01"+fc] {
			base = fc
		}
		out[t+"\x01"+r+"\x01"+c] = base
		// the cell of the summary row in this column: its ratio is taken against the first column
		sbase := ""
		if c != fc {
			sbase = fc
		}
		out[t+"\x02"+c] = sbase
	}
	return out
}

func c15SameBase(a, b map[string]string) bool {
	if len(a) != len(b) {
		return false
	}
	for k, v := range a {
		if w, ok := b[k]; !ok || w != v {
			return false
		}
	}
	return true
}

func c15FieldSx(fs []c15Field, stream [][]string) hx.Sx {
	var out []hx.Sx
	for i, f := range fs {
		var num []hx.Sx
		if f.kind == 3 {
			seen := map[string]bool{}
			for _, k := range stream {
				if !seen[k[i]] {
					seen[k[i]] = true
					v, ok := c15ParseNum(k[i])
					num = append(num, hx.L(hx.S(k[i]), hx.Opt(ok, hx.F64(v))))
				}
			}
		}
		out = append(out, hx.L(hx.S(f.name), hx.I(f.kind), hx.SList(f.fixed), hx.List(num)))
	}
	return hx.List(out)
}

// sx of one run: ((static_t static_r static_c) (ft fr fc) stream tables cells sums)
func (x *c15Run) sx() hx.Sx {
	var stream []hx.Sx
	for _, e := range x.stream {
		stream = append(stream, hx.L(hx.SList(e[0]), hx.SList(e[1]), hx.SList(e[2])))
	}
	var tables []hx.Sx
	type ent struct {
		key string
		sx  hx.Sx
	}
	var ents []ent
	for ti, t := range x.run.tables.Tables {
		tv := c15Vals(x.run.tables.Keys[ti], x.ft)
		var rows, cols []hx.Sx
		for _, r := range t.Rows {
			rows = append(rows, hx.SList(c15Vals(r, x.fr)))
		}
		for _, c := range t.Cols {
			cols = append(cols, hx.SList(c15Vals(c, x.fc)))
		}
		tables = append(tables, hx.L(hx.SList(tv), hx.List(rows), hx.List(cols)))
		for k, cell := range t.Cells {
			rv, cv := c15Vals(k.Row, x.fr), c15Vals(k.Col, x.fc)
			cmp := hx.L()
			if cell.Baseline != nil {
				cmp = hx.L(hx.F64(cell.Comparison.P), hx.I(cell.Comparison.N1), hx.I(cell.Comparison.N2),
					hx.F64(cell.Comparison.Alpha), bsF64s(cell.Baseline.Sample.Values))
			}
			var warns []string
			for _, w := range cell.Sample.Warnings {
				warns = append(warns, w.Error())
			}
			sort.Strings(warns)
			key := c15Join(tv) + "\x01" + c15Join(rv) + "\x01" + c15Join(cv)
			ents = append(ents, ent{key, hx.L(hx.SList(tv), hx.SList(rv), hx.SList(cv), bsF64s(cell.Sample.Values),
				hx.F64(cell.Summary.Center), hx.F64(cell.Summary.Lo), hx.F64(cell.Summary.Hi), cmp, hx.SList(warns))})
		}
	}
	sort.Slice(ents, func(i, j int) bool { return ents[i].key < ents[j].key })
	cells := make([]hx.Sx, len(ents))
	for i, e := range ents {
		cells[i] = e.sx
	}
	// the cells of the summary row (geomean): per table and column
	var sents []ent
	for ti, t := range x.run.tables.Tables {
		tv := c15Vals(x.run.tables.Keys[ti], x.ft)
		for _, c := range t.Cols {
			sm := t.Summary[c]
			if sm == nil {
				continue
			}
			cv := c15Vals(c, x.fc)
			var warns []string
			for _, w := range sm.Warnings {
				warns = append(warns, w.Error())
			}
			sort.Strings(warns)
			sents = append(sents, ent{c15Join(tv) + "\x01" + c15Join(cv), hx.L(hx.SList(tv), hx.SList(cv), hx.Bool(sm.HasSummary), hx.F64(sm.Summary),
				hx.Bool(sm.HasRatio), hx.F64(sm.Ratio), hx.SList(warns))})
		}
	}
	sort.Slice(sents, func(i, j int) bool { return sents[i].key < sents[j].key })
	sums := make([]hx.Sx, len(sents))
	for i, e := range sents {
		sums[i] = e.sx
	}
	return hx.L(hx.L(hx.Bool(x.static[0]), hx.Bool(x.static[1]), hx.Bool(x.static[2])), hx.L(c15FieldSx(x.ft, x.dim(0)), c15FieldSx(x.fr, x.dim(1)), c15FieldSx(x.fc, x.dim(2))),
		hx.List(stream), hx.List(tables), hx.List(cells), hx.List(sums))
}

var _ = bt.NewBuilder

// ---------- line permutations ----------

// c15Permute: mode 0 shuffles every maximal run of benchmark lines; mode 1 reverses it;
// mode 2 moves the last line of every run to its front (the auditor's witness shape).
func c15Permute(r *hx.Rng, content string, mode int) string {
	if mode == 0 {
		return permuteBenchLines(r, content)
	}
	lines := strings.Split(content, "\n")
	i := 0
	for i < len(lines) {
		if !strings.HasPrefix(lines[i], "Benchmark") {
			i++
			continue
		}
		j := i
		for j < len(lines) && strings.HasPrefix(lines[j], "Benchmark") {
			j++
		}
		run := lines[i:j]
		if mode == 1 {
			for a, b := 0, len(run)-1; a < b; a, b = a+1, b-1 {
				run[a], run[b] = run[b], run[a]
			}
		} else if len(run) > 1 {
			last := run[len(run)-1]
			copy(run[1:], run[:len(run)-1])
			run[0] = last
		}
		i = j
	}
	return strings.Join(lines, "\n")
}

func c15PermuteInput(r *hx.Rng, in bsInput, mode int) bsInput {
	in2 := bsInput{Flags: in.Flags}
	seen := map[string]string{}
	for _, f := range in.Files {
		c, ok := seen[f.Name] // files sharing a name share content (duplicate paths)
		if !ok {
			c = c15Permute(r, f.Content, mode)
			seen[f.Name] = c
		}
		in2.Files = append(in2.Files, bsFile{Name: f.Name, Label: f.Label, Content: c})
	}
	return in2
}

// ---------- the inputs of the "perm" class ----------

type c15pShape struct {
	files  []bsFile
	numv   bool // /v values are numbers with prefixes
	hasN   bool
	nfiles int
}

func c15pGenFiles(r *hx.Rng) c15pShape {
	var sh c15pShape
	sh.nfiles = r.Range(1, 2)
	sh.numv = r.Chance(0.25)
	sh.hasN = r.Chance(0.4)
	vs := []string{"a", "b", "c"}
	if sh.numv {
		vs = []string{"10", "9", "1k", "x"}
		if r.Chance(0.5) {
			// two spellings of one number: they tie under @num and only the textual tie-break separates them
			vs = []string{"1k", "10", "1000", "9", "x"}
		}
	}
	vs = vs[:r.Range(2, len(vs))]
	names := []string{"Enc", "Dec", "Hash"}[:r.Range(1, 3)]
	units := [][]string{{"ns/op"}, {"ns/op", "B/op"}, {"widgets"}, {"sec/op", "widgets"}}[r.Intn(4)]
	cfgKeys := [][]string{{}, {"goos"}, {"goos", "pkg"}, {"pkg"}}[r.Intn(4)]
	gmp := ""
	if r.Chance(0.4) {
		gmp = "-8"
	}
	for f := 0; f < sh.nfiles; f++ {
		var b strings.Builder
		nblocks := r.Range(1, 2)
		for blk := 0; blk < nblocks; blk++ {
			// the same configuration keys in every block of every file
			for _, k := range cfgKeys {
				switch k {
				case "goos":
					fmt.Fprintf(&b, "goos: %s\n", r.Pick([]string{"linux", "darwin"}))
				case "pkg":
					fmt.Fprintf(&b, "pkg: p%d\n", r.Intn(2))
				}
			}
			if blk == 0 && r.Chance(0.15) {
				fmt.Fprintf(&b, "Unit %s assume=%s\n", units[0], r.Pick([]string{"exact", "nothing"}))
			}
			b.WriteString("\n")
			var lines []string
			for _, n := range names {
				for _, v := range vs {
					if r.Chance(0.12) {
						continue // missing cell
					}
					ns := []string{""}
					if sh.hasN {
						ns = []string{"/n=1", "/n=2"}[:r.Range(1, 2)]
					}
					for _, nn := range ns {
						cnt := r.Range(2, 5)
						if r.Chance(0.3) {
							cnt = r.Range(6, 9)
						}
						base := float64(r.Range(10, 5000))
						for s := 0; s < cnt; s++ {
							var l strings.Builder
							fmt.Fprintf(&l, "Benchmark%s/v=%s%s%s %d", n, v, nn, gmp, r.Range(1, 1000))
							for ui, u := range units {
								if ui > 0 && r.Chance(0.1) {
									continue
								}
								x := base * (1 + float64(r.Intn(9)-4)*0.01) * float64(ui+1)
								if r.Chance(0.1) {
									x = base
								}
								fmt.Fprintf(&l, " %v %s", x, u)
							}
							lines = append(lines, l.String())
						}
					}
				}
			}
			// benchmarks interleaved or in runs
			switch r.Intn(3) {
			case 0:
				for k := len(lines) - 1; k > 0; k-- {
					m := r.Intn(k + 1)
					lines[k], lines[m] = lines[m], lines[k]
				}
			}
			for _, l := range lines {
				b.WriteString(l)
				b.WriteString("\n")
			}
		}
		bf := bsFile{Name: fmt.Sprintf("p%d.txt", f), Content: b.String()}
		if r.Chance(0.2) {
			bf.Label = []string{"old", "new"}[f%2]
		}
		sh.files = append(sh.files, bf)
	}
	return sh
}

// c15pFlags: the flag sets one file set is run with: the drawn one (columns by a sub-name key in
// first-observation order, mostly) and the same with an explicit order of the column key.
func c15pFlags(r *hx.Rng, sh c15pShape) []bsFlags {
	mk := func(table, row, col, ignore string) bsFlags {
		return bsFlags{table: table, row: row, col: col, ignore: ignore, alpha: -1, confidence: -1}
	}
	table := r.Pick([]string{"", "", "goos", "pkg@alpha", ".config@alpha"})
	row := r.Pick([]string{".name", ".name", "", ".name@alpha"})
	if sh.hasN {
		row = r.Pick([]string{".name,/n", ".name", "/n,.name@alpha", ""})
	}
	ignore := ""
	if sh.nfiles > 1 {
		ignore = ".file"
	}
	var out []bsFlags
	switch r.Intn(8) {
	case 0: // columns by file (the default): a permutation inside a file never changes the baseline
		out = append(out, mk(table, row, "", ""))
		if sh.nfiles > 1 {
			out = append(out, mk(table, row, ".file,/v", ""), mk(table, row, ".file,/v@alpha", ""))
		}
	case 1: // rows by the sub-name key, columns by name
		out = append(out, mk(table, "/v", ".name", ignore), mk(table, "/v@alpha", ".name@alpha", ignore))
	default:
		out = append(out, mk(table, row, "/v", ignore), mk(table, row, "/v@alpha", ignore))
		if sh.numv {
			out = append(out, mk(table, row, "/v@num", ignore), mk(table, row, "/v@(x 1k 9 10)", ignore))
			// the numeric key first among several row fields: keys that tie on it must still be ordered (by the later fields,
			// then textually), the same way in every run and for every order of the lines
			out = append(out, mk(table, "/v@num,.name", "", ""), mk(table, "/v@num,.name@alpha", ".file", ""))
		} else {
			out = append(out, mk(table, row, "/v@(c b a)", ignore), mk(table, row, "/v@(b a)", ignore))
		}
	}
	for i := range out {
		switch r.Intn(8) {
		case 0:
			out[i].alpha = 0.5
		case 1:
			out[i].confidence = 0.99
		}
	}
	return out
}

type c15Bins struct {
	exe, raceExe string
	dir          string
	reps         int
	race         bool
}

// c15PermCase runs input A (as given) and B (permuted), repeatedly through the binary, and emits a kind-9 case.
func c15PermCase(o *hx.Out, b c15Bins, in, in2 bsInput, fl bsFlags, class string, extra map[string]interface{}) (*bsRun, bool, error) {
	if err := writeBsFiles(b.dir, in); err != nil {
		return nil, false, err
	}
	run := runBenchstatInProc(b.dir, in, fl)
	if run.err != nil {
		o.Count(class + ":pipeline-error")
		return run, false, nil
	}
	var wantText, wantCSV, wantErr bytes.Buffer
	run.tables.ToText(&wantText, false)
	run.tables.ToCSV(&wantCSV, &wantErr)
	identical, raceOK := true, true
	nruns, nrace := 0, 0
	firstDiff := ""
	diff := func(s string) {
		identical = false
		if firstDiff == "" {
			firstDiff = s
		}
	}
	for rep := 0; rep < b.reps; rep++ {
		for _, p := range []string{"1", "2", "3", "16"} {
			env := []string{"GOMAXPROCS=" + p}
			gt, _, _ := runBinary(b.exe, b.dir, in, "text", env)
			gc, _, _ := runBinary(b.exe, b.dir, in, "csv", env)
			nruns += 2
			if gt != wantText.String() || gc != wantCSV.String() {
				diff("GOMAXPROCS=" + p)
			}
		}
	}
	// second in-process run (fresh maps, goroutines scheduled anew)
	run2 := runBenchstatInProc(b.dir, in, fl)
	var t2 bytes.Buffer
	if run2.err == nil {
		run2.tables.ToText(&t2, false)
	}
	if run2.err != nil || t2.String() != wantText.String() {
		diff("second in-process run")
	}
	if b.race {
		for _, p := range []string{"4", "16"} {
			out, serr, _ := runBinary(b.raceExe, b.dir, in, "text", []string{"GOMAXPROCS=" + p, "GORACE=atexit_sleep_ms=0"})
			if strings.Contains(serr, "DATA RACE") {
				raceOK = false
			}
			if out != wantText.String() {
				diff("race build GOMAXPROCS=" + p)
			}
			nruns++
			nrace++
		}
		o.Count(class + ":race-runs")
	}
	obsA, err := c15Observe(run, fl)
	if err != nil {
		return run, false, err
	}
	// B: permuted lines
	if err := writeBsFiles(b.dir, in2); err != nil {
		return run, false, err
	}
	run3 := runBenchstatInProc(b.dir, in2, fl)
	if run3.err != nil {
		o.Count(class + ":pipeline-error-permuted")
		return run, false, nil
	}
	var t3 bytes.Buffer
	run3.tables.ToText(&t3, false)
	for _, p := range []string{"1", "4"} {
		gt, _, _ := runBinary(b.exe, b.dir, in2, "text", []string{"GOMAXPROCS=" + p})
		nruns++
		if gt != t3.String() {
			diff("permuted input, GOMAXPROCS=" + p)
		}
	}
	obsB, err := c15Observe(run3, fl)
	if err != nil {
		return run, false, err
	}
	// restore A's files for the caller
	if err := writeBsFiles(b.dir, in); err != nil {
		return run, false, err
	}
	var tags []string
	changed := !c15SameBase(obsA.baseMap(), obsB.baseMap())
	if changed {
		tags = append(tags, c15TagBaseline)
	}
	ncells := 0
	for _, t := range run.tables.Tables {
		ncells += len(t.Cells)
	}
	o.Count(fmt.Sprintf("%s:cells=%d", class, min(ncells/4*4, 40)))
	o.Count(fmt.Sprintf("%s:runs=%d", class, nruns))
	o.Count(fmt.Sprintf("%s:baseline-changed=%v", class, changed))
	o.Count(fmt.Sprintf("%s:arrangement-judged(table,row,col)=%v", class, obsA.static))
	input := map[string]interface{}{"input": in, "permuted": in2, "first_diff": firstDiff, "identical": identical, "race_ok": raceOK}
	for k, v := range extra {
		input[k] = v
	}
	o.Add(hx.L(hx.I(9), hx.Bool(identical), hx.Bool(raceOK), hx.I(nruns), hx.I(nrace), obsA.sx(), obsB.sx()),
		input, fmt.Sprint(class, in), ncells >= 2, tags...)
	return run, true, nil
}

// c15GenPermCases: the "perm" class.
func c15GenPermCases(o *hx.Out, r *hx.Rng, tier string, exe, raceExe string) error {
	n, reps, nrace := 20, 1, 12
	if tier == "thorough" {
		n, reps, nrace = 400, 3, 100
	}
	dir, err := os.MkdirTemp(os.Getenv("VERIF_WORK"), "c15perm")
	if err != nil {
		return err
	}
	defer os.RemoveAll(dir)
	for i := 0; i < n; i++ {
		rr := r.Split()
		sh := c15pGenFiles(rr)
		for _, fl := range c15pFlags(rr, sh) {
			in := bsInput{Files: sh.files, Flags: fl.args()}
			mode := rr.Intn(3)
			in2 := c15PermuteInput(rr, in, mode)
			b := c15Bins{exe: exe, raceExe: raceExe, dir: dir, reps: reps, race: i < nrace}
			explicit := !strings.Contains(strings.Join(fl.args(), " ")+" ", "/v ") && !strings.Contains(fl.col, "/v,")
			o.Count(fmt.Sprintf("perm:mode=%d", mode))
			if fl.col != "" {
				o.Count("perm:col=" + fl.col)
			}
			if _, _, err := c15PermCase(o, b, in, in2, fl, "perm", map[string]interface{}{"kind": "perm", "mode": mode, "explicit_order": explicit}); err != nil {
				return err
			}
		}
	}
	return nil
}
