package main

// C11, case kinds 4 and 5 (coq/Corr/RunC11.v):
//
// kind 4 "history": a series of MannWhitneyUTest calls whose two arguments are
// windows of ONE backing array owned by the caller (series[:k] vs series[k:]
// for k = 1..n-1, x[:4] vs x[2:], nested and identical windows; plain two-index
// slices, so the first window's capacity reaches over the second). After every
// call the backing array is compared with the values it had before the first
// call; every call is judged on those original values.
//
// kind 5 "concurrent": a batch of different sample pairs (exact and normal
// regime) is first run sequentially, then by 8-16 goroutines at the same time
// (cmd/c11race as a plain binary at GOMAXPROCS 4, 8, 16 and built with -race at
// GOMAXPROCS 4 and 8). Every concurrent outcome must be the sequential one and
// the race detector must stay silent.

import (
	"bytes"
	"encoding/json"
	"fmt"
	"math"
	"os"
	"os/exec"
	"path/filepath"
	"strings"

	st "golang.org/x/perf/verifbridge/stats"
	"verifharness/internal/c11conc"
	"verifharness/internal/hx"
)

type c11Win struct {
	X1  [2]int `json:"x1"` // series[lo:hi]
	X2  [2]int `json:"x2"`
	Alt int    `json:"alt"`
}

type c11HInput struct {
	Kind   string   `json:"kind"`
	Series []int64  `json:"series"`
	Calls  []c11Win `json:"calls"`
}

type c11CInput struct {
	Kind       string        `json:"kind"`
	Jobs       []c11conc.Job `json:"jobs"`
	Goroutines int           `json:"goroutines"`
	Rounds     int           `json:"rounds"`
	GoMaxProcs []int         `json:"gomaxprocs"`
	RaceOutput string        `json:"stderr_of_failed_run,omitempty"`
}

func c11OutcomeSx(o c11conc.Outcome) hx.Sx {
	if o.Code != 0 {
		return hx.L(hx.I(o.Code))
	}
	return hx.L(hx.I(0), hx.I(o.N1), hx.I(o.N2), hx.U(o.U), hx.U(o.P), hx.I(o.AltOut))
}

// regime of a call and the Erfc oracle entry it needs (as c11UCase)
func c11RegimeOracle(x1, x2 []int64, alt int) (regime string, oracle []hx.Sx) {
	n1, n2 := len(x1), len(x2)
	if n1 == 0 || n2 == 0 {
		return "error", nil
	}
	t := c11TieVector(x1, x2)
	if len(t) == 1 {
		return "all-equal", nil
	}
	ties := c11HasTies(t)
	if (!ties && n1 <= 50 && n2 <= 50) || (ties && n1 <= 25 && n2 <= 25) {
		if ties {
			return "exact-tied", nil
		}
		return "exact-untied", nil
	}
	arg := c11ErfcArg(t, n1, n2, c11TwoU(x1, x2), alt)
	return "approx", []hx.Sx{hx.L(hx.F64(arg), hx.F64(math.Erfc(arg)))}
}

// c11AvoidFinding keeps the recorded finding C11_twosided_asymmetric_ties (two-sided
// exact p-value with a skewed tie vector, see c11.go) out of the history and
// concurrent cases: where the property's two-sided value and the value of the
// finding differ (decided from the inputs alone) a one-sided alternative is used.
func c11AvoidFinding(x1, x2 []int64, alt int) int {
	n1, n2 := len(x1), len(x2)
	if alt != 0 || n1 == 0 || n2 == 0 || n1 > 25 || n2 > 25 {
		return alt
	}
	t := c11TieVector(x1, x2)
	if !c11HasTies(t) || len(t) == 1 || c11Palindrome(t) {
		return alt
	}
	twoU := c11TwoU(x1, x2)
	if _, _, differ := c11SpecTwoSided(t, n1, n2, twoU); !differ {
		return alt
	}
	if twoU%2 == 0 {
		return -1
	}
	return 1
}

func c11WindowClass(w c11Win) string {
	a, b := w.X1, w.X2
	switch {
	case a == b:
		return "same"
	case a[1] == b[0] || b[1] == a[0]:
		return "adjacent"
	case a[1] < b[0] || b[1] < a[0]:
		return "disjoint"
	case (a[0] <= b[0] && b[1] <= a[1]) || (b[0] <= a[0] && a[1] <= b[1]):
		return "nested"
	}
	return "overlapping"
}

// one case of kind 4
func c11HistCase(o *hx.Out, series []int64, calls []c11Win, stream string) {
	untied, tied := st.ExactLimits()
	mem := c11Floats(series) // the caller's backing array
	var ops, oracle []hx.Sx
	nontrivial := false
	for ci, w := range calls {
		// what the call is judged on: the values before the first call
		o1, o2 := series[w.X1[0]:w.X1[1]], series[w.X2[0]:w.X2[1]]
		if a := c11AvoidFinding(o1, o2, w.Alt); a != w.Alt {
			w.Alt = a
			calls[ci].Alt = a
			o.Count("hist:alternative-changed-to-avoid-recorded-finding")
		}
		regime, orc := c11RegimeOracle(o1, o2, w.Alt)
		oracle = append(oracle, orc...)
		// the call itself: plain windows of the caller's array
		out := c11conc.Call(mem[w.X1[0]:w.X1[1]], mem[w.X2[0]:w.X2[1]], w.Alt)
		var mut []hx.Sx
		for i, v := range mem {
			if math.Float64bits(v) != math.Float64bits(float64(series[i])) {
				mut = append(mut, hx.L(hx.I(i), hx.F64(v)))
			}
		}
		ops = append(ops, hx.L(hx.I(w.X1[0]), hx.I(w.X1[1]), hx.I(w.X2[0]), hx.I(w.X2[1]), hx.I(w.Alt),
			c11OutcomeSx(out), hx.List(mut)))
		o.Count("hist-regime:" + regime)
		o.Count("hist-window:" + c11WindowClass(w))
		if regime != "error" && regime != "all-equal" {
			nontrivial = true
		}
	}
	o.Count("hist:" + stream)
	o.Count(fmt.Sprintf("hist-calls:%d", min(len(calls)/4*4, 16)))
	cs := hx.L(hx.I(4), c11ZList(series), hx.L(hx.I(untied), hx.I(tied)), hx.List(ops), hx.List(oracle))
	o.Add(cs, c11HInput{"history", series, calls}, fmt.Sprint("h", series, calls), nontrivial)
}

// an unsorted series: distinct values, or few distinct values (ties)
func c11Series(r *hx.Rng, n int, tiedSeries bool) []int64 {
	s := make([]int64, n)
	if tiedSeries {
		k := r.Range(2, 4)
		for i := range s {
			s[i] = int64(r.Intn(k)) * 5
		}
		// at least two distinct values, and not sorted
		s[0], s[n-1] = 5, 0
		return s
	}
	for i := range s {
		s[i] = int64(3*i) - 7
	}
	s = c11Shuffle(r, s)
	if n >= 2 && s[0] < s[1] { // never sorted: an in-place sort must show
		s[0], s[1] = s[1], s[0]
	}
	return s
}

func c11GenHistories(o *hx.Out, r *hx.Rng, thorough bool) {
	alts := []int{-1, 0, 1}
	// the windows of the description, literally
	{
		x := []int64{9, 2, 7, 4, 1, 8}
		c11HistCase(o, x, []c11Win{{[2]int{0, 4}, [2]int{2, 6}, 0}, {[2]int{0, 4}, [2]int{2, 6}, -1}, {[2]int{0, 4}, [2]int{2, 6}, 1}}, "x[:4]-vs-x[2:]")
	}
	// (A) split sweep: series[:k] vs series[k:] for every k, in rising, falling or random order of k
	nA := 80
	if thorough {
		nA = 600
	}
	for i := 0; i < nA; i++ {
		n := r.Range(3, 12)
		s := c11Series(r, n, i%2 == 1)
		ks := make([]int64, 0, n-1)
		for k := 1; k < n; k++ {
			ks = append(ks, int64(k))
		}
		switch i % 3 {
		case 1:
			for a, b := 0, len(ks)-1; a < b; a, b = a+1, b-1 {
				ks[a], ks[b] = ks[b], ks[a]
			}
		case 2:
			ks = c11Shuffle(r, ks)
		}
		swap := i%4 == 3 // the later window as the first sample
		var calls []c11Win
		for j, k := range ks {
			w := c11Win{[2]int{0, int(k)}, [2]int{int(k), n}, alts[(i+j)%3]}
			if swap {
				w.X1, w.X2 = w.X2, w.X1
			}
			calls = append(calls, w)
		}
		c11HistCase(o, s, calls, "split-sweep")
	}
	// (B) overlapping, nested, identical and disjoint windows
	nB := 60
	if thorough {
		nB = 400
	}
	for i := 0; i < nB; i++ {
		n := r.Range(4, 12)
		s := c11Series(r, n, i%2 == 0)
		var calls []c11Win
		win := func() [2]int {
			lo := r.Intn(n)
			return [2]int{lo, r.Range(lo+1, n)}
		}
		for j := 0; j < r.Range(3, 7); j++ {
			w := c11Win{win(), win(), alts[r.Intn(3)]}
			switch r.Intn(5) {
			case 0: // x[:a] vs x[b:], b < a
				a := r.Range(2, n)
				w.X1, w.X2 = [2]int{0, a}, [2]int{r.Intn(a), n}
			case 1:
				w.X2 = w.X1
			}
			calls = append(calls, w)
		}
		c11HistCase(o, s, calls, "windows")
	}
	// (C) longer series, adjacent windows on both sides of the exact / normal switch
	nC := 3
	if thorough {
		nC = 30
	}
	for i := 0; i < nC; i++ {
		// untied: the smaller side stays small, so that the exact calls are cheap to judge
		n := r.Range(52, 60)
		s := c11Series(r, n, false)
		var calls []c11Win
		for j, k := range c11Dedup([]int{1, 3, n - 51, n - 50, n - 49, 50, 51, n - 3, n - 1}, n) {
			calls = append(calls, c11Win{[2]int{0, k}, [2]int{k, n}, alts[(i+j)%3]})
		}
		c11HistCase(o, s, calls, "split-switch-untied")
		// tied
		n = r.Range(28, 34)
		s = c11Series(r, n, true)
		calls = nil
		for j, k := range c11Dedup([]int{1, n - 26, n - 25, n / 2, 25, 26, n - 1}, n) {
			calls = append(calls, c11Win{[2]int{0, k}, [2]int{k, n}, alts[(i+j)%3]})
		}
		c11HistCase(o, s, calls, "split-switch-tied")
	}
	// (D) medium series (both regimes of tied samples, medium untied samples), a few split points
	nD := 6
	if thorough {
		nD = 60
	}
	for i := 0; i < nD; i++ {
		n := r.Range(20, 40)
		s := c11Series(r, n, i%2 == 0)
		var calls []c11Win
		for j, k := range c11Dedup([]int{r.Range(1, n-1), n / 2, r.Range(8, n-8), r.Range(1, n-1)}, n) {
			w := c11Win{[2]int{0, k}, [2]int{k, n}, alts[(i+j)%3]}
			if j%2 == 1 {
				w.X1, w.X2 = w.X2, w.X1
			}
			calls = append(calls, w)
		}
		c11HistCase(o, s, calls, "split-medium")
	}
}

// the ks with 1 <= k <= n-1, first occurrences, in the given order
func c11Dedup(ks []int, n int) []int {
	var out []int
	for _, k := range ks {
		if k < 1 || k > n-1 {
			continue
		}
		dup := false
		for _, x := range out {
			dup = dup || x == k
		}
		if !dup {
			out = append(out, k)
		}
	}
	return out
}

// ---- kind 5: concurrent calls ----

func c11GenJobs(r *hx.Rng) []c11conc.Job {
	alts := []int{-1, 0, 1}
	var jobs []c11conc.Job
	tiedSample := func(n, k int) []int64 {
		x := make([]int64, n)
		for i := range x {
			x[i] = int64(r.Intn(k)) * 2
		}
		return x
	}
	untiedPair := func(n1, n2 int) ([]int64, []int64) {
		p := make([]int64, n1+n2)
		for i := range p {
			p[i] = int64(2*i) - 11
		}
		p = c11Shuffle(r, p)
		return p[:n1:n1], append([]int64(nil), p[n1:]...)
	}
	add := func(x1, x2 []int64) {
		// two distinct pooled values at least (a result, not ErrSamplesEqual)
		if len(c11TieVector(x1, x2)) == 1 {
			x2[0] = x1[0] + 1
		}
		jobs = append(jobs, c11conc.Job{X1: x1, X2: x2, Alt: c11AvoidFinding(x1, x2, alts[r.Intn(3)])})
	}
	for i := 0; i < 5; i++ { // exact, tied, small
		add(tiedSample(r.Range(2, 8), r.Range(2, 4)), tiedSample(r.Range(2, 8), r.Range(2, 4)))
	}
	for i := 0; i < 3; i++ { // exact, untied, small
		add(untiedPair(r.Range(2, 9), r.Range(2, 9)))
	}
	for i := 0; i < 2; i++ { // normal approximation, untied (one size above 50)
		add(untiedPair(r.Range(51, 60), r.Range(4, 60)))
	}
	add(tiedSample(r.Range(26, 40), r.Range(3, 6)), tiedSample(r.Range(5, 40), r.Range(3, 6)))  // normal approximation, tied
	add(tiedSample(r.Range(12, 18), r.Range(3, 5)), tiedSample(r.Range(12, 18), r.Range(3, 5))) // exact, tied, longer recursion
	add(untiedPair(r.Range(15, 25), r.Range(15, 25)))                                           // exact, untied, longer table
	// shuffle the order (goroutine g starts at job g)
	for i := len(jobs) - 1; i > 0; i-- {
		j := r.Intn(i + 1)
		jobs[i], jobs[j] = jobs[j], jobs[i]
	}
	return jobs
}

func c11BuildConc(race bool) (string, error) {
	work := os.Getenv("VERIF_WORK")
	if work == "" {
		work = os.TempDir()
	}
	name, args := "c11conc", []string{"build"}
	if race {
		name, args = "c11race", append(args, "-race")
	}
	exe := filepath.Join(work, name)
	args = append(args, "-tags", "verif", "-o", exe, "./cmd/c11race")
	cmd := exec.Command("go", args...)
	cmd.Dir = harnessDir()
	if out, err := cmd.CombinedOutput(); err != nil {
		return "", fmt.Errorf("building cmd/c11race (race=%v): %v\n%s", race, err, out)
	}
	return exe, nil
}

// runs one batch in a binary of cmd/c11race under the given GOMAXPROCS; ok = false
// when the process died (fatal error: concurrent map writes, ...) without a result
func c11RunConc(exe, script string, procs int) (res c11conc.Result, stderr string, ok bool) {
	cmd := exec.Command(exe, script)
	cmd.Env = append(os.Environ(), fmt.Sprintf("GOMAXPROCS=%d", procs), "GORACE=atexit_sleep_ms=0 halt_on_error=0")
	var so, se bytes.Buffer
	cmd.Stdout, cmd.Stderr = &so, &se
	cmd.Run()
	var all []c11conc.Result
	if jerr := json.Unmarshal(so.Bytes(), &all); jerr != nil || len(all) != 1 {
		return c11conc.Result{}, se.String(), false
	}
	return all[0], se.String(), true
}

func c11GenConcurrent(o *hx.Out, r *hx.Rng, thorough bool) error {
	nb := 8
	if thorough {
		nb = 60
	}
	plainExe, err := c11BuildConc(false)
	if err != nil {
		return err
	}
	raceExe, err := c11BuildConc(true)
	if err != nil {
		return err
	}
	work := os.Getenv("VERIF_WORK")
	if work == "" {
		work = os.TempDir()
	}
	untied, tied := st.ExactLimits()
	for i := 0; i < nb; i++ {
		b := c11conc.Batch{Jobs: c11GenJobs(r), Goroutines: []int{8, 12, 16}[i%3], Rounds: 3}
		// 1. sequentially (this process has made no concurrent call)
		var seq []c11conc.Outcome
		for _, j := range b.Jobs {
			seq = append(seq, c11conc.Call(c11conc.Floats(j.X1), c11conc.Floats(j.X2), j.Alt))
		}
		// 2. concurrently: plain binary at GOMAXPROCS 4, 8, 16; -race binary at 4, 8
		script := filepath.Join(work, fmt.Sprintf("c11conc_batch%d.json", i))
		js, _ := json.Marshal([]c11conc.Batch{b})
		if err := os.WriteFile(script, js, 0o644); err != nil {
			return err
		}
		var all []c11conc.Result
		var procsUsed []int
		raceOK, crashed, diag := true, false, ""
		for k, p := range []int{4, 8, 16, 4, 8} {
			exe := plainExe
			if k >= 3 {
				exe = raceExe
				o.Count("concurrent:race-detector-runs")
			}
			res, serr, ok := c11RunConc(exe, script, p)
			if strings.Contains(serr, "DATA RACE") {
				raceOK = false
			}
			if (!ok || strings.Contains(serr, "DATA RACE")) && diag == "" {
				diag = serr[:min(len(serr), 3000)]
			}
			if !ok {
				crashed = true
				continue
			}
			all = append(all, res)
			procsUsed = append(procsUsed, res.GoMaxProcs)
		}
		calls, unchanged := 0, !crashed
		for _, res := range all {
			calls += res.Calls
			unchanged = unchanged && res.Unchanged
		}
		var jobs []hx.Sx
		differs := false
		for j, job := range b.Jobs {
			regime, oracle := c11RegimeOracle(job.X1, job.X2, job.Alt)
			o.Count("concurrent-regime:" + regime)
			// distinct outcomes over all concurrent runs; a run that died counts as a panic
			var distinct []c11conc.Outcome
			if crashed {
				distinct = append(distinct, c11conc.Outcome{Code: 3})
			}
			for _, res := range all {
				for _, d := range res.Distinct[j] {
					seen := false
					for _, e := range distinct {
						seen = seen || e == d
					}
					if !seen {
						distinct = append(distinct, d)
					}
				}
			}
			if len(distinct) != 1 || distinct[0] != seq[j] {
				differs = true
			}
			var ds []hx.Sx
			for _, d := range distinct {
				ds = append(ds, c11OutcomeSx(d))
			}
			ucase := hx.L(hx.I(1), c11ZList(job.X1), c11ZList(job.X2), hx.I(job.Alt), hx.L(hx.I(untied), hx.I(tied)),
				c11OutcomeSx(seq[j]), hx.L(), hx.List(oracle))
			jobs = append(jobs, hx.L(ucase, hx.List(ds)))
		}
		o.Count("concurrent:batches")
		o.Count(fmt.Sprintf("concurrent-goroutines:%d", b.Goroutines))
		o.Count(fmt.Sprintf("concurrent:race_ok=%v crashed=%v differs=%v", raceOK, crashed, differs))
		cs := hx.L(hx.I(5), hx.I(4), hx.I(b.Goroutines), hx.I(max(calls, 1)), hx.Bool(raceOK), hx.Bool(unchanged), hx.List(jobs))
		in := c11CInput{"concurrent", b.Jobs, b.Goroutines, b.Rounds, procsUsed, diag}
		o.Add(cs, in, fmt.Sprint("c", b.Jobs), true)
	}
	return nil
}

func c11GenHist(o *hx.Out, r *hx.Rng, tier string) error {
	thorough := tier == "thorough"
	c11GenHistories(o, r.Split(), thorough)
	if err := c11GenConcurrent(o, r.Split(), thorough); err != nil {
		return err
	}
	return c11GenSizeHistories(o, r.Split(), thorough)
}

// ---- kind 4 again: call histories of ONE FRESH PROCESS mixing sample sizes ----
//
// Whatever the package keeps between calls (tables of binomials or factorials
// grown on demand, memo tables, buffers) is empty when a process starts and is
// then shaped by the sizes of the calls made so far. Every history below is run
// in its own process (cmd/c11race, plain binary, one goroutine, one pass: the
// jobs in the order given) so that its first call really is a first call; the
// calls take their sizes from the classes
//
//	S: exact test whose binomials C(n, k) all have n <= 20 (the integer path of mathChoose)
//	A: n up to 21..31   (tied 11+11, 10+12, 15+16, ...; untied likewise)
//	B: n up to 32       (tied 16+16, 15+17, 12+20, ...)
//	C: n up to 33..64   (tied up to 25+25, untied up to 32+32)
//	D: n up to 65..100  (untied, both sizes <= 50)
//
// in every order of A, B, C and in random longer orders. The case is an ordinary
// history (kind 4) over the concatenation of the samples (disjoint windows): every
// result is judged against the exact tails of ITS OWN samples, as if it were the
// first call of a process.

type c11FreshInput struct {
	Kind    string        `json:"kind"`
	Process string        `json:"process"`
	Classes string        `json:"size_classes"`
	Jobs    []c11conc.Job `json:"jobs"`
}

// a sample pair of pooled size N for the exact test (tied: n1, n2 <= 25, at least one
// tie and two distinct values; untied: n1, n2 <= 50)
func c11SizedPair(r *hx.Rng, N int, tied bool) (x1, x2 []int64) {
	lim := 50
	if tied {
		lim = 25
	}
	lo, hi := max(1, N-lim), min(lim, N-1)
	n1 := r.Range(lo, hi)
	if r.Chance(0.5) { // near-even split
		n1 = min(hi, max(lo, N/2+r.Intn(3)-1))
	}
	n2 := N - n1
	if !tied {
		p := make([]int64, N)
		for i := range p {
			p[i] = int64(2*i) - 9
		}
		p = c11Shuffle(r, p)
		return append([]int64(nil), p[:n1]...), append([]int64(nil), p[n1:]...)
	}
	k := r.Range(2, 5)
	gen := func(n int, bias int) []int64 {
		x := make([]int64, n)
		for i := range x {
			x[i] = int64(min(k-1, r.Intn(k)+bias*r.Intn(2))) * 3
		}
		return x
	}
	x1, x2 = gen(n1, 0), gen(n2, r.Intn(2))
	x1[0], x2[0] = 0, 3
	if n2 > 1 {
		x2[1] = 0
	} else if n1 > 1 {
		x1[1] = 3
	}
	return x1, x2
}

func c11ClassPair(r *hx.Rng, class byte) (x1, x2 []int64) {
	switch class {
	case 'S':
		return c11SizedPair(r, r.Range(4, 20), r.Chance(0.7))
	case 'A': // the ends of the class (21, 22, 31) half of the time
		switch r.Intn(6) {
		case 0:
			return c11SizedPair(r, 22, true)
		case 1:
			return c11SizedPair(r, 31, r.Chance(0.8))
		case 2:
			return c11SizedPair(r, 21, r.Chance(0.8))
		}
		return c11SizedPair(r, r.Range(21, 31), r.Chance(0.8))
	case 'B':
		return c11SizedPair(r, 32, r.Chance(0.85))
	case 'C': // the ends (33, 64; 50 = the largest tied pooled size) half of the time
		switch r.Intn(8) {
		case 0, 1:
			return c11SizedPair(r, 33, r.Chance(0.8))
		case 2:
			return c11SizedPair(r, 64, false)
		case 3:
			return c11SizedPair(r, 50, true)
		case 4:
			return c11SizedPair(r, r.Range(33, 64), false)
		}
		return c11SizedPair(r, r.Range(33, 50), true)
	}
	return c11SizedPair(r, r.Range(65, 100), false)
}

func c11SizeHistory(o *hx.Out, r *hx.Rng, exe, work string, id int, classes string) error {
	untied, tied := st.ExactLimits()
	var jobs []c11conc.Job
	var series []int64
	var wins []c11Win
	for i := 0; i < len(classes); i++ {
		x1, x2 := c11ClassPair(r, classes[i])
		alt := c11AvoidFinding(x1, x2, []int{-1, 0, 1}[r.Intn(3)])
		jobs = append(jobs, c11conc.Job{X1: x1, X2: x2, Alt: alt})
		a := len(series)
		series = append(series, x1...)
		b := len(series)
		series = append(series, x2...)
		wins = append(wins, c11Win{[2]int{a, b}, [2]int{b, len(series)}, alt})
	}
	script := filepath.Join(work, fmt.Sprintf("c11fresh_%d.json", id))
	js, _ := json.Marshal([]c11conc.Batch{{Jobs: jobs, Goroutines: 1, Rounds: 1}})
	if err := os.WriteFile(script, js, 0o644); err != nil {
		return err
	}
	res, _, ok := c11RunConc(exe, script, 4)
	var ops, oracle []hx.Sx
	for j, w := range wins {
		out := c11conc.Outcome{Code: 3} // a process that died: a panic of every call
		if ok && len(res.Distinct) == len(jobs) && len(res.Distinct[j]) == 1 {
			out = res.Distinct[j][0]
		}
		regime, orc := c11RegimeOracle(jobs[j].X1, jobs[j].X2, w.Alt)
		oracle = append(oracle, orc...)
		var mut []hx.Sx
		if ok && !res.Unchanged && j == len(wins)-1 {
			// the process compares its inputs after all calls and reports one bit
			mut = append(mut, hx.L(hx.I(0), hx.F64(math.NaN())))
			o.Count("fresh-process:inputs-changed")
		}
		ops = append(ops, hx.L(hx.I(w.X1[0]), hx.I(w.X1[1]), hx.I(w.X2[0]), hx.I(w.X2[1]), hx.I(w.Alt),
			c11OutcomeSx(out), hx.List(mut)))
		o.Count("fresh-process-regime:" + regime)
		o.Count(fmt.Sprintf("fresh-process-call:class=%c", classes[j]))
		if c11HasTies(c11TieVector(jobs[j].X1, jobs[j].X2)) {
			o.Count(fmt.Sprintf("fresh-process-call:tied,class=%c", classes[j]))
		}
	}
	if !ok {
		o.Count("fresh-process:died")
	}
	o.Count("hist:fresh-process-mixed-sizes")
	o.Count("fresh-process-order:" + c11OrderClass(classes))
	cs := hx.L(hx.I(4), c11ZList(series), hx.L(hx.I(untied), hx.I(tied)), hx.List(ops), hx.List(oracle))
	in := c11FreshInput{"history", "fresh process per history (cmd/c11race, 1 goroutine, 1 pass, jobs in order)", classes, jobs}
	o.Add(cs, in, fmt.Sprint("f", classes, jobs), true)
	return nil
}

// the order in which the classes A (21..31), B (32), C (33..64) first occur
func c11OrderClass(classes string) string {
	first := ""
	for i := 0; i < len(classes); i++ {
		c := classes[i]
		if (c == 'A' || c == 'B' || c == 'C') && !strings.ContainsRune(first, rune(c)) {
			first += string(c)
		}
	}
	if first == "" {
		return "none-of-A-B-C"
	}
	return "first-occurrences=" + first
}

func c11GenSizeHistories(o *hx.Out, r *hx.Rng, thorough bool) error {
	exe, err := c11BuildConc(false)
	if err != nil {
		return err
	}
	work := os.Getenv("VERIF_WORK")
	if work == "" {
		work = os.TempDir()
	}
	id := 0
	run := func(classes string) error {
		id++
		return c11SizeHistory(o, r, exe, work, id, classes)
	}
	rounds := 2
	nrand := 10
	if thorough {
		rounds, nrand = 12, 120
	}
	// every order of A, B, C; with a small first call; with the big untied class in between
	for k := 0; k < rounds; k++ {
		for _, p := range []string{"ABC", "ACB", "BAC", "BCA", "CAB", "CBA"} {
			if err := run(p); err != nil {
				return err
			}
		}
		for _, p := range []string{"SABC", "AB", "AC", "BA", "BC", "CA", "CB", "ADBC", "DCBA", "ABAC", "CBCA"} {
			if err := run(p); err != nil {
				return err
			}
		}
	}
	// single calls (the reference: really the first call) and random longer orders
	for _, p := range []string{"A", "B", "C", "D"} {
		if err := run(p); err != nil {
			return err
		}
	}
	for i := 0; i < nrand; i++ {
		n := r.Range(3, 6)
		b := make([]byte, n)
		for j := range b {
			b[j] = "SAABBCCD"[r.Intn(8)]
		}
		if err := run(string(b)); err != nil {
			return err
		}
	}
	return nil
}
