package main

import (
	"errors"
	"fmt"
	"os"
	"path/filepath"
	"regexp"
	"strconv"
	"strings"
	"time"
	"unicode"

	"golang.org/x/perf/benchfmt"
	"golang.org/x/perf/benchproc"
	parse "golang.org/x/perf/benchproc/verifbridge"
	"verifharness/internal/hx"
)

func init() { gens["C07"] = genC07 }

type c07Input struct {
	Kind  string `json:"kind"` // "spaces" | "expr" | "quote"
	Expr  string `json:"expr,omitempty"`
	ExprX string `json:"expr_hex,omitempty"`
	Key   string `json:"key_hex,omitempty"`
	Value string `json:"value_hex,omitempty"`
}

// c07Hang is set once a guarded call did not return: the runaway goroutine
// cannot be stopped (and may allocate without bound), so every later guarded
// call is skipped and the generator stops right after recording the case.
var c07Hang bool

// c07Guard runs f, turning a panic into (2) and a hang into (4).
func c07Guard(f func() hx.Sx) hx.Sx {
	if c07Hang {
		return hx.L(hx.I(4))
	}
	ch := make(chan hx.Sx, 1)
	go func() {
		defer func() {
			if r := recover(); r != nil {
				ch <- hx.L(hx.I(2))
			}
		}()
		ch <- f()
	}()
	select {
	case s := <-ch:
		return s
	case <-time.After(1 * time.Second):
		c07Hang = true
		return hx.L(hx.I(4))
	}
}

// c07StopIfHung ends the run (with everything recorded so far, the hanging
// input last) when the implementation did not come back from a call.
func c07StopIfHung(o *hx.Out) {
	if c07Hang {
		o.Notes = append(o.Notes, "a call into the implementation did not return within 1s; run cut short after that case")
		if err := o.Flush(); err != nil {
			fmt.Fprintln(os.Stderr, "gen:", err)
			os.Exit(3)
		}
		fmt.Printf("gen C07: %d cases (cut short: hang)\n", o.Len())
		os.Exit(0)
	}
}

func c07Err(err error) hx.Sx {
	var se *parse.SyntaxError
	if errors.As(err, &se) {
		return hx.L(hx.I(1), hx.I(se.Off))
	}
	return hx.L(hx.I(3))
}

func c07Filter(f parse.Filter) hx.Sx {
	switch f := f.(type) {
	case *parse.FilterMatch:
		if f.Regexp != nil {
			return hx.L(hx.I(0), hx.S(f.Key), hx.L(hx.I(1), hx.S(f.Regexp.String())), hx.I(f.Off))
		}
		return hx.L(hx.I(0), hx.S(f.Key), hx.L(hx.I(0), hx.S(f.Lit)), hx.I(f.Off))
	case *parse.FilterOp:
		var subs []hx.Sx
		for _, e := range f.Exprs {
			subs = append(subs, c07Filter(e))
		}
		switch f.Op {
		case parse.OpAnd:
			return hx.L(hx.I(1), hx.List(subs))
		case parse.OpOr:
			return hx.L(hx.I(2), hx.List(subs))
		case parse.OpNot:
			if len(subs) == 1 {
				return hx.L(hx.I(3), subs[0])
			}
		}
	}
	return hx.L(hx.I(9)) // nil or malformed node: undecodable on purpose
}

func c07ParseFilter(q string) hx.Sx {
	return c07Guard(func() hx.Sx {
		f, err := parse.ParseFilter(q)
		if err != nil {
			return c07Err(err)
		}
		return hx.L(hx.I(0), c07Filter(f))
	})
}

func c07ParseProjection(q string) hx.Sx {
	return c07Guard(func() hx.Sx {
		fs, err := parse.ParseProjection(q)
		if err != nil {
			return c07Err(err)
		}
		var l []hx.Sx
		for _, f := range fs {
			l = append(l, hx.L(hx.S(f.Key), hx.S(f.Order), hx.SList(f.Fixed), hx.I(f.KeyOff), hx.I(f.OrderOff)))
		}
		return hx.L(hx.I(0), hx.List(l))
	})
}

func c07NewFilter(q string) hx.Sx {
	return c07Guard(func() hx.Sx {
		_, err := benchproc.NewFilter(q)
		if err != nil {
			return c07Err(err)
		}
		return hx.L(hx.I(0))
	})
}

func c07NewProjection(q string) hx.Sx {
	return c07Guard(func() hx.Sx {
		flt, err := benchproc.NewFilter("*")
		if err != nil {
			return hx.L(hx.I(3))
		}
		var pp benchproc.ProjectionParser
		_, err = pp.Parse(q, flt)
		if err != nil {
			return c07Err(err)
		}
		return hx.L(hx.I(0))
	})
}

// c07Oracle records regexp.Compile's verdict for the texts the tokenizer can
// ask about: for short expressions every text between two '/', for longer ones
// the text from each '/' to the first top-level '/' after it (a mirror of
// regexpParseUntil; a text the model asks for and the table lacks counts as
// not compiling and so shows up as a disagreement).
func c07Oracle(q string) hx.Sx {
	var pos []int
	for i := 0; i < len(q); i++ {
		if q[i] == '/' {
			pos = append(pos, i)
		}
	}
	seen := map[string]bool{}
	var l []hx.Sx
	add := func(t string) {
		if seen[t] {
			return
		}
		seen[t] = true
		_, err := regexp.Compile(t)
		l = append(l, hx.L(hx.S(t), hx.Bool(err == nil)))
	}
	if len(pos) <= 10 {
		for a := 0; a < len(pos); a++ {
			for b := a + 1; b < len(pos); b++ {
				add(q[pos[a]+1 : pos[b]])
			}
		}
		return hx.List(l)
	}
	for _, a := range pos {
		str := q[a+1:]
		cs, cp := 0, 0
		for i := 0; i < len(str); i++ {
			if cs == 0 && cp == 0 && str[i] == '/' {
				add(str[:i])
				break
			}
			switch str[i] {
			case '[':
				cs++
			case ']':
				if cs--; cs < 0 {
					cs = 0
				}
			case '(':
				if cs == 0 {
					cp++
				}
			case ')':
				if cs == 0 {
					cp--
				}
			case '\\':
				i++
			}
		}
	}
	return hx.List(l)
}

func c07Expr(o *hx.Out, q string, stream string) {
	fp := c07ParseFilter(q)
	pp := c07ParseProjection(q)
	nf := c07NewFilter(q)
	np := c07NewProjection(q)
	c := hx.L(hx.I(1), hx.S(q), c07Oracle(q), fp, pp, nf, np)
	fo, po := fp.Text()[:2] == "(0", pp.Text()[:2] == "(0"
	o.Count(fmt.Sprintf("%s filter_ok=%v proj_ok=%v", stream, fo, po))
	o.Count(fmt.Sprintf("exprlen=%d", min(len(q)/4*4, 40)))
	o.Add(c, c07Input{Kind: "expr", Expr: strconv.QuoteToASCII(q), ExprX: fmt.Sprintf("%x", q)}, "e"+q, fo || po, c07EmptyKeyTags(q, true, true)...)
	c07StopIfHung(o)
}


// c07TagEmptyKey marks the inputs on which the known finding
// C07_empty_key_refused applies: an expression that uses the empty string as a
// key (written "" - there is no other way to write it).
const c07TagEmptyKey = "C07_empty_key"

func c07FilterHasEmptyKey(f parse.Filter) bool {
	switch f := f.(type) {
	case *parse.FilterMatch:
		return f.Key == ""
	case *parse.FilterOp:
		for _, e := range f.Exprs {
			if c07FilterHasEmptyKey(e) {
				return true
			}
		}
	}
	return false
}

// c07EmptyKeyTags decides from the text alone whether it uses the empty key:
// the text is read by the syntax layer (ParseFilter / ParseProjection: no
// semantic check happens there) and the keys of what it wrote are inspected.
// A text the syntax layer refuses uses no key at all.
func c07EmptyKeyTags(q string, asFilter, asProj bool) []string {
	hit := false
	c07Guard(func() hx.Sx {
		if asFilter {
			if f, err := parse.ParseFilter(q); err == nil && c07FilterHasEmptyKey(f) {
				hit = true
			}
		}
		if asProj {
			if fs, err := parse.ParseProjection(q); err == nil {
				for _, f := range fs {
					if f.Key == "" {
						hit = true
					}
				}
			}
		}
		return hx.L()
	})
	if hit {
		return []string{c07TagEmptyKey}
	}
	return nil
}

func c07TreeHasEmptyKey(n *c07N) bool {
	if n == nil {
		return false
	}
	if (n.Op == 0 || n.Op == 4) && n.Key == "" {
		return true
	}
	for _, s := range n.Subs {
		if c07TreeHasEmptyKey(s) {
			return true
		}
	}
	return false
}

// c07Doc is the production
//
//	bareWord = [^F][^R]*
//
// of the package documentation benchproc/syntax of the tree under test: the
// characters the two classes name, and whether they name white space (\s).
// "The documented special characters" of the property are read from here, not
// from the tokenizer.
type c07Doc struct {
	First, Rest     []rune
	FirstSp, RestSp bool
}

func (d c07Doc) sx() hx.Sx {
	l := func(rs []rune) hx.Sx {
		var out []hx.Sx
		for _, r := range rs {
			out = append(out, hx.I(int(r)))
		}
		return hx.List(out)
	}
	return hx.L(l(d.First), hx.Bool(d.FirstSp), l(d.Rest), hx.Bool(d.RestSp))
}

var c07DocRe = regexp.MustCompile(`(?m)^//\s*bareWord\s*=\s*\[\^((?:[^\]\\]|\\.)+)\]\[\^((?:[^\]\\]|\\.)+)\]\*\s*$`)

func c07DocClass(body string) (rs []rune, sp bool, err error) {
	esc := false
	for _, r := range body {
		switch {
		case esc && r == 's':
			sp = true
		case esc && r == 't':
			rs = append(rs, '\t')
		case esc && r == 'n':
			rs = append(rs, '\n')
		case esc && r == 'r':
			rs = append(rs, '\r')
		case esc && (r == '\\' || r == ']' || r == '[' || r == '^' || r == '-' || r == '"'):
			rs = append(rs, r)
		case esc:
			return nil, false, fmt.Errorf("escape \\%c in a character class of bareWord not understood", r)
		case r == '\\':
			esc = true
			continue
		default:
			rs = append(rs, r)
		}
		esc = false
	}
	return rs, sp, nil
}

func c07ReadDoc() (c07Doc, error) {
	root := os.Getenv("VERIF_REPO")
	if root == "" {
		root = "/repo"
	}
	path := filepath.Join(root, "benchproc", "syntax", "doc.go")
	src, err := os.ReadFile(path)
	if err != nil {
		return c07Doc{}, err
	}
	ms := c07DocRe.FindAllSubmatch(src, -1)
	if len(ms) != 1 {
		return c07Doc{}, fmt.Errorf("%s: expected exactly one production bareWord = [^..][^..]*, found %d", path, len(ms))
	}
	var d c07Doc
	if d.First, d.FirstSp, err = c07DocClass(string(ms[0][1])); err != nil {
		return c07Doc{}, err
	}
	if d.Rest, d.RestSp, err = c07DocClass(string(ms[0][2])); err != nil {
		return c07Doc{}, err
	}
	return d, nil
}

var c07TheDoc c07Doc

// canonical quoting of the theorems: escape ", \ and every byte outside 0x20..0x7e as \xHH
func c07Canon(s string) string {
	var b strings.Builder
	b.WriteByte('"')
	for i := 0; i < len(s); i++ {
		c := s[i]
		switch {
		case c == '"' || c == '\\':
			b.WriteByte('\\')
			b.WriteByte(c)
		case c >= 0x20 && c <= 0x7e:
			b.WriteByte(c)
		default:
			fmt.Fprintf(&b, `\x%02x`, c)
		}
	}
	b.WriteByte('"')
	return b.String()
}

func c07Quote(o *hx.Out, k, v string) {
	ck, cv, gk, gv := c07Canon(k), c07Canon(v), strconv.Quote(k), strconv.Quote(v)
	// a result holding the tricky strings
	name := "BenchX"
	res := &benchfmt.Result{Iters: 1, Values: []benchfmt.Value{{Value: 1, Unit: "sec/op"}}}
	switch {
	case k == ".name" || k == ".fullname":
		name = v
	case strings.HasPrefix(k, "/"):
		name = "BenchX" + k + "=" + v
	case k != "":
		res.SetConfig(k, v)
	}
	res.SetConfig("other", "x")
	res.Name = benchfmt.Name(name)
	var cfgT []hx.Sx
	for _, c := range res.Config {
		cfgT = append(cfgT, hx.L(hx.S(c.Key), hx.B(c.Value), hx.Bool(c.File)))
	}
	mall := 2
	nf := c07Guard(func() hx.Sx {
		f, err := benchproc.NewFilter(gk + ":" + gv)
		if err != nil {
			return c07Err(err)
		}
		m, err := f.Match(res)
		if err != nil {
			return hx.L(hx.I(3))
		}
		if m.All() {
			mall = 1
		} else {
			mall = 0
		}
		return hx.L(hx.I(0))
	})
	got := ""
	np := c07Guard(func() hx.Sx {
		var pp benchproc.ProjectionParser
		p, err := pp.Parse(gk, nil)
		if err != nil {
			return c07Err(err)
		}
		key := p.Project(res)
		if f := p.Fields(); len(f) == 1 && !f[0].IsTuple {
			got = key.Get(f[0])
		}
		return hx.L(hx.I(0))
	})
	c := hx.L(hx.I(2), hx.S(k), hx.S(v), hx.S(ck), hx.S(cv), hx.S(gk), hx.S(gv),
		c07ParseFilter(ck+":"+cv), c07ParseProjection(ck), c07ParseFilter(gk+":"+gv), c07ParseProjection(gk),
		hx.S(name), hx.List(cfgT), nf, hx.I(mall), np, hx.S(got))
	o.Count(fmt.Sprintf("quote keylen=%d vallen=%d", len(k), len(v)))
	var tags []string
	if k == "" {
		tags = []string{c07TagEmptyKey}
	}
	o.Add(c, c07Input{Kind: "quote", Key: fmt.Sprintf("%x", k), Value: fmt.Sprintf("%x", v)}, "q"+k+"\x00"+v, len(k)+len(v) > 0, tags...)
	c07StopIfHung(o)
}

// quoted words inside a value list and a fixed-order list (kind 3)
func c07QList(o *hx.Out, k, v, v2 string) {
	ck, cv, cv2 := c07Canon(k), c07Canon(v), c07Canon(v2)
	gk, gv, gv2 := strconv.Quote(k), strconv.Quote(v), strconv.Quote(v2)
	vl := func(a, b, c string) string { return a + ":(" + b + " OR " + c + ")" }
	fx := func(a, b, c string) string { return a + "@(" + b + " " + c + ")" }
	c := hx.L(hx.I(3), hx.S(k), hx.S(v), hx.S(v2), hx.S(ck), hx.S(cv), hx.S(cv2), hx.S(gk), hx.S(gv), hx.S(gv2),
		c07ParseFilter(vl(ck, cv, cv2)), c07ParseFilter(vl(gk, gv, gv2)),
		c07ParseProjection(fx(ck, cv, cv2)), c07ParseProjection(fx(gk, gv, gv2)))
	o.Count("quoted-lists")
	o.Add(c, c07Input{Kind: "quoted-lists", Key: fmt.Sprintf("%x", k), Value: fmt.Sprintf("%x|%x", v, v2)}, "l"+k+"\x00"+v+"\x00"+v2, true)
	c07StopIfHung(o)
}

// bare (unquoted) words (kind 4): w:v as filter, w as projection, k@(w v)
func c07Bare(o *hx.Out, w, v string) {
	q := w + ":" + v
	fo := c07ParseFilter(q)
	c := hx.L(hx.I(4), hx.S(w), hx.S(v), c07Oracle(q), fo, c07ParseProjection(w), c07ParseProjection("k@("+w+" "+v+")"), c07TheDoc.sx())
	ok := fo.Text()[:2] == "(0"
	o.Count(fmt.Sprintf("bare filter_ok=%v", ok))
	o.Add(c, c07Input{Kind: "bare", Key: fmt.Sprintf("%x", w), Value: fmt.Sprintf("%x", v)}, "b"+w+"\x00"+v, ok)
	c07StopIfHung(o)
}

// words that are keywords only when bare
var c07Words = []string{"AND", "OR", "and", "ANDx", "or", "xOR", "AND OR", "-AND", "OR:"}

// symbols of bare words: ASCII, letters whose UTF-8 encoding contains 0x85 / 0xA0
// (à Å ą 入 Ġ), the spaces U+0085 U+00A0 U+2003 themselves, raw 0x85 0xA0 0xff 0xc3,
// characters that are special only at the start, and the specials
var c07BareSyms = []string{"a", "b", "7", ".", "=", "_", "à", "Å", "ą", "入", "Ġ", "é", "\u0085", "\u00a0", "\u2003",
	"\x85", "\xa0", "\xff", "\xc3", "\xe5\x85", "-", "*", "/", "\"", "\\", "AND", "OR", "and", "ANDx", "x",
	" ", "(", ")", ":", "@", ",", "\t",
	// more white space that the documentation's blank does not cover
	"\n", "\r", "\v", "\f", "\u1680", "\u2028", "\u3000"}

var c07Alphabet = []string{"\"", "\\", " ", "(", ")", ":", "@", ",", "-", "*", "/", "a", "\xff", "é"}

var c07Pieces = []string{
	" ", " ", " ", "  ", "\t", "\n", "\u00a0", "\u2003", "\xa0", "\x85", "\u3000",
	"(", ")", ":", ":", ":", "@", ",", "-", "*", "AND", "OR", " AND ", " OR ", "AND:", "ORx",
	"a", "b", "k", "v", ".name", ".fullname", ".unit", ".config", "/k", "/gomaxprocs", "goos", "é", "x-y", "a*b", "a/b",
	`""`, `"a"`, `"a b"`, `"a\"b"`, `"a\\"`, `"\\"`, `"\x41"`, `"\x4"`, `"\xzz"`, `"\101"`, `"\377"`, `"\400"`, `"\18"`,
	`"\u00e9"`, `"\ud800"`, `"\U0001F600"`, `"\U00110000"`, `"\Uffffffff"`, `"\u12"`, `"\'"`, `"\a\b\f\n\r\t\v"`, `"\q"`,
	"\"\xff\"", "\"é\xc3\"", "\"a\nb\"", `"abc`, `"a\`, `"`, `'a'`, "`a`",
	"/a/", "/a.*/", "/[/]/", "/(/)/", "/(a|b)/", "/a\\/b/", "/a/b", "/[a/", "/(a/", "/)/", "/a", "/", "//", "/a\\", "/*/", "/a/ ", "/a/)", "/[]/]/", "/\xff/",
	"@alpha", "@num", "@first", "@fixed", "@bogus", "@(a b)", "@()", "@(a", "@(a,b)", "@\"alpha\"", "@", "@@",
	"k:v", "k:\"v\"", "k:/v/", "k:(a OR b)", "k:(a b)", "k:()", "k:(a OR", "k:", ":v", "k v", "-k:v", "--k:v", "-*", "(k:v)", "(k:v", "k:v)", "()",
	"(a:b", "a:\"b", "a:/b", "a@()", "a@bogus", "a:b .config:c", ".name:\"a\\\\\"",
	"k:/*/", "k:/a**/", "k:(/+/ OR b)", "k:/a/ j:/?/", "k:/[a-/", "k:/\\/", "k:/(?P<n>a)/", "k:/a{2,1}/",
	".unit:ns/op", ".config:x", ".unit", ".config@(a)", ".config@alpha", ".fullname@(a b)", "\"\":v", "\"\"",
}

func c07Soup(r *hx.Rng) string {
	n := r.Range(1, 7)
	var b strings.Builder
	for i := 0; i < n; i++ {
		if r.Chance(0.12) {
			b.WriteString(c07Alphabet[r.Intn(len(c07Alphabet))])
		} else {
			b.WriteString(c07Pieces[r.Intn(len(c07Pieces))])
		}
	}
	s := b.String()
	// byte noise
	if r.Chance(0.25) && len(s) > 0 {
		bs := []byte(s)
		for k := r.Range(1, 3); k > 0; k-- {
			i := r.Intn(len(bs))
			switch r.Intn(4) {
			case 0:
				bs[i] = byte(r.Intn(256))
			case 1:
				bs = append(bs[:i], bs[i+1:]...)
			case 2:
				bs = append(bs[:i], append([]byte{c07Alphabet[r.Intn(len(c07Alphabet))][0]}, bs[i:]...)...)
			case 3:
				bs = bs[:i]
			}
			if len(bs) == 0 {
				break
			}
		}
		s = string(bs)
	}
	return s
}

// mostly valid filter / projection expressions
func c07ValidFilter(r *hx.Rng, depth int) string {
	keys := []string{".name", ".fullname", "/k", "goos", ".unit", `"a b"`, `"\x2fk"`, "é", "pkg"}
	vals := []string{"v", `"v w"`, "/a.*/", "/[/]x/", "1", `"\\"`, `"a\"b"`, "x-y", "/(a|b)/", `"é"`, "(a OR b)", `(/x/ OR "y" OR z)`}
	if depth <= 0 || r.Chance(0.35) {
		return keys[r.Intn(len(keys))] + ":" + vals[r.Intn(len(vals))]
	}
	switch r.Intn(6) {
	case 0:
		return "-" + c07ValidFilter(r, depth-1)
	case 1:
		return "(" + c07ValidFilter(r, depth-1) + ")"
	case 2:
		return c07ValidFilter(r, depth-1) + " AND " + c07ValidFilter(r, depth-1)
	case 3:
		return c07ValidFilter(r, depth-1) + " OR " + c07ValidFilter(r, depth-1)
	case 4:
		return c07ValidFilter(r, depth-1) + r.Pick([]string{" ", "  ", "\t", "\u00a0"}) + c07ValidFilter(r, depth-1)
	}
	return "*"
}

func c07ValidProj(r *hx.Rng) string {
	keys := []string{".name", ".fullname", "/k", "goos", ".config", `"a b"`, "é", "pkg", `"\x2fk"`}
	ords := []string{"", "", "@alpha", "@num", "@first", "@(a b)", `@("x y" z)`, "@ alpha", "@( a )"}
	n := r.Range(1, 4)
	var parts []string
	for i := 0; i < n; i++ {
		parts = append(parts, keys[r.Intn(len(keys))]+ords[r.Intn(len(ords))])
	}
	return strings.Join(parts, r.Pick([]string{",", " ", ", ", " , "}))
}


// ---------- structured expressions (kinds 5 and 6) ----------
//
// The generator builds the TREE first and prints it in the documented syntax
// (bare word where the word has no special character, else a double-quoted Go
// literal; juxtaposition or AND; OR; '-'; '*'; key:(v OR v); parentheses where
// the grammar needs them, sometimes more), noting the byte offset of every key.
// The case carries the intended tree, so the specification predicate can say
// "the text denotes exactly these strings in exactly this structure" and, for
// trees holding a semantic error (.config / empty key in a filter; .unit /
// empty key / unknown order / .config with a list in a projection), "rejected
// with an error positioned at one of the offending terms".

type c07V struct {
	S  string
	Re bool
}

type c07N struct {
	Op   int // 0 match, 1 and, 2 or, 3 not, 4 key:(v OR v ...)
	Key  string
	QK   int // key: 0 = bare if possible else quoted, 1 = quoted (strconv), 2 = quoted (canonical)
	Vals []c07V
	Subs []*c07N
}

func c07BareOK(w string, value bool) bool {
	if w == "" || w == "AND" || w == "OR" {
		return false
	}
	if strings.IndexByte(`-*"():@,`, w[0]) >= 0 || (value && w[0] == '/') {
		return false
	}
	for _, r := range w {
		if r == 0xFFFD || r < 0x21 || r == 0x7f || unicode.IsSpace(r) || strings.ContainsRune(`():@,"`, r) {
			return false
		}
	}
	return true
}

func c07Word(r *hx.Rng, w string, value bool, q int) string {
	if q == 0 && c07BareOK(w, value) {
		return w
	}
	if q == 2 || (q == 0 && r.Chance(0.5)) {
		return c07Canon(w)
	}
	return strconv.Quote(w)
}

type c07Pr struct {
	b strings.Builder
	r *hx.Rng
}

func (p *c07Pr) val(v c07V) hx.Sx {
	if v.Re {
		p.b.WriteString("/" + v.S + "/")
		return hx.L(hx.I(1), hx.S(v.S))
	}
	p.b.WriteString(c07Word(p.r, v.S, true, p.r.Intn(2)*p.r.Intn(3)))
	return hx.L(hx.I(0), hx.S(v.S))
}

// term: something that can stand after '-' or inside an AND sequence
func (p *c07Pr) term(n *c07N) hx.Sx {
	if p.r.Chance(0.08) { // parentheses that change nothing
		p.b.WriteString("(")
		x := p.expr(n)
		p.b.WriteString(")")
		return x
	}
	switch n.Op {
	case 0:
		off := p.b.Len()
		p.b.WriteString(c07Word(p.r, n.Key, false, n.QK))
		p.b.WriteString(p.r.Pick([]string{":", ":", ":", " :", ": ", " : "}))
		m := p.val(n.Vals[0])
		return hx.L(hx.I(0), hx.S(n.Key), m, hx.I(off))
	case 4:
		off := p.b.Len()
		p.b.WriteString(c07Word(p.r, n.Key, false, n.QK))
		p.b.WriteString(p.r.Pick([]string{":(", ":(", ":( ", ": ("}))
		var ms []hx.Sx
		for i, v := range n.Vals {
			if i > 0 {
				p.b.WriteString(" OR ")
			}
			ms = append(ms, hx.L(hx.I(0), hx.S(n.Key), p.val(v), hx.I(off)))
		}
		p.b.WriteString(p.r.Pick([]string{")", ")", " )"}))
		return hx.L(hx.I(2), hx.List(ms))
	case 3:
		p.b.WriteString("-")
		return hx.L(hx.I(3), p.term(n.Subs[0]))
	}
	if n.Op == 1 && len(n.Subs) == 0 {
		p.b.WriteString("*")
		return hx.L(hx.I(1), hx.L())
	}
	p.b.WriteString("(")
	x := p.expr(n)
	p.b.WriteString(")")
	return x
}

// seq: an operand of OR - an AND sequence may stand bare
func (p *c07Pr) seq(n *c07N) hx.Sx {
	if n.Op != 1 || len(n.Subs) < 2 {
		return p.term(n)
	}
	var l []hx.Sx
	for i, s := range n.Subs {
		if i > 0 {
			p.b.WriteString(p.r.Pick([]string{" ", " ", " AND ", "  ", "\t"}))
		}
		l = append(l, p.term(s))
	}
	return hx.L(hx.I(1), hx.List(l))
}

func (p *c07Pr) expr(n *c07N) hx.Sx {
	if n.Op != 2 || len(n.Subs) < 2 {
		return p.seq(n)
	}
	var l []hx.Sx
	for i, s := range n.Subs {
		if i > 0 {
			p.b.WriteString(" OR ")
		}
		l = append(l, p.seq(s))
	}
	return hx.L(hx.I(2), hx.List(l))
}

var c07SKeys = []string{"a", "goos", ".name", ".fullname", ".unit", "/k", "/gomaxprocs", "c d", "c", "AND", "OR", "a\"b", "x\\", "-x", "*", "é", "\xff", "(", "a:b", "k@", ",", "pkg", "a/b", "x-y"}
var c07SVals = []string{"v", "b", "x y", "", "AND", "OR", "a\"b", "\\", "-v", "*", "/x", "é", "\xff", ")", "1", "a:b", "x-y", "a OR b"}
var c07SRes = []string{"a.*", "[/]x", "(a|b)", "^x$", "", "a\\/b", "[)]"}

func c07RandV(r *hx.Rng, litOnly bool) c07V {
	if !litOnly && r.Chance(0.2) {
		return c07V{S: r.Pick(c07SRes), Re: true}
	}
	return c07V{S: r.Pick(c07SVals)}
}

func c07GoodTerm(r *hx.Rng) *c07N {
	n := &c07N{Key: r.Pick(c07SKeys), QK: []int{0, 0, 1, 2}[r.Intn(4)]}
	if r.Chance(0.25) {
		n.Op = 4
		for i, k := 0, r.Range(1, 3); i < k; i++ {
			n.Vals = append(n.Vals, c07RandV(r, false))
		}
		return n
	}
	n.Vals = []c07V{c07RandV(r, false)}
	return n
}

func c07RandTree(r *hx.Rng, depth int) *c07N {
	if depth <= 0 || r.Chance(0.3) {
		if r.Chance(0.06) {
			return &c07N{Op: 1}
		}
		return c07GoodTerm(r)
	}
	switch r.Intn(5) {
	case 0:
		return &c07N{Op: 3, Subs: []*c07N{c07RandTree(r, depth-1)}}
	case 1, 2:
		n := &c07N{Op: 1}
		for i, k := 0, r.Range(2, 4); i < k; i++ {
			n.Subs = append(n.Subs, c07RandTree(r, depth-1))
		}
		return n
	}
	n := &c07N{Op: 2}
	for i, k := 0, r.Range(2, 3); i < k; i++ {
		n.Subs = append(n.Subs, c07RandTree(r, depth-1))
	}
	return n
}

// the semantic errors of filters, as terms
func c07BadTerms() []*c07N {
	lit := func(s ...string) []c07V {
		var l []c07V
		for _, x := range s {
			l = append(l, c07V{S: x})
		}
		return l
	}
	m := func(k string, v c07V) *c07N { return &c07N{Key: k, Vals: []c07V{v}} }
	return []*c07N{
		m(".config", c07V{S: "v"}),
		m(".config", c07V{S: "x y"}),
		m(".config", c07V{S: "a.*", Re: true}),
		{Op: 4, Key: ".config", Vals: lit("a", "b")},
		{Op: 4, Key: ".config", Vals: lit("x y", "z")},
		{Op: 4, Key: ".config", QK: 1, Vals: lit("a", "b", "c")},
		{Op: 4, Key: ".config", Vals: []c07V{{S: "a", Re: true}, {S: "b"}}},
		{Op: 4, Key: ".config", Vals: lit("a")},
		{Op: 2, Subs: []*c07N{m(".config", c07V{S: "a"}), m(".config", c07V{S: "b"})}},
		{Op: 2, Subs: []*c07N{m(".config", c07V{S: "a"}), m(".config", c07V{S: "b c"}), m(".config", c07V{S: "c"})}},
		m("", c07V{S: "v"}),
		{Op: 4, Key: "", Vals: lit("a", "b")},
	}
}

// templates with slots: every position a term can take
func c07Templates() []func(s []*c07N) *c07N {
	and := func(x ...*c07N) *c07N { return &c07N{Op: 1, Subs: x} }
	or := func(x ...*c07N) *c07N { return &c07N{Op: 2, Subs: x} }
	not := func(x *c07N) *c07N { return &c07N{Op: 3, Subs: []*c07N{x}} }
	return []func(s []*c07N) *c07N{
		func(s []*c07N) *c07N { return s[0] },
		func(s []*c07N) *c07N { return not(s[0]) },
		func(s []*c07N) *c07N { return and(s[0], s[1], s[2]) },
		func(s []*c07N) *c07N { return or(s[0], s[1], s[2]) },
		func(s []*c07N) *c07N { return and(s[0], or(s[1], s[2])) },
		func(s []*c07N) *c07N { return or(not(and(s[0], s[1])), s[2]) },
		func(s []*c07N) *c07N { return and(s[0], not(or(s[1], and(s[2], s[3])))) },
		func(s []*c07N) *c07N { return or(and(s[0], s[1]), and(s[2], not(s[3]))) },
	}
}

var c07TemplateSlots = []int{1, 1, 3, 3, 3, 3, 4, 4}

func c07SFilter(o *hx.Out, r *hx.Rng, n *c07N, fam string) {
	p := &c07Pr{r: r}
	want := p.expr(n)
	q := p.b.String()
	fp := c07ParseFilter(q)
	nf := c07NewFilter(q)
	c := hx.L(hx.I(5), hx.S(q), c07Oracle(q), want, fp, nf)
	o.Count(fmt.Sprintf("sfilter %s parse_ok=%v new_ok=%v", fam, fp.Text()[:2] == "(0", nf.Text()[:2] == "(0"))
	var tags []string
	if c07TreeHasEmptyKey(n) {
		tags = []string{c07TagEmptyKey}
	}
	o.Add(c, c07Input{Kind: "sfilter:" + fam, Expr: strconv.QuoteToASCII(q), ExprX: fmt.Sprintf("%x", q)}, "s"+q, true, tags...)
	c07StopIfHung(o)
}

// projections
type c07F struct {
	Key   string
	QK    int
	Order string // "" = none written
	QO    bool
	Fixed []string
	// EmptyOrd: the order is written, as the quoted empty word: key@"" (order name "")
	EmptyOrd bool
}

func c07SProj(o *hx.Out, r *hx.Rng, fs []c07F, seps []string, fam string) {
	var b strings.Builder
	var want []hx.Sx
	for i, f := range fs {
		if i > 0 {
			b.WriteString(seps[(i-1)%len(seps)])
		}
		koff := b.Len()
		b.WriteString(c07Word(r, f.Key, false, f.QK))
		ooff := koff + len(f.Key)
		order := "first"
		switch {
		case f.Fixed != nil:
			b.WriteString(r.Pick([]string{"@", "@", " @", "@ "}))
			ooff = b.Len()
			order = "fixed"
			b.WriteString(r.Pick([]string{"(", "(", "( "}))
			for j, w := range f.Fixed {
				if j > 0 {
					b.WriteString(r.Pick([]string{" ", " ", "  ", "\t"}))
				}
				b.WriteString(c07Word(r, w, false, r.Intn(2)*r.Intn(3)))
			}
			b.WriteString(r.Pick([]string{")", ")", " )"}))
		case f.EmptyOrd:
			b.WriteString(r.Pick([]string{"@", "@", "@", " @", "@ "}))
			ooff = b.Len()
			order = ""
			b.WriteString(`""`)
		case f.Order != "":
			b.WriteString(r.Pick([]string{"@", "@", "@", " @", "@ "}))
			ooff = b.Len()
			order = f.Order
			if f.QO {
				b.WriteString(strconv.Quote(f.Order))
			} else {
				b.WriteString(f.Order)
			}
		}
		want = append(want, hx.L(hx.S(f.Key), hx.S(order), hx.SList(f.Fixed), hx.I(koff), hx.I(ooff)))
	}
	q := b.String()
	pp := c07ParseProjection(q)
	np := c07NewProjection(q)
	c := hx.L(hx.I(6), hx.S(q), hx.List(want), pp, np)
	o.Count(fmt.Sprintf("sproj %s parse_ok=%v new_ok=%v", fam, pp.Text()[:2] == "(0", np.Text()[:2] == "(0"))
	var tags []string
	for _, f := range fs {
		if f.Key == "" {
			tags = []string{c07TagEmptyKey}
		}
	}
	o.Add(c, c07Input{Kind: "sproj:" + fam, Expr: strconv.QuoteToASCII(q), ExprX: fmt.Sprintf("%x", q)}, "p"+q, true, tags...)
	c07StopIfHung(o)
}

var c07PKeys = []string{".name", "pkg", "a b", "/k", ".fullname", ".config", "/size", "/gomaxprocs", "é", "AND", "/q r", "x-y", "a\"b", "*", "-k"}

func c07RandField(r *hx.Rng) c07F {
	f := c07F{Key: r.Pick(c07PKeys), QK: []int{0, 0, 0, 1, 2}[r.Intn(5)]}
	switch r.Intn(6) {
	case 0:
		f.Order = r.Pick([]string{"alpha", "num", "first"})
		f.QO = r.Chance(0.2)
	case 1:
		if f.Key != ".config" {
			for i, k := 0, r.Range(1, 3); i < k; i++ {
				f.Fixed = append(f.Fixed, r.Pick(c07SVals))
			}
		}
	}
	return f
}

func c07Structured(o *hx.Out, r *hx.Rng, tier string) {
	mul := 1
	if tier == "thorough" {
		mul = 20
	}
	m := func(k string, qk int) *c07N { return &c07N{Key: k, QK: qk, Vals: []c07V{c07RandV(r, true)}} }
	// (C07-b) quoted keys in every position of an AND sequence, bare, in parentheses,
	// under '-', as operand of OR
	keys := []string{"a", "c d", "c", "goos", "x:y"}
	for rep := 0; rep < mul; rep++ {
		for nt := 2; nt <= 3; nt++ {
			for mask := 0; mask < 1<<nt; mask++ {
				for wrap := 0; wrap < 6; wrap++ {
					seq := &c07N{Op: 1}
					for i := 0; i < nt; i++ {
						qk := 0
						if mask&(1<<i) != 0 {
							qk = 1 + r.Intn(2)
						}
						seq.Subs = append(seq.Subs, m(keys[r.Intn(len(keys))], qk))
					}
					var n *c07N
					switch wrap {
					case 0:
						n = seq
					case 1:
						n = &c07N{Op: 1, Subs: []*c07N{m("x", 0), seq}}
					case 2:
						n = &c07N{Op: 3, Subs: []*c07N{seq}}
					case 3:
						n = &c07N{Op: 2, Subs: []*c07N{seq, m("x", 0)}}
					case 4:
						n = &c07N{Op: 2, Subs: []*c07N{m("x", 0), seq}}
					default:
						n = &c07N{Op: 1, Subs: []*c07N{{Op: 2, Subs: []*c07N{seq, m("y", 1)}}, m("z", 1)}}
					}
					c07SFilter(o, r, n, "quoted-key-sequence")
				}
			}
		}
	}
	// (C07-a) every semantic rejection at every position of every template
	for rep := 0; rep < mul; rep++ {
		for ti, t := range c07Templates() {
			for slot := 0; slot < c07TemplateSlots[ti]; slot++ {
				for _, bad := range c07BadTerms() {
					var sl []*c07N
					for i := 0; i < c07TemplateSlots[ti]; i++ {
						if i == slot {
							sl = append(sl, bad)
						} else {
							sl = append(sl, c07GoodTerm(r))
						}
					}
					c07SFilter(o, r, t(sl), "rejection-at-slot")
				}
			}
		}
	}
	// random trees, good and with one or two terms made bad
	for i := 0; i < 500*mul; i++ {
		c07SFilter(o, r, c07RandTree(r, r.Range(1, 4)), "random")
	}
	bads := c07BadTerms()
	for i := 0; i < 250*mul; i++ {
		ts := c07Templates()
		ti := r.Intn(len(ts))
		var sl []*c07N
		nb := 0
		for j := 0; j < c07TemplateSlots[ti]; j++ {
			if r.Chance(0.35) {
				sl = append(sl, bads[r.Intn(len(bads))])
				nb++
			} else {
				sl = append(sl, c07RandTree(r, r.Range(0, 2)))
			}
		}
		if nb == 0 {
			sl[r.Intn(len(sl))] = bads[r.Intn(len(bads))]
		}
		c07SFilter(o, r, ts[ti](sl), "random-with-rejections")
	}

	// (C07-b) projections: two fields, the second an unquoted /key, every separator
	seps := []string{" ", "\t", "  ", ",", ", ", " , "}
	for rep := 0; rep < mul; rep++ {
		for _, k1 := range []string{".name", "pkg", "a b", "/k", ".fullname", ".config"} {
			for _, k2 := range []string{"/size", "/gomaxprocs", "/k", "/q r", ".name"} {
				for _, sep := range seps {
					for ord := 0; ord < 3; ord++ {
						f1 := c07F{Key: k1}
						if r.Chance(0.3) {
							f1.Order = "alpha"
						}
						f2 := c07F{Key: k2}
						switch ord {
						case 1:
							f2.Order = "num"
						case 2:
							f2.Fixed = []string{"a", r.Pick(c07SVals)}
						}
						fam := "slash-key-after-space"
						if strings.Contains(sep, ",") {
							fam = "slash-key-after-comma"
						}
						c07SProj(o, r, []c07F{f1, f2}, []string{sep}, fam)
					}
				}
			}
		}
	}
	for i := 0; i < 300*mul; i++ {
		var fs []c07F
		for j, k := 0, r.Range(1, 4); j < k; j++ {
			fs = append(fs, c07RandField(r))
		}
		c07SProj(o, r, fs, []string{r.Pick(seps), r.Pick(seps)}, "random")
	}
	// (C07-a) the semantic rejections of projections at every position
	badF := []c07F{{Key: ".unit"}, {Key: ".unit", Order: "alpha"}, {Key: ".unit", Fixed: []string{"a", "b"}}, {Key: "", QK: 1},
		{Key: "k", Order: "bogus"}, {Key: "k", Order: "bogus", QO: true}, {Key: ".config", Fixed: []string{"a", "b"}},
		{Key: ".fullname", Order: "Alpha"}, {Key: "/k", Order: "numeric"}, {Key: ".unit", Order: "bogus"}, {Key: "", QK: 2, Fixed: []string{"x"}}}
	for rep := 0; rep < mul; rep++ {
		for total := 1; total <= 3; total++ {
			for pos := 0; pos < total; pos++ {
				for _, bf := range badF {
					for _, sep := range []string{",", " "} {
						var fs []c07F
						for j := 0; j < total; j++ {
							if j == pos {
								fs = append(fs, bf)
							} else {
								fs = append(fs, c07RandField(r))
							}
						}
						c07SProj(o, r, fs, []string{sep}, "rejection-at-position")
					}
				}
			}
		}
	}
	c07EmptyWord(o, r, mul)
}

// c07EmptyWord: the quoted EMPTY word "" in every syntactic position.
// Projections: as sort order (key@"" - an unknown order, always rejected, at
// the order's offset) for every kind of key, at every position of 1-3 fields,
// with every separator; as key; as member of a fixed list (first, middle,
// last, only, repeated - accepted: the list holds the empty string).  Filters:
// as key (rejected), as value, as member of a value list, as unit
// (.unit:"" - accepted, denotes the empty string), under '-', in
// parentheses, next to other terms.
func c07EmptyWord(o *hx.Out, r *hx.Rng, mul int) {
	seps := []string{",", " ", ", ", "\t", " , "}
	keys := []string{"a", ".name", ".fullname", "/size", "/gomaxprocs", "pkg", "a b", ".config", ".unit", "", "é", "-k"}
	count := func(c string) { o.Count("class:empty-word:" + c) }
	for rep := 0; rep < mul; rep++ {
		// the documented witnesses first
		c07SProj(o, r, []c07F{{Key: "a", EmptyOrd: true}}, []string{","}, "empty-order")
		count("as-sort-order")
		c07SProj(o, r, []c07F{{Key: ".name"}, {Key: "/size", EmptyOrd: true}, {Key: "b"}}, []string{","}, "empty-order")
		count("as-sort-order")
		for _, k := range keys {
			for total := 1; total <= 3; total++ {
				for pos := 0; pos < total; pos++ {
					for _, sep := range seps[:2+r.Intn(len(seps)-1)] {
						var fs []c07F
						for j := 0; j < total; j++ {
							if j == pos {
								fs = append(fs, c07F{Key: k, QK: []int{0, 0, 1, 2}[r.Intn(4)], EmptyOrd: true})
							} else {
								f := c07RandField(r)
								if r.Chance(0.15) {
									f = c07F{Key: r.Pick(keys[:8]), EmptyOrd: true} // two empty orders
								}
								fs = append(fs, f)
							}
						}
						c07SProj(o, r, fs, []string{sep}, "empty-order")
						count("as-sort-order")
					}
				}
			}
		}
		// fixed lists holding the empty word
		lists := [][]string{{""}, {"", "a"}, {"a", ""}, {"a", "", "b"}, {"", ""}, {"", "AND"}, {"x y", ""}, {"", "", ""}}
		for _, l := range lists {
			for _, k := range []string{"a", ".name", "/size", ".fullname", "pkg", "", ".config", ".unit"} {
				fs := []c07F{{Key: k, QK: r.Intn(3), Fixed: l}}
				switch r.Intn(3) {
				case 0:
					fs = append([]c07F{c07RandField(r)}, fs...)
				case 1:
					fs = append(fs, c07RandField(r))
				}
				c07SProj(o, r, fs, []string{r.Pick(seps)}, "empty-fixed-member")
				count("as-fixed-list-member")
			}
		}
		// the empty key in a projection, alone and among others (badF has it once; here with orders)
		for _, f := range []c07F{{Key: "", QK: 1}, {Key: "", QK: 2, Order: "alpha"}, {Key: "", QK: 1, EmptyOrd: true}, {Key: "", QK: 1, Fixed: []string{""}}} {
			for total := 1; total <= 2; total++ {
				for pos := 0; pos < total; pos++ {
					var fs []c07F
					for j := 0; j < total; j++ {
						if j == pos {
							fs = append(fs, f)
						} else {
							fs = append(fs, c07RandField(r))
						}
					}
					c07SProj(o, r, fs, []string{r.Pick(seps)}, "empty-key")
					count("as-projection-key")
				}
			}
		}
		// filters
		lit := func(ss ...string) []c07V {
			var l []c07V
			for _, x := range ss {
				l = append(l, c07V{S: x})
			}
			return l
		}
		var terms []*c07N
		for _, k := range []string{"a", ".name", ".fullname", "/k", ".unit", "pkg", "c d", ".config", ""} {
			terms = append(terms,
				&c07N{Key: k, QK: r.Intn(3), Vals: lit("")},
				&c07N{Op: 4, Key: k, QK: r.Intn(3), Vals: lit("", "a")},
				&c07N{Op: 4, Key: k, QK: r.Intn(3), Vals: lit("ns/op", "")},
				&c07N{Op: 4, Key: k, QK: r.Intn(3), Vals: lit("")},
				&c07N{Op: 4, Key: k, QK: r.Intn(3), Vals: []c07V{{S: ""}, {S: "", Re: true}, {S: ""}}})
		}
		for _, v := range []string{"v", "x y", "AND"} {
			terms = append(terms, &c07N{Key: "", QK: 1 + r.Intn(2), Vals: lit(v)})
		}
		ts := c07Templates()
		for _, t := range terms {
			fam, cls := "empty-value", "as-filter-value"
			switch {
			case t.Key == "":
				fam, cls = "empty-key", "as-filter-key"
			case t.Key == ".unit":
				fam, cls = "empty-unit", "as-unit"
			}
			c07SFilter(o, r, t, fam)
			count(cls)
			for rep2 := 0; rep2 < 2; rep2++ {
				ti := r.Intn(len(ts))
				slot := r.Intn(c07TemplateSlots[ti])
				var sl []*c07N
				for i := 0; i < c07TemplateSlots[ti]; i++ {
					if i == slot {
						sl = append(sl, t)
					} else {
						sl = append(sl, c07GoodTerm(r))
					}
				}
				c07SFilter(o, r, ts[ti](sl), fam)
				count(cls)
			}
		}
	}
	// quoting cases with the empty string in every place
	for _, k := range []string{"", "k", ".name", ".unit", "/k", ".fullname", ".config"} {
		for _, v := range []string{"", "v"} {
			c07Quote(o, k, v)
			c07QList(o, k, "", v)
			c07QList(o, k, v, "")
		}
	}
}

func genC07(o *hx.Out, r *hx.Rng, tier string, replay string) error {
	o.Rule = "(d) quoted AND/OR/and/ANDx... as key, value, in value lists, as projection key and in fixed-order lists; (e) bare words over ASCII, letters whose UTF-8 contains 0x85/0xA0, U+0085/U+00A0/U+2003, raw 0x85/0xA0/0xff and the special characters, as key, value, projection key and fixed-list member; " + "(a) the table of unicode.IsSpace over all runes; (b) quoting: every string up to a length bound over the alphabet {\" \\ space ( ) : @ , - * / a 0xff é} as key (with a random value) and as value (with a random key), quoted canonically and by strconv.Quote, parsed as filter key:value and as projection, then matched / projected on a result holding the string; (f) structured expressions: the tree is generated first and printed in the documented syntax (bare or double-quoted words, juxtaposition/AND, OR, -, *, key:(v OR v), parentheses), with the offsets of the keys: quoted keys at every position of AND sequences (bare, parenthesised, negated, as OR operand); every semantic rejection of filters (.config with a literal, a regexp, a value list of 1-3 values, an OR of 2-3 .config terms, quoted; the empty key) at every slot of 8 templates and in random trees; projections as field lists printed with every separator (blank, tab, comma) incl. an unquoted /key after white space only, with orders and fixed lists, and every semantic rejection (.unit, empty key, unknown order, .config with a list) at every position; (c) expressions: grammar-generated valid filters and projections, token soup from a piece list (escapes, regexps, operators, Unicode spaces, semantic corner keys) with byte noise; (g) the quoted EMPTY word \"\" in every syntactic position: as sort order key@\"\" (unknown order) for every kind of key at every position of 1-3 fields with every separator, as projection key, as member of fixed lists, as filter key, value, value-list member and unit (.unit:\"\"), directed and in a second token soup rich in \"\". (h) regexps holding \\Q..\\E literal sections (none, one, two or more, empty, with a slash / bracket / parenthesis / backslash inside, a stray \\E, a \\Q never closed) mixed with character classes, groups and escaped slashes, as filter value, value-list member and .unit value, closed, unterminated, with a bad follower and followed by further terms: the scan for the delimiter is compared with the model exactly (corr_ok); the property judge asks only that an unterminated regexp (no slash, or only escaped ones and no literal section) is rejected, that an accepted regexp value is the text between the opening slash and a later slash, and never-a-hang. (i) bare words are judged against the character classes of the production bareWord read from the package documentation benchproc/syntax of the tree under test; the empty key \"\" carries the tag of known finding C07_empty_key_refused. non-trivial = parses as filter or projection (expressions), non-empty string (quoting)"
	doc, err := c07ReadDoc()
	if err != nil {
		// the documentation was re-worded beyond what the reader of the production understands: that alone is no
		// violation; judge against the grammar as documented at fix 97d958b (any white space ends a bare word)
		doc = c07Doc{First: []rune(`-*"():@,`), FirstSp: true, Rest: []rune(`():@,`), RestSp: true}
		o.Count("documented bareWord: production not found in doc.go, using the classes of fix 97d958b (" + err.Error() + ")")
	}
	c07TheDoc = doc
	o.Count(fmt.Sprintf("documented bareWord: first-class=%q white-space=%v rest-class=%q white-space=%v", string(doc.First), doc.FirstSp, string(doc.Rest), doc.RestSp))
	// (a) IsSpace table
	var sp []hx.Sx
	for c := rune(0); c <= unicode.MaxRune; c++ {
		if unicode.IsSpace(c) {
			sp = append(sp, hx.I(int(c)))
		}
	}
	o.Add(hx.L(hx.I(0), hx.List(sp)), c07Input{Kind: "spaces"}, "spaces", true)

	// (b) quoting
	maxLen, nrand := 2, 1200
	if tier == "thorough" {
		maxLen, nrand = 4, 4000
	}
	var all []string
	var rec func(p string, d int)
	rec = func(p string, d int) {
		all = append(all, p)
		if d == maxLen {
			return
		}
		for _, a := range c07Alphabet {
			rec(p+a, d+1)
		}
	}
	rec("", 0)
	extraKeys := []string{".name", ".fullname", ".unit", ".config", "/k", "/gomaxprocs", "goos", ""}
	randStr := func() string {
		n := r.Range(0, 6)
		s := ""
		for i := 0; i < n; i++ {
			if r.Chance(0.1) {
				s += string([]byte{byte(r.Intn(256))})
			} else {
				s += c07Alphabet[r.Intn(len(c07Alphabet))]
			}
		}
		return s
	}
	// the words AND / OR (and near misses) quoted, in every position
	for _, a := range c07Words {
		for _, b := range c07Words {
			c07Quote(o, a, b)
			c07QList(o, a, b, c07Words[r.Intn(len(c07Words))])
			c07QList(o, c07Words[r.Intn(len(c07Words))], a, b)
		}
		c07Quote(o, a, all[r.Intn(len(all))])
		c07Quote(o, all[r.Intn(len(all))], a)
	}
	for i := 0; i < nrand/4; i++ {
		pick := func() string {
			if r.Chance(0.4) {
				return c07Words[r.Intn(len(c07Words))]
			}
			return randStr()
		}
		c07QList(o, pick(), pick(), pick())
	}
	// bare words
	nbare := 1500
	if tier == "thorough" {
		nbare = 30000
	}
	bare := func() string {
		n := r.Range(1, 4)
		s := ""
		for i := 0; i < n; i++ {
			// mostly word-safe symbols (the first 24), sometimes a special
			if r.Chance(0.9) {
				s += c07BareSyms[r.Intn(24)]
			} else {
				s += c07BareSyms[r.Intn(len(c07BareSyms))]
			}
		}
		return s
	}
	for _, a := range c07BareSyms {
		c07Bare(o, a, "v")
		c07Bare(o, "k", a)
		c07Bare(o, "x"+a, "y"+a+"z")
		c07Bare(o, a+"x", a+a)
	}
	for i := 0; i < nbare; i++ {
		c07Bare(o, bare(), bare())
	}
	for _, s := range all {
		c07Quote(o, s, all[r.Intn(len(all))])
		k := all[r.Intn(len(all))]
		if r.Chance(0.5) {
			k = extraKeys[r.Intn(len(extraKeys))]
		}
		c07Quote(o, k, s)
	}
	for i := 0; i < nrand; i++ {
		k := randStr()
		if r.Chance(0.3) {
			k = extraKeys[r.Intn(len(extraKeys))]
			if r.Chance(0.3) {
				k = "/" + randStr()
			}
		}
		c07Quote(o, k, randStr())
	}
	o.Extra["exhaustive_strings_up_to_len"] = maxLen
	// all single bytes as one-byte values
	for b := 0; b < 256; b++ {
		c07Quote(o, "k", string([]byte{byte(b)}))
	}

	// (c) expressions
	nexpr := 2500
	if tier == "thorough" {
		nexpr = 60000
	}
	for _, p := range c07Pieces {
		c07Expr(o, p, "piece")
	}
	for i := 0; i < nexpr; i++ {
		switch r.Intn(5) {
		case 0:
			c07Expr(o, c07ValidFilter(r, 3), "validfilter")
		case 1:
			c07Expr(o, c07ValidProj(r), "validproj")
		default:
			c07Expr(o, c07Soup(r), "soup")
		}
	}
	// (f) structured expressions; own generator so that the streams above keep their cases
	g := r.Split()
	for _, p := range c07Pieces2 {
		c07Expr(o, p, "piece")
	}
	g2 := r.Split()
	c07Structured(o, g, tier)
	// a second soup, rich in the quoted empty word
	empties := []string{`""`, `""`, `@""`, `@""`, `:""`, `""`+":", `(""`, `"")`, `@ ""`, `,""`}
	for i := 0; i < nexpr/5; i++ {
		n := g2.Range(2, 6)
		var b strings.Builder
		for j := 0; j < n; j++ {
			switch {
			case g2.Chance(0.4):
				b.WriteString(empties[g2.Intn(len(empties))])
			case g2.Chance(0.5):
				b.WriteString(g2.Pick([]string{"a", "b", ".name", "/size", ",", " ", "@alpha", ".unit", ".config", "k:v", "(", ")", " OR ", "-", "*"}))
			default:
				b.WriteString(c07Pieces[g2.Intn(len(c07Pieces))])
			}
		}
		c07Expr(o, b.String(), "soup-empty-word")
	}
	// (h) regexps with \Q..\E literal sections in value position; own generator, last,
	// so that every stream above keeps its cases
	c07ReQuote(o, r.Split(), tier)
	return nil
}

// ---------- regexps with \Q...\E literal sections (kind 7) ----------
//
// The text is pre + "/" + s: pre is a well-formed beginning that ends where a
// value is expected and holds no regexp; s is the regexp body, the closing
// slash (or none) and what follows.  The body is put together from atoms:
// \Q..\E sections (none, one, two or more; empty; holding a slash, a bracket, a
// parenthesis, a backslash), a stray \E, a \Q that is never closed, character
// classes (with a slash, with "]" first), groups, escaped slashes and plain
// text.  The model's delimiter rule (re_scan: the first slash outside [...] and
// (...) that no backslash hides - \Q and \E are ordinary backslash pairs) is
// compared with the code exactly (corr_ok).  The property judge (prop_ok) asks
// only what the statement says: an unterminated regexp is rejected, an accepted
// regexp value is the text between its delimiters, never a hang / panic.

var c07QSections = []string{`\Qa\E`, `\Qb\E`, `\Qa.b\E`, `\Q\E`, `\Q.*\E`, `\Qab\E`, `\Q+\E`, `\Q\.\E`, `\Q\\E`}
var c07QTricky = []string{`\Q/\E`, `\Qa/b\E`, `\Q[\E`, `\Q]\E`, `\Q(\E`, `\Q)\E`, `\Q[/\E`, `\Q(/\E`, `\Q\/\E`, `\Qa\Qb\E`, `\Q \E`, `\Q:\E`, `\Q"\E`}
var c07QOpen = []string{`\Q`, `\Qa`, `\Qab`, `\Qa\`, `\Q[`, `\Qa/b`, `\Q\`}
var c07QStray = []string{`\E`, `\E\E`, `a\E`, `\Ea`}
var c07ReClasses = []string{`[ab]`, `[/]`, `[^/]`, `[]/]`, `[a\]/]`, `[a-c]+`, `[\Q]`, `[\E]`, `[[:alpha:]]`}
var c07ReGroups = []string{`(a|b)`, `(/)`, `(?:x)`, `(a(b)c)`, `(\Qa\E)`, `(\Q)\E)`}
var c07ReEsc = []string{`\/`, `\\`, `\.`, `a\/b`, `\\\/`, `\[`, `\(`}
var c07RePlain = []string{`a`, `b`, `x`, `.*`, `a+`, `^`, `$`, `ab`, `.`, `|`}

type c07RQ struct {
	nq, tricky, open, stray, class, group, esc int
}

func c07ReBody(r *hx.Rng, st *c07RQ) string {
	var b strings.Builder
	n := r.Range(1, 5)
	for i := 0; i < n; i++ {
		switch x := r.Intn(20); {
		case x < 7:
			b.WriteString(r.Pick(c07QSections))
			st.nq++
		case x < 10:
			b.WriteString(r.Pick(c07QTricky))
			st.nq++
			st.tricky++
		case x < 11:
			b.WriteString(r.Pick(c07QStray))
			st.stray++
		case x < 13:
			b.WriteString(r.Pick(c07ReClasses))
			st.class++
		case x < 14:
			b.WriteString(r.Pick(c07ReGroups))
			st.group++
		case x < 16:
			b.WriteString(r.Pick(c07ReEsc))
			st.esc++
		default:
			b.WriteString(r.Pick(c07RePlain))
		}
	}
	if r.Chance(0.08) {
		b.WriteString(r.Pick(c07QOpen))
		st.open++
	}
	return b.String()
}

// contexts: pre, what closes the context after the regexp, and its name
var c07ReCtx = [][3]string{
	{"k:", "", "value"}, {"k:", "", "value"}, {".name:", "", "value"}, {"/k: ", "", "value"}, {`"a b":`, "", "value"},
	{"-k:", "", "value"}, {"(k:", ")", "value"}, {"j:v k:", "", "value"}, {"j:v OR k:", "", "value"},
	{"k:(", ")", "list-member"}, {"k:( ", " )", "list-member"}, {"k:(x OR ", ")", "list-member"}, {"k:(", " OR y)", "list-member"},
	{"k:(x OR ", " OR \"y z\")", "list-member"}, {".name:(", " OR b)", "list-member"},
	{".unit:", "", "unit"}, {".unit:", "", "unit"}, {".unit:(", ")", "unit"}, {".unit:(ns/op OR ", ")", "unit"}, {".unit:(", " OR B/op)", "unit"},
	{".config:", "", "value"}, {`"":`, "", "value"},
}

func c07ReCase(o *hx.Out, pre, s, fam string) {
	q := pre + "/" + s
	fp := c07ParseFilter(q)
	nf := c07NewFilter(q)
	c := hx.L(hx.I(7), hx.S(pre), hx.S(s), c07Oracle(q), fp, nf)
	ok := fp.Text()[:2] == "(0"
	o.Count(fmt.Sprintf("requote %s parse_ok=%v", fam, ok))
	o.Add(c, c07Input{Kind: "requote:" + fam, Expr: strconv.QuoteToASCII(q), ExprX: fmt.Sprintf("%x", q)}, "r"+q, ok, append([]string{"regexp-quote-section"}, c07EmptyKeyTags(q, true, false)...)...)
	c07StopIfHung(o)
}

func c07ReQuote(o *hx.Out, r *hx.Rng, tier string) {
	n := 1500
	if tier == "thorough" {
		n = 30000
	}
	cls := func(c string) { o.Count("class:requote:" + c) }
	// the documented witnesses, in the three positions
	wit := []string{`\Qa\E`, `\Qa\E\Qb\E`, `\Qa\E\Qb\E\Qc\E`, `\Qa\Ex\Qb\E`, `\E\Qa\E`, `a\E\Qb\E\Qc\E`, `\Qa`, `\Q`, `\Qa\E\Qb`,
		`\Qa/b\E`, `\Q/\E`, `\Qa\E/\Qb\E`, `\Qa\E[/]\Qb\E`, `\Qa\E\/\Qb\E`, `[\Q]\Qa\E\Qb\E`, `(\Qa\E|\Qb\E)`, `\Qa\E\Q\E\Qb\E`, `\Q\E\Q\E`,
		`\Q\\E\Qb\E`, `\Qa\\E`, `\Qa\E\E`, `\Q[\E\Qa/\E`, `\Q(\E\Qa/\E`}
	for _, w := range wit {
		for _, cx := range [][3]string{{"k:", "", "value"}, {"k:(", " OR y)", "list-member"}, {"k:(x OR ", ")", "list-member"}, {".unit:", "", "unit"}, {".unit:(", " OR ns/op)", "unit"}} {
			c07ReCase(o, cx[0], w+"/"+cx[1], "witness-"+cx[2])
			cls("witness")
		}
		c07ReCase(o, "k:", w, "witness-unterminated")
		c07ReCase(o, "k:", w+"/x", "witness-bad-follower")
		c07ReCase(o, "k:", w+"/ j:/"+w+"/", "witness-twice")
	}
	for i := 0; i < n; i++ {
		var st c07RQ
		body := c07ReBody(r, &st)
		cx := c07ReCtx[r.Intn(len(c07ReCtx))]
		tail, fam := "/"+cx[1], cx[2]
		switch x := r.Intn(20); {
		case x == 0: // no closing slash
			tail, fam = cx[1], fam+"-unterminated"
		case x == 1: // something glued to the closing slash
			tail, fam = "/"+r.Pick([]string{"x", "\\E", "/", "\"", "\\"})+cx[1], fam+"-bad-follower"
		case x < 5: // a further term, sometimes with a regexp of its own
			if cx[1] == "" {
				tail = "/ " + r.Pick([]string{"j:v", "j:/" + c07ReBody(r, &c07RQ{}) + "/", "-j:\"x\"", "OR j:v", "AND j:v"})
				fam += "-then-term"
			}
		}
		c07ReCase(o, cx[0], body+tail, fam)
		switch {
		case st.nq == 0:
			cls("sections=0")
		case st.nq == 1:
			cls("sections=1")
		default:
			cls("sections>=2")
		}
		if st.tricky > 0 {
			cls("section-with-slash-bracket-paren")
		}
		if st.stray > 0 {
			cls("stray-E")
			if st.nq > 0 {
				cls("stray-E-and-sections")
			}
		}
		if st.open > 0 {
			cls("Q-without-E")
		}
		if st.nq > 0 && st.class > 0 {
			cls("sections-and-class")
		}
		if st.nq > 0 && st.esc > 0 {
			cls("sections-and-escaped-slash")
		}
		if st.nq > 0 && st.group > 0 {
			cls("sections-and-group")
		}
	}
}

// pieces added for the gap classes (kept apart from c07Pieces so that the soup keeps its distribution)
var c07Pieces2 = []string{
	".config:(a OR b)", "goos:linux -(.config:(\"x y\" OR z))", ".config:a OR .config:b", "\".config\":(a OR b OR c)", "k:v (.config:(/a/ OR b))",
	".config:(a)", "\"\":(a OR b)", "a:b \"c d\":e", "(a:b AND \"c\":d)", "a:b AND \"c d\":e \"f\":g", "-(a:b \"c\":d)",
	"a@\"\"", ".name,/size@\"\",b", "a@ \"\"", "a @\"\" b", "\"\"@\"\"", "a@\"\",b@alpha", "a@alpha,b@\"\"", ".config@\"\"", ".unit@\"\"", ".fullname@\"\" /k",
	"k@(\"\")", "k@(\"\" a)", "k@(a \"\")", "k:\"\"", ".unit:\"\"", ".unit:(\"\" OR ns/op)", "\"\":\"\"", "k:(\"\")", "-k:\"\"", "k:\"\" j:\"\"", "\"\"\"\"", "a@\"\"\"\"", "a@\"\"@\"\"", "@\"\"",
	".name /size", "pkg /gomaxprocs@num", ".name\t/size", "pkg /k@(a b) /j", "\"a b\" /size", ".name /size,.unit", "pkg /k@bogus", "goos .config@(a b)",
}
