package main

// C10, case kind 5: HISTORIES of benchunit calls.
//
//	(5 (step ...))   step = (1 cls (vals...) scalerOpt (strs...) scaleStrOpt sameAsMin)   CommonScale + Format (+ Scale), as kind 1
//	                      | (3 unit cls)                                                     ClassOf, as kind 3
//	                      | (9 unit v tv tu)                                                 Tidy(v, unit) = (tv, tu)
//
// Every history is run (a) in a process of its own that has not used the
// package before (cmd/c10proc, built once per run, executed once per case) and
// (b) in the generator's process, where the package has long been in use.
//
// Two families:
//   - unit histories: Tidy(unit) and ClassOf(unit) on the SAME string in both
//     orders, for units with B / bytes / MB in the numerator whose text merely
//     contains "ns" or "MB" elsewhere (B/ns, bytes/conns, B/txns, MB/s ...), and
//     controls with the bytes in the denominator.  ClassOf is a function of the
//     unit alone.
//   - process order: a Binary value below 1 (0.5, 0.0123, 0.00012344, the shared
//     scale {3, 0.25, 0}, random magnitudes down to 1e-8) scaled BEFORE the
//     process scaled any Decimal value (and the other way round: a Decimal value
//     below 1n before any Binary one), with calls that must not matter in front
//     (ClassOf, Tidy, Scale(0), values with a prefix), then the other class, then
//     the first value again.  Three (four) significant digits, as in any order.
//
// The inputs of C10's known findings are avoided (units that spell bytes in a
// way ClassOf does not know; values on which the rounding of the quotient
// shows), so every history is judged by prop_ok and never tagged.

import (
	"bytes"
	"encoding/json"
	"fmt"
	"math"
	"os"
	"os/exec"
	"path/filepath"
	"strconv"

	"verifharness/internal/c10hist"
	"verifharness/internal/hx"
)

type c10HInput struct {
	Kind  string         `json:"kind"`
	Fresh bool           `json:"fresh_process"` // true: run by cmd/c10proc in a process of its own
	Steps []c10hist.Step `json:"steps"`
	Note  string         `json:"note,omitempty"`
}

func c10BuildProc() (string, error) {
	work := os.Getenv("VERIF_WORK")
	if work == "" {
		work = os.TempDir()
	}
	exe := filepath.Join(work, "c10proc")
	cmd := exec.Command("go", "build", "-tags", "verif", "-o", exe, "./cmd/c10proc")
	cmd.Dir = harnessDir()
	if out, err := cmd.CombinedOutput(); err != nil {
		return "", fmt.Errorf("building cmd/c10proc: %v\n%s", err, out)
	}
	return exe, nil
}

func c10RunProc(exe string, steps []c10hist.Step) ([]c10hist.Result, error) {
	work := os.Getenv("VERIF_WORK")
	if work == "" {
		work = os.TempDir()
	}
	script := filepath.Join(work, "c10proc-script.json")
	data, _ := json.Marshal(steps)
	if err := os.WriteFile(script, data, 0o644); err != nil {
		return nil, err
	}
	cmd := exec.Command(exe, script)
	var so, se bytes.Buffer
	cmd.Stdout, cmd.Stderr = &so, &se
	if err := cmd.Run(); err != nil {
		return nil, fmt.Errorf("c10proc: %v\n%s", err, se.String())
	}
	var res []c10hist.Result
	if err := json.Unmarshal(so.Bytes(), &res); err != nil || len(res) != len(steps) {
		return nil, fmt.Errorf("c10proc: bad result (%v): %s", err, so.String())
	}
	return res, nil
}

func c10StepSx(st c10hist.Step, r c10hist.Result) hx.Sx {
	switch st.Op {
	case "classof":
		return hx.L(hx.I(3), hx.S(st.Unit), hx.I(r.Class))
	case "tidy":
		return hx.L(hx.I(9), hx.S(st.Unit), hx.U(c10Norm(st.Value)), hx.U(c10Norm(r.TidyVal)), hx.S(r.TidyUnit))
	}
	var vs, strs []hx.Sx
	for _, b := range st.Vals {
		vs = append(vs, hx.U(c10Norm(b)))
	}
	for _, s := range r.Strs {
		strs = append(strs, hx.S(s))
	}
	sc := c10Scaler{ok: r.OK, prec: r.Prec, factor: r.Factor, prefix: r.Prefix}
	scaleStr := hx.L()
	if len(st.Vals) == 1 && r.ScaleOK {
		scaleStr = hx.L(hx.S(r.Scale))
	}
	return hx.L(hx.I(1), hx.I(st.Class), hx.List(vs), sc.sx(), hx.List(strs), scaleStr, hx.Bool(r.Same))
}

func c10ClassStep(u string) c10hist.Step { return c10hist.Step{Op: "classof", Unit: u} }
func c10TidyStep(u string, v float64) c10hist.Step {
	return c10hist.Step{Op: "tidy", Unit: u, Value: math.Float64bits(v), Floats: []string{strconv.FormatFloat(v, 'g', -1, 64)}}
}
func c10CommonStep(cls int, vals ...float64) c10hist.Step {
	st := c10hist.Step{Op: "common", Class: cls}
	for _, v := range vals {
		st.Vals = append(st.Vals, math.Float64bits(v))
		st.Floats = append(st.Floats, strconv.FormatFloat(v, 'g', -1, 64))
	}
	return st
}

// values on which a known finding of C10 shows are not used in histories
func c10HistSafe(cls int, vals []float64) bool {
	min := 0.0
	for _, v := range vals {
		if v != v || math.IsInf(v, 0) {
			return false
		}
		if a := math.Abs(v); a != 0 && (min == 0 || a < min) {
			min = a
		}
	}
	if c10QuotientRounded(vals, cls) {
		return false
	}
	if min != 0 && cls == 0 {
		_, exp := c10SpecScale(min, cls)
		for _, v := range vals {
			if math.IsInf(v/c10Factor(cls, exp), 0) {
				return false
			}
		}
	}
	return true
}

type c10HistRunner struct {
	o   *hx.Out
	exe string
}

// one history, run fresh and warm
func (h *c10HistRunner) run(steps []c10hist.Step, note string, counts ...string) error {
	for _, fresh := range []bool{true, false} {
		var res []c10hist.Result
		if fresh {
			var err error
			if res, err = c10RunProc(h.exe, steps); err != nil {
				return err
			}
		} else {
			res = c10hist.Run(steps)
		}
		var sx []hx.Sx
		for i, st := range steps {
			sx = append(sx, c10StepSx(st, res[i]))
		}
		in := c10HInput{Kind: "history", Fresh: fresh, Steps: steps, Note: note}
		key, _ := json.Marshal(in)
		h.o.Count("kind=history")
		if fresh {
			h.o.Count("history:fresh-process")
		} else {
			h.o.Count("history:generator-process")
		}
		h.o.Count("history:" + note)
		h.o.Count(fmt.Sprintf("history:steps=%d", len(steps)))
		for _, c := range counts {
			h.o.Count("history:" + c)
		}
		h.o.Add(hx.L(hx.I(5), hx.List(sx)), in, "h"+string(key), true)
	}
	return nil
}

// units for the unit histories: the numerator names bytes in a spelling ClassOf
// knows (or not at all), "ns" / "MB" occur in the text
var c10HistBinaryUnits = []string{"B/ns", "bytes/conns", "B/txns", "MB/s", "MB/ns", "bytes/ns", "B/conns", "MB/conns",
	"bytes/txns", "B/ns/op", "B*ns", "ns*B", "conns-B", "txns bytes", "B/MBs", "bytes/xMB", "MB/MB", "B/MB", "MB*ns/op",
	"ns-MB", "turns*bytes/s", "B/nsec", "MB/txns", "bytes/MB/s", "ns/op*B"}
var c10HistDecimalUnits = []string{"ns/B", "conns/bytes", "txns/MB", "ns/op", "conns", "txns/s", "ns/MB", "MBs/s", "MBs/ns",
	"xMB/ns", "conns/B/s", "ns", "nsB", "Bns", "MBytes/ns", "bytesns", "txns/bytes"}

func c10HistRandUnit(r *hx.Rng) string {
	num := []string{"B", "bytes", "MB", "ns", "conns", "txns", "MBs", "xMB", "op", "turns"}
	den := []string{"ns", "conns", "txns", "s", "op", "MB", "B", "MBs", "bytes"}
	u := num[r.Intn(len(num))]
	for r.Chance(0.3) {
		u += r.Pick([]string{"*", "-", " "}) + num[r.Intn(len(num))]
	}
	for r.Chance(0.7) {
		u += "/" + den[r.Intn(len(den))]
		if r.Chance(0.15) {
			u += "*" + num[r.Intn(len(num))]
		}
	}
	return u
}

func c10RandBelowOne(r *hx.Rng) float64 {
	v := (1 + 9*r.Float()) * math.Pow(10, -float64(r.Range(1, 8)))
	if v >= 0.99 {
		v = 0.5
	}
	if r.Chance(0.2) {
		v = -v
	}
	return v
}

func c10HistSafeDecimal(r *hx.Rng) []float64 {
	for {
		var vals []float64
		n := r.Range(1, 3)
		for j := 0; j < n; j++ {
			switch r.Intn(4) {
			case 0:
				vals = append(vals, float64(r.Range(1, 99999)))
			case 1:
				vals = append(vals, float64(r.Range(1, 9999))/8)
			case 2:
				vals = append(vals, float64(r.Range(1, 999))*1e6)
			default:
				vals = append(vals, c10RandMag(r))
			}
		}
		if c10HistSafe(0, vals) {
			return vals
		}
	}
}

func c10GenHist(o *hx.Out, r *hx.Rng, tier string) error {
	exe, err := c10BuildProc()
	if err != nil {
		return err
	}
	h := &c10HistRunner{o: o, exe: exe}
	thorough := tier == "thorough"

	// ---- unit histories ----
	var units []string
	units = append(units, c10HistBinaryUnits...)
	units = append(units, c10HistDecimalUnits...)
	nru := 20
	if thorough {
		nru = 300
	}
	for i := 0; i < nru; i++ {
		units = append(units, c10HistRandUnit(r))
	}
	for i, u := range units {
		if c10ClassSpelling(u) {
			continue // known finding C10_classof_byte_spellings: not part of this class
		}
		v := float64(r.Range(1, 1000)) / 4
		C, T := c10ClassStep(u), c10TidyStep(u, v)
		if err := h.run([]c10hist.Step{T, C}, "unit", "tidy-then-classof"); err != nil {
			return err
		}
		if err := h.run([]c10hist.Step{C, T, C}, "unit", "classof-tidy-classof"); err != nil {
			return err
		}
		// with another unit in between, and twice
		w := units[(i+7)%len(units)]
		if !c10ClassSpelling(w) {
			steps := []c10hist.Step{c10TidyStep(w, 3), T, c10ClassStep(w), C, T, C}
			if r.Bool() {
				steps = []c10hist.Step{C, c10ClassStep(w), T, c10TidyStep(w, 1), c10ClassStep(w), C}
			}
			if err := h.run(steps, "unit", "two-units-interleaved"); err != nil {
				return err
			}
		}
	}

	// ---- process order ----
	first := [][]float64{{0.5}, {0.0123}, {0.00012344}, {3, 0.25, 0}, {0.25}, {-0.004567}, {3.25e-7}, {0.99}, {0, 0.75, -0.5, 2048}}
	nro := 14
	if thorough {
		nro = 200
	}
	for i := 0; i < nro; i++ {
		n := r.Range(1, 3)
		var vals []float64
		for j := 0; j < n; j++ {
			vals = append(vals, c10RandBelowOne(r))
		}
		if r.Chance(0.3) {
			vals = append(vals, 0, float64(r.Range(1, 5000)))
		}
		first = append(first, vals)
	}
	for i, vals := range first {
		// (a) the very first call of the process
		steps := []c10hist.Step{c10CommonStep(1, vals...)}
		if err := h.run(steps, "order", "first-call=binary-below-1"); err != nil {
			return err
		}
		// (b) calls that must not matter in front, then the other class, then again
		var pre []c10hist.Step
		switch i % 5 {
		case 0:
			pre = []c10hist.Step{c10CommonStep(0, 0), c10CommonStep(0)} // Scale(0, Decimal): returns before the tables are looked at
		case 1:
			pre = []c10hist.Step{c10ClassStep("B/op"), c10TidyStep("MB/s", 2)}
		case 2:
			pre = []c10hist.Step{c10CommonStep(1, 5000), c10CommonStep(1, 1, 2048)}
		case 3:
			pre = []c10hist.Step{c10CommonStep(1, 0, 0)}
		case 4:
			pre = []c10hist.Step{c10TidyStep("B/ns", 7), c10ClassStep("B/ns")}
		}
		steps = append(append([]c10hist.Step{}, pre...), c10CommonStep(1, vals...))
		steps = append(steps, c10CommonStep(0, c10HistSafeDecimal(r)...), c10CommonStep(1, vals...))
		if err := h.run(steps, "order", "binary-below-1-before-any-decimal"); err != nil {
			return err
		}
		// (c) control: a Decimal value first
		steps = []c10hist.Step{c10CommonStep(0, c10HistSafeDecimal(r)...), c10CommonStep(1, vals...)}
		if err := h.run(steps, "order", "decimal-first"); err != nil {
			return err
		}
	}
	// the other way round: a Decimal value below the smallest prefix before any Binary value
	nd := 10
	if thorough {
		nd = 150
	}
	for i := 0; i < nd; i++ {
		var vals []float64
		for {
			vals = []float64{(1 + 9*r.Float()) * math.Pow(10, -float64(r.Range(10, 17)))}
			if r.Chance(0.4) {
				vals = append(vals, 0, float64(r.Range(1, 50))*1e-9)
			}
			if c10HistSafe(0, vals) {
				break
			}
		}
		steps := []c10hist.Step{c10CommonStep(0, vals...)}
		if i%2 == 1 {
			steps = []c10hist.Step{c10CommonStep(1, 0), c10CommonStep(0, vals...), c10CommonStep(1, c10RandBelowOne(r)), c10CommonStep(0, vals...)}
		}
		if err := h.run(steps, "order", "first-call=decimal-below-1n"); err != nil {
			return err
		}
	}
	// random mixed histories
	nm := 25
	if thorough {
		nm = 400
	}
	for i := 0; i < nm; i++ {
		var steps []c10hist.Step
		n := r.Range(2, 6)
		for j := 0; j < n; j++ {
			switch r.Intn(6) {
			case 0:
				u := units[r.Intn(len(units))]
				if c10ClassSpelling(u) {
					u = "B/ns"
				}
				steps = append(steps, c10ClassStep(u))
			case 1:
				steps = append(steps, c10TidyStep(units[r.Intn(len(units))], float64(r.Range(1, 100))))
			case 2:
				steps = append(steps, c10CommonStep(0, c10HistSafeDecimal(r)...))
			case 3:
				steps = append(steps, c10CommonStep(1, c10RandBelowOne(r)))
			case 4:
				steps = append(steps, c10CommonStep(1, c10RandMag(r), c10RandBelowOne(r)))
			default:
				steps = append(steps, c10CommonStep(r.Intn(2), 0))
			}
		}
		if err := h.run(steps, "mixed"); err != nil {
			return err
		}
	}
	return nil
}
