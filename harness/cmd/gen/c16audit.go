package main

// Audit classes for C16 (audit item 1): lines whose LAST printed cell has a
// blank text - empty, U+0020s, a tab, a no-break space, an ideographic space -
// that is centred or right-aligned behind a visible margin, under columns
// made wide by other rows or by spans; cell texts and margins that themselves
// begin or end in blanks. texttab before hooks/fix_c16_blank_aligned_padding.diff
// padded the blank text and so ended the line in blanks.

import (
	"strings"
	"unicode"

	"verifharness/internal/hx"
)

var c16BlankValues = []string{"", "", "", " ", "  ", "\t", "\u00a0", "\u3000", " \t", "  "}
var c16VisibleMargins = []string{"|", " |", " │", " │ ", "| ", "::", " ± ", "—", "\u00a0|", "|\t"}
var c16EdgeBlankValues = []string{"ab ", " x", " x ", "x  ", "é\u00a0", "\tq", "10.50n ", "a b"}

// c16BlankTailClass decides from the ops alone (a replay of Row/Col/Span's
// column arithmetic) whether some row's last printed cell - "printed" as
// Format decides it: text or margin not blank - has a blank text that is
// centred or right-aligned (blankTail), or has a text / margin whose own ends
// are blanks (ownBlanks). Statistics only, never tags.
func c16BlankTailClass(ops []c16Op) (blankTail, ownBlanks bool) {
	type last struct {
		have  bool
		blank bool
		align int
		own   bool // its text (or, for a blank text, its margin) ends in blanks of its own
	}
	col := 0
	var cur last
	flush := func() {
		if cur.have && cur.blank && cur.align != 0 {
			blankTail = true
		}
		if cur.have && cur.own {
			ownBlanks = true
		}
		cur = last{}
	}
	for _, o := range ops {
		switch o.Op {
		case "row":
			flush()
			col = 0
		case "col":
			col = o.N
		case "span":
			m := " "
			if col == 0 || len(o.Value) == 0 {
				m = ""
			}
			if o.Margin != nil {
				m = *o.Margin
			}
			vb, mb := strings.TrimSpace(o.Value) == "", strings.TrimSpace(m) == ""
			if !(vb && mb) {
				tr := func(x string) string { return strings.TrimRightFunc(x, unicode.IsSpace) }
				own := !vb && tr(o.Value) != o.Value || vb && (o.Value != "" || tr(m) != m)
				cur = last{true, vb, o.Align, own}
			}
			col += o.N
		}
	}
	flush()
	return
}

// c16BlankTail builds a table of 2-6 rows over 2-6 columns: every row has a
// label, some single cells, and - in most rows - a LAST cell with a blank
// text, alignment centre/right (sometimes left) and a visible margin; the
// column (or span) of that last cell is made wide by another row's long cell
// or by a header span over it, so that the alignment padding is not zero.
func c16BlankTail(r *hx.Rng) []c16Op {
	rows := r.Range(2, 6)
	cols := r.Range(2, 6)
	var ops []c16Op
	for c := 1; c < cols; c++ {
		if r.Chance(0.2) {
			ops = append(ops, c16Op{Op: "shrink", N: c, On: true})
		}
	}
	wideRow := r.Intn(rows)
	for row := 0; row < rows; row++ {
		ops = append(ops, c16Op{Op: "row"})
		if r.Chance(0.05) {
			continue
		}
		ops = append(ops, c16Op{Op: "span", N: 1, Value: []string{"name", "x", "Encode/size=10", "é", ""}[r.Intn(5)]})
		// where this row's last cell starts and how many columns it covers
		lastCol := r.Range(1, cols-1)
		lastSpan := 1
		if r.Chance(0.35) {
			lastSpan = r.Range(1, cols-lastCol)
		}
		if row == wideRow {
			// the wide row: long single cells (or one long span) up to the last column
			col := 1
			for col < cols {
				span := 1
				if r.Chance(0.25) {
					span = r.Range(1, cols-col)
				}
				v := []string{"wide-value", "a-rather-long-header-value", "0123456789", "日本語日本語", "(p=0.000 n=10+10)"}[r.Intn(5)]
				o := c16Op{Op: "span", N: span, Value: v, Align: r.Intn(3)}
				if r.Chance(0.4) {
					m := c16Margins[r.Intn(len(c16Margins))]
					o.Margin = &m
				}
				ops = append(ops, c16Op{Op: "col", N: col}, o)
				col += span
			}
			continue
		}
		for col := 1; col < lastCol; col++ {
			if r.Chance(0.5) {
				continue
			}
			v := c16Values[r.Intn(len(c16Values))]
			if r.Chance(0.25) {
				v = c16EdgeBlankValues[r.Intn(len(c16EdgeBlankValues))]
			}
			o := c16Op{Op: "span", N: 1, Value: v, Align: r.Intn(3)}
			if r.Chance(0.3) {
				m := c16Margins[r.Intn(len(c16Margins))]
				o.Margin = &m
			}
			ops = append(ops, c16Op{Op: "col", N: col}, o)
		}
		o := c16Op{Op: "span", N: lastSpan, Align: 1 + r.Intn(2)}
		switch k := r.Intn(10); {
		case k < 7: // blank text behind a visible margin
			o.Value = c16BlankValues[r.Intn(len(c16BlankValues))]
			m := c16VisibleMargins[r.Intn(len(c16VisibleMargins))]
			o.Margin = &m
		case k < 8: // the same, left-aligned
			o.Value = c16BlankValues[r.Intn(len(c16BlankValues))]
			m := c16VisibleMargins[r.Intn(len(c16VisibleMargins))]
			o.Margin = &m
			o.Align = 0
		case k < 9: // a text with blanks at its ends
			o.Value = c16EdgeBlankValues[r.Intn(len(c16EdgeBlankValues))]
			if r.Bool() {
				m := c16VisibleMargins[r.Intn(len(c16VisibleMargins))]
				o.Margin = &m
			}
		default: // blank text, default (invisible) margin: the cell is skipped
			o.Value = c16BlankValues[r.Intn(len(c16BlankValues))]
		}
		ops = append(ops, c16Op{Op: "col", N: lastCol}, o)
	}
	return ops
}

func c16AddAuditTable(o *hx.Out, ops []c16Op, kind string) {
	bt, own := c16BlankTailClass(ops)
	if bt {
		o.Count("table:last-cell-blank-centred/right")
	}
	if own {
		o.Count("table:last-cell-text-with-blank-ends")
	}
	c16AddTable(o, ops, kind)
}

// c16AuditWitnesses: the auditor's two tables (auD/c16/main.go) and variants.
func c16AuditWitnesses() [][]c16Op {
	bar := " |"
	var out [][]c16Op
	for _, al := range []int{2, 1} {
		for _, v := range []string{"", " ", "\t", "\u00a0"} {
			out = append(out, []c16Op{
				{Op: "row"}, {Op: "span", N: 1, Value: "name"}, {Op: "span", N: 1, Value: "wide-value", Align: 2},
				{Op: "row"}, {Op: "span", N: 1, Value: "x"}, {Op: "span", N: 1, Value: v, Margin: &bar, Align: al}})
		}
	}
	return out
}

func c16GenAudit(o *hx.Out, r *hx.Rng, tier string) {
	for _, ops := range c16AuditWitnesses() {
		c16AddAuditTable(o, ops, "witness-blank-tail")
	}
	n := 600
	if tier == "thorough" {
		n = 30000
	}
	for i := 0; i < n; i++ {
		c16AddAuditTable(o, c16BlankTail(r), "blank-tail")
	}
}
