package main

// C12: distributions, t-tests and descriptive statistics of internal/stats.
// Case kinds (first element of the case term):
//   1 descriptive statistics of one sample
//   2 one of the four t-tests
//   3 mathBetaInc replay (Lgamma/Log/Exp oracle tables)   4 betacf (pure arithmetic)
//   5 TDist.CDF replay   6 TDist.PDF replay
//   7 generic InvCDF replay (CDF oracle table)   8 bisectBool replay
//   9 NormalDist PDF/CDF/InvCDF replay
//  10 distribution sweep: values of the implementation as data (tests, not proofs)
//  11 certified reference points of the t CDF
//  12 slope of the t CDF at the origin
//  13 PDF values on a dyadic grid + CDF at both ends, for quadrature (c12quad.go)
//  14 second table of certified reference points: t and normal, PDF and CDF (c12quad.go, c12reftab.go)

import (
	"fmt"
	"math"
	"sort"

	stats "golang.org/x/perf/verifbridge/stats"
	"verifharness/internal/hx"
)

func init() { gens["C12"] = genC12 }

func f64s(xs []float64) hx.Sx {
	it := make([]hx.Sx, len(xs))
	for i, x := range xs {
		it[i] = hx.F64(x)
	}
	return hx.List(it)
}

// hexfs renders floats exactly for the replayable JSON input.
func hexfs(xs []float64) []string {
	r := make([]string, len(xs))
	for i, x := range xs {
		r[i] = fmt.Sprintf("%x", x)
	}
	return r
}

type oracle struct {
	keys map[uint64]bool
	rows []hx.Sx
}

func newOracle() *oracle { return &oracle{keys: map[uint64]bool{}} }
func (o *oracle) add(x, y float64) {
	k := math.Float64bits(x)
	if o.keys[k] {
		return
	}
	o.keys[k] = true
	o.rows = append(o.rows, hx.L(hx.F64(x), hx.F64(y)))
}
func (o *oracle) sx() hx.Sx { return hx.List(o.rows) }

// ---------- sample generation ----------

func c12Scale(r *hx.Rng, lo, hi int) float64 {
	return math.Ldexp(1+r.Float(), r.Range(lo, hi))
}

// c12Sample returns a sample and the name of the shape that produced it.
func c12Sample(r *hx.Rng, maxN int) ([]float64, string) {
	var n int
	switch r.Intn(6) {
	case 0:
		n = r.Range(1, 3)
	case 1, 2:
		n = r.Range(2, 12)
	case 3, 4:
		n = r.Range(5, 60)
	default:
		n = r.Range(30, maxN)
	}
	if n > maxN {
		n = maxN
	}
	xs := make([]float64, n)
	shape := ""
	switch r.Intn(11) {
	case 0: // benchmark-like: common scale, small noise
		shape = "bench"
		base := c12Scale(r, -30, 40)
		noise := math.Ldexp(1, -r.Range(1, 40))
		for i := range xs {
			xs[i] = base * (1 + noise*(r.Float()-0.5))
		}
	case 1: // widely varying magnitude, positive
		shape = "wide+"
		for i := range xs {
			xs[i] = c12Scale(r, -200, 200)
		}
	case 2: // widely varying magnitude, mixed sign
		shape = "wide+-"
		for i := range xs {
			xs[i] = c12Scale(r, -200, 200)
			if r.Bool() {
				xs[i] = -xs[i]
			}
		}
	case 3: // small integers, many ties
		shape = "ties"
		k := r.Range(1, 6)
		for i := range xs {
			xs[i] = float64(r.Range(1, k))
		}
	case 4: // constant
		shape = "const"
		c := c12Scale(r, -60, 60)
		if r.Chance(0.3) {
			c = -c
		}
		for i := range xs {
			xs[i] = c
		}
	case 5: // huge offset, tiny spread (cancellation-sensitive)
		shape = "offset"
		base := c12Scale(r, 20, 60)
		for i := range xs {
			xs[i] = base + float64(r.Range(-3, 3))
		}
	case 6: // moderate mixed with zeros
		shape = "zeros"
		for i := range xs {
			if r.Chance(0.3) {
				xs[i] = 0
			} else {
				xs[i] = (r.Float() - 0.5) * 100
			}
		}
	case 7: // moderate positive
		shape = "pos"
		for i := range xs {
			xs[i] = math.Ldexp(1+r.Float(), r.Range(-10, 10))
		}
	case 8: // subnormal / tiny
		shape = "tiny"
		for i := range xs {
			xs[i] = math.Ldexp(r.Float(), r.Range(-1074, -1000))
		}
	case 9: // near overflow
		shape = "huge"
		for i := range xs {
			xs[i] = math.Ldexp(1+r.Float(), r.Range(990, 1023))
			if r.Chance(0.3) {
				xs[i] = -xs[i]
			}
		}
	default: // two clusters far apart
		shape = "clusters"
		a, b := c12Scale(r, -100, 100), c12Scale(r, -100, 100)
		for i := range xs {
			if r.Bool() {
				xs[i] = a * (1 + 1e-9*r.Float())
			} else {
				xs[i] = b * (1 + 1e-9*r.Float())
			}
		}
	}
	// ordering
	switch r.Intn(4) {
	case 0:
		sort.Float64s(xs)
		shape += "/asc"
	case 1:
		sort.Sort(sort.Reverse(sort.Float64Slice(xs)))
		shape += "/desc"
	default:
		shape += "/rand"
	}
	// -0 and +0 compare equal: an unstable sort may order them either way and
	// Percentile could return either zero. Keep one sign of zero per sample.
	neg := r.Chance(0.2)
	for i, x := range xs {
		if x == 0 {
			if neg {
				xs[i] = math.Copysign(0, -1)
			} else {
				xs[i] = 0
			}
		}
	}
	return xs, shape
}

func c12Ps(r *hx.Rng, n int) []float64 {
	ps := []float64{0, 1, 0.5, 0.25, 0.75}
	for len(ps) < 11 {
		switch r.Intn(6) {
		case 0:
			ps = append(ps, r.Float())
		case 1: // p making the R8 position (nearly) integral: n = 1/3 + p(N+1/3) = k
			k := float64(r.Range(0, n+1))
			ps = append(ps, (k-1.0/3)/(float64(n)+1.0/3))
		case 2:
			ps = append(ps, math.Nextafter((float64(r.Range(0, n+1))-1.0/3)/(float64(n)+1.0/3), float64(r.Intn(2))*2-0.5))
		case 3:
			ps = append(ps, []float64{-0.5, 1.5, math.Inf(1), math.Inf(-1), 5e-324, math.Nextafter(1, 0), 1e-300, 0.999}[r.Intn(8)])
		case 4:
			ps = append(ps, float64(r.Range(0, 100))/100)
		default:
			ps = append(ps, math.Ldexp(r.Float(), -r.Range(0, 60)))
		}
	}
	sort.Float64s(ps)
	return ps
}

type c12DescInput struct {
	Kind   string   `json:"kind"`
	Shape  string   `json:"shape"`
	Sorted bool     `json:"sorted_flag"`
	Xs     []string `json:"xs"`
	Ps     []string `json:"ps"`
}

func c12IsSorted(xs []float64) bool { return sort.Float64sAreSorted(xs) }

// c12Desc emits one descriptive-statistics case.
func c12Desc(o *hx.Out, r *hx.Rng, xs []float64, shape string, sortedFlag bool, ps []float64) {
	s := stats.Sample{Xs: xs, Sorted: sortedFlag}
	logs, exps := newOracle(), newOracle()
	// oracle tables: the library called directly on the arguments the code needs
	m := 0.0
	okGeo := true
	for i, x := range xs {
		if x <= 0 {
			okGeo = false
			break
		}
		lx := math.Log(x)
		logs.add(x, lx)
		m += (lx - m) / float64(i+1)
	}
	if okGeo && len(xs) > 0 {
		exps.add(m, math.Exp(m))
	}
	mean, vr, sd, gm := stats.Mean(xs), stats.Variance(xs), stats.StdDev(xs), stats.GeoMean(xs)
	mn, mx := stats.Bounds(xs)
	smn, smx := s.Bounds()
	sum := stats.VecSum(xs)
	smean, svar, ssd, sgm, ssum, sw := s.Mean(), s.Variance(), s.StdDev(), s.GeoMean(), s.Sum(), s.Weight()
	iqr := s.IQR()
	percs := make([]float64, len(ps))
	for i, p := range ps {
		percs[i] = s.Percentile(p)
	}
	same := func(a, b float64) bool {
		return math.Float64bits(a) == math.Float64bits(b) || (a != a && b != b)
	}
	methodsAgree := same(mean, smean) && same(vr, svar) && same(sd, ssd) && same(gm, sgm) && same(sum, ssum) && sw == float64(len(xs))
	outs := hx.L(hx.F64(mean), hx.F64(vr), hx.F64(sd), hx.F64(gm), hx.F64(mn), hx.F64(mx),
		hx.F64(smn), hx.F64(smx), hx.F64(sum), hx.F64(iqr), hx.Bool(methodsAgree))
	c := hx.L(hx.I(1), hx.Bool(sortedFlag), f64s(xs), f64s(ps), logs.sx(), exps.sx(), outs, f64s(percs))
	in := c12DescInput{Kind: "desc", Shape: shape, Sorted: sortedFlag, Xs: hexfs(xs), Ps: hexfs(ps)}
	var tags []string
	maxAbs := 0.0
	for _, x := range xs {
		maxAbs = math.Max(maxAbs, math.Abs(x))
	}
	if maxAbs >= math.Ldexp(1, 500) {
		tags = append(tags, "overflow_range")
	}
	o.Count("desc shape=" + shape)
	nb := "n=1"
	switch {
	case len(xs) > 100:
		nb = "n>100"
	case len(xs) > 30:
		nb = "n=31..100"
	case len(xs) > 10:
		nb = "n=11..30"
	case len(xs) > 1:
		nb = "n=2..10"
	}
	o.Count("desc " + nb)
	o.Add(c, in, fmt.Sprintf("desc %v %v", in.Xs, sortedFlag), len(xs) >= 2, tags...)
}

func genC12Desc(o *hx.Out, r *hx.Rng, n int) {
	for i := 0; i < n; i++ {
		xs, shape := c12Sample(r, 300)
		flag := false
		if c12IsSorted(xs) {
			flag = r.Bool()
		} else if r.Chance(0.03) {
			flag = true // contract violated: the code then uses the slice as is
			shape += "/flag-lie"
		}
		c12Desc(o, r, xs, shape, flag, c12Ps(r, len(xs)))
	}
}

// ---------- helpers ----------

// try runs f and reports whether it panicked.
func try(f func()) (panicked bool) {
	defer func() {
		if e := recover(); e != nil {
			panicked = true
		}
	}()
	f()
	return false
}

type oracle2 struct {
	keys map[[2]uint64]bool
	rows []hx.Sx
}

func newOracle2() *oracle2 { return &oracle2{keys: map[[2]uint64]bool{}} }

// add records f(x, y): kind 0 = value v, 1 = the call panicked.
func (o *oracle2) add(x, y float64, kind int, v float64) {
	k := [2]uint64{math.Float64bits(x), math.Float64bits(y)}
	if o.keys[k] {
		return
	}
	o.keys[k] = true
	o.rows = append(o.rows, hx.L(hx.F64(x), hx.F64(y), hx.I(kind), hx.F64(v)))
}
func (o *oracle2) sx() hx.Sx { return hx.List(o.rows) }

func lgammaLib(x float64) float64 { y, _ := math.Lgamma(x); return y }

// ---------- kind 2: t-tests ----------

type tsum struct{ n, mean, vr float64 }

func (t tsum) Weight() float64   { return t.n }
func (t tsum) Mean() float64     { return t.mean }
func (t tsum) Variance() float64 { return t.vr }

type c12TInput struct {
	Kind string   `json:"kind"`
	Test string   `json:"test"`
	Alt  int      `json:"alt"`
	Mu0  string   `json:"mu0"`
	S1   []string `json:"s1"`
	S2   []string `json:"s2"`
	Raw  bool     `json:"raw"`
}

var c12Tests = []string{"pooled", "welch", "paired", "onesample"}

func c12TTest(o *hx.Out, r *hx.Rng, test int, alt int, mu0 float64, raw bool, x1, x2 []float64, s1, s2 tsum) {
	var res *stats.TTestResult
	var err error
	var a1, a2 stats.TTestSample
	var sx1, sx2 hx.Sx
	if raw {
		a1, a2 = stats.Sample{Xs: x1}, stats.Sample{Xs: x2}
		sx1, sx2 = hx.L(hx.I(1), f64s(x1)), hx.L(hx.I(1), f64s(x2))
		s1 = tsum{a1.Weight(), a1.Mean(), a1.Variance()}
		s2 = tsum{a2.Weight(), a2.Mean(), a2.Variance()}
	} else {
		a1, a2 = s1, s2
		sx1 = hx.L(hx.I(0), hx.F64(s1.n), hx.F64(s1.mean), hx.F64(s1.vr))
		sx2 = hx.L(hx.I(0), hx.F64(s2.n), hx.F64(s2.mean), hx.F64(s2.vr))
	}
	h := stats.LocationHypothesis(alt)
	pan := try(func() {
		switch test {
		case 0:
			res, err = stats.TwoSampleTTest(a1, a2, h)
		case 1:
			res, err = stats.TwoSampleWelchTTest(a1, a2, h)
		case 2:
			res, err = stats.PairedTTest(x1, x2, mu0, h)
		case 3:
			res, err = stats.OneSampleTTest(a1, mu0, h)
		}
	})
	cdf, pw := newOracle2(), newOracle2()
	if test == 1 { // math.Pow calls of the Welch formula, library called directly
		q1, q2 := s1.vr/s1.n, s2.vr/s2.n
		for _, x := range []float64{q1 + q2, q1, q2} {
			pw.add(x, 2, 0, math.Pow(x, 2))
		}
	}
	var out hx.Sx
	outcome := "ok"
	switch {
	case pan:
		out = hx.L(hx.I(2))
		outcome = "panic"
	case err != nil:
		code := 0
		switch err {
		case stats.ErrSampleSize:
			code = 1
		case stats.ErrZeroVariance:
			code = 2
		case stats.ErrMismatchedSamples:
			code = 3
		}
		out = hx.L(hx.I(1), hx.I(code))
		outcome = "err" + fmt.Sprint(code)
	default:
		arg := res.T
		if alt == 0 {
			arg = math.Abs(res.T)
		}
		if alt >= -1 && alt <= 1 {
			var c float64
			if try(func() { c = stats.TDist{V: res.DoF}.CDF(arg) }) {
				cdf.add(res.DoF, arg, 1, 0)
			} else {
				cdf.add(res.DoF, arg, 0, c)
			}
		}
		out = hx.L(hx.I(0), hx.I(res.N1), hx.I(res.N2), hx.F64(res.T), hx.F64(res.DoF), hx.I(int(res.AltHypothesis)), hx.F64(res.P))
	}
	if pan { // the CDF panicked inside the test: record that for the statistic the model will compute
		// (not reachable for finite dof >= ~1e-3 in the sweeps; kept for completeness)
	}
	c := hx.L(hx.I(2), hx.I(test), hx.I(alt), hx.F64(mu0), sx1, sx2, cdf.sx(), pw.sx(), out)
	in := c12TInput{Kind: "ttest", Test: c12Tests[test], Alt: alt, Mu0: fmt.Sprintf("%x", mu0), Raw: raw}
	if raw {
		in.S1, in.S2 = hexfs(x1), hexfs(x2)
	} else {
		in.S1 = hexfs([]float64{s1.n, s1.mean, s1.vr})
		in.S2 = hexfs([]float64{s2.n, s2.mean, s2.vr})
	}
	o.Count("ttest " + c12Tests[test] + " " + outcome)
	o.Add(c, in, fmt.Sprintf("tt %d %d %v %v %v", test, alt, in.S1, in.S2, in.Mu0), outcome == "ok")
}

func c12SmallSample(r *hx.Rng) []float64 {
	n := r.Range(0, 12)
	if r.Chance(0.2) {
		n = r.Range(10, 80)
	}
	xs := make([]float64, n)
	base := math.Ldexp(1+r.Float(), r.Range(-20, 30))
	noise := math.Ldexp(1, -r.Range(1, 30))
	switch r.Intn(5) {
	case 0: // constant: zero variance
		for i := range xs {
			xs[i] = base
		}
	case 1:
		for i := range xs {
			xs[i] = float64(r.Range(-3, 3))
		}
	default:
		for i := range xs {
			xs[i] = base * (1 + noise*(r.Float()-0.5))
		}
	}
	return xs
}

func genC12TTests(o *hx.Out, r *hx.Rng, n int) {
	// exhaustive degenerate grid: every combination of undersized / zero-variance summaries
	ns, vs := []float64{0, 1, 2, 0.5}, []float64{0, 1.5}
	for test := 0; test < 4; test++ {
		if test == 2 {
			continue // paired takes raw samples
		}
		for _, n1 := range ns {
			for _, v1 := range vs {
				for _, n2 := range ns {
					for _, v2 := range vs {
						c12TTest(o, r, test, 0, 0.25, false, nil, nil, tsum{n1, 3, v1}, tsum{n2, 1, v2})
					}
				}
			}
		}
	}
	for _, l1 := range []int{0, 1, 2, 3} {
		for _, l2 := range []int{0, 1, 2, 3} {
			for _, constant := range []bool{false, true} {
				x1, x2 := make([]float64, l1), make([]float64, l2)
				for i := range x1 {
					x1[i] = float64(i * i)
				}
				for i := range x2 {
					x2[i] = float64(i*i) - 1
					if !constant {
						x2[i] = float64(3 * i)
					}
				}
				c12TTest(o, r, 2, 0, 0, true, x1, x2, tsum{}, tsum{})
			}
		}
	}
	// well-conditioned two-sample stream: unequal sizes (e.g. 10 vs 3) and unequal variances with
	// high probability, so that the textbook t / Welch-Satterthwaite check is sharp
	for i := 0; i < n/2; i++ {
		n1, n2 := r.Range(2, 16), r.Range(2, 16)
		switch r.Intn(6) {
		case 0:
			n1, n2 = 10, 3
		case 1:
			n1, n2 = 3, 10
		case 2:
			n1, n2 = r.Range(20, 60), r.Range(2, 5)
		case 3:
			n2 = n1 // equal sizes, a minority
		}
		base := math.Ldexp(1+r.Float(), r.Range(-10, 20))
		sd1 := math.Ldexp(1+r.Float(), -r.Range(1, 8))
		sd2 := math.Ldexp(1+r.Float(), -r.Range(1, 8))
		if r.Chance(0.15) {
			sd2 = sd1
		}
		shift := (r.Float() - 0.5) * 4 * (sd1 + sd2)
		x1, x2 := make([]float64, n1), make([]float64, n2)
		for j := range x1 {
			x1[j] = base * (1 + sd1*(r.Float()-0.5))
		}
		for j := range x2 {
			x2[j] = base * (1 + shift + sd2*(r.Float()-0.5))
		}
		test := []int{1, 1, 1, 0, 3}[r.Intn(5)]
		mu0 := 0.0
		if test == 3 {
			mu0 = base * (1 + sd1*(r.Float()-0.5))
		}
		o.Count(fmt.Sprintf("ttest wellcond n1!=n2: %v", n1 != n2))
		c12TTest(o, r, test, []int{-1, 0, 1}[r.Intn(3)], mu0, true, x1, x2, tsum{}, tsum{})
	}
	alts := []int{-1, 0, 1, -1, 0, 1, 0, 0, 2, -7}
	for i := 0; i < n; i++ {
		test := r.Intn(4)
		alt := alts[r.Intn(len(alts))]
		mu0 := 0.0
		if r.Bool() {
			mu0 = (r.Float() - 0.5) * 10
		}
		if r.Chance(0.6) || test == 2 {
			x1, x2 := c12SmallSample(r), c12SmallSample(r)
			if test == 2 && r.Chance(0.8) { // paired: same length, correlated
				x2 = make([]float64, len(x1))
				for j := range x1 {
					x2[j] = x1[j] * (1 + 0.01*(r.Float()-0.5))
					if r.Chance(0.1) {
						x2[j] = x1[j]
					}
				}
				if r.Chance(0.1) {
					copy(x2, x1)
				}
				if r.Chance(0.1) {
					for j := range x1 {
						x2[j] = x1[j] - 1 // constant difference: zero variance
					}
				}
			}
			c12TTest(o, r, test, alt, mu0, true, x1, x2, tsum{}, tsum{})
		} else {
			mk := func() tsum {
				t := tsum{n: float64(r.Range(0, 40)), mean: (r.Float() - 0.5) * 20, vr: r.Float() * 5}
				switch r.Intn(8) { // independent of the variance choice below
				case 0:
					t.n = r.Float() * 3 // non-integer weight
				case 1:
					t.n = []float64{0, 1, 2, 1.5, 1e6}[r.Intn(5)]
				}
				switch r.Intn(8) {
				case 0:
					t.vr = 0
				case 1:
					t.vr = math.Ldexp(r.Float(), -r.Range(0, 200))
				}
				return t
			}
			c12TTest(o, r, test, alt, mu0, false, nil, nil, mk(), mk())
		}
	}
}

// ---------- kinds 3-6: beta / t distribution replay ----------

// betaIncOracles records the library results mathBetaInc(x,a,b) needs.
func betaIncOracles(lg, lo, ex *oracle, x, a, b float64) {
	if 0 < x && x < 1 {
		l1, l2, l3 := lgammaLib(a+b), lgammaLib(a), lgammaLib(b)
		lg.add(a+b, l1)
		lg.add(a, l2)
		lg.add(b, l3)
		lx, l1x := math.Log(x), math.Log(1-x)
		lo.add(x, lx)
		lo.add(1-x, l1x)
		arg := l1 - l2 - l3 + a*lx + b*l1x
		ex.add(arg, math.Exp(arg))
	}
}

type c12DistInput struct {
	Kind string   `json:"kind"`
	Args []string `json:"args"`
}

func outVal(pan bool, v float64) hx.Sx {
	if pan {
		return hx.L(hx.I(2))
	}
	return hx.L(hx.I(0), hx.F64(v))
}

func c12BetaInc(o *hx.Out, x, a, b float64) {
	lg, lo, ex := newOracle(), newOracle(), newOracle()
	betaIncOracles(lg, lo, ex, x, a, b)
	var v float64
	pan := try(func() { v = stats.MathBetaInc(x, a, b) })
	c := hx.L(hx.I(3), hx.F64(x), hx.F64(a), hx.F64(b), lg.sx(), lo.sx(), ex.sx(), outVal(pan, v))
	o.Count(fmt.Sprintf("betainc panic=%v", pan))
	args := hexfs([]float64{x, a, b})
	o.Add(c, c12DistInput{"betainc", args}, fmt.Sprint("bi", args), 0 < x && x < 1)
}

func c12Betacf(o *hx.Out, x, a, b float64) {
	var v float64
	pan := try(func() { v = stats.Betacf(x, a, b) })
	c := hx.L(hx.I(4), hx.F64(x), hx.F64(a), hx.F64(b), outVal(pan, v))
	o.Count(fmt.Sprintf("betacf panic=%v", pan))
	args := hexfs([]float64{x, a, b})
	o.Add(c, c12DistInput{"betacf", args}, fmt.Sprint("cf", args), true)
}

func c12TCdf(o *hx.Out, v, x float64) {
	lg, lo, ex := newOracle(), newOracle(), newOracle()
	ax := math.Abs(x)
	if x != 0 && x == x {
		// both forms of the positive branch (the complementary one is used for x*x < V)
		betaIncOracles(lg, lo, ex, v/(v+ax*ax), v/2, 0.5)
		if x2 := ax * ax; x2 < v {
			betaIncOracles(lg, lo, ex, x2/(v+x2), 0.5, v/2)
		}
	}
	var c float64
	pan := try(func() { c = stats.TDist{V: v}.CDF(x) })
	cs := hx.L(hx.I(5), hx.F64(v), hx.F64(x), lg.sx(), lo.sx(), ex.sx(), outVal(pan, c))
	o.Count(fmt.Sprintf("tcdf panic=%v", pan))
	args := hexfs([]float64{v, x})
	o.Add(cs, c12DistInput{"tcdf", args}, fmt.Sprint("tc", args), x != 0)
}

func c12TPdf(o *hx.Out, v, x float64) {
	lg, ex := newOracle(), newOracle()
	pw := newOracle2()
	l1, l2 := lgammaLib((v+1)/2), lgammaLib(v/2)
	lg.add((v+1)/2, l1)
	lg.add(v/2, l2)
	ex.add(l1-l2, math.Exp(l1-l2))
	pw.add(1+(x*x)/v, -(v+1)/2, 0, math.Pow(1+(x*x)/v, -(v+1)/2))
	var d float64
	pan := try(func() { d = stats.TDist{V: v}.PDF(x) })
	cs := hx.L(hx.I(6), hx.F64(v), hx.F64(x), lg.sx(), ex.sx(), pw.sx(), outVal(pan, d))
	o.Count("tpdf")
	args := hexfs([]float64{v, x})
	o.Add(cs, c12DistInput{"tpdf", args}, fmt.Sprint("tp", args), true)
}

func c12Nu(r *hx.Rng) float64 {
	switch r.Intn(6) {
	case 0:
		return float64(r.Range(1, 30))
	case 1:
		return float64(r.Range(1, 100000))
	case 2:
		return 1 + r.Float()*30 // non-integer (Welch)
	case 3:
		return math.Exp(r.Float() * math.Log(1e5))
	case 4:
		return []float64{1, 2, 1e5, 99999.5, 1.0000000001, 3.5, 1e4}[r.Intn(7)]
	default:
		return float64(r.Range(1, 300)) + r.Float()
	}
}

func c12X(r *hx.Rng) float64 {
	var x float64
	switch r.Intn(6) {
	case 0:
		x = r.Float() * 4
	case 1:
		x = r.Float() * 50
	case 2:
		x = math.Ldexp(r.Float(), -r.Range(0, 60))
	case 3:
		x = math.Ldexp(1+r.Float(), r.Range(0, 200))
	case 4:
		x = []float64{0, 1, 2, 1e-300, 1e300, math.Inf(1), 5e-324, 1e-8}[r.Intn(8)]
	default:
		x = float64(r.Range(0, 1000)) / 100
	}
	if r.Bool() {
		x = -x
	}
	return x
}

func genC12Dist(o *hx.Out, r *hx.Rng, n int) {
	for i := 0; i < n; i++ {
		v, x := c12Nu(r), c12X(r)
		c12TCdf(o, v, x)
		if i%3 == 0 {
			c12TPdf(o, v, math.Max(math.Min(x, 1e150), -1e150))
		}
		// the beta parameters the t CDF produces, and freer ones
		bx, ba, bb := v/(v+x*x), v/2, 0.5
		if r.Chance(0.5) {
			bx = r.Float()
			ba, bb = math.Exp(r.Float()*math.Log(5e4))*0.5, math.Exp(r.Float()*math.Log(100))*0.25
			if r.Bool() {
				ba, bb = bb, ba
			}
		}
		if r.Chance(0.05) {
			bx = []float64{0, 1, -0.5, 1.5, math.NaN()}[r.Intn(5)]
		}
		c12BetaInc(o, bx, ba, bb)
		if bx == bx && i%2 == 0 {
			c12Betacf(o, bx, ba, bb)
		}
	}
	// non-convergence: the iteration cap panics (outcome as data)
	c12Betacf(o, 0.5, 1e9, 1e9)
	c12Betacf(o, math.NaN(), 2, 3)
	c12BetaInc(o, 0.5, 1e9, 1e9)
	c12TCdf(o, 1e12, 1)
	c12TCdf(o, math.NaN(), 1)
	c12TCdf(o, 5, math.NaN())
}

// ---------- kinds 7-8: InvCDF / bisectBool replay ----------

type recDist struct {
	d    stats.DistCommon
	tab  *oracle2
	call int
}

func (r *recDist) CDF(x float64) float64 {
	r.call++
	var c float64
	if try(func() { c = r.d.CDF(x) }) {
		r.tab.add(x, 0, 1, 0)
		panic("cdf panicked")
	}
	r.tab.add(x, 0, 0, c)
	return c
}
func (r *recDist) Bounds() (float64, float64) { return r.d.Bounds() }

// stepDist: a distribution with finite support and flat pieces (weakly monotone CDF)
type stepDist struct{ lo, hi float64 }

func (s stepDist) CDF(x float64) float64 {
	switch {
	case x < s.lo:
		return 0
	case x >= s.hi:
		return 1
	}
	return math.Floor(8*(x-s.lo)/(s.hi-s.lo)) / 8
}
func (s stepDist) Bounds() (float64, float64) { return s.lo, s.hi }

func c12InvCDF(o *hx.Out, name string, d stats.DistCommon, y float64) {
	rd := &recDist{d: d, tab: newOracle2()}
	var x float64
	pan := try(func() { x = stats.InvCDF(rd)(y) })
	lo, hi := d.Bounds()
	cs := hx.L(hx.I(7), hx.F64(y), hx.F64(lo), hx.F64(hi), rd.tab.sx(), outVal(pan, x))
	o.Count(fmt.Sprintf("invcdf %s panic=%v", name, pan))
	cb := "calls<=64"
	if rd.call > 200 {
		cb = "calls>200"
	} else if rd.call > 64 {
		cb = "calls 65..200"
	}
	o.Count("invcdf " + cb)
	o.Add(cs, c12DistInput{"invcdf " + name, hexfs([]float64{y})}, fmt.Sprintf("inv %s %x", name, y), rd.call > 2)
}

func c12Bisect(o *hx.Out, r *hx.Rng) {
	lo := (r.Float() - 0.5) * math.Ldexp(1, r.Range(-5, 40))
	hi := lo + math.Ldexp(r.Float(), r.Range(-60, 40))
	thr := lo + (hi-lo)*r.Float()
	if r.Chance(0.1) {
		thr = hi + 1 // not bracketed: panics
	}
	if r.Chance(0.1) {
		lo, hi = hi, lo
	}
	xtol := []float64{1e-16, 0, 1e-3, 1, math.Ldexp(1, -r.Range(0, 80))}[r.Intn(5)]
	tab := newOracle2()
	wiggle := r.Chance(0.2)
	f := func(x float64) bool {
		b := x < thr
		if wiggle { // not monotone
			b = math.Sin(x*37) < 0.1
		}
		k := 0.0
		if b {
			k = 1
		}
		tab.add(x, 0, 0, k)
		return b
	}
	var x1, x2 float64
	pan := try(func() { x1, x2 = stats.BisectBool(f, lo, hi, xtol) })
	out := hx.L(hx.I(2))
	if !pan {
		out = hx.L(hx.I(0), hx.F64(x1), hx.F64(x2))
	}
	cs := hx.L(hx.I(8), hx.F64(lo), hx.F64(hi), hx.F64(xtol), tab.sx(), out)
	o.Count(fmt.Sprintf("bisect panic=%v", pan))
	args := hexfs([]float64{lo, hi, xtol, thr})
	o.Add(cs, c12DistInput{"bisect", args}, fmt.Sprint("bs", args, wiggle), !pan)
}

func genC12Inv(o *hx.Out, r *hx.Rng, n int) {
	for i := 0; i < n; i++ {
		y := r.Float()
		switch r.Intn(8) {
		case 0:
			y = []float64{0, 1, 0.5, 0.025, 0.975, -0.1, 1.1, 1e-300, math.Nextafter(1, 0), 5e-324}[r.Intn(10)]
		case 1:
			y = math.Ldexp(r.Float(), -r.Range(1, 60))
		case 2:
			y = 1 - math.Ldexp(r.Float(), -r.Range(1, 50))
		}
		switch r.Intn(5) {
		case 0, 1, 2:
			c12InvCDF(o, "t", stats.TDist{V: c12Nu(r)}, y)
		case 3: // the generic path on a normal distribution (its own InvCDF hidden by the wrapper)
			c12InvCDF(o, "normal", stats.NormalDist{Mu: (r.Float() - 0.5) * 10, Sigma: math.Ldexp(1+r.Float(), r.Range(-3, 5))}, y)
		default:
			if r.Bool() {
				y = float64(r.Range(0, 8)) / 8
			}
			c12InvCDF(o, "step", stepDist{lo: -r.Float() * 5, hi: r.Float() * 9}, y)
		}
		c12Bisect(o, r)
	}
}

// ---------- kind 9: NormalDist replay ----------

func c12Normal(o *hx.Out, r *hx.Rng) {
	mu, sigma := 0.0, 1.0
	if r.Bool() {
		mu, sigma = (r.Float()-0.5)*100, math.Ldexp(1+r.Float(), r.Range(-10, 10))
	}
	nd := stats.NormalDist{Mu: mu, Sigma: sigma}
	which := r.Intn(3)
	er, ex, lo := newOracle(), newOracle(), newOracle()
	var arg, val float64
	switch which {
	case 0:
		arg = mu + sigma*(r.Float()-0.5)*20
		z := arg - mu
		a := -z * z / (2 * sigma * sigma)
		ex.add(a, math.Exp(a))
		val = nd.PDF(arg)
	case 1:
		arg = mu + sigma*(r.Float()-0.5)*20
		a := -(arg - mu) / (sigma * math.Sqrt2)
		er.add(a, math.Erfc(a))
		val = nd.CDF(arg)
	default:
		arg = r.Float()
		switch r.Intn(5) {
		case 0:
			arg = math.Ldexp(r.Float(), -r.Range(4, 300))
		case 1:
			arg = 1 - math.Ldexp(r.Float(), -r.Range(4, 52))
		case 2:
			arg = []float64{0, 1, -1, 2, 0.02425, 0.97575, 0.5, math.NaN()}[r.Intn(8)]
		}
		val = nd.InvCDF(arg)
		// replicate the library calls of InvCDF (the model announces the same arguments)
		p := arg
		if !(p < 0 || p > 1) && p != 0 && p != 1 {
			const plow = 0.02425
			const phigh = 1 - plow
			if p < plow {
				lo.add(p, math.Log(p))
			} else if phigh < p {
				lo.add(1-p, math.Log(1-p))
			}
			// x before refinement, recovered by running the same arithmetic through the oracle is not
			// possible here without duplicating the polynomial; instead record Erfc/Exp for the value the
			// standard-normal implementation reaches: re-derive it with StdNormal and the inverse of the refinement
			x0 := c12AcklamX0(p)
			a := -x0 / math.Sqrt2
			er.add(a, math.Erfc(a))
			ex.add(x0*x0/2, math.Exp(x0*x0/2))
		}
	}
	cs := hx.L(hx.I(9), hx.F64(mu), hx.F64(sigma), hx.I(which), hx.F64(arg), er.sx(), ex.sx(), lo.sx(), hx.F64(val))
	o.Count(fmt.Sprintf("normal which=%d", which))
	args := hexfs([]float64{mu, sigma, arg})
	o.Add(cs, c12DistInput{fmt.Sprintf("normal%d", which), args}, fmt.Sprint("nm", which, args), true)
}

// c12AcklamX0 is the rational approximation stage of NormalDist.InvCDF (needed
// only to know at which arguments the code calls Erfc and Exp).
func c12AcklamX0(p float64) (x float64) {
	const (
		a1    = -3.969683028665376e+01
		a2    = 2.209460984245205e+02
		a3    = -2.759285104469687e+02
		a4    = 1.383577518672690e+02
		a5    = -3.066479806614716e+01
		a6    = 2.506628277459239e+00
		b1    = -5.447609879822406e+01
		b2    = 1.615858368580409e+02
		b3    = -1.556989798598866e+02
		b4    = 6.680131188771972e+01
		b5    = -1.328068155288572e+01
		c1    = -7.784894002430293e-03
		c2    = -3.223964580411365e-01
		c3    = -2.400758277161838e+00
		c4    = -2.549732539343734e+00
		c5    = 4.374664141464968e+00
		c6    = 2.938163982698783e+00
		d1    = 7.784695709041462e-03
		d2    = 3.224671290700398e-01
		d3    = 2.445134137142996e+00
		d4    = 3.754408661907416e+00
		plow  = 0.02425
		phigh = 1 - plow
	)
	if p < plow {
		q := math.Sqrt(-2 * math.Log(p))
		x = (((((c1*q+c2)*q+c3)*q+c4)*q+c5)*q + c6) / ((((d1*q+d2)*q+d3)*q+d4)*q + 1)
	} else if phigh < p {
		q := math.Sqrt(-2 * math.Log(1-p))
		x = -(((((c1*q+c2)*q+c3)*q+c4)*q+c5)*q + c6) / ((((d1*q+d2)*q+d3)*q+d4)*q + 1)
	} else {
		q := p - 0.5
		r := q * q
		x = (((((a1*r+a2)*r+a3)*r+a4)*r+a5)*r + a6) * q / (((((b1*r+b2)*r+b3)*r+b4)*r+b5)*r + 1)
	}
	return x
}

// ---------- kind 10: sweeps of the implementation as data; kind 11: reference points ----------

var C12Calib = map[string]float64{}

func calib(k string, v float64) {
	if v > C12Calib[k] {
		C12Calib[k] = v
	}
}

// c12SweepCDF ships CDF values on a symmetric ascending grid around centre.
func c12SweepCDF(o *hx.Out, which int, p1, p2 float64, cdf func(float64) float64, centre, half float64, steps int) {
	xs := make([]float64, 0, 2*steps+1)
	for i := -steps; i <= steps; i++ {
		xs = append(xs, centre+half*float64(i)/float64(steps))
	}
	fs := make([]float64, len(xs))
	pan := false
	for i, x := range xs {
		x := x
		if try(func() { fs[i] = cdf(x) }) {
			pan = true
			fs[i] = math.NaN()
		}
	}
	for i := range xs {
		if i > 0 {
			calib(fmt.Sprintf("sweep%d decrease", which), fs[i-1]-fs[i])
		}
		calib(fmt.Sprintf("sweep%d asym", which), math.Abs(fs[i]+fs[len(xs)-1-i]-1))
	}
	cs := hx.L(hx.I(10), hx.I(which), hx.F64(p1), hx.F64(p2), f64s(xs), f64s(fs), hx.Bool(pan))
	o.Count(fmt.Sprintf("sweep cdf kind=%d", which))
	args := hexfs([]float64{p1, p2, centre, half, float64(steps)})
	o.Add(cs, c12DistInput{fmt.Sprintf("sweep-cdf%d", which), args}, fmt.Sprint("sw", which, args), true)
}

// c12SweepInv ships (y, x = InvCDF(y), CDF(x)) triples, y ascending.
func c12SweepInv(o *hx.Out, r *hx.Rng, which int, p1, p2 float64, d stats.DistCommon, n int) {
	ys := make([]float64, n)
	for i := range ys {
		switch r.Intn(4) {
		case 0:
			ys[i] = math.Ldexp(r.Float(), -r.Range(1, 30))
		case 1:
			ys[i] = 1 - math.Ldexp(r.Float(), -r.Range(1, 30))
		default:
			ys[i] = r.Float()
		}
	}
	sort.Float64s(ys)
	xs, fs := make([]float64, n), make([]float64, n)
	pan := false
	inv := stats.InvCDF(d)
	for i, y := range ys {
		i, y := i, y
		if try(func() { xs[i] = inv(y); fs[i] = d.CDF(xs[i]) }) {
			pan = true
		}
		calib(fmt.Sprintf("inv%d |F(inv y)-y|", which), math.Abs(fs[i]-y))
		calib(fmt.Sprintf("inv%d |F(inv y)-y|/y", which), math.Abs(fs[i]-y)/y)
		calib(fmt.Sprintf("inv%d |F(inv y)-y|/(1-y)", which), math.Abs(fs[i]-y)/(1-y))
	}
	cs := hx.L(hx.I(10), hx.I(which), hx.F64(p1), hx.F64(p2), f64s(ys), f64s(xs), f64s(fs), hx.Bool(pan))
	o.Count(fmt.Sprintf("sweep inv kind=%d", which))
	args := hexfs(append([]float64{p1, p2}, ys...))
	o.Add(cs, c12DistInput{fmt.Sprintf("sweep-inv%d", which), args}, fmt.Sprint("si", which, args), true)
}

// c12SweepBeta ships (x, a, b, I_x(a,b), I_{1-x}(b,a)).
func c12SweepBeta(o *hx.Out, r *hx.Rng, n int) {
	var rows []hx.Sx
	var all []float64
	pan := false
	for i := 0; i < n; i++ {
		v := c12Nu(r)
		t := r.Float() * 8
		x, a, b := v/(v+t*t), v/2, 0.5
		if r.Bool() {
			x = r.Float()
			a, b = math.Exp(r.Float()*math.Log(5e4))*0.5, math.Exp(r.Float()*math.Log(200))*0.25
		}
		var i1, i2 float64
		if try(func() { i1 = stats.MathBetaInc(x, a, b); i2 = stats.MathBetaInc(1-x, b, a) }) {
			pan = true
		}
		calib("beta |I+I'-1|", math.Abs(i1+i2-1))
		calib("beta above 1", math.Max(i1, i2)-1)
		calib("beta below 0", -math.Min(i1, i2))
		rows = append(rows, hx.L(hx.F64(x), hx.F64(a), hx.F64(b), hx.F64(i1), hx.F64(i2)))
		all = append(all, x, a, b)
	}
	cs := hx.L(hx.I(10), hx.I(4), hx.List(rows), hx.Bool(pan))
	o.Count("sweep beta")
	args := hexfs(all)
	o.Add(cs, c12DistInput{"sweep-beta", args}, fmt.Sprint("sb", args), true)
}

var c12RefGrid = [][2]float64{{1, 1}, {1, 6.5}, {2, 0.5}, {2, 3}, {3, 1}, {3, 4.5}, {4, 1.5}, {5, 2}, {10, 0.75}, {10, 3.25}}

func genC12Sweeps(o *hx.Out, r *hx.Rng, tier string) {
	nNu, steps, nInv, nBeta := 24, 80, 12, 10
	if tier == "thorough" {
		nNu, steps, nInv, nBeta = 120, 400, 60, 80
	}
	for i := 0; i < nNu; i++ {
		v := c12Nu(r)
		half := []float64{4, 8, 40, 1e-3, 1e3}[r.Intn(5)]
		c12SweepCDF(o, 0, v, 0, stats.TDist{V: v}.CDF, 0, half, steps)
	}
	for i := 0; i < nNu/3+1; i++ {
		mu, sigma := (r.Float()-0.5)*20, math.Ldexp(1+r.Float(), r.Range(-8, 8))
		// grid symmetric about mu is only approximately symmetric in floats unless mu = 0
		if r.Bool() {
			mu = 0
		}
		c12SweepCDF(o, 1, mu, sigma, stats.NormalDist{Mu: mu, Sigma: sigma}.CDF, mu, sigma*[]float64{3, 6, 10, 38}[r.Intn(4)], steps)
	}
	if tier == "thorough" { // the dense 1e-3 grid of DESIGN 7.12 (iii)
		for _, v := range []float64{1, 2.5, 7, 30, 1234.5, 1e5} {
			c12SweepCDF(o, 0, v, 0, stats.TDist{V: v}.CDF, 0, 8, 8000)
		}
		c12SweepCDF(o, 1, 0, 1, stats.StdNormal.CDF, 0, 8, 8000)
	}
	for i := 0; i < nInv; i++ {
		v := c12Nu(r)
		c12SweepInv(o, r, 2, v, 0, stats.TDist{V: v}, 12)
	}
	for i := 0; i < nInv/2+1; i++ {
		mu, sigma := (r.Float()-0.5)*20, math.Ldexp(1+r.Float(), r.Range(-8, 8))
		c12SweepInv(o, r, 3, mu, sigma, stats.NormalDist{Mu: mu, Sigma: sigma}, 12)
	}
	for i := 0; i < nBeta; i++ {
		c12SweepBeta(o, r, 40)
	}
	// kind 12: slope of the t CDF at the origin: 0.3182 x - 2^-53 <= F(x) - 1/2 <= 0.39895 x + 2^-53 for 0 < x <= 0.01
	// (1/pi <= f_nu(0) <= 1/sqrt(2 pi), f_nu(t) >= f_nu(0)(1 - 1e-4) on [0, 0.01], nu >= 1)
	for i := 0; i < 40; i++ {
		v := c12Nu(r)
		if i%4 == 0 {
			v = []float64{78739, 1e5, 5e4, 99999.5, 12345}[r.Intn(5)]
		}
		x := math.Ldexp(1+r.Float(), -r.Range(7, 22))
		if i%2 == 1 {
			x = math.Ldexp(1+r.Float(), -r.Range(20, 50)) // below sqrt(V)*1e-8: the CDF was flat there before 7450c97
		}
		f := stats.TDist{V: v}.CDF(x)
		cs := hx.L(hx.I(12), hx.F64(v), hx.F64(x), hx.F64(f))
		var tags []string
		o.Count("origin slope")
		args := hexfs([]float64{v, x})
		o.Add(cs, c12DistInput{"tslope", args}, fmt.Sprint("slope", args), true, tags...)
	}
	for k, g := range c12RefGrid {
		d := stats.TDist{V: g[0]}
		cs := hx.L(hx.I(11), hx.I(k), hx.F64(g[0]), hx.F64(g[1]), hx.F64(d.CDF(g[1])), hx.F64(d.CDF(-g[1])))
		o.Count("reference point")
		args := hexfs(g[:])
		o.Add(cs, c12DistInput{"tref", args}, fmt.Sprint("ref", args), true)
	}
}

// ---------- kind 15: InvCDF at the CDF values of the bracket expansion's own probe points ----------

// genericDist hides a distribution's own InvCDF so that stats.InvCDF takes the generic numerical path.
type genericDist struct{ d stats.DistCommon }

func (g genericDist) CDF(x float64) float64       { return g.d.CDF(x) }
func (g genericDist) Bounds() (float64, float64) { return g.d.Bounds() }

// c12ProbeXs: the points the expansion loops of the generic InvCDF evaluate the CDF at:
// 0, then 0+1, +2, +4, ... = 2^k - 1 upwards, respectively -(2^k - 1) downwards. Ascending.
func c12ProbeXs(kmax int) []float64 {
	var xs []float64
	for k := kmax; k >= 1; k-- {
		xs = append(xs, -(math.Ldexp(1, k) - 1))
	}
	xs = append(xs, 0)
	for k := 1; k <= kmax; k++ {
		xs = append(xs, math.Ldexp(1, k)-1)
	}
	return xs
}

// c12ProbeInv ships (x0, y = CDF(x0) bit for bit, x = InvCDF(y), CDF(x)) for every probe point x0
// with 0 < CDF(x0) < 1. which: 0 = Student t (p1 = nu), 1 = normal through the generic path
// (p1, p2 = mu, sigma), 2 = step distribution (p1, p2 = lo, hi). A few of the points are also
// shipped as kind 7 replays (model vs code on the same class).
func c12ProbeInv(o *hx.Out, r *hx.Rng, which int, p1, p2 float64, d stats.DistCommon, kmax int) {
	var x0s, ys, xs, fs []float64
	pan := false
	inv := stats.InvCDF(d)
	nlo, nhi := 0, 0
	for _, x0 := range c12ProbeXs(kmax) {
		var y float64
		if try(func() { y = d.CDF(x0) }) || !(0 < y && y < 1) {
			continue
		}
		var x, f float64
		if try(func() { x = inv(y); f = d.CDF(x) }) {
			pan = true
		}
		x0s, ys, xs, fs = append(x0s, x0), append(ys, y), append(xs, x), append(fs, f)
		switch {
		case y > 0.5:
			nhi++
		case y < 0.5:
			nlo++
		}
		if !pan {
			calib(fmt.Sprintf("probe-inv%d F(inv y)-y", which), f-y)
		}
	}
	cs := hx.L(hx.I(15), hx.I(which), hx.F64(p1), hx.F64(p2), f64s(x0s), f64s(ys), f64s(xs), f64s(fs), hx.Bool(pan))
	o.Count(fmt.Sprintf("probe inv kind=%d", which))
	o.Dist[fmt.Sprintf("probe inv kind=%d points p>0.5", which)] += nhi
	o.Dist[fmt.Sprintf("probe inv kind=%d points p<0.5", which)] += nlo
	args := hexfs(append([]float64{p1, p2}, x0s...))
	o.Add(cs, c12DistInput{fmt.Sprintf("probe-inv%d", which), args}, fmt.Sprint("pi", which, args), len(ys) > 1)
	names := []string{"t-probe", "normal-probe", "step-probe"}
	for j := 0; j < 2 && len(ys) > 0; j++ {
		c12InvCDF(o, names[which], d, ys[r.Intn(len(ys))])
	}
}

func genC12Probe(o *hx.Out, r *hx.Rng, tier string) {
	nT, nN, nS := 36, 10, 6
	if tier == "thorough" {
		nT, nN, nS = 400, 100, 40
	}
	for i := 0; i < nT; i++ {
		v := c12Nu(r)
		if i < 12 { // the degrees of freedom of small samples, every run
			v = []float64{1, 2, 3, 4, 5, 6, 8, 10, 18, 30, 2.5, 7.25}[i]
		}
		c12ProbeInv(o, r, 0, v, 0, stats.TDist{V: v}, 12)
	}
	for i := 0; i < nN; i++ {
		mu, sigma := (r.Float()-0.5)*10, math.Ldexp(1+r.Float(), r.Range(-1, 7))
		if i%2 == 0 {
			mu = 0
		}
		c12ProbeInv(o, r, 1, mu, sigma, genericDist{stats.NormalDist{Mu: mu, Sigma: sigma}}, 10)
	}
	for i := 0; i < nS; i++ {
		lo, hi := -r.Float()*70, r.Float()*90
		c12ProbeInv(o, r, 2, lo, hi, stepDist{lo: lo, hi: hi}, 7)
	}
}

func genC12(o *hx.Out, r *hx.Rng, tier string, replay string) error {
	o.Rule = "C12 cases: (1) descriptive statistics of samples of 1-300 finite values (11 shapes x 3 orders x sorted flag) with 11 percentiles each; (2) the four t-tests on raw samples (incl. empty, single, constant, mismatched) and on summary triples (zero/non-integer weights, zero variance, unknown hypothesis); (3-6) mathBetaInc/betacf/TDist.CDF/PDF replay with oracle tables for nu in [1,1e5] incl. non-integers; (7-8) generic InvCDF and bisectBool replay; (9) NormalDist replay; (10) sweeps of the implementation as data; (11) certified reference points; (13) PDF values on 65-point dyadic grids with the CDF at both ends (Student t, nu in [1,1e5] incl. non-integers; normal), for quadrature; (14) second table of certified reference points (t and normal, PDF and CDF); (15) InvCDF(dist)(dist.CDF(x0)) at the probe points x0 = 0, +-(2^k - 1) of the generic InvCDF's bracket expansion (p = a probed CDF value bit for bit, both p > 0.5 and p < 0.5; Student t for nu 1..30 and random in [1,1e5], normal and a step distribution through the generic path), a few of them also as kind 7 replays. non-trivial = the case exercises the main path (sample of >= 2 values, test without error, 0<x<1, ...); distinct by inputs"
	mult := 1
	if tier == "thorough" {
		mult = 40
	}
	c12Desc(o, r, nil, "empty", false, []float64{0, 0.5, 1})
	c12Desc(o, r, nil, "empty", true, []float64{0, 0.5, 1})
	genC12Desc(o, r.Split(), 400*mult)
	genC12TTests(o, r.Split(), 400*mult)
	genC12Dist(o, r.Split(), 300*mult)
	genC12Inv(o, r.Split(), 60*mult)
	rn := r.Split()
	for i := 0; i < 150*mult; i++ {
		c12Normal(o, rn)
	}
	genC12Sweeps(o, r.Split(), tier)
	genC12Quad(o, r.Split(), tier)
	genC12Probe(o, r.Split(), tier)
	o.Extra["max_observed_deviations"] = C12Calib
	return nil
}
