package main

// C18: comparison series depend only on the result set (benchseries.Builder.Add,
// AllComparisonSeries under both duplicate policies), bootstrap summaries
// (AddSummaries / ratio / percentile / median / hash) and NormalizeDateString.
//
// Case layout (first element = kind):
//   (0 s1 s2 out1 out2 inst1 inst2)            dates, a pair of timestamp texts
//   (1 nu de conf N seed stream pub hookRatios hookSum again)   bootstrap
//   (2 results wf runs conf N refs)            series: one result set, many orders;
//        wf = (a b c d a'), run = (how order out sums), sums = (0 ((summary ...) ...)) | (2),
//        refs = (refs-replace refs-combine), refs-x = ((seed stream alone) per cell) per series
//   (3 conf N cells)                           several cells, one AddSummaries call
import (
	"fmt"
	"math"
	"math/rand"
	"os"
	"sort"
	"strings"
	"time"

	"golang.org/x/perf/benchfmt"
	"golang.org/x/perf/benchseries"
	"verifharness/internal/hx"
)

func init() { gens["C18"] = genC18 }

// ---------------------------------------------------------------- dates

type c18Civil struct {
	Y, Mo, D, H, Mi, S int
	Ns                int
	Off               int // minutes east
}

func c18Days(y, m int) int {
	switch m {
	case 2:
		if (y%4 == 0 && y%100 != 0) || y%400 == 0 {
			return 29
		}
		return 28
	case 4, 6, 9, 11:
		return 30
	}
	return 31
}

func c18RandCivil(r *hx.Rng) c18Civil {
	var c c18Civil
	switch r.Intn(10) {
	case 0:
		c.Y = []int{0, 1, 9999, 9998, 1969, 1970, 2000, 1900, 2100, 400}[r.Intn(10)]
	case 1:
		c.Y = r.Intn(10000)
	default:
		c.Y = 2015 + r.Intn(12)
	}
	c.Mo = 1 + r.Intn(12)
	if r.Chance(0.2) {
		c.Mo = []int{1, 2, 3, 12}[r.Intn(4)]
	}
	dim := c18Days(c.Y, c.Mo)
	c.D = 1 + r.Intn(dim)
	if r.Chance(0.3) {
		c.D = []int{1, dim, dim - 1, 28}[r.Intn(4)]
		if c.D < 1 {
			c.D = 1
		}
	}
	c.H, c.Mi, c.S = r.Intn(24), r.Intn(60), r.Intn(60)
	if r.Chance(0.2) {
		c.H, c.Mi, c.S = []int{0, 23}[r.Intn(2)], []int{0, 59}[r.Intn(2)], []int{0, 59}[r.Intn(2)]
	}
	return c
}

var c18Fracs = []string{"", "", "5", "50", "05", "000", "123456789", "000000001", "999999999", "1234567891", "100000000000", "0000000009", "120"}

// text of civil c in the RFC 3339 layout, with the given fraction digits and zone
func c18Text(c c18Civil, frac string, zone string, sep string) string {
	s := fmt.Sprintf("%04d-%02d-%02dT%02d:%02d:%02d", c.Y, c.Mo, c.D, c.H, c.Mi, c.S)
	if frac != "" {
		s += sep + frac
	}
	return s + zone
}

func c18Zone(r *hx.Rng) (string, int) {
	switch r.Intn(6) {
	case 0:
		return "Z", 0
	case 1:
		return "+00:00", 0
	case 2:
		return "-00:00", 0
	}
	h, m := r.Intn(15), []int{0, 30, 45, 15, 59}[r.Intn(5)]
	if r.Chance(0.1) {
		h, m = []int{23, 24}[r.Intn(2)], []int{59, 60, 0}[r.Intn(3)]
	}
	if r.Bool() {
		return fmt.Sprintf("+%02d:%02d", h, m), h*60 + m
	}
	return fmt.Sprintf("-%02d:%02d", h, m), -(h*60 + m)
}

// another text for the same instant as (c, off minutes): shift the civil fields
func c18SameInstant(r *hx.Rng, c c18Civil, offMin int, frac string) string {
	t := time.Date(c.Y, time.Month(c.Mo), c.D, c.H, c.Mi, c.S, 0, time.UTC).Add(-time.Duration(offMin) * time.Minute)
	// t is the instant in UTC; choose a new zone
	zone, off2 := c18Zone(r)
	u := t.Add(time.Duration(off2) * time.Minute)
	if u.Year() < 0 || u.Year() > 9999 {
		zone, u = "Z", t
		if t.Year() < 0 || t.Year() > 9999 {
			return ""
		}
	}
	c2 := c18Civil{Y: u.Year(), Mo: int(u.Month()), D: u.Day(), H: u.Hour(), Mi: u.Minute(), S: u.Second()}
	if frac == "" && zone == "Z" && r.Bool() && off2 == 0 {
		return fmt.Sprintf("%04d%02d%02dT%02d%02d%02d", c2.Y, c2.Mo, c2.D, c2.H, c2.Mi, c2.S)
	}
	f2 := frac
	if f2 != "" && r.Bool() {
		f2 += strings.Repeat("0", r.Intn(3))
	}
	if f2 == "" && r.Chance(0.3) {
		f2 = strings.Repeat("0", 1+r.Intn(4))
	}
	sep := "."
	if r.Chance(0.2) {
		sep = ","
	}
	return c18Text(c2, f2, zone, sep)
}

func c18RandStamp(r *hx.Rng) (string, c18Civil, int, string) {
	c := c18RandCivil(r)
	frac := c18Fracs[r.Intn(len(c18Fracs))]
	if r.Chance(0.25) {
		return fmt.Sprintf("%04d%02d%02dT%02d%02d%02d", c.Y, c.Mo, c.D, c.H, c.Mi, c.S), c, 0, ""
	}
	zone, off := c18Zone(r)
	sep := "."
	if r.Chance(0.15) {
		sep = ","
	}
	return c18Text(c, frac, zone, sep), c, off, frac
}

func c18Hostile(r *hx.Rng, s string) string {
	b := []byte(s)
	switch r.Intn(12) {
	case 0: // invalid field values
		c := c18RandCivil(r)
		switch r.Intn(7) {
		case 0:
			c.Mo = []int{0, 13, 99}[r.Intn(3)]
		case 1:
			c.D = c18Days(c.Y, c.Mo) + 1
		case 2:
			c.D = 0
		case 3:
			c.H = 24 + r.Intn(3)
		case 4:
			c.Mi = 60 + r.Intn(3)
		case 5:
			c.S = 60 + r.Intn(3)
		case 6:
			c.Mo, c.D = 2, 29
		}
		if r.Bool() {
			return fmt.Sprintf("%04d%02d%02dT%02d%02d%02d", c.Y, c.Mo, c.D, c.H, c.Mi, c.S)
		}
		return c18Text(c, "", "Z", ".")
	case 1: // drop a byte
		if len(b) > 0 {
			i := r.Intn(len(b))
			return string(append(b[:i:i], b[i+1:]...))
		}
	case 2: // replace a byte
		if len(b) > 0 {
			i := r.Intn(len(b))
			b[i] = "0123456789TZ:-+., tzx/"[r.Intn(22)]
			return string(b)
		}
	case 3: // insert a byte
		i := r.Intn(len(b) + 1)
		ch := "0123456789TZ:-+., "[r.Intn(18)]
		return string(append(b[:i:i], append([]byte{ch}, b[i:]...)...))
	case 4:
		return s + []string{"Z", " ", "0", "+00:00", "\n"}[r.Intn(5)]
	case 5:
		return []string{"", "T", "Z", "2021", "20211229", "20211229T2132", "2021-12-29", "20211229T213212Z", "2021-12-29T21:32:12",
			"2021-12-29T21:32:12.Z", "2021-12-29T21:32:12+0100", "2021-12-29T21:32:12+01", "2021-12-29t21:32:12Z", "2021-12-29T21:32:12z",
			"2021-12-29T1:32:12Z", "2021-12-29T01:2:12Z", "2021-12-29T21:32:12+25:00", "2021-12-29T21:32:12+24:00", "2021-12-29T21:32:12+23:60",
			"2021-12-29T21:32:12+23:61", "2021-12-29T21:32:12-24:60", "<zero>", "0000-01-01T00:00:00+01:00", "9999-12-31T23:59:59-01:00"}[r.Intn(24)]
	case 6: // zone variations
		c := c18RandCivil(r)
		return c18Text(c, "", fmt.Sprintf("%c%02d:%02d", "+-"[r.Intn(2)], 20+r.Intn(8), 55+r.Intn(8)), ".")
	case 7: // single-digit hour
		c := c18RandCivil(r)
		c.H = r.Intn(10)
		return fmt.Sprintf("%04d-%02d-%02dT%d:%02d:%02dZ", c.Y, c.Mo, c.D, c.H, c.Mi, c.S)
	}
	return s
}

func c18Norm(s string) (out hx.Sx, inst hx.Sx, okv bool, str string) {
	o, err := benchseries.NormalizeDateString(s)
	// the instant according to the time package called directly (whether or not
	// NormalizeDateString accepts the text)
	in := s
	if len(s) == 15 && s[8] == 'T' {
		all := true
		for i, ch := range []byte(s) {
			if i != 8 && (ch < '0' || ch > '9') {
				all = false
			}
		}
		if all {
			in = s[0:4] + "-" + s[4:6] + "-" + s[6:11] + ":" + s[11:13] + ":" + s[13:15] + "+00:00"
		}
	}
	inst = hx.L()
	if t, err2 := time.Parse(time.RFC3339Nano, in); err2 == nil {
		inst = hx.L(hx.Z(t.Unix()), hx.I(t.Nanosecond()))
	}
	if err != nil {
		return hx.L(), inst, false, ""
	}
	return hx.L(hx.S(o)), inst, true, o
}

// the two ends of the four-digit-year range: a zone offset moves the instant
// of a four-digit-year text into year 10000 or year -1; paired with texts on
// the other side of the end, with the same instant in another zone, and with
// ordinary stamps
func c18GenDateEnds(o *hx.Out, r *hx.Rng, n int) {
	c18DatePair(o, "9999-12-31T23:00:00-05:00", "9999-12-31T23:00:00Z", "range-end-witness")
	c18DatePair(o, "0000-01-01T00:30:00+01:00", "0000-01-01T00:00:00Z", "range-end-witness")
	c18DatePair(o, "9999-12-31T23:00:00-05:00", "9999-12-31T22:00:00-06:00", "range-end-witness")
	for k := 0; k < n; k++ {
		mk := func(high bool) string {
			h, mi, sec := r.Intn(24), r.Intn(60), r.Intn(60)
			zh, zm := r.Intn(15), []int{0, 30, 45, 59}[r.Intn(4)]
			frac := []string{"", "", ".5", ".999999999", ",000000001"}[r.Intn(5)]
			if high {
				d := 31 - r.Intn(2)
				return fmt.Sprintf("9999-12-%02dT%02d:%02d:%02d%s-%02d:%02d", d, h, mi, sec, frac, zh, zm)
			}
			d := 1 + r.Intn(2)
			return fmt.Sprintf("0000-01-%02dT%02d:%02d:%02d%s+%02d:%02d", d, h, mi, sec, frac, zh, zm)
		}
		high := r.Bool()
		s1 := mk(high)
		var s2 string
		switch r.Intn(4) {
		case 0:
			s2 = mk(high)
		case 1:
			s2, _, _, _ = c18RandStamp(r)
		case 2:
			if high {
				s2 = fmt.Sprintf("9999-12-31T%02d:%02d:%02dZ", r.Intn(24), r.Intn(60), r.Intn(60))
			} else {
				s2 = fmt.Sprintf("00000101T%02d%02d%02d", r.Intn(24), r.Intn(60), r.Intn(60))
			}
		default:
			s2 = mk(!high)
		}
		if r.Bool() {
			s1, s2 = s2, s1
		}
		c18DatePair(o, s1, s2, "range-end")
	}
}

func c18DatePair(o *hx.Out, s1, s2 string, kind string) {
	o1, i1, ok1, _ := c18Norm(s1)
	o2, i2, ok2, _ := c18Norm(s2)
	o.Count("date:" + kind)
	o.Count(fmt.Sprintf("date-ok:%v/%v", ok1, ok2))
	o.Add(hx.L(hx.I(0), hx.S(s1), hx.S(s2), o1, o2, i1, i2),
		map[string]interface{}{"kind": "dates", "s1": s1, "s2": s2}, "d:"+s1+"|"+s2, ok1 || ok2)
}

func c18GenDates(o *hx.Out, r *hx.Rng, n int) {
	for k := 0; k < n; k++ {
		s1, c, off, frac := c18RandStamp(r)
		switch r.Intn(5) {
		case 0, 1: // same instant written differently
			s2 := c18SameInstant(r, c, off, frac)
			if len(frac) > 9 {
				s2 = c18SameInstant(r, c, off, frac[:9])
			}
			if s2 == "" {
				s2 = s1
			}
			c18DatePair(o, s1, s2, "same-instant")
		case 2: // near instant (order)
			c2 := c
			switch r.Intn(4) {
			case 0:
				c2.S = (c.S + 1) % 60
			case 1:
				c2.D = 1 + (c.D % c18Days(c.Y, c.Mo))
			case 2:
				c2.Mo = 1 + (c.Mo % 12)
				if c2.D > c18Days(c2.Y, c2.Mo) {
					c2.D = c18Days(c2.Y, c2.Mo)
				}
			case 3:
				c2.Y = (c.Y + 1) % 10000
				if c2.D > c18Days(c2.Y, c2.Mo) {
					c2.D = c18Days(c2.Y, c2.Mo)
				}
			}
			zone, _ := c18Zone(r)
			c18DatePair(o, s1, c18Text(c2, c18Fracs[r.Intn(len(c18Fracs))], zone, "."), "near")
		case 3: // same second, different fractions
			f2 := c18Fracs[r.Intn(len(c18Fracs))]
			zone := "Z"
			if off != 0 || strings.HasSuffix(s1, "0") {
				// keep the zone of s1 when it has one
				if i := strings.LastIndexAny(s1, "+-Z"); i > 10 {
					zone = s1[i:]
				}
			}
			if len(s1) == 15 {
				zone = "+00:00"
			}
			c18DatePair(o, s1, c18Text(c, f2, zone, "."), "fraction")
		case 4:
			s2, _, _, _ := c18RandStamp(r)
			if r.Bool() {
				s2 = c18Hostile(r, s2)
			}
			if r.Chance(0.3) {
				s1 = c18Hostile(r, s1)
			}
			c18DatePair(o, s1, s2, "independent/hostile")
		}
	}
}

// ---------------------------------------------------------------- shared builder plumbing

func c18Opts() *benchseries.BuilderOptions {
	return &benchseries.BuilderOptions{
		Filter: ".unit:/.*/", Series: "ser", Table: "goos", Experiment: "runstamp", Compare: "role",
		Numerator: "num", Denominator: "den", NumeratorHash: "nh", DenominatorHash: "dh", Ignore: "",
		Warn: func(string, ...interface{}) {},
	}
}

// one benchfmt.Result of the generated result set
type c18Result struct {
	Table string    `json:"table"`
	Bench string    `json:"bench"`
	Exp   string    `json:"exp"`
	Ser   string    `json:"ser"`
	Role  string    `json:"role"`
	NH    string    `json:"nh"`
	DH    string    `json:"dh"`
	Units []string  `json:"units"`
	Vals  []float64 `json:"vals"`
}

func (c c18Result) result() *benchfmt.Result {
	res := &benchfmt.Result{Name: benchfmt.Name(c.Bench), Iters: 1}
	set := func(k, v string) {
		if v != "" {
			res.SetConfig(k, v)
		}
	}
	set("goos", c.Table)
	set("runstamp", c.Exp)
	set("ser", c.Ser)
	set("role", c.Role)
	set("nh", c.NH)
	set("dh", c.DH)
	for i, u := range c.Units {
		res.Values = append(res.Values, benchfmt.Value{Value: c.Vals[i], Unit: u})
	}
	return res
}

func c18F64s(v []float64) hx.Sx {
	it := make([]hx.Sx, len(v))
	for i, x := range v {
		it[i] = hx.F64(x)
	}
	return hx.List(it)
}

// observable of one AllComparisonSeries result
func c18Observe(css []*benchseries.ComparisonSeries) hx.Sx {
	var out []hx.Sx
	for _, cs := range css {
		var hp []hx.Sx
		keys := make([]string, 0, len(cs.HashPairs))
		for k := range cs.HashPairs {
			keys = append(keys, k)
		}
		sort.Strings(keys)
		for _, k := range keys {
			hp = append(hp, hx.L(hx.S(k), hx.S(cs.HashPairs[k].NumHash), hx.S(cs.HashPairs[k].DenHash)))
		}
		var cells []hx.Sx
		for _, b := range cs.Benchmarks {
			for _, s := range cs.Series {
				if c, ok := cs.ComparisonAt(b, s); ok {
					var nu, de []float64
					if c.Numerator != nil {
						nu = c.Numerator.Values
					}
					if c.Denominator != nil {
						de = c.Denominator.Values
					}
					cells = append(cells, hx.L(hx.S(b), hx.S(s), hx.S(c.Date), c18F64s(nu), c18F64s(de)))
				}
			}
		}
		out = append(out, hx.L(hx.S(cs.Unit), hx.SList(cs.Benchmarks), hx.SList(cs.Series), hx.List(hp), hx.List(cells)))
	}
	return hx.List(out)
}

// samples of one observed cell (raw order)
type c18CellObs struct{ Nu, De []float64 }

func c18Summ(s *benchseries.ComparisonSummary) hx.Sx {
	if !s.Defined() {
		return hx.L(hx.I(1))
	}
	return hx.L(hx.I(0), hx.F64(s.Center), hx.F64(s.Low), hx.F64(s.High))
}

// summaries of every cell of every series (AddSummaries), in the order of c18Observe's cells
func c18Summaries(css []*benchseries.ComparisonSeries, conf float64, n int) (out hx.Sx) {
	defer func() {
		if e := recover(); e != nil {
			out = hx.L(hx.I(2))
		}
	}()
	var all []hx.Sx
	for _, cs := range css {
		cs.AddSummaries(conf, n)
		var row []hx.Sx
		for bi, b := range cs.Benchmarks {
			for si, s := range cs.Series {
				if _, ok := cs.ComparisonAt(b, s); ok {
					row = append(row, c18Summ(cs.Summaries[si][bi]))
				}
			}
		}
		all = append(all, hx.List(row))
	}
	return hx.L(hx.I(0), hx.List(all))
}

// runs the real builder over results in the given order; the comparison series
// are observed first (raw sample order), then summarised
func c18Run(results []c18Result, order []int, how int, conf float64, n int) (outcome hx.Sx, kind string, sums hx.Sx, cells [][]c18CellObs) {
	sums = hx.L(hx.I(0), hx.L())
	defer func() {
		if e := recover(); e != nil {
			outcome, kind = hx.L(hx.I(2)), "panic"
		}
	}()
	b, err := benchseries.NewBuilder(c18Opts())
	if err != nil {
		panic(err)
	}
	for _, i := range order {
		b.Add(results[i].result())
	}
	css, err := b.AllComparisonSeries(nil, how)
	if err != nil {
		return hx.L(hx.I(1)), "error", sums, nil
	}
	outcome, kind = hx.L(hx.I(0), c18Observe(css)), "ok"
	for _, cs := range css {
		var row []c18CellObs
		for _, bn := range cs.Benchmarks {
			for _, s := range cs.Series {
				if c, ok := cs.ComparisonAt(bn, s); ok {
					var o c18CellObs
					if c.Numerator != nil {
						o.Nu = append([]float64(nil), c.Numerator.Values...)
					}
					if c.Denominator != nil {
						o.De = append([]float64(nil), c.Denominator.Values...)
					}
					row = append(row, o)
				}
			}
		}
		cells = append(cells, row)
	}
	sums = c18Summaries(css, conf, n)
	return
}

// ---------------------------------------------------------------- series

type c18World struct {
	Results []c18Result `json:"results"`
	Mut     string      `json:"mutation"`
}

var c18Benches = []string{"A", "B/x=1", "C-8"}
var c18Tables = []string{"linux", "darwin"}
var c18UnitSets = [][]string{{"sec/op"}, {"sec/op", "B/op"}, {"B/op"}}

// a timestamp text for instant number k (day k of Jan 2022, 21:32:12Z), in a random layout
func c18Stamp(r *hx.Rng, base time.Time, style int) string {
	switch style % 4 {
	case 0:
		return base.UTC().Format("20060102T150405")
	case 1:
		return base.UTC().Format("2006-01-02T15:04:05Z")
	case 2:
		return base.In(time.FixedZone("", 3600)).Format("2006-01-02T15:04:05-07:00")
	default:
		return base.In(time.FixedZone("", -5*3600-1800)).Format("2006-01-02T15:04:05.000-07:00")
	}
}

func c18Val(r *hx.Rng) float64 {
	switch r.Intn(6) {
	case 0:
		return float64(1 + r.Intn(5))
	case 1:
		return float64(100+r.Intn(900)) / 8
	default:
		return float64(1000+r.Intn(9000)) / 7
	}
}

func c18GenWorld(r *hx.Rng) c18World {
	var w c18World
	nH := 2 + r.Intn(3)
	t0 := time.Date(2022, 1, 1, 21, 32, 12, 0, time.UTC)
	hashes := make([]string, nH)
	sers := make([]string, nH)
	for i := range hashes {
		hashes[i] = fmt.Sprintf("h%d", i)
		sers[i] = c18Stamp(r, t0.AddDate(0, 0, i).Add(time.Duration(r.Intn(3))*time.Hour), r.Intn(4))
	}
	dens := []string{"d0", "d1", ""}
	nE := 2 + r.Intn(3)
	exps := make([]string, nE)
	for i := range exps {
		exps[i] = c18Stamp(r, t0.AddDate(0, 1, i), r.Intn(4))
	}
	nT := 1 + r.Intn(2)
	nB := 1 + r.Intn(3)
	for ti := 0; ti < nT; ti++ {
		table := c18Tables[ti]
		if nT == 1 && r.Chance(0.3) {
			table = ""
		}
		dmap := make([]string, nH)
		for i := range dmap {
			dmap[i] = dens[r.Intn(3)]
			if r.Chance(0.5) {
				dmap[i] = dens[0]
			}
		}
		for ei := 0; ei < nE; ei++ {
			if r.Chance(0.15) {
				continue
			}
			d := dmap[r.Intn(nH)]
			var tips []int
			for i := range dmap {
				if dmap[i] == d && r.Chance(0.6) {
					tips = append(tips, i)
				}
			}
			units := c18UnitSets[r.Intn(len(c18UnitSets))]
			for bi := 0; bi < nB; bi++ {
				if r.Chance(0.15) {
					continue
				}
				mk := func(role, ser, nh, dh string) {
					vals := make([]float64, len(units))
					for i := range vals {
						vals[i] = c18Val(r)
					}
					w.Results = append(w.Results, c18Result{Table: table, Bench: c18Benches[bi], Exp: exps[ei], Ser: ser,
						Role: role, NH: nh, DH: dh, Units: units, Vals: vals})
				}
				if d != "" {
					for k := 1 + r.Intn(3); k > 0; k-- {
						// the denominator results carry the tip's keys too, as in real data
						nh, ser := "", ""
						if len(tips) > 0 {
							nh, ser = hashes[tips[0]], sers[tips[0]]
						}
						mk("den", ser, nh, d)
					}
				}
				for _, h := range tips {
					for k := 1 + r.Intn(3); k > 0; k-- {
						mk("num", sers[h], hashes[h], d)
					}
				}
				if r.Chance(0.1) {
					mk([]string{"other", ""}[r.Intn(2)], sers[0], hashes[0], d)
				}
			}
		}
	}
	if len(w.Results) == 0 {
		w.Results = append(w.Results, c18Result{Table: "", Bench: "A", Exp: exps[0], Ser: sers[0], Role: "num", NH: "h0", DH: "d0",
			Units: []string{"sec/op"}, Vals: []float64{1}})
	}
	// mutations that leave the well-formed domain (or exercise the error path)
	pick := func(pred func(c c18Result) bool) int {
		var idx []int
		for i, c := range w.Results {
			if pred(c) {
				idx = append(idx, i)
			}
		}
		if len(idx) == 0 {
			return -1
		}
		return idx[r.Intn(len(idx))]
	}
	switch r.Intn(14) {
	case 0: // a: one numerator result with another series stamp
		if i := pick(func(c c18Result) bool { return c.Role == "num" }); i >= 0 {
			w.Results[i].Ser = c18Stamp(r, t0.AddDate(0, 0, 5+r.Intn(2)), r.Intn(4))
			w.Mut = "a:num-result-other-series-stamp"
		}
	case 1: // b: one experiment compares against another baseline hash
		if i := pick(func(c c18Result) bool { return c.Role == "den" }); i >= 0 {
			e, t := w.Results[i].Exp, w.Results[i].Table
			for j := range w.Results {
				if w.Results[j].Exp == e && w.Results[j].Table == t {
					w.Results[j].DH = "dX"
				}
			}
			w.Mut = "b:experiment-with-other-baseline-hash"
		}
	case 2: // c: one denominator result with another hash
		if i := pick(func(c c18Result) bool { return c.Role == "den" }); i >= 0 {
			w.Results[i].DH = "dY"
			w.Mut = "c:den-result-other-hash"
		}
	case 3: // d: two experiment keys denoting one instant
		if len(exps) >= 2 {
			alt := ""
			tt, _ := benchseries.NormalizeDateString(exps[0])
			for s := 0; s < 4; s++ {
				pt, _ := benchseries.ParseNormalizedDateString(tt)
				c := c18Stamp(r, pt, s)
				if c != exps[0] {
					alt = c
				}
			}
			for j := range w.Results {
				if w.Results[j].Exp == exps[1] {
					w.Results[j].Exp = alt
				}
			}
			w.Mut = "d:two-experiment-keys-one-instant"
		}
	case 4: // e: a trial loses its denominators
		if i := pick(func(c c18Result) bool { return c.Role == "den" }); i >= 0 {
			x := w.Results[i]
			var keep []c18Result
			for _, c := range w.Results {
				if !(c.Role == "den" && c.Exp == x.Exp && c.Table == x.Table && c.Bench == x.Bench) {
					keep = append(keep, c)
				}
			}
			w.Results = keep
			w.Mut = "e:trial-without-denominator"
		}
	case 5: // f: unparsable stamp
		i := r.Intn(len(w.Results))
		if r.Bool() {
			w.Results[i].Exp = []string{"", "2022-13-01T00:00:00Z", "yesterday"}[r.Intn(3)]
		} else {
			w.Results[i].Ser = []string{"", "20220230T000000", "x"}[r.Intn(3)]
		}
		w.Mut = "f:unparsable-stamp"
	case 6: // g: two hashes share a series instant
		if i := pick(func(c c18Result) bool { return c.Role == "num" && c.NH != "h0" }); i >= 0 {
			h := w.Results[i].NH
			for j := range w.Results {
				if w.Results[j].NH == h {
					w.Results[j].Ser = sers[0]
				}
			}
			w.Mut = "g:two-hashes-one-series-stamp"
		}
	}
	return w
}

// a world outside the well-formed domain: a generated world whose mutation
// (a-g above) took effect; the mutation touches one result / one experiment of
// one table, so the other tables, units and series points stay well-formed
func c18GenIllWorld(r *hx.Rng) c18World {
	var w c18World
	for try := 0; try < 40; try++ {
		w = c18GenWorld(r)
		if w.Mut == "" || strings.HasPrefix(w.Mut, "f:") {
			continue
		}
		fl, _ := c18Flatten(w.Results)
		wa, wb, wc, wd, wan := c18WF(fl)
		_ = wa
		if !(wan && wb && wc && wd) {
			return w
		}
	}
	return w
}

type c18Flat struct {
	Unit, Table, Bench, Exp, Ser, Role, NH, DH string
	Val                                       float64
}

func c18Flatten(results []c18Result) (flat []c18Flat, start []int) {
	for _, c := range results {
		start = append(start, len(flat))
		for i, u := range c.Units {
			flat = append(flat, c18Flat{u, c.Table, c.Bench, c.Exp, c.Ser, c.Role, c.NH, c.DH, c.Vals[i]})
		}
	}
	return
}

// the well-formedness clauses (input predicates; the Coq side recomputes them)
func c18WF(flat []c18Flat) (a, b, c, d, an bool) {
	a, b, c, d, an = true, true, true, true, true
	norm := func(s string) (string, bool) {
		o, err := benchseries.NormalizeDateString(s)
		return o, err == nil
	}
	bh := func(x c18Flat) string {
		for _, y := range flat {
			if y.Role == "den" && y.Unit == x.Unit && y.Table == x.Table && y.Bench == x.Bench && y.Exp == x.Exp {
				return y.DH
			}
		}
		return ""
	}
	for _, x := range flat {
		for _, y := range flat {
			if x.Role == "num" && y.Role == "num" {
				if x.NH == y.NH && x.Ser != y.Ser {
					a = false
					// a': the two spellings denote one instant
					sx, ok1 := norm(x.Ser)
					sy, ok2 := norm(y.Ser)
					if !(ok1 && ok2 && sx == sy) {
						an = false
					}
				}
				if x.Unit == y.Unit && x.Table == y.Table {
					sx, ok1 := norm(x.Ser)
					sy, ok2 := norm(y.Ser)
					if ok1 && ok2 && sx == sy {
						if x.NH != y.NH || bh(x) != bh(y) {
							b = false
						}
						if x.Bench == y.Bench && x.Exp != y.Exp {
							dx, ok3 := norm(x.Exp)
							dy, ok4 := norm(y.Exp)
							if ok3 && ok4 && dx == dy {
								d = false
							}
						}
					}
				}
			}
			if x.Role == "den" && y.Role == "den" && x.Unit == y.Unit && x.Table == y.Table && x.Bench == y.Bench && x.Exp == y.Exp && x.DH != y.DH {
				c = false
			}
		}
	}
	return
}

func c18RoleCode(s string) int {
	switch s {
	case "num":
		return 0
	case "den":
		return 1
	}
	return 2
}

// all permutations of 0..n-1 (n small)
func c18Perms(n int) [][]int {
	var out [][]int
	var rec func(cur []int, used []bool)
	rec = func(cur []int, used []bool) {
		if len(cur) == n {
			out = append(out, append([]int(nil), cur...))
			return
		}
		for i := 0; i < n; i++ {
			if !used[i] {
				used[i] = true
				rec(append(cur, i), used)
				used[i] = false
			}
		}
	}
	rec(nil, make([]bool, n))
	return out
}

// input predicate: under DUPE_COMBINE some series point is measured by >= 2
// experiments whose values interleave (the concatenation of the per-experiment
// sorted samples, in either order of two experiments, is not sorted)
func c18Interleaved(flat []c18Flat) bool {
	type pk struct{ unit, table, bench, ser string }
	norm := func(s string) string {
		o, err := benchseries.NormalizeDateString(s)
		if err != nil {
			return "!" + s
		}
		return o
	}
	nums := map[pk]map[string][]float64{}
	var keys []pk
	for _, f := range flat {
		if f.Role != "num" {
			continue
		}
		k := pk{f.Unit, f.Table, f.Bench, norm(f.Ser)}
		if nums[k] == nil {
			nums[k] = map[string][]float64{}
			keys = append(keys, k)
		}
		nums[k][f.Exp] = append(nums[k][f.Exp], f.Val)
	}
	overlap := func(a, b []float64) bool {
		mina, maxa := a[0], a[0]
		for _, v := range a {
			mina, maxa = math.Min(mina, v), math.Max(maxa, v)
		}
		minb, maxb := b[0], b[0]
		for _, v := range b {
			minb, maxb = math.Min(minb, v), math.Max(maxb, v)
		}
		return maxa > minb && maxb > mina
	}
	for _, k := range keys {
		var exps []string
		for e := range nums[k] {
			exps = append(exps, e)
		}
		sort.Strings(exps)
		for i := range exps {
			for j := i + 1; j < len(exps); j++ {
				if overlap(nums[k][exps[i]], nums[k][exps[j]]) {
					return true
				}
			}
		}
	}
	return false
}

// input predicate: two results added one after the other carry the same table
// keys and the same number (>= 2) of values but different unit lists
func c18AdjacentUnitLists(results []c18Result, order []int) bool {
	for k := 0; k+1 < len(order); k++ {
		x, y := results[order[k]], results[order[k+1]]
		if x.Table == y.Table && len(x.Units) >= 2 && len(x.Units) == len(y.Units) && strings.Join(x.Units, " ") != strings.Join(y.Units, " ") {
			return true
		}
	}
	return false
}

func c18SeriesCase(o *hx.Out, r *hx.Rng, w c18World, norders int) {
	flat, start := c18Flatten(w.Results)
	var rs []hx.Sx
	for _, f := range flat {
		rs = append(rs, hx.L(hx.S(f.Unit), hx.S(f.Table), hx.S(f.Bench), hx.S(f.Exp), hx.S(f.Ser), hx.I(c18RoleCode(f.Role)),
			hx.S(f.NH), hx.S(f.DH), hx.F64(f.Val)))
	}
	wa, wb, wc, wd, wan := c18WF(flat)
	var tags []string
	if !wan {
		tags = append(tags, "c18_series_hash_two_stamps")
	}
	if !wb {
		tags = append(tags, "c18_series_point_two_hash_pairs")
	}
	if !wc {
		tags = append(tags, "c18_series_trial_two_baseline_hashes")
	}
	if !wd {
		tags = append(tags, "c18_series_same_instant_two_experiments")
	}
	wf := wan && wb && wc && wd
	// summaries: a small resample count keeps the recorded Intn streams short
	conf := []float64{0.5, 0.9, 0.95, 0.99}[r.Intn(4)]
	bootN := []int{1, 2, 3, 5, 8}[r.Intn(5)]
	var runs []hx.Sx
	n := len(w.Results)
	var orders [][]int
	if norders < 0 { // every add order
		orders = c18Perms(n)
	} else {
		for k := 0; k < norders; k++ {
			order := make([]int, n)
			for i := range order {
				order[i] = i
			}
			if k == 1 {
				for i := 0; i < n/2; i++ {
					order[i], order[n-1-i] = order[n-1-i], order[i]
				}
			} else if k > 1 {
				for i := n - 1; i > 0; i-- {
					j := r.Intn(i + 1)
					order[i], order[j] = order[j], order[i]
				}
			}
			orders = append(orders, order)
		}
	}
	kinds := map[string]bool{}
	distinct := map[string]bool{}
	sumsDistinct := [2]map[string]bool{{}, {}}
	var first [2][][]c18CellObs
	adjacent := 0
	for _, order := range orders {
		if c18AdjacentUnitLists(w.Results, order) {
			adjacent++
		}
	}
	for how := 0; how < 2; how++ {
		for _, order := range orders {
			out, kind, sums, cells := c18Run(w.Results, order, how, conf, bootN)
			kinds[kind] = true
			distinct[fmt.Sprintf("%d:%s", how, out.Text())] = true
			sumsDistinct[how][sums.Text()] = true
			if kind == "ok" && first[how] == nil {
				first[how] = cells
				if first[how] == nil {
					first[how] = [][]c18CellObs{}
				}
			}
			var fo []hx.Sx
			for _, i := range order {
				for j := range w.Results[i].Units {
					fo = append(fo, hx.I(start[i]+j))
				}
			}
			runs = append(runs, hx.L(hx.I(how), hx.List(fo), out, sums))
		}
	}
	// per policy and cell: the same multiset of measurements summarised as ONE
	// experiment through the public API, and the math/rand stream of its seed
	var refs [2]hx.Sx
	for how := 0; how < 2; how++ {
		var tabs []hx.Sx
		for _, row := range first[how] {
			var cs []hx.Sx
			for _, c := range row {
				nu := append([]float64(nil), c.Nu...)
				de := append([]float64(nil), c.De...)
				sort.Float64s(nu)
				sort.Float64s(de)
				if len(de) == 0 {
					cs = append(cs, hx.L(hx.Z(0), hx.L(), hx.L(hx.I(1))))
					continue
				}
				seed, stream := c18Stream(nu, de, bootN)
				alone, _ := c18PublicSummary(c18Boot{Nu: nu, De: de, Conf: conf, N: bootN})
				cs = append(cs, hx.L(hx.Z(seed), stream, alone))
			}
			tabs = append(tabs, hx.List(cs))
		}
		refs[how] = hx.List(tabs)
	}
	for k := range kinds {
		o.Count("series-outcome:" + k)
	}
	o.Count(fmt.Sprintf("series-wf:%v", wf))
	if wf && !wa {
		o.Count("series-wf-hash-with-several-spellings-of-one-instant")
	}
	if w.Mut != "" {
		if i := strings.IndexByte(w.Mut, ':'); i > 0 {
			o.Count("series-mutation:" + w.Mut[:i])
		} else {
			o.Count("series-class:" + w.Mut)
		}
	}
	if !wf && len(distinct) > 2 {
		o.Count("series-illformed-observed-order-dependent")
	}
	for _, t := range tags {
		o.Count("series-finding-input:" + t)
	}
	if wf && len(distinct) > 2 {
		o.Count("series-wf-raw-outputs-differ(unsorted denominator-less cells)")
	}
	if wf && c18Interleaved(flat) {
		o.Count("series-wf-combine-point-with-interleaved-experiments")
	}
	if wf && adjacent > 0 {
		o.Count("series-wf-adjacent-multi-value-results-different-unit-lists")
	}
	if wf && (len(sumsDistinct[0]) > 1 || len(sumsDistinct[1]) > 1) {
		o.Count("series-wf-summaries-differ-across-orders")
	}
	o.Count(fmt.Sprintf("series-orders:%d", min(len(orders)/10*10, 100)))
	o.Count(fmt.Sprintf("series-results:%d", min(len(flat)/10*10, 100)))
	o.Add(hx.L(hx.I(2), hx.List(rs), hx.L(hx.Bool(wa), hx.Bool(wb), hx.Bool(wc), hx.Bool(wd), hx.Bool(wan)), hx.List(runs),
		hx.F64(conf), hx.I(bootN), hx.L(refs[0], refs[1])),
		map[string]interface{}{"kind": "series", "world": w, "orders": norders, "confidence": conf, "n": bootN}, fmt.Sprintf("s:%d", o.Len()), len(flat) > 3, tags...)
}

// ---------------------------------------------------------------- bootstrap

type c18Boot struct {
	Nu   []float64 `json:"nu"`
	De   []float64 `json:"de"`
	Conf float64   `json:"confidence"`
	N    int       `json:"n"`
	Kind string    `json:"kind"`
}

// input characterisation of finding C18_median_sum_overflow (the Coq side
// recomputes it: RunC18.median_overflows): positive samples, and median's sum
// a+b overflows for a sample of even size (its largest value doubled is +Inf)
// or for an even resample count (the largest attainable ratio doubled is +Inf)
func c18MedianOverflows(nu, de []float64, n int) bool {
	if len(nu) == 0 || len(de) == 0 {
		return false
	}
	mx := func(v []float64) float64 {
		m := v[0]
		for _, x := range v {
			m = math.Max(m, x)
		}
		return m
	}
	mn := func(v []float64) float64 {
		m := v[0]
		for _, x := range v {
			m = math.Min(m, x)
		}
		return m
	}
	for _, x := range append(append([]float64{}, nu...), de...) {
		if !(x > 0) || math.IsInf(x, 0) {
			return false
		}
	}
	hi := mx(nu) / mn(de)
	return (len(nu)%2 == 0 && math.IsInf(mx(nu)+mx(nu), 0)) || (len(de)%2 == 0 && math.IsInf(mx(de)+mx(de), 0)) ||
		(n%2 == 0 && !math.IsInf(hi, 0) && math.IsInf(hi+hi, 0))
}

func c18Ulps(a, b float64) float64 {
	return math.Abs(float64(int64(math.Float64bits(a)) - int64(math.Float64bits(b))))
}

// summaries through the public API: Builder.Add, AllComparisonSeries, AddSummaries
func c18PublicSummary(bc c18Boot) (out hx.Sx, kind string) {
	defer func() {
		if e := recover(); e != nil {
			out, kind = hx.L(hx.I(2)), "panic"
		}
	}()
	b, err := benchseries.NewBuilder(c18Opts())
	if err != nil {
		panic(err)
	}
	mk := func(role string, v float64) {
		b.Add(c18Result{Bench: "A", Exp: "20220101T000000", Ser: "20220102T000000", Role: role, NH: "h", DH: "d",
			Units: []string{"sec/op"}, Vals: []float64{v}}.result())
	}
	for _, v := range bc.Nu {
		mk("num", v)
	}
	for _, v := range bc.De {
		mk("den", v)
	}
	css, err := b.AllComparisonSeries(nil, benchseries.DUPE_REPLACE)
	if err != nil || len(css) != 1 {
		panic("unexpected")
	}
	css[0].AddSummaries(bc.Conf, bc.N)
	s := css[0].Summaries[0][0]
	if !s.Defined() {
		return hx.L(hx.I(1)), "undefined"
	}
	return hx.L(hx.I(0), hx.F64(s.Center), hx.F64(s.Low), hx.F64(s.High)), "ok"
}

func c18BootCase(o *hx.Out, bc c18Boot) {
	nu := append([]float64(nil), bc.Nu...)
	de := append([]float64(nil), bc.De...)
	sort.Float64s(nu)
	sort.Float64s(de)
	seed := benchseries.VerifSeed(nu, de)
	// the Intn stream of math/rand for that seed, called directly
	rr := rand.New(rand.NewSource(seed))
	var stream []hx.Sx
	for i := 0; i < bc.N; i++ {
		for range nu {
			stream = append(stream, hx.I(rr.Intn(len(nu))))
		}
		for range de {
			stream = append(stream, hx.I(rr.Intn(len(de))))
		}
	}
	pub, kind := c18PublicSummary(bc)
	pub2, _ := c18PublicSummary(bc)
	var hookSum hx.Sx
	var ratios []float64
	func() {
		defer func() {
			if e := recover(); e != nil {
				hookSum = hx.L(hx.I(2))
			}
		}()
		c, l, h, rs := benchseries.VerifRatio(nu, de, bc.Conf, bc.N)
		ratios = rs
		hookSum = hx.L(hx.I(0), hx.F64(c), hx.F64(l), hx.F64(h))
	}()
	var tags []string
	// input characterisation of the known interpolation-rounding finding: the
	// percentile position falls between two (nearly) equal bootstrap ratios
	if len(ratios) > 0 {
		p := (1 - bc.Conf) / 2
		for _, q := range []float64{p, 1 - p} {
			f := float64(len(ratios)) * q
			i := int(f)
			if i >= 0 && i+1 < len(ratios) && f-float64(i) > 0 && q != 0 && q != 1 {
				if c18Ulps(ratios[i], ratios[i+1]) <= 4 {
					tags = append(tags, "c18_percentile_between_equal_ratios")
					break
				}
			}
		}
	}
	o.Count("boot-kind:" + bc.Kind)
	o.Count(fmt.Sprintf("boot-N:%d", bc.N))
	o.Count("boot-outcome:" + kind)
	if len(tags) > 0 {
		o.Count("boot-flat-bracket")
	}
	if c18MedianOverflows(bc.Nu, bc.De, bc.N) {
		tags = append(tags, "c18_median_sum_overflow")
		o.Count("boot-median-sum-overflows")
	}
	o.Add(hx.L(hx.I(1), c18F64s(bc.Nu), c18F64s(bc.De), hx.F64(bc.Conf), hx.I(bc.N), hx.Z(seed), hx.List(stream),
		pub, c18F64s(ratios), hookSum, hx.Bool(pub.Text() == pub2.Text())),
		map[string]interface{}{"kind": "bootstrap", "case": bc}, fmt.Sprintf("b:%v|%v|%v|%d", bc.Nu, bc.De, bc.Conf, bc.N), len(bc.Nu) > 1, tags...)
}

func c18GenBoot(r *hx.Rng, bigN bool) c18Boot {
	var bc c18Boot
	ns := []int{1, 2, 3, 50}
	if bigN {
		ns = []int{500, 1000}
	}
	bc.N = ns[r.Intn(len(ns))]
	if !bigN && r.Chance(0.15) {
		bc.N = 1 + r.Intn(12)
	}
	confs := []float64{0.5, 0.9, 0.95, 0.99}
	switch r.Intn(8) {
	case 0, 1:
		bc.Conf = r.Float()
	case 2:
		bc.Conf = []float64{0, 1, 0.001, 0.2, 0.999999, 1e-9, 0.3333333333333333}[r.Intn(7)]
	default:
		bc.Conf = confs[r.Intn(4)]
	}
	ln, ld := 1+r.Intn(8), 1+r.Intn(8)
	if bigN {
		ln, ld = 1+r.Intn(5), 1+r.Intn(5)
	}
	gen := func(n int, f func() float64) []float64 {
		v := make([]float64, n)
		for i := range v {
			v[i] = f()
		}
		return v
	}
	switch r.Intn(8) {
	case 7:
		// positive samples at the ends of the binary64 range: values above
		// MaxFloat64/2 (the sum inside median overflows for an even sample size:
		// finding C18_median_sum_overflow), quotients that overflow or underflow,
		// subnormal values
		bc.Kind = "extreme-positive"
		big := []float64{math.MaxFloat64, math.MaxFloat64 / 2, math.Nextafter(math.MaxFloat64/2, math.Inf(1)), 1e308, 9e307, 8e307, 1e300}
		small := []float64{5e-324, 1e-320, 2.2250738585072014e-308, 1e-300, 1, 3}
		pool := [][]float64{big, small, append(append([]float64{}, big...), small...), {1, 2, 1e308, math.MaxFloat64}}
		pn, pd := pool[r.Intn(len(pool))], pool[r.Intn(len(pool))]
		bc.Nu, bc.De = gen(ln, func() float64 { return pn[r.Intn(len(pn))] }), gen(ld, func() float64 { return pd[r.Intn(len(pd))] })
	case 0:
		bc.Kind = "constant"
		a, b := c18Val(r), c18Val(r)
		bc.Nu, bc.De = gen(ln, func() float64 { return a }), gen(ld, func() float64 { return b })
	case 1:
		bc.Kind = "near-constant"
		a, b := c18Val(r), c18Val(r)
		bc.Nu = gen(ln, func() float64 { return math.Float64frombits(math.Float64bits(a) + uint64(r.Intn(3))) })
		bc.De = gen(ld, func() float64 { return math.Float64frombits(math.Float64bits(b) + uint64(r.Intn(3))) })
	case 2, 3:
		bc.Kind = "positive"
		bc.Nu, bc.De = gen(ln, func() float64 { return c18Val(r) }), gen(ld, func() float64 { return c18Val(r) })
	case 4:
		bc.Kind = "few-valued"
		a, b := c18Val(r), c18Val(r)
		bc.Nu = gen(ln, func() float64 { return a + float64(r.Intn(2)) })
		bc.De = gen(ld, func() float64 { return b + float64(r.Intn(2)) })
	case 5:
		bc.Kind = "mixed-sign"
		f := func() float64 {
			v := c18Val(r)
			if r.Bool() {
				v = -v
			}
			return v
		}
		bc.Nu, bc.De = gen(ln, f), gen(ld, f)
	case 6:
		bc.Kind = "zero-denominator"
		bc.Nu = gen(ln, func() float64 { return []float64{0, 1, 2.5, -3}[r.Intn(4)] })
		bc.De = gen(ld, func() float64 { return []float64{0, 0, 0, 4}[r.Intn(4)] })
	}
	return bc
}

// ---------------------------------------------------------------- several cells, one AddSummaries call

type c18MCell struct {
	Bench string    `json:"bench"`
	Hash  int       `json:"hash"`
	Nu    []float64 `json:"nu"`
	De    []float64 `json:"de"`
}

type c18Multi struct {
	Conf  float64    `json:"confidence"`
	N     int        `json:"n"`
	Cells []c18MCell `json:"cells"`
	Kind  string     `json:"kind"`
}

var c18MStamps = []string{"20220102T000000", "2022-01-03T00:00:00Z", "20220104T000000"}

func c18Stream(nu, de []float64, n int) (int64, hx.Sx) {
	a := append([]float64(nil), nu...)
	b := append([]float64(nil), de...)
	sort.Float64s(a)
	sort.Float64s(b)
	seed := benchseries.VerifSeed(a, b)
	rr := rand.New(rand.NewSource(seed))
	var stream []hx.Sx
	for i := 0; i < n; i++ {
		for range a {
			stream = append(stream, hx.I(rr.Intn(len(a))))
		}
		for range b {
			stream = append(stream, hx.I(rr.Intn(len(b))))
		}
	}
	return seed, hx.List(stream)
}

// all cells in ONE ComparisonSeries, summarised by ONE AddSummaries call
func c18MultiRun(m c18Multi) (outs []hx.Sx, kind string) {
	outs = make([]hx.Sx, len(m.Cells))
	defer func() {
		if e := recover(); e != nil {
			for i := range outs {
				outs[i] = hx.L(hx.I(2))
			}
			kind = "panic"
		}
	}()
	b, err := benchseries.NewBuilder(c18Opts())
	if err != nil {
		panic(err)
	}
	seenDen := map[string]bool{}
	for _, c := range m.Cells {
		mk := func(role string, v float64) {
			b.Add(c18Result{Bench: c.Bench, Exp: "20220101T000000", Ser: c18MStamps[c.Hash], Role: role, NH: fmt.Sprintf("h%d", c.Hash), DH: "d",
				Units: []string{"allocs/op"}, Vals: []float64{v}}.result())
		}
		for _, v := range c.Nu {
			mk("num", v)
		}
		if !seenDen[c.Bench] { // one baseline per (benchmark, experiment) trial
			seenDen[c.Bench] = true
			for _, v := range c.De {
				mk("den", v)
			}
		}
	}
	css, err := b.AllComparisonSeries(nil, benchseries.DUPE_REPLACE)
	if err != nil || len(css) != 1 {
		panic("unexpected")
	}
	cs := css[0]
	cs.AddSummaries(m.Conf, m.N)
	for i, c := range m.Cells {
		ser, _ := benchseries.NormalizeDateString(c18MStamps[c.Hash])
		si, bi := -1, -1
		for k, s := range cs.Series {
			if s == ser {
				si = k
			}
		}
		for k, bn := range cs.Benchmarks {
			if bn == c.Bench {
				bi = k
			}
		}
		if si < 0 || bi < 0 || !cs.Summaries[si][bi].Defined() {
			outs[i] = hx.L(hx.I(1))
			continue
		}
		sm := cs.Summaries[si][bi]
		outs[i] = hx.L(hx.I(0), hx.F64(sm.Center), hx.F64(sm.Low), hx.F64(sm.High))
	}
	return outs, "ok"
}

func c18MultiCase(o *hx.Out, m c18Multi) {
	outs, kind := c18MultiRun(m)
	var cells []hx.Sx
	tagged := false
	for i, c := range m.Cells {
		seed, stream := c18Stream(c.Nu, c.De, m.N)
		alone, _ := c18PublicSummary(c18Boot{Nu: c.Nu, De: c.De, Conf: m.Conf, N: m.N})
		// known-finding characterisation, as for single cells
		func() {
			defer func() { recover() }()
			a := append([]float64(nil), c.Nu...)
			d := append([]float64(nil), c.De...)
			sort.Float64s(a)
			sort.Float64s(d)
			_, _, _, ratios := benchseries.VerifRatio(a, d, m.Conf, m.N)
			p := (1 - m.Conf) / 2
			for _, q := range []float64{p, 1 - p} {
				f := float64(len(ratios)) * q
				k := int(f)
				if k >= 0 && k+1 < len(ratios) && f-float64(k) > 0 && q != 0 && q != 1 && c18Ulps(ratios[k], ratios[k+1]) <= 4 {
					tagged = true
				}
			}
		}()
		cells = append(cells, hx.L(c18F64s(c.Nu), c18F64s(c.De), hx.Z(seed), stream, outs[i], alone))
	}
	var tags []string
	if tagged {
		tags = append(tags, "c18_percentile_between_equal_ratios")
	}
	for _, c := range m.Cells {
		if c18MedianOverflows(c.Nu, c.De, m.N) {
			tags = append(tags, "c18_median_sum_overflow")
			break
		}
	}
	o.Count("multi-kind:" + m.Kind)
	o.Count("multi-outcome:" + kind)
	o.Count(fmt.Sprintf("multi-cells:%d", len(m.Cells)))
	o.Add(hx.L(hx.I(3), hx.F64(m.Conf), hx.I(m.N), hx.List(cells)),
		map[string]interface{}{"kind": "multi-cell-bootstrap", "case": m}, fmt.Sprintf("m:%d", o.Len()), len(m.Cells) > 1, tags...)
}

func c18GenMulti(r *hx.Rng) c18Multi {
	var m c18Multi
	m.N = []int{1, 2, 3, 7, 20, 50}[r.Intn(6)]
	m.Conf = []float64{0.5, 0.9, 0.95, 0.99, r.Float()}[r.Intn(5)]
	vec := func() []float64 {
		n := 1 + r.Intn(5)
		v := make([]float64, n)
		switch r.Intn(3) {
		case 0: // exact metric: small integers
			base := float64(1 + r.Intn(40))
			for i := range v {
				v[i] = base + float64(r.Intn(2))
			}
		case 1:
			x := c18Val(r)
			for i := range v {
				v[i] = x
			}
		default:
			for i := range v {
				v[i] = c18Val(r)
			}
		}
		return v
	}
	X, Y, Z := vec(), vec(), vec()
	type pat struct {
		nu, de []float64
		name   string
	}
	pats := []pat{{X, Y, "XY"}, {Y, X, "YX"}, {X, Y, "XY"}, {X, Z, "XZ"}, {Z, Y, "ZY"}, {X, X, "XX"}, {Z, X, "ZX"}}
	nb := 2 + r.Intn(4)
	names := []string{"B0", "B1", "B2", "B3", "B4", "B5"}
	// random assignment of benchmark names so that the order of evaluation varies
	for i := len(names) - 1; i > 0; i-- {
		j := r.Intn(i + 1)
		names[i], names[j] = names[j], names[i]
	}
	kind := ""
	for b := 0; b < nb; b++ {
		p := pats[b%2] // the first two cells are always a swapped pair
		if b >= 2 {
			p = pats[r.Intn(len(pats))]
		}
		kind += p.name + " "
		m.Cells = append(m.Cells, c18MCell{Bench: names[b], Hash: 0, Nu: p.nu, De: p.de})
		if r.Chance(0.4) { // a second series point of the same trial: shares the baseline
			nu2 := [][]float64{X, Y, Z, p.de}[r.Intn(4)]
			m.Cells = append(m.Cells, c18MCell{Bench: names[b], Hash: 1 + r.Intn(2), Nu: nu2, De: p.de})
		}
	}
	m.Kind = "swapped-pair+" + fmt.Sprint(len(m.Cells)-2)
	_ = kind
	return m
}

// DUPE_COMBINE aliasing class: one trial with several numerator hashes sharing
// ONE baseline; each of those series points is measured again by a different
// later experiment with its own (short) baseline
func c18GenSharedBaseline(r *hx.Rng) c18World {
	var w c18World
	w.Mut = "shared-baseline"
	nh := 2 + r.Intn(2)
	t0 := time.Date(2022, 1, 1, 21, 32, 12, 0, time.UTC)
	sers := make([]string, nh)
	for i := range sers {
		sers[i] = c18Stamp(r, t0.AddDate(0, 0, i), r.Intn(4))
	}
	table := []string{"", "linux"}[r.Intn(2)]
	units := c18UnitSets[r.Intn(len(c18UnitSets))]
	nb := 1 + r.Intn(2)
	for bi := 0; bi < nb; bi++ {
		mk := func(exp time.Time, style int, role string, h int, n int) {
			for k := 0; k < n; k++ {
				vals := make([]float64, len(units))
				for i := range vals {
					vals[i] = c18Val(r)
				}
				w.Results = append(w.Results, c18Result{Table: table, Bench: c18Benches[bi], Exp: c18Stamp(r, exp, style), Ser: sers[h],
					Role: role, NH: fmt.Sprintf("h%d", h), DH: "d0", Units: units, Vals: vals})
			}
		}
		st := r.Intn(4)
		// experiment 0: all hashes, one baseline whose slice has spare capacity (3, 5, 6 or 7 values)
		mk(t0.AddDate(0, 1, 0), st, "den", 0, []int{3, 5, 6, 7}[r.Intn(4)])
		for h := 0; h < nh; h++ {
			mk(t0.AddDate(0, 1, 0), st, "num", h, 1+r.Intn(3))
		}
		// later experiments: one per hash, each with a short baseline of its own
		for h := 0; h < nh; h++ {
			if r.Chance(0.9) {
				e := t0.AddDate(0, 1, 1+h)
				st2 := r.Intn(4)
				mk(e, st2, "den", h, 1+r.Intn(2))
				mk(e, st2, "num", h, 1+r.Intn(2))
			}
		}
	}
	return w
}

// ---------------------------------------------------------------- spellings of one instant (C18-c)

// the texts of instant t (UTC, nanoseconds a multiple of 1000) accepted by
// NormalizeDateString: the compact layout and "Z" forms, and the RFC 3339
// layout with an explicit +00:00 offset and a non-canonical fraction
// (trailing zeros, ',' separator, more than nine digits)
func c18Spellings(t time.Time) (canon []string, odd []string) {
	t = t.UTC()
	base := t.Format("2006-01-02T15:04:05")
	ns := t.Nanosecond()
	if ns == 0 {
		canon = []string{t.Format("20060102T150405"), base + "Z", base + "+00:00"}
		odd = []string{base + ".000+00:00", base + ".0+00:00", base + ",0+00:00", base + ".000000+00:00", base + ".000000000+00:00",
			base + ",000+00:00", base + ".0000000000+00:00", base + ".000Z", base + "-00:00", base + ".000-00:00"}
		return
	}
	f := strings.TrimRight(fmt.Sprintf("%09d", ns), "0")
	canon = []string{base + "." + f + "Z", base + "." + f + "+00:00"}
	odd = []string{base + "." + f + "0+00:00", base + "." + f + "000+00:00", base + "," + f + "+00:00", base + "," + f + "00+00:00",
		base + "." + fmt.Sprintf("%09d", ns) + "+00:00", base + "." + fmt.Sprintf("%09d", ns) + "0+00:00", base + "," + f + "Z",
		base + "." + f + "00Z", base + "." + f + "000-00:00"}
	if len(f) < 6 {
		odd = append(odd, base+"."+fmt.Sprintf("%09d", ns)[:6]+"+00:00")
	}
	// the same instant at another offset, fraction with trailing zeros
	u := t.In(time.FixedZone("", 5*3600+1800))
	odd = append(odd, u.Format("2006-01-02T15:04:05")+"."+f+"00+05:30")
	return
}

func c18SpellInstant(r *hx.Rng) time.Time {
	c := c18RandCivil(r)
	if c.Y < 1 {
		c.Y = 1
	}
	ns := 0
	switch r.Intn(6) {
	case 0, 1:
		ns = 500000000
	case 2:
		ns = []int{250000000, 120000000, 100000000, 999999000, 1000, 50000000, 123456000}[r.Intn(7)]
	}
	return time.Date(c.Y, time.Month(c.Mo), c.D, c.H, c.Mi, c.S, ns, time.UTC)
}

func c18PickSpelling(r *hx.Rng, t time.Time, oddP float64) string {
	canon, odd := c18Spellings(t)
	if r.Chance(oddP) {
		return odd[r.Intn(len(odd))]
	}
	return canon[r.Intn(len(canon))]
}

// pairs: an odd +00:00 spelling next to a compact / Z / other spelling of the
// same instant, and next to spellings of neighbouring instants
func c18GenDateSpellings(o *hx.Out, r *hx.Rng, n int) {
	for k := 0; k < n; k++ {
		t := c18SpellInstant(r)
		_, odd := c18Spellings(t)
		s1 := odd[r.Intn(len(odd))]
		switch r.Intn(3) {
		case 0, 1:
			s2 := c18PickSpelling(r, t, 0.3)
			if r.Bool() {
				s1, s2 = s2, s1
			}
			c18DatePair(o, s1, s2, "spelling-same-instant")
		default:
			d := []time.Duration{time.Microsecond, -time.Microsecond, 500 * time.Millisecond, -500 * time.Millisecond, time.Second, -time.Second,
				time.Minute, 24 * time.Hour, 100 * time.Millisecond, -100 * time.Millisecond}[r.Intn(10)]
			t2 := t.Add(d)
			if t2.Year() < 1 || t2.Year() > 9999 {
				t2 = t
			}
			s2 := c18PickSpelling(r, t2, 0.5)
			if r.Bool() {
				s1, s2 = s2, s1
			}
			c18DatePair(o, s1, s2, "spelling-neighbour")
		}
	}
}

// a well-formed world in which every result spells the series stamp of its
// hash in its own way (one instant per hash); instants may differ only in the
// fraction of a second.  Each experiment keeps ONE spelling (the experiment
// text is a map key of the builder).
func c18GenSpelledWorld(r *hx.Rng) c18World {
	var w c18World
	w.Mut = "spellings-of-one-instant"
	t0 := time.Date(2022, 1, 1, 21, 32, 12, 0, time.UTC)
	nH := 2 + r.Intn(2)
	inst := make([]time.Time, nH)
	for i := range inst {
		switch r.Intn(3) {
		case 0: // neighbours within one second
			inst[i] = t0.Add(time.Duration(i) * 250 * time.Millisecond)
		case 1:
			inst[i] = t0.AddDate(0, 0, i).Add(time.Duration(r.Intn(2)) * 500 * time.Millisecond)
		default:
			inst[i] = t0.AddDate(0, 0, i)
		}
	}
	// distinct instants
	for i := range inst {
		for j := 0; j < i; j++ {
			if inst[i].Equal(inst[j]) {
				inst[i] = inst[i].Add(time.Duration(i) * time.Hour)
			}
		}
	}
	nE := 1 + r.Intn(3)
	exps := make([]string, nE)
	for i := range exps {
		exps[i] = c18PickSpelling(r, t0.AddDate(0, 1, i).Add(time.Duration(r.Intn(2))*500*time.Millisecond), 0.6)
	}
	table := []string{"", "linux"}[r.Intn(2)]
	units := c18UnitSets[r.Intn(len(c18UnitSets))]
	nB := 1 + r.Intn(2)
	for ei := 0; ei < nE; ei++ {
		for bi := 0; bi < nB; bi++ {
			mk := func(role string, h int) {
				vals := make([]float64, len(units))
				for i := range vals {
					vals[i] = c18Val(r)
				}
				w.Results = append(w.Results, c18Result{Table: table, Bench: c18Benches[bi], Exp: exps[ei], Ser: c18PickSpelling(r, inst[h], 0.6),
					Role: role, NH: fmt.Sprintf("h%d", h), DH: "d0", Units: units, Vals: vals})
			}
			for k := 1 + r.Intn(2); k > 0; k-- {
				mk("den", 0)
			}
			for h := 0; h < nH; h++ {
				if r.Chance(0.8) {
					for k := 1 + r.Intn(3); k > 0; k-- {
						mk("num", h)
					}
				}
			}
		}
	}
	return w
}

// ---------------------------------------------------------------- interleaving experiments (C18-a)

// every series point is measured by 2-3 experiments whose numerator (and
// denominator) values interleave: consecutive values of one increasing sequence
// are dealt to the experiments in turn
func c18GenInterleave(r *hx.Rng) c18World {
	var w c18World
	w.Mut = "interleaved-experiments"
	t0 := time.Date(2022, 1, 1, 21, 32, 12, 0, time.UTC)
	nH := 1 + r.Intn(2)
	nE := 2 + r.Intn(2)
	table := []string{"", "linux"}[r.Intn(2)]
	units := c18UnitSets[r.Intn(len(c18UnitSets))]
	sers := make([]string, nH)
	for i := range sers {
		sers[i] = c18Stamp(r, t0.AddDate(0, 0, i), r.Intn(4))
	}
	exps := make([]string, nE)
	for i := range exps {
		exps[i] = c18Stamp(r, t0.AddDate(0, 1, i), r.Intn(4))
	}
	nB := 1 + r.Intn(2)
	for bi := 0; bi < nB; bi++ {
		// deal an increasing sequence to (experiment, role/hash) groups
		deal := func(role string, h int) {
			per := 1 + r.Intn(3) // values per experiment
			v := make([]float64, len(units))
			for i := range v {
				v[i] = c18Val(r)
			}
			eo := r.Intn(nE)
			for k := 0; k < per*nE; k++ {
				e := (k + eo) % nE
				vals := make([]float64, len(units))
				for i := range vals {
					v[i] += float64(1+r.Intn(40)) / 8
					vals[i] = v[i]
				}
				w.Results = append(w.Results, c18Result{Table: table, Bench: c18Benches[bi], Exp: exps[e], Ser: sers[h],
					Role: role, NH: fmt.Sprintf("h%d", h), DH: "d0", Units: units, Vals: vals})
			}
		}
		deal("den", 0)
		for h := 0; h < nH; h++ {
			deal("num", h)
		}
	}
	return w
}

// ---------------------------------------------------------------- multi-value results, overlapping unit lists (C18-b)

var c18UnitLists2 = [][]string{{"ns/op", "B/op"}, {"ns/op", "MB/s"}, {"B/op", "ns/op"}, {"MB/s", "B/op"}, {"B/op", "allocs/op"}, {"ns/op", "allocs/op"}}
var c18UnitLists3 = [][]string{{"ns/op", "B/op", "allocs/op"}, {"ns/op", "MB/s", "allocs/op"}, {"ns/op", "B/op", "MB/s"}, {"B/op", "ns/op", "allocs/op"}, {"ns/op", "MB/s", "B/op"}}

// every result carries the same number (2 or 3) of values and the same table
// keys, unit lists overlap partially; in each trial the denominators use the
// unit lists of the numerators (so every unit that has a numerator has its
// baseline and the set is well-formed)
func c18GenMultiUnit(r *hx.Rng, tiny bool) c18World {
	var w c18World
	w.Mut = "multi-value-unit-lists"
	pool := c18UnitLists2
	if r.Chance(0.3) {
		pool = c18UnitLists3
	}
	t0 := time.Date(2022, 1, 1, 21, 32, 12, 0, time.UTC)
	nH, nE, nB := 1+r.Intn(2), 1+r.Intn(2), 1+r.Intn(2)
	if tiny {
		w.Mut = "multi-value-unit-lists-all-orders"
		nH, nE, nB = 1, 1, 1
	}
	table := []string{"", "linux"}[r.Intn(2)]
	sers := make([]string, nH)
	for i := range sers {
		sers[i] = c18Stamp(r, t0.AddDate(0, 0, i), r.Intn(4))
	}
	for ei := 0; ei < nE; ei++ {
		exp := c18Stamp(r, t0.AddDate(0, 1, ei), r.Intn(4))
		for bi := 0; bi < nB; bi++ {
			mk := func(role string, h int, units []string) {
				vals := make([]float64, len(units))
				for i := range vals {
					vals[i] = c18Val(r)
				}
				w.Results = append(w.Results, c18Result{Table: table, Bench: c18Benches[bi], Exp: exp, Ser: sers[h],
					Role: role, NH: fmt.Sprintf("h%d", h), DH: "d0", Units: units, Vals: vals})
			}
			// two different unit lists per trial, adjacent in the generated order
			i := r.Intn(len(pool))
			j := (i + 1 + r.Intn(len(pool)-1)) % len(pool)
			lists := [][]string{pool[i], pool[j]}
			if !tiny && r.Chance(0.3) {
				lists = append(lists, pool[r.Intn(len(pool))])
			}
			for _, l := range lists {
				mk("den", 0, l)
			}
			for h := 0; h < nH; h++ {
				for _, l := range lists {
					mk("num", h, l)
				}
				if !tiny && r.Chance(0.3) {
					mk("num", h, lists[r.Intn(len(lists))])
				}
			}
		}
	}
	return w
}

// ---------------------------------------------------------------- entry

func genC18(o *hx.Out, r *hx.Rng, tier string, replay string) error {
	o.Rule = "same-unit-twice-on-a-line (c18dup.go): every result carries a unit list with a repeated unit and pairwise different values (sec B sec | sec/op sec/op | sec/op B/op sec/op | B/op sec/op B/op sec/op | ...), well-formed worlds of 1-2 hashes x 1-2 experiments x 1-2 benchmarks in 12 add orders and 3-4 result sets in ALL orders, through Builder.Add; and 2-3 files through Builder.AddFiles in every file order whose lines print ns/op next to sec/op, MB/s next to B/s, sec B sec (the reader's tidying makes the units coincide; the harness tidies its own reading); judged as every series case: each run is spec_series of the (result, value) pairs, so a cell's sample holds every measurement of the unit, each once. command: the REAL cmd/benchseries binary (go build of the module under test) on 1-3 generated files that carry BOTH the default key of every option and an alternative key (alt_stamp alt_run role alt_nh alt_dh; compare values Tip Base Exp Ctl), the selected key carrying a well-formed world and the other one a decoy world, with ONE option non-default at a time: -series -experiment -compare -numerator -denominator -numerator-hash -denominator-hash, both hash flags naming one key, 2-7 of them together, -filter (.unit:U / key:value / .name:N), -confidence (samples of 4-6 values), each CSV switch once (-csv=false -delta -change -values=false -change -threshold=0.5 on exact metrics -boring -log=false), input on stdin (no path / -), -ji with the JSON of an earlier run; flags spelled -f=v, -f v, --f=v; observed: exit status, the -jo JSON (axes, hash pairs, per cell date and summary), stdout; reference: the library with the options the flags are documented to set (both policies through the kind-2 checks; REPLACE with the flag's confidence and 1000 bootstraps for the summaries, JSON bytes and CSV bytes); plus the library alone with BuilderOptions.Table in {none, goos, goarch+goos, builder_id+goos, goos+pad, pad} and Ignore lists (no flag sets them). incremental-builder: ONE Builder: Add a part of a well-formed result set, AllComparisonSeries + AddSummaries, Add the rest (more values for trials already summarised / a further experiment for summarised series points), build and summarise again, under both policies; the second result is compared with FRESH builders over the whole set. series-from-files: 2-3 files read through one benchfmt.Files / Builder.AddFiles in every file order; the builder keys goos runstamp ser role nh dh are file-configuration lines in a shuffled header of 4-7 keys (plus padding keys); every later file omits its own subset, so its results have the empty value there. streams. multi-cell: a ComparisonSeries with 2-9 cells (always one pair with swapped numerator/denominator samples, identical cells, cells sharing only one sample, two series points sharing one baseline) summarised by ONE AddSummaries call, each cell compared with the same samples summarised alone. shared-baseline: DUPE_COMBINE aliasing class (one trial, several hashes, one baseline, each point re-measured by a later experiment). dates: pairs of timestamp texts in both accepted layouts (offsets, fractions incl. >9 digits and ',' separator, calendar edge days, years 0..9999), pairs denoting one instant, neighbouring instants, hostile mutations; range-end: four-digit-year texts whose zone offset moves the instant into year 10000 or year -1, paired with texts on either side of the end. bootstrap: samples (constant, near-constant, few-valued, positive, mixed-sign, zero denominators, extreme-positive: values above MaxFloat64/2, subnormal values, overflowing / underflowing quotients) x N in {1,2,3,50,500,1000,small random} x confidence in {0.5,0.9,0.95,0.99,edge,random}, through Builder.Add/AllComparisonSeries/AddSummaries and the tagged hooks, math/rand Intn stream recorded for replay. series: result sets over <=2 units x <=2 tables x <=3 benchmarks x <=4 experiments x <=4 hashes/series stamps (stamps in mixed layouts), well-formed worlds plus mutations a-g leaving the well-formed domain (judged in full: prop_ok compares them with spec_series too; the four series findings excuse only the places of Model/SeriesFindings.v), ill-formed: worlds whose mutation took effect, the five witnesses of the findings in every add order, alone and next to a well-formed table; each added in N random orders under DUPE_REPLACE and DUPE_COMBINE; AddSummaries (confidence in {0.5,0.9,0.95,0.99}, N in {1,2,3,5,8}) on the series of every run, each cell compared with the same multiset summarised as one experiment, Intn stream recorded per cell. interleaved-experiments: every series point measured by 2-3 experiments whose numerator and denominator values interleave (COMBINE must return the sorted multiset; summaries equal across add orders). multi-value-unit-lists: results carrying 2-3 values, same table keys, partially overlapping unit lists (ns/op B/op | ns/op MB/s | B/op ns/op ...) adjacent in the add order, 4-result sets in ALL 24 orders. spellings-of-one-instant: every result spells the series stamp of its hash in its own way (compact, Z, +00:00 / -00:00 with fractions .000 .500000 ,5 and >9 digits, another offset), instants differing only in the fraction; date pairs of such spellings (same instant, neighbours). non-trivial = more than 3 measurements / a date accepted / a sample of more than one value"
	// the code under test reports hash-pair mismatches on os.Stderr directly
	if devnull, err := os.OpenFile(os.DevNull, os.O_WRONLY, 0); err == nil {
		saved := os.Stderr
		os.Stderr = devnull
		defer func() { os.Stderr = saved; devnull.Close() }()
	}
	nd, nb, nbig, nsr, norders := 1500, 400, 12, 90, 20
	nmulti, nshared := 150, 25
	nill := 30
	nspell, nsw, nil_, nmu, nmutiny := 400, 25, 25, 20, 12
	if tier == "thorough" {
		nd, nb, nbig, nsr, norders = 40000, 6000, 150, 1500, 20
		nmulti, nshared = 3000, 400
		nill = 600
		nspell, nsw, nil_, nmu, nmutiny = 10000, 400, 400, 300, 150
	}
	c18GenDates(o, r.Split(), nd)
	c18GenDateSpellings(o, r.Split(), nspell)
	c18GenDateEnds(o, r.Split(), nd/10)
	rb := r.Split()
	for i := 0; i < nb; i++ {
		c18BootCase(o, c18GenBoot(rb, false))
	}
	for i := 0; i < nbig; i++ {
		c18BootCase(o, c18GenBoot(rb, true))
	}
	// fixed witnesses of the recorded findings / repaired defects
	c18BootCase(o, c18Boot{Nu: []float64{1, 2, 3}, De: []float64{3, 4, 5}, Conf: 0.001, N: 2, Kind: "witness-low-above-centre"})
	c18BootCase(o, c18Boot{Nu: []float64{1, 2, 3}, De: []float64{3, 4, 5}, Conf: 0.2, N: 3, Kind: "witness-low-above-centre"})
	c18BootCase(o, c18Boot{Nu: []float64{1, 1, 1}, De: []float64{3, 3, 3}, Conf: 0.95, N: 250, Kind: "witness-constant"})
	c18BootCase(o, c18Boot{Nu: []float64{math.MaxFloat64, math.MaxFloat64}, De: []float64{1}, Conf: 0.95, N: 1, Kind: "witness-median-sum-overflow"})
	c18BootCase(o, c18Boot{Nu: []float64{1, 2, 3}, De: []float64{1e308, 1e308}, Conf: 0.9, N: 3, Kind: "witness-median-sum-overflow"})
	c18BootCase(o, c18Boot{Nu: []float64{1e308, 1.2e308, 1.1e308}, De: []float64{1, 1, 1}, Conf: 0.5, N: 4, Kind: "witness-median-sum-overflow"})
	rm := r.Split()
	for i := 0; i < nmulti; i++ {
		c18MultiCase(o, c18GenMulti(rm))
	}
	rs := r.Split()
	for i := 0; i < nsr; i++ {
		c18SeriesCase(o, rs, c18GenWorld(rs), norders)
	}
	for i := 0; i < nshared; i++ {
		c18SeriesCase(o, rs, c18GenSharedBaseline(rs), norders)
	}
	rg := r.Split()
	for i := 0; i < nil_; i++ {
		c18SeriesCase(o, rg, c18GenInterleave(rg), norders)
	}
	for i := 0; i < nsw; i++ {
		c18SeriesCase(o, rg, c18GenSpelledWorld(rg), norders)
	}
	for i := 0; i < nmu; i++ {
		c18SeriesCase(o, rg, c18GenMultiUnit(rg, false), norders)
	}
	for i := 0; i < nmutiny; i++ {
		c18SeriesCase(o, rg, c18GenMultiUnit(rg, true), -1)
	}
	// result sets OUTSIDE the well-formed domain (the property quantifies over
	// them too): judged against the specification in full by prop_ok, and up to
	// the places of the recorded findings by known_ok (Model/SeriesFindings.v)
	rill := r.Split()
	for i := 0; i < nill; i++ {
		c18SeriesCase(o, rill, c18GenIllWorld(rill), norders)
	}
	// the auditor's witnesses of the four findings, every add order (the map
	// order varies from run to run by itself); a second, well-formed table next
	// to the ill-formed one stays judged in full
	{
		s1, s2 := "2022-01-01T00:00:00Z", "2022-01-02T00:00:00Z"
		e1, e2, e1c := "2022-02-01T00:00:00Z", "2022-03-01T00:00:00Z", "20220201T000000"
		mk := func(table, exp, ser, role, nh, dh string, v float64) c18Result {
			return c18Result{Table: table, Bench: "A", Exp: exp, Ser: ser, Role: role, NH: nh, DH: dh, Units: []string{"sec/op"}, Vals: []float64{v}}
		}
		wits := []struct {
			name string
			rs   []c18Result
		}{
			{"witness-A-hash-two-stamps", []c18Result{mk("", e1, s1, "den", "h", "d", 10), mk("", e1, s1, "num", "h", "d", 1), mk("", e2, s2, "den", "h", "d", 20), mk("", e2, s2, "num", "h", "d", 2)}},
			{"witness-B-two-commits-one-time", []c18Result{mk("", e1, s1, "den", "", "d", 10), mk("", e1, s1, "num", "h1", "d", 1), mk("", e1, s1, "num", "h2", "d", 2)}},
			{"witness-B-rerun-without-baseline", []c18Result{mk("", e1, s1, "den", "h", "d", 10), mk("", e1, s1, "num", "h", "d", 1), mk("", e2, s1, "num", "h", "d", 2)}},
			{"witness-C-trial-two-baseline-hashes", []c18Result{mk("", e1, s1, "den", "h", "d0", 10), mk("", e1, s1, "den", "h", "dY", 11), mk("", e1, s1, "num", "h", "d0", 1)}},
			{"witness-D-runstamp-in-both-formats", []c18Result{mk("", e1, s1, "den", "h", "d", 10), mk("", e1, s1, "num", "h", "d", 1), mk("", e1c, s1, "den", "h", "d", 20), mk("", e1c, s1, "num", "h", "d", 2)}},
		}
		for _, wt := range wits {
			c18SeriesCase(o, rill, c18World{Results: wt.rs, Mut: wt.name}, -1)
			// the same next to a well-formed table "linux" (hash k, its own stamps)
			both := append([]c18Result{}, wt.rs...)
			for i := range both {
				both[i].Table = "darwin"
			}
			both = append(both, mk("linux", e1, s2, "den", "k", "dk", 30), mk("linux", e1, s2, "num", "k", "dk", 3))
			c18SeriesCase(o, rill, c18World{Results: both, Mut: wt.name + "+well-formed-table"}, norders)
		}
	}
	// combine with a denominator-less trial (nil dereference before the repair)
	c18SeriesCase(o, rs, c18World{Results: []c18Result{
		{Bench: "A", Exp: "2020-01-01T00:00:00Z", Ser: "2020-02-02T00:00:00Z", Role: "num", NH: "h1", DH: "d1", Units: []string{"sec/op"}, Vals: []float64{3}},
		{Bench: "A", Exp: "2020-01-02T00:00:00Z", Ser: "2020-02-02T00:00:00Z", Role: "num", NH: "h1", DH: "d1", Units: []string{"sec/op"}, Vals: []float64{1}},
	}, Mut: "witness-combine-nil"}, 4)
	// histories: one builder used incrementally; files with their own configuration keys (c18inc.go)
	if err := c18GenHistories(o, r.Split(), tier); err != nil {
		return err
	}
	// the real cmd/benchseries binary, one rarely used option at a time (c18cmd.go)
	if err := c18GenCommand(o, r.Split(), tier); err != nil {
		return err
	}
	// the same (tidied) unit twice or more on one result line (c18dup.go)
	return c18GenDupCases(o, r.Split(), tier)
}
