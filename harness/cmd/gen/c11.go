package main

// C11 — Mann-Whitney U statistics and p-values are exact for small samples.
// Drives internal/stats (through verifbridge/stats) and the legacy
// benchstat.UTest on generated samples and tie vectors, and records inputs
// with the observed outputs for coq/Corr/RunC11.v.

import (
	"fmt"
	"math"
	"math/big"
	"sort"

	"golang.org/x/perf/benchstat"
	st "golang.org/x/perf/verifbridge/stats"
	"verifharness/internal/hx"
)

func init() { gens["C11"] = genC11 }

const c11FindingTag = "C11_twosided_asymmetric_ties"

type c11UInput struct {
	Kind string  `json:"kind"`
	X1   []int64 `json:"x1"`
	X2   []int64 `json:"x2"`
	Alt  int     `json:"alt"`
}

type c11DInput struct {
	Kind string `json:"kind"`
	N1   int    `json:"n1"`
	N2   int    `json:"n2"`
	T    []int  `json:"t"`
}

func c11Floats(x []int64) []float64 {
	f := make([]float64, len(x))
	for i, v := range x {
		f[i] = float64(v)
	}
	return f
}

// c11Changed: the float slice no longer holds the values it was made from
func c11Changed(f []float64, x []int64) bool {
	for i, v := range x {
		if math.Float64bits(f[i]) != math.Float64bits(float64(v)) {
			return true
		}
	}
	return false
}

func c11ZList(x []int64) hx.Sx {
	it := make([]hx.Sx, len(x))
	for i, v := range x {
		it[i] = hx.Z(v)
	}
	return hx.List(it)
}

func c11IList(x []int) hx.Sx {
	it := make([]hx.Sx, len(x))
	for i, v := range x {
		it[i] = hx.I(v)
	}
	return hx.List(it)
}

// tie vector of the pooled sample (independent of the code under test)
func c11TieVector(x1, x2 []int64) []int {
	all := append(append([]int64(nil), x1...), x2...)
	sort.Slice(all, func(i, j int) bool { return all[i] < all[j] })
	var t []int
	for i := 0; i < len(all); {
		j := i
		for j < len(all) && all[j] == all[i] {
			j++
		}
		t = append(t, j-i)
		i = j
	}
	return t
}

func c11HasTies(t []int) bool {
	for _, x := range t {
		if x > 1 {
			return true
		}
	}
	return false
}

func c11Palindrome(t []int) bool {
	for i, j := 0, len(t)-1; i < j; i, j = i+1, j-1 {
		if t[i] != t[j] {
			return false
		}
	}
	return true
}

// 2U by counting pairs
func c11TwoU(x1, x2 []int64) int {
	u := 0
	for _, a := range x1 {
		for _, b := range x2 {
			if a > b {
				u += 2
			} else if a == b {
				u++
			}
		}
	}
	return u
}

func c11Choose(n, k int) *big.Int { return new(big.Int).Binomial(int64(n), int64(k)) }

// exact histogram of 2U for tie vector t and first-sample size n1 (forward
// product over the runs); only used to compute the known-finding tag.
func c11Hist(t []int, n1 int) []*big.Int {
	N := 0
	for _, x := range t {
		N += x
	}
	maxU := 2 * n1 * (N - n1)
	// state[j][u]
	state := make([][]*big.Int, n1+1)
	for j := range state {
		state[j] = make([]*big.Int, maxU+1)
		for u := range state[j] {
			state[j][u] = new(big.Int)
		}
	}
	state[0][0].SetInt64(1)
	S := 0
	for _, tk := range t {
		next := make([][]*big.Int, n1+1)
		for j := range next {
			next[j] = make([]*big.Int, maxU+1)
			for u := range next[j] {
				next[j][u] = new(big.Int)
			}
		}
		for j := 0; j <= n1; j++ {
			for r := 0; r <= tk && j+r <= n1; r++ {
				sh := r * (2*(S-j) + tk - r)
				c := c11Choose(tk, r)
				for u := 0; u <= maxU; u++ {
					if state[j][u].Sign() != 0 && u+sh >= 0 && u+sh <= maxU {
						next[j+r][u+sh].Add(next[j+r][u+sh], new(big.Int).Mul(c, state[j][u]))
					}
				}
			}
		}
		state = next
		S += tk
	}
	return state[n1]
}

// the property's two-sided p-value and the value of the recorded finding
// (the lower tail at min(U1,U2) doubled and capped, 1 when U1 == U2), as floats;
// for the tag only
func c11SpecTwoSided(t []int, n1, n2, twoU int) (spec, finding float64, differ bool) {
	h := c11Hist(t, n1)
	small := min(twoU, 2*n1*n2-twoU)
	le, ge, tot, lesmall := new(big.Int), new(big.Int), new(big.Int), new(big.Int)
	for u, c := range h {
		tot.Add(tot, c)
		if u <= twoU {
			le.Add(le, c)
		}
		if u >= twoU {
			ge.Add(ge, c)
		}
		if u <= small {
			lesmall.Add(lesmall, c)
		}
	}
	capped := func(m *big.Int) float64 {
		m2 := new(big.Int).Lsh(m, 1)
		if m2.Cmp(tot) > 0 {
			m2 = tot
		}
		f, _ := new(big.Rat).SetFrac(m2, tot).Float64()
		return f
	}
	m := le
	if ge.Cmp(le) < 0 {
		m = ge
	}
	spec = capped(m)
	finding = capped(lesmall)
	// differ: decided on the exact fractions (numerators over the common denominator tot)
	capNum := func(m *big.Int) *big.Int {
		m2 := new(big.Int).Lsh(m, 1)
		if m2.Cmp(tot) > 0 {
			return tot
		}
		return m2
	}
	fnum := capNum(lesmall)
	if twoU == 2*n1*n2-twoU {
		finding = 1
		fnum = tot
	}
	differ = capNum(m).Cmp(fnum) != 0
	return
}

// argument that StdNormal.CDF hands to math.Erfc in the normal approximation,
// recomputed here so that the oracle value math.Erfc(arg) can be recorded.
func c11ErfcArg(t []int, n1, n2, twoU int, alt int) float64 {
	tc := 0
	for _, x := range t {
		tc += x*x*x - x
	}
	N := float64(n1 + n2)
	mu := float64(n1*n2) / 2
	sigma := math.Sqrt(float64(n1*n2) * ((N + 1) - float64(tc)/(N*(N-1))) / 12)
	numer := float64(twoU)/2 - mu
	switch alt {
	case 0:
		s := 0.0
		if numer < 0 {
			s = -1
		} else if numer > 0 {
			s = 1
		}
		numer -= s * 0.5
	case -1:
		numer += 0.5
	case 1:
		numer -= 0.5
	}
	z := numer / sigma
	one := 1.0
	return -(z - 0) / (one * math.Sqrt2)
}

// the same argument from the textbook formula, independent of the code's operation
// order: x = -(2(U - mu) + c) / sqrt(8 sigma^2), sigma^2 = n1 n2 ((N+1) N (N-1) - sum(t^3-t)) / (12 N (N-1)),
// in 200-bit floating point, rounded to float64 once.
func c11ErfcArgExact(t []int, n1, n2, twoU int, alt int) float64 {
	tc := int64(0)
	for _, x := range t {
		tc += int64(x)*int64(x)*int64(x) - int64(x)
	}
	N := int64(n1 + n2)
	vn := new(big.Int).Mul(big.NewInt(int64(n1)*int64(n2)), big.NewInt((N+1)*N*(N-1)-tc))
	vd := big.NewInt(12 * N * (N - 1))
	c := int64(twoU) - int64(n1)*int64(n2)
	switch alt {
	case 0:
		if c > 0 {
			c--
		} else if c < 0 {
			c++
		}
	case -1:
		c++
	case 1:
		c--
	}
	// x^2 = c^2 vd / (8 vn)
	num := new(big.Int).Mul(big.NewInt(c*c), vd)
	den := new(big.Int).Mul(big.NewInt(8), vn)
	if den.Sign() <= 0 {
		return math.NaN()
	}
	q := new(big.Float).SetPrec(200).Quo(new(big.Float).SetPrec(200).SetInt(num), new(big.Float).SetPrec(200).SetInt(den))
	r, _ := new(big.Float).SetPrec(200).Sqrt(q).Float64()
	if c > 0 {
		r = -r
	}
	return r
}

func c11Outcome(x1, x2 []float64, alt int) (sx hx.Sx, p float64, isNum bool) {
	defer func() {
		if rec := recover(); rec != nil {
			sx, p, isNum = hx.L(hx.I(3)), 0, false
		}
	}()
	r, err := st.MannWhitneyUTest(x1, x2, st.LocationHypothesis(alt))
	switch {
	case err == st.ErrSampleSize:
		return hx.L(hx.I(1)), 0, false
	case err == st.ErrSamplesEqual:
		return hx.L(hx.I(2)), 0, false
	case err != nil || r == nil:
		return hx.L(hx.I(4)), 0, false
	}
	return hx.L(hx.I(0), hx.I(r.N1), hx.I(r.N2), hx.F64(r.U), hx.F64(r.P), hx.I(int(r.AltHypothesis))), r.P, true
}

func c11Legacy(x1, x2 []float64) (sx hx.Sx) {
	defer func() {
		if rec := recover(); rec != nil {
			sx = hx.L(hx.L(hx.I(3)))
		}
	}()
	p, err := benchstat.UTest(&benchstat.Metrics{RValues: x1}, &benchstat.Metrics{RValues: x2})
	switch {
	case err == benchstat.ErrSampleSize:
		return hx.L(hx.L(hx.I(1)))
	case err == benchstat.ErrSamplesEqual:
		return hx.L(hx.L(hx.I(2)))
	case err != nil:
		return hx.L(hx.L(hx.I(4)))
	}
	return hx.L(hx.L(hx.I(0), hx.F64(p)))
}

func c11SizeClass(n int) string {
	switch {
	case n == 0:
		return "0"
	case n <= 5:
		return "1-5"
	case n <= 19:
		return "6-19"
	case n <= 25:
		return "20-25"
	case n <= 50:
		return "26-50"
	}
	return ">50"
}

// one case of kind 1
func c11UCase(o *hx.Out, x1, x2 []int64, alt int, stream string) {
	f1, f2 := c11Floats(x1), c11Floats(x2)
	untied, tied := st.ExactLimits()
	out, _, _ := c11Outcome(f1, f2, alt)
	if c11Changed(f1, x1) || c11Changed(f2, x2) {
		// the call wrote to its arguments: shown again as a history on one array (kind 4,
		// c11hist.go), where the caller's values after the call are part of the case
		o.Count("utest:arguments-changed-by-the-call")
		if o.Dist["utest:arguments-changed-by-the-call"] <= 20 {
			joined := append(append([]int64(nil), x1...), x2...)
			c11HistCase(o, joined, []c11Win{{[2]int{0, len(x1)}, [2]int{len(x1), len(joined)}, alt}}, "arguments-changed:"+stream)
		}
	}
	legacy := hx.L()
	if alt == 0 {
		legacy = c11Legacy(f1, f2)
	}
	n1, n2 := len(x1), len(x2)
	var tags []string
	var oracle []hx.Sx
	regime := "error"
	if n1 > 0 && n2 > 0 {
		t := c11TieVector(x1, x2)
		ties := c11HasTies(t)
		exact := (!ties && n1 <= 50 && n2 <= 50) || (ties && n1 <= 25 && n2 <= 25)
		twoU := c11TwoU(x1, x2)
		if exact {
			regime = "exact-untied"
			if ties {
				regime = "exact-tied"
			}
			if len(t) == 1 {
				regime = "all-equal"
			}
			// known finding C11_twosided_asymmetric_ties, decided from the INPUT alone: the
			// two-sided alternative in the exact regime, a tied tie vector that is not a
			// palindrome, and the code's rule (1 if U1 == U2, else the lower tail at
			// min(U1,U2) doubled and capped), simulated on the exact distribution in big
			// integers, gives a fraction different from twice the smaller tail capped at 1
			if alt == 0 && ties && len(t) > 1 && !c11Palindrome(t) {
				if _, _, differ := c11SpecTwoSided(t, n1, n2, twoU); differ {
					tags = append(tags, c11FindingTag)
					o.Count("finding:" + c11FindingTag)
				}
			}
		} else {
			regime = "approx"
			if len(t) == 1 {
				regime = "all-equal-large"
			} else {
				// the argument as the code forms it (for the model, bit for bit) and the
				// declarative argument -z/sqrt 2 evaluated with 200-bit arithmetic and
				// rounded once (for the specification; usually the same float or its neighbour)
				arg := c11ErfcArg(t, n1, n2, twoU, alt)
				oracle = append(oracle, hx.L(hx.F64(arg), hx.F64(math.Erfc(arg))))
				if a2 := c11ErfcArgExact(t, n1, n2, twoU, alt); a2 != arg {
					oracle = append(oracle, hx.L(hx.F64(a2), hx.F64(math.Erfc(a2))))
					o.Count("approx:declarative-erfc-argument-differs-from-the-code's")
				}
			}
		}
	}
	o.Count("utest:" + stream)
	o.Count("regime:" + regime)
	o.Count("n1:" + c11SizeClass(n1))
	o.Count(fmt.Sprintf("alt:%d", alt))
	cs := hx.L(hx.I(1), c11ZList(x1), c11ZList(x2), hx.I(alt), hx.L(hx.I(untied), hx.I(tied)), out, legacy, hx.List(oracle))
	key := fmt.Sprint("u", x1, x2, alt)
	o.Add(cs, c11UInput{"utest", x1, x2, alt}, key, n1 > 0 && n2 > 0 && regime != "all-equal", tags...)
}

type c11EInput struct {
	Kind string `json:"kind"`
	N1   int    `json:"n1"`
	N2   int    `json:"n2"`
	V    int64  `json:"v"`
	Alt  int    `json:"alt"`
}

// c11ECase runs the test on n1 and n2 copies of v and ships only the sizes: the
// large all-equal samples (the sigma == 0 rounding defect showed at 165142+165142
// and 165146+165146 values) must be reported as ErrSamplesEqual.
func c11ECase(o *hx.Out, n1, n2 int, v int64, alt int) {
	mk := func(n int) []float64 {
		x := make([]float64, n)
		for i := range x {
			x[i] = float64(v)
		}
		return x
	}
	out, _, _ := c11Outcome(mk(n1), mk(n2), alt)
	o.Count("utest:all-equal-by-size")
	if n1+n2 > 330283 {
		o.Count("equal-size:above-330283")
	} else {
		o.Count("equal-size:" + c11SizeClass(n1+n2))
	}
	cs := hx.L(hx.I(3), hx.I(n1), hx.I(n2), hx.I(int(v)), hx.I(alt), out)
	o.Add(cs, c11EInput{"utest-constant", n1, n2, v, alt}, fmt.Sprint("e", n1, n2, v, alt), false)
}

func c11F(f func() float64) (sx hx.Sx) {
	defer func() {
		if rec := recover(); rec != nil {
			sx = hx.L(hx.I(3))
		}
	}()
	return hx.L(hx.I(0), hx.F64(f()))
}

// one case of kind 2: every half-integer U from -0.5 to n1*n2+0.5 plus a few quarter points
func c11DCase(o *hx.Out, r *hx.Rng, n1, n2 int, t []int, stream string) {
	d := st.UDist{N1: n1, N2: n2, T: t}
	var qs []hx.Sx
	add := func(q int) {
		U := float64(q) / 4
		qs = append(qs, hx.L(hx.I(q), c11F(func() float64 { return d.CDF(U) }), c11F(func() float64 { return d.PMF(U) })))
	}
	add(-4)
	add(-1)
	for q := 0; q <= 4*n1*n2+4; q += 2 {
		add(q)
	}
	// quarter points: PMF rounds down to the grid of half-integers
	for i := 0; i < 5; i++ {
		add(1 + 2*r.Intn(2*n1*n2+2))
	}
	o.Count("udist:" + stream)
	o.Count(fmt.Sprintf("udist-K:%d", min(len(t), 12)))
	cs := hx.L(hx.I(2), hx.I(n1), hx.I(n2), c11IList(t), hx.List(qs))
	o.Add(cs, c11DInput{"udist", n1, n2, t}, fmt.Sprint("d", n1, n2, t), len(t) != 1)
}

// one case of kind 2 at a chosen set of points (q = 4U)
func c11DCaseAt(o *hx.Out, n1, n2 int, t []int, qlist []int, stream string) {
	d := st.UDist{N1: n1, N2: n2, T: t}
	var qs []hx.Sx
	for _, q := range qlist {
		U := float64(q) / 4
		qs = append(qs, hx.L(hx.I(q), c11F(func() float64 { return d.CDF(U) }), c11F(func() float64 { return d.PMF(U) })))
	}
	o.Count("udist:" + stream)
	o.Count(fmt.Sprintf("udist-N:%d", n1+n2))
	cs := hx.L(hx.I(2), hx.I(n1), hx.I(n2), c11IList(t), hx.List(qs))
	o.Add(cs, c11DInput{"udist", n1, n2, t}, fmt.Sprint("d", n1, n2, t, qlist), len(t) != 1)
}

// a few points of the support: both ends, around the mean, random ones
func c11FewPoints(r *hx.Rng, n1, n2 int, tied bool) []int {
	step := 4
	if tied {
		step = 2
	}
	m := 4 * n1 * n2
	mid := (m / 2 / step) * step
	qs := []int{-step, 0, step, mid - step, mid, mid + step, m - step, m, m + step}
	for i := 0; i < 6; i++ {
		qs = append(qs, step*r.Intn(m/step+1))
	}
	// points off the support: half-integers of an untied distribution, quarter points
	for i := 0; i < 3; i++ {
		qs = append(qs, 1+r.Intn(m+2), 2+4*r.Intn(m/4+1))
	}
	return qs
}

func c11Shuffle(r *hx.Rng, x []int64) []int64 {
	y := append([]int64(nil), x...)
	for i := len(y) - 1; i > 0; i-- {
		j := r.Intn(i + 1)
		y[i], y[j] = y[j], y[i]
	}
	return y
}

// all multisets of the given size over 0..k-1, as sorted slices
func c11Multisets(size, k int) [][]int64 {
	var res [][]int64
	var rec func(cur []int64, lo int)
	rec = func(cur []int64, lo int) {
		if len(cur) == size {
			res = append(res, append([]int64(nil), cur...))
			return
		}
		for v := lo; v < k; v++ {
			rec(append(cur, int64(v)), v)
		}
	}
	rec(nil, 0)
	return res
}

func c11Compositions(N int, f func([]int)) {
	var rec func(left int, cur []int)
	rec = func(left int, cur []int) {
		if left == 0 {
			f(append([]int(nil), cur...))
			return
		}
		for x := 1; x <= left; x++ {
			rec(left-x, append(cur, x))
		}
	}
	rec(N, nil)
}

func genC11(o *hx.Out, r *hx.Rng, tier string, replay string) error {
	thorough := tier == "thorough"
	o.Rule = "kind utest: every pair of multisets over the ordered alphabet {0,1,2,3} with sizes up to the bound (presented in shuffled order) x 3 alternatives, empty samples, random samples with sizes 20-60 on both sides of the 25/50 switches (untied, heavily tied, lightly tied, all equal, shifted); a deterministic sweep over every pooled size N = 18..50 in the tied exact regime (all near-even splits, a subset of the others; big runs, several runs, light ties) and N = 18..36 untied; untied samples with BOTH sizes in 30..50 (per seed one balanced pair 38..50 each, one equal pair 34..50, one unbalanced pair 30..33 vs 47..50 in either order, one free pair; C(n1+n2,n1) > 2^64 for all) with the statistic placed, by random adjacent exchanges, at 8 positions of the null distribution (both extreme tails, both 2.5-4 sigma tails, both 0.1-1.5 sigma shoulders, the centre and its neighbour) x 3 alternatives, and the same distributions through UDist.CDF/PMF at these points, U + 1/2 and the usual end/centre/random points; tied samples with N > 20 separated or almost separated (one-sided p-values down to 1/C(N,n1)); constant samples given by their sizes (n1 and n2 copies of one value, up to 165146+165146 values: must be ErrSamplesEqual); kind udist: every tie vector (composition of N) x every n1 (one-run vectors included: a panic or the degenerate distribution) through UDist.CDF/PMF at every half-integer plus quarter points (PMF rounds down to the grid of half-integers; half-integers of an untied distribution carry no mass), untied UDist for all small n1,n2. kind history: series of calls whose two samples are windows of ONE backing array of the caller (series[:k] vs series[k:] for every k in rising, falling and random order, either window first; x[:4] vs x[2:]; overlapping, nested, identical, disjoint windows; longer series whose adjacent windows fall on both sides of the 50 / 25 switches), the array compared with its original values after every call and every call judged on the original values; histories of ONE FRESH PROCESS each (cmd/c11race, one goroutine) mixing sample sizes: exact tests whose binomials C(n,k) need n <= 20, n in 21..31 (11+11 tied, ...), n = 32 (16+16 tied, ...), n in 33..64 (tied up to 25+25, untied) and n in 65..100 (untied), in every order of the three middle classes, with and without a small first call, and in random orders of 3-6 calls, every result judged against the exact tails of its own samples (as if it were the first call of the process); kind concurrent: batches of 12 different sample pairs (exact tied / untied, normal approximation tied / untied) run sequentially and then by 8, 12, 16 goroutines at once, GOMAXPROCS 4, 8, 16 in a plain binary and GOMAXPROCS 4, 8 in a binary built with -race (a process that dies counts as a panic of every job): every concurrent outcome equals the sequential one, race detector silent. non-trivial = not an error case; distinct by input"
	nmax := 4
	if thorough {
		nmax = 5
	}
	alts := []int{-1, 0, 1}

	// --- empty samples and tiny cases
	for _, alt := range alts {
		c11UCase(o, nil, nil, alt, "empty")
		c11UCase(o, []int64{1, 2}, nil, alt, "empty")
		c11UCase(o, nil, []int64{3}, alt, "empty")
	}
	// --- the design-time witnesses
	for _, alt := range alts {
		c11UCase(o, []int64{1}, []int64{0, 0}, alt, "witness")
		c11UCase(o, []int64{1}, []int64{1, 1, 2}, alt, "witness")
		c11UCase(o, []int64{1, 2}, []int64{1, 3, 0}, alt, "witness")
		c11UCase(o, []int64{1, 2, 3, 5}, []int64{1, 1, 1, 1, 1}, alt, "witness")
		c11UCase(o, []int64{1, 1, 1, 1, 1}, []int64{1, 2, 3, 5}, alt, "witness")
	}
	// --- constant samples by size: small ones, both sides of every switch, and the two
	// sizes just above the last pooled size (330283) for which sigma == 0 used to work
	for _, alt := range alts {
		for _, nn := range [][2]int{{0, 3}, {1, 1}, {25, 26}, {30, 31}, {51, 50}, {100, 100}, {165142, 165142}, {165146, 165146}} {
			c11ECase(o, nn[0], nn[1], 7, alt)
		}
	}
	if thorough {
		for _, nn := range [][2]int{{104032, 104032}, {165141, 165142}, {165143, 165143}, {200000, 300000}, {1, 330291}} {
			c11ECase(o, nn[0], nn[1], -3, 0)
		}
	}
	// --- exhaustive small samples
	var ms [][][]int64
	for n := 0; n <= nmax; n++ {
		ms = append(ms, c11Multisets(n, 4))
	}
	for n1 := 1; n1 <= nmax; n1++ {
		for n2 := 1; n2 <= nmax; n2++ {
			for _, a := range ms[n1] {
				for _, b := range ms[n2] {
					x1, x2 := c11Shuffle(r, a), c11Shuffle(r, b)
					for _, alt := range alts {
						c11UCase(o, x1, x2, alt, "exhaustive")
					}
				}
			}
		}
	}
	o.Extra["exhaustive_sample_size_up_to"] = nmax

	// --- all tie vectors through UDist
	nT := 8
	if thorough {
		nT = 11
	}
	for N := 2; N <= nT; N++ {
		c11Compositions(N, func(t []int) {
			for n1 := 1; n1 < N; n1++ {
				c11DCase(o, r, n1, N-n1, t, "all-tie-vectors")
			}
		})
	}
	o.Extra["all_tie_vectors_up_to_N"] = nT
	if thorough {
		// N = 12: a random third of the tie vectors
		c11Compositions(12, func(t []int) {
			if r.Intn(3) == 0 {
				n1 := r.Range(1, 11)
				c11DCase(o, r, n1, 12-n1, t, "tie-vectors-N12-sample")
			}
		})
	}
	// untied distribution, nil T
	nu := 7
	if thorough {
		nu = 12
	}
	for n1 := 1; n1 <= nu; n1++ {
		for n2 := 1; n2 <= nu; n2++ {
			c11DCase(o, r, n1, n2, nil, "untied-small")
		}
	}
	// larger tie vectors with few runs (big ties) and untied larger
	nbig := 12
	if thorough {
		nbig = 120
	}
	for i := 0; i < nbig; i++ {
		K := r.Range(2, 5)
		t := make([]int, K)
		N := 0
		for k := range t {
			t[k] = r.Range(1, 7)
			N += t[k]
		}
		n1 := r.Range(1, N-1)
		c11DCase(o, r, n1, N-n1, t, "random-big-ties")
	}

	// --- random larger samples around the switches
	sizes := []int{20, 23, 24, 25, 26, 27, 30, 40, 49, 50, 51, 60}
	nr := 10
	if thorough {
		nr = 120
	}
	pickSizes := func() (int, int) {
		a, b := sizes[r.Intn(len(sizes))], sizes[r.Intn(len(sizes))]
		if r.Chance(0.3) {
			b = a
		}
		return a, b
	}
	for i := 0; i < nr; i++ {
		// (a) untied: a random subset of distinct integers, second sample shifted
		n1, n2 := pickSizes()
		if !thorough && n1*n2 > 1300 && i%3 != 0 {
			n1, n2 = min(n1, 30), min(n2, 30)
		}
		perm := make([]int64, n1+n2)
		for k := range perm {
			perm[k] = int64(3*k) - 40
		}
		perm = c11Shuffle(r, perm)
		x1, x2 := perm[:n1], append([]int64(nil), perm[n1:]...)
		shift := int64(r.Intn(5)) * int64(r.Intn(30)) // often 0: null; sometimes a real shift
		for k := range x2 {
			x2[k] = x2[k] + shift*3 + 1 // +1 keeps the pooled values distinct (x1 = 0 mod 3, x2 = 1 mod 3)
		}
		for _, alt := range alts {
			c11UCase(o, x1, x2, alt, "random-untied")
		}
		// (b) heavy ties: few distinct values
		n1, n2 = pickSizes()
		k := r.Range(2, 5)
		mk := func(n int, bias int) []int64 {
			x := make([]int64, n)
			for i := range x {
				v := r.Intn(k)
				if r.Chance(0.3) {
					v = min(k-1, v+bias)
				}
				x[i] = int64(v * 10)
			}
			return x
		}
		bias := r.Intn(2)
		for _, alt := range alts {
			c11UCase(o, mk(n1, 0), mk(n2, bias), alt, "random-heavy-ties")
		}
		x1, x2 = mk(n1, 0), mk(n2, bias)
		for _, alt := range alts {
			c11UCase(o, x1, x2, alt, "random-heavy-ties")
		}
		// (c) light ties: distinct values with a few duplicates (the expensive region of the tied recurrence)
		n1, n2 = pickSizes()
		if n1 <= 25 && n2 <= 25 && !thorough && i%2 == 1 {
			n1, n2 = min(n1, 22), min(n2, 22)
		}
		perm = make([]int64, n1+n2)
		for k := range perm {
			perm[k] = int64(k)
		}
		perm = c11Shuffle(r, perm)
		nd := r.Range(1, 4)
		for d := 0; d < nd; d++ {
			perm[r.Intn(len(perm))] = perm[r.Intn(len(perm))]
		}
		x1, x2 = perm[:n1], perm[n1:]
		for _, alt := range alts {
			c11UCase(o, x1, x2, alt, "random-light-ties")
		}
		// (d) medium samples (6-19) with moderate ties
		n1, n2 = r.Range(6, 19), r.Range(6, 19)
		k = r.Range(3, 7)
		x1, x2 = mk(n1, 0), mk(n2, r.Intn(2))
		for _, alt := range alts {
			c11UCase(o, x1, x2, alt, "random-medium")
		}
	}
	// (e) all values equal, on both sides of the limit
	for _, n := range []int{1, 3, 25, 26, 50, 51, 60} {
		x := make([]int64, n)
		y := make([]int64, max(1, n-1))
		for i := range x {
			x[i] = 7
		}
		for i := range y {
			y[i] = 7
		}
		for _, alt := range alts {
			c11UCase(o, x, y, alt, "all-equal")
		}
	}
	// (f) two distinct values only (K == 2 in the exact path), sizes up to the tied limit
	n2v := 30
	if thorough {
		n2v = 300
	}
	for i := 0; i < n2v; i++ {
		n1, n2 := r.Range(1, 25), r.Range(1, 25)
		mk2 := func(n int) []int64 {
			x := make([]int64, n)
			pz := r.Float()
			for i := range x {
				if r.Chance(pz) {
					x[i] = 1
				}
			}
			return x
		}
		x1, x2 := mk2(n1), mk2(n2)
		alt := alts[r.Intn(3)]
		c11UCase(o, x1, x2, alt, "two-values")
	}
	// (g) deterministic sweep over pooled sizes inside the tied exact regime: every
	// near-even split of every N = 18..50 (n1, n2 <= 25) and a random subset of the
	// other splits; tied samples with few big runs, with several runs and (a
	// fraction) with only a few duplicates; the same tie vectors through UDist at a
	// few points. Exercises every C(N, n1) and the binomials of large runs.
	restFrac := 0.08
	lightFrac := 0.34
	if thorough {
		restFrac, lightFrac = 1, 1
	}
	for N := 18; N <= 50; N++ {
		for n1 := 1; n1 < N; n1++ {
			n2 := N - n1
			if n1 > 25 || n2 > 25 {
				continue
			}
			d := n1 - n2
			if d < 0 {
				d = -d
			}
			stream := "size-sweep-near-even"
			if d > 2 {
				if !r.Chance(restFrac) {
					continue
				}
				stream = "size-sweep-other"
			}
			for variant := 0; variant < 3; variant++ {
				var x1, x2 []int64
				switch variant {
				case 0, 1: // few big runs / several runs
					k := 2 + r.Intn(2)
					if variant == 1 {
						k = 4 + r.Intn(3)
					}
					gen := func(n int) []int64 {
						x := make([]int64, n)
						for i := range x {
							x[i] = int64(r.Intn(k))
						}
						return x
					}
					x1, x2 = gen(n1), gen(n2)
					// make sure there are at least two distinct values and one tie
					x1[0], x2[0] = 0, 1
				case 2: // light ties
					if !r.Chance(lightFrac) {
						continue
					}
					perm := make([]int64, N)
					for i := range perm {
						perm[i] = int64(i)
					}
					perm = c11Shuffle(r, perm)
					for dd := 0; dd < 1+r.Intn(3); dd++ {
						perm[r.Intn(N)] = perm[r.Intn(N)]
					}
					if perm[0] != perm[1] {
						perm[1] = perm[0]
					}
					x1, x2 = perm[:n1], perm[n1:]
				}
				for _, alt := range alts {
					c11UCase(o, x1, x2, alt, stream)
				}
				t := c11TieVector(x1, x2)
				if len(t) >= 2 && c11HasTies(t) {
					c11DCaseAt(o, n1, n2, t, c11FewPoints(r, n1, n2, true), stream)
				}
			}
		}
	}
	// (g') tied samples, pooled size above 20, separated or almost separated: the
	// statistic at or next to either end of its range, so that the one-sided p-values
	// are as small as 1/C(N, n1) ~ 1e-14 (the complement 1 - CDF has to resolve them)
	nsep := 6
	if thorough {
		nsep = 60
	}
	for i := 0; i < nsep; i++ {
		n1, n2 := r.Range(20, 25), r.Range(20, 25)
		if i%3 == 0 {
			n1, n2 = r.Range(11, 25), r.Range(11, 25)
		}
		lo, hi := make([]int64, n2), make([]int64, n1)
		for k := range lo {
			lo[k] = int64(r.Intn(2))
		}
		for k := range hi {
			hi[k] = 10 + int64(r.Intn(3))
		}
		hi[0], lo[0] = 10, 0
		if n1 > 1 {
			hi[1] = 10 // at least one tie
		}
		switch r.Intn(3) {
		case 1:
			hi[r.Intn(n1)] = 1 // one value inside the other sample's range
		case 2:
			lo[r.Intn(n2)] = 10
		}
		for _, alt := range alts {
			c11UCase(o, hi, lo, alt, "tied-separated")
			c11UCase(o, lo, hi, alt, "tied-separated")
		}
	}
	// (h) untied sizes N = 18..36, same scheme (near-even splits, subset of the rest)
	for N := 18; N <= 36; N++ {
		for n1 := 1; n1 < N; n1++ {
			n2 := N - n1
			d := n1 - n2
			if d < 0 {
				d = -d
			}
			if d > 2 && !r.Chance(restFrac) {
				continue
			}
			perm := make([]int64, N)
			for i := range perm {
				perm[i] = int64(2*i) - 17
			}
			perm = c11Shuffle(r, perm)
			for _, alt := range alts {
				c11UCase(o, perm[:n1], perm[n1:], alt, "size-sweep-untied")
			}
			c11DCaseAt(o, n1, n2, nil, c11FewPoints(r, n1, n2, false), "size-sweep-untied")
		}
	}
	// (i) untied samples in the exact regime with BOTH sizes large (30..50): balanced
	// pairs (38..50 each), an equal pair, an unbalanced pair (30..33 vs 47..50) and a
	// free pair, different ones for every seed; C(n1+n2, n1) exceeds 2^64 for all of
	// them. For every pair the statistic is placed at chosen positions of the null
	// distribution: both extreme tails, both moderate tails (2.5..4 sigma), both
	// shoulders (0.1..1.5 sigma), the centre (U1 == U2 when n1 n2 is even) and its
	// neighbour (the "sum the smaller tail and flip" boundary of UDist.CDF); all three
	// alternatives; and the same distribution through UDist.CDF/PMF at these points.
	npairs := 4
	if thorough {
		npairs = 40
	}
	for i := 0; i < npairs; i++ {
		var n1, n2 int
		class := ""
		switch i % 4 {
		case 0:
			n1, n2, class = r.Range(38, 50), r.Range(38, 50), "balanced-38-50"
		case 1:
			n1 = r.Range(34, 50)
			n2, class = n1, "equal-34-50"
		case 2:
			n1, n2, class = r.Range(30, 33), r.Range(47, 50), "unbalanced-30-vs-50"
			if r.Bool() {
				n1, n2 = n2, n1
			}
		case 3:
			n1, n2, class = r.Range(30, 50), r.Range(30, 50), "free-30-50"
			for c11Choose(n1+n2, n1).BitLen() <= 64 {
				n1, n2 = min(50, n1+1), min(50, n2+1)
			}
		}
		o.Count("large-untied-sizes:" + class)
		if c11Choose(n1+n2, n1).BitLen() > 64 {
			o.Count("large-untied:arrangements>2^64")
		}
		m := n1 * n2
		sigma := math.Sqrt(float64(m) * float64(n1+n2+1) / 12)
		at := func(k float64) int { return max(0, min(m, int(math.Round(float64(m)/2+k*sigma)))) }
		kt, ks := 2.5+1.5*r.Float(), 0.1+1.4*r.Float()
		adj := 1
		if r.Bool() {
			adj = -1
		}
		type pos struct {
			name string
			u    int
		}
		positions := []pos{
			{"extreme-low", r.Intn(4)}, {"tail-low", at(-kt)}, {"shoulder-low", at(-ks)},
			{"centre", m / 2}, {"centre-neighbour", m/2 + adj},
			{"shoulder-high", at(ks)}, {"tail-high", at(kt)}, {"extreme-high", m - r.Intn(4)},
		}
		qs := c11FewPoints(r, n1, n2, false)
		for _, ps := range positions {
			x1, x2 := c11UntiedWithU(r, n1, n2, ps.u)
			if got := c11TwoU(x1, x2); got != 2*ps.u {
				return fmt.Errorf("c11: constructed U = %d/2, wanted %d", got, ps.u)
			}
			o.Count("large-untied-U:" + ps.name)
			for _, alt := range alts {
				c11UCase(o, x1, x2, alt, "large-untied")
			}
			qs = append(qs, 4*ps.u, 4*ps.u+2) // U and U + 1/2 (CDF takes the floor)
		}
		c11DCaseAt(o, n1, n2, nil, qs, "large-untied")
	}
	// (j) histories over one backing array and concurrent calls (c11hist.go)
	return c11GenHist(o, r.Split(), tier)
}

// c11UntiedWithU builds two samples of distinct integers (n1 and n2 of them, no
// value shared) whose statistic is exactly U: a random arrangement of the pooled
// ranks, moved to the target by random adjacent exchanges (each changes U by one),
// values spread with random gaps, each sample in shuffled order.
func c11UntiedWithU(r *hx.Rng, n1, n2, U int) (x1, x2 []int64) {
	N := n1 + n2
	lab := make([]int, N) // rank order; 1 = first sample
	for i := 0; i < n1; i++ {
		lab[i] = 1
	}
	for i := N - 1; i > 0; i-- {
		j := r.Intn(i + 1)
		lab[i], lab[j] = lab[j], lab[i]
	}
	cur, below := 0, 0
	for _, l := range lab {
		if l == 1 {
			cur += below
		} else {
			below++
		}
	}
	var cand []int
	for cur != U {
		cand = cand[:0]
		for i := 0; i+1 < N; i++ {
			if cur < U && lab[i] == 1 && lab[i+1] == 0 || cur > U && lab[i] == 0 && lab[i+1] == 1 {
				cand = append(cand, i)
			}
		}
		i := cand[r.Intn(len(cand))]
		lab[i], lab[i+1] = lab[i+1], lab[i]
		if cur < U {
			cur++
		} else {
			cur--
		}
	}
	v := int64(-60 + r.Intn(40))
	for _, l := range lab {
		v += int64(1 + r.Intn(4))
		if l == 1 {
			x1 = append(x1, v)
		} else {
			x2 = append(x2, v)
		}
	}
	return c11Shuffle(r, x1), c11Shuffle(r, x2)
}
