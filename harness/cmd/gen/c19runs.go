package main

// C19, runs of identical-label results at the flush boundary. The rule of the
// property: consecutive results of an upload with identical labels (and name
// labels) are stored as ONE record, and the upload listing counts records. The
// database layer flushes its buffered rows whenever 990 INSERT arguments (248
// labels) are pending, from inside the label loop of the FIRST result of a
// record, and the flush forgets that result: a follower with identical labels
// then starts a second record. These histories put runs of 2-4 identical-label
// results exactly there (the first result of the run is the one whose labels
// cross 990 pending arguments), next to controls whose run starts one record
// later or one record earlier, and search/list every label of the run.
//
// c19SplitSim replays InsertRecord's coalescing and insertLabel's counter over
// the results of an upload as the legacy Reader (with the server's AddLabels)
// sees them; an accepted upload with at least one run cut that way gets the
// input tag C19_record_split_at_flush — for every history of every stream.

import (
	"fmt"
	"strings"

	sbf "golang.org/x/perf/storage/benchfmt"
	"verifharness/internal/hx"
)

const c19SplitTag = "C19_record_split_at_flush"

// c19UploadResults: the results of the upload's files, in order, as indexFile
// reads them (upload ID and time are placeholders; they are the same for every
// result of the upload, the part differs per file).
func c19UploadResults(u c19Upload) []*sbf.Result {
	var rs []*sbf.Result
	for i, f := range u.Files {
		meta := sbf.Labels{"upload": "19700101.1", "upload-part": fmt.Sprintf("19700101.1/%d", i), "upload-time": "t"}
		name := f.Name
		if k := strings.LastIndexAny(name, `/\`); k >= 0 {
			name = name[k+1:]
		}
		if name != "" {
			meta["upload-file"] = name
		}
		if u.User != "" {
			meta["by"] = u.User
		}
		br := sbf.NewReader(strings.NewReader(f.Body))
		br.AddLabels(meta)
		for br.Next() {
			rs = append(rs, br.Result())
		}
	}
	return rs
}

type c19SplitInfo struct {
	splits  int // runs cut after their first result by a forced flush
	flushes int // forced flushes before Commit
	runs    int // runs of two or more results (by the rule)
	results int
}

func c19SplitSim(u c19Upload) c19SplitInfo {
	rs := c19UploadResults(u)
	info := c19SplitInfo{results: len(rs)}
	for i := 1; i < len(rs); i++ {
		if rs[i-1].SameLabels(rs[i]) && (i < 2 || !rs[i-2].SameLabels(rs[i-1])) {
			info.runs++
		}
	}
	pend := 0
	var last *sbf.Result
	for i, x := range rs {
		if last != nil && last.SameLabels(x) {
			continue // appended to the pending record: queues nothing
		}
		last = x
		flushed := false
		for j := len(x.Labels) + len(x.NameLabels); j > 0; j-- {
			if pend >= 990 {
				pend = 0
				last = nil
				flushed = true
				info.flushes++
			}
			pend += 4
		}
		if flushed && i+1 < len(rs) && x.SameLabels(rs[i+1]) {
			info.splits++
		}
	}
	return info
}

func (c c19BoundaryCfg) name(i int) string {
	l := c.line(i)
	return l[:strings.IndexByte(l, ' ')]
}

// c19RunUpload: nrec distinct records; record number runAt (counted from 0) is
// followed by follow further results with its labels; then tail more distinct
// records, the first of them doubled if tailRun.
func c19RunUpload(cfg c19BoundaryCfg, runAt, follow, tail int, tailRun bool) c19Upload {
	u := cfg.upload(runAt + 1)
	var sb strings.Builder
	for j := 0; j < follow; j++ {
		fmt.Fprintf(&sb, "%s 1 %d ns/op\n", cfg.name(runAt), 7+j)
	}
	for j := 0; j < tail; j++ {
		sb.WriteString(cfg.line(runAt+1+j) + "\n")
		if j == 0 && tailRun {
			fmt.Fprintf(&sb, "%s 1 99 ns/op\n", cfg.name(runAt+1))
		}
	}
	u.Files[len(u.Files)-1].Body += sb.String()
	return u
}

func genC19Runs(o *hx.Out, r *hx.Rng, tier string) error {
	n, nfat := 12, 2
	if tier == "thorough" {
		n, nfat = 120, 20
	}
	small := func() c19Upload {
		return c19Upload{User: r.Pick([]string{"", "user"}), Files: []c19File{{"s.txt", "goos: linux\nBenchmarkSmall 1 2 ns/op\nBenchmarkSmall 1 3 ns/op\nBenchmarkSmall-8 1 3 ns/op\n"}}}
	}
	emit := func(u c19Upload, run *sbf.Result, ats []int, nq int) error {
		in := c19HistIn{Kind: "history"}
		idx := 0
		if r.Chance(0.4) {
			in.Uploads = append(in.Uploads, small())
			idx = 1
		}
		in.Uploads = append(in.Uploads, u)
		if r.Chance(0.3) {
			in.Uploads = append(in.Uploads, small())
		}
		return c19HistoryX(o, r, in, nq, nil, c19FinalQueries(r, run, ats, idx))
	}
	for i := 0; i < n; i++ {
		cfg := c19BoundaryCfg{user: r.Pick([]string{"user", "user", "", "gopher"}), fname: r.Pick([]string{"a.txt", "a.txt", "", "dir/c.txt"}), shape: []int{0, 0, 0, 1, 2}[r.Intn(5)]}
		if i < 3 {
			// the application's plain case: six labels per record, the 42nd record is the one
			cfg = c19BoundaryCfg{user: "user", fname: "a.txt"}
		} else {
			for j := []int{0, 0, 0, 1, 2, 3}[r.Intn(6)]; j > 0; j-- {
				cfg.hdr = append(cfg.hdr, []string{"goos: linux", "goarch: amd64", "pkg: p/q"}[j-1])
			}
			if r.Chance(0.25) {
				cfg.twoFiles = r.Range(1, 30)
			}
			if r.Chance(0.2) {
				cfg.midLabel = r.Range(1, 30)
			}
		}
		t := []int{1, 1, 1, 2, 2, 3}[r.Intn(6)]
		// the number of distinct records whose last one flush t falls on
		found := 0
		for k := 1; k <= 800; k++ {
			counts, _ := c19LabelCounts(cfg.upload(k))
			fl, at, _ := c19SimFlush(counts)
			if fl == t && at >= 0 {
				found = k
				break
			}
		}
		if found == 0 {
			return fmt.Errorf("runs: no record count puts flush %d on the last record", t)
		}
		// where the run starts relative to the record the flush falls on
		variant := []string{"split", "split", "split", "run-starts-one-later", "run-starts-one-earlier"}[r.Intn(5)]
		if i < 3 {
			variant = []string{"split", "run-starts-one-later", "run-starts-one-earlier"}[i]
		}
		runAt := found - 1
		switch variant {
		case "run-starts-one-later":
			runAt = found
		case "run-starts-one-earlier":
			runAt = found - 2
		}
		if runAt < 0 {
			runAt, variant = found-1, "split"
		}
		follow := r.Range(1, 3)
		tail := []int{0, 0, 1, 2, 3}[r.Intn(5)]
		if variant == "run-starts-one-earlier" && tail == 0 {
			tail = 1 // so that the flush still happens (on the record after the run)
		}
		tailRun := r.Chance(0.4)
		if variant == "run-starts-one-earlier" && tailRun {
			// the run's followers queue nothing, so the flush falls on the record
			// after the run — which is itself doubled: that second run is cut
			variant = "split-of-second-run"
		}
		u := c19RunUpload(cfg, runAt, follow, tail, tailRun)
		info := c19SplitSim(u)
		if strings.HasPrefix(variant, "split") != (info.splits > 0) {
			return fmt.Errorf("runs: variant %s but %d runs cut (records %d, run at %d)", variant, info.splits, found, runAt)
		}
		rs := c19UploadResults(u)
		if len(rs) <= runAt+follow || !rs[runAt].SameLabels(rs[runAt+follow]) {
			return fmt.Errorf("runs: results %d..%d of the upload are not one run", runAt, runAt+follow)
		}
		run := rs[runAt]
		counts, _ := c19LabelCounts(cfg.upload(runAt + 1))
		_, _, ats := c19SimFlush(counts)
		o.Count("hist.runs")
		o.Count("hist.runs.variant=" + variant)
		o.Count(fmt.Sprintf("hist.runs.run-length=%d", follow+1))
		o.Count(fmt.Sprintf("hist.runs.flush=%d", t))
		o.Count(fmt.Sprintf("hist.runs.records-after-run=%d", tail))
		o.Count(fmt.Sprintf("hist.runs.labels-per-record=%d", counts[len(counts)-1]))
		if err := emit(u, run, ats, 6); err != nil {
			return err
		}
	}
	// the first result of the run alone has more than 247 labels: the flush falls
	// inside its own label loop wherever the batches stood before
	for i := 0; i < nfat; i++ {
		var sb strings.Builder
		for j := r.Intn(4); j > 0; j-- {
			fmt.Fprintf(&sb, "BenchmarkPre%d 1 2 ns/op\n", j)
		}
		nk := r.Range(246, 262)
		for j := 0; j < nk; j++ {
			fmt.Fprintf(&sb, "k%03d: v%d\n", j, j%7)
		}
		follow := r.Range(1, 3)
		for j := 0; j <= follow; j++ {
			fmt.Fprintf(&sb, "BenchmarkFat 1 %d ns/op\n", 2+j)
		}
		if r.Chance(0.5) {
			sb.WriteString("BenchmarkPost 1 2 ns/op\n")
		}
		u := c19Upload{User: r.Pick([]string{"user", ""}), Files: []c19File{{r.Pick([]string{"a.txt", ""}), sb.String()}}}
		info := c19SplitSim(u)
		if info.splits == 0 {
			return fmt.Errorf("runs: a run behind a first result of %d file labels is not cut", nk)
		}
		rs := c19UploadResults(u)
		var run *sbf.Result
		var counts []int
		for _, x := range rs {
			if x.NameLabels["name"] == "Fat" && run == nil {
				run = x
			}
			if run == nil || x == run {
				counts = append(counts, len(x.Labels)+len(x.NameLabels))
			}
		}
		_, _, ats := c19SimFlush(counts)
		o.Count("hist.runs.fat")
		o.Count(fmt.Sprintf("hist.runs.fat.run-length=%d", follow+1))
		if err := emit(u, run, ats, 3); err != nil {
			return err
		}
	}
	return nil
}
