package main

// C15, case kind 8 (coq/Corr/RunC15.v): measurements that are NaN, +Inf or -Inf
// inside benchstat samples of at most 32 values, with the order of that
// benchmark's lines permuted (the special values first, in the middle, last,
// shuffled). Every variant is run in process (benchtab cells: sorted sample,
// summary, comparison, warnings; and the values of every cell in order of
// arrival, recorded by the harness before Builder.Add) and through the real
// binary (text and csv, GOMAXPROCS 1 and 4; the first cases also under -race).
// Judged: every cell's sample is the NaN-first ascending arrangement of its
// measurements, cell contents and the binary's bytes are identical for all
// variants.
//
// NaN is only put into cells that are NOT compared with a baseline (benchmarks
// present in one file only, or single-file runs): the unchanged code does not
// terminate on a NaN in a compared cell (go-moremath's MannWhitneyUTest: the tie
// loop `merged[i] == v1` never advances on NaN and appends to T for ever), see
// the builder's report.

import (
	"fmt"
	"os"
	"strings"

	"verifharness/internal/hx"
)

type c15nLine struct {
	bench   int
	special bool
	text    string
}

var c15nSizes = []int{1, 2, 3, 4, 5, 6, 7, 8, 10, 12, 13, 14, 16, 20, 24, 31, 32}

// c15nGen builds the base lines of every file. benchmarks: "shared" ones are in
// every file (special values +Inf / -Inf only), "solo" ones in one file only
// (NaN, +Inf, -Inf).
func c15nGen(r *hx.Rng) (files [][]c15nLine, names []string, desc string) {
	nfiles := 1 + r.Intn(3)
	units := [][]string{{"sec/op"}, {"sec/op", "B/op"}, {"widgets"}, {"B/op", "widgets"}}[r.Intn(4)]
	nb := r.Range(2, 4)
	spell := map[string][]string{"nan": {"NaN", "nan", "NaN"}, "+inf": {"+Inf", "Inf", "inf", "+Infinity"}, "-inf": {"-Inf", "-inf", "-Infinity"}}
	files = make([][]c15nLine, nfiles)
	nanCells, infCells := 0, 0
	for b := 0; b < nb; b++ {
		name := fmt.Sprintf("BenchmarkN%d", b)
		if r.Bool() {
			name += "-8"
		}
		solo := nfiles == 1 || r.Chance(0.5)
		var in []int // files this benchmark is in
		if solo {
			in = []int{r.Intn(nfiles)}
		} else {
			for f := 0; f < nfiles; f++ {
				in = append(in, f)
			}
		}
		for _, f := range in {
			n := c15nSizes[r.Intn(len(c15nSizes))]
			nspecial := 0
			if r.Chance(0.85) {
				nspecial = 1 + r.Intn(min(3, n))
			}
			kinds := []string{"+inf", "-inf"}
			if solo {
				kinds = []string{"nan", "nan", "nan", "+inf", "-inf"}
			}
			base := float64(r.Range(1, 40))
			for i := 0; i < n; i++ {
				special := i < nspecial
				var sb strings.Builder
				fmt.Fprintf(&sb, "%s %d", name, 1+r.Intn(1000))
				for ui, u := range units {
					v := ""
					if special && (ui == 0 || r.Bool()) {
						k := kinds[r.Intn(len(kinds))]
						v = spell[k][r.Intn(len(spell[k]))]
						if k == "nan" {
							nanCells++
						} else {
							infCells++
						}
					} else {
						// finite, positive, with duplicates
						v = fmt.Sprintf("%g", base+float64(r.Intn(6))*0.5)
					}
					fmt.Fprintf(&sb, " %s %s", v, u)
				}
				files[f] = append(files[f], c15nLine{bench: b, special: special, text: sb.String()})
			}
		}
	}
	// interleave the benchmarks of a file (the positions a benchmark occupies stay
	// the same in all variants, so rows keep their order of first observation)
	for f := range files {
		ls := files[f]
		for i := len(ls) - 1; i > 0; i-- {
			j := r.Intn(i + 1)
			ls[i], ls[j] = ls[j], ls[i]
		}
	}
	for f := 0; f < nfiles; f++ {
		names = append(names, fmt.Sprintf("n%c.txt", 'a'+f))
	}
	desc = fmt.Sprintf("files=%d units=%d", nfiles, len(units))
	if nanCells > 0 {
		desc += " nan"
	}
	if infCells > 0 {
		desc += " inf"
	}
	return
}

// c15nVariant reorders the lines of every benchmark within the positions that
// benchmark occupies: mode 0 as generated, 1 special values first, 2 last,
// 3 in the middle, 4 shuffled.
func c15nVariant(r *hx.Rng, lines []c15nLine, mode int) []c15nLine {
	out := append([]c15nLine(nil), lines...)
	if mode == 0 {
		return out
	}
	byBench := map[int][]int{}
	maxb := 0
	for i, l := range lines {
		byBench[l.bench] = append(byBench[l.bench], i)
		maxb = max(maxb, l.bench)
	}
	for b := 0; b <= maxb; b++ {
		pos := byBench[b]
		var sp, pl []c15nLine
		for _, i := range pos {
			if lines[i].special {
				sp = append(sp, lines[i])
			} else {
				pl = append(pl, lines[i])
			}
		}
		var order []c15nLine
		switch mode {
		case 1:
			order = append(sp, pl...)
		case 2:
			order = append(pl, sp...)
		case 3:
			h := len(pl) / 2
			order = append(append(append([]c15nLine(nil), pl[:h]...), sp...), pl[h:]...)
		default:
			order = append(sp, pl...)
			for i := len(order) - 1; i > 0; i-- {
				j := r.Intn(i + 1)
				order[i], order[j] = order[j], order[i]
			}
		}
		for k, i := range pos {
			out[i] = order[k]
		}
	}
	return out
}

func c15nInput(files [][]c15nLine, names []string) bsInput {
	in := bsInput{Flags: nil}
	for f, ls := range files {
		var sb strings.Builder
		sb.WriteString("goos: linux\npkg: p\n")
		for _, l := range ls {
			sb.WriteString(l.text)
			sb.WriteByte('\n')
		}
		in.Files = append(in.Files, bsFile{Name: names[f], Content: sb.String()})
	}
	return in
}

// cells of a run with the values of every cell in order of arrival
func c15nCells(run *bsRun) ([]hx.Sx, int, int) {
	arrived := map[string][]float64{}
	for g, vs := range run.groups {
		key := run.tkeys[g[0]].String() + " | " + run.rkeys[g[1]].String() + " | " + run.ckeys[g[2]].String()
		arrived[key] = vs
	}
	cells := cellMap(run) // sorted by key; (key sample centre lo hi cmp warnings)
	var out []hx.Sx
	nanCells, maxN := 0, 0
	// cellMap sorts by the same key; recover the key of each entry in that order
	var keys []string
	for ti, t := range run.tables.Tables {
		tk := run.tables.Keys[ti]
		for k := range t.Cells {
			keys = append(keys, tk.String()+" | "+k.Row.String()+" | "+k.Col.String())
		}
	}
	c15nSortStrings(keys)
	for i, c := range cells {
		vs := arrived[keys[i]]
		for _, v := range vs {
			if v != v {
				nanCells++
				break
			}
		}
		maxN = max(maxN, len(vs))
		out = append(out, hx.L(bsF64s(vs), c))
	}
	return out, nanCells, maxN
}

func c15nSortStrings(s []string) {
	for i := 1; i < len(s); i++ {
		for j := i; j > 0 && s[j] < s[j-1]; j-- {
			s[j], s[j-1] = s[j-1], s[j]
		}
	}
}

func c15GenNaNCases(o *hx.Out, r *hx.Rng, tier string, exe, raceExe string) error {
	n, nrace := 24, 6
	if tier == "thorough" {
		n, nrace = 240, 40
	}
	dir, err := os.MkdirTemp(os.Getenv("VERIF_WORK"), "c15nan")
	if err != nil {
		return err
	}
	defer os.RemoveAll(dir)
	fl := bsFlags{alpha: -1, confidence: -1}
	for i := 0; i < n; i++ {
		rr := r.Split()
		files, names, desc := c15nGen(rr)
		identical, raceOK := true, true
		nruns := 0
		var wantText, wantCSV string
		var variants []hx.Sx
		var inputs []bsInput
		firstDiff := ""
		ncells, nanCells, maxN := 0, 0, 0
		failed := false
		for mode := 0; mode < 5; mode++ {
			vf := make([][]c15nLine, len(files))
			for f := range files {
				vf[f] = c15nVariant(rr, files[f], mode)
			}
			in := c15nInput(vf, names)
			inputs = append(inputs, in)
			if err := writeBsFiles(dir, in); err != nil {
				return err
			}
			run := runBenchstatInProc(dir, in, fl)
			if run.err != nil {
				failed = true
				break
			}
			cells, nc, mx := c15nCells(run)
			if mode == 0 {
				ncells, nanCells, maxN = len(cells), nc, mx
			}
			variants = append(variants, hx.List(cells))
			for _, p := range []string{"1", "4"} {
				env := []string{"GOMAXPROCS=" + p}
				gt, _, _ := runBinary(exe, dir, in, "text", env)
				gc, _, _ := runBinary(exe, dir, in, "csv", env)
				nruns += 2
				if mode == 0 && p == "1" {
					wantText, wantCSV = gt, gc
				}
				if gt != wantText || gc != wantCSV {
					identical = false
					if firstDiff == "" {
						firstDiff = fmt.Sprintf("variant %d GOMAXPROCS=%s", mode, p)
					}
				}
			}
			if i < nrace && mode <= 1 {
				out, serr, _ := runBinary(raceExe, dir, in, "text", []string{"GOMAXPROCS=4", "GORACE=atexit_sleep_ms=0"})
				if strings.Contains(serr, "DATA RACE") {
					raceOK = false
				}
				if out != wantText {
					identical = false
				}
				nruns++
				o.Count("nan:race-runs")
			}
		}
		if failed {
			o.Count("nan:pipeline-error")
			continue
		}
		o.Count("nan:" + desc)
		o.Count(fmt.Sprintf("nan:cells-with-NaN=%d", min(nanCells, 4)))
		o.Count(fmt.Sprintf("nan:largest-sample<=%d", (maxN+7)/8*8))
		input := map[string]interface{}{"kind": "nan-inf samples, lines of each benchmark permuted", "variants": inputs,
			"first_diff": firstDiff, "identical": identical, "race_ok": raceOK}
		o.Add(hx.L(hx.I(8), hx.Bool(identical), hx.Bool(raceOK), hx.I(nruns), hx.List(variants)),
			input, fmt.Sprint("nan", inputs[0]), ncells >= 2)
	}
	return nil
}
