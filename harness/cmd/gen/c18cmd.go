package main

// C18, the REAL cmd/benchseries binary (built from the module under test) with
// each rarely used option set to a non-default value, one at a time:
//   -series -experiment -compare -numerator -denominator -numerator-hash
//   -denominator-hash (and both hash flags naming one key) -filter (.unit:,
//   key:value, .name:) -confidence, the CSV-only switches (-csv=false -delta
//   -change -values=false -threshold -boring -log=false), input on stdin (no
//   path / "-"), and -ji (summaries of an earlier run read back).
// The generated files carry BOTH the default key of every option and an
// alternative key (alt_stamp, alt_run, role, alt_nh, alt_dh; compare values
// Tip/Base/Exp/Ctl); the key an option selects carries the intended
// (well-formed) world, the other one a decoy world of valid values, so an
// option bound to the wrong field, ignored, or defaulted differently gives
// different series.  The result set handed to the model is the harness' own
// reading of the files it wrote under the DOCUMENTED meaning of the flags.
// Observed: exit status, the JSON written by -jo (axes, hash pairs, per cell
// date and summary), stdout (CSV).  Reference: the library (NewBuilder with
// the documented options, AddFiles, AllComparisonSeries(REPLACE),
// AddSummaries(confidence, 1000)) on the same files: its series go through
// the kind-2 checks (model, declarative specification), its summaries at
// N=1000, its JSON encoding and its CSV are what the command must produce.

import (
	"bytes"
	"encoding/json"
	"fmt"
	"os"
	"os/exec"
	"path/filepath"
	"sort"
	"strings"
	"time"

	"golang.org/x/perf/benchfmt"
	"golang.org/x/perf/benchseries"
	"verifharness/internal/hx"
)

func buildBenchseries() (string, error) {
	work := os.Getenv("VERIF_WORK")
	if work == "" {
		work = os.TempDir()
	}
	exe := filepath.Join(work, "benchseries.bin")
	cmd := exec.Command("go", "build", "-o", exe, "golang.org/x/perf/cmd/benchseries")
	cmd.Dir = harnessDir()
	out, err := cmd.CombinedOutput()
	if err != nil {
		return "", fmt.Errorf("building benchseries: %v\n%s", err, out)
	}
	return exe, nil
}

type c18CmdOpts struct {
	Class       string   `json:"class"`
	Args        []string `json:"args"` // the option arguments of the command line (without -jo and the paths)
	Series      string   `json:"series"`
	Experiment  string   `json:"experiment"`
	Compare     string   `json:"compare"`
	Numerator   string   `json:"numerator"`
	Denominator string   `json:"denominator"`
	NumHash     string   `json:"numerator_hash"`
	DenHash     string   `json:"denominator_hash"`
	Filter      string   `json:"filter"`
	FKind       int      `json:"filter_kind"` // 0 default, 1 .unit:V, 2 K:V (file key), 3 .name:V
	FKey        string   `json:"filter_key,omitempty"`
	FVal        string   `json:"filter_val,omitempty"`
	Confidence  float64  `json:"confidence"`
	Threshold   float64  `json:"threshold"`
	CSV         bool     `json:"csv"`
	Delta       bool     `json:"delta"`
	Change      bool     `json:"change"`
	Values      bool     `json:"values"`
	Stdin       int      `json:"stdin"` // 0 paths, 1 no path argument, 2 the path "-"
	JI          bool     `json:"ji"`
	// BuilderOptions the command has no flag for: exercised through the library only (kind-2 case)
	Table   []string `json:"table"`
	Ignore  string   `json:"ignore"`
	LibOnly bool     `json:"library_only,omitempty"`
}

const c18BentIgnore = "go,tip,base,bentstamp,suite,cpu,denominator_branch,.fullname,shortname"

// the documented defaults of the command (benchseries.BentBuilderOptions)
func c18CmdDefaults() c18CmdOpts {
	return c18CmdOpts{Class: "none", Series: "numerator_stamp", Experiment: "runstamp", Compare: "toolchain",
		Numerator: "Tip", Denominator: "Base", NumHash: "numerator_hash", DenHash: "denominator_hash",
		Filter: ".unit:/.*/", Confidence: 0.95, Threshold: 0.02, CSV: true, Values: true,
		Table: []string{"goarch", "goos", "builder_id"}, Ignore: c18BentIgnore}
}

var c18CmdClasses = []string{"none", "series", "experiment", "compare", "numerator", "denominator",
	"numerator-hash", "denominator-hash", "same-hash", "filter-unit", "filter-key", "filter-name",
	"confidence", "stdin", "ji", "several", "lib:table", "lib:ignore"}

// the switches that only change the CSV (or the charts): each of them in turn
var c18CmdCSVClasses = []string{"csv:csv=false", "csv:delta", "csv:change", "csv:values=false", "csv:change+threshold", "csv:boring", "csv:log=false"}

// flag spelled -name=value, -name value or --name=value
func c18Flag(r *hx.Rng, name, val string) []string {
	switch r.Intn(3) {
	case 0:
		return []string{"-" + name + "=" + val}
	case 1:
		return []string{"-" + name, val}
	}
	return []string{"--" + name + "=" + val}
}

func c18GenCmdOpts(r *hx.Rng, class string) c18CmdOpts {
	op := c18CmdDefaults()
	op.Class = class
	set := func(which string) {
		switch which {
		case "series":
			op.Series = "alt_stamp"
			op.Args = append(op.Args, c18Flag(r, "series", op.Series)...)
		case "experiment":
			op.Experiment = "alt_run"
			op.Args = append(op.Args, c18Flag(r, "experiment", op.Experiment)...)
		case "compare":
			op.Compare = "role"
			op.Args = append(op.Args, c18Flag(r, "compare", op.Compare)...)
		case "numerator":
			op.Numerator = "Exp"
			op.Args = append(op.Args, c18Flag(r, "numerator", op.Numerator)...)
		case "denominator":
			op.Denominator = "Ctl"
			op.Args = append(op.Args, c18Flag(r, "denominator", op.Denominator)...)
		case "numerator-hash":
			op.NumHash = "alt_nh"
			op.Args = append(op.Args, c18Flag(r, "numerator-hash", op.NumHash)...)
		case "denominator-hash":
			op.DenHash = "alt_dh"
			op.Args = append(op.Args, c18Flag(r, "denominator-hash", op.DenHash)...)
		}
	}
	switch class {
	case "series", "experiment", "compare", "numerator", "denominator", "numerator-hash", "denominator-hash":
		set(class)
	case "same-hash":
		op.NumHash, op.DenHash = "the_hash", "the_hash"
		op.Args = append(op.Args, c18Flag(r, "numerator-hash", "the_hash")...)
		op.Args = append(op.Args, c18Flag(r, "denominator-hash", "the_hash")...)
	case "several":
		all := []string{"series", "experiment", "compare", "numerator", "denominator", "numerator-hash", "denominator-hash"}
		for i := len(all) - 1; i > 0; i-- {
			j := r.Intn(i + 1)
			all[i], all[j] = all[j], all[i]
		}
		for _, w := range all[:r.Range(2, 7)] {
			set(w)
		}
	case "filter-unit":
		op.FKind, op.FVal = 1, r.Pick([]string{"sec/op", "B/op"})
		op.Filter = ".unit:" + op.FVal
		op.Args = append(op.Args, c18Flag(r, "filter", op.Filter)...)
	case "filter-key":
		kv := [][2]string{{"pad", "p0"}, {"pad", "p1"}, {"goos", "linux"}, {"goos", "darwin"}}[r.Intn(4)]
		op.FKind, op.FKey, op.FVal = 2, kv[0], kv[1]
		op.Filter = kv[0] + ":" + kv[1]
		op.Args = append(op.Args, c18Flag(r, "filter", op.Filter)...)
	case "filter-name":
		op.FKind, op.FVal = 3, r.Pick([]string{"A", "B"})
		op.Filter = ".name:" + op.FVal
		op.Args = append(op.Args, c18Flag(r, "filter", op.Filter)...)
	case "confidence":
		op.Confidence = []float64{0.5, 0.8, 0.9, 0.99}[r.Intn(4)]
		op.Args = append(op.Args, c18Flag(r, "confidence", fmt.Sprint(op.Confidence))...)
	case "csv:csv=false", "csv:delta", "csv:change", "csv:values=false", "csv:change+threshold", "csv:boring", "csv:log=false":
		sub := 0
		for i, c := range c18CmdCSVClasses {
			if c == class {
				sub = i
			}
		}
		switch sub {
		case 0:
			op.CSV = false
			op.Args = append(op.Args, "-csv=false")
		case 1:
			op.Delta = true
			op.Args = append(op.Args, "-delta")
		case 2:
			op.Change = true
			op.Args = append(op.Args, "-change")
		case 3:
			op.Values = false
			op.Args = append(op.Args, "-values=false")
		case 4:
			op.Threshold = 0.5
			op.Change = true
			op.Args = append(op.Args, "-change", "-threshold=0.5")
		case 5:
			op.Args = append(op.Args, "-boring")
		default:
			op.Args = append(op.Args, "-log=false")
		}
	case "lib:table", "lib:ignore":
		// no flag of the command sets these: the library alone, with the other keys renamed at random too
		op.LibOnly = true
		if class == "lib:table" {
			op.Table = [][]string{{}, {"goos"}, {"goarch", "goos"}, {"builder_id", "goos"}, {"goos", "pad"}, {"pad"}}[r.Intn(6)]
		} else {
			op.Ignore = []string{"", "pad,note", "cpu", "note,goarch,cpu,pad"}[r.Intn(4)]
		}
		for _, w := range []string{"series", "experiment", "compare", "numerator", "denominator", "numerator-hash", "denominator-hash"} {
			if r.Chance(0.3) {
				set(w)
			}
		}
		op.Args = nil
	case "stdin":
		op.Stdin = 1 + r.Intn(2)
	case "ji":
		op.JI = true
	}
	return op
}

// ---------- the files

type c18CmdLine struct {
	cfg   map[string]string // effective file configuration at this benchmark line
	bench string
	units []string
	vals  []float64
}

type c18CmdFile struct {
	Name    string `json:"name"`
	Content string `json:"content"`
	lines   []c18CmdLine
}

type c18CmdWorld struct {
	Files []c18CmdFile `json:"files"`
	Opts  c18CmdOpts   `json:"options"`
	Old   string       `json:"ji_content,omitempty"`
}

var c18CmpValues = []string{"Tip", "Base", "Exp", "Ctl"}

// one file = one experiment.  [sel] maps a role of a key (series, experiment,
// compare, numhash, denhash) to the key name the options select; the other
// candidate name of that role carries decoy values.
func c18GenCmdFile(r *hx.Rng, op c18CmdOpts, idx int, goos string, exp, expDecoy string, hashes []int,
	sers, sersDecoy []string, units []string, benches []string, pad string, withOther bool) c18CmdFile {
	var f c18CmdFile
	f.Name = fmt.Sprintf("run%d.txt", idx)
	cfg := map[string]string{}
	var b strings.Builder
	set := func(k, v string) {
		fmt.Fprintf(&b, "%s: %s\n", k, v)
		cfg[k] = v
	}
	type kv struct{ k, v string }
	shuffle := func(l []kv) {
		for i := len(l) - 1; i > 0; i-- {
			j := r.Intn(i + 1)
			l[i], l[j] = l[j], l[i]
		}
	}
	decoyOf := func(sel, a, b string) string { // the candidate name not selected
		if sel == a {
			return b
		}
		return a
	}
	expDecoyKey := decoyOf(op.Experiment, "runstamp", "alt_run")
	hdr := []kv{{"goos", goos}, {"builder_id", "b1"}, {op.Experiment, exp}, {expDecoyKey, expDecoy},
		{"cpu", "Z80"}, {"pad", pad}}
	if r.Bool() {
		hdr = append(hdr, kv{"goarch", "amd64"})
	}
	if r.Bool() {
		hdr = append(hdr, kv{"note", fmt.Sprintf("n%d", idx)})
	}
	shuffle(hdr)
	for _, l := range hdr {
		set(l.k, l.v)
	}
	b.WriteString("\n")
	serDecoyKey := decoyOf(op.Series, "numerator_stamp", "alt_stamp")
	cmpDecoyKey := decoyOf(op.Compare, "toolchain", "role")
	// hash keys: the selected names carry the world; every other candidate name a decoy
	hashNames := []string{"numerator_hash", "alt_nh", "denominator_hash", "alt_dh"}
	exact := op.Class == "csv:change+threshold"
	section := func(role string, h int) {
		var cmp, cmpDecoy string
		switch role {
		case "num":
			cmp, cmpDecoy = op.Numerator, r.Pick([]string{"Base", "Ctl", "Base", "Tip"})
		case "den":
			cmp, cmpDecoy = op.Denominator, r.Pick([]string{"Tip", "Exp", "Tip", "Base"})
		default:
			// a toolchain that is neither: prefer the DEFAULT value of a role the options rename
			var cand []string
			for _, v := range c18CmpValues {
				if v != op.Numerator && v != op.Denominator {
					cand = append(cand, v)
				}
			}
			cmp, cmpDecoy = cand[r.Intn(len(cand))], r.Pick(c18CmpValues)
			if op.Numerator != "Tip" && r.Chance(0.7) {
				cmp = "Tip"
			}
			if op.Denominator != "Base" && r.Chance(0.7) {
				cmp = "Base"
			}
		}
		nh, dh := fmt.Sprintf("h%d", h), "d0"
		lines := []kv{{op.Compare, cmp}, {cmpDecoyKey, cmpDecoy}, {op.Series, sers[h]}, {serDecoyKey, sersDecoy[h]}}
		if op.NumHash == op.DenHash {
			v := nh
			if role == "den" {
				v = dh
			}
			lines = append(lines, kv{op.NumHash, v})
		} else {
			lines = append(lines, kv{op.NumHash, nh}, kv{op.DenHash, dh})
		}
		for _, n := range hashNames {
			if n != op.NumHash && n != op.DenHash {
				lines = append(lines, kv{n, fmt.Sprintf("x%d", r.Intn(3))})
			}
		}
		shuffle(lines)
		for _, l := range lines {
			set(l.k, l.v)
		}
		for _, bn := range benches {
			k := 1 + r.Intn(2)
			if op.Class == "confidence" {
				k = 4 + r.Intn(3) // samples large enough for the interval to depend on the confidence
			}
			for j := 0; j < k; j++ {
				us := units
				if len(units) > 1 && r.Chance(0.15) {
					us = units[:1]
				}
				vals := make([]float64, len(us))
				fmt.Fprintf(&b, "Benchmark%s %d", bn, 1+r.Intn(100))
				for i, u := range us {
					vals[i] = c18Val(r)
					if exact { // an exact metric: constant per (role, hash), 10% apart between series points
						vals[i] = 200
						if role != "den" {
							vals[i] = 200 + 20*float64(h)
						}
					}
					fmt.Fprintf(&b, " %v %s", vals[i], u)
				}
				b.WriteString("\n")
				c := map[string]string{}
				for k, v := range cfg {
					c[k] = v
				}
				f.lines = append(f.lines, c18CmdLine{cfg: c, bench: bn, units: us, vals: vals})
			}
		}
		b.WriteString("\n")
	}
	type sec struct {
		role string
		h    int
	}
	secs := []sec{{"den", hashes[0]}}
	for _, h := range hashes {
		secs = append(secs, sec{"num", h})
	}
	if withOther {
		secs = append(secs, sec{"other", hashes[r.Intn(len(hashes))]})
	}
	// the baseline section is not always the first one
	if r.Chance(0.3) {
		i := 1 + r.Intn(len(secs)-1)
		secs[0], secs[i] = secs[i], secs[0]
	}
	for _, s := range secs {
		section(s.role, s.h)
	}
	f.Content = b.String()
	return f
}

var c18BaseName = map[string]string{"A": "A", "B/x=1": "B", "C-8": "C"}

// the harness' reading of the files under the documented meaning of the options
func c18CmdResults(files []c18CmdFile, op c18CmdOpts) (results []c18Result, fstart []int) {
	for _, f := range files {
		fstart = append(fstart, len(results))
		for _, l := range f.lines {
			units, vals := l.units, l.vals
			switch op.FKind {
			case 1:
				var u2 []string
				var v2 []float64
				for i, u := range units {
					if u == op.FVal {
						u2, v2 = append(u2, u), append(v2, vals[i])
					}
				}
				units, vals = u2, v2
			case 2:
				if l.cfg[op.FKey] != op.FVal {
					continue
				}
			case 3:
				if c18BaseName[l.bench] != op.FVal {
					continue
				}
			}
			if len(units) == 0 {
				continue
			}
			var tab []string
			for _, k := range op.Table {
				if l.cfg[k] != "" {
					tab = append(tab, l.cfg[k])
				}
			}
			role := "other"
			switch l.cfg[op.Compare] {
			case op.Denominator:
				role = "den"
			case op.Numerator:
				role = "num"
			}
			results = append(results, c18Result{Table: strings.Join(tab, " "), Bench: l.bench, Exp: l.cfg[op.Experiment],
				Ser: l.cfg[op.Series], Role: role, NH: l.cfg[op.NumHash], DH: l.cfg[op.DenHash], Units: units, Vals: vals})
		}
	}
	fstart = append(fstart, len(results))
	return
}

func c18GenCmdWorld(r *hx.Rng, op c18CmdOpts) c18CmdWorld {
	w := c18CmdWorld{Opts: op}
	t0 := time.Date(2022, 1, 1, 21, 32, 12, 0, time.UTC)
	nF := 2 + r.Intn(2)
	if op.Stdin > 0 {
		nF = 1
	}
	sers, sersDecoy := make([]string, 8), make([]string, 8) // hashes 2*fi+k, fi < 3, k < 3 (csv:change+threshold)
	for i := range sers {
		sers[i] = c18Stamp(r, t0.AddDate(0, 0, i), r.Intn(4))
		sersDecoy[i] = c18Stamp(r, t0.AddDate(0, 0, 20-3*i+r.Intn(2)), r.Intn(4)) // another order, other instants
	}
	units := c18UnitSets[r.Intn(len(c18UnitSets))]
	if op.FKind == 1 {
		units = c18UnitSets[1]
	}
	benches := c18Benches[:1+r.Intn(2)]
	if op.FKind == 3 {
		benches = c18Benches[:2+r.Intn(2)]
	}
	shared := r.Chance(0.6) // the files measure the same series points (REPLACE picks by experiment date)
	for fi := 0; fi < nF; fi++ {
		var hashes []int
		nh := 1 + r.Intn(2)
		if op.Class == "csv:change+threshold" {
			nh = 2 + r.Intn(2) // consecutive series points to compare
		}
		for k := 0; k < nh; k++ {
			if shared {
				hashes = append(hashes, k)
			} else {
				hashes = append(hashes, 2*fi+k)
			}
		}
		goos := "linux"
		if r.Chance(0.3) {
			goos = "darwin"
		}
		if op.FKey == "goos" && fi < 2 { // both values occur
			goos = []string{"linux", "darwin"}[fi]
		}
		exp := c18Stamp(r, t0.AddDate(0, 1, fi), r.Intn(4))
		expDecoy := c18Stamp(r, t0.AddDate(0, 2, -fi), r.Intn(4)) // the reverse order
		withOther := r.Chance(0.35) || ((op.Numerator != "Tip" || op.Denominator != "Base") && r.Chance(0.7))
		w.Files = append(w.Files, c18GenCmdFile(r, op, fi, goos, exp, expDecoy, hashes, sers, sersDecoy, units, benches,
			fmt.Sprintf("p%d", fi%2), withOther))
	}
	return w
}

// ---------- running the library as the command is documented to

func c18CmdBuilderOptions(op c18CmdOpts) *benchseries.BuilderOptions {
	bo := benchseries.BentBuilderOptions()
	bo.Series, bo.Experiment, bo.Compare = op.Series, op.Experiment, op.Compare
	bo.Numerator, bo.Denominator = op.Numerator, op.Denominator
	bo.NumeratorHash, bo.DenominatorHash = op.NumHash, op.DenHash
	bo.Filter = op.Filter
	bo.Table, bo.Ignore = strings.Join(op.Table, ","), op.Ignore
	bo.Warn = func(string, ...interface{}) {}
	return bo
}

// with stdin != "" os.Stdin is that file for the duration
func c18WithStdin(stdin string, f func()) error {
	if stdin == "" {
		f()
		return nil
	}
	in, err := os.Open(stdin)
	if err != nil {
		return err
	}
	defer in.Close()
	old := os.Stdin
	os.Stdin = in
	defer func() { os.Stdin = old }()
	f()
	return nil
}

type c18LibOut struct {
	outcome, sums hx.Sx
	kind          string
	cells         [][]c18CellObs
	json, csv     []byte // only with full
}

// the library on the files: NewBuilder(options), AddFiles, AllComparisonSeries(existing, how),
// AddSummaries(conf, n); with full also the JSON encoding and the CSV the command would print
func c18CmdLib(op c18CmdOpts, paths []string, stdin string, old []byte, how int, conf float64, n int, full bool) (res c18LibOut, err error) {
	res.sums = hx.L(hx.I(0), hx.L())
	run := func() {
		defer func() {
			if e := recover(); e != nil {
				res.outcome, res.kind = hx.L(hx.I(2)), "panic"
			}
		}()
		b, e := benchseries.NewBuilder(c18CmdBuilderOptions(op))
		if e != nil {
			panic(e)
		}
		if e := b.AddFiles(benchfmt.Files{Paths: paths, AllowStdin: true, AllowLabels: true}); e != nil {
			panic(e)
		}
		var existing []*benchseries.ComparisonSeries
		if old != nil {
			json.NewDecoder(bytes.NewReader(old)).Decode(&existing)
		}
		css, e := b.AllComparisonSeries(existing, how)
		if e != nil {
			res.outcome, res.kind = hx.L(hx.I(1)), "error"
			return
		}
		res.outcome, res.kind = hx.L(hx.I(0), c18Observe(css)), "ok"
		for _, cs := range css {
			var row []c18CellObs
			for _, bn := range cs.Benchmarks {
				for _, s := range cs.Series {
					if c, ok := cs.ComparisonAt(bn, s); ok {
						var o c18CellObs
						if c.Numerator != nil {
							o.Nu = append([]float64(nil), c.Numerator.Values...)
						}
						if c.Denominator != nil {
							o.De = append([]float64(nil), c.Denominator.Values...)
						}
						row = append(row, o)
					}
				}
			}
			res.cells = append(res.cells, row)
		}
		res.sums = c18Summaries(css, conf, n)
		if full {
			var jb bytes.Buffer
			enc := json.NewEncoder(&jb)
			enc.SetIndent("", "\t")
			enc.Encode(css)
			res.json = jb.Bytes()
			var options benchseries.CsvOptions
			if op.Delta {
				options |= benchseries.CSV_DELTA
			}
			if op.Change {
				options |= benchseries.CSV_CHANGE_HEU | benchseries.CSV_CHANGE_KS
			}
			if op.Values {
				options |= benchseries.CSV_VALUES
			}
			var cb bytes.Buffer
			if op.CSV {
				for _, cs := range css {
					cs.ToCsvBootstrapped(&cb, options, op.Threshold)
				}
			}
			res.csv = cb.Bytes()
		}
	}
	err = c18WithStdin(stdin, run)
	return
}

// what the JSON of the command shows of its series: axes, hash pairs, and per
// existing cell (a cell always has a date) its date and summary
func c18ProjectJSON(data []byte) (hx.Sx, bool) {
	var css []*benchseries.ComparisonSeries
	if err := json.Unmarshal(data, &css); err != nil {
		return hx.L(hx.I(1)), false
	}
	var out []hx.Sx
	for _, cs := range css {
		if cs == nil || len(cs.Summaries) != len(cs.Series) {
			return hx.L(hx.I(1)), false
		}
		var hp []hx.Sx
		keys := make([]string, 0, len(cs.HashPairs))
		for k := range cs.HashPairs {
			keys = append(keys, k)
		}
		sort.Strings(keys)
		for _, k := range keys {
			hp = append(hp, hx.L(hx.S(k), hx.S(cs.HashPairs[k].NumHash), hx.S(cs.HashPairs[k].DenHash)))
		}
		var cells []hx.Sx
		for bi, b := range cs.Benchmarks {
			for si, s := range cs.Series {
				if len(cs.Summaries[si]) != len(cs.Benchmarks) {
					return hx.L(hx.I(1)), false
				}
				sum := cs.Summaries[si][bi]
				if sum == nil || sum.Date == "" {
					continue
				}
				cells = append(cells, hx.L(hx.S(b), hx.S(s), hx.S(sum.Date), c18Summ(sum)))
			}
		}
		out = append(out, hx.L(hx.S(cs.Unit), hx.SList(cs.Benchmarks), hx.SList(cs.Series), hx.List(hp), hx.List(cells)))
	}
	return hx.L(hx.I(0), hx.List(out)), true
}

func c18CmdCase(o *hx.Out, r *hx.Rng, exe, dir string, w c18CmdWorld) error {
	op := w.Opts
	var paths []string
	for _, f := range w.Files {
		p := filepath.Join(dir, f.Name)
		if err := os.WriteFile(p, []byte(f.Content), 0o644); err != nil {
			return err
		}
		paths = append(paths, p)
	}
	stdin := ""
	libPaths, cmdPaths := paths, paths
	switch op.Stdin {
	case 1:
		stdin, libPaths, cmdPaths = paths[0], nil, nil
	case 2:
		stdin, libPaths, cmdPaths = paths[0], []string{"-"}, []string{"-"}
	}
	var old []byte
	oldPath := filepath.Join(dir, "old.json")
	if op.JI {
		old = []byte(w.Old)
		if err := os.WriteFile(oldPath, old, 0o644); err != nil {
			return err
		}
	}
	results, fstart := c18CmdResults(w.Files, op)
	flat, start := c18Flatten(results)
	wfSx, wf, tags := c18WFTags(flat)
	conf := []float64{0.5, 0.9, 0.95, 0.99}[r.Intn(4)]
	bootN := []int{1, 2, 3, 5, 8}[r.Intn(5)]
	// the kind-2 part: the library with the documented options, both policies (existing = nil)
	var runs []hx.Sx
	var first [2][][]c18CellObs
	var order []int
	for fi := range w.Files {
		for i := fstart[fi]; i < fstart[fi+1]; i++ {
			order = append(order, i)
		}
	}
	for how := 0; how < 2; how++ {
		lib, err := c18CmdLib(op, libPaths, stdin, nil, how, conf, bootN, false)
		if err != nil {
			return err
		}
		if lib.kind == "ok" {
			first[how] = lib.cells
			if first[how] == nil {
				first[how] = [][]c18CellObs{}
			}
		}
		o.Count("cmd-library-outcome:" + lib.kind)
		runs = append(runs, hx.L(hx.I(how), hx.List(c18FlatOrder(results, start, order)), lib.outcome, lib.sums))
	}
	if op.LibOnly {
		o.Count("cmd-class:" + op.Class)
		o.Count(fmt.Sprintf("cmd-wf:%v", wf))
		o.Add(hx.L(hx.I(2), c18ResultsSx(flat), wfSx, hx.List(runs), hx.F64(conf), hx.I(bootN), c18Refs(first, conf, bootN)),
			map[string]interface{}{"kind": "series-from-files-builder-options", "world": w, "confidence": conf, "n": bootN},
			fmt.Sprintf("cmd:%d", o.Len()), len(flat) > 3, tags...)
		return nil
	}
	// the reference for the command: REPLACE, the flag's confidence, 1000 bootstraps, -ji read back
	ref, err := c18CmdLib(op, libPaths, stdin, old, benchseries.DUPE_REPLACE, op.Confidence, 1000, true)
	if err != nil {
		return err
	}
	// the command
	jo := filepath.Join(dir, "out.json")
	os.Remove(jo)
	args := append([]string{}, op.Args...)
	args = append(args, "-jo", jo)
	if op.JI {
		args = append(args, "-ji", oldPath)
	}
	// flags and paths: the options come first (package flag stops at the first path)
	args = append(args, cmdPaths...)
	cmd := exec.Command(exe, args...)
	cmd.Dir = dir
	var so, se bytes.Buffer
	cmd.Stdout, cmd.Stderr = &so, &se
	if stdin != "" {
		in, e := os.Open(stdin)
		if e != nil {
			return e
		}
		defer in.Close()
		cmd.Stdin = in
	}
	exit := 0
	if e := cmd.Run(); e != nil {
		ee, ok := e.(*exec.ExitError)
		if !ok {
			return fmt.Errorf("running benchseries: %v", e)
		}
		if exit = ee.ExitCode(); exit == 0 {
			exit = -1
		}
	}
	jdata, _ := os.ReadFile(jo)
	pout, jok := hx.L(hx.I(1)), false
	if exit == 0 {
		pout, jok = c18ProjectJSON(jdata)
	}
	sameJSON, sameCSV := false, false
	switch ref.kind {
	case "ok":
		sameJSON = exit == 0 && bytes.Equal(jdata, ref.json)
		sameCSV = exit == 0 && bytes.Equal(so.Bytes(), ref.csv)
	default: // the library refuses the input (or panics): the command must not report success
		sameJSON, sameCSV = exit != 0, exit != 0
	}
	// does the option matter on these files?  the library with the DEFAULT options
	dflt := c18CmdDefaults()
	dflt.Stdin = op.Stdin
	if dl, err := c18CmdLib(dflt, libPaths, stdin, nil, benchseries.DUPE_REPLACE, dflt.Confidence, 1000, true); err == nil {
		if dl.kind != ref.kind || !bytes.Equal(dl.json, ref.json) {
			o.Count("cmd-option-changes-the-json:" + op.Class)
		} else if !bytes.Equal(dl.csv, ref.csv) {
			o.Count("cmd-option-changes-the-csv-only:" + op.Class)
		} else {
			o.Count("cmd-option-changes-nothing-observable:" + op.Class)
		}
	}
	o.Count("cmd-class:" + op.Class)
	o.Count(fmt.Sprintf("cmd-wf:%v", wf))
	o.Count(fmt.Sprintf("cmd-exit:%d", exit))
	o.Count(fmt.Sprintf("cmd-json-readable:%v", jok))
	o.Count("cmd-reference-outcome:" + ref.kind)
	if !sameJSON {
		o.Count("cmd-json-differs-from-library")
	}
	if !sameCSV {
		o.Count("cmd-csv-differs-from-library")
	}
	if len(flat) == 0 {
		o.Count("cmd-empty-result-set")
	}
	cmdSx := hx.L(hx.Bool(op.JI), hx.I(exit), pout, ref.sums, hx.Bool(sameJSON), hx.Bool(sameCSV))
	o.Add(hx.L(hx.I(5), c18ResultsSx(flat), wfSx, hx.List(runs), hx.F64(conf), hx.I(bootN), c18Refs(first, conf, bootN), cmdSx),
		map[string]interface{}{"kind": "benchseries-command", "world": w, "argv": args, "confidence": conf, "n": bootN},
		fmt.Sprintf("cmd:%d", o.Len()), len(flat) > 3, tags...)
	return nil
}

func c18GenCommand(o *hx.Out, r *hx.Rng, tier string) error {
	exe, err := buildBenchseries()
	if err != nil {
		return err
	}
	dir, err := os.MkdirTemp(os.Getenv("VERIF_WORK"), "c18cmd")
	if err != nil {
		return err
	}
	defer os.RemoveAll(dir)
	per := 5
	if tier == "thorough" {
		per = 60
	}
	// loose: the world is taken as drawn (sets outside the well-formed domain are
	// judged up to the places of the recorded findings)
	loose := false
	gen := func(op c18CmdOpts) c18CmdWorld {
		w := c18GenCmdWorld(r, op)
		// prefer worlds inside the well-formed domain (the specification speaks about those)
		for try := 0; try < 8 && !loose; try++ {
			res, _ := c18CmdResults(w.Files, op)
			fl, _ := c18Flatten(res)
			if _, wf, _ := c18WFTags(fl); wf && len(fl) > 0 {
				break
			}
			w = c18GenCmdWorld(r, op)
		}
		return w
	}
	for i := 0; i < per; i++ {
		classes := c18CmdClasses
		if i%5 == 0 {
			classes = append(append([]string{}, classes...), c18CmdCSVClasses...)
		}
		for _, class := range classes {
			op := c18GenCmdOpts(r, class)
			loose = !op.JI && r.Chance(0.2) // -ji: only the two byte comparisons are judged, they need one map order
			w := gen(op)
			loose = false
			if op.JI {
				// summaries of an earlier run over other files (default options), as -jo wrote them
				prev := gen(c18CmdDefaults())
				var paths []string
				for _, f := range prev.Files {
					p := filepath.Join(dir, "prev_"+f.Name)
					if err := os.WriteFile(p, []byte(f.Content), 0o644); err != nil {
						return err
					}
					paths = append(paths, p)
				}
				lib, err := c18CmdLib(c18CmdDefaults(), paths, "", nil, benchseries.DUPE_REPLACE, 0.95, 1000, true)
				if err != nil {
					return err
				}
				w.Old = string(lib.json)
			}
			if err := c18CmdCase(o, r, exe, dir, w); err != nil {
				return err
			}
		}
	}
	return nil
}
