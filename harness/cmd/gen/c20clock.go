package main

// C20, upload-ID allocation under a clock that does not behave: histories of
// DB.NewUpload at chosen clock readings (tagged hook db.VerifSetNow) where the
// reading is on an EARLIER UTC day than the newest upload (clock stepped back
// over midnight / a second front end whose clock is behind), in particular a
// day that already has upload .1; uploads with explicit IDs that appear out of
// order (DB.ReplaceUpload of an ABSENT id: the same day with a lower counter
// than the newest, an older day); every upload inserts 0-3 records and is
// committed or aborted.  After every step the result (ID or error) and the
// listing of all uploads (ID, number of records) are recorded.
// Judged on the observations alone: an ID handed out was never handed out
// before (by NewUpload or as an explicit ID), and after every step the listing
// is exactly the uploads committed so far with all their records - also after
// a failed or aborted NewUpload.  Model: Model/IdsHist.v.
// The calls go through two handles (db.OpenSQL twice) on the one database.
// Plus two "front ends" with skewed clocks at once: 8 goroutines allocate
// through the two handles on one file-backed database while the clock
// alternates between two days that both have uploads already.

import (
	"context"
	"fmt"
	"os"
	"path/filepath"
	"sync"
	"sync/atomic"
	"time"

	sbf "golang.org/x/perf/storage/benchfmt"
	"golang.org/x/perf/storage/db"
	"verifharness/internal/hx"
)

type c20ClockOp struct {
	Kind   string `json:"kind"`            // "new" (NewUpload at Clock) | "seed" (ReplaceUpload of the absent ID)
	Clock  string `json:"clock,omitempty"` // RFC3339 reading of the clock
	Day    int64  `json:"day,omitempty"`   // its UTC day as the number YYYYMMDD
	ID     string `json:"id,omitempty"`
	N      int    `json:"records"`
	Commit bool   `json:"commit"`
	FE     int    `json:"front_end,omitempty"` // which of the two handles (front ends) on the one database makes the call
}

type c20ClockIn struct {
	Kind    string       `json:"kind"` // id-history
	Pattern string       `json:"pattern"`
	Ops     []c20ClockOp `json:"ops"`
}

func c20DayNum(t time.Time) int64 {
	u := t.UTC()
	return int64(u.Year())*10000 + int64(u.Month())*100 + int64(u.Day())
}

var c20ClockZones = []int{0, 0, -5 * 3600, 9*3600 + 1800, 3600, -11 * 3600}

// a clock reading on UTC day [base + d days], shown in some zone (the local date may differ)
func c20Reading(r *hx.Rng, base time.Time, d int) time.Time {
	sec := []int{0, 1, 86399, 43200, 86340, 59}[r.Intn(6)]
	if r.Chance(0.3) {
		sec = r.Intn(86400)
	}
	t := base.AddDate(0, 0, d).Add(time.Duration(sec) * time.Second)
	return t.In(time.FixedZone("", c20ClockZones[r.Intn(len(c20ClockZones))]))
}

var c20ClockBases = []time.Time{
	time.Date(2026, 9, 30, 0, 0, 0, 0, time.UTC), time.Date(2025, 12, 31, 0, 0, 0, 0, time.UTC),
	time.Date(2024, 2, 28, 0, 0, 0, 0, time.UTC), time.Date(2026, 10, 9, 0, 0, 0, 0, time.UTC),
}

func c20GenClockHistory(r *hx.Rng, pattern int) c20ClockIn {
	base := c20ClockBases[r.Intn(len(c20ClockBases))]
	in := c20ClockIn{Kind: "id-history"}
	nrec := func() int {
		if r.Chance(0.1) {
			return 0
		}
		return 1 + r.Intn(3)
	}
	nw := func(d int) {
		t := c20Reading(r, base, d)
		fe := 0
		if (pattern == 1 && d == 0) || (pattern != 1 && r.Chance(0.3)) {
			fe = 1 // in the two-front-ends pattern the second front end is the one whose clock is behind
		}
		in.Ops = append(in.Ops, c20ClockOp{Kind: "new", Clock: t.Format(time.RFC3339), Day: c20DayNum(t), N: nrec(), Commit: r.Chance(0.7), FE: fe})
	}
	seeded := map[string]bool{}
	seed := func(d, seq int) {
		id := fmt.Sprintf("%d.%d", c20DayNum(base.AddDate(0, 0, d)), seq)
		if seeded[id] {
			return
		}
		seeded[id] = true
		in.Ops = append(in.Ops, c20ClockOp{Kind: "seed", ID: id, N: 1 + r.Intn(3), Commit: true})
	}
	switch pattern {
	case 0: // the clock steps back over midnight, twice: the earlier day gets .1, then has .1
		in.Pattern = "step-back-over-midnight"
		for i := r.Range(1, 3); i > 0; i-- {
			nw(1)
		}
		nw(0)
		for i := r.Range(0, 2); i > 0; i-- {
			nw(1)
		}
		nw(0)
		nw(0)
		nw(1)
		nw(2)
		nw(0)
	case 1: // two front ends, one a day behind, taking turns
		in.Pattern = "two-front-ends-skewed"
		for i := r.Range(4, 9); i > 0; i-- {
			nw(1)
			if r.Chance(0.8) {
				nw(0)
			}
		}
	case 2: // the earlier day already has uploads when the newer day starts
		in.Pattern = "earlier-day-has-uploads"
		for i := r.Range(1, 3); i > 0; i-- {
			nw(0)
		}
		for i := r.Range(1, 2); i > 0; i-- {
			nw(1)
		}
		for i := r.Range(1, 3); i > 0; i-- {
			nw(0)
		}
		nw(1)
	case 3: // explicit IDs out of order: the same day with a lower counter, an older day
		in.Pattern = "explicit-ids-lower-counter"
		seed(1, r.Range(3, 6))
		nw(1)
		seed(1, r.Range(1, 2))
		nw(1)
		nw(1)
		seed(0, r.Range(1, 3))
		nw(0)
		nw(0)
		nw(1)
	default:
		in.Pattern = "random"
		for i := r.Range(5, 12); i > 0; i-- {
			if r.Chance(0.2) {
				seed(r.Intn(3), r.Range(1, 4))
			} else {
				nw([]int{0, 1, 1, 0, 2}[r.Intn(5)])
			}
		}
	}
	return in
}

func c20ClockRecord(id string, i int) *sbf.Result {
	return &sbf.Result{
		Labels:     sbf.Labels{"upload": id, "i": fmt.Sprint(i)},
		NameLabels: sbf.Labels{"name": "X"},
		Content:    fmt.Sprintf("BenchmarkX 1 %d ns/op", i+1),
	}
}

func c20Listing(d *db.DB) (hx.Sx, int, error) {
	ul := d.ListUploads("", nil, 0)
	defer ul.Close()
	var out []hx.Sx
	for ul.Next() {
		inf := ul.Info()
		out = append(out, hx.L(hx.S(inf.UploadID), hx.I(inf.Count)))
	}
	if err := ul.Err(); err != nil {
		return hx.L(), 0, err
	}
	return hx.List(out), len(out), nil
}

// two handles (front ends) on one fresh file-backed database
func c20ClockDB(o *hx.Out, tag string) ([2]*db.DB, func(), error) {
	dir := os.Getenv("VERIF_WORK")
	if dir == "" {
		dir = os.TempDir()
	}
	path := filepath.Join(dir, fmt.Sprintf("c20%s_%d.sqlite", tag, o.Len()))
	os.Remove(path)
	var ds [2]*db.DB
	for i := range ds {
		d, err := db.OpenSQL("sqlite3", "file:"+path+"?_busy_timeout=5000&_synchronous=OFF&_txlock=immediate")
		if err != nil {
			return ds, nil, err
		}
		ds[i] = d
	}
	return ds, func() { ds[0].Close(); ds[1].Close(); os.Remove(path); os.Remove(path + "-journal") }, nil
}

func c20ClockCase(o *hx.Out, in c20ClockIn) error {
	ds, done, err := c20ClockDB(o, "clock")
	if err != nil {
		return err
	}
	defer done()
	d := ds[0]
	var ops []hx.Sx
	back, dup := false, 0
	maxDay := int64(0)
	haveOne := map[int64]bool{}
	used := map[string]bool{}
	var kept []c20ClockOp
	for _, op := range in.Ops {
		var u *db.Upload
		var err error
		if op.Kind == "seed" && used[op.ID] {
			// replacing an EXISTING upload is another operation (it drops that upload's records by design)
			o.Count("clock:explicit-id-already-present(skipped)")
			continue
		}
		switch op.Kind {
		case "new":
			t, e := time.Parse(time.RFC3339, op.Clock)
			if e != nil {
				return e
			}
			if op.Day < maxDay {
				back = true
				if haveOne[op.Day] {
					dup++
				}
			}
			restore := db.VerifSetNow(func() time.Time { return t })
			u, err = ds[op.FE%2].NewUpload(context.Background())
			restore()
			if op.FE%2 == 1 {
				o.Count("clock:NewUpload-through-second-handle")
			}
		default:
			u, err = ds[op.FE%2].ReplaceUpload(op.ID)
		}
		id := ""
		if err == nil {
			id = u.ID
			used[id] = true
			for i := 0; i < op.N && err == nil; i++ {
				err = u.InsertRecord(c20ClockRecord(id, i))
			}
			if err == nil && op.Commit {
				if err = u.Commit(); err != nil {
					u.Abort() // a failed Commit leaves the records transaction open
				}
			} else {
				u.Abort()
			}
			if err != nil { // the records were refused: recorded as an upload that was not committed
				o.Count("clock:records-refused")
				op.Commit = false
			}
			var day, seq int64
			if n, _ := fmt.Sscanf(id, "%d.%d", &day, &seq); n == 2 {
				if day > maxDay {
					maxDay = day
				}
				if seq == 1 {
					haveOne[day] = true
				}
			}
		}
		lst, _, e := c20Listing(d)
		if e != nil {
			return e
		}
		kind := 0
		if op.Kind == "seed" {
			kind = 1
		}
		kept = append(kept, op)
		ops = append(ops, hx.L(hx.I(kind), hx.Z(op.Day), hx.S(op.ID), hx.I(op.N), hx.Bool(op.Commit), hx.Bool(id != ""), hx.S(id), lst))
		if op.Kind == "new" {
			if id == "" {
				o.Count("clock:NewUpload=error")
			} else {
				o.Count("clock:NewUpload=id")
			}
		}
	}
	in.Ops = kept
	o.Count("clock:pattern=" + in.Pattern)
	if back {
		o.Count("clock:class:reading-on-earlier-day-than-newest-upload")
	}
	if dup > 0 {
		o.Count("clock:class:earlier-day-already-has-upload-.1")
	}
	o.Add(hx.L(hx.I(2), hx.List(ops)), in, fmt.Sprintf("clk%d", o.Len()), true)
	return nil
}

type c20SkewIn struct {
	Kind       string   `json:"kind"` // id-skewed-concurrent
	Days       []int64  `json:"days"`
	Seeds      []string `json:"seeds"`
	Goroutines int      `json:"goroutines"`
	Each       int      `json:"each"`
}

func c20SkewCase(o *hx.Out, r *hx.Rng, ngo, each int) error {
	ds, done, err := c20ClockDB(o, "skew")
	if err != nil {
		return err
	}
	defer done()
	d := ds[0]
	base := c20ClockBases[r.Intn(len(c20ClockBases))]
	t0, t1 := base.Add(86399*time.Second), base.AddDate(0, 0, 1).Add(time.Second)
	in := c20SkewIn{Kind: "id-skewed-concurrent", Days: []int64{c20DayNum(t0), c20DayNum(t1)}, Goroutines: ngo, Each: each}
	var seeds []hx.Sx
	for _, id := range []string{fmt.Sprintf("%d.1", in.Days[0]), fmt.Sprintf("%d.1", in.Days[1]), fmt.Sprintf("%d.2", in.Days[1])} {
		u, err := d.ReplaceUpload(id)
		if err != nil {
			return err
		}
		n := 1 + r.Intn(3)
		for i := 0; i < n; i++ {
			if err := u.InsertRecord(c20ClockRecord(id, i)); err != nil {
				return err
			}
		}
		if err := u.Commit(); err != nil {
			return err
		}
		in.Seeds = append(in.Seeds, id)
		seeds = append(seeds, hx.L(hx.S(id), hx.I(n)))
	}
	var tick int64
	restore := db.VerifSetNow(func() time.Time {
		if atomic.AddInt64(&tick, 1)%2 == 0 {
			return t0
		}
		return t1
	})
	per := make([][]hx.Sx, ngo)
	nerr := make([]int, ngo)
	var wg sync.WaitGroup
	for g := 0; g < ngo; g++ {
		wg.Add(1)
		go func(g int) {
			defer wg.Done()
			for i := 0; i < each; i++ {
				u, err := ds[g%2].NewUpload(context.Background())
				if err != nil {
					nerr[g]++
					continue
				}
				n := 0
				if (i+g)%3 != 0 {
					if u.InsertRecord(c20ClockRecord(u.ID, 0)) == nil && u.Commit() == nil {
						n = 1
					} else {
						u.Abort()
					}
				} else {
					u.Abort()
				}
				per[g] = append(per[g], hx.L(hx.S(u.ID), hx.I(n)))
			}
		}(g)
	}
	wg.Wait()
	restore()
	lst, _, err := c20Listing(d)
	if err != nil {
		return err
	}
	var persx []hx.Sx
	total, errs := 0, 0
	for g := range per {
		persx = append(persx, hx.List(per[g]))
		total += len(per[g])
		errs += nerr[g]
	}
	o.Count("clock:skewed-concurrent")
	o.Extra[fmt.Sprintf("ids_skewed_concurrent_%d", o.Len())] = map[string]int{"allocated": total, "errors": errs, "goroutines": ngo, "each": each}
	o.Add(hx.L(hx.I(3), hx.L(hx.Z(in.Days[0]), hx.Z(in.Days[1])), hx.List(seeds), hx.List(persx), hx.I(errs), lst), in,
		fmt.Sprintf("skew%d", o.Len()), true)
	return nil
}

func genC20Clock(o *hx.Out, r *hx.Rng, tier string) error {
	n, nskew, each := 120, 2, 25
	if tier == "thorough" {
		n, nskew, each = 3000, 10, 100
	}
	for i := 0; i < n; i++ {
		if err := c20ClockCase(o, c20GenClockHistory(r, i%5)); err != nil {
			return err
		}
	}
	for i := 0; i < nskew; i++ {
		if err := c20SkewCase(o, r, 8, each); err != nil {
			return err
		}
	}
	return nil
}
