package main

// C18, class "one unit several times on one result line": results that carry
// the SAME (tidied) unit twice or more with different values
// (`BenchmarkFoo 1 1 sec 4 B 3 sec`; `ns/op` next to `sec/op`, `MB/s` next to
// `B/s` once the reader has tidied them).  Every value of such a line is one
// measurement of its unit: the numerator / denominator sample of the cell must
// hold each of them, each once.
//
// Two sources, both case kind 2 (the result set is the list of (result, value)
// pairs, a repeated unit simply gives two pairs that differ in the value only;
// RunC18.series_prop compares every run with the declarative spec_series):
//   - results built directly (Builder.Add), every add order / random orders;
//   - files read through benchfmt.Files / Builder.AddFiles, so that the reader's
//     tidying makes the units coincide (the harness tidies its own reading:
//     ns/op -> sec/op x 1e-9, MB/s -> B/s x 1e6), every file order.

import (
	"fmt"
	"os"
	"strings"
	"time"

	"verifharness/internal/hx"
)

// unit lists with a repeated unit (as the builder sees them)
var c18DupLists = [][]string{
	{"sec", "B", "sec"},
	{"sec/op", "sec/op"},
	{"sec/op", "B/op", "sec/op"},
	{"B/op", "sec/op", "B/op", "sec/op"},
	{"sec/op", "sec/op", "sec/op"},
	{"sec", "sec", "B"},
	{"allocs/op", "sec/op", "allocs/op"},
}

// printed unit lists whose TIDIED units repeat
var c18DupPrinted = [][]string{
	{"sec", "B", "sec"},
	{"ns/op", "sec/op"},
	{"sec/op", "ns/op"},
	{"ns/op", "B/op", "ns/op"},
	{"ns/op", "B/op", "sec/op"},
	{"MB/s", "B/s"},
	{"sec/op", "ns/op", "sec/op"},
	{"ns/op", "MB/s", "sec/op", "B/s"},
}

func c18DupTidy(v float64, unit string) (float64, string) {
	switch unit {
	case "ns/op":
		return v * 1e-9, "sec/op"
	case "MB/s":
		return v * 1e6, "B/s"
	}
	return v, unit
}

// values of one line: pairwise different
func c18DupVals(r *hx.Rng, n int) []float64 {
	vals := make([]float64, n)
	for i := range vals {
	again:
		vals[i] = c18Val(r)
		for j := 0; j < i; j++ {
			if vals[j] == vals[i] {
				goto again
			}
		}
	}
	return vals
}

// a well-formed world whose results all carry a unit list with a repeated unit
func c18GenDupUnits(r *hx.Rng, tiny bool, first int) c18World {
	var w c18World
	w.Mut = "same-unit-twice-on-a-line"
	t0 := time.Date(2022, 1, 1, 21, 32, 12, 0, time.UTC)
	nH, nE, nB := 1+r.Intn(2), 1+r.Intn(2), 1+r.Intn(2)
	if tiny {
		w.Mut = "same-unit-twice-on-a-line-all-orders"
		nH, nE, nB = 1, 1, 1
	}
	table := []string{"", "linux"}[r.Intn(2)]
	sers := make([]string, nH)
	for i := range sers {
		sers[i] = c18Stamp(r, t0.AddDate(0, 0, i), r.Intn(4))
	}
	for ei := 0; ei < nE; ei++ {
		exp := c18Stamp(r, t0.AddDate(0, 1, ei), r.Intn(4))
		for bi := 0; bi < nB; bi++ {
			mk := func(role string, h int, units []string) {
				w.Results = append(w.Results, c18Result{Table: table, Bench: c18Benches[bi], Exp: exp, Ser: sers[h],
					Role: role, NH: fmt.Sprintf("h%d", h), DH: "d0", Units: units, Vals: c18DupVals(r, len(units))})
			}
			lists := [][]string{c18DupLists[r.Intn(len(c18DupLists))]}
			if ei == 0 && bi == 0 {
				lists[0] = c18DupLists[first%len(c18DupLists)] // walk through the pool
			}
			if !tiny && r.Chance(0.4) {
				lists = append(lists, c18DupLists[r.Intn(len(c18DupLists))])
			}
			for _, l := range lists {
				mk("den", 0, l)
			}
			if tiny && r.Bool() {
				mk("den", 0, lists[0])
			}
			for h := 0; h < nH; h++ {
				for _, l := range lists {
					mk("num", h, l)
				}
				if r.Chance(0.3) {
					mk("num", h, lists[r.Intn(len(lists))])
				}
			}
		}
	}
	return w
}

// files (one experiment each) whose result lines print unit lists that repeat
// after tidying; all builder keys are set by every file
func c18GenDupFilesWorld(r *hx.Rng, first int) c18FilesWorld {
	var w c18FilesWorld
	t0 := time.Date(2022, 1, 1, 21, 32, 12, 0, time.UTC)
	nF := 2 + r.Intn(2)
	sers := make([]string, 4)
	for i := range sers {
		sers[i] = c18Stamp(r, t0.AddDate(0, 0, i), r.Intn(4))
	}
	benches := []string{"Foo", "Bar/x=1"}[:1+r.Intn(2)]
	shared := r.Bool() // the files measure the same series points (COMBINE merges them)
	var kinds []string
	for fi := 0; fi < nF; fi++ {
		var f c18File
		f.Name = fmt.Sprintf("dup%d.txt", fi)
		printed := c18DupPrinted[r.Intn(len(c18DupPrinted))]
		if fi == 0 {
			// the first file walks through the pool, so that `1 sec 4 B 3 sec` and
			// `ns/op` next to `sec/op` occur in every run
			printed = c18DupPrinted[first%len(c18DupPrinted)]
		}
		kinds = append(kinds, strings.Join(printed, "+"))
		exp := c18Stamp(r, t0.AddDate(0, 1, fi), r.Intn(4))
		var b strings.Builder
		fmt.Fprintf(&b, "goos: linux\nrunstamp: %s\ndh: d0\ncpu: Z80\n", exp)
		cfg := map[string]string{"goos": "linux", "runstamp": exp, "dh": "d0"}
		set := func(k, v string) {
			fmt.Fprintf(&b, "%s: %s\n", k, v)
			cfg[k] = v
		}
		emit := func(k int) {
			b.WriteString("\n")
			for _, bn := range benches {
				for j := 0; j < k; j++ {
					raw := c18DupVals(r, len(printed))
					units := make([]string, len(printed))
					vals := make([]float64, len(printed))
					fmt.Fprintf(&b, "Benchmark%s %d", bn, 1+r.Intn(100))
					for i, u := range printed {
						fmt.Fprintf(&b, " %v %s", raw[i], u)
						vals[i], units[i] = c18DupTidy(raw[i], u)
					}
					b.WriteString("\n")
					f.results = append(f.results, c18Result{Table: cfg["goos"], Bench: bn, Exp: cfg["runstamp"], Ser: cfg["ser"],
						Role: cfg["role"], NH: cfg["nh"], DH: cfg["dh"], Units: units, Vals: vals})
				}
			}
		}
		h0 := 0
		if !shared {
			h0 = fi % 2 * 2
		}
		nh := 1 + r.Intn(2)
		set("nh", fmt.Sprintf("h%d", h0))
		set("ser", sers[h0])
		set("role", "den")
		emit(1 + r.Intn(2))
		for k := 0; k < nh; k++ {
			b.WriteString("\n")
			set("role", "num")
			set("nh", fmt.Sprintf("h%d", h0+k))
			set("ser", sers[h0+k])
			emit(1 + r.Intn(2))
		}
		f.Content = b.String()
		w.Files = append(w.Files, f)
	}
	w.Kind = "same-tidied-unit-twice-on-a-line: " + strings.Join(kinds, " | ")
	return w
}

// number of (result, unit) pairs in which the unit occurs more than once on the line
func c18DupCount(results []c18Result) (lines, differing int) {
	for _, c := range results {
		seen := map[string]float64{}
		dup, diff := false, false
		for i, u := range c.Units {
			if v, ok := seen[u]; ok {
				dup = true
				if v != c.Vals[i] {
					diff = true
				}
			}
			seen[u] = c.Vals[i]
		}
		if dup {
			lines++
		}
		if diff {
			differing++
		}
	}
	return
}

func c18GenDupCases(o *hx.Out, r *hx.Rng, tier string) error {
	// quick tier: 15 cases in all, appended AFTER every other class: the evenly
	// spaced cross-check sample (hx.Out.Flush: every (n/24+1)-th case) keeps its
	// stride of 129 up to 3095 cases and so its cheap series cases (see c18inc.go)
	nw, ntiny, nf, norders := 6, 3, 6, 12
	if tier == "thorough" {
		nw, ntiny, nf, norders = 250, 100, 250, 20
	}
	count := func(src string, results []c18Result) {
		l, d := c18DupCount(results)
		o.Count(fmt.Sprintf("dup-unit:%s lines-with-repeated-unit>0:%v all-with-different-values:%v", src, l > 0, l == d))
	}
	for i := 0; i < nw; i++ {
		w := c18GenDupUnits(r, false, i)
		count("direct", w.Results)
		c18SeriesCase(o, r, w, norders)
	}
	for i := 0; i < ntiny; i++ {
		w := c18GenDupUnits(r, true, i)
		if len(w.Results) > 4 {
			w.Results = w.Results[:4]
		}
		count("direct-all-orders", w.Results)
		c18SeriesCase(o, r, w, -1)
	}
	dir, err := os.MkdirTemp(os.Getenv("VERIF_WORK"), "c18dup")
	if err != nil {
		return err
	}
	defer os.RemoveAll(dir)
	for i := 0; i < nf; i++ {
		w := c18GenDupFilesWorld(r, i)
		var all []c18Result
		for _, f := range w.Files {
			all = append(all, f.results...)
		}
		count("files", all)
		o.Count("dup-unit:files first-file-prints " + strings.SplitN(strings.SplitN(w.Kind, ": ", 2)[1], " | ", 2)[0])
		if err := c18FilesCase(o, r, dir, w); err != nil {
			return err
		}
	}
	return nil
}
