package main

// C08: live result sources. The random streams of c08.go hand the code a
// freshly built *benchfmt.Result per call; real callers project the Reader's
// own Result, which the Reader mutates IN PLACE from one result to the next
// (cfg.Value = append(cfg.Value[:0], val...): a new value of the same byte
// length lands in the same bytes), or a Result they edit through the API
// (values modified in place, SetConfig). The sources below reproduce both; the
// stream shipped to the model is the sequence of snapshots of the live Result
// taken at each position, so model and specification predicates see exactly
// what the code was given at the time of the call.

import (
	"fmt"
	"strings"

	"golang.org/x/perf/benchfmt"
	"verifharness/internal/hx"
)

// pxSource supplies the Result to project at position si of the stream;
// positions are asked for in non-decreasing order.
type pxSource interface {
	at(si int) (*benchfmt.Result, error)
}

type pxEdit struct {
	Op    string   `json:"op"` // value (in place) | setconfig | name | units
	Key   string   `json:"key,omitempty"`
	Val   string   `json:"val,omitempty"`
	Units []string `json:"units,omitempty"`
}

// pxSrcSpec is the replayable description of a live source.
type pxSrcSpec struct {
	Kind   string     `json:"kind"`             // "reader" | "edit"
	Text   string     `json:"text,omitempty"`   // reader: the benchmark file
	Init   *pxResult  `json:"init,omitempty"`   // edit: the struct literal the Result starts as
	Script [][]pxEdit `json:"script,omitempty"` // edit: the edits leading to position i (Script[0] empty)
}

func (s *pxSrcSpec) open() pxSource {
	switch s.Kind {
	case "reader":
		return &pxReaderSrc{rd: benchfmt.NewReader(strings.NewReader(s.Text), "gen.txt"), cur: -1}
	default:
		return &pxEditSrc{spec: s, cur: -1}
	}
}

func pxSnapshot(res *benchfmt.Result) pxResult {
	out := pxResult{Name: string(res.Name)}
	for _, c := range res.Config {
		kind := "internal"
		if c.File {
			kind = "file"
		}
		out.Config = append(out.Config, [3]string{c.Key, string(c.Value), kind})
	}
	for _, v := range res.Values {
		out.Units = append(out.Units, v.Unit)
	}
	return out
}

func pxSameResult(a, b pxResult) bool {
	if a.Name != b.Name || len(a.Config) != len(b.Config) || len(a.Units) != len(b.Units) {
		return false
	}
	for i := range a.Config {
		if a.Config[i] != b.Config[i] {
			return false
		}
	}
	for i := range a.Units {
		if a.Units[i] != b.Units[i] {
			return false
		}
	}
	return true
}

// ---------- the Reader's own Result, not cloned ----------

type pxReaderSrc struct {
	rd  *benchfmt.Reader
	cur int
	res *benchfmt.Result
}

func (s *pxReaderSrc) at(si int) (*benchfmt.Result, error) {
	for s.cur < si {
		if !s.rd.Scan() {
			return nil, fmt.Errorf("reader source: input ends before result %d (%v)", si, s.rd.Err())
		}
		if res, ok := s.rd.Result().(*benchfmt.Result); ok {
			s.cur++
			s.res = res // NOT res.Clone()
		}
	}
	return s.res, nil
}

// pxReadAll: the snapshots of all results of text.
func pxReadAll(text string) ([]pxResult, error) {
	rd := benchfmt.NewReader(strings.NewReader(text), "gen.txt")
	var out []pxResult
	for rd.Scan() {
		switch rec := rd.Result().(type) {
		case *benchfmt.Result:
			out = append(out, pxSnapshot(rec))
		case *benchfmt.SyntaxError:
			return nil, fmt.Errorf("generated benchmark text does not parse: %v", rec)
		}
	}
	return out, rd.Err()
}

// ---------- one Result edited through the API ----------

type pxEditSrc struct {
	spec *pxSrcSpec
	cur  int
	res  *benchfmt.Result
}

func pxApplyEdit(res *benchfmt.Result, e pxEdit) error {
	switch e.Op {
	case "value": // "callers ... may modify values in place"
		pos, ok := res.ConfigIndex(e.Key)
		if !ok {
			return fmt.Errorf("edit source: no key %q to modify", e.Key)
		}
		cfg := &res.Config[pos]
		if len(cfg.Value) == len(e.Val) {
			copy(cfg.Value, e.Val)
		} else {
			cfg.Value = append(cfg.Value[:0], e.Val...)
		}
	case "setconfig":
		res.SetConfig(e.Key, e.Val)
	case "name":
		res.Name = append(res.Name[:0], e.Val...)
	case "units":
		res.Values = res.Values[:0]
		for i, u := range e.Units {
			res.Values = append(res.Values, benchfmt.Value{Value: float64(i + 1), Unit: u})
		}
	default:
		return fmt.Errorf("edit source: unknown edit %q", e.Op)
	}
	return nil
}

func (s *pxEditSrc) at(si int) (*benchfmt.Result, error) {
	if s.res == nil {
		s.res = pxMkResult(s.spec.Init)
	}
	for s.cur < si {
		s.cur++
		if s.cur >= len(s.spec.Script) {
			return nil, fmt.Errorf("edit source: no script for position %d", s.cur)
		}
		for _, e := range s.spec.Script[s.cur] {
			if err := pxApplyEdit(s.res, e); err != nil {
				return nil, err
			}
		}
	}
	return s.res, nil
}

// pxEditAll: the snapshots of the Result after each step of the script.
func pxEditAll(spec *pxSrcSpec) ([]pxResult, error) {
	src := &pxEditSrc{spec: spec, cur: -1}
	var out []pxResult
	for i := range spec.Script {
		res, err := src.at(i)
		if err != nil {
			return nil, err
		}
		out = append(out, pxSnapshot(res))
	}
	return out, nil
}

// ---------- families ----------

// values of equal byte length per key: the in-place overwrite keeps pointer
// and length of cfg.Value
var c08SameLen = map[string][]string{
	"goarch": {"amd64", "arm64", "wasm3", "mips6"},
	"goos":   {"linux", "plan9", "haiku"},
	"pkg":    {"p/q", "p/r", "q/r"},
	"commit": {"abc123", "abd124", "f00ba7"},
	"cpu":    {"i7 4GHz", "i9 5GHz", "m1 3GHz"},
	"k1":     {"v1", "v2", "w1"},
	"k2":     {"v1", "v2", "w1"},
	"é":      {"é1", "é2"},
	"note":   {"x y", "x z", "a b"},
	"tool":   {"t1", "t2"},
}

// values of other lengths
var c08OtherLen = map[string][]string{
	"goarch": {"386", "riscv64"},
	"goos":   {"darwin", "js"},
	"pkg":    {"p", "p/q/r"},
	"commit": {"f00", "deadbeef"},
	"cpu":    {"m1", "i7 4.2GHz"},
	"k1":     {"v", "v10"},
	"k2":     {"v", "v10"},
	"é":      {"e", "ééé"},
	"note":   {"x", "x y z"},
	"tool":   {"t", "t10"},
}

func c08OtherVal(r *hx.Rng, key, cur string, sameLen bool) string {
	pool := c08OtherLen[key]
	if sameLen {
		pool = c08SameLen[key]
	}
	for i := 0; i < 8; i++ {
		if v := r.Pick(pool); v != cur {
			return v
		}
	}
	return pool[0]
}

// expression sets for the live families: .config (alone, with neighbours, with
// .unit) and/or the residue carry the file configuration as a group, one or two
// file keys are sometimes projected individually (the extractor hands out a
// view into cfg.Value).
func c08LiveExprs(r *hx.Rng, pl *pxPools, keys []string) []*pxExpr {
	var es []*pxExpr
	switch r.Intn(6) {
	case 0:
		es = append(es, pxE(false, r, pxFirst(".config")))
	case 1:
		es = append(es, pxE(r.Chance(0.3), r, pxFirst(".config"), pxFirst(".fullname")))
	case 2:
		es = append(es, pxE(false, r, pxFirst(keys[0]))) // the residue holds .config minus keys[0]
	case 3:
		es = append(es, pxE(false, r, pxFirst(keys[0]), pxFirst(".config")))
	case 4:
		es = append(es, pxE(true, r, pxFirst(".config")))
	default:
		es = append(es, pxE(false, r, pxFirst(".fullname"))) // the residue is .config alone
	}
	if r.Chance(0.4) {
		es = append(es, pxE(r.Chance(0.2), r, pxSpec{Key: keys[1], Order: r.Pick([]string{"first", "alpha"})}))
	}
	for i, n := 0, r.Intn(2); i < n; i++ {
		es = append(es, pl.expr(r))
	}
	return es
}

func c08Perms(r *hx.Rng, n int) [][]int {
	if n > 3 {
		return pxSomePerms(r, n, 4)
	}
	return pxAllPerms(n)
}

var c08LiveNames = []string{"Fib", "Fib-8", "Sort/a=1", "Sort/a=2", "Sort/a=1-8", "Sort/a=2-8", "X/size=1", "X/size=2", "Fib-4", "Fob"}

// (C08-c) results projected straight from a benchfmt.Reader without Clone.
func c08Reader(o *hx.Out, r *hx.Rng, pl *pxPools) error {
	keys := pxShuffled(r, []string{"goarch", "goos", "pkg", "commit", "cpu", "k1", "k2", "é", "note"})
	nk := r.Range(2, 5)
	cur := map[string]string{}
	var b strings.Builder
	for _, k := range keys[:nk] {
		cur[k] = r.Pick(c08SameLen[k])
		fmt.Fprintf(&b, "%s: %s\n", k, cur[k])
	}
	unitSets := []string{"10 ns/op", "10 ns/op 5 B/op", "10 ns/op 5 B/op 1 allocs/op", "3 MB/s 10 ns/op"}
	name := r.Pick(c08LiveNames)
	same, other, del := 0, 0, 0
	n := r.Range(6, 18)
	for i := 0; i < n; i++ {
		if i > 0 {
			// between consecutive results: mostly ONE file key changes to another
			// value of the same length
			for e, ne := 0, []int{1, 1, 2}[r.Intn(3)]; e < ne; e++ {
				k := keys[r.Intn(nk)]
				switch x := r.Intn(20); {
				case x < 13:
					if v, ok := cur[k]; ok && len(v) == len(c08SameLen[k][0]) {
						cur[k] = c08OtherVal(r, k, v, true)
						same++
					} else {
						cur[k] = r.Pick(c08SameLen[k])
					}
					fmt.Fprintf(&b, "%s: %s\n", k, cur[k])
				case x < 16:
					cur[k] = c08OtherVal(r, k, cur[k], false)
					other++
					fmt.Fprintf(&b, "%s: %s\n", k, cur[k])
				case x < 17:
					delete(cur, k)
					del++
					fmt.Fprintf(&b, "%s:\n", k)
				case x < 18 && nk < len(keys):
					k = keys[nk] // a key nobody has seen
					nk++
					cur[k] = r.Pick(c08SameLen[k])
					fmt.Fprintf(&b, "%s: %s\n", k, cur[k])
				default:
					// no configuration change: the same result again
				}
			}
			if r.Chance(0.25) {
				name = r.Pick(c08LiveNames)
			}
		}
		fmt.Fprintf(&b, "Benchmark%s 1 %s\n", name, r.Pick(unitSets))
		if r.Chance(0.15) {
			b.WriteString("PASS\n\n")
		}
	}
	text := b.String()
	st, err := pxReadAll(text)
	if err != nil {
		return err
	}
	if len(st) != n {
		return fmt.Errorf("reader family: %d results read, %d written", len(st), n)
	}
	es := c08LiveExprs(r, pl, keys)
	o.Count("live reader family (Reader's own Result, no Clone)")
	o.Count("live reader family: same-length value changes per case=" + pxBucket(same))
	o.Count("live reader family: other-length value changes per case=" + pxBucket(other))
	o.Count("live reader family: deletions per case=" + pxBucket(del))
	return pxProtoCaseSrc(o, r, es, st, c08Perms(r, len(es)), false, &pxSrcSpec{Kind: "reader", Text: text})
}

// (C08-c) one Result edited in place through the API between projections.
func c08Edit(o *hx.Out, r *hx.Rng, pl *pxPools) error {
	keys := pxShuffled(r, []string{"goarch", "goos", "pkg", "commit", "cpu", "k1", "k2", "é", "note"})
	nk := r.Range(2, 5)
	init := &pxResult{Name: r.Pick(c08LiveNames), Units: []string{"sec/op"}}
	for _, k := range keys[:nk] {
		init.Config = append(init.Config, [3]string{k, r.Pick(c08SameLen[k]), "file"})
	}
	spec := &pxSrcSpec{Kind: "edit", Init: init, Script: [][]pxEdit{nil}}
	// the evolving state is read back from the real Result, so the script can
	// only refer to keys that exist
	live := &pxEditSrc{spec: spec, cur: -1}
	same, other, internal := 0, 0, 0
	n := r.Range(6, 18)
	for i := 1; i < n; i++ {
		res, err := live.at(i - 1)
		if err != nil {
			return err
		}
		now := pxSnapshot(res)
		var step []pxEdit
		for e, ne := 0, []int{1, 1, 2}[r.Intn(3)]; e < ne && len(now.Config) > 0; e++ {
			c := now.Config[r.Intn(len(now.Config))]
			k := c[0]
			switch x := r.Intn(20); {
			case x < 12:
				v := c08OtherVal(r, k, c[1], len(c[1]) == len(c08SameLen[k][0]))
				if len(v) == len(c[1]) {
					same++
				}
				step = append(step, pxEdit{Op: "value", Key: k, Val: v})
			case x < 14:
				step = append(step, pxEdit{Op: "value", Key: k, Val: c08OtherVal(r, k, c[1], false)})
				other++
			case x < 15:
				step = append(step, pxEdit{Op: "setconfig", Key: k, Val: c08OtherVal(r, k, c[1], true)}) // now internal
				internal++
			case x < 16:
				step = append(step, pxEdit{Op: "setconfig", Key: k, Val: ""}) // deleted
				e = ne                                                        // (the snapshot is stale now)
			case x < 17:
				step = append(step, pxEdit{Op: "setconfig", Key: "tool", Val: r.Pick([]string{"t1", "t2"})})
				internal++
			case x < 18:
				step = append(step, pxEdit{Op: "name", Val: r.Pick(c08LiveNames)})
			case x < 19:
				step = append(step, pxEdit{Op: "units", Units: [][]string{{"sec/op"}, {"sec/op", "B/op"}, {"B/op"}}[r.Intn(3)]})
			default:
				// nothing: the same result again
			}
		}
		spec.Script = append(spec.Script, step)
	}
	st, err := pxEditAll(spec)
	if err != nil {
		return err
	}
	es := c08LiveExprs(r, pl, keys)
	o.Count("live edit family (one Result modified in place / SetConfig)")
	o.Count("live edit family: same-length in-place changes per case=" + pxBucket(same))
	o.Count("live edit family: other-length changes per case=" + pxBucket(other))
	o.Count("live edit family: SetConfig (internal) per case=" + pxBucket(internal))
	return pxProtoCaseSrc(o, r, es, st, c08Perms(r, len(es)), false, spec)
}
