package main

// Round-4 gap classes of C16 / C10 (benchtab and texttab rendering):
//
//   - row scale (kind 6 of C16, kind 4 of C10): per real benchtab.Table the text
//     Table.ToText wrote and, per row, the centres (Summary.Center as float64
//     bits) of the cells; rows whose smallest non-zero |centre| is NEGATIVE, rows
//     of negative cells only, rows mixing zero, negative and positive centres.
//     The printed centres are read from the text by the evaluator and judged by
//     the C10 shared-scale clause.
//   - spanning header cells starting in a column with a non-empty left margin
//     whose text is about as long as the room after the margin (label length =
//     width of the columns below - margin + d, d in -2..+5): texttab call
//     sequences (kind 0) and real benchstat runs with file labels of the
//     computed length (kinds 2, 3, 4, 5).
//   - one Tables.ToText / ToCSV over consecutive tables with the same number of
//     columns, the same first and last column key and different keys in between.

import (
	"bytes"
	"fmt"
	"math"
	"os"
	"strconv"
	"strings"
	"unicode/utf8"

	"golang.org/x/perf/benchfmt"
	"golang.org/x/perf/benchmath"
	"golang.org/x/perf/benchproc"
	"golang.org/x/perf/benchunit"
	vb "golang.org/x/perf/cmd/benchstat/verifbridge"
	"verifharness/internal/hx"
)

// ---------- row scale: negative / mixed-sign rows through the table renderer ----------

type c16RowsIn struct {
	Kind  string  `json:"kind"`
	Class string  `json:"class"`
	Input bsInput `json:"input"`
}

// c16RowScaleCase records, for every table of a run, the unit, the text
// Table.ToText wrote and per row: whether the scale RowScaler chose is the one
// CommonScale gives the least non-zero |centre| alone, and the centres of the
// row's cells (missing cells as ()).
func c16RowScaleCase(o *hx.Out, kindNo int, tabs *vb.Tables, in bsInput, class string) error {
	if len(tabs.Tables) == 0 {
		return nil
	}
	var tx []hx.Sx
	var tags []string
	addTag := func(tag string) {
		for _, t := range tags {
			if t == tag {
				return
			}
		}
		tags = append(tags, tag)
	}
	negMin, allNeg, mixed, interesting := 0, 0, 0, false
	for _, t := range tabs.Tables {
		var text bytes.Buffer
		if err := t.ToText(&text, false); err != nil {
			return err
		}
		cls := benchunit.ClassOf(t.Unit)
		var rows []hx.Sx
		for _, rk := range t.Rows {
			var cells []hx.Sx
			var present []float64
			mn, mnSigned := 0.0, 0.0
			nneg, npos, nzero, n := 0, 0, 0, 0
			for _, ck := range t.Cols {
				cell, ok := t.Cells[vb.TableKey{Row: rk, Col: ck}]
				if !ok {
					cells = append(cells, hx.L())
					continue
				}
				c := cell.Summary.Center
				cells = append(cells, hx.L(hx.F64(c)))
				present = append(present, c)
				n++
				switch {
				case c < 0:
					nneg++
				case c > 0:
					npos++
				default:
					nzero++
				}
				if a := math.Abs(c); a != 0 && (mn == 0 || a < mn) {
					mn, mnSigned = a, c
				}
			}
			// known findings of C10, recognised from the row's centres and the unit
			// alone (c10.go): the rounding of the quotient showing in a printed centre,
			// bytes spelled in a way ClassOf does not know
			specCls := 0
			for _, tok := range c10NumeratorTokens(t.Unit) {
				if tok == "B" || tok == "MB" || tok == "bytes" {
					specCls = 1
				}
			}
			if c10QuotientRounded(present, specCls) {
				addTag("C10_quotient_rounded_before_printing")
			}
			if c10ClassSpelling(t.Unit) {
				addTag("C10_classof_byte_spellings")
			}
			sc := t.RowScaler(rk, cls)
			ref := benchunit.CommonScale([]float64{mn}, cls)
			rows = append(rows, hx.L(hx.Bool(sc == ref), hx.List(cells)))
			if mnSigned < 0 {
				negMin++
				interesting = true
			}
			if n > 0 && nneg == n {
				allNeg++
			}
			if nneg > 0 && npos > 0 && nzero > 0 {
				mixed++
			}
		}
		tx = append(tx, hx.L(hx.S(t.Unit), hx.S(text.String()), hx.List(rows)))
	}
	o.Count("rowscale:" + class)
	if negMin > 0 {
		o.Count("rowscale:has-row-with-negative-least-magnitude")
	}
	if allNeg > 0 {
		o.Count("rowscale:has-all-negative-row")
	}
	if mixed > 0 {
		o.Count("rowscale:has-row-zero+negative+positive")
	}
	o.Add(hx.L(hx.I(kindNo), hx.List(tx)), c16RowsIn{Kind: "row-scale", Class: class, Input: in},
		"rowscale:"+fmt.Sprint(in), interesting, tags...)
	return nil
}

var c16NegUnits = []string{"ns/op", "B/op", "MB/s", "widgets", "sec/op", "allocs/op", "bytes", "ns/frob"}

// a magnitude with 3-6 significant digits somewhere in the prefix range of the unit
func c16NegMag(r *hx.Rng, unit string) float64 {
	m := float64(r.Range(1000, 999999))
	switch r.Intn(4) {
	case 0:
		m = float64(r.Range(1, 999)) // few digits: 3, 250, 512
	case 1:
		m = float64(int(1) << uint(r.Intn(30))) // powers of two: 2048, 8 Mi
	}
	lo, hi := -3, 9
	switch unit {
	case "ns/op", "ns/frob":
		lo, hi = -4, 8 // 1e-13 .. 1e5 sec
	case "sec/op":
		lo, hi = -12, 3
	case "B/op", "bytes", "allocs/op":
		lo, hi = -3, 7
	}
	return m * math.Pow(10, float64(r.Range(lo, hi)))
}

func c16G(v float64) string { return strconv.FormatFloat(v, 'g', -1, 64) }

// c16GenNegRows: 2-4 files (columns) x 1-5 benchmarks (rows) x 1-2 units; every
// row follows one of the sign patterns below; 1-3 samples per cell, equal or
// within a few percent (same sign), so that the centre keeps the pattern.
func c16GenNegRows(r *hx.Rng) (bsInput, bsFlags, string) {
	nf := r.Range(2, 4)
	nb := r.Range(1, 5)
	units := []string{c16NegUnits[r.Intn(len(c16NegUnits))]}
	if r.Chance(0.4) {
		if u := c16NegUnits[r.Intn(len(c16NegUnits))]; u != units[0] {
			units = append(units, u)
		}
	}
	names := []string{"Neg", "Enc/fmt=json", "Dec-8", "Sum/n=10", "Zip"}[:nb]
	patterns := []string{"min-neg", "all-neg", "mixed", "min-neg", "all-neg-equal", "zero+neg", "pos"}
	class := patterns[r.Intn(len(patterns)-1)] // the class of the first row; the others are drawn per row
	// centre per (bench, unit, file)
	type key struct{ b, u, f int }
	centre := map[key]float64{}
	for b := 0; b < nb; b++ {
		pat := class
		if b > 0 {
			pat = patterns[r.Intn(len(patterns))]
		}
		for u, unit := range units {
			base := c16NegMag(r, unit)
			// the file holding the least magnitude
			fmin := r.Intn(nf)
			for f := 0; f < nf; f++ {
				big := base * []float64{1.5, 3, 40, 1575.38, 1e3, 2.5e6, 1 << 22}[r.Intn(7)]
				var c float64
				switch pat {
				case "min-neg": // the least magnitude is negative, the others larger, of either sign
					c = big
					if f == fmin {
						c = -base
					} else if r.Chance(0.3) {
						c = -big
					}
				case "all-neg":
					c = -big
					if f == fmin {
						c = -base
					}
				case "all-neg-equal":
					c = -base
				case "mixed": // zero, negative and positive centres
					switch {
					case f == fmin:
						c = -base
					case f == (fmin+1)%nf:
						c = 0
					default:
						c = big
					}
				case "zero+neg":
					c = 0
					if f == fmin {
						c = -base
					}
				default:
					c = big
					if f == fmin {
						c = base
					}
				}
				centre[key{b, u, f}] = c
			}
		}
	}
	var in bsInput
	for f := 0; f < nf; f++ {
		var sb strings.Builder
		for b, name := range names {
			if nf > 2 && r.Chance(0.1) {
				continue // missing cell
			}
			ns := r.Range(1, 3)
			equal := r.Chance(0.5)
			for s := 0; s < ns; s++ {
				fmt.Fprintf(&sb, "Benchmark%s %d", name, r.Range(1, 100))
				for u, unit := range units {
					c := centre[key{b, u, f}]
					v := c
					if !equal && ns == 3 && s != 1 {
						// three samples: the median stays c
						v = c * (1 + float64(s-1)*float64(r.Range(1, 5))/100)
						if c < 0 { // keep the order of the samples around the median
							v = c * (1 - float64(s-1)*float64(r.Range(1, 5))/100)
						}
					}
					fmt.Fprintf(&sb, " %s %s", c16G(v), unit)
				}
				sb.WriteString("\n")
			}
		}
		in.Files = append(in.Files, bsFile{Name: fmt.Sprintf("f%d.txt", f), Label: []string{"old", "new", "exp", "tip"}[f], Content: sb.String()})
	}
	fl := bsFlags{alpha: -1, confidence: -1}
	in.Flags = fl.args()
	return in, fl, class
}

// the examples named in the gap description
func c16NegWitnesses() []bsInput {
	mk := func(unit string, rows ...[]string) bsInput {
		var in bsInput
		nf := len(rows[0])
		for f := 0; f < nf; f++ {
			var sb strings.Builder
			for b, row := range rows {
				if row[f] == "" {
					continue
				}
				fmt.Fprintf(&sb, "BenchmarkR%d 1 %s %s\nBenchmarkR%d 1 %s %s\n", b, row[f], unit, b, row[f], unit)
			}
			in.Files = append(in.Files, bsFile{Name: fmt.Sprintf("f%d.txt", f), Label: []string{"old", "new", "exp"}[f], Content: sb.String()})
		}
		return in
	}
	return []bsInput{
		mk("widgets", []string{"-3.25", "5120"}, []string{"5120", "-3.25"}, []string{"0", "-3.25", "5120"}[:2]),
		mk("B/op", []string{"-2048", "8388608"}, []string{"-2048", "-8388608"}),
		mk("ns/op", []string{"-250", "-250", "-250"}, []string{"-250", "0", "250000"}, []string{"-0.5", "", "-1e6"}),
		mk("sec/op", []string{"-250e-9", "-250e-9"}, []string{"0", "-1.5e-3"}),
	}
}

func c16RunRowScale(o *hx.Out, dir string, in bsInput, fl bsFlags, kindNo int, class string) (*bsRun, error) {
	if err := writeBsFiles(dir, in); err != nil {
		return nil, err
	}
	run := runBenchstatInProc(dir, in, fl)
	if run.err != nil {
		o.Count("rowscale:pipeline-error")
		return nil, nil
	}
	return run, c16RowScaleCase(o, kindNo, run.tables, in, class)
}

// c16GenRowScale: the row-scale cases of one property (kind number differs
// between C16 and C10); with whole (C16) also the text/CSV and whole-run cases
// of every third input.
func c16GenRowScale(o *hx.Out, r *hx.Rng, tier string, dir string, kindNo int, whole bool) error {
	fl0 := bsFlags{alpha: -1, confidence: -1}
	for _, w := range c16NegWitnesses() {
		w.Flags = fl0.args()
		if _, err := c16RunRowScale(o, dir, w, fl0, kindNo, "witness"); err != nil {
			return err
		}
		if whole {
			if err := c16RunTextCSV(o, dir, w, fl0); err != nil {
				return err
			}
		}
	}
	n := 150
	if tier == "thorough" {
		n = 4000
	}
	for i := 0; i < n; i++ {
		in, fl, class := c16GenNegRows(r.Split())
		if _, err := c16RunRowScale(o, dir, in, fl, kindNo, class); err != nil {
			return err
		}
		if whole && i%3 == 0 {
			if err := c16RunTextCSV(o, dir, in, fl); err != nil {
				return err
			}
		}
	}
	// the generic benchstat inputs as controls (positive rows, more flags)
	nc := 40
	if tier == "thorough" {
		nc = 800
	}
	for i := 0; i < nc; i++ {
		in, fl := genBsInput(r.Split())
		if _, err := c16RunRowScale(o, dir, in, fl, kindNo, "generic"); err != nil {
			return err
		}
	}
	return nil
}

// ---------- spanning header cells over a margin: label about as long as the room ----------

// c16Label is a text of exactly n runes (n >= 1) without blanks at its ends.
func c16Label(r *hx.Rng, n int) string {
	if n < 1 {
		n = 1
	}
	alphabet := []string{"a", "b", "x", "o", "l", "d", ".", "/", "t", "é", "0", "7", "-", "_"}
	var sb strings.Builder
	for i := 0; i < n; i++ {
		if i > 0 && i < n-1 && r.Chance(0.05) {
			sb.WriteString(" ")
			continue
		}
		sb.WriteString(alphabet[r.Intn(len(alphabet))])
	}
	return sb.String()
}

// rune offsets of "│" in a line
func c16Bars(line string) []int {
	var bs []int
	i := 0
	for _, c := range line {
		if c == '│' {
			bs = append(bs, i)
		}
		i++
	}
	return bs
}

var c16Deltas = []int{-2, -1, 0, 1, 2, 3, 4, 5}

// c16MarginBenchstat: the shape benchtab.ToText builds (label column, per
// experiment 3 centre columns and 3 delta columns, all but the first of a group
// shrink columns, every header cell centred with margin " │ "), the body with
// varying widths; the widths of the experiment groups are measured on the body
// alone (unit row and below, rendered by the real texttab: used only to choose
// the label lengths), then the header lines are put on top: one label per
// experiment of width(group) - 3 + d runes, optionally a level above spanning
// two or all experiments.
func c16MarginBenchstat(r *hx.Rng) ([]c16Op, string) {
	nexp := r.Range(1, 4)
	start := func(e int) int {
		if e == 0 {
			return 1
		}
		return 1 + 3 + (e-1)*6
	}
	edge := start(nexp + 1)
	bar, bar2, two, pm := " │ ", " │", "  ", " ± "
	var body []c16Op
	body = append(body, c16Op{Op: "row"})
	unit := []string{"sec/op", "B/op", "B/s", "allocs/op", "widgets-per-frob"}[r.Intn(5)]
	for e := 0; e < nexp; e++ {
		body = append(body, c16Op{Op: "col", N: start(e)}, c16Op{Op: "span", N: 3, Value: unit, Align: 1, Margin: &bar})
		if e > 0 {
			body = append(body, c16Op{Op: "span", N: 3, Value: "vs base", Margin: &two})
		}
		for j := start(e) + 1; j < start(e+1); j++ {
			body = append(body, c16Op{Op: "shrink", N: j, On: true})
		}
	}
	body = append(body, c16Op{Op: "col", N: edge}, c16Op{Op: "span", N: 1, Value: "", Margin: &bar2})
	nrows := r.Range(1, 4)
	centres := []string{"10.50n", "1.000", "-250.0n", "123.4Mi", "5.120k", "0.000", "2.5µ", "-0.003k"}
	for i := 0; i < nrows; i++ {
		body = append(body, c16Op{Op: "row"}, c16Op{Op: "span", N: 1, Value: []string{"A", "Encode", "B/size=10"}[r.Intn(3)]})
		for e := 0; e < nexp; e++ {
			if nexp > 1 && r.Chance(0.25) {
				continue // benchmark missing in this file
			}
			body = append(body, c16Op{Op: "col", N: start(e)},
				c16Op{Op: "span", N: 1, Value: centres[r.Intn(len(centres))], Align: 2},
				c16Op{Op: "span", N: 1, Value: []string{"∞", "1%", "12%"}[r.Intn(3)], Align: 2, Margin: &pm},
				c16Op{Op: "span", N: 1, Value: []string{"", "", "¹", "¹ ²"}[r.Intn(4)]})
			if e > 0 && r.Chance(0.6) {
				body = append(body, c16Op{Op: "span", N: 1, Value: []string{"~", "+1.25%", "-12.50%"}[r.Intn(3)], Align: 2},
					c16Op{Op: "span", N: 1, Value: []string{"(p=0.002 n=6)", "(p=1.000 n=1)", "(p=0.100 n=10+9)"}[r.Intn(3)]},
					c16Op{Op: "span", N: 1, Value: []string{"", "³"}[r.Intn(2)]})
			}
		}
	}
	if nrows > 1 && r.Chance(0.6) {
		body = append(body, c16Op{Op: "row"}, c16Op{Op: "span", N: 1, Value: "geomean"})
		for e := 0; e < nexp; e++ {
			body = append(body, c16Op{Op: "col", N: start(e)}, c16Op{Op: "span", N: 1, Value: "14.67n", Align: 2})
			if e > 0 {
				body = append(body, c16Op{Op: "col", N: start(e) + 3}, c16Op{Op: "span", N: 1, Value: []string{"?", "+0.52%"}[r.Intn(2)]})
			}
			body = append(body, c16Op{Op: "col", N: start(e+1) - 1}, c16Op{Op: "span", N: 1, Value: []string{"", "² ³"}[r.Intn(2)]})
		}
	}
	// widths of the groups below the header
	out, _, _, _ := c16Run(body)
	bars := c16Bars(strings.SplitN(out, "\n", 2)[0])
	if len(bars) != nexp+1 {
		return c16BenchstatLike(r), "margin-span/unmeasurable"
	}
	width := func(e0, e1 int) int { return bars[e1] - bars[e0] } // columns of experiments e0 .. e1-1, margins included
	var hdr []c16Op
	kinds := "over-margin"
	pickD := func(must bool) int {
		if must {
			return 1 + r.Intn(3)
		}
		return c16Deltas[r.Intn(len(c16Deltas))]
	}
	mustAt := r.Intn(nexp)
	// an upper level over pairs / all experiments
	if nexp >= 2 && r.Chance(0.4) {
		hdr = append(hdr, c16Op{Op: "row"})
		e := 0
		for e < nexp {
			n := r.Range(1, nexp-e)
			hdr = append(hdr, c16Op{Op: "col", N: start(e)},
				c16Op{Op: "span", N: start(e+n) - start(e), Value: c16Label(r, width(e, e+n)-3+pickD(r.Chance(0.5))), Align: 1, Margin: &bar})
			e += n
		}
		hdr = append(hdr, c16Op{Op: "col", N: edge}, c16Op{Op: "span", N: 1, Value: "", Margin: &bar2})
		kinds = "over-margin-2-levels"
	}
	hdr = append(hdr, c16Op{Op: "row"})
	for e := 0; e < nexp; e++ {
		hdr = append(hdr, c16Op{Op: "col", N: start(e)},
			c16Op{Op: "span", N: start(e+1) - start(e), Value: c16Label(r, width(e, e+1)-3+pickD(e == mustAt)), Align: 1, Margin: &bar})
	}
	hdr = append(hdr, c16Op{Op: "col", N: edge}, c16Op{Op: "span", N: 1, Value: "", Margin: &bar2})
	return append(hdr, body...), "margin-span/benchstat-shaped/" + kinds
}

// c16MarginGeneric: a body of single-column cells (random widths, margins,
// alignments; some columns shrink columns) and header rows of spans that start
// in a column with a non-empty left margin; the width of the columns below is
// computed here (single-column cells only: max of text + the column's margin),
// the label is width - margin(column) + d runes, d in -2..+5.
func c16MarginGeneric(r *hx.Rng) ([]c16Op, string) {
	cols := r.Range(2, 8)
	rows := r.Range(1, 5)
	margins := []string{" │ ", " │ ", "  ", " ", " ± ", "::", " │"}
	type cellT struct {
		v string
		m *string
		a int
	}
	body := make([][]*cellT, rows)
	vals := []string{"a", "abc", "10.50n", "+1.23%", "(p=0.000 n=10+10)", "x y", "héllo", "0123456789", "?", "∞"}
	for i := range body {
		body[i] = make([]*cellT, cols)
		for c := 0; c < cols; c++ {
			if r.Chance(0.2) {
				continue
			}
			ct := &cellT{v: vals[r.Intn(len(vals))], a: r.Intn(3)}
			if r.Chance(0.3) {
				m := margins[r.Intn(len(margins))]
				ct.m = &m
			}
			body[i][c] = ct
		}
	}
	// header spans: partition of a part of the columns
	type spanT struct {
		col, n int
		m      string
		a      int
		d      int
	}
	nh := r.Range(1, 2)
	var hdrs [][]spanT
	for h := 0; h < nh; h++ {
		var row []spanT
		c := r.Intn(2)
		for c < cols {
			n := r.Range(2, 4)
			if c+n > cols {
				n = cols - c
			}
			if n < 1 {
				break
			}
			row = append(row, spanT{col: c, n: n, m: margins[r.Intn(4)], a: []int{1, 1, 0, 2}[r.Intn(4)], d: c16Deltas[r.Intn(len(c16Deltas))]})
			c += n
			if r.Chance(0.2) {
				c++
			}
		}
		if len(row) > 0 {
			row[r.Intn(len(row))].d = 1 + r.Intn(3)
		}
		hdrs = append(hdrs, row)
	}
	// margins per column (all cells), widths per column (single-column cells)
	lm := make([]int, cols)
	margin := func(col int, v string, m *string) int {
		if m != nil {
			return utf8.RuneCountInString(*m)
		}
		if col == 0 || v == "" {
			return 0
		}
		return 1
	}
	for _, row := range hdrs {
		for _, s := range row {
			lm[s.col] = max(lm[s.col], utf8.RuneCountInString(s.m))
		}
	}
	for _, row := range body {
		for c, ct := range row {
			if ct != nil {
				lm[c] = max(lm[c], margin(c, ct.v, ct.m))
			}
		}
	}
	ws := make([]int, cols)
	for _, row := range body {
		for c, ct := range row {
			if ct != nil {
				ws[c] = max(ws[c], utf8.RuneCountInString(ct.v)+lm[c])
			}
		}
	}
	var ops []c16Op
	// shrink columns: inner columns of the first header row's spans, sometimes
	if r.Chance(0.6) && len(hdrs) > 0 {
		for _, s := range hdrs[0] {
			for j := s.col + 1; j < s.col+s.n; j++ {
				if r.Chance(0.7) {
					ops = append(ops, c16Op{Op: "shrink", N: j, On: true})
				}
			}
		}
	}
	for _, row := range hdrs {
		ops = append(ops, c16Op{Op: "row"})
		for _, s := range row {
			tw := 0
			for j := s.col; j < s.col+s.n; j++ {
				tw += ws[j]
			}
			m := s.m
			ops = append(ops, c16Op{Op: "col", N: s.col},
				c16Op{Op: "span", N: s.n, Value: c16Label(r, tw-lm[s.col]+s.d), Align: s.a, Margin: &m})
		}
	}
	for _, row := range body {
		ops = append(ops, c16Op{Op: "row"})
		for c, ct := range row {
			if ct != nil {
				ops = append(ops, c16Op{Op: "col", N: c}, c16Op{Op: "span", N: 1, Value: ct.v, Align: ct.a, Margin: ct.m})
			}
		}
	}
	return ops, "margin-span/generic"
}

// c16MarginTag: does the table have a multi-column cell, starting in a column
// with a non-empty margin, whose text exceeds the room the single-column cells
// beneath leave after the margin by 1..margin runes? (input predicate, computed
// from the call sequence alone)
func c16MarginClass(ops []c16Op) (near, exact bool) {
	type cl struct {
		row, col, n int
		v           string
		m           int
	}
	var cells []cl
	row, col, cols, any := 0, 0, 0, false
	for _, o := range ops {
		switch o.Op {
		case "row":
			if any {
				row++
			}
			col = 0
		case "col":
			col = o.N
		case "span":
			m := 1
			if col == 0 || o.Value == "" {
				m = 0
			}
			if o.Margin != nil {
				m = utf8.RuneCountInString(*o.Margin)
			}
			cells = append(cells, cl{row, col, o.N, o.Value, m})
			any = true
			col += o.N
			cols = max(cols, col)
		}
	}
	lm := make([]int, cols+1)
	ws := make([]int, cols+1)
	for _, c := range cells {
		lm[c.col] = max(lm[c.col], c.m)
	}
	for _, c := range cells {
		if c.n == 1 {
			ws[c.col] = max(ws[c.col], utf8.RuneCountInString(c.v)+lm[c.col])
		}
	}
	for _, c := range cells {
		if c.n > 1 && lm[c.col] > 0 {
			tw := 0
			for j := c.col; j < c.col+c.n; j++ {
				tw += ws[j]
			}
			d := utf8.RuneCountInString(c.v) - (tw - lm[c.col])
			if d >= -2 && d <= 5 {
				near = true
			}
			if d >= 1 && d <= lm[c.col] {
				exact = true
			}
		}
	}
	return
}

func c16AddMarginTable(o *hx.Out, ops []c16Op, kind string) {
	near, exact := c16MarginClass(ops)
	if near {
		o.Count("table:span-over-margin,label=room-2..+5")
	}
	if exact {
		o.Count("table:span-over-margin,label=room+1..margin")
	}
	c16AddTable(o, ops, kind)
}

// ---------- real benchstat runs with column labels as long as the room ----------

type c16BenchNamed struct {
	Kind   string     `json:"kind"`
	Col    string     `json:"col"`
	Labels []string   `json:"labels"`
	Files  [][]string `json:"files"`
}

// c16BenchTables runs parse -> Builder -> ToTables (-table .config -row
// .fullname -col .file) on files read under the given labels.
func c16BenchTables(labels []string, files [][]string) (*vb.Tables, error) {
	var parser benchproc.ProjectionParser
	tableBy, _, err := parser.ParseWithUnit(".config", nil)
	if err != nil {
		return nil, err
	}
	rowBy, err := parser.Parse(".fullname", nil)
	if err != nil {
		return nil, err
	}
	colBy, err := parser.Parse(".file", nil)
	if err != nil {
		return nil, err
	}
	stat := vb.NewBuilder(tableBy, rowBy, colBy, parser.Residue())
	var units benchfmt.UnitMetadataMap
	for i, lines := range files {
		// as benchfmt.Files does for a labelled input: the label is the file-level configuration ".file"
		rd := new(benchfmt.Reader)
		rd.Reset(strings.NewReader(strings.Join(lines, "\n")+"\n"), labels[i], ".file", labels[i])
		for rd.Scan() {
			if res, ok := rd.Result().(*benchfmt.Result); ok {
				stat.Add(res)
			}
		}
		units = rd.Units()
	}
	th := benchmath.DefaultThresholds
	return stat.ToTables(vb.TableOpts{Confidence: 0.95, Thresholds: &th, Units: units}), nil
}

// group widths (margins included) of a rendered benchtab table: distances of
// the bars of its unit line
func c16GroupWidths(t *vb.Table) ([]int, error) {
	var buf bytes.Buffer
	if err := t.ToText(&buf, false); err != nil {
		return nil, err
	}
	lines := strings.Split(buf.String(), "\n")
	nhdr := 0
	if len(t.Cols) > 0 {
		nhdr = len(t.Cols[0].Projection().FlattenedFields())
	}
	if nhdr >= len(lines) {
		return nil, nil
	}
	bars := c16Bars(lines[nhdr])
	var ws []int
	for i := 0; i+1 < len(bars); i++ {
		ws = append(ws, bars[i+1]-bars[i])
	}
	return ws, nil
}

// c16AddBenchLabels: real tables (kind 2: right borders aligned, bars nested)
// whose file labels are width(group) - 3 + d runes long; the widths are
// measured on a first run with one-rune labels.
func c16AddBenchLabels(o *hx.Out, r *hx.Rng) error {
	_, files := c16BenchFiles(r)
	short := make([]string, len(files))
	for i := range short {
		short[i] = string(rune('a' + i))
	}
	tabs, err := c16BenchTables(short, files)
	if err != nil {
		return err
	}
	if len(tabs.Tables) == 0 {
		return nil
	}
	t := tabs.Tables[r.Intn(len(tabs.Tables))]
	ws, err := c16GroupWidths(t)
	if err != nil {
		return err
	}
	// the table's columns are the files that have a result of its unit, in file order
	labels := append([]string(nil), short...)
	ci := 0
	must := r.Intn(max(len(ws), 1))
	for i := range files {
		if ci >= len(ws) || ci >= len(t.Cols) {
			break
		}
		if t.Cols[ci].StringValues() != short[i] {
			continue
		}
		d := c16Deltas[r.Intn(len(c16Deltas))]
		if ci == must {
			d = 1 + r.Intn(3)
		}
		labels[i] = strings.ReplaceAll(c16Label(r, ws[ci]-3+d), " ", "_")
		ci++
	}
	// labels must stay distinct
	seen := map[string]bool{}
	for i, l := range labels {
		for seen[l] {
			l = l[:len(l)-1] + string(rune('A'+i))
		}
		seen[l] = true
		labels[i] = l
	}
	tabs, err = c16BenchTables(labels, files)
	if err != nil {
		return err
	}
	var tx []hx.Sx
	for _, t := range tabs.Tables {
		var buf bytes.Buffer
		if err := t.ToText(&buf, false); err != nil {
			return err
		}
		nhdr := 1
		if len(t.Cols) > 0 {
			nhdr += len(t.Cols[0].Projection().FlattenedFields())
		}
		nlines := nhdr + len(t.Rows)
		if len(t.Rows) > 1 {
			nlines++
		}
		all := strings.Split(strings.TrimSuffix(buf.String(), "\n"), "\n")
		if len(all) < nlines {
			nlines = len(all)
		}
		tx = append(tx, hx.L(hx.I(nhdr), hx.SList(all[:nlines])))
	}
	o.Count("bench:labels=room-2..+5")
	o.Add(hx.L(hx.I(2), hx.List(tx)), c16BenchNamed{Kind: "benchtab/labels", Col: ".file", Labels: labels, Files: files},
		fmt.Sprintf("labels%v%v", labels, files), len(files) > 1)
	return nil
}

// c16GenLabelRun: a whole run (kinds 3, 4, 5) whose file labels are as long as
// the room of their column group in one of the tables (measured on a first run
// with one-rune labels).
func c16GenLabelRun(o *hx.Out, r *hx.Rng, dir string) error {
	var in bsInput
	var fl bsFlags
	if r.Chance(0.5) {
		in, fl = c16GenMultiTable(r)
		if fl.col != "" {
			fl.col = ""
			in.Flags = fl.args()
		}
	} else {
		in, fl, _ = c16GenNegRows(r)
	}
	for i := range in.Files {
		in.Files[i].Label = string(rune('a' + i))
	}
	if err := writeBsFiles(dir, in); err != nil {
		return err
	}
	run := runBenchstatInProc(dir, in, fl)
	if run.err != nil || len(run.tables.Tables) == 0 {
		o.Count("labelrun:pipeline-error-or-empty")
		return nil
	}
	t := run.tables.Tables[r.Intn(len(run.tables.Tables))]
	ws, err := c16GroupWidths(t)
	if err != nil {
		return err
	}
	must := r.Intn(max(len(ws), 1))
	for ci := 0; ci < len(ws) && ci < len(t.Cols); ci++ {
		for i := range in.Files {
			if in.Files[i].Label != t.Cols[ci].StringValues() {
				continue
			}
			d := c16Deltas[r.Intn(len(c16Deltas))]
			if ci == must {
				d = 1 + r.Intn(3)
			}
			l := strings.ReplaceAll(c16Label(r, ws[ci]-3+d), " ", "_")
			l = strings.ReplaceAll(l, "=", "-")
			in.Files[i].Label = l + "" // distinctness below
		}
	}
	seen := map[string]bool{}
	for i := range in.Files {
		l := in.Files[i].Label
		for seen[l] {
			l = l[:len(l)-1] + string(rune('A'+i))
		}
		seen[l] = true
		in.Files[i].Label = l
	}
	o.Count("labelrun:labels=room-2..+5")
	return c16RunTextCSV(o, dir, in, fl)
}

// ---------- consecutive tables: same number of columns, same first and last column, different in between ----------

// c16GenSameShape: files A, X1..Xk, D (k = 2..3); every unit is measured in A
// and D and in a unit-specific subset of the middle files, all subsets of the
// same size and pairwise different: the per-unit tables follow each other in
// one run, have the same number of columns and the same first and last column
// key, and differ in between. Sometimes -col .file,/fmt or a second table
// field.
func c16GenSameShape(r *hx.Rng) (bsInput, bsFlags) {
	k := r.Range(2, 3)
	size := r.Range(1, k-1)
	// all subsets of {0..k-1} of that size
	var subsets [][]int
	for m := 0; m < 1<<k; m++ {
		var s []int
		for i := 0; i < k; i++ {
			if m&(1<<i) != 0 {
				s = append(s, i)
			}
		}
		if len(s) == size {
			subsets = append(subsets, s)
		}
	}
	for i := len(subsets) - 1; i > 0; i-- {
		j := r.Intn(i + 1)
		subsets[i], subsets[j] = subsets[j], subsets[i]
	}
	nu := min(r.Range(2, 3), len(subsets))
	units := c16PickUnits(r, nu)
	labels := []string{"A"}
	for i := 0; i < k; i++ {
		labels = append(labels, []string{"B", "C", "E"}[i])
	}
	labels = append(labels, "D")
	if r.Chance(0.3) {
		labels = []string{"old.txt", "exp1.txt", "exp2.txt", "exp3.txt", "new.txt"}[:k+1]
		labels = append(labels, "new.txt")
	}
	has := func(f, u int) bool { // does file f measure unit u
		if f == 0 || f == k+1 {
			return true
		}
		for _, x := range subsets[u] {
			if x == f-1 {
				return true
			}
		}
		return false
	}
	benches := []string{"A", "B/n=1", "C-8"}[:r.Range(1, 3)]
	cfg := r.Chance(0.3) // two file configurations: two groups of tables
	var in bsInput
	for f := 0; f < k+2; f++ {
		var sb strings.Builder
		blocks := 1
		if cfg {
			blocks = 2
		}
		for b := 0; b < blocks; b++ {
			if cfg {
				fmt.Fprintf(&sb, "pkg: p%d\n", b)
			}
			for bi, name := range benches {
				ns := r.Range(1, 4)
				for s := 0; s < ns; s++ {
					fmt.Fprintf(&sb, "Benchmark%s %d", name, r.Range(1, 100))
					for u, unit := range units {
						if !has(f, u) {
							continue
						}
						v := float64(100*(bi+1)+10*u+f) * (1 + float64(s)/100)
						if unit == "allocs/op" || unit == "B/op" {
							v = float64(int(v))
						}
						fmt.Fprintf(&sb, " %v %s", v, unit)
					}
					sb.WriteString("\n")
				}
			}
		}
		in.Files = append(in.Files, bsFile{Name: fmt.Sprintf("f%d.txt", f), Label: labels[f], Content: sb.String()})
	}
	fl := bsFlags{alpha: -1, confidence: -1}
	in.Flags = fl.args()
	return in, fl
}

// is the class present: two consecutive tables with equally many (>= 3) columns,
// the same first and last column key and a different one in between
func c16SameShapeClass(tabs *vb.Tables) bool {
	for i := 1; i < len(tabs.Tables); i++ {
		a, b := tabs.Tables[i-1].Cols, tabs.Tables[i].Cols
		if len(a) != len(b) || len(a) < 3 || a[0] != b[0] || a[len(a)-1] != b[len(b)-1] {
			continue
		}
		for j := range a {
			if a[j] != b[j] {
				return true
			}
		}
	}
	return false
}

func c16GenSameShapeRuns(o *hx.Out, r *hx.Rng, tier string, dir string) error {
	// the witness of the description: files A, B, C, D; one unit in A, B, D, another in A, C, D
	w := bsInput{Files: []bsFile{
		{Name: "f0.txt", Label: "A", Content: "BenchmarkX 1 10 ns/op 100 B/op\nBenchmarkX 1 11 ns/op 100 B/op\nBenchmarkY 1 20 ns/op 200 B/op\n"},
		{Name: "f1.txt", Label: "B", Content: "BenchmarkX 1 12 ns/op\nBenchmarkX 1 13 ns/op\nBenchmarkY 1 21 ns/op\n"},
		{Name: "f2.txt", Label: "C", Content: "BenchmarkX 1 120 B/op\nBenchmarkX 1 120 B/op\nBenchmarkY 1 210 B/op\n"},
		{Name: "f3.txt", Label: "D", Content: "BenchmarkX 1 14 ns/op 130 B/op\nBenchmarkX 1 15 ns/op 130 B/op\nBenchmarkY 1 22 ns/op 220 B/op\n"}}}
	fl := bsFlags{alpha: -1, confidence: -1}
	w.Flags = fl.args()
	n := 60
	if tier == "thorough" {
		n = 1500
	}
	for i := -1; i < n; i++ {
		in, f := w, fl
		if i >= 0 {
			in, f = c16GenSameShape(r.Split())
		}
		if err := writeBsFiles(dir, in); err != nil {
			return err
		}
		run := runBenchstatInProc(dir, in, f)
		if run.err != nil {
			o.Count("sameshape:pipeline-error")
			continue
		}
		if c16SameShapeClass(run.tables) {
			o.Count("run:consecutive-tables-same-ncols-first-last,different-between")
		}
		if err := c16RunTextCSV(o, dir, in, f); err != nil {
			return err
		}
	}
	return nil
}

// c16GenGaps: everything above for C16.
func c16GenGaps(o *hx.Out, r *hx.Rng, tier string) error {
	dir, err := os.MkdirTemp(os.Getenv("VERIF_WORK"), "c16gaps")
	if err != nil {
		return err
	}
	defer os.RemoveAll(dir)
	nm := 700
	nbl, nlr := 60, 40
	if tier == "thorough" {
		nm, nbl, nlr = 30000, 1500, 1000
	}
	for i := 0; i < nm; i++ {
		var ops []c16Op
		var kind string
		if i%2 == 0 {
			ops, kind = c16MarginBenchstat(r)
		} else {
			ops, kind = c16MarginGeneric(r)
		}
		c16AddMarginTable(o, ops, kind)
	}
	for i := 0; i < nbl; i++ {
		if err := c16AddBenchLabels(o, r.Split()); err != nil {
			return err
		}
	}
	for i := 0; i < nlr; i++ {
		if err := c16GenLabelRun(o, r.Split(), dir); err != nil {
			return err
		}
	}
	if err := c16GenSameShapeRuns(o, r, tier, dir); err != nil {
		return err
	}
	return c16GenRowScale(o, r, tier, dir, 6, true)
}
