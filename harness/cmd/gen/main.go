// gen drives the real golang/perf implementation (from /repo, built with
// -tags verif) on generated inputs and writes Coq case files holding the
// inputs together with the observed outputs.
package main

import (
	"flag"
	"fmt"
	"os"
	"sort"

	"verifharness/internal/hx"
)

type genFn func(o *hx.Out, r *hx.Rng, tier string, replay string) error

var gens = map[string]genFn{}

func main() {
	seed := flag.Uint64("seed", 1, "PRNG seed")
	tier := flag.String("tier", "quick", "quick|thorough")
	out := flag.String("out", "", "output directory")
	replay := flag.String("replay", "", "replay file (inputs of one case)")
	flag.Parse()
	if flag.NArg() != 1 || *out == "" {
		fmt.Fprintln(os.Stderr, "usage: gen -out DIR [-seed N] [-tier quick|thorough] Cxx")
		os.Exit(2)
	}
	id := flag.Arg(0)
	g, ok := gens[id]
	if !ok {
		ids := []string{}
		for k := range gens {
			ids = append(ids, k)
		}
		sort.Strings(ids)
		fmt.Fprintf(os.Stderr, "unknown property %s (have %v)\n", id, ids)
		os.Exit(2)
	}
	o := hx.NewOut(*out, id, 24)
	if err := g(o, hx.NewRng(*seed), *tier, *replay); err != nil {
		fmt.Fprintln(os.Stderr, "gen:", err)
		os.Exit(3)
	}
	if err := o.Flush(); err != nil {
		fmt.Fprintln(os.Stderr, "gen:", err)
		os.Exit(3)
	}
	fmt.Printf("gen %s: %d cases\n", id, o.Len())
}
