package main

// C09: the same driver as C08 (c08.go) with value pools on which the field
// comparators tie on distinct strings, and with the Less matrix / SortKeys
// results and the ParseFloat / Pow oracle tables recorded.

import (
	"fmt"
	"math/big"

	"verifharness/internal/hx"
)

func init() { gens["C09"] = genC09 }

var c09Nums = []string{"1", "1.0", "1e0", "0x1p0", "1k", "1000", "1Ki", "1024", "NaN", "nan", "-0", "0",
	"foo", "bar", "12abc", "x12", "2", "10", "1M", "1MiB", "1kB", "1KB", "Inf", "-Inf", "+1", "1e3", ".5", "5e-1",
	"1..2", ".", "1e400", "1ki", "1i", "2Gi", "2G", "abc1.5Mxyz", "-1", "-1k", "1Y", "1Yi", "0.0", "1K",
	// signed numbers with a suffix next to plain numbers around them, signs that do
	// not belong to a numeral (inside a word, doubled, alone, before a letter)
	"-2k", "-1500", "-1000", "+1k", "-1Ki", "-1024", "-.5k", "-500", "x-1k", "-x1k", "+-1k", "--1", "-", "+", "-k",
	"-1.5M", "+.5", "-1e3", "-1kB", "a-1", "-0k", "-1..2k"}

var c09Pools = pxPools{
	cfgKeys:  []string{"k1", "k2", "k3", "goos", "n"},
	nameKeys: []string{".name", "/size", "/a", "/gomaxprocs"},
	values: map[string][]string{
		"goos": {"linux", "darwin", "plan9"},
	},
	defVals:   c09Nums,
	subVals:   []string{"1", "1.0", "1k", "1000", "1Ki", "1024", "x12", "12abc", "nan", "NaN", "0", "2", "foo", "", "-1k", "-1", "-2k", "+1k"},
	fixedPool: []string{"1", "1.0", "1k", "foo", "bar", "linux", "darwin", "2", "NaN", "0", "-1k", "-1"},
	orders:    []string{"first", "first", "alpha", "num", "num", "num", "fixed"},
}

// c09SuffixValues: for prefix letter number li of "kKMGTPEZY" (exponent e), the
// suffixed spellings (SI and IEC, with and without b/B, several mantissas) and
// plain numbers of comparable magnitude (1000^e, 1024^e, their neighbours and
// multiples, the adjacent powers), as digit strings and in e-notation.
func c09SuffixValues(li int) []string {
	letters := "kKMGTPEZY"
	p := string(letters[li])
	e := li
	if li == 0 {
		e = 1
	}
	var vs []string
	for _, m := range []string{"1", "2", "1.5", ".5", "999", "1001", "1023", "1025"} {
		for _, suf := range []string{"", "i", "B", "b", "iB", "ib"} {
			vs = append(vs, m+p+suf)
		}
	}
	// signed spellings of the same letter, and plain negative numbers around them
	for _, m := range []string{"-1", "-2", "-1.5", "-.5", "+1", "+2", "-999", "-1025"} {
		for _, suf := range []string{"", "i", "B", "iB"} {
			vs = append(vs, m+p+suf)
		}
	}
	pw := func(base int64, e int) *big.Int {
		return new(big.Int).Exp(big.NewInt(base), big.NewInt(int64(e)), nil)
	}
	for _, base := range []int64{1000, 1024} {
		for _, ee := range []int{e - 1, e, e + 1} {
			if ee < 0 || ee > 9 {
				continue
			}
			x := pw(base, ee)
			vs = append(vs, x.String())
			if ee == e {
				one := big.NewInt(1)
				vs = append(vs, "-"+x.String(), "-"+new(big.Int).Add(x, one).String(), "-"+new(big.Int).Mul(x, big.NewInt(2)).String(),
					"-"+new(big.Int).Div(x, big.NewInt(2)).String())
				vs = append(vs, new(big.Int).Sub(x, one).String(), new(big.Int).Add(x, one).String(),
					new(big.Int).Mul(x, big.NewInt(2)).String(), new(big.Int).Mul(x, big.NewInt(999)).String(),
					new(big.Int).Div(new(big.Int).Mul(x, big.NewInt(3)), big.NewInt(2)).String(),
					new(big.Int).Div(x, big.NewInt(2)).String())
			}
		}
	}
	vs = append(vs, fmt.Sprintf("1e%d", 3*e), fmt.Sprintf("1.5e%d", 3*e), fmt.Sprintf("2e%d", 3*e), "0", "1", "-1", "NaN", "x", "1"+p+"x", "y2"+p+"i", "y-2"+p, "-y2"+p, fmt.Sprintf("-1e%d", 3*e), fmt.Sprintf("-1.5e%d", 3*e))
	return vs
}

// c09SuffixCase: one num-ordered plain key and one num-ordered name key fed from vals.
func c09SuffixCase(o *hx.Out, r *hx.Rng, vals []string, n int, tag string) error {
	e1 := &pxExpr{Fields: []pxSpec{{Key: "sz", Order: "num"}}}
	e2 := &pxExpr{Fields: []pxSpec{{Key: "/size", Order: "num"}, {Key: ".config", Order: "num"}}}
	e1.Text = pxText(e1.Fields, r)
	e2.Text = pxText(e2.Fields, r)
	var st []pxResult
	perm := make([]int, len(vals))
	for i := range perm {
		perm[i] = i
	}
	for j := len(perm) - 1; j > 0; j-- {
		k := r.Intn(j + 1)
		perm[j], perm[k] = perm[k], perm[j]
	}
	for i := 0; i < n; i++ {
		v := vals[perm[i%len(perm)]]
		res := pxResult{Name: "X/size=" + r.Pick(vals), Units: []string{"sec/op"}}
		res.Config = append(res.Config, [3]string{"sz", v, "file"})
		if r.Chance(0.5) {
			res.Config = append(res.Config, [3]string{"w", r.Pick(vals), "file"})
		}
		st = append(st, res)
	}
	o.Count("suffix " + tag)
	return pxProtoCase(o, r, []*pxExpr{e1, e2}, st, [][]int{{0, 1}}, true)
}

// c09MissingFirst: projections whose .config group (named, or as the residue)
// is ordered by first observation, over a stream in which file keys come and
// go: a sub-field is created when Keys already exist (they lack it), Keys
// lacking it are interned again later, values of other sub-fields repeat. The
// missing value "" of a sub-field is a value like any other in its order.
func c09MissingFirst(o *hx.Out, r *hx.Rng, n int) error {
	keys := pxShuffled(r, []string{"goos", "pkg", "cpu", "k1", "k2"})
	keys = keys[:r.Range(2, len(keys))]
	var es []*pxExpr
	switch r.Intn(4) {
	case 0:
		es = append(es, pxE(false, r, pxSpec{Key: ".config", Order: "first"}))
	case 1: // the residue holds .config
		es = append(es, pxE(false, r, pxFirst(".fullname")))
	case 2: // one key taken out of the group, before it
		es = append(es, pxE(false, r, pxSpec{Key: keys[0], Order: r.Pick([]string{"first", "alpha", "num"})}, pxSpec{Key: ".config", Order: "first"}))
	default: // with .unit
		es = append(es, pxE(true, r, pxSpec{Key: ".config", Order: "first"}))
	}
	vals := []string{"a", "b", "p", "1", "-1k"}
	var st []pxResult
	for i := 0; i < n; i++ {
		res := pxResult{Name: "X", Units: []string{"sec/op"}}
		if r.Chance(0.3) {
			res.Units = append(res.Units, "B/op")
		}
		avail := 1 + (len(keys)-1)*(i+1)/n
		if r.Chance(0.15) {
			avail = len(keys)
		}
		for _, k := range keys[:avail] {
			if r.Chance(0.55) {
				res.Config = append(res.Config, [3]string{k, r.Pick(vals[:r.Range(1, len(vals))]), "file"})
			}
		}
		st = append(st, res)
	}
	o.Count("missing-first")
	return pxProtoCase(o, r, es, st, pxSomePerms(r, len(es), 1), true)
}

// c09FixedLists: fixed value lists in which words are listed twice, adjacent
// (c c b a), apart but not interleaved with the word compared (c b c a: c and
// a), interleaved (a b a), over streams carrying the listed words (and now and
// then an unlisted one or none: the harness projects without filtering).
func c09FixedLists(o *hx.Out, r *hx.Rng) error {
	words := pxShuffled(r, []string{"a", "b", "c", "d", "1", "1.0", "-1k"})[:r.Range(2, 5)]
	list := append([]string(nil), words...)
	for i := r.Range(1, 3); i > 0; i-- {
		w := r.Pick(words)
		at := r.Intn(len(list) + 1)
		list = append(list[:at], append([]string{w}, list[at:]...)...)
	}
	key := r.Pick([]string{"k1", "/size", ".name"})
	fs := []pxSpec{{Key: key, Order: "fixed", Fixed: list}}
	if r.Chance(0.5) {
		fs = append(fs, pxSpec{Key: "k2", Order: r.Pick([]string{"first", "alpha", "num"})})
	}
	es := []*pxExpr{pxE(false, r, fs...)}
	var st []pxResult
	for i := r.Range(4, 16); i > 0; i-- {
		v := r.Pick(words)
		if r.Chance(0.1) {
			v = r.Pick([]string{"zz", ""})
		}
		res := pxResult{Name: "X", Units: []string{"sec/op"}}
		switch key {
		case "k1":
			if v != "" {
				res.Config = append(res.Config, [3]string{"k1", v, "file"})
			}
		case "/size":
			if v != "" {
				res.Name = "X/size=" + v
			}
		default:
			if v != "" {
				res.Name = v
			}
		}
		if r.Chance(0.5) {
			res.Config = append(res.Config, [3]string{"k2", r.Pick([]string{"1", "2", "x"}), "file"})
		}
		st = append(st, res)
	}
	o.Count("fixed-lists")
	return pxProtoCase(o, r, es, st, [][]int{{0}}, true)
}

func genC09(o *hx.Out, r *hx.Rng, tier string, replay string) error {
	o.Rule = "as C08 (one ProjectionParser per run; proto: 2-4 expressions, Residue, every result through every projection; free: random interleavings), with projections mixing the orders first/alpha/num/fixed (fixed lists with repeated words; plus lists with words listed twice adjacent, apart and interleaved over streams of the listed words) over value pools on which the comparators tie on distinct strings (1, 1.0, 1e0, 0x1p0, 1k/1000, 1Ki/1024, NaN/nan, -0/0, unparseable words, 12abc/x12, out-of-range 1e400, ...) and signed numbers with a suffix next to the plain numbers around them (-1k -2k -1500 +1k -1Ki -.5k; signs that belong to no numeral: x-1k -x1k +-1k - -k), values appearing late and missing values; .config groups ordered by first observation over streams in which file keys come and go (a sub-field created when Keys exist that lack it, such Keys interned again later); observables: Less matrix over all Keys of each projection, SortKeys of the identity, reversed, two random arrangements and a random sub-slice; plus, for every prefix letter k K M G T P E Z Y, a sweep of all spellings (mantissas 1 2 1.5 .5 999 1001 1023 1025 and signed -1 -2 -1.5 -.5 +1 +2 -999 -1025; SI and IEC; with and without b/B) next to plain numbers of comparable magnitude (1000^e, 1024^e, +-1, multiples, adjacent powers, e-notation) in num-ordered plain/name/.config fields, and random mixtures across letters; oracle: strconv.ParseFloat of every value and of every maximal [0-9.] run in it (sign + run derived by sign symmetry and re-checked where both are recorded), math.Pow(1000|1024, 0..8). non-trivial = every case"
	pl := &c09Pools
	mul := 1
	if tier == "thorough" {
		mul = 12
	}
	for i := 0; i < 110*mul; i++ {
		n := r.Range(2, 4)
		es := pl.exprSet(r, n)
		st := pl.stream(r, r.Range(5, 40))
		if err := pxProtoCase(o, r, es, st, pxSomePerms(r, n, 1+i%2), true); err != nil {
			return err
		}
	}
	// every suffix letter: a sweep of all its spellings next to plain numbers of
	// comparable magnitude, then random mixtures across letters
	var all []string
	for li := 0; li < 9; li++ {
		vs := c09SuffixValues(li)
		all = append(all, vs...)
		for rep := 0; rep < mul; rep++ {
			if err := c09SuffixCase(o, r, vs, len(vs), "sweep "+string("kKMGTPEZY"[li])); err != nil {
				return err
			}
		}
	}
	for i := 0; i < 30*mul; i++ {
		var vs []string
		for j := 0; j < 24; j++ {
			vs = append(vs, r.Pick(all))
		}
		if err := c09SuffixCase(o, r, vs, r.Range(12, 40), "mixed"); err != nil {
			return err
		}
	}
	for i := 0; i < 110*mul; i++ {
		ops, err := pl.freeOps(r, r.Range(8, 50))
		if err != nil {
			return err
		}
		if err := pxFreeCase(o, r, ops, true); err != nil {
			return err
		}
	}
	for i := 0; i < 50*mul; i++ {
		if err := c09FixedLists(o, r); err != nil {
			return err
		}
	}
	for i := 0; i < 60*mul; i++ {
		if err := c09MissingFirst(o, r, r.Range(3, 14)); err != nil {
			return err
		}
	}
	// projections made of the .config group alone whose first result has no file
	// configuration (c08gaps3.go): the fields added later must take part in the order
	for i := 0; i < 40*mul; i++ {
		if err := c08CfgOnly(o, r, pl, true); err != nil {
			return err
		}
	}
	return nil
}
