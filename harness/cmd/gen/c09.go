package main

// C09: the same driver as C08 (c08.go) with value pools on which the field
// comparators tie on distinct strings, and with the Less matrix / SortKeys
// results and the ParseFloat / Pow oracle tables recorded.

import (
	"verifharness/internal/hx"
)

func init() { gens["C09"] = genC09 }

var c09Nums = []string{"1", "1.0", "1e0", "0x1p0", "1k", "1000", "1Ki", "1024", "NaN", "nan", "-0", "0",
	"foo", "bar", "12abc", "x12", "2", "10", "1M", "1MiB", "1kB", "1KB", "Inf", "-Inf", "+1", "1e3", ".5", "5e-1",
	"1..2", ".", "1e400", "1ki", "1i", "2Gi", "2G", "abc1.5Mxyz", "-1", "-1k", "1Y", "1Yi", "0.0", "1K"}

var c09Pools = pxPools{
	cfgKeys:  []string{"k1", "k2", "k3", "goos", "n"},
	nameKeys: []string{".name", "/size", "/a", "/gomaxprocs"},
	values: map[string][]string{
		"goos": {"linux", "darwin", "plan9"},
	},
	defVals:   c09Nums,
	subVals:   []string{"1", "1.0", "1k", "1000", "1Ki", "1024", "x12", "12abc", "nan", "NaN", "0", "2", "foo", ""},
	fixedPool: []string{"1", "1.0", "1k", "foo", "bar", "linux", "darwin", "2", "NaN", "0"},
	orders:    []string{"first", "first", "alpha", "num", "num", "num", "fixed"},
}

func genC09(o *hx.Out, r *hx.Rng, tier string, replay string) error {
	o.Rule = "as C08 (one ProjectionParser per run; proto: 2-4 expressions, Residue, every result through every projection; free: random interleavings), with projections mixing the orders first/alpha/num/fixed (fixed lists with repeated words) over value pools on which the comparators tie on distinct strings (1, 1.0, 1e0, 0x1p0, 1k/1000, 1Ki/1024, NaN/nan, -0/0, unparseable words, 12abc/x12, out-of-range 1e400, ...), values appearing late and missing values; observables: Less matrix over all Keys of each projection, SortKeys of the identity, reversed, two random arrangements and a random sub-slice; oracle: strconv.ParseFloat of every value and of every maximal [0-9.] run in it, math.Pow(1000|1024, 0..8). non-trivial = every case"
	pl := &c09Pools
	mul := 1
	if tier == "thorough" {
		mul = 12
	}
	for i := 0; i < 110*mul; i++ {
		n := r.Range(2, 4)
		es := pl.exprSet(r, n)
		st := pl.stream(r, r.Range(5, 40))
		if err := pxProtoCase(o, r, es, st, pxSomePerms(r, n, 1+i%2), true); err != nil {
			return err
		}
	}
	for i := 0; i < 110*mul; i++ {
		ops, err := pl.freeOps(r, r.Range(8, 50))
		if err != nil {
			return err
		}
		if err := pxFreeCase(o, r, ops, true); err != nil {
			return err
		}
	}
	return nil
}
