package main

// C06, measurement masks at the word boundaries: results with exactly 31, 32,
// 33, 63, 64, 65, 95, 96, 97 (and 128) measurements whose units are pairwise
// DIFFERENT (u0 .. u<n-1>; every unit also names its 32-bit word, w<i/32>_),
// under .unit terms that pick SPARSE sets of them: one measurement (the first,
// the last, the ones on either side of a word boundary: 30 31 32 33 62 63 64
// 65 94 95 96), all but one, exactly one whole word, every word's last bit,
// a handful, all, none - plain, negated, AND/OR with whole-result terms.
// Every case is a kind-1 case (Match: Test for every i and out of range, All,
// Any; Apply: what remains and what it returns) or the sequence protocol of
// c06SeqOn across two such results of different lengths (kind 3).

import (
	"fmt"
	"strconv"
	"strings"

	"golang.org/x/perf/benchfmt"
	"verifharness/internal/hx"
)

var c06MaskNs = []int{31, 32, 33, 63, 64, 65, 95, 96, 97, 128}

func c06MaskUnit(i int) string { return fmt.Sprintf("w%d_u%d", i/32, i) }

// c06MaskResult: n measurements with pairwise different units.  style 1: some
// measurements carry a written unit (o<i>) as well; otherwise base units only.
func c06MaskResult(r *hx.Rng, n int, style int) (*benchfmt.Result, c06Input) {
	name := r.Pick([]string{"Fib", "Fib/k=1-8", "X"})
	res := &benchfmt.Result{Name: benchfmt.Name(name), Iters: 7}
	in := c06Input{Name: name}
	if r.Chance(0.5) {
		res.SetConfig("goos", "linux")
		in.Config = append(in.Config, [3]string{"goos", "linux", "file"})
	}
	for i := 0; i < n; i++ {
		u := [2]string{c06MaskUnit(i), ""}
		if style == 1 && r.Chance(0.3) {
			u[1] = fmt.Sprintf("o%d", i)
		}
		res.Values = append(res.Values, benchfmt.Value{Value: float64(i), Unit: u[0], OrigValue: float64(i), OrigUnit: u[1]})
		in.Units = append(in.Units, u)
	}
	return res, in
}

// boundary positions below n
func c06MaskEdges(n int) []int {
	var out []int
	seen := map[int]bool{}
	for _, i := range []int{0, 1, 30, 31, 32, 33, 62, 63, 64, 65, 94, 95, 96, 97, 126, 127, n - 2, n - 1} {
		if i >= 0 && i < n && !seen[i] {
			seen[i] = true
			out = append(out, i)
		}
	}
	return out
}

func c06MaskOr(idx []int) string {
	var vs []string
	for _, i := range idx {
		vs = append(vs, c06MaskUnit(i))
	}
	if len(vs) == 1 {
		return ".unit:" + vs[0]
	}
	return ".unit:(" + strings.Join(vs, " OR ") + ")"
}

// c06MaskTerm: a .unit term over the units of a result of n measurements, and the name of its shape
func c06MaskTerm(r *hx.Rng, n int) (string, string) {
	edges := c06MaskEdges(n)
	words := (n + 31) / 32
	switch r.Intn(12) {
	case 0, 1, 2:
		return c06MaskOr([]int{edges[r.Intn(len(edges))]}), "one-at-a-boundary"
	case 3:
		return c06MaskOr([]int{r.Intn(n)}), "one-anywhere"
	case 4:
		return ".unit:" + strconv.Quote(c06MaskUnit(n-1)), "the-last"
	case 5:
		// one whole word
		return fmt.Sprintf(".unit:/^w%d_/", r.Intn(words)), "one-whole-word"
	case 6:
		// the last measurement of every full word (bit 31)
		var idx []int
		for i := 31; i < n; i += 32 {
			idx = append(idx, i)
		}
		if len(idx) == 0 {
			idx = []int{n - 1}
		}
		return c06MaskOr(idx), "bit-31-of-every-word"
	case 7:
		// the first measurement of every word (bit 0)
		var idx []int
		for i := 0; i < n; i += 32 {
			idx = append(idx, i)
		}
		return c06MaskOr(idx), "bit-0-of-every-word"
	case 8:
		k := r.Range(2, 4)
		var idx []int
		for j := 0; j < k; j++ {
			idx = append(idx, edges[r.Intn(len(edges))])
		}
		return c06MaskOr(idx), "a-few-at-boundaries"
	case 9:
		return ".unit:/^w/", "all"
	case 10:
		return r.Pick([]string{".unit:nosuch", ".unit:/^x/", ".unit:u3"}), "none"
	}
	// everything from a boundary on / up to a boundary (regexp over the word prefix)
	w := r.Intn(words)
	if r.Bool() {
		return fmt.Sprintf(".unit:/^w[0-%d]_/", w), "words-up-to"
	}
	return fmt.Sprintf(".unit:/^w[%d-9]_/", w), "words-from"
}

func c06MaskExpr(r *hx.Rng, n int) (string, string) {
	t, shape := c06MaskTerm(r, n)
	switch r.Intn(12) {
	case 0, 1, 2, 3:
		return t, shape
	case 4, 5, 6:
		return "-" + t, "not:" + shape
	case 7:
		t2, s2 := c06MaskTerm(r, n)
		return t + " OR " + t2, shape + "|" + s2
	case 8:
		t2, s2 := c06MaskTerm(r, n)
		return "-" + t + " -" + t2, "not:" + shape + "&not:" + s2
	case 9:
		return r.Pick([]string{"goos:linux ", "-goos:linux OR ", ".name:Fib AND ", "* "}) + t, "whole-result-term," + shape
	case 10:
		t2, s2 := c06MaskTerm(r, n)
		return "-(" + t + " OR " + t2 + ")", "not(" + shape + "|" + s2 + ")"
	}
	t2, s2 := c06MaskTerm(r, n)
	return "(" + t + " OR -" + t2 + ") -.unit:" + c06MaskUnit(n-1), shape + "|not:" + s2 + ",minus-last"
}

func c06Mask(o *hx.Out, r *hx.Rng, tier string) error {
	o.Rule += "; mask (own stream): results with exactly 31, 32, 33, 63, 64, 65, 95, 96, 97, 128 measurements of pairwise DIFFERENT units (w<i/32>_u<i>, some with a written unit), under .unit terms that pick sparse sets: exactly one measurement and all but one at every position next to a 32-bit word boundary (0 1 30 31 32 33 62 63 64 65 94 95 96 97 126 127 n-2 n-1; directed), one whole word, bit 31 / bit 0 of every word, a few at boundaries, words up to / from a boundary, all, none - plain, negated, OR / AND with each other and with whole-result terms; Match (Test every i and out of range, All, Any) and Apply judged; and one Filter across two such results of different lengths (sequence protocol)"
	perDirected, perRandom, perSeq := 1, 30, 8
	if tier == "thorough" {
		perDirected, perRandom, perSeq = 2, 600, 150
	}
	for _, n := range c06MaskNs {
		// directed: exactly one measurement, and all but that one, at every boundary position
		for rep := 0; rep < perDirected; rep++ {
			for _, i := range c06MaskEdges(n) {
				for _, neg := range []string{"", "-"} {
					res, in := c06MaskResult(r, n, rep%3)
					q := neg + ".unit:" + c06MaskUnit(i)
					o.Count(fmt.Sprintf("class:mask n=%d distinct units, one measurement / all but one at a word boundary (directed)", n))
					if err := c06FilterOn(o, res, in, q, "mask"); err != nil {
						return err
					}
				}
			}
		}
		for k := 0; k < perRandom; k++ {
			res, in := c06MaskResult(r, n, r.Intn(3))
			q, shape := c06MaskExpr(r, n)
			o.Count(fmt.Sprintf("class:mask n=%d distinct units, sparse .unit terms", n))
			o.Count("mask shape=" + shape)
			if err := c06FilterOn(o, res, in, q, "mask"); err != nil {
				return err
			}
		}
		// one Filter across two results of different lengths
		for k := 0; k < perSeq; k++ {
			nB := c06MaskNs[r.Intn(len(c06MaskNs))]
			A, inA := c06MaskResult(r, n, r.Intn(2))
			B, inB := c06MaskResult(r, nB, r.Intn(2))
			q, _ := c06MaskExpr(r, min(n, nB))
			o.Count("class:mask one Filter across two results with distinct units (sequence)")
			if err := c06SeqOn(o, r, A, inA, B, inB, q, "mask/"); err != nil {
				return err
			}
		}
	}
	return nil
}
