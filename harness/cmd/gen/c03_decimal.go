//go:build verif

package main

// C03, optional part: every operation of benchfmt/internal/bytesconv/decimal.go
// and floatBits on generated decimals, through the bridge extension
// (hooks/verifbridge_decimal.go, hooks/bytesconv_decimal_verif_export.go).
// Built only with -tags "verif verifdecimal".
//
// cases:  (3 op dec k res)      op 0 leftShift 1 rightShift 2 Shift 3 Round 4 RoundDown 5 RoundUp
//         (4 dec n)             RoundedInteger
//         (5 u dec)             Assign
//         (6 dec bits ovf)      floatBits(&float64info)
//         (7 text ok dec)       set
// dec = (digits dp neg trunc); res = dec or () when the call panicked.

import (
	"fmt"
	"os"
	"strings"

	bc "golang.org/x/perf/benchfmt/verifbridge"
	"verifharness/internal/hx"
)

func init() { c03Extra = genC03Decimal }

type c03DecInput struct {
	Kind   string `json:"kind"`
	Op     string `json:"op"`
	Digits string `json:"digits"`
	Dp     int    `json:"dp"`
	Neg    bool   `json:"neg"`
	Trunc  bool   `json:"trunc"`
	K      int64  `json:"k"`
}

func c03DecSx(d bc.Decimal) hx.Sx {
	return hx.L(hx.S(d.Digits), hx.I(d.Dp), hx.Bool(d.Neg), hx.Bool(d.Trunc))
}

func c03RandDec(r *hx.Rng) bc.Decimal {
	var n int
	switch r.Intn(6) {
	case 0:
		n = r.Range(1, 5)
	case 1:
		n = r.Range(1, 40)
	case 2:
		n = r.Range(780, 800)
	case 3:
		n = 800
	default:
		n = r.Range(1, 800)
	}
	ds := []byte(c03RandDigits(r, n))
	if ds[0] == '0' {
		ds[0] = byte('1' + r.Intn(9))
	}
	switch r.Intn(8) {
	case 0: // long runs
		c := byte('0' + r.Intn(10))
		for i := 1; i < n-1; i++ {
			ds[i] = c
		}
	case 1: // trimmed
		if ds[n-1] == '0' {
			ds[n-1] = '5'
		}
	case 2: // ...5 or ...50
		ds[n-1] = '5'
	}
	dp := r.Range(-335, 315)
	if r.Chance(0.4) {
		dp = r.Range(-3, 22)
	}
	return bc.Decimal{Digits: string(ds), Dp: dp, Neg: r.Chance(0.2), Trunc: r.Chance(0.25)}
}

func genC03Decimal(o *hx.Out, r *hx.Rng, tier string) {
	n := 1500
	if tier == "thorough" {
		n = 30000
	}
	opNames := []string{"leftShift", "rightShift", "Shift", "Round", "RoundDown", "RoundUp"}
	for i := 0; i < n; i++ {
		d := c03RandDec(r)
		switch r.Intn(10) {
		case 0, 1, 2, 3, 4: // one operation
			op := r.Intn(6)
			var k int
			switch op {
			case 0, 1:
				k = r.Range(0, 60)
				if r.Chance(0.3) {
					k = []int{1, 27, 53, 59, 60}[r.Intn(5)]
				}
			case 2:
				k = r.Range(-1200, 1200)
				if r.Chance(0.5) {
					k = r.Range(-130, 130)
				}
			default:
				k = r.Range(-1, len(d.Digits)+1)
				if r.Chance(0.5) {
					k = r.Range(0, 20)
				}
			}
			res := hx.L()
			func() {
				defer func() {
					if p := recover(); p != nil {
						fmt.Fprintf(os.Stderr, "PANIC-INPUT decimal %s %v %d: %v\n", opNames[op], d, k, p)
					}
				}()
				res = c03DecSx(bc.DecimalOp(d, op, k))
			}()
			o.Count("decimal:" + opNames[op])
			o.Add(hx.L(hx.I(3), hx.I(op), c03DecSx(d), hx.I(k), res),
				c03DecInput{"decimal", opNames[op], d.Digits, d.Dp, d.Neg, d.Trunc, int64(k)},
				fmt.Sprintf("d%d|%s|%d|%v|%d", op, d.Digits, d.Dp, d.Trunc, k), true)
		case 5, 6: // RoundedInteger
			d.Dp = r.Range(-2, 21)
			if r.Chance(0.5) && len(d.Digits) > 25 {
				d.Digits = d.Digits[:r.Range(1, 25)]
				if d.Digits[0] == '0' {
					d.Digits = "7" + d.Digits[1:]
				}
			}
			d.Digits = strings.TrimRight(d.Digits, "0")
			if d.Digits == "" {
				d.Digits = "5"
			}
			v := bc.DecimalRoundedInteger(d)
			o.Count("decimal:RoundedInteger")
			o.Add(hx.L(hx.I(4), c03DecSx(d), hx.U(v)),
				c03DecInput{"decimal", "RoundedInteger", d.Digits, d.Dp, d.Neg, d.Trunc, 0},
				fmt.Sprintf("ri|%s|%d|%v", d.Digits, d.Dp, d.Trunc), true)
		case 7: // Assign
			u := r.U64() >> uint(r.Intn(64))
			if r.Chance(0.2) {
				u = u / 1000 * 1000
			}
			o.Count("decimal:Assign")
			o.Add(hx.L(hx.I(5), hx.U(u), c03DecSx(bc.DecimalAssign(u))),
				c03DecInput{"decimal", "Assign", "", 0, false, false, int64(u)}, fmt.Sprintf("as|%d", u), true)
		case 8: // floatBits
			if d.Trunc && len(d.Digits) != 800 {
				d.Trunc = false
			}
			bits, ovf := uint64(0), false
			panicked := false
			func() {
				defer func() {
					if p := recover(); p != nil {
						fmt.Fprintf(os.Stderr, "PANIC-INPUT floatBits %v: %v\n", d, p)
						panicked = true
					}
				}()
				bits, ovf = bc.DecimalFloatBits(d)
			}()
			o.Count("decimal:floatBits")
			cs := hx.L(hx.I(6), c03DecSx(d), hx.U(bits), hx.Bool(ovf))
			if panicked {
				cs = hx.L(hx.I(6), c03DecSx(d))
			}
			o.Add(cs, c03DecInput{"decimal", "floatBits", d.Digits, d.Dp, d.Neg, d.Trunc, 0},
				fmt.Sprintf("fb|%s|%d|%v|%v", d.Digits, d.Dp, d.Neg, d.Trunc), true)
		default: // set
			t := c03RandDecimal(r, r.Range(1, 40))
			if r.Chance(0.3) {
				t = c03RandDecimal(r, r.Range(790, 830))
			}
			if r.Chance(0.2) {
				t = c03Mutate(r, t, "0123456789.eE+-_")
			}
			sd, ok := bc.DecimalSet([]byte(t))
			o.Count("decimal:set")
			o.Add(hx.L(hx.I(7), hx.S(t), hx.Bool(ok), c03DecSx(sd)),
				c03DecInput{"decimal", "set", c03Show(t), 0, false, false, 0}, "set|"+t, true)
		}
	}
}
