package main

import (
	"bytes"
	"encoding/json"
	"fmt"
	"math"
	"os"
	"os/exec"
	"path/filepath"
	"strings"

	"verifharness/internal/c04conc"
	"verifharness/internal/hx"
)

// CONCURRENT use of the unit normalisation: 8-16 goroutines released by one
// barrier per unit (some staggered by a short spin) meet the SAME previously
// unseen unit at overlapping times - most through benchunit.Tidy directly,
// every third or fourth through its own benchfmt.Reader scanning "BenchmarkX 1
// v unit" - and then ask again (answered from the memo table).  Units with
// thousands of components keep the first callers busy while the others arrive.
// Every batch runs in cmd/c04race as its own process (the memo table is
// process-wide): plain at GOMAXPROCS 4, 8, 16 and built with -race at 4, 8.
// Judged (case kind 7): every distinct outcome any caller saw is the
// normalised unit with the scaled value, no process died, no race report.

type c04ConcInput struct {
	Kind  string        `json:"kind"` // concurrent-tidy
	Batch c04conc.Batch `json:"batch"`
	Runs  []string      `json:"runs"`
}

func c04BuildConc(race bool) (string, error) {
	work := os.Getenv("VERIF_WORK")
	if work == "" {
		work = os.TempDir()
	}
	name, args := "c04conc", []string{"build"}
	if race {
		name, args = "c04race", append(args, "-race")
	}
	exe := filepath.Join(work, name)
	args = append(args, "-tags", "verif", "-o", exe, "./cmd/c04race")
	cmd := exec.Command("go", args...)
	cmd.Dir = harnessDir()
	if out, err := cmd.CombinedOutput(); err != nil {
		return "", fmt.Errorf("building cmd/c04race (race=%v): %v\n%s", race, err, out)
	}
	return exe, nil
}

func c04RunConc(exe, script string, procs int) (res c04conc.Result, stderr string, ok bool) {
	cmd := exec.Command(exe, script)
	cmd.Env = append(os.Environ(), fmt.Sprintf("GOMAXPROCS=%d", procs), "GORACE=atexit_sleep_ms=0 halt_on_error=0")
	var so, se bytes.Buffer
	cmd.Stdout, cmd.Stderr = &so, &se
	cmd.Run()
	var all []c04conc.Result
	if jerr := json.Unmarshal(so.Bytes(), &all); jerr != nil || len(all) != 1 {
		return c04conc.Result{}, se.String(), false
	}
	return all[0], se.String(), true
}

// c04ConcUnit: a unit fresh to the process, off the fast paths (it contains ns
// or MB), one field of a benchmark line, with at most three numerator ns / MB
// tokens (far from the known finding on out-of-range factors).
func c04ConcUnit(r *hx.Rng, long bool, id int) c04conc.UnitSpec {
	n := r.Range(0, 6)
	if long {
		n = r.Range(1500, 3500) // the model's evaluation is quadratic in the length of the unit: 10-25 KB
	}
	stem := []string{"c", "t", "q", "xns", "MBp"}[r.Intn(5)] + string(rune('a'+id%26)) // "xns", "MBp": ns / MB inside a word; id keeps the units of a batch apart
	switch r.Intn(5) {
	case 0: // normalised token first, a long denominator behind it
		return c04conc.UnitSpec{Head: []string{"ns/op", "MB/s", "ns", "MB*ns", "ns*ns/MB"}[r.Intn(5)], Sep: "/", Stem: stem, N: n}
	case 1: // a long numerator, the normalised tokens at its end
		return c04conc.UnitSpec{Head: "w", Sep: "*", Stem: stem, N: n, Tail: []string{"*ns", "*MB", "*ns*MB/s", "-ns", "*MB*MB*MB"}[r.Intn(5)]}
	case 2: // normalised tokens at both ends
		return c04conc.UnitSpec{Head: []string{"MB", "ns"}[r.Intn(2)], Sep: []string{"*", "-"}[r.Intn(2)], Stem: stem, N: n, Tail: []string{"*ns/op", "-MB", "*MB/ns"}[r.Intn(3)]}
	case 3: // ns / MB only in the denominator or inside words: the unit is its own base form, but not on a fast path
		return c04conc.UnitSpec{Head: "op", Sep: "/", Stem: stem, N: n, Tail: []string{"/ns", "/MB", "/ns/MB", "/turns"}[r.Intn(4)]}
	}
	return c04conc.UnitSpec{Head: "ns", Sep: []string{"/", "*"}[r.Intn(2)], Stem: stem, N: n, Tail: "/MB"}
}

func c04GenConcurrent(o *hx.Out, r *hx.Rng, nb int) error {
	plainExe, err := c04BuildConc(false)
	if err != nil {
		return err
	}
	raceExe, err := c04BuildConc(true)
	if err != nil {
		return err
	}
	work := os.Getenv("VERIF_WORK")
	if work == "" {
		work = os.TempDir()
	}
	for i := 0; i < nb; i++ {
		b := c04conc.Batch{Goroutines: []int{8, 12, 16}[i%3], Stagger: []int{0, 300, 3000, 40}[i%4], Readers: []int{3, 4, 0}[r.Intn(3)], Pairs: i%2 == 1}
		nu := r.Range(4, 6)
		for k := 0; k < nu; k++ {
			s := c04ConcUnit(r, k%2 == 0 || b.Pairs && k%4 == 1, k) // pairs: units 0,1 both long, then 2 long / 3 short ...
			b.Units = append(b.Units, s)
			b.Values = append(b.Values, []float64{1, 2.5, 1000, 3, 0.125, 1e9, 7}[r.Intn(7)])
		}
		script := filepath.Join(work, fmt.Sprintf("c04conc_batch%d.json", i))
		js, _ := json.Marshal([]c04conc.Batch{b})
		if err := os.WriteFile(script, js, 0o644); err != nil {
			return err
		}
		distinct := make([][]c04conc.Outcome, nu)
		alive, norace, diag := true, true, ""
		in := c04ConcInput{Kind: "concurrent-tidy", Batch: b}
		calls := 0
		for k, p := range []int{4, 8, 16, 4, 8} {
			exe, how := plainExe, "plain"
			if k >= 3 {
				exe, how = raceExe, "race-detector"
				o.Count("concurrent:race-detector-runs")
			}
			in.Runs = append(in.Runs, fmt.Sprintf("%s GOMAXPROCS=%d", how, p))
			res, serr, ok := c04RunConc(exe, script, p)
			if strings.Contains(serr, "DATA RACE") {
				norace = false
			}
			if (!ok || strings.Contains(serr, "DATA RACE")) && diag == "" {
				diag = serr[:min(len(serr), 3000)]
			}
			if !ok {
				alive = false
				continue
			}
			calls += res.Calls
			o.Dist["concurrent:calls-through-a-Reader"] += res.ViaReader * res.Calls / (2 * b.Goroutines)
			for j := range res.Distinct {
				for _, d := range res.Distinct[j] {
					if d.Code != 0 {
						alive = false // a caller panicked / its reader delivered nothing
						continue
					}
					seen := false
					for _, e := range distinct[j] {
						seen = seen || e == d
					}
					if !seen {
						distinct[j] = append(distinct[j], d)
					}
				}
			}
		}
		os.Remove(script)
		var cs []hx.Sx
		maxLen, split := 0, false
		for j, s := range b.Units {
			u := s.Unit()
			maxLen = max(maxLen, s.N)
			if len(distinct[j]) > 1 {
				split = true
			}
			for _, d := range distinct[j] {
				cs = append(cs, hx.L(hx.S(u), hx.F64(b.Values[j]), hx.L(hx.F64(math.Float64frombits(d.Value)), hx.S(d.Unit))))
			}
		}
		o.Dist["concurrent:calls"] += calls
		o.Count(fmt.Sprintf("concurrent:batch goroutines=%d stagger=%d two-units-at-a-time=%v", b.Goroutines, b.Stagger, b.Pairs))
		o.Count(fmt.Sprintf("concurrent:longest-unit-components>=%d", maxLen/500*500))
		if split {
			o.Count("concurrent:callers-of-one-unit-saw-different-answers")
		}
		if !alive {
			o.Count("concurrent:a-process-died-or-a-caller-panicked")
		}
		if !norace {
			o.Count("concurrent:race-report")
		}
		if diag != "" {
			o.Notes = append(o.Notes, "concurrent batch "+fmt.Sprint(i)+": "+diag[:min(len(diag), 600)])
		}
		c := hx.L(hx.I(7), hx.List(cs), hx.Bool(norace), hx.Bool(alive))
		o.Add(c, in, fmt.Sprintf("conc\x00%d\x00%+v", i, b), true, "concurrent")
	}
	return nil
}
