package main

import (
	"fmt"
	"strconv"
	"strings"

	"golang.org/x/perf/benchfmt"
	"golang.org/x/perf/benchproc"
	"verifharness/internal/hx"
)

func init() { gens["C05"] = genC05 }

type c05Input struct {
	Name   string      `json:"name"`
	Config [][3]string `json:"config"` // key, value, "file"|"internal"
	Keys   []string    `json:"keys"`
	Excl   [][]string  `json:"fullname_exclusions,omitempty"` // keys parsed before .fullname by the same parser
}

var c05Alphabet = []string{"/", "=", "-", "7", "a", "é", "0", "b", ".", "*", "+", "9", " "}
var c05Keys = []string{".name", ".fullname", "/a", "/b", "/gomaxprocs", "/7", "/a=", "/é", "/", "/ab", "k", "a", "goos", "é"}

// keys that differ from a special key (.name, .fullname, /gomaxprocs) only by letter case: ordinary keys - a /K is a
// sub-name key like any other (no trailing -N), a .K is a plain configuration key
var c05CaseKeys = []string{"/GOMAXPROCS", "/GoMaxProcs", "/Gomaxprocs", "/gomaxProcs", ".NAME", ".Name", ".FullName", ".FULLNAME", ".fullName", "/A"}

// c05Force: keys every case must ask for / candidates of the exclusion sets (set by the case-variant class)
var c05Force []string

func c05IsCaseKey(k string) bool {
	for _, c := range c05CaseKeys {
		if c == k {
			return true
		}
	}
	return false
}

func c05Quote(k string) string { return strconv.Quote(k) }

func c05One(o *hx.Out, r *hx.Rng, name string, cfg [][3]string) error {
	res := &benchfmt.Result{Name: benchfmt.Name(name), Iters: 1,
		Values: []benchfmt.Value{{Value: 1, Unit: "sec/op"}}}
	for _, c := range cfg {
		res.SetConfig(c[0], c[1])
		if c[2] == "internal" {
			i, _ := res.ConfigIndex(c[0])
			res.Config[i].File = false
		}
	}
	// what the configuration must be, kept by the harness itself (key -> value, file flag) in SetConfig's terms
	type kv struct {
		k, v string
		file bool
	}
	var want []kv
	setWant := func(k, v string, file bool) {
		for i := range want {
			if want[i].k == k {
				if v == "" {
					want = append(want[:i], want[i+1:]...)
				} else {
					want[i].v = v
				}
				return
			}
		}
		if v != "" {
			want = append(want, kv{k, v, file})
		}
	}
	for _, c := range cfg {
		setWant(c[0], c[1], true)
		if c[2] == "internal" {
			for i := range want {
				if want[i].k == c[0] {
					want[i].file = false
				}
			}
		}
	}
	// one case in five: the result under test is a CLONE that was edited after cloning - an existing key that is not
	// the last one gets a longer (sometimes a shorter) value, sometimes twice; the keys behind it must keep their values
	if len(want) >= 2 && r.Chance(0.2) {
		res = res.Clone()
		for n := 1 + r.Intn(2); n > 0; n-- {
			i := r.Intn(len(want) - 1)
			nv := want[i].v + strings.Repeat("w", 1+r.Intn(3))
			if r.Chance(0.2) && len(want[i].v) > 1 {
				nv = want[i].v[:len(want[i].v)-1]
			}
			res.SetConfig(want[i].k, nv)
			if !want[i].file {
				j, _ := res.ConfigIndex(want[i].k)
				res.Config[j].File = false
			}
			want[i].v = nv
			cfg = append(cfg, [3]string{want[i].k, nv, map[bool]string{true: "file", false: "internal"}[want[i].file]})
		}
		o.Count("class:clone-then-SetConfig")
	}
	base, parts := res.Name.Parts()
	Base := res.Name.Base()
	in := c05Input{Name: name, Config: cfg}
	var cfgT []hx.Sx
	for _, c := range want {
		cfgT = append(cfgT, hx.L(hx.S(c.k), hx.B([]byte(c.v)), hx.Bool(c.file)))
	}
	// keys through single-field projections
	var gets, fm []hx.Sx
	nk := 4 + r.Intn(4)
	caseKey := false
	for j := 0; j < nk+len(c05Force); j++ {
		var k string
		switch {
		case j >= nk:
			k = c05Force[j-nk]
		case r.Chance(0.12):
			k = c05CaseKeys[r.Intn(len(c05CaseKeys))]
		default:
			k = c05Keys[r.Intn(len(c05Keys))]
			if r.Chance(0.15) && len(cfg) > 0 {
				k = cfg[r.Intn(len(cfg))][0]
			}
		}
		caseKey = caseKey || c05IsCaseKey(k)
		in.Keys = append(in.Keys, k)
		var pp benchproc.ProjectionParser
		p, err := pp.Parse(c05Quote(k), nil)
		if err != nil {
			return fmt.Errorf("projection %q: %v", k, err)
		}
		key := p.Project(res)
		f := p.Fields()
		if len(f) != 1 {
			return fmt.Errorf("projection %q: %d fields", k, len(f))
		}
		got := key.Get(f[0])
		gets = append(gets, hx.L(hx.S(k), hx.S(got)))
		// filter with a literal that is the extracted value or a near miss
		lit := got
		switch r.Intn(6) {
		case 0:
			lit = got + "x"
		case 1:
			if len(got) > 0 {
				lit = got[:len(got)-1]
			}
		case 2:
			lit = "" // absent and empty both denote the empty string
		}
		flt, err := benchproc.NewFilter(c05Quote(k) + ":" + strconv.Quote(lit))
		if err != nil {
			return fmt.Errorf("filter %q: %v", k, err)
		}
		m, err := flt.Match(res)
		if err != nil {
			return err
		}
		fm = append(fm, hx.L(hx.S(k), hx.S(lit), hx.Bool(m.All())))
	}
	// literal .name filters whose value is NOT a plain base name: the full name, the base with a -N suffix, the base
	// with its first part, the base itself: .name is the base, so only the last can match (unless the name is its own base)
	{
		lits := []string{name, string(Base) + "-8", string(Base)}
		if len(parts) > 0 {
			lits = append(lits, string(Base)+string(parts[0]))
		}
		for _, lit := range lits {
			flt, err := benchproc.NewFilter(".name:" + strconv.Quote(lit))
			if err != nil {
				return fmt.Errorf("filter .name:%q: %v", lit, err)
			}
			m, err := flt.Match(res)
			if err != nil {
				return err
			}
			fm = append(fm, hx.L(hx.S(".name"), hx.S(lit), hx.Bool(m.All())))
			in.Keys = append(in.Keys, ".name")
		}
	}
	// .fullname next to other projections of the same parser (exclusions)
	var xf []hx.Sx
	for j := 0; j < 2; j++ {
		var ex []string
		var pp benchproc.ProjectionParser
		cand := []string{"/a", "/b", "/gomaxprocs", ".name", "/7", "/", "k"}
		pc := 0.3
		if len(c05Force) > 0 || r.Chance(0.15) {
			// exclusion sets with keys that differ from .name / /gomaxprocs only by case: they exclude nothing special
			cand = append([]string{"/gomaxprocs", ".name", "/a"}, c05CaseKeys...)
			pc = 0.25
		}
		for _, c := range cand {
			if r.Chance(pc) {
				caseKey = caseKey || c05IsCaseKey(c)
				ex = append(ex, c)
				if _, err := pp.Parse(c05Quote(c), nil); err != nil {
					return err
				}
			}
		}
		p, err := pp.Parse(".fullname", nil)
		if err != nil {
			return err
		}
		key := p.Project(res)
		xf = append(xf, hx.L(hx.SList(ex), hx.S(key.Get(p.Fields()[0]))))
		in.Excl = append(in.Excl, ex)
	}
	coq := hx.L(hx.S(name), hx.List(cfgT),
		hx.B(base), hx.BList(parts), hx.B(Base), hx.List(gets), hx.List(xf), hx.List(fm))
	nontriv := len(parts) > 0
	if caseKey {
		o.Count("class:key-differs-from-special-key-by-letter-case")
		_, gmp := splitDashN(name)
		switch lower := strings.ToLower(name); {
		case gmp && strings.Contains(lower, "/gomaxprocs="):
			o.Count("class:case-variant-key x name with explicit /gomaxprocs= part (any case) and trailing -N")
		case gmp:
			o.Count("class:case-variant-key x name with trailing -N")
		case strings.Contains(lower, "/gomaxprocs="):
			o.Count("class:case-variant-key x name with explicit /gomaxprocs= part (any case)")
		}
	}
	o.Count(fmt.Sprintf("parts=%d", min(len(parts), 5)))
	o.Count(fmt.Sprintf("len=%d", min(len(name), 12)))
	o.Add(coq, in, name, nontriv)
	return nil
}

// splitDashN: does the name end in -digits (for the distribution record only)
func splitDashN(name string) (string, bool) {
	i := len(name)
	for i > 0 && name[i-1] >= '0' && name[i-1] <= '9' {
		i--
	}
	if i == len(name) || i == 0 || name[i-1] != '-' {
		return name, false
	}
	return name[:i-1], true
}

func genC05(o *hx.Out, r *hx.Rng, tier string, replay string) error {
	o.Rule = "names over the alphabet {/ = - 7 a é 0 b . *}: exhaustive up to a length bound over a 6-symbol sub-alphabet, then random longer names; each with a random configuration and 4-7 projection/filter keys. non-trivial = name has at least one configuration part; distinct by name; KEYS THAT DIFFER FROM A SPECIAL KEY ONLY BY LETTER CASE (/GOMAXPROCS /GoMaxProcs /Gomaxprocs /gomaxProcs .NAME .Name .FullName .FULLNAME .fullName /A): 12% of the keys of every case, in 15% of the .fullname exclusion sets, and a class of their own (two such keys + /gomaxprocs + .name or .fullname per case, exclusion sets drawn from them) over names with an explicit /gomaxprocs= part in exact or other case and/or a trailing -N, the configuration holding .NAME/.FullName as ordinary keys; the .fullname exclusions are judged by prop_ok (only the exact /gomaxprocs removes -N, only the exact .name stars the base); plus HISTORIES of 3-6 names of equal length (separators at different places, /k= moved or absent, -N suffix moving) seen in order by ONE long-lived single-field projection and ONE long-lived literal filter per key and one long-lived .fullname projection with exclusions: a Result whose Name bytes are overwritten in place (also re-sliced from one backing array, and fresh Results as control), and a benchfmt.Reader whose Result is used WITHOUT Clone (plain; with result lines longer than half the scanner buffer; and fed one line per Read with an ignored filler line, so that consecutive result lines land at the same scanner-buffer offset); same-address/same-length pairs are confirmed by pointer comparison and counted"
	mkcfg := func() [][3]string {
		var cfg [][3]string
		n := r.Intn(4)
		for i := 0; i < n; i++ {
			k := []string{"k", "a", "goos", "é", "pkg"}[r.Intn(5)]
			if r.Chance(0.15) {
				k = []string{".NAME", ".Name", ".FullName", ".FULLNAME", ".fullName"}[r.Intn(5)] // ordinary keys
			}
			dup := false
			for _, c := range cfg {
				if c[0] == k {
					dup = true
				}
			}
			if dup {
				continue
			}
			kind := "file"
			if r.Chance(0.3) {
				kind = "internal"
			}
			cfg = append(cfg, [3]string{k, []string{"v", "linux", "1", "é/x-2"}[r.Intn(4)], kind})
		}
		return cfg
	}
	// exhaustive short names over a 6-symbol alphabet
	exh := []string{"/", "=", "-", "7", "a", "é"}
	maxLen := 3
	if tier == "thorough" {
		maxLen = 5
	}
	var rec func(prefix string, depth int) error
	rec = func(prefix string, depth int) error {
		if err := c05One(o, r, prefix, mkcfg()); err != nil {
			return err
		}
		if depth == maxLen {
			return nil
		}
		for _, s := range exh {
			if err := rec(prefix+s, depth+1); err != nil {
				return err
			}
		}
		return nil
	}
	if err := rec("", 0); err != nil {
		return err
	}
	o.Extra["exhaustive_names_up_to_len"] = maxLen
	// crafted shapes: repeated sub-name keys, empty values, empty segments, explicit and trailing GOMAXPROCS
	for _, name := range []string{"X/a=1/a=2", "X/a=/a=2", "X/a=1/a=", "X/b=1/a=1/b=2", "X/gomaxprocs=2/gomaxprocs=4",
		"X/gomaxprocs=2-8", "X/gomaxprocs=-8", "X//a=1", "X/a=1//b=2-8", "//", "X//", "/a=1/a=2", "X/a=1/a=2-16", "X/ab=1/a=2",
		"X/a/a=2", "X/a=1/b=2/a=3/b=4", "X-8/a=1", "X/a=x-", "X/7=1/7=2",
		"X/GOMAXPROCS=2-8", "X/GOMAXPROCS=2", "X/GoMaxProcs=4/gomaxprocs=2-16", "X/gomaxprocs=2/GOMAXPROCS=3", "X/Gomaxprocs=7-4", "X/A=1/a=2-8"} {
		for rep := 0; rep < 3; rep++ {
			if err := c05One(o, r, name, mkcfg()); err != nil {
				return err
			}
		}
	}
	nrand := 600
	nhist := 900
	ncase := 400
	if tier == "thorough" {
		nrand = 6000
		nhist = 18000
		ncase = 6000
	}
	// keys differing from a special key only by letter case, on names with a trailing -N and/or an explicit
	// /gomaxprocs= part (exact or in another case), the configuration holding such .K keys as ordinary keys
	for i := 0; i < ncase; i++ {
		name := []string{"X", "Fib", "Copy/a=1", "é", "X/A=3"}[r.Intn(5)]
		for j := r.Intn(3); j > 0; j-- {
			name += []string{"/gomaxprocs=2", "/GOMAXPROCS=3", "/GoMaxProcs=4", "/Gomaxprocs=", "/a=2", "/gomaxProcs=5", "/A=7"}[r.Intn(7)]
		}
		if r.Chance(0.7) {
			name += []string{"-8", "-16", "-1", "-007"}[r.Intn(4)]
		}
		cfg := mkcfg()
		for _, k := range []string{".NAME", ".FullName", ".Name", ".FULLNAME"} {
			if r.Chance(0.35) {
				cfg = append(cfg, [3]string{k, []string{"cfgv", "X", "other-8"}[r.Intn(3)], []string{"file", "internal"}[r.Intn(2)]})
			}
		}
		c05Force = []string{c05CaseKeys[r.Intn(len(c05CaseKeys))], c05CaseKeys[r.Intn(len(c05CaseKeys))], "/gomaxprocs", []string{".name", ".fullname"}[r.Intn(2)]}
		err := c05One(o, r, name, cfg)
		c05Force = nil
		if err != nil {
			return err
		}
	}
	// histories: long-lived projections / filters over consecutive results at the same address
	if err := c05GenHist(o, r, nhist); err != nil {
		return err
	}
	pieces := []string{"/GOMAXPROCS=2", "/GoMaxProcs=", "/A=1", "/a=", "/b=", "/gomaxprocs=", "-", "-8", "-16", "/", "Fib", "/a", "=", "7", "é", "/7=", "/ab=", "x", "*",
		"/a=1", "/a=2", "/a=", "/b=x", "/gomaxprocs=2", "/gomaxprocs=4", "//", "/a=1/a=2", "/b=/b=y",
		"-99999999999999999999", "-18446744073709551616", "-+4", "-0", "-007", "+", "-9223372036854775808", "1234567890123456789012", "-٣", "-1e3", "-0x10", "-1_0"}
	for i := 0; i < nrand; i++ {
		name := ""
		if r.Bool() {
			n := r.Range(1, 12)
			for j := 0; j < n; j++ {
				name += c05Alphabet[r.Intn(len(c05Alphabet))]
			}
		} else {
			n := r.Range(1, 6)
			for j := 0; j < n; j++ {
				name += pieces[r.Intn(len(pieces))]
			}
		}
		if err := c05One(o, r, name, mkcfg()); err != nil {
			return err
		}
	}
	return nil
}
