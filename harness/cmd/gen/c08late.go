package main

// C08, round-4 gap class: the slices RETURNED by earlier ProjectValues calls,
// kept by the caller and read again after later ProjectValues / Project calls
// on the same Projection.

import (
	"fmt"

	"golang.org/x/perf/benchproc"
	"verifharness/internal/hx"
)

type pxKept struct {
	op      int
	pi      int
	keys    []benchproc.Key    // the slice as returned (NOT copied)
	flat    []*benchproc.Field // the flattened fields when it was returned
	unit    *benchproc.Field   // the .unit field of a ParseWithUnit projection
	idsRet  []int
	getsRet [][]string
	idsLate []int
	getsLt  [][]string
	unitsLt []string
	differs bool
}

func (w *pxWorld) numOf(pi int, k benchproc.Key) int {
	if n, ok := w.nums[pi][k]; ok {
		return n
	}
	return -1
}

func (k *pxKept) read(w *pxWorld) (ids []int, gets [][]string, units []string) {
	for _, key := range k.keys {
		ids = append(ids, w.numOf(k.pi, key))
		var g []string
		for _, f := range k.flat {
			g = append(g, key.Get(f))
		}
		gets = append(gets, g)
		if k.unit != nil {
			units = append(units, key.Get(k.unit))
		}
	}
	return
}

func pxSameInts(a, b []int) bool { return fmt.Sprint(a) == fmt.Sprint(b) }

// pxLateCase runs ops on a fresh world, keeping every slice ProjectValues
// returns; after every later operation all kept slices are read again.
func pxLateCase(o *hx.Out, r *hx.Rng, ops []pxOp, tags ...string) (err error) {
	in := pxFreeInput{Kind: "free-kept-slices", Ops: ops}
	var w *pxWorld
	var kept []*pxKept
	pan := func() (panicked string) {
		defer func() {
			if e := recover(); e != nil {
				panicked = fmt.Sprint(e)
			}
		}()
		var werr error
		w, werr = pxNewWorld()
		if werr != nil {
			panic(werr)
		}
		for i, op := range ops {
			w.do(op)
			// read every kept slice again (the first reading that differs is kept)
			for _, k := range kept {
				if k.differs {
					continue
				}
				ids, gets, units := k.read(w)
				k.idsLate, k.getsLt, k.unitsLt = ids, gets, units
				if !pxSameInts(ids, k.idsRet) || fmt.Sprintf("%q", gets) != fmt.Sprintf("%q", k.getsRet) {
					k.differs = true
				}
			}
			if op.Kind == 3 {
				p := w.projs[op.Pi]
				k := &pxKept{op: i, pi: op.Pi, keys: w.last}
				k.flat = append(k.flat, p.FlattenedFields()...)
				if fs := p.Fields(); len(fs) > 0 && fs[len(fs)-1].Name == ".unit" && !fs[len(fs)-1].IsTuple {
					k.unit = fs[len(fs)-1]
				}
				k.idsRet, k.getsRet, _ = k.read(w)
				k.idsLate, k.getsLt, k.unitsLt = k.read(w)
				kept = append(kept, k)
			}
		}
		return ""
	}()
	if pan != "" {
		o.Count("panic")
		o.Add(hx.L(hx.I(9), hx.S(pan)), in, fmt.Sprint(o.Len()), true, append(tags, "panic")...)
		return nil
	}
	if w.srcErr != nil {
		return w.srcErr
	}
	obs := w.observeAll(r, false, nil)
	var os []hx.Sx
	for _, op := range ops {
		switch op.Kind {
		case 0:
			os = append(os, hx.L(hx.I(0), hx.Bool(op.Expr.Unit), pxFieldsSx(op.Expr)))
		case 1:
			os = append(os, hx.L(hx.I(1)))
		default:
			os = append(os, hx.L(hx.I(op.Kind), hx.I(op.Pi), pxResultSx(op.Res)))
		}
	}
	gl := func(g [][]string) hx.Sx {
		var l []hx.Sx
		for _, x := range g {
			l = append(l, hx.SList(x))
		}
		return hx.List(l)
	}
	var late []hx.Sx
	for _, k := range kept {
		late = append(late, hx.L(hx.I(k.op), pxInts(k.idsRet), pxInts(k.idsLate), gl(k.getsRet), gl(k.getsLt),
			hx.Opt(k.unit != nil, hx.SList(k.unitsLt))))
	}
	o.Count(fmt.Sprintf("kept-slices: slices kept=%d", len(kept)))
	o.Add(hx.L(hx.I(2), hx.List(os), hx.List(w.outs), obs, hx.List(late)), in, fmt.Sprint("late", o.Len()), true, append(tags, "kept-slices")...)
	return nil
}

var c08LateUnits = []string{"sec/op", "B/op", "allocs/op", "B/s", "ns/op", "widgets", "MB/s", "x"}

// c08Late: 2-4 ProjectValues calls on ONE projection (several measurements
// each, different tuples, different unit orders and list lengths), other
// Project / ProjectValues calls in between, every returned slice kept.
func c08Late(o *hx.Out, r *hx.Rng, pl *pxPools, i int) error {
	var ops []pxOp
	main := pl.expr(r)
	main.Unit = i%5 != 4 // mostly through ParseWithUnit
	if err := pxCheckText(main); err != nil {
		return err
	}
	ops = append(ops, pxOp{Kind: 0, Expr: main})
	nproj := 1
	if r.Chance(0.4) {
		e := pl.expr(r)
		if err := pxCheckText(e); err != nil {
			return err
		}
		ops = append(ops, pxOp{Kind: 0, Expr: e})
		nproj++ // the model and the code agree on whether it was accepted; pl.expr gives valid expressions
	}
	if r.Chance(0.5) {
		ops = append(ops, pxOp{Kind: 1})
		nproj++
	}
	stream := pl.stream(r, r.Range(4, 10))
	units := func(prev []string) []string {
		n := r.Range(2, 6)
		switch {
		case prev != nil && r.Chance(0.3): // the same units in another order
			us := append([]string(nil), prev...)
			for j := len(us) - 1; j > 0; j-- {
				k := r.Intn(j + 1)
				us[j], us[k] = us[k], us[j]
			}
			if us[0] == prev[0] {
				us[0], us[len(us)-1] = us[len(us)-1], us[0]
			}
			return us
		case prev != nil && r.Chance(0.3): // shorter than the call before
			n = r.Range(1, len(prev))
		case prev != nil && r.Chance(0.3): // longer
			n = len(prev) + r.Range(1, 3)
		}
		us := make([]string, n)
		off := r.Intn(len(c08LateUnits))
		for j := range us {
			us[j] = c08LateUnits[(off+j*r.Range(1, 3))%len(c08LateUnits)]
		}
		return us
	}
	ncalls := r.Range(2, 4)
	var prev []string
	si := 0
	for c := 0; c < ncalls; c++ {
		res := stream[si%len(stream)]
		if c > 0 && r.Chance(0.2) {
			// the same result again (same tuple), other measurements
		} else {
			si++
		}
		res.Units = units(prev)
		prev = res.Units
		rc := res
		ops = append(ops, pxOp{Kind: 3, Pi: 0, Res: &rc})
		// other calls in between
		for j := r.Intn(3); j > 0; j-- {
			other := stream[r.Intn(len(stream))]
			if len(other.Units) == 0 || r.Chance(0.5) {
				other.Units = units(nil)
			}
			oc := other
			k := 2
			if r.Chance(0.4) {
				k = 3
			}
			ops = append(ops, pxOp{Kind: k, Pi: r.Intn(nproj), Res: &oc})
		}
	}
	o.Count(fmt.Sprintf("class:kept-slices:ProjectValues-calls-on-one-projection=%d", ncalls))
	if main.Unit {
		o.Count("class:kept-slices:through-ParseWithUnit")
	} else {
		o.Count("class:kept-slices:projection-without-.unit")
	}
	return pxLateCase(o, r, ops)
}
