package main

// C03: numbers are read as correctly rounded float64 values and exact integers.
//
// Every case is one numeric text plus what the real code did with it:
//   - verifbridge.ParseFloat / Atoi / ParseInt / ParseUint (benchfmt/internal/bytesconv),
//   - the standard library (strconv) on the same text,
//   - benchfmt.Reader on the one-line file "BenchmarkX 1 <text> u" (measurement)
//     or "BenchmarkX <text> 1 u" (iteration count).
// The Coq side (coq/Corr/RunC03.v) evaluates the exact specification
// (coq/Base/DecSpec.v) and the code-structured model on the text.

import (
	"bytes"
	"errors"
	"fmt"
	"math"
	"math/big"
	"os"
	"path/filepath"
	"regexp"
	"strconv"
	"strings"

	"golang.org/x/perf/benchfmt"
	bc "golang.org/x/perf/benchfmt/verifbridge"
	"verifharness/internal/hx"
)

func init() { gens["C03"] = genC03 }

type c03Input struct {
	Kind string `json:"kind"` // "float" | "int"
	Text string `json:"text"` // strconv.Quote'd when not printable
	Gen  string `json:"gen"`
	Len  int    `json:"len"`
}

func c03ErrKind(err error) int64 {
	if err == nil {
		return 0
	}
	var ne *bc.NumError
	if errors.As(err, &ne) {
		switch ne.Err {
		case bc.ErrSyntax:
			return 1
		case bc.ErrRange:
			return 2
		}
		return 3
	}
	var se *strconv.NumError
	if errors.As(err, &se) {
		switch se.Err {
		case strconv.ErrSyntax:
			return 1
		case strconv.ErrRange:
			return 2
		}
		return 3
	}
	return 3
}

// cleanField: the text is exactly one field of a benchmark line
func c03CleanField(t string) bool {
	if len(t) == 0 || len(t) > 60000 {
		return false
	}
	for i := 0; i < len(t); i++ {
		if t[i] < 0x21 || t[i] > 0x7e {
			return false
		}
	}
	return true
}

// c03Read runs the reader over one line and returns the single record.
func c03Read(line string) (res *benchfmt.Result, syn bool, other bool) {
	defer func() {
		if p := recover(); p != nil {
			fmt.Fprintf(os.Stderr, "PANIC-INPUT reader %q: %v\n", line, p)
			res, syn, other = nil, false, true
		}
	}()
	rd := benchfmt.NewReader(bytes.NewReader([]byte(line)), "f")
	n := 0
	for rd.Scan() {
		n++
		switch rec := rd.Result().(type) {
		case *benchfmt.Result:
			res = rec.Clone()
		case *benchfmt.SyntaxError:
			syn = true
		default:
			other = true
		}
	}
	if n != 1 || rd.Err() != nil {
		other = true
	}
	return
}

type c03Ctx struct {
	o    *hx.Out
	seen map[string]bool
}

func (c *c03Ctx) fcase(gen, t string) {
	if c.seen["f"+t] {
		c.o.Count("dup")
		return
	}
	c.seen["f"+t] = true
	var pf float64
	var pferr error
	func() {
		defer func() {
			if p := recover(); p != nil {
				fmt.Fprintf(os.Stderr, "PANIC-INPUT ParseFloat %q: %v\n", t, p)
				pferr = errors.New("panic")
			}
		}()
		pf, pferr = bc.ParseFloat([]byte(t), 64)
	}()
	sf, sferr := strconv.ParseFloat(t, 64)
	rdr := hx.L()
	if c03CleanField(t) {
		res, syn, other := c03Read("BenchmarkX 1 " + t + " u\n")
		switch {
		case other:
			rdr = hx.L(hx.I(2))
		case syn && res == nil:
			rdr = hx.L(hx.I(1))
		case res != nil && !syn && len(res.Values) == 1 && res.Values[0].Unit == "u" && res.Values[0].OrigUnit == "" && res.Iters == 1:
			rdr = hx.L(hx.I(0), hx.F64(res.Values[0].Value))
		default:
			rdr = hx.L(hx.I(2))
		}
		c.o.Count("reader=yes")
	} else {
		c.o.Count("reader=n/a")
	}
	ek := c03ErrKind(pferr)
	cs := hx.L(hx.I(0), hx.S(t), hx.L(hx.F64(pf), hx.Z(ek)), hx.L(hx.F64(sf), hx.Z(c03ErrKind(sferr))), rdr)
	c.o.Count("float:" + gen)
	c.o.Count(fmt.Sprintf("float-outcome=%s", []string{"ok", "syntax", "range", "other"}[ek]))
	c.o.Count("float-len=" + c03LenBucket(len(t)))
	c.o.Add(cs, c03Input{"float", c03Show(t), gen, len(t)}, "f"+t, ek != 1)
}

func c03Show(t string) string {
	if c03CleanField(t) && len(t) <= 2000 {
		return t
	}
	if len(t) > 2000 {
		return strconv.Quote(t[:1000]) + "...(" + strconv.Itoa(len(t)) + " bytes)..." + strconv.Quote(t[len(t)-500:])
	}
	return strconv.Quote(t)
}

func c03LenBucket(n int) string {
	switch {
	case n <= 8:
		return "1-8"
	case n <= 19:
		return "9-19"
	case n <= 40:
		return "20-40"
	case n <= 120:
		return "41-120"
	case n <= 400:
		return "121-400"
	case n <= 800:
		return "401-800"
	}
	return ">800"
}

var c03IntCalls = [][3]int{ // fn (0 ParseInt, 1 ParseUint), base, bitSize
	{0, 10, 64}, {0, 10, 0}, {1, 10, 64}, {0, 0, 64}, {1, 0, 64}, {0, 16, 64}, {1, 16, 64}, {0, 2, 8}, {1, 8, 16},
	{0, 36, 32}, {1, 36, 64}, {0, 10, 8}, {1, 10, 8}, {0, 0, 0}, {0, 10, 65}, {1, 10, 65}, {0, 1, 64}, {1, 37, 64},
	{0, 10, -1}, {1, 16, 32}, {0, 10, 1}, {1, 0, 16}, {0, 10, 63}, {1, 10, 63}, {0, -1, 64}, {0, 37, 65},
}

func (c *c03Ctx) icase(r *hx.Rng, gen, t string) {
	if c.seen["i"+t] {
		c.o.Count("dup")
		return
	}
	c.seen["i"+t] = true
	var av int
	var aerr error
	func() {
		defer func() {
			if p := recover(); p != nil {
				fmt.Fprintf(os.Stderr, "PANIC-INPUT Atoi %q: %v\n", t, p)
				aerr = errors.New("panic")
			}
		}()
		av, aerr = bc.Atoi([]byte(t))
	}()
	sv, serr := strconv.Atoi(t)
	rdr := hx.L()
	if c03CleanField(t) {
		res, syn, other := c03Read("BenchmarkX " + t + " 1 u\n")
		switch {
		case other:
			rdr = hx.L(hx.I(2))
		case syn && res == nil:
			rdr = hx.L(hx.I(1))
		case res != nil && !syn && len(res.Values) == 1 && res.Values[0].Unit == "u" && res.Values[0].Value == 1:
			rdr = hx.L(hx.I(0), hx.I(res.Iters))
		default:
			rdr = hx.L(hx.I(2))
		}
	}
	var calls []hx.Sx
	pick := [][3]int{c03IntCalls[0], c03IntCalls[2]}
	for j := 0; j < 3; j++ {
		pick = append(pick, c03IntCalls[r.Intn(len(c03IntCalls))])
	}
	for _, p := range pick {
		var v, s hx.Sx
		var e, se error
		func() {
			defer func() {
				if x := recover(); x != nil {
					fmt.Fprintf(os.Stderr, "PANIC-INPUT ParseInt/Uint %q %v: %v\n", t, p, x)
					e = errors.New("panic")
					v = hx.I(0)
				}
			}()
			if p[0] == 0 {
				x, err := bc.ParseInt([]byte(t), p[1], p[2])
				v, e = hx.Z(x), err
			} else {
				x, err := bc.ParseUint([]byte(t), p[1], p[2])
				v, e = hx.U(x), err
			}
		}()
		if p[0] == 0 {
			x, err := strconv.ParseInt(t, p[1], p[2])
			s, se = hx.Z(x), err
		} else {
			x, err := strconv.ParseUint(t, p[1], p[2])
			s, se = hx.U(x), err
		}
		calls = append(calls, hx.L(hx.I(p[0]), hx.I(p[1]), hx.I(p[2]), v, hx.Z(c03ErrKind(e)), s, hx.Z(c03ErrKind(se))))
	}
	ek := c03ErrKind(aerr)
	cs := hx.L(hx.I(1), hx.S(t), hx.L(hx.I(av), hx.Z(ek)), hx.L(hx.I(sv), hx.Z(c03ErrKind(serr))), rdr, hx.List(calls))
	c.o.Count("int:" + gen)
	c.o.Count(fmt.Sprintf("int-outcome=%s", []string{"ok", "syntax", "range", "other"}[ek]))
	c.o.Add(cs, c03Input{"int", c03Show(t), gen, len(t)}, "i"+t, ek != 1)
}

// ---------- exact decimal expansions ----------

// c03Exact returns the full decimal expansion of m * 2^e (m >= 0).
func c03Exact(m *big.Int, e int) (digits string, pointFromRight int) {
	if e >= 0 {
		return new(big.Int).Lsh(m, uint(e)).String(), 0
	}
	p := new(big.Int).Exp(big.NewInt(5), big.NewInt(int64(-e)), nil)
	return new(big.Int).Mul(m, p).String(), -e
}

// c03Place writes digits with the decimal point pointFromRight places from
// the right, in a randomly chosen notation (plain, or with an exponent).
func c03Place(r *hx.Rng, digits string, pfr int) string {
	digits = strings.TrimLeft(digits, "0")
	if digits == "" {
		digits = "0"
	}
	switch r.Intn(3) {
	case 0: // plain
		if pfr == 0 {
			return digits
		}
		if pfr >= len(digits) {
			return "0." + strings.Repeat("0", pfr-len(digits)) + digits
		}
		return digits[:len(digits)-pfr] + "." + digits[len(digits)-pfr:]
	case 1: // integer mantissa, exponent
		if pfr == 0 {
			return digits
		}
		return digits + "e-" + strconv.Itoa(pfr)
	default: // d.ddd e x
		x := len(digits) - 1 - pfr
		s := digits[:1]
		if len(digits) > 1 {
			s += "." + digits[1:]
		}
		if x == 0 && r.Bool() {
			return s
		}
		return s + "e" + strconv.Itoa(x)
	}
}

// c03Halfway emits the midpoint of f and its successor and its neighbours.
func (c *c03Ctx) halfway(r *hx.Rng, gen string, bits uint64, tails []int) {
	f := math.Float64frombits(bits)
	if math.IsInf(f, 0) || math.IsNaN(f) || f < 0 {
		return
	}
	// f = m * 2^e exactly; midpoint = (2m+1) * 2^(e-1)
	var m uint64
	var e int
	be := int(bits >> 52 & 0x7ff)
	if be == 0 {
		m, e = bits&(1<<52-1), -1074
	} else {
		m, e = bits&(1<<52-1)|1<<52, be-1075
	}
	mid := new(big.Int).SetUint64(m)
	mid.Lsh(mid, 1).Add(mid, big.NewInt(1))
	digits, pfr := c03Exact(mid, e-1)
	sign := ""
	if r.Chance(0.2) {
		sign = "-"
	}
	c.fcase(gen+"-mid", sign+c03Place(r, digits, pfr))
	d := new(big.Int)
	d.SetString(digits, 10)
	up := new(big.Int).Add(d, big.NewInt(1)).String()
	dn := new(big.Int).Sub(d, big.NewInt(1)).String()
	for len(dn) < len(digits) {
		dn = "0" + dn
	}
	c.fcase(gen+"-mid+1", sign+c03Place(r, up, pfr))
	c.fcase(gen+"-mid-1", sign+c03Place(r, dn, pfr))
	for _, k := range tails {
		// long tail of zeros then a 1: still above the midpoint
		c.fcase(gen+"-mid-tail", sign+c03Place(r, digits+strings.Repeat("0", k)+"1", pfr+k+1))
		// just below: (digits-1) followed by 9s
		c.fcase(gen+"-mid-nines", sign+c03Place(r, dn+strings.Repeat("9", k+1), pfr+k+1))
		// trailing zeros only: still the midpoint
		if k <= 40 {
			c.fcase(gen+"-mid-zeros", sign+c03Place(r, digits+strings.Repeat("0", k), pfr+k))
		}
	}
	// the floats themselves, exact
	fd, fp := c03Exact(new(big.Int).SetUint64(m), e)
	c.fcase(gen+"-exactfloat", sign+c03Place(r, fd, fp))
}

// halfway800 pads the midpoint above the float with zeros and a final 1 (or a
// run of nines below it) to a total of 798..803 significant digits.
func (c *c03Ctx) halfway800(r *hx.Rng, bits uint64) {
	f := math.Float64frombits(bits)
	if math.IsInf(f, 0) || math.IsNaN(f) || f < 0 {
		return
	}
	var m uint64
	var e int
	be := int(bits >> 52 & 0x7ff)
	if be == 0 {
		m, e = bits&(1<<52-1), -1074
	} else {
		m, e = bits&(1<<52-1)|1<<52, be-1075
	}
	mid := new(big.Int).SetUint64(m)
	mid.Lsh(mid, 1).Add(mid, big.NewInt(1))
	digits, pfr := c03Exact(mid, e-1)
	sig := len(strings.TrimLeft(digits, "0"))
	for _, total := range []int{798, 799, 800, 801, 802, 803} {
		k := total - sig - 1
		if k < 0 || (!(total == 800 || total == 801) && r.Chance(0.5)) {
			continue
		}
		c.fcase("halfway-800-tail", c03Place(r, digits+strings.Repeat("0", k)+"1", pfr+k+1))
		d := new(big.Int)
		d.SetString(digits, 10)
		dn := new(big.Int).Sub(d, big.NewInt(1)).String()
		for len(dn) < len(digits) {
			dn = "0" + dn
		}
		if r.Chance(0.5) {
			c.fcase("halfway-800-nines", c03Place(r, dn+strings.Repeat("9", k+1), pfr+k+1))
		}
	}
}

func c03RandDigits(r *hx.Rng, n int) string {
	b := make([]byte, n)
	for i := range b {
		b[i] = byte('0' + r.Intn(10))
	}
	return string(b)
}

func c03RandFloatBits(r *hx.Rng) uint64 {
	// uniformly over binary exponents (incl. subnormals), random mantissa with
	// a bias to few-bit and all-ones mantissas
	be := uint64(r.Intn(2047))
	var mant uint64
	switch r.Intn(6) {
	case 0:
		mant = 0
	case 1:
		mant = 1<<52 - 1
	case 2:
		mant = uint64(1) << uint(r.Intn(52))
	default:
		mant = r.U64() & (1<<52 - 1)
	}
	return be<<52 | mant
}

// c03Tables reads the data tables of the slow decimal path from the source text
// of the tree under test (the package is internal and the tables unexported):
// leftcheats (decimal.go), powtab (atof.go), the digit buffer size and
// float64info. The Coq side compares them with the tables of Model/Decimal.v
// and checks the property of leftcheats that the shift proofs rely on. A source
// layout this reader does not recognise is counted, not reported.
func c03Tables(o *hx.Out) {
	root := os.Getenv("VERIF_REPO")
	if root == "" {
		root = "/repo"
	}
	dir := filepath.Join(root, "benchfmt", "internal", "bytesconv")
	dec, err1 := os.ReadFile(filepath.Join(dir, "decimal.go"))
	atof, err2 := os.ReadFile(filepath.Join(dir, "atof.go"))
	ftoa, err3 := os.ReadFile(filepath.Join(dir, "ftoa.go"))
	if err1 != nil || err2 != nil || err3 != nil {
		o.Count("tables=unreadable")
		return
	}
	start := regexp.MustCompile(`(?m)^var leftcheats = \[\]leftCheat\{`).FindIndex(dec)
	if start == nil {
		o.Count("tables=unrecognised")
		return
	}
	body := dec[start[1]:]
	if end := bytes.Index(body, []byte("\n}")); end >= 0 {
		body = body[:end]
	}
	var cheats []hx.Sx
	for _, m := range regexp.MustCompile(`(?m)^\s*\{(\d+), "(\d*)"\},`).FindAllSubmatch(body, -1) {
		d, _ := strconv.Atoi(string(m[1]))
		cheats = append(cheats, hx.L(hx.I(d), hx.B(m[2])))
	}
	pm := regexp.MustCompile(`(?m)^var powtab = \[\]int\{([0-9, ]+)\}`).FindSubmatch(atof)
	bm := regexp.MustCompile(`(?m)^\s*d\s+\[(\d+)\]byte`).FindSubmatch(dec)
	fm := regexp.MustCompile(`(?m)^var float64info = floatInfo\{(\d+), (\d+), (-?\d+)\}`).FindSubmatch(ftoa)
	if len(cheats) == 0 || pm == nil || bm == nil || fm == nil {
		o.Count("tables=unrecognised")
		return
	}
	var pt []hx.Sx
	for _, f := range strings.Split(string(pm[1]), ",") {
		v, err := strconv.Atoi(strings.TrimSpace(f))
		if err != nil {
			o.Count("tables=unrecognised")
			return
		}
		pt = append(pt, hx.I(v))
	}
	var consts []hx.Sx
	for _, f := range [][]byte{bm[1], fm[1], fm[2], fm[3]} {
		v, _ := strconv.Atoi(string(f))
		consts = append(consts, hx.I(v))
	}
	o.Count("tables=read")
	o.Add(hx.L(hx.I(2), hx.List(cheats), hx.List(pt), hx.List(consts)),
		c03Input{"tables", "leftcheats/powtab/float64info of benchfmt/internal/bytesconv", "tables", len(cheats)}, "tables", true)
}

// c03Extra is set by c03_decimal.go (build tag verifdecimal, which needs the bridge
// extension hooks/verifbridge_decimal.go + hooks/bytesconv_decimal_verif_export.go
// installed in the tree under test): operation-by-operation comparison of
// decimal.go with its transcription.
var c03Extra func(o *hx.Out, r *hx.Rng, tier string)

func genC03(o *hx.Out, r *hx.Rng, tier string, replay string) error {
	o.Rule = "numeric texts: integers of 1-25 digits around 2^53, 2^63, 2^64, 10^18, 10^19 and the reader's fast-path guard; " +
		"decimals with 1-400 significant digits (more than 800 in thorough) and exponents over -345..+310; exact halfway points " +
		"between adjacent floats printed in full, +-1 in the last place, with tails of zeros then 1 and of nines; subnormal and overflow " +
		"boundaries; hex floats with more than 53 / more than 64 mantissa bits; all spellings and near-misses of inf/nan, underscores, " +
		"signs; byte-level mutations of valid texts. Each text goes through bytesconv.ParseFloat or Atoi/ParseInt/ParseUint, through strconv, " +
		"and through benchfmt.Reader as a measurement or iteration count. non-trivial = not a syntax error; distinct by text"
	c := &c03Ctx{o: o, seen: map[string]bool{}}
	c03Tables(o)
	th := tier == "thorough"
	scale := func(q, t int) int {
		if th {
			return t
		}
		return q
	}
	two := func(k uint) *big.Int { return new(big.Int).Lsh(big.NewInt(1), k) }
	ten := func(k int64) *big.Int { return new(big.Int).Exp(big.NewInt(10), big.NewInt(k), nil) }

	// ---- integers (as measurements: fast path and its guard; as iteration counts) ----
	anchors := []*big.Int{two(52), two(53), two(54), two(62), two(63), two(64), ten(15), ten(16), ten(18), ten(19), ten(20), ten(22), ten(23),
		big.NewInt(922337203685477579), big.NewInt(922337203685477580), new(big.Int).SetUint64(9223372036854775799),
		big.NewInt(0), big.NewInt(1), ten(24)}
	for _, a := range anchors {
		for d := int64(-3); d <= 3; d++ {
			v := new(big.Int).Add(a, big.NewInt(d))
			s := v.String()
			c.fcase("int-anchor", s)
			c.icase(r, "anchor", s)
			if v.Sign() > 0 {
				c.icase(r, "anchor", "-"+s)
				c.icase(r, "anchor", "+"+s)
				c.fcase("int-anchor", "-"+s)
				c.fcase("int-anchor", "+"+s)
			}
			if d == 0 || d == 1 {
				z := strings.Repeat("0", r.Range(1, 24))
				c.fcase("int-leading-zeros", z+s)
				c.icase(r, "leading-zeros", z+s)
				c.icase(r, "leading-zeros", "-"+z+s)
			}
		}
	}
	for i := 0; i < scale(250, 4000); i++ {
		n := r.Range(1, 25)
		s := c03RandDigits(r, n)
		c.fcase("int-random", s)
		c.icase(r, "random", s)
		if r.Chance(0.3) {
			c.icase(r, "random", "-"+s)
		}
	}
	// integer halfway points between 2^53 and 2^64: odd multiples of a power of two
	for i := 0; i < scale(150, 3000); i++ {
		e := r.Range(0, 11)
		m := r.U64()&(1<<52-1) | 1<<52 // 53-bit
		mid := new(big.Int).SetUint64(m)
		mid.Lsh(mid, 1).Add(mid, big.NewInt(1)).Lsh(mid, uint(e))
		for d := int64(-1); d <= 1; d++ {
			c.fcase("int-halfway", new(big.Int).Add(mid, big.NewInt(d)).String())
		}
	}
	// ---- iteration count oddities ----
	for _, s := range []string{"", "+", "-", "+0", "-0", "00", "1_000", "1_0", "_1", "1_", "0x10", "0b1", "0o7", "12a", "a12", " 12", "12 ", "1e3",
		"1.0", "١٢", "１２", "--1", "+-1", "-+1", "1-", "999999999999999999999999x", "99999999999999999999x", "18446744073709551616x",
		"18446744073709551615x", "-99999999999999999999999x", "99999999999999999999999_9", "99999999999999999999999_", "9_9999999999999999999999",
		"0000000000000000000_1", "000000000000000000000", "-000000000000000000000", "+000000000000000000009", "123456789012345678", "1234567890123456789",
		"-123456789012345678", "-12345678901234567", "+12345678901234567", "+123456789012345678", "999999999999999999", "-999999999999999999",
		"12345678901234567a", "a2345678901234567", "1234567890123456 7", "\x00", "1\x00", "\xff", "0x", "0X_1", "0x_ff", "0b101", "0B_1", "0o17", "017", "0_17", "0_",
		"0xFFFFFFFFFFFFFFFF", "0x1_0000_0000_0000_0000", "-0x8000000000000000", "0x8000000000000000", "zz", "Zz", "-zz", "z_z", "0z", "08", "0b2",
		"0x7FFFFFFFFFFFFFFF", "-0x8000000000000001", "255", "256", "-128", "-129", "127", "128", "65535", "65536", "0377", "0o400", "0b11111111", "0b100000000",
		"1y2p0ij32e8e7", "1y2p0ij32e8e8", "3w5e11264sgsf", "3w5e11264sgsg", "zik0zj", "zik0zk", "4294967295", "4294967296", "2147483647", "2147483648", "-2147483648", "-2147483649"} {
		c.icase(r, "oddity", s)
	}
	for i := 0; i < scale(300, 5000); i++ {
		// mutated integers
		base := []string{"123", "9223372036854775807", "-9223372036854775808", "18446744073709551615", "000000000000000000012", "99999999999999999999", "+17", "0x1f", "0b1_0", "1_000_000"}[r.Intn(10)]
		c.icase(r, "mutated", c03Mutate(r, base, "0123456789+-_xXbBoOaAfFzZ .e"))
	}

	// ---- decimals with many digits ----
	maxDigits := scale(400, 400)
	for i := 0; i < scale(500, 8000); i++ {
		var nd int
		switch r.Intn(4) {
		case 0:
			nd = r.Range(1, 17)
		case 1:
			nd = r.Range(15, 22)
		case 2:
			nd = r.Range(1, 60)
		default:
			nd = r.Range(1, maxDigits)
		}
		c.fcase("decimal", c03RandDecimal(r, nd))
	}
	if th {
		for i := 0; i < 600; i++ {
			c.fcase("decimal-long", c03RandDecimal(r, r.Range(760, 2500)))
		}
	} else {
		for i := 0; i < 8; i++ {
			c.fcase("decimal-long", c03RandDecimal(r, r.Range(780, 1000)))
		}
	}
	// ---- exponent sweep ----
	for k := -345; k <= 310; k++ {
		c.fcase("exp-sweep", "1e"+strconv.Itoa(k))
		c.fcase("exp-sweep", c03RandDigits(r, 1)+"."+c03RandDigits(r, r.Range(1, 18))+"e"+strconv.Itoa(k))
		if th {
			c.fcase("exp-sweep", "9."+strings.Repeat("9", r.Range(1, 30))+"E"+strconv.Itoa(k))
			c.fcase("exp-sweep", c03RandDigits(r, r.Range(1, 40))+"e"+strconv.Itoa(k))
		}
	}
	// ---- exact-path boundaries: mantissa around 2^52/2^53, exponents around +-22 and 37 ----
	for _, m := range []uint64{1, 2, 9, 1<<52 - 1, 1 << 52, 1<<52 + 1, 1<<53 - 1, 1 << 53, 1<<53 + 1, 999999999999999, 1000000000000000, 1000000000000001, 4503599627370495, 123456789012345} {
		for _, e := range []int{-24, -23, -22, -21, -1, 0, 1, 15, 21, 22, 23, 24, 30, 36, 37, 38} {
			c.fcase("exact-path", strconv.FormatUint(m, 10)+"e"+strconv.Itoa(e))
			if e < 0 && -e <= 19 {
				s := strconv.FormatUint(m, 10)
				for len(s) <= -e {
					s = "0" + s
				}
				c.fcase("exact-path", s[:len(s)+e]+"."+s[len(s)+e:])
			}
		}
	}
	for i := 0; i < scale(300, 5000); i++ {
		m := r.U64() >> uint(r.Range(10, 63))
		e := r.Range(-25, 40)
		c.fcase("exact-path-random", strconv.FormatUint(m, 10)+"e"+strconv.Itoa(e))
	}
	// the two-step exact path (22 < exp <= 37): m * 10^(exp-22) around the 1e15 limit and up to 1e18
	for i := 0; i < scale(400, 6000); i++ {
		e := r.Range(23, 38)
		j := e - 22
		// target f in [1e13, 1e18), m = f / 10^j
		f := new(big.Int).SetUint64(r.U64() % 1000000000000000000)
		lo := ten(int64(r.Range(13, 17)))
		if f.Cmp(lo) < 0 {
			f.Add(f, lo)
		}
		m := new(big.Int).Div(f, ten(int64(j)))
		if m.Sign() == 0 || m.BitLen() > 52 {
			continue
		}
		c.fcase("exact-path-two-step", m.String()+"e"+strconv.Itoa(e))
	}
	// 19/20-digit mantissas: truncation flag
	for i := 0; i < scale(100, 1500); i++ {
		s := c03RandDigits(r, r.Range(18, 22))
		if r.Bool() {
			s += strings.Repeat("0", r.Range(1, 6))
		}
		k := r.Range(0, len(s))
		c.fcase("trunc19", s[:k]+"."+s[k:]+[]string{"", "e5", "e-5", "e22", "e-30"}[r.Intn(5)])
	}

	// ---- exact halfway cases ----
	tails := []int{1, 7, 30, 120}
	if th {
		tails = []int{1, 7, 30, 120, 400, 810, 1200}
	}
	for i := 0; i < scale(110, 1200); i++ {
		tl := tails
		if !th {
			tl = []int{tails[r.Intn(len(tails))]}
		}
		c.halfway(r, "halfway", c03RandFloatBits(r), tl)
	}
	// halfway points padded so that the text has 798..803 significant digits, the last one a 1:
	// the boundary of the slow path's 800-digit buffer (sticky digit from the scanner or from a shift)
	for i := 0; i < scale(24, 600); i++ {
		c.halfway800(r, c03RandFloatBits(r))
	}
	// ---- subnormal and overflow boundaries ----
	for _, b := range []uint64{0, 1, 2, 3, 1<<52 - 2, 1<<52 - 1, 1 << 52, 1<<52 + 1, 0x7FEFFFFFFFFFFFFE, 0x7FEFFFFFFFFFFFFF, 0x7FE0000000000000,
		0x3FF0000000000000, 0x3FEFFFFFFFFFFFFF, 0x4340000000000000, 0x433FFFFFFFFFFFFF, 0x0010000000000000 - 1} {
		if th {
			c.halfway(r, "boundary", b, tails)
		}
		c.halfway(r, "boundary", b, []int{3, tails[r.Intn(len(tails))]})
	}
	big := scale(1300, 11000) // long runs of zeros: the exponent must compensate exactly
	for _, s := range []string{"4.9e-324", "4.94065645841246544e-324", "2.4703282292062327e-324", "2.4703282292062328e-324", "2.47032822920623272e-324",
		"2.2250738585072014e-308", "2.2250738585072011e-308", "2.2250738585072012e-308", "1.7976931348623157e308", "1.7976931348623158e308",
		"1.7976931348623159e308", "1.797693134862315807e308", "1.797693134862315808e308", "1.8e308", "1e309", "1e310", "1e311", "-1e400", "1e-400",
		"1e-330", "1e-331", "1e-332", "0.1e-330", "10e-331", "1e99999", "1e-99999", "0e99999", "1e100000", "1e-100000", "1e10000", "1e9999", "1e10001",
		"0e100000", "-0", "+0", "0.0", "-0.0e5", "0e-5", ".0", "0.", "-.0", "00000", "0.00000000000000000000000000000000000000001",
		"1e00000000000000000005", "1e-00000000000000000005", "1e+0", "1E5", "1e5", "1.e5", ".5e1", "5.e-1",
		"179769313486231570814527423731704356798070567525844996598917476803157260780028538760589558632766878171540458953514382464234321326889464182768467546703537516986049910576551282076245490090389328944075868508455133942304583236903222948165808559332123348274797826204144723168738177180919299881250404026184124858368",
		"179769313486231580793728971405303415079934132710037826936173778980444968292764750946649017977587207096330286416692887910946555547851940402630657488671505820681908902000708383676273854845817711531764475730270069855571366959622842914819860834936475292719074168444365510704342711559699508093042880177904174497791",
		"179769313486231580793728971405303415079934132710037826936173778980444968292764750946649017977587207096330286416692887910946555547851940402630657488671505820681908902000708383676273854845817711531764475730270069855571366959622842914819860834936475292719074168444365510704342711559699508093042880177904174497792",
		"0." + strings.Repeat("0", 400) + "1e401", "1" + strings.Repeat("0", 400) + "e-400", "1" + strings.Repeat("0", 308), "1" + strings.Repeat("0", 309),
		"0." + strings.Repeat("0", big) + "1e" + strconv.Itoa(big+1), "1" + strings.Repeat("0", big) + "e-" + strconv.Itoa(big), strings.Repeat("0", big/2) + "1", "0." + strings.Repeat("0", big/2),
	} {
		c.fcase("boundary-literal", s)
		c.fcase("boundary-literal", "-"+s)
	}

	// ---- hex floats ----
	for i := 0; i < scale(400, 6000); i++ {
		c.fcase("hex", c03RandHex(r))
	}
	for i := 0; i < scale(150, 2000); i++ {
		// 1.<13 hex digits><round digits> : ties and near-ties at bit 53
		mant := fmt.Sprintf("%013x", r.U64()&(1<<52-1))
		tail := []string{"8", "80", "8000000000000000", "80000000000000000000001", "7fffffffffffffffffffff", "7", "9", "4", "c", "800000000000000000000000", "08", "f8",
			"8000000000000000000000a", "800000000000000000000f00", "80000c", "800000000000000000000000000000000000000000000b", "7ffffffffffffffffffffffe", "8a"}[r.Intn(18)]
		p := r.Range(-1100, 1030)
		lead := []string{"1", "1", "1", "3", "f", "0"}[r.Intn(6)]
		c.fcase("hex-tie", "0x"+lead+"."+mant+tail+"p"+strconv.Itoa(p))
	}
	for _, s := range []string{"0x1p0", "0X1P0", "0x1p-1074", "0x1p-1075", "0x1.8p-1075", "0x1.0000000000001p-1075", "0x0.8p-1074", "0x1p-1076", "0x3p-1076",
		"0x1.fffffffffffffp1023", "0x1.fffffffffffff8p1023", "0x1.fffffffffffff7ffffffffp1023", "0x1p1024", "0x1p1023", "0x0p0", "-0x0p0", "0x0p99999", "0x0.0p-99999",
		"0x1p99999", "0x1p-99999", "0x1p100000", "0x1p-100000", "0x.8p1", "0x8.p-3", "0x1_0p0", "0x_1p0", "0x1p0_0", "0x1p+0", "0x1p-0", "0x1.p1", "0x.1p1",
		"0x00000000000000000000001p0", "0x10000000000000000000000p0", "0x1.00000000000000000000001p0", "0xffffffffffffffffp0", "0xffffffffffffffff1p0",
		"0xfffffffffffff8p0", "0x1fffffffffffffp0", "0x3fffffffffffffp0", "0x20000000000001p0", "0x20000000000003p0", "0x.00000000000000000000001p100",
		"0x1.fffffffffffffp-1023", "0x0.fffffffffffffp-1022", "0x0.fffffffffffff8p-1022", "0x0.fffffffffffff7p-1022", "0x1.ffffffffffffep-1023", "0x1.ffffffffffffe8p-1023",
		"0xAbCdEfp0", "0xabcdefP0", "0x1e5", "0x1e5p1", "0x1p5e1", "0x1p", "0x1p+", "0x1p-", "0xp1", "0x.p1", "0x", "0X", "0x.", "0x1", "0x1.8", "0x1.8p", "0xgp1", "0x1.8.p1",
		"0x1p1p1", "0x1p1.0", "00x1p0", "0x-1p0", "-0x1p0", "+0x1p0", "+-0x1p0", "0x1P0x", "1p5", "0x1_p0", "0x1p_0", "0x1p0_", "0x__1p0", "0_x1p0", "0x1._8p0", "0x1_.8p0",
		"0x1_fp0", "0x1p0_a", "0x1p0a", "0x1pa"} {
		c.fcase("hex-literal", s)
	}

	// ---- spellings ----
	for _, w := range []string{"inf", "nan"} {
		for mask := 0; mask < 8; mask++ {
			b := []byte(w)
			for i := range b {
				if mask>>uint(i)&1 == 1 {
					b[i] -= 32
				}
			}
			for _, sg := range []string{"", "+", "-"} {
				c.fcase("special", sg+string(b))
			}
		}
	}
	ninf := 256
	for mask := 0; mask < ninf; mask++ {
		if !th && mask%5 != 0 && mask != 255 && mask != 1 {
			continue
		}
		b := []byte("infinity")
		for i := range b {
			if mask>>uint(i)&1 == 1 {
				b[i] -= 32
			}
		}
		c.fcase("special", []string{"", "+", "-"}[mask%3]+string(b))
	}
	for _, s := range []string{"", " ", "i", "in", "infi", "infin", "infini", "infinit", "infinityy", "infinity ", "inf ", " inf", "nan ", "nann", "na", "n", "+nan", "-nan", "++inf", "+-inf", "-+inf", "--inf",
		"inf_", "i_nf", "in_f", "_inf", "1nf", "Inf1", "inf1", "infe5", "inf.0", "0inf", "+", "-", "+i", "-n", "∞", "+∞", "ınf", "İnf", "NaN", "NAN", "Nan", "nAN", "Infinity", "INFINITY", "-Infinity", "+INF",
		"1_0", "_10", "10_", "1__0", "1_.0", "1._0", "1.0_", "1.0_0", "1_e5", "1e_5", "1e5_", "1e5_0", "1e+_5", "1e+5_0", "1e_+5", "0b_1", "0o_7", "0b1", "0o7", "0_1", "0_0", "+_1", "_", "__", "1_000_000.000_001e1_0",
		"1_2_3_4_5", "1_2.3_4e5_6", "._5", "5_.", "+1", "-1", "+-1", "--1", "++1", "1+", "1-", "1e+", "1e-", "1e", "1e+5", "1e-5", "1e++5", "1e+-5", "e5", ".e5", "e", "E", ".", "..", "1..2", "1.2.3", ".5.", "1e5e5",
		"1e5.5", "1e.5", "1.5e", " 1", "1 ", "1 2", "1\t", "\t1", "1\n", "1\x00", "\x001", "1\xff", "\xff", "١", "１", "1,5", "1'000", "1d5", "1f", "1.5f", "0x1.8p1f", "1e5L", "1D5", "$1", "1%", "1/2", "½",
		"(1)", "1.0.0", "1e1e", "1ee1", "1E+E", "+.", "-.", "+.e1", "0e", "0e+", "-e1", ".e", "0..", "00.00", "0_0.0_0", "0.e0", "0_.0", "0._0", "00_", "0x_", "0x_p1", "0b", "0o", "0B1", "0O1"} {
		c.fcase("spelling", s)
	}
	// ---- hostile stream: byte-level mutations of valid texts ----
	seeds := []string{"1.5", "123456789", "1e10", "-1.25e-7", "0x1.8p3", "inf", "-Infinity", "nan", "1_000.5", "9007199254740993", "0.000001", "179769313486231570000e290",
		"4.9406564584124654e-324", "0x1p-1074", "+1.7976931348623157e+308", "922337203685477580"}
	for i := 0; i < scale(900, 20000); i++ {
		c.fcase("mutated", c03Mutate(r, seeds[r.Intn(len(seeds))], "0123456789.eEpPxX+-_infatyINFATY 0000"))
	}
	if c03Extra != nil {
		c03Extra(o, r.Split(), tier)
	}
	return nil
}

func c03RandDecimal(r *hx.Rng, nd int) string {
	ds := c03RandDigits(r, nd)
	if r.Chance(0.15) {
		// long runs of one digit
		ds = strings.Repeat(string(rune('0'+r.Intn(10))), nd)
		if nd > 2 {
			ds = c03RandDigits(r, 1) + ds[1:nd-1] + c03RandDigits(r, 1)
		}
	}
	// choose the decimal magnitude (position of the leading digit) in -345..310
	mag := r.Range(-345, 310)
	switch r.Intn(5) {
	case 0:
		mag = r.Range(-30, 30)
	case 1:
		mag = r.Range(-330, -300)
	case 2:
		mag = r.Range(290, 310)
	}
	sign := []string{"", "", "", "-", "+"}[r.Intn(5)]
	switch r.Intn(3) {
	case 0: // d.ddd e mag
		s := ds[:1]
		if nd > 1 {
			s += "." + ds[1:]
		}
		return sign + s + c03ExpMark(r, "eE", mag) + strconv.Itoa(mag)
	case 1: // ddd e x
		return sign + ds + "e" + strconv.Itoa(mag-nd+1)
	default: // plain positional when reasonable
		if mag >= 0 && mag < 400 {
			if mag+1 >= nd {
				return sign + ds + strings.Repeat("0", mag+1-nd)
			}
			return sign + ds[:mag+1] + "." + ds[mag+1:]
		}
		if mag < 0 && mag > -400 {
			return sign + "0." + strings.Repeat("0", -mag-1) + ds
		}
		return sign + "." + ds + "e" + strconv.Itoa(mag+1)
	}
}

func c03ExpMark(r *hx.Rng, marks string, e int) string {
	m := string(marks[r.Intn(len(marks))])
	if e >= 0 && r.Chance(0.3) {
		m += "+"
	}
	return m
}

func c03RandHex(r *hx.Rng) string {
	n := r.Range(1, 40)
	switch r.Intn(4) {
	case 0:
		n = r.Range(13, 18)
	case 1:
		n = r.Range(1, 8)
	}
	const hexd = "0123456789abcdefABCDEF"
	b := make([]byte, n)
	for i := range b {
		b[i] = hexd[r.Intn(len(hexd))]
	}
	if r.Chance(0.2) {
		for i := n / 2; i < n; i++ {
			b[i] = '0'
		}
		if r.Bool() {
			b[n-1] = '1'
		}
	}
	s := string(b)
	k := r.Range(0, n)
	if r.Chance(0.7) {
		s = s[:k] + "." + s[k:]
	}
	if r.Chance(0.1) && len(s) > 2 {
		j := r.Range(1, len(s)-1)
		s = s[:j] + "_" + s[j:]
	}
	p := r.Range(-1200, 1100)
	switch r.Intn(4) {
	case 0:
		p = r.Range(-40, 40)
	case 1:
		p = -1074 - 4*(k-1) + r.Range(-60, 8)
	case 2:
		p = 1023 - 4*(k-1) + r.Range(-8, 8)
	}
	sign := []string{"", "", "-", "+"}[r.Intn(4)]
	return sign + []string{"0x", "0X"}[r.Intn(2)] + s + c03ExpMark(r, "pP", p) + strconv.Itoa(p)
}

func c03Mutate(r *hx.Rng, s, alphabet string) string {
	b := []byte(s)
	n := 1 + r.Intn(3)
	for j := 0; j < n; j++ {
		ch := alphabet[r.Intn(len(alphabet))]
		if r.Chance(0.03) {
			ch = byte(r.Intn(256))
		}
		switch r.Intn(4) {
		case 0: // insert
			k := r.Intn(len(b) + 1)
			b = append(b[:k], append([]byte{ch}, b[k:]...)...)
		case 1: // delete
			if len(b) > 0 {
				k := r.Intn(len(b))
				b = append(b[:k], b[k+1:]...)
			}
		case 2: // replace
			if len(b) > 0 {
				b[r.Intn(len(b))] = ch
			}
		default: // duplicate a slice
			if len(b) > 1 {
				k := r.Intn(len(b) - 1)
				l := r.Range(1, len(b)-k)
				b = append(b[:k+l], append(append([]byte{}, b[k:k+l]...), b[k+l:]...)...)
			}
		}
	}
	return string(b)
}
