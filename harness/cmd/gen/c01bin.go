package main

// C01, additional routes:
//   (c) the REAL cmd/benchfilter binary (built from the module under test) on
//       generated files / stdin with the queries "*", key:value and .unit:lit;
//   (d) one Reader reused through Reset (with and without initial labels that
//       collide with the first key of the input) streamed into one Writer;
//   plus the "churn" text generator: few keys whose values change between
//       results to other values of the SAME length (value buffer reuse while
//       the same Result object is streamed reader -> writer).

import (
	"bytes"
	"fmt"
	"os"
	"os/exec"
	"path/filepath"
	"strconv"
	"strings"

	"golang.org/x/perf/benchfmt"
	"golang.org/x/perf/benchproc"
	"verifharness/internal/hx"
)

// buildBenchfilter builds the real cmd/benchfilter binary from the module under test.
func buildBenchfilter() (string, error) {
	work := os.Getenv("VERIF_WORK")
	if work == "" {
		work = os.TempDir()
	}
	exe := filepath.Join(work, "benchfilter")
	cmd := exec.Command("go", "build", "-o", exe, "golang.org/x/perf/cmd/benchfilter")
	cmd.Dir = harnessDir()
	out, err := cmd.CombinedOutput()
	if err != nil {
		return "", fmt.Errorf("building benchfilter: %v\n%s", err, out)
	}
	return exe, nil
}

type c01Query struct {
	Kind int    `json:"kind"` // 0 "*", 1 key:value, 2 .unit:literal
	Key  string `json:"key,omitempty"`
	Val  string `json:"val,omitempty"`
}

func (q c01Query) String() string {
	switch q.Kind {
	case 1:
		return strconv.Quote(q.Key) + ":" + strconv.Quote(q.Val)
	case 2:
		return ".unit:" + strconv.Quote(q.Val)
	}
	return "*"
}

func (q c01Query) sx() hx.Sx {
	switch q.Kind {
	case 1:
		return hx.L(hx.I(1), hx.S(q.Key), hx.S(q.Val))
	case 2:
		return hx.L(hx.I(2), hx.S(q.Val))
	}
	return hx.L(hx.I(0))
}

type c01BinInput struct {
	Kind  string    `json:"kind"` // benchfilter-binary
	Files []c02File `json:"files"`
	Paths []string  `json:"paths"`
	Stdin bool      `json:"stdin,omitempty"`
	Query string    `json:"query"`
}

// c01Scan is what the in-process reference reading of the inputs saw.
type c01Scan struct {
	ob       *c02Obs
	ft       *c01Fmt
	crValue  bool
	crRes    []*benchfmt.Result // copies of the results carrying a file value that ends in CR
	sameLen  int                // max over keys: changes of a file value to another value of the same length between results
	cfgs     [][2]string        // (key, value) of every configuration entry seen on a result
	units    []string           // every unit / original unit seen
	fileErr  error
	nresults int
}

// c01ScanFiles reads the inputs in process through benchfmt.Files exactly as
// cmd/benchfilter configures it (AllowStdin, AllowLabels); with stdin != nil
// os.Stdin is replaced for the duration.
func c01ScanFiles(paths []string, stdin *os.File) (*c01Scan, error) {
	if stdin != nil {
		old := os.Stdin
		os.Stdin = stdin
		defer func() { os.Stdin = old }()
	}
	sc := &c01Scan{ob: &c02Obs{}, ft: &c01Fmt{seen: map[uint64]bool{}}}
	files := benchfmt.Files{Paths: paths, AllowStdin: true, AllowLabels: true}
	last := map[string]string{}
	changes := map[string]int{}
	for files.Scan() {
		rec := files.Result()
		if e := sc.ob.add(rec); e != nil {
			return nil, e
		}
		res, ok := rec.(*benchfmt.Result)
		if !ok {
			continue
		}
		sc.nresults++
		for _, v := range res.Values {
			if v.OrigUnit == "" {
				sc.ft.add(v.Value)
			} else {
				sc.ft.add(v.OrigValue)
				sc.units = append(sc.units, v.OrigUnit)
			}
			sc.units = append(sc.units, v.Unit)
		}
		for _, c := range res.Config {
			if c.File && len(c.Value) > 0 && c.Value[len(c.Value)-1] == '\r' {
				sc.crRes = append(sc.crRes, res.Clone())
				sc.crValue = true
			}
			sc.cfgs = append(sc.cfgs, [2]string{c.Key, string(c.Value)})
			if !c.File {
				continue
			}
			if old, ok := last[c.Key]; ok && old != string(c.Value) && len(old) == len(c.Value) {
				changes[c.Key]++
				if changes[c.Key] > sc.sameLen {
					sc.sameLen = changes[c.Key]
				}
			}
			last[c.Key] = string(c.Value)
		}
	}
	sc.fileErr = files.Err()
	return sc, nil
}

// c01Bin runs the real binary on the files with every query and emits one case per query.
func c01Bin(o *hx.Out, r *hx.Rng, exe, dir string, names, contents, paths []string, stdin bool, tags ...string) error {
	var fsx []hx.Sx
	var cfiles []c02File
	for i, n := range names {
		if e := os.WriteFile(filepath.Join(dir, n), []byte(contents[i]), 0o644); e != nil {
			return e
		}
		cfiles = append(cfiles, c02File{Name: n, Content: strconv.Quote(contents[i])})
	}
	defer func() {
		for _, n := range names {
			os.Remove(filepath.Join(dir, n))
		}
	}()
	if stdin {
		fsx = append(fsx, hx.L(hx.S("-"), hx.S(contents[0])))
	} else {
		for i, n := range names {
			fsx = append(fsx, hx.L(hx.S(n), hx.S(contents[i])))
		}
	}
	var sc *c01Scan
	var err error
	if stdin {
		f, e := os.Open(filepath.Join(dir, names[0]))
		if e != nil {
			return e
		}
		sc, err = c01ScanFiles(nil, f)
		f.Close()
	} else {
		sc, err = c01ScanFiles(paths, nil)
	}
	if err != nil {
		return err
	}
	if sc.fileErr != nil {
		o.Count("bin:skipped-io-error")
		return nil
	}
	baseTags := tags
	if sc.sameLen >= 3 {
		o.Count("class:bin:file-value-changes-to-same-length>=3")
	}
	// the queries: "*", a key filter and a .unit filter, mostly naming something present
	qs := []c01Query{{Kind: 0}}
	kq := c01Query{Kind: 1, Key: c02Keys[r.Intn(len(c02Keys))], Val: c02KVals[r.Intn(len(c02KVals))]}
	if len(sc.cfgs) > 0 && r.Chance(0.8) {
		kv := sc.cfgs[r.Intn(len(sc.cfgs))]
		kq.Key, kq.Val = kv[0], kv[1]
	}
	if r.Chance(0.05) {
		kq.Val = ""
	}
	qs = append(qs, kq)
	uq := c01Query{Kind: 2, Val: []string{"ns/op", "sec/op", "MB/s", "B/s", "B/op", "widgets", "sec"}[r.Intn(7)]}
	if len(sc.units) > 0 && r.Chance(0.7) {
		uq.Val = sc.units[r.Intn(len(sc.units))]
	}
	qs = append(qs, uq)
	for _, q := range qs {
		flt, e := benchproc.NewFilter(q.String())
		if e != nil {
			o.Count("bin:query-unparsable")
			continue
		}
		// known finding C01_value_ends_with_CR: tagged iff a result that the query keeps carries such a value
		tags := append([]string{}, baseTags...)
		for _, cr := range sc.crRes {
			if ok, _ := flt.Apply(cr.Clone()); ok {
				tags = append(tags, "C01_value_ends_with_CR")
				o.Count("class:file-value-ends-with-CR")
				break
			}
		}
		args := []string{q.String()}
		if !stdin {
			args = append(args, paths...)
		}
		cmd := exec.Command(exe, args...)
		cmd.Dir = dir
		var so, se bytes.Buffer
		cmd.Stdout, cmd.Stderr = &so, &se
		if stdin {
			f, e := os.Open(filepath.Join(dir, names[0]))
			if e != nil {
				return e
			}
			cmd.Stdin = f
			e = cmd.Run()
			f.Close()
			err = e
		} else {
			err = cmd.Run()
		}
		exit := 0
		if err != nil {
			if ee, ok := err.(*exec.ExitError); ok {
				exit = ee.ExitCode()
				if exit == 0 {
					exit = -1
				}
			} else {
				return fmt.Errorf("running benchfilter: %v", err)
			}
		}
		out := so.Bytes()
		rb, errx, e := c01ReadBack(out)
		if e != nil {
			return e
		}
		in := c01BinInput{Kind: "benchfilter-binary", Files: cfiles, Paths: paths, Stdin: stdin, Query: q.String()}
		key := "bin\x01" + q.String() + "\x01" + strconv.FormatBool(stdin) + strings.Join(paths, "\x00") + "\x01" + strings.Join(contents, "\x00")
		c := hx.L(hx.I(4), c02Oracle(append(append([]string{}, contents...), string(out))), hx.List(sc.ft.out), hx.List(fsx), hx.SList(paths),
			hx.Bool(stdin), q.sx(), hx.List(sc.ob.recs), hx.I(exit), hx.B(out), hx.List(rb.recs), errx)
		o.Count(fmt.Sprintf("bin:query-kind=%d", q.Kind))
		if stdin {
			o.Count("bin:stdin")
		}
		switch {
		case rb.nres == 0:
			o.Count("bin:output-results=none")
		case rb.nres < sc.nresults:
			o.Count("bin:output-results=subset")
		default:
			o.Count("bin:output-results=all")
		}
		o.Dist["bin:unit-metadata-in"] += sc.ob.nunit
		o.Dist["bin:unit-metadata-out"] += rb.nunit
		o.Add(c, in, key, sc.nresults > 0, tags...)
	}
	return nil
}

// ---------- one Reader reused through Reset, streamed into one Writer ----------

type c01ResetInput struct {
	Kind  string    `json:"kind"` // reset-stream
	Files []c02File `json:"files"`
}

func c01Reset(o *hx.Out, files []c02File, raw []string, tags ...string) (err error) {
	in := c01ResetInput{Kind: "reset-stream", Files: files}
	key := "reset\x01" + fmt.Sprint(files)
	defer func() {
		if p := recover(); p != nil {
			o.Count("panic")
			o.Add(hx.L(hx.I(3)), in, key, false, append(tags, "panic")...)
			err = nil
		}
	}()
	rd := new(benchfmt.Reader)
	var buf bytes.Buffer
	w := benchfmt.NewWriter(&buf)
	ob := &c02Obs{}
	ft := &c01Fmt{seen: map[uint64]bool{}}
	crValue := false
	var fsx []hx.Sx
	// class bookkeeping: a key that is an initial label in one input and is set by
	// the first line of that or of the next input (internal <-> file in one slot)
	collide := 0
	for i, f := range files {
		var lab []string
		var labx []hx.Sx
		for _, kv := range f.Labels {
			lab = append(lab, kv[0], kv[1])
			labx = append(labx, hx.L(hx.S(kv[0]), hx.S(kv[1])))
		}
		first := ""
		if j := strings.IndexByte(raw[i], ':'); j > 0 {
			first = raw[i][:j]
		}
		for _, kv := range f.Labels {
			if kv[0] == first && kv[1] != "" {
				collide++
			}
		}
		rd.Reset(strings.NewReader(raw[i]), f.Name, lab...)
		for rd.Scan() {
			rec := rd.Result()
			if e := ob.add(rec); e != nil {
				return e
			}
			if res, ok := rec.(*benchfmt.Result); ok {
				for _, v := range res.Values {
					if v.OrigUnit == "" {
						ft.add(v.Value)
					} else {
						ft.add(v.OrigValue)
					}
				}
				for _, c := range res.Config {
					if c.File && len(c.Value) > 0 && c.Value[len(c.Value)-1] == '\r' {
						crValue = true
					}
				}
			}
			if e := w.Write(rec); e != nil {
				return e
			}
		}
		if rd.Err() != nil {
			o.Count("reset:skipped-io-error")
			return nil
		}
		fsx = append(fsx, hx.L(hx.S(f.Name), hx.List(labx), hx.S(raw[i])))
	}
	out := buf.Bytes()
	rb, errx, e := c01ReadBack(out)
	if e != nil {
		return e
	}
	if crValue {
		tags = append(tags, "C01_value_ends_with_CR")
		o.Count("class:file-value-ends-with-CR")
	}
	if collide > 0 {
		o.Count("class:reset:initial-label-key-also-set-by-first-line")
	}
	o.Count(fmt.Sprintf("reset:inputs=%d", len(files)))
	c := hx.L(hx.I(5), c02Oracle(append(append([]string{}, raw...), string(out))), hx.List(ft.out), hx.List(fsx),
		hx.List(ob.recs), hx.B(out), hx.List(rb.recs), errx)
	o.Add(c, in, key, ob.nres > 0, tags...)
	return nil
}

// ---------- churn texts ----------

var c01ChurnPools = [][]string{
	{"linux", "amd64", "win32", "plan9", "riscv"},
	{"v1", "v2", "v3", "v4", "é"}, // "é" is two bytes
	{"a b c", "x:y z", "12345", "k: v1"},
	{"1", "2", "3", "x"},
}

// c01ChurnText: 1-3 keys; one main key takes 4-8 successive values of one
// length with 1-2 results after every change; other keys change, are deleted
// and re-added around it; unit lines and foreign lines in between.
func c01ChurnText(r *hx.Rng) string {
	keys := []string{"goos", "pkg", "k1"}
	for i := len(keys) - 1; i > 0; i-- {
		j := r.Intn(i + 1)
		keys[i], keys[j] = keys[j], keys[i]
	}
	keys = keys[:r.Range(1, 3)]
	pool := map[string][]string{}
	for _, k := range keys {
		pool[k] = c01ChurnPools[r.Intn(len(c01ChurnPools))]
	}
	cur := map[string]string{}
	var sb strings.Builder
	set := func(k string) {
		p := pool[k]
		v := p[r.Intn(len(p))]
		for v == cur[k] {
			v = p[r.Intn(len(p))]
		}
		cur[k] = v
		sb.WriteString(k + ": " + v + "\n")
	}
	bench := func() {
		u := []string{"ns/op", "MB/s", "B/op", "widgets", "sec/op"}
		name := []string{"X", "Y/n=1-4", "Z"}[r.Intn(3)]
		if r.Chance(0.15) {
			name = c01KeywordNames[r.Intn(len(c01KeywordNames))] // BenchmarkBenchmark..., BenchmarkUnit, Benchmarkok ...
		}
		fmt.Fprintf(&sb, "Benchmark%s %d %v %s", name, r.Range(1, 1000), float64(r.Intn(10000))/8, u[r.Intn(len(u))])
		if r.Chance(0.4) {
			fmt.Fprintf(&sb, " %v %s", float64(r.Intn(1000)), u[r.Intn(len(u))])
		}
		sb.WriteString("\n")
	}
	n := r.Range(4, 8)
	for i := 0; i < n; i++ {
		set(keys[0])
		for _, k := range keys[1:] {
			switch r.Intn(5) {
			case 0:
				set(k)
			case 1:
				if cur[k] != "" {
					delete(cur, k)
					sb.WriteString(k + ":\n")
				}
			}
		}
		switch r.Intn(8) {
		case 0:
			sb.WriteString("Unit " + []string{"ns/op better=lower", "MB/s better=higher", "widgets assume=exact", "sec/op better=lower"}[r.Intn(4)] + "\n")
		case 1:
			sb.WriteString([]string{"PASS", "ok  \tpkg\t1.2s", "", "--- BENCH: BenchmarkX", "Goos: linux"}[r.Intn(5)] + "\n")
		}
		bench()
		if r.Chance(0.4) {
			bench()
		}
	}
	return sb.String()
}
