package main

import (
	"fmt"
	"strconv"

	"golang.org/x/perf/benchfmt"
	"verifharness/internal/hx"
)

// Two literal terms in ONE filter whose (key, value) pairs differ but whose
// concatenations coincide: key x+s+y with value z against key x with value
// y+s+z, for the separators s a cache key or a printed form might use
// (":", "=", "", " ", "|", ","). Each term denotes exactly its own pair, so
// on a result where the two pairs hold different truth values the meaning of
// T1 OR T2, T1 AND T2, T1 -T2 ... tells them apart. Keys are file / internal
// configuration keys (set through the API, as quoted literals in the
// expression) and, for s = ":", sub-name keys /x:y=z next to /x=y:z.
// Judged as every kind-1 filter case (boolean meaning on the result alone).

var c06CollideSeps = []string{":", "=", "", " ", "|", ","}
var c06CollideAtoms = []string{"a", "b", "c", "goos", "x1", "é", "k"}

func c06CollideOne(o *hx.Out, r *hx.Rng, n int) error {
	s := c06CollideSeps[r.Intn(len(c06CollideSeps))]
	x, y, z := r.Pick(c06CollideAtoms), r.Pick(c06CollideAtoms), r.Pick(c06CollideAtoms)
	k1, v1, k2, v2 := x+s+y, z, x, y+s+z
	inName := s == ":" && r.Chance(0.4)
	hold1, hold2 := r.Bool(), r.Bool()
	if r.Chance(0.6) {
		hold2 = !hold1 // the telling case: the two terms disagree on this result
	}
	other := func(v string) string { return r.Pick([]string{v + "x", "x" + v, "other"}) }
	a1, a2 := v1, v2
	if !hold1 {
		a1 = other(v1)
	}
	if !hold2 {
		a2 = other(v2)
	}
	name := r.Pick([]string{"Fib", "X/k=1", "Sort-8"})
	res := &benchfmt.Result{Iters: 7}
	in := c06Input{}
	if inName {
		k1, k2 = "/"+k1, "/"+k2
		parts := []string{k1 + "=" + a1, k2 + "=" + a2}
		if r.Bool() {
			parts[0], parts[1] = parts[1], parts[0]
		}
		name = "Fib" + parts[0] + parts[1]
	} else {
		set := func(k, v string) {
			res.SetConfig(k, v)
			if i, ok := res.ConfigIndex(k); ok {
				kind := "file"
				if r.Chance(0.25) {
					res.Config[i].File = false
					kind = "internal"
				}
				in.Config = append(in.Config, [3]string{k, v, kind})
			}
		}
		if r.Bool() {
			set(k1, a1)
			set(k2, a2)
		} else {
			set(k2, a2)
			set(k1, a1)
		}
		if r.Chance(0.5) {
			set("goarch", "amd64")
		}
	}
	res.Name = benchfmt.Name(name)
	in.Name = name
	for i := 0; i < n; i++ {
		u := c06Units[r.Intn(3)]
		res.Values = append(res.Values, benchfmt.Value{Value: float64(i), Unit: u[0], OrigValue: float64(i), OrigUnit: u[1]})
		in.Units = append(in.Units, u)
	}
	t1 := strconv.Quote(k1) + ":" + strconv.Quote(v1)
	t2 := strconv.Quote(k2) + ":" + strconv.Quote(v2)
	if r.Bool() {
		t1, t2 = t2, t1
	}
	tmpl := []string{"%s OR %s", "%s AND %s", "%s %s", "%s -%s", "-%s OR %s", "-%s -%s", "(%s OR %s) .unit:sec/op",
		"%[1]s OR %[2]s OR %[1]s", "-(%s OR %s)", "(%[1]s AND -%[2]s) OR (-%[1]s AND %[2]s)", "%s OR (.unit:B/op AND %s)"}
	q := fmt.Sprintf(tmpl[r.Intn(len(tmpl))], t1, t2)
	o.Count(fmt.Sprintf("collide sep=%q name-key=%v hold=%v/%v", s, inName, hold1, hold2))
	return c06FilterOn(o, res, in, q, "collide")
}

func c06Collide(o *hx.Out, r *hx.Rng, tier string) error {
	per := 60
	if tier == "thorough" {
		per = 900
	}
	for _, n := range []int{1, 2, 33} {
		for i := 0; i < per; i++ {
			if err := c06CollideOne(o, r, n); err != nil {
				return err
			}
		}
	}
	return nil
}
